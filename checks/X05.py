"""X05 — server-side NOTIFY and XFR request handling, the response batcher and
the XFR concurrency limits (spec/NotifyXfrReq.tla, NotifyXfrReqConc.tla,
Batcher.tla / BatcherFn.tla)."""
import json
import os
import re
import vlib

META = {
    "category": "model_checking",
    "properties": [
        "P1 NotifyGate: the Notifiable callback runs only for a NOTIFY request (opcode NOTIFY, QR=0, first question SOA), at most once, with that question's class/name and the serial of a leading answer SOA, before any response; NOERROR+QR+AA+opcode NOTIFY iff it accepted, NOTAUTH iff not authoritative, SERVFAIL otherwise; never answered by the inner services",
        "P2 Transparent: every other message (NOTIFY responses, other QTYPEs/opcodes, QR=1, QDCOUNT != 1) reaches the next service exactly once and unchanged (octets, transport, reserved octets, metadata), its response is returned unchanged, callback and data provider are not consulted; no request makes the stack panic or hang",
        "P3 XfrGate: answer records leave the server only after the data provider was asked exactly once with this request and its key and agreed; refusals map to REFUSED/NOTAUTH/SERVFAIL/FORMERR with empty answer; IXFR without authority SOA is FORMERR without asking; AXFR over UDP never carries records",
        "P4 XfrShape: UDP: exactly one message, the whole IXFR response if it fits else the lone current SOA; TCP: Begin, messages, End; first and last record the current SOA; IXFR from the current/a newer serial -> lone SOA, from a known older serial -> difference sequences oldest first, else full zone; messages are THE greedy partition of the record stream: none empty, none above the limit, one record each in compatibility mode",
        "B1-B5 Batcher: batches handed out + records in the builder = accepted records in order (exactly once); no batch empty / above the push limit / above the record limit; a batch is closed only when the next record does not fit or the record limit is reached; a record that fits no message is an error (no hang, nothing lost, batcher usable); must-fit hands out nothing before finish()",
        "C1-C3 Concurrency: at most N zone walks and N responders at any time; permits conserved and returned on every exit path (completion, error, client drop); no deadlock and every transfer whose client keeps reading completes (weak fairness) - for the ordered design; TLC shows the unordered hold-both design deadlocks when the zone exceeds the channel",
    ],
    "text": "NotifyXfrReq.tla transcribes NotifyMiddlewareSvc and XfrMiddlewareSvc (classification, callback, provider, NOTIMP/FORMERR/REFUSED/NOTAUTH/SERVFAIL decisions, single-SOA rules, the responder over BatcherFn's packing function, transaction feedback) as a machine with one action per step of Service::call and as the function the bindings use (TLC checks they agree); P1-P4 are invariants over the request grid opcode x QR x QDCOUNT x QTYPE x class x zone x transport/hint/reserved x answer section x authority serial x key x (key policy, availability, notify target, compatibility mode, sync/async store, zone and diff sizes). Batcher.tla is CallbackBatcher push/finish with the XFR callbacks; NotifyXfrReqConc.tla the funneler/responder tasks, the two semaphores, the bounded channel and client drops over all interleavings with liveness. Every grid case is executed on the real Notify(Xfr(next)) stack (real MessageBuilder requests, a recording next service, Notifiable and XfrDataProvider in front of the library's ZoneTree provider, ordered/gated ZoneDiff and ZoneStore mocks) comparing callback log, provider log, what the next service saw and the whole response stream; every batcher behaviour on the real CallbackBatcher; gated concurrency scenarios on the real semaphores. Recorded random runs (serials across 2^32, random sizes/limits, async stores, huge diffs) are validated by three Trace_ modules.",
    "note": "Trusted: TLC, the transcription, the harness's projection. The TSIG layer is represented by the request metadata it would attach (C11 covers TSIG itself); the content of transfers as seen by a receiver is C10. A message of exactly `limit` octets is left open (C02): generated cases and recorders avoid it. OPT records of error responses and transaction feedback on UDP are not compared. The late SERVFAIL of the diff funneler depends on task scheduling below the channel capacity: S->I cases keep clear of that band, traces admit both. Walk concurrency is observed with real threads: a missed overlap can only hide the known finding, never raise an alarm.",
    "technique": "TLA+ specs (NotifyXfrReq, NotifyXfrReqConc, Batcher) + TLC exhaustive incl. liveness; spec->impl grid/behaviour/scenario replay; impl->spec trace validation",
    "design_ref": "DESIGN.md §8 (Xfr: NOTIFY middleware; Server)",
}

REPLAY_BIN = "replay_notifyxfr"

# deviation -> (focus grid, invariant it breaks on the model)
DEVS = {
    "D_notify_qr_ignored": "P1_NotifyGate",
    "D_notify_malformed_panic": "P1_NotifyGate",
    "D_xfr_pass_drops_meta": "P2_Transparent",
    "D_ixfr_uptodate_full_zone": "P4_XfrShape",
    "D_ixfr_udp_extra_servfail": "P4_XfrShape",
    "D_axfr_async_walk_panic": "P4_XfrShape",
    "D_axfr_soa_diffs_unreachable": "P2_Transparent",
}
CONC_DEV = "D_xfr_permits_not_held"
MACHINE_ACTIONS = ["DoRecv", "NotifyPre", "NotifyReply", "XfrPre", "XfrAcl", "XfrRespond", "Next", "Done"]


def _first_lines(path, n, out):
    with open(path) as f, open(out, "w") as g:
        for i, line in enumerate(f):
            if i >= n:
                break
            g.write(line)


def run(ctx):
    thorough = ctx.tier == "thorough"
    suf = "_thorough" if thorough else ""
    open_devs = set(ctx.open_devs)
    env_devs = {"X05_" + d: "1" for d in open_devs if d in DEVS}
    conc_open = CONC_DEV in open_devs
    ctx.build("replay_notifyxfr", "record_notifyxfr")

    # ---- 1. TLC decides the properties on the specifications ----
    mb = ctx.tlc("MC_Batcher", "MC_Batcher" + suf, workers=4, label="mc-batcher")
    ctx.require_ok(mb, "MC_Batcher (B1-B5, FnAgrees)")
    ctx.require_actions(mb, ["DoPush", "DoFinish"])
    for v in ("NeverErr", "NeverMustFit", "NeverThreeBatches"):
        r = ctx.tlc("MC_Batcher", "MC_Batcher_vac_" + v, workers=2, label="vac-" + v,
                    expect_violation=v, count=False, coverage=False)
        ctx.require_ok(r, "vacuity: %s is reachable" % v)
    mc = ctx.tlc("MC_NotifyXfrReq", "MC_NotifyXfrReq" + suf, workers=8, label="mc-req",
                 timeout=3000)
    ctx.require_ok(mc, "MC_NotifyXfrReq (P1-P4, MachineIsFunction; Dev = {})")
    ctx.require_actions(mc, MACHINE_ACTIONS)
    for d, inv in sorted(DEVS.items()):
        if d in open_devs:
            r = ctx.tlc("MC_NotifyXfrReq", "MC_NotifyXfrReq_" + d, workers=4, label="dev-" + d,
                        expect_violation=inv, count=False, coverage=False)
            ctx.require_ok(r, "deviation %s breaks %s on the model" % (d, inv))
    cc = ctx.tlc("MC_NotifyXfrReqConc", "MC_NotifyXfrReqConc" + ("_thorough" if thorough else "_quick"),
                 workers=8, label="mc-conc", timeout=3000)
    ctx.require_ok(cc, "MC_NotifyXfrReqConc (C1-C3 with liveness, ordered design)")
    ctx.require_actions(cc, ["Start", "BAcquire", "FAcquire", "GSend", "FDone", "BRecv", "BFail", "BDone", "GDrop"])
    if thorough:
        for c in ("", "_n1"):
            r = ctx.tlc("MC_NotifyXfrReqConc", "MC_NotifyXfrReqConc" + c, workers=8, label="mc-conc" + c)
            ctx.require_ok(r, "MC_NotifyXfrReqConc" + c)
    r = ctx.tlc("MC_NotifyXfrReqConc", "MC_NotifyXfrReqConc_gated", workers=2, label="mc-conc-gated",
                coverage=False)
    ctx.require_ok(r, "MC_NotifyXfrReqConc gated (QuiescentLaw)")
    r = ctx.tlc("MC_NotifyXfrReqConc", "MC_NotifyXfrReqConc_unordered_small", workers=2,
                label="mc-conc-unordered-small", coverage=False)
    ctx.require_ok(r, "unordered design is fine while the zone fits the channel")
    r = ctx.tlc("MC_NotifyXfrReqConc", "MC_NotifyXfrReqConc_unordered", workers=2,
                label="mc-conc-unordered", coverage=False, count=False)
    if "Temporal property C3_Progress was violated" not in open(r.log).read():
        raise vlib.ToolError("the unordered hold-both design unexpectedly satisfies C3_Progress")
    if conc_open:
        r = ctx.tlc("MC_NotifyXfrReqConc", "MC_NotifyXfrReqConc_asbuilt", workers=2, label="dev-" + CONC_DEV,
                    expect_violation="C1_Bounded", count=False, coverage=False)
        ctx.require_ok(r, "deviation %s breaks C1_Bounded on the model" % CONC_DEV)
        r = ctx.tlc("MC_NotifyXfrReqConc", "MC_NotifyXfrReqConc_gated_asbuilt", workers=2,
                    label="mc-conc-gated-asbuilt", coverage=False, count=False)
        ctx.require_ok(r, "as-built gated model (QuiescentLaw: every started transfer runs)")
    ctx.exhaustive_flags.append(True)

    # ---- 2. S->I: the request grid through the real stack ----
    grid = os.path.join(ctx.work, "grid.ndjson")
    gen = ctx.tlc("MC_NotifyXfrReqGen", "MC_NotifyXfrReqGen" + suf, workers=8, label="gen-grid",
                  coverage=False, cases_to=grid, count=False, env=env_devs, timeout=3000)
    ctx.require_ok(gen, "MC_NotifyXfrReqGen")
    if gen.ncases < 15000:
        raise vlib.ToolError("grid generator produced too few cases (%d)" % gen.ncases)
    # vacuity of the grid: every class of outcome is present
    cls = {"notify_ok": 0, "notauth": 0, "pass": 0, "refused": 0, "notimp": 0, "formerr": 0,
           "multi_msg": 0, "udp_fits": 0, "udp_soa_only": 0, "soa_only_uptodate": 0, "compat": 0,
           "too_small": 0, "ixfr_diffs": 0}
    with open(grid) as f:
        for line in f:
            o = json.loads(line)
            rq, c, e = o["in"]["req"], o["in"]["cfg"], o["exp"]
            msgs = [x for x in e["rs"] if x["k"] == "msg"]
            if e["cb"] and msgs and msgs[0]["rc"] == 0:
                cls["notify_ok"] += 1
            if e["cb"] and msgs and msgs[0]["rc"] == 9:
                cls["notauth"] += 1
            if e["nx"]:
                cls["pass"] += 1
            if e["pv"] and msgs:
                rc = msgs[-1]["rc"]
                cls["refused"] += rc == 5
                cls["notimp"] += rc == 4
                if rc == 0:
                    recs = sum(len(m["an"]) for m in msgs)
                    cls["multi_msg"] += len(msgs) >= 3
                    cls["udp_fits"] += bool(rq["udp"] and recs > 1)
                    cls["udp_soa_only"] += bool(rq["udp"] and recs == 1 and rq["ns"] in ("old", "mid", "gap"))
                    cls["soa_only_uptodate"] += bool(recs == 1 and rq["ns"] in ("cur", "new"))
                    cls["compat"] += bool(c["compat"] and len(msgs) == recs and recs > 2)
                    cls["ixfr_diffs"] += any("S:old" in m["an"] or "S:mid" in m["an"] for m in msgs)
                if rc == 2 and len(msgs) >= 1 and not rq["udp"] and e["rs"][0]["k"] == "fb":
                    cls["too_small"] += 1
            if not e["pv"] and not e["nx"] and not e["cb"] and msgs and msgs[0]["rc"] == 1:
                cls["formerr"] += 1
    missing = [k for k, v in cls.items() if not v]
    if missing:
        raise vlib.ToolError("vacuous grid: no case of class %s" % missing)
    ctx.stage("grid-classes", cls)
    head = os.path.join(ctx.work, "head.ndjson")
    _first_lines(grid, 30, head)
    rc, out, err, _ = ctx.run_bin("replay_notifyxfr", ["--selftest-perturb"], stdin_path=head)
    ctx.selftest("perturbed expectation is reported by replay_notifyxfr", "FAIL " in out)
    # a NOTIMP case presented as a granted transfer, a REFUSED case presented as one
    done = set()
    with open(grid) as f:
        for line in f:
            o = json.loads(line)
            rq, e = o["in"]["req"], o["exp"]
            msgs = [x for x in e["rs"] if x["k"] == "msg"]
            kind = None
            if "a" not in done and msgs and msgs[0]["rc"] == 4:
                kind = "a"
            elif "b" not in done and msgs and msgs[0]["rc"] == 5 and rq["key"] == "bad":
                kind = "b"
            elif "c" not in done and e["cb"] and msgs[0]["rc"] == 0 and "dev" not in o:
                kind = "c"
            if kind in ("a", "b"):
                o["exp"] = dict(e, rs=[{"k": "msg", "rc": 0, "aa": True, "op": 0, "hdr": "ok", "q": "all",
                                        "an": ["S:cur"], "nsc": 0}])
                o.pop("dev", None)
            elif kind == "c":
                o["exp"] = dict(e, cb=[])
            if kind:
                done.add(kind)
                bad = os.path.join(ctx.work, "bad-%s.ndjson" % kind)
                open(bad, "w").write(json.dumps(o) + "\n")
                rc, out, err, _ = ctx.run_bin("replay_notifyxfr", [], stdin_path=bad)
                ctx.selftest({"a": "AXFR over UDP expected to carry data is reported",
                              "b": "a transfer expected despite a wrong key is reported",
                              "c": "an accepted NOTIFY expected without callback is reported"}[kind],
                             "FAIL " in out)
            if len(done) == 3:
                break
    if len(done) < 3:
        raise vlib.ToolError("grid lacks a NOTIMP / REFUSED / accepted NOTIFY case")
    s = ctx.replay_cases("replay_notifyxfr", grid, label="grid")

    # ---- 3. S->I: batcher behaviours, concurrency scenarios ----
    beh = os.path.join(ctx.work, "batch.ndjson")
    gb = ctx.tlc("BatcherGen", "BatcherGen" + suf, workers=8, label="gen-batch", coverage=False,
                 cases_to=beh, count=False)
    ctx.require_ok(gb, "BatcherGen")
    if gb.ncases < 20000:
        raise vlib.ToolError("batcher generator produced too few behaviours (%d)" % gb.ncases)
    # a behaviour with a record moved to the next batch must be reported
    with open(beh) as f:
        for line in f:
            o = json.loads(line)
            last = o["exp"][-1]
            if last["res"] == "fin" and len(last["out"]) >= 2 and len(last["out"][0]["recs"]) >= 2:
                x = last["out"][0]["recs"].pop()
                last["out"][1]["recs"].insert(0, x)
                bad = os.path.join(ctx.work, "bad-batch.ndjson")
                open(bad, "w").write(json.dumps(o) + "\n")
                rc, out, err, _ = ctx.run_bin("replay_notifyxfr", [], stdin_path=bad)
                ctx.selftest("a record expected one batch later is reported", "FAIL " in out)
                break
        else:
            raise vlib.ToolError("no two-batch behaviour generated")
    ctx.replay_cases("replay_notifyxfr", beh, label="batcher")
    conc = os.path.join(ctx.work, "conc.ndjson")
    with open(conc, "w") as g:
        for n in (1, 2):
            part = os.path.join(ctx.work, "conc-%d.ndjson" % n)
            r = ctx.tlc("NotifyXfrReqConcGen", "NotifyXfrReqConcGen_n%d" % n, workers=1,
                        label="gen-conc-n%d" % n, coverage=False, cases_to=part, count=False)
            ctx.require_ok(r, "NotifyXfrReqConcGen N = %d" % n)
            seen = set()
            for line in open(part):
                if line not in seen:
                    seen.add(line)
                    g.write(line)
    ncon = sum(1 for _ in open(conc))
    if ncon < 40:
        raise vlib.ToolError("too few concurrency scenarios (%d)" % ncon)
    ctx.replay_cases("replay_notifyxfr", conc, label="concurrency")

    # ---- 4. I->S: recorded random runs validated by TLC ----
    n_tr = 3 if thorough else 1
    tot = {}
    for i in range(n_tr):
        prefix = os.path.join(ctx.work, "tr%d" % i)
        rc, out, err, _ = ctx.run_bin("record_notifyxfr", [prefix, str(ctx.seed * 100 + i),
                                                            "6000" if thorough else "1500"])
        m = re.search(r"RECORDED (\{.*\})", out)
        if rc != 0 or not m:
            raise vlib.ToolError("record_notifyxfr failed: " + (out + err)[-600:])
        st = json.loads(m.group(1))
        for k, v in st["calls"].items():
            tot[k] = tot.get(k, 0) + v
        ctx.evaluations += st["calls"]["calls"] + st["batch"]["pushes"] + st["conc"]["scenarios"]
        calls = prefix + "-calls.ndjson"
        ok, res, rej = ctx.validate_trace("Trace_NotifyXfrReq", "Trace_NotifyXfrReq", calls,
                                          label="trace-calls-%d" % i, env=env_devs)
        ctx.traces += 1
        if not ok:
            ctx.violation("a recorded call of the real stack has not the specified outcome",
                          dict(rej or {}, trace_seed=ctx.seed * 100 + i))
        bt = prefix + "-batch.ndjson"
        ok, res, rej = ctx.validate_trace("Trace_Batcher", "Trace_Batcher", bt, label="trace-batch-%d" % i)
        ctx.traces += 1
        if not ok:
            ctx.violation("a recorded CallbackBatcher run is not a behaviour of Batcher.tla",
                          dict(rej or {"violated": res.violated}, trace_seed=ctx.seed * 100 + i))
        conc_cfg = {}
        for n in (1, 2, 3):
            ct = "%s-conc-n%d.ndjson" % (prefix, n)
            cfg = "Trace_NotifyXfrReqConc_n%d" % n
            ok, res, rej = ctx.validate_trace("Trace_NotifyXfrReqConc", cfg, ct,
                                              label="trace-conc-%d-n%d" % (i, n))
            if not ok and conc_open:
                # the run is not one of the specified design; is it one of the code as built?
                cfg += "_asbuilt"
                ok, res, rej2 = ctx.validate_trace("Trace_NotifyXfrReqConc", cfg, ct,
                                                   label="trace-conc-%d-n%d-asbuilt" % (i, n))
                if ok:
                    ctx.known(CONC_DEV, {"trace": "conc-n%d" % n, "rejected_by_specified_model": rej})
            conc_cfg[n] = cfg
            ctx.traces += 1
            if not ok:
                ctx.violation("a recorded concurrency scenario is not a behaviour of NotifyXfrReqConc.tla",
                              dict(rej or {"violated": res.violated}, trace_seed=ctx.seed * 100 + i, n=n))
        if i == 0:
            # (a) a REFUSED turned into NOERROR, (b) a record moved between batches,
            # (c) one more running transfer than recorded
            lines = open(calls).read().splitlines()
            for j, l in enumerate(lines):
                o = json.loads(l)
                ms = [x for x in o["obs"]["rs"] if x["k"] == "msg"]
                if len(ms) == 1 and ms[0]["rc"] == 5:
                    ms[0]["rc"] = 0
                    badp = os.path.join(ctx.work, "bad-calls.ndjson")
                    open(badp, "w").write("\n".join(lines[:j] + [json.dumps(o)] + lines[j + 1:]) + "\n")
                    ok2, _, _ = ctx.validate_trace("Trace_NotifyXfrReq", "Trace_NotifyXfrReq", badp,
                                                   label="trace-selftest-calls", env=env_devs)
                    ctx.selftest("corrupted call trace (REFUSED turned into NOERROR) is rejected", not ok2)
                    break
            else:
                raise vlib.ToolError("call trace has no REFUSED event")
            lines = open(bt).read().splitlines()
            for j, l in enumerate(lines):
                o = json.loads(l)
                if o["ev"] == "finish" and len(o["out"]) >= 2 and len(o["out"][0]["recs"]) >= 2:
                    x = o["out"][0]["recs"].pop()
                    o["out"][0]["size"] -= x
                    o["out"][1]["recs"].insert(0, x)
                    o["out"][1]["size"] += x
                    badp = os.path.join(ctx.work, "bad-batch-trace.ndjson")
                    open(badp, "w").write("\n".join(lines[:j] + [json.dumps(o)] + lines[j + 1:]) + "\n")
                    ok2, _, _ = ctx.validate_trace("Trace_Batcher", "Trace_Batcher", badp,
                                                   label="trace-selftest-batch")
                    ctx.selftest("corrupted batcher trace (record moved to the next batch) is rejected", not ok2)
                    break
            else:
                raise vlib.ToolError("batcher trace has no two-batch run")
            ct = prefix + "-conc-n1.ndjson"
            lines = open(ct).read().splitlines()
            for j, l in enumerate(lines):
                o = json.loads(l)
                if o["ev"] == "rest":
                    o["active"] += 1
                    badp = os.path.join(ctx.work, "bad-conc.ndjson")
                    open(badp, "w").write("\n".join(lines[:j] + [json.dumps(o)] + lines[j + 1:]) + "\n")
                    ok2, _, _ = ctx.validate_trace("Trace_NotifyXfrReqConc", conc_cfg[1], badp,
                                                   label="trace-selftest-conc")
                    ctx.selftest("a scenario with one more running transfer than recorded is rejected", not ok2)
                    break
            else:
                raise vlib.ToolError("concurrency trace has no rest event")
    need = ["multi_msg", "notify_ok", "passed", "refused", "udp_soa_only", "wrapped", "xfr_streams"]
    vac = [k for k in need if not tot.get(k)]
    if vac:
        raise vlib.ToolError("vacuous traces: none of %s" % vac)
    ctx.stage("trace-stats", tot)
    if tot.get("panics") and not ({"D_notify_malformed_panic", "D_axfr_soa_diffs_unreachable"} & open_devs):
        ctx.violation("the stack panicked on a recorded request", {"panics": tot["panics"]})

    ctx.assume("the TSIG layer is represented by the request metadata it attaches (Option<key>); TSIG itself is C11")
    ctx.assume("a message of exactly `limit` octets may be accepted or refused (MessageBuilder refuses new_pos >= limit; C02 leaves it open): cases and recorders avoid that total")
    ctx.assume("OPT records in error responses (added by mk_error_response, stripped by the EDNS middleware) and transaction feedback on UDP are not compared")
    ctx.assume("below the channel capacity the diff funneler's late SERVFAIL depends on task scheduling: generated cases use streams <= 50 or >= 150 records, traces admit both outcomes while the finding is open")
    ctx.assume("zone-walk concurrency is observed with real blocking threads held at a gate; a missed overlap can only hide the known finding")


def explain(ctx, dev):
    if dev == CONC_DEV:
        r = ctx.tlc("MC_NotifyXfrReqConc", "MC_NotifyXfrReqConc_asbuilt", workers=2, label="explain", coverage=False)
    else:
        r = ctx.tlc("MC_NotifyXfrReq", "MC_NotifyXfrReq_" + dev, workers=4, label="explain", coverage=False)
    print(open(r.log).read()[-6000:])
