"""C11 — TSIG (spec/Tsig.tla, spec/MC_Tsig.tla, spec/MC_TsigKeys.tla, spec/Trace_Tsig.tla)."""
import json
import os
import vlib

ACTIONS = ["ClientRequest", "ClientRecompose", "AdvFlipBody", "AdvFlipMac", "AdvTruncMac", "AdvExtendMac", "AdvRenameKey",
           "AdvRecaseKey", "AdvSwapAlg", "AdvChangeOrigId", "AdvRewriteId", "AdvShiftTime",
           "AdvStripTsig", "AdvMoveTsig", "AdvDupTsig", "AdvSetErr", "AdvSetOther",
           "AdvForgeErr", "AdvInsertUnsigned", "AdvAlgName", "AdvKeyName", "AdvClassTtl", "AdvLengths", "ServerRequest", "ServerErrorResponse",
           "ServerAnswer", "RfcAnswer", "RfcUnsigned", "ClientAnswer", "ClientDone"]

# deviation -> invariant of MC_Tsig that documents it
DEVS = {
    "D_server_seq_full_prior_mac": "LayoutFollowsRfc",
    "D_badtime_other_8": "LayoutFollowsRfc",
    "D_server_badsig_formerr": "TamperRejected",
    "D_server_error_panic": "NoPanic",
    "D_other_not6_unsigned": "TamperRejected",
    "D_tsig_class_ttl_unchecked": "AcceptedWasSigned",
}
# spec-level mutants (never open): module, switch -> invariant that notices it
MUTANTS = [("MC_Tsig", "M_alg_first_label", "TamperRejected"),
           ("MC_Tsig", "M_alg_first_label", "AcceptedWasSigned"),
           ("MC_TsigKeys", "M_alg_first_label", "NamesPerRfc"),
           ("MC_TsigKeys", "M_len_floor_min", "AdmittedPerRfc"),
           ("MC_TsigKeys", "M_len_floor_min", "NoShortMacAccepted")]
KEY_ACTIONS = ["KeyNew", "KeySign", "PresentToServer", "PresentToClient", "AlgName", "AlgStr", "AlgShow"]
KEY_INVS = ["AdmittedPerRfc", "SignsWithSigningLen", "NoShortMacAccepted", "DecisionPerPolicy",
            "NamesPerRfc", "NamesRoundTrip"]
KEYS_TEMPLATE = """CONSTANTS
  Dev = {%(dev)s}
  Grid = "%(grid)s"
  PresentAll = %(pall)s
  MaxLabels = %(labels)d
SPECIFICATION Spec
%(invs)s
CHECK_DEADLOCK FALSE
"""

META = {
    "category": "model_checking",
    "text": "TLC explores every TSIG exchange of the transcribed ClientTransaction/ClientSequence/ServerTransaction/ServerSequence/ServerError machines against an on-path adversary (17 kinds of tampering of contents and fields plus 20 structural mutations of the TSIG record itself at every message: algorithm and key name as names - labels appended / removed / prefixed, doubled, HMAC-x.SIG-ALG.REG.INT, root, other case, compressed, dangling pointer -, CLASS / TTL of the RR, RDLENGTH and Other Len that disagree with the RDATA), skewed clocks, truncation policies the RCODE x TSIG-error field of signed answers (time window enforced whenever the MAC verifies, except the RFC's NOTAUTH error answers), and an independent RFC 8945 responder that leaves answers unsigned (including runs of 99 and 100), with HMAC as a free constructor, and proves honest-verifies, the RFC-assigned error for every tampering, octet restoration, the 99/100 bound, that every MAC is the HMAC of the declarative RFC digest, and that whatever a receiver accepts carries the MAC of the RFC 8945 4.3.3 digest of the message as received (names, CLASS, TTL of the record included). A second machine (MC_TsigKeys) covers the key-configuration space: Key::new / Key::generate with every (algorithm, min_mac_len, signing_len) in and out of range are admitted exactly within [max(10, half the hash length), hash length], every admitted key signs with signing_len octets and, as server and as client, decides a presented MAC of every length 0..native+1 as RFC 8945 5.2.2.1 demands (never below the floor, BADTRUNC below the policy); Algorithm::from_name / to_name / FromStr / Display are a bijection on every name of up to 3 labels over supported names and near misses. Every explored behaviour is replayed with the real API, real messages and ring keys (MACs compared with an independent HMAC of the spec's term), and recorded random exchanges (octets, independent digest inputs) are validated by TLC.",
    "note": "Where RFC 8945 leaves the receiver a choice the specification admits a set: an algorithm name in another case may be recognised or BADKEY, compressed names accepted or FORMERR, a wrong CLASS / TTL FORMERR or BADSIG (on a second or later answer of a sequence, where only the timers are signed, also accepted). Open deviation D_tsig_class_ttl_unchecked: the library never looks at CLASS / TTL of a received TSIG RR (proposed_fixes/); while it is open the wrappers' run leaves the CLASS / TTL mutations to the base-API executor. Compression pointers of generated behaviours target the second flags octet (a root label in requests and NOERROR answers), recorded traces use the question name. Wrappers (net::client::tsig::Connection, TsigMiddlewareSvc) are driven back-to-back in memory with a re-composing mock transport, honest clocks. Trusted: TLC, ring's HMAC, the transcription of RFC 8945 4.3/5.2/5.3 in Tsig.tla, the harness codec. Symbolic crypto: unknown digest => unknown MAC. A MAC below the policy minimum may be BADTRUNC or FORMERR; the result of the client on an unsigned error answer is compared by class. 'Restored octets' = the message up to its last counted record (the library documents that the stale TSIG octets stay behind the message).",
    "technique": "TLA+ spec (Tsig.tla, MC_Tsig.tla, MC_TsigKeys.tla) + TLC exhaustive; spec->impl behaviour replay with independent HMAC; impl->spec trace validation (Trace_Tsig.tla)",
    "design_ref": "DESIGN.md §4 C11",
}

GEN_TEMPLATE = """CONSTANTS
  Dev = {%(dev)s}
  KeyCfgs <- %(keys)s
  Modes = {%(modes)s}
  Servers = {%(servers)s}
  ClockCfgs <- %(clocks)s
  MaxAns = %(maxans)d
  Bursts = {%(bursts)s}
  FaultsOn = %(faults)s
  RcKeys <- %(rckeys)s
  Retries = %(retries)d
  T0 = %(t0)d
  StructKinds <- %(struct)s
SPECIFICATION Spec
%(invs)s
CHECK_DEADLOCK FALSE
"""

MC_INVS = ["HonestVerifies", "TamperRejected", "ClocksRejected", "WindowEnforced", "PolicyRejected",
           "RestoresOctets", "LayoutFollowsRfc", "UnsignedBound", "NoPanic", "AcceptedWasSigned"]


def write_cfg(ctx, name, **kw):
    d = dict(dev="", keys="KeysQuick", modes='"txn", "seq"', servers='"impl", "rfc"',
             clocks="ClocksQuick", maxans=3, bursts="99, 100", faults="TRUE", retries=1, t0=1000000, rckeys="RcKeysQuick",
             struct="StructAll", invs="INVARIANT Emit")
    d.update(kw)
    path = os.path.join(ctx.work, name + ".cfg")
    with open(path, "w") as f:
        f.write(GEN_TEMPLATE % d)
    # ctx.tlc runs in spec/; a relative path to the work dir keeps spec/ clean
    return os.path.relpath(path[:-4], vlib.SPEC)


def write_keys_cfg(ctx, name, **kw):
    d = dict(dev="", grid="full", pall="FALSE", labels=3, invs="INVARIANT Emit")
    d.update(kw)
    path = os.path.join(ctx.work, name + ".cfg")
    with open(path, "w") as f:
        f.write(KEYS_TEMPLATE % d)
    return os.path.relpath(path[:-4], vlib.SPEC)


def allowed(op, o, res):
    """the specification admits a set of results (`allow'): the executor
    reports any member of the set as the set"""
    allow = sorted(o.get("allow") or [])
    if len(allow) > 1 and res in allow:
        op["allow"] = allow
        return "|".join(allow)
    return res


def conv_keys(ops, outs):
    """expectations for the behaviours of MC_TsigKeys"""
    exp = []
    for op, o in zip(ops, outs):
        k = op["op"]
        if k == "k_sign":
            op["macref"] = {"j": o["mac"], "n": o["n"]}
            exp.append({"res": "Ok", "mac": "ideal", "rr": "ok"})
        elif k in ("present", "from_name", "from_str"):
            exp.append({"res": allowed(op, o, o["res"])})
        elif k == "key_new":
            e = {f: o[f] for f in ("res", "minlen", "slen", "native")}
            e["res"] = allowed(op, o, o["res"])
            exp.append(e)
        else:
            exp.append(o)
    return exp


SIGN_OPS = ("c_request", "s_answer", "s_error")
UNSIGNED_ERR_ALLOW = ["ServerBadKey", "ServerBadSig", "BadTrunc", "BadSig", "BadKey", "FormErr"]


def refs(data):
    return {(v - 10000) // 100 for v in data if 10000 <= v < 20000}


def differing(ideal_tbl, dev_tbl):
    """table entries whose *value* differs: different text or a reference to
    a differing entry"""
    diff = set()
    for j in range(1, max(len(ideal_tbl), len(dev_tbl)) + 1):
        a = ideal_tbl[j - 1] if j <= len(ideal_tbl) else None
        b = dev_tbl[j - 1] if j <= len(dev_tbl) else None
        if a is None or b is None or a["data"] != b["data"] or a["alg"] != b["alg"]:
            diff.add(j)
        elif refs(b["data"]) & diff:
            diff.add(j)
    return diff


def conv(ops, outs, diff, devname, wrap=False):
    """per-op expectation in the executor's observation format; annotates ops"""
    exp = []
    prev = None
    prev_out = None
    for op, o in zip(ops, outs):
        k = op["op"]
        if k in SIGN_OPS:
            if o["res"] in ("NoPanic", "panic"):
                exp.append({"res": o["res"]})
            elif o.get("mac", 0) == 0:
                exp.append({"res": "Ok", "mac": "none", "rr": "ok"})
            else:
                op["macref"] = {"j": o["mac"], "n": o["n"]}
                exp.append({"res": o["res"], "rr": "ok",
                            "mac": devname if o["mac"] in diff else "ideal"})
        elif k in ("adv", "rfc_answer", "rfc_unsigned"):
            exp.append({"res": "Ok"})
        elif k in ("s_request", "c_answer"):
            res = o["res"]
            allow = None
            if prev is not None and prev["op"] == "adv" and prev["kind"] == "TruncShort":
                allow = ["BADTRUNC", "FORMERR"] if k == "s_request" else ["BadTrunc", "FormErr"]
            if prev is not None and prev["op"] == "adv" and prev["kind"] == "ExtendMac":
                allow = ["BADSIG", "FORMERR"] if k == "s_request" else ["BadSig", "FormErr"]
            if k == "c_answer" and prev is not None and prev["op"] == "s_error" and "macref" not in prev:
                allow = UNSIGNED_ERR_ALLOW
            if allow and res in allow:
                op["allow"] = allow
                res = "|".join(allow)
            elif not allow and prev is not None and prev["op"] == "adv":
                # where the specification admits several results (MC_Tsig!ExpectAfter)
                res = allowed(op, prev_out, res)
            e = {"res": res, "restored": o["restored"]}
            if k == "c_answer":
                e["left"] = o["left"]
            elif wrap:
                # a request that fails verification never reaches the inner service
                e["reached"] = o["res"] in ("Ok", "Unsigned")
            exp.append(e)
        else:
            exp.append({"res": o["res"]})
        prev = op
        prev_out = o
    return exp


def load_gen(path):
    d = {}
    with open(path) as f:
        for line in f:
            c = json.loads(line)
            d[json.dumps(c["in"], sort_keys=True)] = c["out"]
    return d


def prefix_index(cases):
    """(cfg, ops[:k]) -> (outs[:k], macs) for every proper prefix of every behaviour"""
    idx = {}
    for key, out in cases.items():
        cin = json.loads(key)
        cfg = json.dumps(cin["cfg"], sort_keys=True)
        for k in range(1, len(cin["ops"])):
            pk = (cfg, json.dumps(cin["ops"][:k], sort_keys=True))
            if pk not in idx:
                idx[pk] = (out["ops"][:k], out["macs"])
    return idx


def dev_expectation(key, cin, out, exp, d, cases, pidx):
    """expectation of behaviour `key` under the model run `cases` (deviation
    name d); None if it equals the ideal one or the run does not cover it"""
    o = cases.get(key)
    if o == out:
        return None, None, None
    ops2 = json.loads(key)["ops"]
    if o is None:
        if d not in pidx:
            pidx[d] = prefix_index(cases)
        cfg = json.dumps(cin["cfg"], sort_keys=True)
        hit = None
        for k in range(len(ops2), 0, -1):
            hit = pidx[d].get((cfg, json.dumps(ops2[:k], sort_keys=True)))
            if hit:
                break
        if not hit:
            return None, None, None   # configuration not part of the (restricted) deviation run
        outs_k, macs = hit
        diff = differing(out["macs"], macs)
        head = conv(ops2[:len(outs_k)], outs_k, diff, d)
        if head == exp[:len(head)]:
            # same results so far: the continuation is only missing because the
            # deviation run explores a restricted configuration
            return None, None, None
        # the deviant behaviour may simply go on where the ideal one ends
        dexp = head if len(head) == len(ops2) else head + [{"diverged": True}]
    else:
        macs = o["macs"]
        diff = differing(out["macs"], macs)
        dexp = conv(ops2, o["ops"], diff, d)
    if dexp == exp:
        return None, None, None
    return dexp, diff, macs


def merge_cases(ideal_path, dev_paths, out_path, combo_path=None):
    """One case per behaviour of the ideal model: exp = the ideal expectation,
    dev[D] = the expectation of the model with deviation D where it differs.
    A deviation may change the control flow (a verification that should fail
    succeeds): then the deviant expectation is the common prefix followed by
    {"diverged": true}, which is what the executor reports when the next
    scripted op does not fit the state the real code is in."""
    ideal = load_gen(ideal_path)
    devs = {d: load_gen(p) for d, p in dev_paths.items()}
    combo = load_gen(combo_path) if combo_path else None
    pidx = {}
    n = 0
    skipped = 0
    ndev = {d: 0 for d in devs}
    with open(out_path, "w") as f:
        for key in sorted(ideal):
            out = ideal[key]
            cin = json.loads(key)
            terms = {"ideal": out["macs"]}
            exp = conv(cin["ops"], out["ops"], set(), None)
            dev = {}
            for d, cases in devs.items():
                dexp, diff, macs = dev_expectation(key, cin, out, exp, d, cases, pidx)
                if dexp is None:
                    continue
                dev[d] = dexp
                ndev[d] += 1
                if diff:
                    terms[d] = macs
            if combo is not None:
                # two open deviations in one behaviour: what the code does today is
                # neither the ideal nor a single-deviation expectation; such
                # behaviours are left out until one of the deviations is closed
                cexp, _, _ = dev_expectation(key, cin, out, exp, "combo", combo, pidx)
                if cexp is not None:
                    norm = json.loads(json.dumps(cexp).replace('"combo"', '"X"'))
                    singles = [json.loads(json.dumps(v).replace('"%s"' % d, '"X"')) for d, v in dev.items()]
                    if norm not in singles:
                        skipped += 1
                        continue
            cin["terms"] = terms
            case = {"in": cin, "exp": exp}
            if dev:
                case["dev"] = dev
            f.write(json.dumps(case, separators=(",", ":")) + "\n")
            n += 1
    ndev["skipped_two_open_deviations"] = skipped
    return n, ndev


def gen_params(thorough, dev=None):
    kw = {}
    if thorough:
        kw.update(keys="KeysThorough", clocks="ClocksThorough", maxans=4, rckeys="RcKeysThorough")
    # a deviation run only needs the configurations in which it can show
    if dev == "D_server_seq_full_prior_mac":
        kw.update(modes='"seq"', servers='"impl"')
    elif dev == "D_badtime_other_8":
        kw.update(faults="FALSE", maxans=1)
    elif dev in ("D_server_badsig_formerr", "D_server_error_panic"):
        kw.update(clocks="ClocksNone", maxans=1)
    elif dev == "D_other_not6_unsigned":
        kw.update(clocks="ClocksNone")
    elif dev == "D_tsig_class_ttl_unchecked":
        kw.update(clocks="ClocksNone", rckeys="RcKeysNone", struct="ClassTtlKinds")
    return kw


def validate(ctx, trace, devs, label):
    tcfg = os.path.join(ctx.work, label + ".cfg")
    with open(tcfg, "w") as f:
        f.write("CONSTANTS\n  Dev = {%s}\nSPECIFICATION TSpec\nINVARIANT TraceOk\n"
                "POSTCONDITION Accepted\nCHECK_DEADLOCK FALSE\n" % ", ".join('"%s"' % d for d in devs))
    rel = os.path.relpath(tcfg[:-4], vlib.SPEC)
    return ctx.validate_trace("Trace_Tsig", rel, trace, label=label)


def explain_trace(ctx, trace, label):
    """The trace must be a behaviour of the specification without deviations
    or, while deviations are open, of the specification with the open ones (or
    with a subset of them: the code either has a defect or not, for the whole
    trace).  Returns (accepted, deviations needed, rejection)."""
    import itertools
    ok, res, rej = validate(ctx, trace, [], label)
    if ok:
        return True, [], None
    opened = sorted(ctx.open_devs)
    for k in range(len(opened), 0, -1):
        for sub in itertools.combinations(opened, k):
            ok, _, rej2 = validate(ctx, trace, list(sub), label + "-dev")
            if ok:
                return True, list(sub), None
            if rej2 and rej and rej2.get("matched", 0) > rej.get("matched", 0):
                rej = rej2
    return False, [], rej


def run(ctx):
    thorough = ctx.tier == "thorough"
    ctx.build("replay_tsig", "record_tsig", "replay_tsigw", "replay_tsigkeys")

    # 1. TLC decides the property on the specification (no deviation); the same
    # exhaustive run emits every explored behaviour for stage 2 (invariant Emit)
    mc_kw = gen_params(thorough)
    gen_ideal = os.path.join(ctx.work, "gen-ideal.ndjson")
    mc_cfg = write_cfg(ctx, "mc", invs="\n".join("INVARIANT " + i for i in MC_INVS + ["Emit"]), **mc_kw)
    mc = ctx.tlc("MC_Tsig", mc_cfg, workers=8, label="mc", cases_to=gen_ideal)
    ctx.require_ok(mc, "MC_Tsig")
    ctx.require_actions(mc, ACTIONS)
    ctx.exhaustive_flags.append(True)
    # ... and each deviation, switched on, breaks the invariant that documents it
    for dev, inv in DEVS.items():
        if not thorough:
            break           # quick tier: the generator runs below show the effect of the open ones
        kw = gen_params(False, dev)
        cfg = write_cfg(ctx, "mc-" + dev, dev='"%s"' % dev, invs="INVARIANT " + inv, **kw)
        r = ctx.tlc("MC_Tsig", cfg, workers=4, label="mc-" + dev, expect_violation=inv,
                    coverage=False, count=False)
        if not r.ok:
            raise vlib.ToolError("deviation %s does not violate %s in the model" % (dev, inv))
    # ... and so does each spec-level mutant (a first-label-only algorithm lookup,
    # a min() in place of max() in the length floor)
    for module, mut, inv in (MUTANTS if thorough else []):
        if module == "MC_Tsig":
            cfg = write_cfg(ctx, "mut-%s-%s" % (mut, inv), dev='"%s"' % mut, invs="INVARIANT " + inv,
                            clocks="ClocksNone", maxans=1, rckeys="RcKeysNone")
        else:
            cfg = write_keys_cfg(ctx, "mutk-%s-%s" % (mut, inv), dev='"%s"' % mut, invs="INVARIANT " + inv,
                                 grid="edges", labels=2)
        r = ctx.tlc(module, cfg, workers=4, label="mut-%s-%s" % (mut, inv), expect_violation=inv,
                    coverage=False, count=False)
        if not r.ok:
            raise vlib.ToolError("mutant %s does not violate %s of %s" % (mut, inv, module))

    # 1b + 2c. the key-configuration space (Key::new / Key::generate with every
    # (algorithm, min_mac_len, signing_len); every admitted key signs and receives
    # MACs of 0 .. native + 1 octets as a server and as a client) and the names of
    # algorithms: TLC checks the RFC 8945 5.2.2.1 / 6 invariants and generates the
    # behaviours in the same run
    gen_keys = os.path.join(ctx.work, "gen-keys.ndjson")
    kcfg = write_keys_cfg(ctx, "mc-keys", pall="TRUE" if thorough else "FALSE",
                          invs="\n".join("INVARIANT " + i for i in KEY_INVS + ["Emit"]))
    km = ctx.tlc("MC_TsigKeys", kcfg, workers=8, label="mc-keys", cases_to=gen_keys)
    ctx.require_ok(km, "MC_TsigKeys")
    ctx.require_actions(km, KEY_ACTIONS)
    kcases = os.path.join(ctx.work, "cases-keys.ndjson")
    nk = 0
    kinds = {}
    with open(kcases, "w") as f:
        for key, out in sorted(load_gen(gen_keys).items()):
            cin = json.loads(key)
            exp = conv_keys(cin["ops"], out["ops"])
            cin["terms"] = {"ideal": out["macs"]}
            for o in cin["ops"]:
                kinds[o["op"]] = kinds.get(o["op"], 0) + 1
            f.write(json.dumps({"in": cin, "exp": exp}, separators=(",", ":")) + "\n")
            nk += 1
    if nk < 5000 or any(kinds.get(k, 0) == 0 for k in ("key_new", "k_sign", "present", "from_name", "from_str", "to_name")):
        raise vlib.ToolError("generator produced too few key behaviours (%d, %s)" % (nk, kinds))
    ctx.stage("merge-keys", {"behaviours": nk, "ops": kinds})
    head = os.path.join(ctx.work, "head-keys.ndjson")
    with open(kcases) as f, open(head, "w") as h:
        for i, line in enumerate(f):
            if i >= 20:
                break
            h.write(line)
    rc, out, err, _ = ctx.run_bin("replay_tsigkeys", ["--selftest-perturb"], stdin_path=head)
    ctx.selftest("perturbed expectation is reported by replay_tsigkeys", "FAIL " in out)
    ctx.replay_cases("replay_tsigkeys", kcases, label="tsig-keys")

    # 2. S->I: every explored behaviour, with the expectation under every open deviation
    dev_paths = {}
    for dev in sorted(ctx.open_devs):
        if dev not in DEVS:
            raise vlib.ToolError("open deviation %s is unknown to the C11 model" % dev)
        p = os.path.join(ctx.work, "gen-%s.ndjson" % dev)
        gd = ctx.tlc("MC_Tsig", write_cfg(ctx, "gen-" + dev, dev='"%s"' % dev, **gen_params(thorough, dev)),
                     workers=8, label="gen-" + dev, coverage=False, cases_to=p, count=False)
        ctx.require_ok(gd, "Gen_Tsig " + dev)
        dev_paths[dev] = p
    combo = None
    if len(dev_paths) >= 2:
        combo = os.path.join(ctx.work, "gen-combo.ndjson")
        gc = ctx.tlc("MC_Tsig", write_cfg(ctx, "gen-combo", dev=", ".join('"%s"' % d for d in sorted(dev_paths)),
                                          **gen_params(thorough)),
                     workers=8, label="gen-combo", coverage=False, cases_to=combo, count=False)
        ctx.require_ok(gc, "Gen_Tsig combo")
    cases = os.path.join(ctx.work, "cases.ndjson")
    n, ndev = merge_cases(gen_ideal, dev_paths, cases, combo)
    if n < 1000:
        raise vlib.ToolError("generator produced too few behaviours (%d)" % n)
    ctx.stage("merge", {"behaviours": n, "with_deviant_expectation": ndev})
    for dev in dev_paths:
        if ndev[dev] == 0:
            raise vlib.ToolError("open deviation %s changes no generated behaviour" % dev)
    head = os.path.join(ctx.work, "head.ndjson")
    with open(cases) as f, open(head, "w") as h:
        for i, line in enumerate(f):
            if i >= 20:
                break
            h.write(line)
    rc, out, err, _ = ctx.run_bin("replay_tsig", ["--selftest-perturb"], stdin_path=head)
    ctx.selftest("perturbed expectation is reported by replay_tsig", "FAIL " in out)
    ctx.replay_cases("replay_tsig", cases, label="tsig")

    # 2b. S->I through the wrappers: net::client::tsig::Connection -> mock transport
    # (re-composes on retry) -> TsigMiddlewareSvc -> scripted service; honest clocks,
    # Time Signed symbolic (T0 = SymTime)
    gen_wrap = os.path.join(ctx.work, "gen-wrap.ndjson")
    # (the wrappers' cases carry no deviant expectations: while the CLASS / TTL
    # deviation is open those mutations are left to the base-API executor)
    wstruct = "StructNoClassTtl" if "D_tsig_class_ttl_unchecked" in ctx.open_devs else "StructAll"
    gw = ctx.tlc("MC_Tsig", write_cfg(ctx, "gen-wrap", servers='"impl"', clocks="ClocksNone", t0=6000, rckeys="RcKeysNone",
                                      struct=wstruct,
                                      keys="KeysThorough" if thorough else "KeysQuick",
                                      maxans=4 if thorough else 3),
                 workers=8, label="gen-wrap", coverage=False, cases_to=gen_wrap, count=False)
    ctx.require_ok(gw, "Gen_Tsig wrappers")
    wcases = os.path.join(ctx.work, "cases-wrap.ndjson")
    nw = 0
    with open(wcases, "w") as f:
        for key, out in sorted(load_gen(gen_wrap).items()):
            cin = json.loads(key)
            exp = conv(cin["ops"], out["ops"], set(), None, wrap=True)
            cin["terms"] = {"ideal": out["macs"]}
            f.write(json.dumps({"in": cin, "exp": exp}, separators=(",", ":")) + "\n")
            nw += 1
    if nw < 500:
        raise vlib.ToolError("generator produced too few wrapper behaviours (%d)" % nw)
    ctx.stage("merge-wrap", {"behaviours": nw})
    with open(wcases) as f, open(head, "w") as h:
        for i, line in enumerate(f):
            if i >= 20:
                break
            h.write(line)
    rc, out, err, _ = ctx.run_bin("replay_tsigw", ["--selftest-perturb"], stdin_path=head)
    ctx.selftest("perturbed expectation is reported by replay_tsigw", "FAIL " in out)
    ctx.replay_cases("replay_tsigw", wcases, label="tsig-wrappers")

    # 3. I->S: recorded random exchanges validated by TLC
    n_traces = 6 if thorough else 2
    for i in range(n_traces):
        tr = os.path.join(ctx.work, "trace-%d.ndjson" % i)
        rc, out, err, _ = ctx.run_bin("record_tsig", [tr, str(ctx.seed * 100 + i),
                                                       "3600" if thorough else "1500"])
        if rc != 0:
            raise vlib.ToolError("record_tsig failed: " + (out + err)[-800:])
        ok, used, rej = explain_trace(ctx, tr, "trace-%d" % i)
        ctx.traces += 1
        for d in used:
            ctx.known(d, {"trace": os.path.basename(tr), "seed": ctx.seed * 100 + i})
        if not ok:
            ctx.violation("recorded TSIG exchange is not a behaviour of Tsig.tla", rej)
        if i == 0:
            ctx.sample({"trace_events": sum(1 for _ in open(tr)), "recorder": out.strip()})
            for what in ("res", "digest"):
                bad = os.path.join(ctx.work, "trace-bad-%s.ndjson" % what)
                lines = open(tr).read().splitlines()
                done = False
                for j, l in enumerate(lines):
                    o = json.loads(l)
                    if what == "res" and o["ev"] == "c_answer" and o["res"] == "Ok" and j > 20:
                        o["res"] = "BadSig"
                        done = True
                    elif what == "digest" and o["ev"] in ("s_answer", "c_request") and j > 20:
                        o["digest"][14] ^= 1
                        done = True
                    if done:
                        lines[j] = json.dumps(o)
                        break
                if not done:
                    raise vlib.ToolError("self-test: nothing to corrupt in trace")
                open(bad, "w").write("\n".join(lines) + "\n")
                ok2, _, _ = validate(ctx, bad, sorted(used), "trace-selftest-" + what)
                ctx.selftest("trace with corrupted %s is rejected by Trace_Tsig" % what, not ok2)
    # 3b. I->S through the wrappers (client wrapper -> mock transport with retries ->
    # middleware -> scripted service), same event format, same validator
    for i in range(2 if thorough else 1):
        tr = os.path.join(ctx.work, "trace-wrap-%d.ndjson" % i)
        rc, out, err, _ = ctx.run_bin("replay_tsigw", ["--record", tr, str(ctx.seed * 100 + 50 + i),
                                                        "2500" if thorough else "800"])
        if rc != 0:
            raise vlib.ToolError("replay_tsigw --record failed: " + (out + err)[-800:])
        ok, used, rej = explain_trace(ctx, tr, "trace-wrap-%d" % i)
        ctx.traces += 1
        for d in used:
            ctx.known(d, {"trace": os.path.basename(tr)})
        if not ok:
            ctx.violation("recorded exchange through the TSIG wrappers is not a behaviour of Tsig.tla", rej)
    ctx.assume("wrappers: honest clocks only (they read Time48::now()); Time Signed of wrapper behaviours is symbolic in the model and taken from the wire; all responses of the scripted service are produced before the client validates the first")
    ctx.assume("HMAC is a free constructor: a digest that was never signed has an unknown MAC (unforgeability); equal MACs mean equal digests")
    ctx.assume("a MAC longer than the algorithm's output may be rejected as FORMERR (RFC 8945 5.2.2.1) or BADSIG (it cannot equal the computed MAC)")
    ctx.assume("a MAC shorter than the receiver's minimum may be rejected as BADTRUNC or FORMERR (RFC 8945 5.2.2.1 distinguishes by the RFC minimum, the library always says BADTRUNC)")
    ctx.assume("restored octets = the message up to its last counted record; the library leaves the stale TSIG octets behind it (Message::remove_last_additional)")
    ctx.assume("error / other-data fields of the 2nd and later answers of a sequence are not covered by the MAC (RFC 8945 5.3.1: timers only); changing them is not tampering with signed octets")
    ctx.assume("a TSIG whose other-data is neither empty nor 6 octets cannot be interpreted (RFC 8945 4.2): FORMERR; a repair that instead signs the raw other-data (BADSIG) would need the table in MC_Tsig!ExpectAfter widened")
    ctx.assume("an algorithm name spelled in another case may be recognised (domain names compare case-insensitively, the digest takes the canonical form) or refused as BADKEY; a compressed owner / algorithm name may be accepted or refused as FORMERR (RFC 8945 4.2: the algorithm name MUST NOT be compressed)")
    ctx.assume("a TSIG RR whose CLASS is not ANY or whose TTL is not 0 is FORMERR (cannot be interpreted, RFC 8945 4.2 / 5.2) or BADSIG (both are digest input, 4.3.3); on a second or later answer of a sequence, whose digest covers only the timers, it may also be accepted")
    ctx.assume("a key name / algorithm name with more or fewer labels than the configured one is an unknown key: BADKEY (RFC 8945 5.2.1)")
    ctx.assume("Key::new / Key::generate: None = the native length; FromStr of the absolute form ('hmac-sha256.') or of another case may succeed or fail")
    ctx.assume("compression pointers of generated behaviours point at the second flags octet (0 in requests and NOERROR answers: a root label); recorded traces point at the question name and its root label")
    ctx.assume("result of the client on an unsigned error answer compared by class (any error); time fields of unsigned error answers not compared")
    ctx.assume("message contents: one question, 0-1 answer and 0-1 additional A records, uncompressed names; times below 2^31")


def explain(ctx, dev):
    kw = gen_params(False, dev)
    cfg = write_cfg(ctx, "explain", dev='"%s"' % dev, invs="INVARIANT " + DEVS[dev], **kw)
    r = ctx.tlc("MC_Tsig", cfg, workers=4, label="explain", coverage=False, count=False)
    print(open(r.log).read()[-6000:])


def replay(ctx, blob):
    """bin/check C11 --replay <file>: re-execute one generated behaviour (a
    violation replay or a known-finding witness) against the current tree."""
    case = blob.get("case", blob)
    if "in" not in case or "ops" not in case.get("in", {}):
        print("this replay is a rejected trace window (event %s); re-record with VERIF_SEED=%s"
              % (case.get("matched"), ctx.seed))
        return
    ctx.build("replay_tsig")
    path = os.path.join(ctx.work, "replay.ndjson")
    one = {"in": case["in"], "exp": case["exp"]}
    if "dev" in case:
        one["dev"] = case["dev"]
    vlib.write_ndjson(path, [one])
    rc, out, err, _ = ctx.run_bin("replay_tsig", ["--open-devs", ",".join(sorted(ctx.open_devs))],
                                  stdin_path=path)
    print(out[-3000:])
    if "FAIL " in out:
        ctx.violation("spec->impl disagreement (replayed)", case)
