"""X15 — request composition for the client transports (spec/ReqCompose.tla)."""
import json
import os

import vlib

DEV = "D_rdata_pointers_verbatim"

META = {
    "category": "model_checking",
    "text": "ReqCompose.tla models RequestMessage / RequestMessageMulti (src/net/client/request.rs) as a machine: state = (kind, source message, edited header, OPT state none | some(udp size, DO, option list)), one action per constructor, header_mut write, set_udp_payload_size, set_dnssec_ok, add_opt, per compose route (to_message, to_vec, append_message into Vec / Bytes / StreamTarget / StaticCompressor / TreeCompressor) and is_answer. append_message_impl is transcribed line by line and held against a declarative oracle. TLC decides over every call sequence up to the bound, from a family of source messages (plain query, source with its own OPT record(s), all sections populated, compressed, two questions, QDCOUNT 0 with QUERY / NOTIFY, AXFR, IXFR with SOA, lying ARCOUNT): P1 all compose routes denote one message (or all fail) and header() / dnssec_ok() are its header and DO bit; P2 that message is the edited header, the source's questions and non-OPT records in order and exactly one OPT record iff an EDNS setter was called, with the last size / DO and the options in push order, counts = section lengths; P3 composing is a read (state unchanged, same result twice, a setter shows in the next compose in its own place only); P4 is_answer is MsgPair.tla's documented relation (reused, not copied) on the CURRENT header ID and the source's questions for a family of 12 responses per state (QR clear, other ID, the source's old ID, upper case, header-only error, error with an OPT, NOERROR without question, other type, cut off question sections, fewer questions). S->I: every generated behaviour (all setter sequences to the bound, plus simulated longer ones) is performed on the real RequestMessage and RequestMessageMulti; after the constructor and after EVERY call the executor composes through 8 routes twice (octets equal per compressor, idempotent, Debug state unchanged), into targets of ~15 capacities (fails iff the octets do not fit, else same octets), parses every output and compares message, getters and the 12 is_answer verdicts with the specification's projection. I->S: recorded random runs (random sources with all sections populated, existing OPT with options, compressed names, several questions, QDCOUNT 0, 16-bit ranges; random setter sequences) are validated by Trace_ReqCompose.",
    "note": "Properties stated by the builder (extension, not in properties.jsonl). Finding D_rdata_pointers_verbatim: records are copied as UnknownRecordData, so compression pointers inside rdata are copied verbatim while owner names are re-composed; into non-compressing targets (what the stream transports send) the pointers go stale - an IXFR request's SOA RNAME is unreadable or silently another name. Observation (specified as implemented, not a deviation): an OPT record of the source is always dropped, never merged, also when no EDNS setter is called; nothing documents either behaviour and all routes, the getter and the callers agree. Not covered: tsig::RequestMessage (constructor private; covered through the transport by C13/X08), add_opt failing at the 64k ceiling, Octs other than Vec<u8>, the async transports themselves.",
    "technique": "TLA+ spec (ReqCompose.tla, EXTENDS MsgPair/Wire) + TLC exhaustive to a bounded depth; spec->impl behaviour replay with the projection compared after every call; impl->spec trace validation",
    "design_ref": "DESIGN.md §8 (client transports: request composition)",
}


def explain(ctx, dev):
    res = ctx.tlc("MC_ReqCompose", "MC_ReqCompose_dev", workers=4, label="explain", coverage=False)
    print(open(res.log).read()[-3500:])


def _gen_and_replay(ctx, cfg, label, minimum, **kw):
    cases = os.path.join(ctx.work, "cases-%s.ndjson" % label)
    gen = ctx.tlc("MC_ReqCompose", cfg, workers=8, label="gen-" + label,
                  coverage=False, cases_to=cases, count=False, **kw)
    ctx.require_ok(gen, "MC_ReqCompose " + cfg)
    if gen.ncases < minimum:
        raise vlib.ToolError("generator %s produced too few cases (%d)" % (cfg, gen.ncases))
    return cases, gen.ncases


def run(ctx):
    thorough = ctx.tier == "thorough"
    ctx.build("replay_reqcompose", "record_reqcompose")

    # 1. the machine with every read action, full setter alphabet
    mc = ctx.tlc("MC_ReqCompose", "MC_ReqCompose_thorough" if thorough else "MC_ReqCompose",
                 workers=8, label="mc", timeout=3000)
    ctx.require_ok(mc, "MC_ReqCompose")
    ctx.require_actions(mc, ["A_HeaderMut", "A_SetUdp", "A_SetDo", "A_AddOpt", "A_ToMessage", "A_ToVec", "A_Append", "A_IsAnswer"])
    # deeper, setters only (the state predicates are about every reachable request)
    deep = ctx.tlc("MC_ReqCompose", "MC_ReqCompose_deep_thorough" if thorough else "MC_ReqCompose_deep",
                   workers=8, label="mc-deep", timeout=3000)
    ctx.require_ok(deep, "MC_ReqCompose deep")
    ctx.require_actions(deep, ["A_HeaderMut", "A_SetUdp", "A_SetDo", "A_AddOpt"])
    ctx.exhaustive_flags.append(True)
    # the named deviation breaks route agreement on the specification
    d = ctx.tlc("MC_ReqCompose", "MC_ReqCompose_dev", workers=4, label="mc-dev", coverage=False,
                count=False, expect_violation="P1_RoutesAgree")
    ctx.require_ok(d, "P1_RoutesAgree must fail under " + DEV)

    # 2. S->I
    cases, n = _gen_and_replay(ctx, "MC_ReqCompose_gen_thorough" if thorough else "MC_ReqCompose_gen",
                               "beh", 3000, timeout=3000)
    head = os.path.join(ctx.work, "head.ndjson")
    with open(cases) as f, open(head, "w") as g:
        for i, line in enumerate(f):
            if i >= 10:
                break
            g.write(line)
    rc, out, err, _ = ctx.run_bin("replay_reqcompose", ["--selftest-perturb"], stdin_path=head)
    ctx.selftest("perturbed expectation is reported by replay_reqcompose", "FAIL " in out)
    ctx.replay_cases("replay_reqcompose", cases, label="beh")
    os.remove(cases)
    total = n
    cases, n = _gen_and_replay(ctx, "MC_ReqCompose_sim", "sim", 100,
                               simulate=(3000 if thorough else 400), depth=8)
    ctx.replay_cases("replay_reqcompose", cases, label="sim")
    os.remove(cases)
    total += n
    ctx.stage("cases", {"total": total})

    # 3. I->S
    devs = [DEV] if DEV in ctx.open_devs else []
    cfg_path = os.path.join(ctx.work, "Trace_ReqCompose_run.cfg")
    cfg = open(os.path.join(vlib.SPEC, "Trace_ReqCompose.cfg")).read()
    cfg = cfg.replace("Dev = {}", "Dev = {%s}" % ", ".join('"%s"' % x for x in devs))
    open(cfg_path, "w").write(cfg)
    cfg_rel = os.path.relpath(cfg_path, vlib.SPEC)[:-4]
    n_traces = 6 if thorough else 2
    n_req = 120 if thorough else 60
    for i in range(n_traces):
        tr = os.path.join(ctx.work, "trace-%d.ndjson" % i)
        rc, out, err, _ = ctx.run_bin("record_reqcompose", [tr, str(ctx.seed * 100 + i), str(n_req)])
        if rc != 0:
            raise vlib.ToolError("record_reqcompose failed: " + err[-500:])
        ok, res, rej = ctx.validate_trace("Trace_ReqCompose", cfg_rel, tr, label="trace-%d" % i)
        ctx.traces += 1
        if not ok:
            ctx.violation("recorded request run is not a behaviour of ReqCompose.tla", rej)
        for rep in res.tagged.get("TRACE_DEVS", []):
            for dv in rep.get("devs", []):
                ctx.known(dv, {"trace": "trace-%d" % i, "seed": ctx.seed * 100 + i})
        if i == 0:
            bad = os.path.join(ctx.work, "trace-bad.ndjson")
            lines = open(tr).read().splitlines()
            for j in range(len(lines) // 2, len(lines)):
                o = json.loads(lines[j])
                if o["ev"] == "call" and o["proj"]["comp"]:
                    o["proj"]["comp"][0]["h"]["cd"] ^= 1
                    lines[j] = json.dumps(o)
                    break
            open(bad, "w").write("\n".join(lines) + "\n")
            ok2, _, _ = ctx.validate_trace("Trace_ReqCompose", cfg_rel, bad, label="trace-selftest")
            ctx.selftest("corrupted trace is rejected by Trace_ReqCompose", not ok2)

    ctx.assume("an OPT record of the source message is dropped by every route (undocumented; specified as implemented)")
    ctx.assume("records are compared by owner, type, class, TTL and uncompressed rdata as read by AllRecordData; OPT by its fixed part and option octets")
    ctx.assume("is_answer is MsgPair.tla's ReqIsAnswerV / ReqMultiIsAnswerV (C01) applied to the current header ID and the source's questions")
    ctx.assume("a response view with err = TRUE is realised as the readable questions followed by the first octet of a label that is not there")
