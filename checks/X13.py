"""X13 — concurrent validations on one shared ValidationContext (spec/ValidatorConc.tla)."""
import json
import os
import re
import vlib

ACTIONS = ["Start", "Lookup", "Closest", "RecvTA", "Insert", "Descend", "RecvDs", "IssueKey",
           "RecvKey", "Check", "Adv", "Tick"]
DEVS = ["D_unproven_ds_bogus_validity", "D_child_validity_from_ds_time"]

META = {
    "category": "model_checking",
    "text": "ValidatorConc.tla runs N = 2..3 validations (the walk of get_node / find_closest_node / Node::trust_anchor / create_child_node / validate_with_node, one action per await point: cache look-up, fetch issue, fetch completion, cache insert, verdict) over ONE shared node cache, with an adversary rewriting answers in flight (short-lived / expired / corrupted signature, empty answer, attacker's key set, forged data) and a clock that advances between and during validations. P1 caches are invisible under interleaving: a Secure verdict rests on a genuine, in-time chain (Soundness, NodeSound); a verdict differs from the fresh-context verdict only if an answer in its own provenance (its own fetches or the fetches that built a cached node it used) was rewritten or stale (NoPoison, HonestAgree); a Bogus node lives at most max_bogus_validity (BogusCapped). P2 every started validation terminates under weak fairness (Termination) and its fetches are bounded by the walk whatever the schedule (FetchBound). P3 no cache look-up returns a node after the expiry of a signature in its chain or after its parent's validity (NoStaleHit, NodeExpiryCapped, ChildWithinParent). TLC checks these exhaustively over all interleavings of two validations on a 3-4 level hierarchy; seeded spec mutants and vacuity guards must be caught. S->I: TLC-generated behaviours (all interleavings for small constants, simulated ones for 3 validations x 2-3 runs x 5 questions x 6 rewrite kinds x ticks) are replayed on the real ValidationContext over the really signed hierarchy of C14 with a GATED upstream (futures polled by hand on one thread: the interleaving is the specification's), comparing the fetches issued and the verdicts after every step. I->S: rounds of truly concurrent validations (three OS threads sharing Arc<ValidationContext>, a clock thread, random rewrites and delays) recorded at the upstream boundary under one lock are validated by Trace_ValidatorConc.tla with all validator-internal steps hidden.",
    "note": "Trusted: TLC, ValidatorConc.tla, the harness (C14's signed hierarchy, clock_gettime interposition). One answer RRset per validation, NSEC hierarchy without empty non-terminals (C14 covers answer classification, NSEC3, ENT shapes); the NSEC3-hash and signature caches are exercised by the real runs but have no state in the model (they are keyed by content; their time handling is C14's D_sigcache_ignores_time, fixed). Eviction (cache size) is not modelled. The code takes no lock and never waits for another validation, so Termination is about the walk itself; duplicate concurrent fetches are allowed by the property.",
    "technique": "TLA+ spec (ValidatorConc.tla) + TLC exhaustive over interleavings, liveness; spec->impl behaviour replay with a gated upstream; impl->spec trace validation of multi-threaded runs",
    "design_ref": "DESIGN.md §8 (extension X13)",
}

SCRIPTS = {
    # an empty DS answer to validation 1; two ticks later (200 s > max_bogus_validity 150 s)
    # validation 2 must walk again
    "D_unproven_ds_bogus_validity": [
        ("start", 1, "zone", "none"), ("release", 1, "", ""), ("adv", 1, "", "Empty"),
        ("release", 1, "", ""), ("tick", 0, "", ""), ("tick", 0, "", ""), ("start", 2, "zone", "none")],
    # DS(tld) signature with 150 s left, DNSKEY(tld) answer 100 s later; 200 s after the DS
    # answer the tld node must not be served any more
    "D_child_validity_from_ds_time": [
        ("start", 1, "zone", "none"), ("release", 1, "", ""), ("adv", 1, "", "Short"),
        ("release", 1, "", ""), ("tick", 0, "", ""), ("release", 1, "", ""), ("release", 1, "", ""),
        ("release", 1, "", ""), ("tick", 0, "", ""), ("start", 2, "tld", "none")],
}


_COVLINE = re.compile(r"^<(\w+) line \d+, col \d+ to line \d+, col \d+ of module \w+( \([\d ]+\))?>: (\d+):(\d+)")


def _require_actions(ctx, res, names):
    """vacuity guard: every action taken (TLC prints a position suffix for
    actions with parameters, which vlib's coverage parser does not read)"""
    taken = {}
    for line in open(res.log):
        m = _COVLINE.match(line)
        if m:
            taken[m.group(1)] = max(taken.get(m.group(1), 0), int(m.group(4)))
    for a, g in taken.items():
        od, og = ctx.coverage_actions.get(a, (0, 0))
        ctx.coverage_actions[a] = (od, max(og, g))
    missing = [n for n in names if taken.get(n, 0) == 0]
    if missing:
        raise vlib.ToolError("vacuity: actions never taken: %s" % missing)


def _devenv(ctx):
    return {d: "1" for d in ctx.open_devs}


def _scripted(ctx, name, script, env):
    path = os.path.join(ctx.work, "script-%s.ndjson" % name)
    vlib.write_ndjson(path, [{"op": o, "i": i, "q": q, "k": k} for (o, i, q, k) in script])
    e = dict(env)
    e["X13_SCRIPT"] = path
    r = ctx.tlc("Gen_ValidatorConc", "Gen_ValidatorConc_script", workers=1, coverage=False, count=False,
                env=e, label="script-%s-%s" % (name, "asbuilt" if env else "ideal"))
    ctx.require_ok(r, "scripted generation " + name)
    if len(r.cases) < 1:
        raise vlib.ToolError("script %s produced no case" % name)
    return r.cases[0]


def run(ctx):
    thorough = ctx.tier == "thorough"
    sfx = "_thorough" if thorough else ""
    ctx.build("replay_valconc", "record_valconc")
    # 1. TLC decides the properties on the ideal specification (Dev = {})
    mc = ctx.tlc("MC_ValidatorConc", "MC_ValidatorConc" + sfx, workers=8, label="mc", timeout=3000)
    ctx.require_ok(mc, "MC_ValidatorConc")
    _require_actions(ctx, mc, ACTIONS)
    ctx.exhaustive_flags.append(True)
    lv = ctx.tlc("MC_ValidatorConc", "MC_ValidatorConc_live" + sfx, workers=4, label="liveness",
                 coverage=False, timeout=3000)
    ctx.require_ok(lv, "MC_ValidatorConc_live (Termination)")
    for cfg, inv in [("mut_expiry", "NoStaleHit"), ("mut_dsmatch", "NodeSound"),
                     ("mut_parentttl", "NodeExpiryCapped"),
                     ("vac_NeverHitAfterTick", "NeverHitAfterTick"),
                     ("vac_NeverBogusFromCache", "NeverBogusFromCache")]:
        r = ctx.tlc("MC_ValidatorConc", "MC_ValidatorConc_" + cfg, workers=2, label=cfg, coverage=False,
                    count=False, expect_violation=inv)
        ctx.require_ok(r, "MC_ValidatorConc_%s (expected violation of %s)" % (cfg, inv))
    # the open deviations as counterexamples of the ideal properties
    for d, inv in [(DEVS[0], "BogusCapped"), (DEVS[1], "NoStaleHit")]:
        if d in ctx.open_devs:
            r = ctx.tlc("MC_ValidatorConc", "MC_ValidatorConc_dev_" + d, workers=2, label="dev-" + d,
                        coverage=False, count=False, expect_violation=inv)
            ctx.require_ok(r, "MC_ValidatorConc_dev_%s (expected violation of %s)" % (d, inv))
    # 2. S->I: behaviours of the as-built specification (open deviations on) on the real context
    env = _devenv(ctx)
    first = True
    for cfg, label in [("Gen_ValidatorConc", "interleavings"), ("Gen_ValidatorConc_adv" + sfx, "interleavings-adv")]:
        cases = os.path.join(ctx.work, label + ".ndjson")
        g = ctx.tlc("Gen_ValidatorConc", cfg, workers=4, coverage=False, label="gen-" + label, env=env,
                    cases_to=cases, count=False, timeout=3000)
        ctx.require_ok(g, cfg)
        if g.ncases < 500:
            raise vlib.ToolError("%s produced too few behaviours (%d)" % (cfg, g.ncases))
        if first:
            first = False
            head = os.path.join(ctx.work, "head.ndjson")
            with open(cases) as f, open(head, "w") as h:
                h.writelines(f.readlines()[:20])
            rc, out, err, _ = ctx.run_bin("replay_valconc", ["--selftest-perturb"], stdin_path=head)
            ctx.selftest("perturbed expectation is reported by replay_valconc", "FAIL " in out)
        ctx.replay_cases("replay_valconc", cases, label=label)
    nsim = 6000 if thorough else 700
    simf = os.path.join(ctx.work, "sim.ndjson")
    sim = ctx.tlc("Gen_ValidatorConc", "Gen_ValidatorConc_sim" + sfx, workers=1, coverage=False,
                  label="gen-sim", simulate=nsim, depth=500, env=env, cases_to=simf, count=False,
                  timeout=3000)
    ctx.require_ok(sim, "Gen_ValidatorConc_sim")
    if sim.ncases < nsim // 3:
        raise vlib.ToolError("simulation produced too few behaviours (%d)" % sim.ncases)
    seen = set()
    for c in vlib.read_ndjson(simf):
        for o in c["in"]["ops"]:
            seen.add(o["op"] + ":" + o["k"])
    want = {"adv:Short", "adv:Expire", "adv:BadSig", "adv:Empty", "adv:AdvKey", "start:Forge", "tick:"}
    if want - seen:
        raise vlib.ToolError("simulated behaviours never used %s" % sorted(want - seen))
    ctx.replay_cases("replay_valconc", simf, label="simulated")
    # directed witnesses of the open deviations: exp = ideal, dev = as built
    wit = []
    for d in DEVS:
        ideal = _scripted(ctx, d, SCRIPTS[d], {})
        asb = _scripted(ctx, d, SCRIPTS[d], {d: "1"})
        if ideal["exp"] == asb["exp"]:
            raise vlib.ToolError("script for %s does not tell the deviation from the ideal" % d)
        wit.append({"in": ideal["in"], "exp": ideal["exp"], "dev": {d: asb["exp"]}})
    wf = os.path.join(ctx.work, "witness.ndjson")
    vlib.write_ndjson(wf, wit)
    ctx.replay_cases("replay_valconc", wf, label="deviation-witnesses")
    # 3. I->S: recorded multi-threaded runs
    ntr = 4 if thorough else 2
    rounds = 300 if thorough else 60
    for i in range(ntr):
        tr = os.path.join(ctx.work, "trace-%d.ndjson" % i)
        rc, out, err, _ = ctx.run_bin("record_valconc", [tr, str(ctx.seed * 100 + i), str(rounds)])
        if rc != 0 or "RECORDED" not in out:
            raise vlib.ToolError("record_valconc failed: " + (out + err)[-800:])
        lines = open(tr).read().splitlines()
        ok, res, rej = ctx.validate_trace("Trace_ValidatorConc", "Trace_ValidatorConc", tr,
                                          label="trace-%d" % i, env=env, timeout=2500)
        ctx.traces += 1
        ctx.evaluations += len(lines)
        if not ok:
            ctx.violation("recorded concurrent run is not a behaviour of ValidatorConc.tla",
                          {"trace_seed": ctx.seed * 100 + i, "rejected": rej, "violated": res.violated})
        if i == 0:
            # a verdict changed in the recording must be rejected
            done = False
            for j, l in enumerate(lines):
                e = json.loads(l)
                if e.get("ev") == "done" and e.get("v") == "Secure" and j > 30:
                    e["v"] = "Insecure"
                    lines[j] = json.dumps(e)
                    done = True
                    break
            bad = os.path.join(ctx.work, "trace-bad.ndjson")
            open(bad, "w").write("\n".join(lines) + "\n")
            ok2, _, _ = ctx.validate_trace("Trace_ValidatorConc", "Trace_ValidatorConc", bad,
                                           label="trace-selftest", env=env)
            ctx.selftest("a changed verdict is rejected by Trace_ValidatorConc", done and not ok2)
            # a fetch that the cache should have saved (an extra issue) must be rejected
            lines2 = open(tr).read().splitlines()
            done = False
            for j, l in enumerate(lines2):
                e = json.loads(l)
                if e.get("ev") == "issue" and e.get("t") == "DS" and j > 30:
                    e["z"] = "other" if e["z"] != "other" else "zone"
                    lines2[j] = json.dumps(e)
                    done = True
                    break
            bad2 = os.path.join(ctx.work, "trace-bad2.ndjson")
            open(bad2, "w").write("\n".join(lines2) + "\n")
            ok3, _, _ = ctx.validate_trace("Trace_ValidatorConc", "Trace_ValidatorConc", bad2,
                                           label="trace-selftest-fetch", env=env)
            ctx.selftest("a changed fetch is rejected by Trace_ValidatorConc", done and not ok3)
    ctx.assume("one half-unit of model time is 50 s: tick = 100 s on both clocks, a Short signature has 150 s left when served, max_bogus_validity = 150 s, NSEC TTL 300 s; real elapsed time per run stays far below the 50 s margin")
    ctx.assume("S->I forces the interleavings at await points of upstream fetches (single thread, gated upstream); interleavings inside the cache operations are covered by the model (Atomic = FALSE) and by the multi-threaded recorded runs")
    ctx.assume("what a validation does between two of its boundary events happens at some moment between them (trace validation hides these steps)")


def replay(ctx, case):
    """bin/check X13 --replay <file>"""
    c = case.get("case", case)
    if "in" in c:
        ctx.build("replay_valconc")
        path = os.path.join(ctx.work, "replay.ndjson")
        vlib.write_ndjson(path, [{"in": c["in"], "exp": c["exp"], "dev": c.get("dev", {})}])
        ctx.replay_cases("replay_valconc", path, label="replay")
    else:
        raise vlib.ToolError("re-run the check with the same VERIF_SEED to reproduce a rejected trace")
