CONSTANTS
  Fam = "order"
  MaxRecs = 4
  Prios = {0, 1}
  Weights = {0, 1, 3}
  Dev = {}
SPECIFICATION Spec
INVARIANT Emit
CONSTRAINT GenOnlyInit
CHECK_DEADLOCK FALSE
