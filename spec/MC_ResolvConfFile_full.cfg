CONSTANTS
  MaxLines = 2
  Pool = "full"
SPECIFICATION Spec
INVARIANT I_StepLaws
INVARIANT I_FinalLaws
INVARIANT I_WholeFile
INVARIANT I_LastWins
INVARIANT Emit
CHECK_DEADLOCK FALSE
