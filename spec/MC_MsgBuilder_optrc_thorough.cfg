CONSTANTS
  Dev = {}
  Scenario = "optrc"
  MaxOps = 5
  CompSet = {"none", "static", "tree", "hash"}
  TgtSet = {"array", "sarray", "stream"}
SPECIFICATION Spec
INVARIANT ParseBack
INVARIANT CountsMatch
INVARIANT PointersBackwardAndIntended
INVARIANT ShimMatches
INVARIANT TableWithinBuffer
INVARIANT TableSound
INVARIANT WithinCapacity
INVARIANT HeaderKept
PROPERTY NoopProp
INVARIANT Emit
CHECK_DEADLOCK FALSE
