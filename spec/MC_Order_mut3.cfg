CONSTANTS
  Dev = {}
  Mut = {"M_uchain_abs_adds_origin"}
  Tier = 1
  Big = 300
SPECIFICATION SpecCarriers
INVARIANT LawCarrier
CHECK_DEADLOCK FALSE
