-------------------------------- MODULE Wire --------------------------------
(* The DNS message wire format (RFC 1035 4.1, RFC 6891 6.1.2) as functions  *)
(* of an octet string: header, questions, record headers with the          *)
(* "RDLENGTH must fit" rule, compressed names (RFC 1035 4.1.4), skipping    *)
(* versus parsing, the few RDATA layouts that embed names, OPT option       *)
(* TLVs, and the derived read-side results (CNAME chain, OPT record,        *)
(* is_answer, sole question, the transfer interpreter's entry guard, the    *)
(* slice label iterator).  Offsets are 0-based like in the RFC; At(m, i)    *)
(* is the octet at offset i.  Everything is total: every operator returns   *)
(* a value for every octet string m.                                        *)
(*                                                                          *)
(* Named deviations (DESIGN 2.6): Dev is the set of deviation names for     *)
(* which the operators describe what the code does today instead of what    *)
(* the property requires.                                                   *)
EXTENDS Names

CONSTANT Dev

DevNames == {"D_cname_ancount_overflow", "D_slice_iter_selfptr",
             "D_slice_iter_loop", "D_xfr_unreachable_qtype"}

At(m, i) == m[i + 1]
U16(m, i) == At(m, i) * 256 + At(m, i + 1)
Slice(m, a, b) == SubSeq(m, a + 1, b)            \* offsets a .. b-1

---------------------------------------------------------------------------
(* Header *)

HdrLen == 12
IsShort(m) == Len(m) < HdrLen
HId(m) == U16(m, 0)
HFlags(m) == U16(m, 2)
QD(m) == U16(m, 4)
AN(m) == U16(m, 6)
NS(m) == U16(m, 8)
AR(m) == U16(m, 10)
QR(m) == At(m, 2) >= 128
Opcode(m) == (At(m, 2) \div 8) % 16
TC(m) == (At(m, 2) \div 2) % 2 = 1
Rcode(m) == At(m, 3) % 16
Count(m, sec) == U16(m, 4 + 2 * sec)             \* sec 0..3 = QD AN NS AR
\* every flag and field of the two flag octets, as Header's accessors, the
\* Flags struct and a HeaderSection parsed from a parser see them:
\* <<QR, Opcode, AA, TC, RD, RA, Z, AD, CD, RCODE>>
Bit(o, k) == (o \div (2 ^ k)) % 2
HBits(m) == <<Bit(At(m, 2), 7), Opcode(m), Bit(At(m, 2), 2), Bit(At(m, 2), 1), Bit(At(m, 2), 0),
              Bit(At(m, 3), 7), Bit(At(m, 3), 6), Bit(At(m, 3), 5), Bit(At(m, 3), 4), Rcode(m)>>

T_A == 1   T_NS == 2   T_CNAME == 5   T_SOA == 6   T_PTR == 12   T_MX == 15
T_AAAA == 28   T_OPT == 41   T_IXFR == 251   T_AXFR == 252

---------------------------------------------------------------------------
(* Names with compression.  lim is the exclusive end of the readable area   *)
(* (the message end, or the end of the RDATA the name is embedded in: the   *)
(* reader works on a sub-parser limited to RDLENGTH).                       *)
(*                                                                          *)
(* A pointer at offset p must point strictly before p (RFC 1035 4.1.4       *)
(* "prior occurrence"); label types 01 and 10 are rejected; the name may    *)
(* use at most 255 octets including the root.  Termination: the pair        *)
(* (254 - used, p) decreases lexicographically in every step (a label adds  *)
(* at least 2 to used, a pointer keeps used and lowers p), see MC_Wire's    *)
(* NameWalk machine and its property MeasureDecreases; fuel is only TLC's   *)
(* recursion guard and NameFuelSufficient checks that it never runs out.    *)

NameFuel(m) == 130 * (Len(m) + 1)
NFail(w) == [ok |-> FALSE, why |-> w, name |-> <<>>, next |-> 0, wlen |-> 0, comp |-> FALSE]

RECURSIVE NameWalk(_, _, _, _, _, _, _)
NameWalk(m, p, lim, acc, used, endp, fuel) ==
  IF fuel = 0 THEN NFail("fuel")
  ELSE IF p >= lim THEN NFail("short")
  ELSE LET b == At(m, p) IN
    IF b = 0 THEN [ok |-> TRUE, why |-> "", name |-> acc,
                   next |-> IF endp < 0 THEN p + 1 ELSE endp,
                   wlen |-> used + 1, comp |-> endp >= 0]
    ELSE IF b <= 63 THEN
      IF p + 1 + b > lim THEN NFail("short")
      ELSE IF used + b + 1 >= 255 THEN NFail("long")
      ELSE NameWalk(m, p + 1 + b, lim, Append(acc, Slice(m, p + 1, p + 1 + b)),
                    used + b + 1, endp, fuel - 1)
    ELSE IF b >= 192 THEN
      IF p + 1 >= lim THEN NFail("short")
      ELSE LET t == (b - 192) * 256 + At(m, p + 1) IN
        IF t >= p THEN NFail("pointer")
        ELSE NameWalk(m, t, lim, acc, used, IF endp < 0 THEN p + 2 ELSE endp, fuel - 1)
    ELSE NFail("labeltype")

ParseName(m, pos, lim) == NameWalk(m, pos, lim, <<>>, 0, -1, NameFuel(m))

\* Skipping a name looks at the uncompressed part only and stops at the
\* first pointer without following it.
RECURSIVE SkipWalk(_, _, _, _)
SkipWalk(m, p, lim, used) ==
  IF p >= lim THEN [ok |-> FALSE, next |-> 0]
  ELSE LET b == At(m, p) IN
    IF b = 0 THEN (IF used + 1 > 255 THEN [ok |-> FALSE, next |-> 0]
                   ELSE [ok |-> TRUE, next |-> p + 1])
    ELSE IF b <= 63 THEN
      IF p + 1 + b > lim THEN [ok |-> FALSE, next |-> 0]
      ELSE IF used + b + 1 > 255 THEN [ok |-> FALSE, next |-> 0]
      ELSE SkipWalk(m, p + 1 + b, lim, used + b + 1)
    ELSE IF b >= 192 THEN
      (IF p + 1 >= lim THEN [ok |-> FALSE, next |-> 0] ELSE [ok |-> TRUE, next |-> p + 2])
    ELSE [ok |-> FALSE, next |-> 0]

SkipName(m, pos, lim) == SkipWalk(m, pos, lim, 0)

---------------------------------------------------------------------------
(* Questions and records *)

QFail == [ok |-> FALSE, name |-> <<>>, qtype |-> 0, qclass |-> 0, next |-> 0]
ParseQuestion(m, pos) ==
  LET n == ParseName(m, pos, Len(m)) IN
  IF ~n.ok THEN QFail
  ELSE IF n.next + 4 > Len(m) THEN QFail
  ELSE [ok |-> TRUE, name |-> n.name, qtype |-> U16(m, n.next),
        qclass |-> U16(m, n.next + 2), next |-> n.next + 4]

RFail == [ok |-> FALSE, name |-> <<>>, type |-> 0, class |-> 0, ttlhi |-> 0, ttllo |-> 0,
          rdlen |-> 0, rdpos |-> 0, next |-> 0]
\* record header plus the rule that RDLENGTH octets must be present
ParseRecord(m, pos) ==
  LET n == ParseName(m, pos, Len(m)) IN
  IF ~n.ok THEN RFail
  ELSE IF n.next + 10 > Len(m) THEN RFail
  ELSE LET rdlen == U16(m, n.next + 8)
           rdpos == n.next + 10
       IN IF rdpos + rdlen > Len(m) THEN RFail
          ELSE [ok |-> TRUE, name |-> n.name, type |-> U16(m, n.next),
                class |-> U16(m, n.next + 2), ttlhi |-> U16(m, n.next + 4),
                ttllo |-> U16(m, n.next + 6), rdlen |-> rdlen, rdpos |-> rdpos,
                next |-> rdpos + rdlen]

SkipRecord(m, pos) ==
  LET n == SkipName(m, pos, Len(m)) IN
  IF ~n.ok THEN [ok |-> FALSE, next |-> 0]
  ELSE IF n.next + 10 > Len(m) THEN [ok |-> FALSE, next |-> 0]
  ELSE LET e == n.next + 10 + U16(m, n.next + 8)
       IN IF e > Len(m) THEN [ok |-> FALSE, next |-> 0] ELSE [ok |-> TRUE, next |-> e]

---------------------------------------------------------------------------
(* RDATA.  Only the layouts that matter for pointer handling and for the    *)
(* OPT pseudo record are written down here (the per-type table is           *)
(* Rdata.tla's business): NS/CNAME/PTR = one name; MX = 16 bits + name;     *)
(* SOA = two names + 20 octets; OPT = option TLVs; A/AAAA = fixed length;   *)
(* private-use types 65280..65534 = raw octets; everything else is opaque   *)
(* to this module (k = "opaque": the spec makes no statement on whether     *)
(* the RDATA is well-formed).  A name inside RDATA must end exactly where   *)
(* the RDATA ends, and is read within the RDATA's limit.                    *)

RECURSIVE OptWalk(_, _, _, _)
OptWalk(m, p, lim, acc) ==
  IF p = lim THEN [ok |-> TRUE, opts |-> acc]
  ELSE IF p + 4 > lim THEN [ok |-> FALSE, opts |-> <<>>]
  ELSE LET l == U16(m, p + 2) IN
    IF p + 4 + l > lim THEN [ok |-> FALSE, opts |-> <<>>]
    ELSE OptWalk(m, p + 4 + l, lim, Append(acc, <<U16(m, p), l>>))

Rd(k, ok, names, opts) == [k |-> k, ok |-> ok, names |-> names, opts |-> opts]

IsRawType(t) == t >= 65280 /\ t <= 65534

Rdata(m, type, rdpos, rdlen) ==
  LET lim == rdpos + rdlen IN
  CASE type \in {T_NS, T_CNAME, T_PTR} ->
         LET n == ParseName(m, rdpos, lim)
         IN IF n.ok /\ n.next = lim THEN Rd("names", TRUE, <<n.name>>, <<>>)
            ELSE Rd("names", FALSE, <<>>, <<>>)
    [] type = T_MX ->
         IF rdlen < 2 THEN Rd("names", FALSE, <<>>, <<>>)
         ELSE LET n == ParseName(m, rdpos + 2, lim)
              IN IF n.ok /\ n.next = lim THEN Rd("names", TRUE, <<n.name>>, <<>>)
                 ELSE Rd("names", FALSE, <<>>, <<>>)
    [] type = T_SOA ->
         LET n1 == ParseName(m, rdpos, lim) IN
         IF ~n1.ok THEN Rd("names", FALSE, <<>>, <<>>)
         ELSE LET n2 == ParseName(m, n1.next, lim) IN
           IF n2.ok /\ n2.next + 20 = lim THEN Rd("names", TRUE, <<n1.name, n2.name>>, <<>>)
           ELSE Rd("names", FALSE, <<>>, <<>>)
    [] type = T_OPT ->
         LET o == OptWalk(m, rdpos, lim, <<>>)
         IN Rd("opt", o.ok, <<>>, o.opts)
    [] type = T_A -> Rd("fixed", rdlen = 4, <<>>, <<>>)
    [] type = T_AAAA -> Rd("fixed", rdlen = 16, <<>>, <<>>)
    [] IsRawType(type) -> Rd("raw", TRUE, <<>>, <<>>)
    [] OTHER -> Rd("opaque", TRUE, <<>>, <<>>)

QItem(q) == <<q.name, q.qtype, q.qclass>>
RItem(m, r) == <<r.name, r.type, r.class, r.ttlhi, r.ttllo, r.rdlen,
                 Rdata(m, r.type, r.rdpos, r.rdlen)>>

---------------------------------------------------------------------------
(* Sections: the items a section iterator yields, in order, up to the       *)
(* count or the first error ("fused").  A question section that failed      *)
(* makes the later sections unreachable; record sections are *skipped* to   *)
(* reach the next one, and skipping checks less than parsing.               *)

RECURSIVE QItems(_, _, _, _)
QItems(m, pos, rem, acc) ==
  IF rem = 0 THEN [items |-> acc, err |-> FALSE, end |-> pos]
  ELSE LET q == ParseQuestion(m, pos) IN
    IF ~q.ok THEN [items |-> acc, err |-> TRUE, end |-> pos]
    ELSE QItems(m, q.next, rem - 1, Append(acc, QItem(q)))

\* rdp: where the RDATA of each item starts (the typed views below show the
\* octets of fixed-length RDATA)
RECURSIVE RItemsP(_, _, _, _, _)
RItemsP(m, pos, rem, acc, pacc) ==
  IF rem = 0 THEN [items |-> acc, rdp |-> pacc, err |-> FALSE, end |-> pos]
  ELSE LET r == ParseRecord(m, pos) IN
    IF ~r.ok THEN [items |-> acc, rdp |-> pacc, err |-> TRUE, end |-> pos]
    ELSE RItemsP(m, r.next, rem - 1, Append(acc, RItem(m, r)), Append(pacc, r.rdpos))
RItems(m, pos, rem, acc) == RItemsP(m, pos, rem, acc, <<>>)

RECURSIVE SkipAll(_, _, _)
SkipAll(m, pos, rem) ==
  IF rem = 0 THEN [ok |-> TRUE, end |-> pos]
  ELSE LET s == SkipRecord(m, pos) IN
    IF ~s.ok THEN [ok |-> FALSE, end |-> pos] ELSE SkipAll(m, s.next, rem - 1)

QSection(m) == QItems(m, HdrLen, QD(m), <<>>)

\* start of record section sec (1..3): [ok, pos]
RECURSIVE SecStart(_, _)
SecStart(m, sec) ==
  IF sec = 1 THEN LET q == QSection(m) IN [ok |-> ~q.err, pos |-> q.end]
  ELSE LET prev == SecStart(m, sec - 1) IN
    IF ~prev.ok THEN [ok |-> FALSE, pos |-> 0]
    ELSE LET s == SkipAll(m, prev.pos, Count(m, sec - 1)) IN [ok |-> s.ok, pos |-> s.end]

NoSection == [reach |-> FALSE, items |-> <<>>, err |-> FALSE, rdp |-> <<>>]
SecFrom(m, st, cnt) ==
  IF ~st.ok THEN NoSection
  ELSE LET r == RItems(m, st.pos, cnt, <<>>)
       IN [reach |-> TRUE, items |-> r.items, err |-> r.err, rdp |-> r.rdp]

\* all four sections at once (S.q, S.st[1..3], S.sec[1..3]); the other
\* operators take this record so that nothing is evaluated twice
Sections(m) ==
  LET q == QSection(m)
      st1 == [ok |-> ~q.err, pos |-> q.end]
      sk1 == IF st1.ok THEN SkipAll(m, st1.pos, AN(m)) ELSE [ok |-> FALSE, end |-> 0]
      st2 == [ok |-> sk1.ok, pos |-> sk1.end]
      sk2 == IF st2.ok THEN SkipAll(m, st2.pos, NS(m)) ELSE [ok |-> FALSE, end |-> 0]
      st3 == [ok |-> sk2.ok, pos |-> sk2.end]
  IN [q |-> q, st |-> <<st1, st2, st3>>,
      sec |-> <<SecFrom(m, st1, AN(m)), SecFrom(m, st2, NS(m)), SecFrom(m, st3, AR(m))>>]

RSection(m, sec) == SecFrom(m, SecStart(m, sec), Count(m, sec))

\* Message::iter(): records of all three sections, parsing (not skipping)
\* from one section into the next; a framing error is reported twice (by
\* the section and by the attempt to move on; once in the additional
\* section, which has no successor) and ends the iteration.
RECURSIVE IterFrom(_, _, _, _)
IterFrom(m, sec, pos, nok) ==
  IF sec > 3 THEN <<nok, 0>>
  ELSE LET r == RItems(m, pos, Count(m, sec), <<>>) IN
    IF r.err THEN <<nok + Len(r.items), IF sec = 3 THEN 1 ELSE 2>>
    ELSE IterFrom(m, sec + 1, r.end, nok + Len(r.items))
IterCountsS(m, S) ==
  IF ~S.st[1].ok THEN <<0, 0>> ELSE IterFrom(m, 1, S.st[1].pos, 0)
IterCounts(m) == IterCountsS(m, Sections(m))

---------------------------------------------------------------------------
(* Derived read-side results *)

FirstQuestion(m) ==
  IF QD(m) = 0 THEN QFail ELSE ParseQuestion(m, HdrLen)

SoleQuestion(m) ==
  IF QD(m) # 1 THEN QFail ELSE ParseQuestion(m, HdrLen)

\* CNAME chain: candidates are the answer records of type CNAME with
\* well-formed RDATA, in message order; following stops when no candidate
\* is owned by the current name.  The bound ANCOUNT + 1 is over the
\* naturals: more steps than records means a loop.
CnameCandsS(S) ==
  SelectSeq(S.sec[1].items, LAMBDA it : it[2] = T_CNAME /\ it[7].ok)

FirstOwned(cands, name) ==
  LET idx == {i \in 1..Len(cands) : NameEq(cands[i][1], name)}
  IN IF idx = {} THEN 0 ELSE CHOOSE i \in idx : \A j \in idx : i <= j

\* returns the visited names, the last one is the result; looped = bound hit
RECURSIVE CnameFollow(_, _, _)
CnameFollow(cands, chain, rounds) ==
  IF rounds = 0 THEN [looped |-> TRUE, chain |-> chain]
  ELSE LET i == FirstOwned(cands, chain[Len(chain)]) IN
    IF i = 0 THEN [looped |-> FALSE, chain |-> chain]
    ELSE CnameFollow(cands, Append(chain, cands[i][7].names[1]), rounds - 1)

\* The bound is ANCOUNT + 1 rounds.  Following is deterministic in the
\* current name, so once more rounds than there are candidates have found a
\* successor some candidate was used twice and the walk never ends: the
\* verdict after Len(cands) + 1 rounds equals the verdict after ANCOUNT + 1
\* (Len(cands) <= ANCOUNT), which keeps TLC's recursion short.
CnameRounds(m, cands) == Min(AN(m) + 1, Len(cands) + 1)

CnRes(k, name) == [k |-> k, name |-> name]
\* the chain itself (also used by the CnameBound law)
CnameChainS(m, S) ==
  LET fq == FirstQuestion(m) IN
  IF ~fq.ok \/ ~S.st[1].ok THEN [started |-> FALSE, looped |-> FALSE, chain |-> <<>>]
  ELSE LET cands == CnameCandsS(S)
           f == CnameFollow(cands, <<fq.name>>, CnameRounds(m, cands))
       IN [started |-> TRUE, looped |-> f.looped, chain |-> f.chain]

CanonicalNameS(m, S) ==
  LET c == CnameChainS(m, S) IN
  IF ~c.started THEN CnRes("none", <<>>)
  ELSE IF "D_cname_ancount_overflow" \in Dev /\ AN(m) = 65535 THEN CnRes("panic", <<>>)
  ELSE IF c.looped THEN CnRes("none", <<>>)
  ELSE CnRes("name", c.chain[Len(c.chain)])
CanonicalName(m) == CanonicalNameS(m, Sections(m))
CnameChain(m) == CnameChainS(m, Sections(m))

\* OPT: the first record of the additional section that is an OPT record or
\* an error decides
RECURSIVE FirstOpt(_, _)
FirstOpt(items, i) ==
  IF i > Len(items) THEN 0
  ELSE IF items[i][2] = T_OPT THEN i ELSE FirstOpt(items, i + 1)

OptRes(k, v) == [k |-> k, v |-> v]
OptRecordS(S) ==
  LET s == S.sec[3] IN
  IF ~s.reach THEN OptRes("none", <<>>)
  ELSE LET i == FirstOpt(s.items, 1) IN
    IF i = 0 THEN OptRes("none", <<>>)
    ELSE IF ~s.items[i][7].ok THEN OptRes("none", <<>>)
    ELSE OptRes("opt", <<s.items[i][3], s.items[i][4], s.items[i][5], s.items[i][7].opts>>)

OptRecord(m) == OptRecordS(Sections(m))

\* Message::is_answer(self): QR set and the question section readable
IsAnswerSelf(m) == QR(m) /\ ~QSection(m).err

\* entry guard of the transfer-response interpreter for a first response;
\* the property only demands "no panic"
XfrFirst(m) ==
  IF Rcode(m) # 0 \/ ~QR(m) \/ Opcode(m) # 0 \/ TC(m) \/ AN(m) = 0 \/ NS(m) # 0 \/ QD(m) # 1
  THEN "nopanic"
  ELSE LET q == ParseQuestion(m, HdrLen) IN
    IF ~q.ok THEN "nopanic"
    ELSE IF q.qtype \notin {T_AXFR, T_IXFR} /\ "D_xfr_unreachable_qtype" \in Dev THEN "panic"
    ELSE "nopanic"

\* Label::iter_slice(m, start): labels until the root, a broken label or a
\* pointer that does not point backwards.  Result: the number of labels, or
\* "hang" (a call that never returns), or "unbounded" (an iterator that
\* never ends).  Ideal: a pointer must point strictly backwards and the
\* iteration is finite ("finite": the property fixes no particular count
\* for a pointer loop).  Encoded as integers so that results stay comparable.
SlHang == -1   SlUnbounded == -2   SlFinite == -3
\* The walk is a function of the current offset alone, so a walk that has
\* yielded more labels than the message has octets has visited some offset
\* twice and never ends: the cap is exact, not a tuning constant.
SliceCap(m) == Len(m) + 1
RECURSIVE SliceWalk(_, _, _)
SliceWalk(m, start, n) ==
  IF n >= SliceCap(m) THEN (IF "D_slice_iter_loop" \in Dev THEN SlUnbounded ELSE SlFinite)
  ELSE IF start >= Len(m) THEN n
  ELSE LET b == At(m, start) IN
    IF b = 0 THEN n + 1
    ELSE IF b <= 63 THEN (IF start + 1 + b > Len(m) THEN n ELSE SliceWalk(m, start + 1 + b, n + 1))
    ELSE IF b >= 192 THEN
      IF start + 1 >= Len(m) THEN n
      ELSE LET t == (b - 192) * 256 + At(m, start + 1) IN
        IF t > start THEN n
        ELSE IF t = start THEN (IF "D_slice_iter_selfptr" \in Dev THEN SlHang ELSE n)
        ELSE SliceWalk(m, t, n)
    ELSE n

\* The repaired iterator also carries a budget of 255 octets (a name cannot
\* be longer): a label that does not fit ends the iteration.  For walks
\* without a pointer loop this gives an exact count; for a loop the property
\* only asks for "finite".
RECURSIVE SliceWalkB(_, _, _, _)
SliceWalkB(m, start, n, budget) ==
  IF start >= Len(m) THEN n
  ELSE LET b == At(m, start) IN
    IF b = 0 THEN (IF budget >= 1 THEN n + 1 ELSE n)
    ELSE IF b <= 63 THEN
      IF start + 1 + b > Len(m) \/ b + 1 > budget THEN n
      ELSE SliceWalkB(m, start + 1 + b, n + 1, budget - (b + 1))
    ELSE IF b >= 192 THEN
      IF start + 1 >= Len(m) THEN n
      ELSE LET t == (b - 192) * 256 + At(m, start + 1) IN
        IF t >= start THEN n ELSE SliceWalkB(m, t, n, budget)
    ELSE n

SliceLabels(m, start) ==
  LET raw == SliceWalk(m, start, 0) IN
  IF raw < 0 \/ "D_slice_iter_loop" \in Dev THEN raw ELSE SliceWalkB(m, start, 0, 255)

---------------------------------------------------------------------------
(* Typed views of a record section.  RecordSection::limit_to::<D>() hands   *)
(* out the records whose type D takes, limit_to_in::<D>() those of them in  *)
(* class IN, into_records::<D>() all of them; a record the view skips is    *)
(* still framed like any other (a framing error ends every view), a record  *)
(* it takes yields a value or, if D rejects the RDATA, an error after which *)
(* the walk goes on.  A view is a function of the section's items alone:    *)
(* how the iterator was obtained (directly, as a clone, as a clone of a     *)
(* clone, mid-walk) does not matter.  D is the record-data type:            *)
(* one concrete type, or one of the three catch-alls (AllRecordData reads   *)
(* every type by its own layout, ZoneRecordData reads OPT and other         *)
(* pseudo-types as raw octets, UnknownRecordData reads everything as raw    *)
(* octets).                                                                 *)

TView(k, d) == [k |-> k, d |-> d]            \* k: "raw" "lim" "limin" "any"
RawView == TView("raw", "")
DataType(d) ==
  CASE d = "A" -> T_A [] d = "Aaaa" -> T_AAAA [] d = "Ns" -> T_NS [] d = "Cname" -> T_CNAME
    [] d = "Ptr" -> T_PTR [] d = "Mx" -> T_MX [] d = "Soa" -> T_SOA [] d = "Opt" -> T_OPT
    [] d = "Txt" -> 16 [] d = "Dnskey" -> 48 [] d = "Ds" -> 43 [] d = "Nsec" -> 47
    [] OTHER -> -1                              \* All, Zone, Unknown: every type
Selects(v, type, class) ==
  /\ v.k = "limin" => class = 1
  /\ v.k = "any" \/ DataType(v.d) < 0 \/ DataType(v.d) = type

RdAs(d, type, rd) ==
  IF d = "Unknown" \/ (d = "Zone" /\ type = T_OPT) THEN Rd("raw", TRUE, <<>>, <<>>) ELSE rd
RdSum(m, rd, rdpos, rdlen) ==
  CASE rd.k = "names" -> rd.names
    [] rd.k = "opt" -> rd.opts
    [] rd.k = "fixed" -> Slice(m, rdpos, rdpos + rdlen)
    [] OTHER -> <<rdlen>>
\* what a view yields for an item it takes: the record, an error, or "o"
\* where the specification does not know the layout (value or error)
TElem(m, v, it, rdpos) ==
  LET rd == RdAs(v.d, it[2], it[7]) IN
  IF rd.k = "opaque" THEN <<"o">>
  ELSE IF ~rd.ok THEN <<"e">>
  ELSE <<"r", it[1], it[2], it[3], it[4], it[5], RdSum(m, rd, rdpos, it[6])>>

\* the indices of the items a view takes, and the whole walk from item `from`
TIdx(v, s, from) ==
  SelectSeq([i \in 1..(Len(s.items) - from + 1) |-> from + i - 1],
            LAMBDA i : Selects(v, s.items[i][2], s.items[i][3]))
TWalkFrom(m, v, s, from) ==
  LET idx == TIdx(v, s, from)
  IN [j \in 1..Len(idx) |-> TElem(m, v, s.items[idx[j]], s.rdp[idx[j]])]
     \o (IF s.err THEN << <<"e">> >> ELSE <<>>)

\* the views the read battery walks in every reachable record section
TViews == << TView("lim", "All"), TView("limin", "All"), TView("any", "All"),
             TView("lim", "A"), TView("limin", "A"), TView("lim", "Cname"), TView("limin", "Cname"),
             TView("lim", "Aaaa"), TView("limin", "Ns"), TView("lim", "Ptr"), TView("lim", "Mx"),
             TView("limin", "Soa"), TView("lim", "Opt"), TView("lim", "Txt"), TView("limin", "Dnskey"),
             TView("lim", "Ds"), TView("lim", "Nsec"), TView("lim", "Zone"), TView("lim", "Unknown"),
             TView("limin", "Unknown") >>
TypedS(m, S) ==
  [x \in 1..3 |-> IF S.sec[x].reach
                  THEN [i \in 1..Len(TViews) |-> TWalkFrom(m, TViews[i], S.sec[x], 1)]
                  ELSE <<>>]

\* a record read at a given offset outside any section (Record::parse,
\* RecordHeader::parse + advance, RecordHeader::parse_and_skip,
\* ParsedRecord::parse all read the same header; ParsedRecord::skip skips)
RecAt(m, pos) ==
  LET r == ParseRecord(m, pos)  k == SkipRecord(m, pos) IN
  << IF r.ok THEN <<1, r.next, r.type, r.class, r.ttlhi, r.ttllo, r.rdlen>> ELSE <<0>>,
     IF k.ok THEN <<1, k.next>> ELSE <<0>> >>

---------------------------------------------------------------------------
(* The projection compared with the implementation (S->I cases and I->S     *)
(* "read" events): everything the read battery observes.  sl lists          *)
(* SliceLabels for the given start offsets.                                 *)

ProjSec(s) == [reach |-> s.reach, items |-> s.items, err |-> s.err]

Projection(m, starts) ==
  IF IsShort(m) THEN [short |-> TRUE]
  ELSE LET S == Sections(m)
           sq == SoleQuestion(m)
       IN [short |-> FALSE,
           hdr |-> <<HId(m), HFlags(m), QD(m), AN(m), NS(m), AR(m)>>,
           hdrx |-> HBits(m),
           q |-> [items |-> S.q.items, err |-> S.q.err],
           an |-> ProjSec(S.sec[1]),
           ns |-> ProjSec(S.sec[2]),
           ar |-> ProjSec(S.sec[3]),
           typed |-> TypedS(m, S),
           recat |-> [i \in 1..Len(starts) |-> RecAt(m, starts[i])],
           iter |-> IterCountsS(m, S),
           cname |-> CanonicalNameS(m, S),
           opt |-> OptRecordS(S),
           selfans |-> QR(m) /\ ~S.q.err,
           sole |-> [ok |-> sq.ok, q |-> IF sq.ok THEN QItem(sq) ELSE <<>>],
           xfr |-> XfrFirst(m),
           sl |-> [i \in 1..Len(starts) |-> SliceLabels(m, starts[i])]]

---------------------------------------------------------------------------
(* C19: the same octets read item by item (a name, a question, a record at  *)
(* a given offset) and as a whole message in the new API's flattened view   *)
(* (questions, then records, the iteration ends at the first error; RDATA   *)
(* is parsed with the item; an additional record that starts with 00 00 29  *)
(* is the EDNS record).  Where the spec does not know the RDATA layout the  *)
(* verdict is "und" (undecided) and only the two codecs are compared.       *)
(* The same items are also read from a byte string with no message around   *)
(* it (the routes that never decompress: PlainName, PlainView below).       *)
(*                                                                          *)
(* NewRule = TRUE describes what the new codec does today                   *)
(* (D_new_ptr_rule): a pointer must point to an offset >= 12 that lies      *)
(* before the start of the label run it is read in, instead of just before  *)
(* the pointer itself.                                                      *)

RECURSIVE NameWalkN(_, _, _, _, _, _, _, _)
NameWalkN(m, p, lim, acc, used, endp, seg, fuel) ==
  IF fuel = 0 THEN NFail("fuel")
  ELSE IF p >= lim THEN NFail("short")
  ELSE LET b == At(m, p) IN
    IF b = 0 THEN [ok |-> TRUE, why |-> "", name |-> acc,
                   next |-> IF endp < 0 THEN p + 1 ELSE endp,
                   wlen |-> used + 1, comp |-> endp >= 0]
    ELSE IF b <= 63 THEN
      IF p + 1 + b > lim THEN NFail("short")
      ELSE IF used + b + 1 >= 255 THEN NFail("long")
      ELSE NameWalkN(m, p + 1 + b, lim, Append(acc, Slice(m, p + 1, p + 1 + b)),
                     used + b + 1, endp, seg, fuel - 1)
    ELSE IF b >= 192 THEN
      IF p + 1 >= lim THEN NFail("short")
      ELSE LET t == (b - 192) * 256 + At(m, p + 1) IN
        IF t < HdrLen \/ t >= seg THEN NFail("pointer")
        ELSE NameWalkN(m, t, lim, acc, used, IF endp < 0 THEN p + 2 ELSE endp, t, fuel - 1)
    ELSE NFail("labeltype")

PName(newRule, m, pos, lim) ==
  IF newRule THEN NameWalkN(m, pos, lim, <<>>, 0, -1, pos, NameFuel(m)) ELSE ParseName(m, pos, lim)

\* A name read without any message context (the new API's ParseBytes /
\* SplitBytes of &Name, NameBuf, RevNameBuf; the established Name::parse and
\* Name::from_octets): labels up to the root, at most 255 octets with the
\* root, and a compression pointer is an error like any other label type.
RECURSIVE PlainWalk(_, _, _, _, _)
PlainWalk(m, p, lim, acc, used) ==
  IF p >= lim THEN NFail("short")
  ELSE LET b == At(m, p) IN
    IF b = 0 THEN [ok |-> TRUE, why |-> "", name |-> acc, next |-> p + 1,
                   wlen |-> used + 1, comp |-> FALSE]
    ELSE IF b <= 63 THEN
      IF p + 1 + b > lim THEN NFail("short")
      ELSE IF used + b + 1 >= 255 THEN NFail("long")
      ELSE PlainWalk(m, p + 1 + b, lim, Append(acc, Slice(m, p + 1, p + 1 + b)), used + b + 1)
    ELSE IF b >= 192 THEN NFail("pointer")
    ELSE NFail("labeltype")
PlainName(m, pos, lim) == PlainWalk(m, pos, lim, <<>>, 0)

\* The reading routes: "old" / "new" read inside a message (pointers by the
\* RFC's rule / by the new codec's rule of today), "plain" reads a byte
\* string that has no message around it.
Route(newRule) == IF newRule THEN "new" ELSE "old"
PNameR(r, m, pos, lim) ==
  CASE r = "old" -> ParseName(m, pos, lim)
    [] r = "new" -> NameWalkN(m, pos, lim, <<>>, 0, -1, pos, NameFuel(m))
    [] OTHER -> PlainName(m, pos, lim)

CvFail == [ok |-> FALSE, und |-> FALSE, item |-> <<>>, next |-> 0]
CvName(nr, m, pos) ==
  LET n == PName(nr, m, pos, Len(m)) IN
  IF n.ok THEN [ok |-> TRUE, und |-> FALSE, item |-> <<n.name>>, next |-> n.next] ELSE CvFail
CvQuestion(nr, m, pos) ==
  LET n == PName(nr, m, pos, Len(m)) IN
  IF ~n.ok \/ n.next + 4 > Len(m) THEN CvFail
  ELSE [ok |-> TRUE, und |-> FALSE, item |-> <<n.name, U16(m, n.next), U16(m, n.next + 2)>>,
        next |-> n.next + 4]

\* RDATA layouts beyond Rdata() that both codecs know.  SRV target, DNAME
\* target, NSEC next name and RRSIG signer are never compressed by a sender
\* (RFC 2782, 6672, 4034) and the new codec reads them as plain names on
\* every route; RFC 3597 4 lets a receiver decompress some of them, so for a
\* pointer met there inside a message the referee gives no verdict.  RP has
\* two names that receivers decompress.  TXT is one or more character
\* strings, HINFO exactly two, filling the RDATA (RFC 1035 3.3); an empty
\* TXT and a type bitmap that is not in the canonical form of RFC 4034 4.1.2
\* are left open (known disagreements of the codecs, D_rdata_txt_empty and
\* D_rdata_bitmap_noncanonical).
T_HINFO == 13   T_TXT == 16   T_RP == 17   T_SRV == 33   T_DNAME == 39   T_RRSIG == 46   T_NSEC == 47

RECURSIVE StrWalk(_, _, _, _)
StrWalk(m, p, lim, n) ==             \* the number of strings that fill p..lim, or -1
  IF p = lim THEN n
  ELSE IF p + 1 + At(m, p) > lim THEN -1
  ELSE StrWalk(m, p + 1 + At(m, p), lim, n + 1)

RECURSIVE BitmapWalk(_, _, _, _)
BitmapWalk(m, p, lim, last) ==
  IF p = lim THEN TRUE
  ELSE IF p + 2 > lim THEN FALSE
  ELSE LET w == At(m, p)  l == At(m, p + 1) IN
    IF w <= last \/ l = 0 \/ l > 32 \/ p + 2 + l > lim THEN FALSE
    ELSE IF At(m, p + 1 + l) = 0 THEN FALSE
    ELSE BitmapWalk(m, p + 2 + l, lim, w)
BitmapCanonical(m, p, lim) == p < lim /\ BitmapWalk(m, p, lim, -1)

RdBad == Rd("names", FALSE, <<>>, <<>>)
RdOpen == Rd("opaque", TRUE, <<>>, <<>>)
\* a name that is never decompressed, at p, inside RDATA ending at lim
EmbName(r, m, p, lim) ==
  LET n == PlainName(m, p, lim)
  IN [ok |-> n.ok, open |-> ~n.ok /\ n.why = "pointer" /\ r # "plain", name |-> n.name, next |-> n.next]

CvRdataR(r, m, type, rdpos, rdlen) ==
  LET lim == rdpos + rdlen
      one(p) == LET n == PNameR(r, m, p, lim)
                IN IF n.ok /\ n.next = lim THEN Rd("names", TRUE, <<n.name>>, <<>>) ELSE RdBad
      emb(p, last) == LET n == EmbName(r, m, p, lim)
                      IN IF n.open THEN RdOpen
                         ELSE IF n.ok /\ (~last \/ n.next = lim) THEN Rd("names", TRUE, <<n.name>>, <<>>)
                         ELSE RdBad
  IN CASE type \in {T_NS, T_CNAME, T_PTR} -> one(rdpos)
       [] type = T_MX -> IF rdlen < 2 THEN RdBad ELSE one(rdpos + 2)
       [] type = T_SOA ->
            LET n1 == PNameR(r, m, rdpos, lim) IN
            IF ~n1.ok THEN RdBad
            ELSE LET n2 == PNameR(r, m, n1.next, lim) IN
              IF n2.ok /\ n2.next + 20 = lim THEN Rd("names", TRUE, <<n1.name, n2.name>>, <<>>)
              ELSE RdBad
       [] type = T_RP ->
            LET n1 == PNameR(r, m, rdpos, lim) IN
            IF ~n1.ok THEN RdBad
            ELSE LET n2 == PNameR(r, m, n1.next, lim) IN
              IF n2.ok /\ n2.next = lim THEN Rd("names", TRUE, <<n1.name, n2.name>>, <<>>)
              ELSE RdBad
       [] type = T_SRV -> IF rdlen < 6 THEN RdBad ELSE emb(rdpos + 6, TRUE)
       [] type = T_DNAME -> emb(rdpos, TRUE)
       [] type = T_RRSIG -> IF rdlen < 18 THEN RdBad ELSE emb(rdpos + 18, FALSE)
       [] type = T_NSEC ->
            LET n == EmbName(r, m, rdpos, lim) IN
            IF n.open THEN RdOpen
            ELSE IF ~n.ok THEN RdBad
            ELSE IF BitmapCanonical(m, n.next, lim) THEN Rd("names", TRUE, <<n.name>>, <<>>)
            ELSE RdOpen
       [] type = T_TXT ->
            IF rdlen = 0 THEN RdOpen
            ELSE Rd("strs", StrWalk(m, rdpos, lim, 0) > 0, <<>>, <<>>)
       [] type = T_HINFO -> Rd("strs", StrWalk(m, rdpos, lim, 0) = 2, <<>>, <<>>)
       [] OTHER -> Rdata(m, type, rdpos, rdlen)
CvRdata(nr, m, type, rdpos, rdlen) == CvRdataR(Route(nr), m, type, rdpos, rdlen)

CvRecordR(r, m, pos) ==
  LET n == PNameR(r, m, pos, Len(m)) IN
  IF ~n.ok \/ n.next + 10 > Len(m) THEN CvFail
  ELSE LET rdlen == U16(m, n.next + 8)
           rdpos == n.next + 10
       IN IF rdpos + rdlen > Len(m) THEN CvFail
          ELSE LET t == U16(m, n.next)
                   rd == CvRdataR(r, m, t, rdpos, rdlen)
               IN IF rd.k = "opaque" THEN [ok |-> FALSE, und |-> TRUE, item |-> <<>>, next |-> 0]
                  ELSE IF ~rd.ok THEN CvFail
                  ELSE [ok |-> TRUE, und |-> FALSE,
                        item |-> <<n.name, t, U16(m, n.next + 2), U16(m, n.next + 4), U16(m, n.next + 6),
                                   rd.names, rd.opts>>,
                        next |-> rdpos + rdlen]
CvRecord(nr, m, pos) == CvRecordR(Route(nr), m, pos)

\* the EDNS record of the new API: 00 00 29, class, ttl, RDLENGTH, options
CvEdns(m, pos) ==
  IF pos + 11 > Len(m) THEN CvFail
  ELSE LET rdlen == U16(m, pos + 9) IN
    IF pos + 11 + rdlen > Len(m) THEN CvFail
    ELSE LET o == OptWalk(m, pos + 11, pos + 11 + rdlen, <<>>) IN
      IF ~o.ok THEN CvFail
      ELSE [ok |-> TRUE, und |-> FALSE,
            item |-> <<<<>>, T_OPT, U16(m, pos + 3), U16(m, pos + 5), U16(m, pos + 7), <<>>, o.opts>>,
            next |-> pos + 11 + rdlen]

IsEdnsAt(m, pos) == pos + 3 <= Len(m) /\ At(m, pos) = 0 /\ At(m, pos + 1) = 0 /\ At(m, pos + 2) = T_OPT

RECURSIVE NewWalk(_, _, _, _, _, _)
NewWalk(nr, m, sec, pos, rem, acc) ==
  IF rem = 0 THEN
    (IF sec = 3 THEN [items |-> acc, end |-> "done"]
     ELSE NewWalk(nr, m, sec + 1, pos, Count(m, sec + 1), acc))
  ELSE LET it == IF sec = 0 THEN CvQuestion(nr, m, pos)
                 ELSE IF sec = 3 /\ IsEdnsAt(m, pos) THEN CvEdns(m, pos)
                 ELSE CvRecord(nr, m, pos)
           tag == IF sec = 3 /\ IsEdnsAt(m, pos) THEN 4 ELSE sec
       IN IF it.und THEN [items |-> acc, end |-> "und"]
          ELSE IF ~it.ok THEN [items |-> acc, end |-> "err"]
          ELSE NewWalk(nr, m, sec, it.next, rem - 1, Append(acc, <<tag, it.item>>))

NewView(nr, m) ==
  IF IsShort(m) THEN [items |-> <<>>, end |-> "short"]
  ELSE NewWalk(nr, m, 0, HdrLen, QD(m), <<>>)

EdnsView(m, pos) ==
  IF ~IsEdnsAt(m, pos) THEN [ok |-> FALSE, v |-> <<>>]
  ELSE LET e == CvEdns(m, pos) IN
    IF ~e.ok THEN [ok |-> FALSE, v |-> <<>>]
    ELSE [ok |-> TRUE, v |-> <<e.item[3], e.item[4] \div 256, e.item[4] % 256, e.item[5], e.item[7]>>]

CvOut(x) == [ok |-> x.ok, und |-> x.und, item |-> x.item, next |-> x.next]
\* (TLC evaluates a function constructor anew at every application; Tup makes
\* it a tuple of values once)
Tup(f) == f \o <<>>
CodecView(nr, m, starts) ==
  [names |-> Tup([i \in 1..Len(starts) |-> CvOut(CvName(nr, m, starts[i]))]),
   qs |-> Tup([i \in 1..Len(starts) |-> CvOut(CvQuestion(nr, m, starts[i]))]),
   rs |-> Tup([i \in 1..Len(starts) |-> CvOut(CvRecord(nr, m, starts[i]))]),
   \* the EDNS view <<payload size, extended rcode, version, flags, options>> of
   \* an OPT record with the root owner, whichever way it is obtained
   edns |-> Tup([i \in 1..Len(starts) |-> EdnsView(m, starts[i])]),
   msg |-> NewView(nr, m)]

\* The routes without decompression: the octets from..to of m taken as a
\* byte string of their own.  n: a name split off its front (and `exact`:
\* the string is that name and nothing else); sk: a name skipped, a pointer
\* ending it unread (the new API's UnparsedName, the established
\* ParsedName::skip); q, rn: a question / a record with every name in it
\* plain; ro: the same string handed to the message route of the
\* established codec as if it were a message (offsets from its start).
PvName(b) ==
  LET n == PlainName(b, 0, Len(b))
  IN [ok |-> n.ok, item |-> IF n.ok THEN <<n.name>> ELSE <<>>, next |-> IF n.ok THEN n.next ELSE 0,
      exact |-> n.ok /\ n.next = Len(b)]
PvSkip(b) ==
  LET k == SkipName(b, 0, Len(b)) IN [ok |-> k.ok, next |-> k.next]
PvQuestion(b) ==
  LET n == PlainName(b, 0, Len(b)) IN
  IF ~n.ok \/ n.next + 4 > Len(b) THEN [ok |-> FALSE, item |-> <<>>, next |-> 0, exact |-> FALSE]
  ELSE [ok |-> TRUE, item |-> <<n.name, U16(b, n.next), U16(b, n.next + 2)>>, next |-> n.next + 4,
        exact |-> n.next + 4 = Len(b)]
PvRecord(r, b) ==
  LET x == CvRecordR(r, b, 0)
  IN [ok |-> x.ok, und |-> x.und, item |-> x.item, next |-> x.next, exact |-> x.ok /\ x.next = Len(b)]
PlainView(m, probes) ==
  Tup([i \in 1..Len(probes) |->
         LET b == Slice(m, probes[i][1], probes[i][2])
         IN [n |-> PvName(b), sk |-> PvSkip(b), q |-> PvQuestion(b),
             rn |-> PvRecord("plain", b), ro |-> PvRecord("old", b)]])

\* One S->I case of C19: the message, where to read items in it, which
\* stretches to read as byte strings of their own, and - part of the input -
\* where the referee gives no verdict on the RDATA (`und`: the executor
\* still performs the call and reports "undecided" once the record's framing
\* is read).  Expected: every route of both codecs gives the referee's view
\* (in `plain`, n and sk are what both codecs say, q and rn the new one's
\* routes, ro the established one's); under D_new_ptr_rule the new codec's message routes give the view of its
\* own pointer rule.
CodecCase(m, starts, probes) ==
  LET v == CodecView(FALSE, m, starts)
      vn == CodecView(TRUE, m, starts)
      pv == PlainView(m, probes)
      und == [rs |-> [i \in 1..Len(starts) |-> v.rs[i].und],
              msg |-> IF v.msg.end = "und" THEN Len(v.msg.items) ELSE -1,
              rn |-> [i \in 1..Len(probes) |-> pv[i].rn.und],
              ro |-> [i \in 1..Len(probes) |-> pv[i].ro.und]]
  IN [in |-> [m |-> m, starts |-> starts, probes |-> probes, und |-> und],
      exp |-> [old |-> v, new |-> v, agree |-> TRUE, plain |-> pv],
      dev |-> IF vn # v THEN [D_new_ptr_rule |-> [new |-> vn, agree |-> FALSE]] ELSE [none |-> 0]]

---------------------------------------------------------------------------
(* Laws (checked by TLC over the enumerated messages in MC_Wire)            *)

AllNamesS(S) ==   \* every name the projection hands out
  LET secs == S.sec
      q == S.q
  IN {q.items[i][1] : i \in 1..Len(q.items)}
     \cup UNION {{secs[s].items[i][1] : i \in 1..Len(secs[s].items)} : s \in 1..3}
     \cup UNION {UNION {{secs[s].items[i][7].names[j] : j \in 1..Len(secs[s].items[i][7].names)}
                        : i \in 1..Len(secs[s].items)} : s \in 1..3}

ReturnedNamesValidS(S) == \A n \in AllNamesS(S) : ValidAbs(n)
ReturnedNamesValidFor(m) == ReturnedNamesValidS(Sections(m))

\* whatever parses can be skipped to the same position, so that mixing
\* iteration and section skipping cannot desynchronise
ParseImpliesSkipSameAt(m, pos) ==
  LET r == ParseRecord(m, pos) IN r.ok => (SkipRecord(m, pos).ok /\ SkipRecord(m, pos).next = r.next)

NameFuelSufficientAt(m, pos) == ParseName(m, pos, Len(m)).why # "fuel"

NameWithinAt(m, pos) ==
  LET n == ParseName(m, pos, Len(m)) IN
  n.ok => (n.next > pos /\ n.next <= Len(m) /\ n.wlen = WireLenAbs(n.name) /\ ValidAbs(n.name))

\* a detected CNAME loop is a real one: some name is visited twice
CnameBoundS(m, S) ==
  LET c == CnameChainS(m, S) IN
  /\ Len(c.chain) <= AN(m) + 2
  /\ c.looped => \E i \in 1..Len(c.chain), j \in 1..Len(c.chain) : i < j /\ NameEq(c.chain[i], c.chain[j])
CnameBoundFor(m) == CnameBoundS(m, Sections(m))

\* all laws about one position, sharing the parse
NameLawsAt(m, pos) ==
  LET n == ParseName(m, pos, Len(m))
      r == ParseRecord(m, pos)
      k == SkipRecord(m, pos)
  IN /\ n.why # "fuel"
     /\ n.ok => (n.next > pos /\ n.next <= Len(m) /\ n.wlen = WireLenAbs(n.name) /\ ValidAbs(n.name))
     /\ r.ok => (k.ok /\ k.next = r.next)
=============================================================================
