CONSTANTS
  Dev = {}
  Mode = "dgram"
  NConn = 1
  MaxReq = 6
  QCapG = 1
  Kinds = {"single", "stream2", "fail", "rfail", "empty", "ckfar", "cklen", "nimp"}
  MaxOps = 12
  MaxCredit = 5
  MaxTick = 3
  Limit = 2
  AAM = TRUE
  WithSReconf = FALSE
  Defaults = FALSE
SPECIFICATION Spec
INVARIANT Emit
CHECK_DEADLOCK FALSE
