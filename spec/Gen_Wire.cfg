CONSTANTS
  Dev = {}
  Big = FALSE
SPECIFICATION Spec
INVARIANT Emit
CHECK_DEADLOCK FALSE
