---------------------------- MODULE MC_ZoneFile ----------------------------
(* Character level: every string over ten character classes is pushed,     *)
(* octet by octet, through the reader machine (tokenizer + entry machine)  *)
(* of ZoneFile.tla, in two contexts: as a whole file, and as the data of   *)
(* a TXT record ("a TXT " is fed first).  m runs with the configured Dev,  *)
(* md with the deviations reachable over this alphabet switched on (used   *)
(* by the case generator for the `dev` expectation).                       *)
EXTENDS ZoneFile, TLC, Json

CONSTANT MaxLen

VARIABLES ctx, txt, m, md,
          act      \* name of the last action (TLC's -coverage cost model does not
                   \* terminate on this spec; the generated cases carry the action instead)
vars == <<ctx, txt, m, md, act>>

\* SP LF CR ( ) ; " \ 0 a
Chars == {32, 10, 13, 40, 41, 59, 34, 92, 48, 97}
Origin0 == <<1, 111, 0>>                     \* "o."
CodeDevs == {"D_charstr_entry_no_token"}     \* no '.', '$' or long numbers in this alphabet
Prefix(c) == IF c = "txt" THEN <<97, 32, 84, 88, 84, 32>> ELSE <<>>      \* "a TXT "
OwnSuffix == <<32, 84, 88, 84, 32, 120, 10>>                             \* " TXT x\n"

Init == /\ ctx \in {"file", "txt"}
        /\ txt = <<>>
        /\ m  = FeedAll(RdInit(Origin0, 1), Prefix(ctx), 1, Dev)
        /\ md = FeedAll(RdInit(Origin0, 1), Prefix(ctx), 1, CodeDevs)
        /\ act = "Init"

Push(c, a) == /\ Len(txt) < MaxLen
           /\ act' = a
           /\ txt' = Append(txt, c)
           /\ m'  = Feed(m, c, Dev)
           /\ md' = Feed(md, c, CodeDevs)
           /\ UNCHANGED ctx

\* one action per character class of the tokenizer
PushSpace     == \E c \in {32, 13} : Push(c, "PushSpace")
PushLineFeed  == Push(10, "PushLineFeed")
PushOpen      == Push(40, "PushOpen")
PushClose     == Push(41, "PushClose")
PushSemicolon == Push(59, "PushSemicolon")
PushQuote     == Push(34, "PushQuote")
PushBackslash == Push(92, "PushBackslash")
PushWordChar  == \E c \in {48, 97} : Push(c, "PushWordChar")
Next == PushSpace \/ PushLineFeed \/ PushOpen \/ PushClose \/ PushSemicolon
        \/ PushQuote \/ PushBackslash \/ PushWordChar
Spec == Init /\ [][Next]_vars

--------------------------------------------------------------------------
(* Invariants of the tokenizer machine *)
ParensNonNeg == m.tk.par >= 0
\* the in-place conversion never writes past the read cursor: one spare
\* octet in front of the buffer, one length/spare octet per token, one octet
\* per symbol, against the octets read
WriteNeverPassesRead == m.tk.wr <= m.tk.pos + 1
EofInsideQuoteIsError ==
  (m.tk.m = "quo" \/ m.tk.e > 0) => LET o == Outcome(m, Dev) IN o = Unmodelled \/ "panic" \in DOMAIN o \/ o.err
\* the ideal reader is total without panics, and its outcome is well formed
IdealNeverPanics == Dev = {} => "panic" \notin DOMAIN Outcome(m, Dev)
NeverPanics == "panic" \notin DOMAIN Outcome(m, Dev)      \* violated with D_charstr_entry_no_token (documentation)
OutcomeWellFormed ==
  LET o == Outcome(m, Dev)
  IN \/ o = Unmodelled \/ o = [panic |-> TRUE]
     \/ /\ DOMAIN o = {"entries", "err"}
        /\ \A i \in 1..Len(o.entries) : Len(o.entries[i].owner) <= 255
\* position and line only move forward, one octet per step while running
PosMonotone == [][(m.en.st = "run" /\ ~m.tk.err) => (m'.tk.pos = m.tk.pos + 1 /\ m'.tk.line >= m.tk.line)]_vars
\* a stopped reader stays stopped with the same result
ErrSticky == [][m.en.st # "run" => m'.en = m.en]_vars
\* entries already returned are never taken back
OutputPrefix == [][Len(m'.en.out) >= Len(m.en.out) /\ SubSeq(m'.en.out, 1, Len(m.en.out)) = m.en.out]_vars
\* the deviant machine differs from the ideal one only by its named defects:
\* whenever it does not panic and has not read over a line feed, it agrees
DevOnlyAtGuards ==
  LET o == Outcome(m, {})  d == Outcome(md, CodeDevs)
  IN (Dev = {} /\ o # d) => (d = [panic |-> TRUE] \/ (o # Unmodelled /\ o.err))

--------------------------------------------------------------------------
(* S->I case generator *)
Case(c, text, o, d) ==
  IF o = Unmodelled \/ d = Unmodelled THEN TRUE
  ELSE IF o = d
  THEN PrintT("CASE " \o ToJson([in |-> [ctx |-> c, text |-> text, act |-> act], exp |-> o]))
  ELSE PrintT("CASE " \o ToJson([in |-> [ctx |-> c, text |-> text, act |-> act], exp |-> o,
                                  dev |-> [D_charstr_entry_no_token |-> d]]))

Emit ==
  /\ Case(ctx, Prefix(ctx) \o txt, Outcome(m, {}), Outcome(md, CodeDevs))
  /\ (ctx = "file" /\ txt # <<>>) =>
        Case("own", txt \o OwnSuffix,
             Outcome(FeedAll(m, OwnSuffix, 1, {}), {}),
             Outcome(FeedAll(md, OwnSuffix, 1, CodeDevs), CodeDevs))
=============================================================================
