---------------------------- MODULE MC_ZoneFile ----------------------------
(* Character level: every string over ten character classes is pushed,     *)
(* octet by octet, through the reader machine (tokenizer + entry machine)  *)
(* of ZoneFile.tla, in several contexts: as a whole file, as the data of   *)
(* a TXT record ("a TXT " is fed first), as what follows "$INCLUDE " (the  *)
(* string scanner), as what follows an "@" at the start of a line (the     *)
(* lone-@ recogniser and whatever delimiter ends it), and as the data of   *)
(* an OPENPGPKEY record (the symbol converters; that alphabet has "=" and  *)
(* the two octets of U+0080, the first character outside ASCII).  Every    *)
(* string is also read with each completing suffix of its context.         *)
(* m runs with the configured Dev,                                         *)
(* md with the deviations reachable over this alphabet switched on (used   *)
(* by the case generator for the `dev` expectation).                       *)
EXTENDS ZoneFile, TLC, Json

CONSTANT MaxLen

VARIABLES ctx, txt, m, md,
          act      \* name of the last action (TLC's -coverage cost model does not
                   \* terminate on this spec; the generated cases carry the action instead)
vars == <<ctx, txt, m, md, act>>

\* SP LF CR ( ) ; " \ 0 a
Chars == {32, 10, 13, 40, 41, 59, 34, 92, 48, 97}
Contexts == {"file", "txt", "inc", "at", "b64"}
\* the alphabet of a context
Alphabet(c) == CASE c = "inc" -> Chars \ {13, 41}
                 [] c = "at"  -> Chars \ {13}
                 [] c = "b64" -> {32, 10, 40, 41, 34, 92, 97, 61, 194, 128}      \* SP LF ( ) " \ a = C2 80
                 [] OTHER -> Chars
Origin0 == <<1, 111, 0>>                     \* "o."
CodeDevs == {"D_charstr_entry_no_token"}     \* no '.', '$' or long numbers in this alphabet
Prefix(c) == CASE c = "txt" -> <<97, 32, 84, 88, 84, 32>>                                   \* "a TXT "
               [] c = "inc" -> W_INCLUDE \o <<32>>                                           \* "$INCLUDE "
               [] c = "at"  -> <<AT>>                                                        \* "@"
               [] c = "b64" -> <<97, 32, 79, 80, 69, 78, 80, 71, 80, 75, 69, 89, 32>>        \* "a OPENPGPKEY "
               [] OTHER -> <<>>
OwnSuffix == <<32, 84, 88, 84, 32, 120, 10>>                             \* " TXT x\n"
\* completing suffixes: <<tag of the generated case, octets>>
Suffixes(c) == CASE c = "file" -> {<<"own", OwnSuffix>>}
                 [] c = "inc"  -> {<<"inc-q", <<QUOTE, LF>>>>, <<"inc-l", <<LF>>>>}
                 [] c = "at"   -> {<<"at-own", OwnSuffix>>}
                 [] c = "b64"  -> {<<"b64-l", <<LF>>>>, <<"b64-p", <<61, LF>>>>}
                 [] OTHER -> {}

Init == /\ ctx \in Contexts
        /\ txt = <<>>
        /\ m  = FeedAll(RdInit(Origin0, 1), Prefix(ctx), 1, Dev)
        /\ md = FeedAll(RdInit(Origin0, 1), Prefix(ctx), 1, CodeDevs)
        /\ act = "Init"

\* the further contexts are explored one octet less deep (each string is also
\* read with the completing suffixes)
MaxLenOf(c) == IF c \in {"file", "txt"} THEN MaxLen ELSE MaxLen - 1
Push(c, a) == /\ Len(txt) < MaxLenOf(ctx)
           /\ c \in Alphabet(ctx)
           /\ act' = a
           /\ txt' = Append(txt, c)
           /\ m'  = Feed(m, c, Dev)
           /\ md' = Feed(md, c, CodeDevs)
           /\ UNCHANGED ctx

\* one action per character class of the tokenizer
PushSpace     == \E c \in {32, 13} : Push(c, "PushSpace")
PushLineFeed  == Push(10, "PushLineFeed")
PushOpen      == Push(40, "PushOpen")
PushClose     == Push(41, "PushClose")
PushSemicolon == Push(59, "PushSemicolon")
PushQuote     == Push(34, "PushQuote")
PushBackslash == Push(92, "PushBackslash")
PushWordChar  == \E c \in {48, 97, 61, 194, 128} : Push(c, "PushWordChar")
Next == PushSpace \/ PushLineFeed \/ PushOpen \/ PushClose \/ PushSemicolon
        \/ PushQuote \/ PushBackslash \/ PushWordChar
Spec == Init /\ [][Next]_vars

--------------------------------------------------------------------------
(* Invariants of the tokenizer machine *)
ParensNonNeg == m.tk.par >= 0
\* the in-place conversion never writes past the read cursor: one spare
\* octet in front of the buffer, one length/spare octet per token, one octet
\* per symbol, against the octets read
WriteNeverPassesRead == m.tk.wr <= m.tk.pos + 1
EofInsideQuoteIsError ==
  (m.tk.m = "quo" \/ m.tk.e > 0) => LET o == Outcome(m, Dev) IN o = Unmodelled \/ "panic" \in DOMAIN o \/ o.err
\* the ideal reader is total without panics, and its outcome is well formed
IdealNeverPanics == Dev = {} => "panic" \notin DOMAIN Outcome(m, Dev)
NeverPanics == "panic" \notin DOMAIN Outcome(m, Dev)      \* violated with D_charstr_entry_no_token (documentation)
OutcomeWellFormed ==
  LET o == Outcome(m, Dev)
  IN \/ o = Unmodelled \/ o = [panic |-> TRUE]
     \/ /\ DOMAIN o = {"entries", "err"}
        /\ \A i \in 1..Len(o.entries) :
              "owner" \in DOMAIN o.entries[i] => Len(o.entries[i].owner) <= 255
\* position and line only move forward, one octet per step while running
PosMonotone == [][(m.en.st = "run" /\ ~m.tk.err) => (m'.tk.pos = m.tk.pos + 1 /\ m'.tk.line >= m.tk.line)]_vars
\* a stopped reader stays stopped with the same result
ErrSticky == [][m.en.st # "run" => m'.en = m.en]_vars
\* entries already returned are never taken back
OutputPrefix == [][Len(m'.en.out) >= Len(m.en.out) /\ SubSeq(m'.en.out, 1, Len(m.en.out)) = m.en.out]_vars
\* the deviant machine differs from the ideal one only by its named defects:
\* whenever it does not panic and has not read over a line feed, it agrees
DevOnlyAtGuards ==
  LET o == Outcome(m, {})  d == Outcome(md, CodeDevs)
  IN (Dev = {} /\ o # d) => (d = [panic |-> TRUE] \/ (o # Unmodelled /\ o.err))

--------------------------------------------------------------------------
(* S->I case generator *)
Case(c, text, o, d) ==
  IF o = Unmodelled \/ d = Unmodelled THEN TRUE
  ELSE IF o = d
  THEN PrintT("CASE " \o ToJson([in |-> [ctx |-> c, text |-> text, act |-> act], exp |-> o]))
  ELSE PrintT("CASE " \o ToJson([in |-> [ctx |-> c, text |-> text, act |-> act], exp |-> o,
                                  dev |-> [D_charstr_entry_no_token |-> d]]))

Emit ==
  /\ Case(ctx, Prefix(ctx) \o txt, Outcome(m, {}), Outcome(md, CodeDevs))
  /\ txt # <<>> =>
        \A sf \in Suffixes(ctx) :
          Case(sf[1], Prefix(ctx) \o txt \o sf[2],
               Outcome(FeedAll(m, sf[2], 1, {}), {}),
               Outcome(FeedAll(md, sf[2], 1, CodeDevs), CodeDevs))
=============================================================================
