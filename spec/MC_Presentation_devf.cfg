CONSTANTS
  Dev = {"D_caa_empty_tag"}
  MaxStr = 1
SPECIFICATION Spec
INVARIANT ReadEqualsWritten
CHECK_DEADLOCK FALSE
