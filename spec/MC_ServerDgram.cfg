CONSTANTS
  Dev = {}
  Conns = {1}
  MaxReq = 2
  QCaps = {1}
  Kinds = {"single", "stream2", "fail"}
  MaxCredit = 0
  MaxTick = 0
  NP = 1
  Limit = 1
  MaxAErr = 0
  AAMs = {TRUE}
  MaxFail = 1
  MaxAbort = 0
SPECIFICATION SpecDg
INVARIANT DgramEachOnce
INVARIANT DgramSize
CHECK_DEADLOCK FALSE
