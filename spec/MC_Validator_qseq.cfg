CONSTANTS
  Dev = {}
  Mut = {}
  AdvOn = {"ANS"}
  AnchorForms = {"dnskey"}
  Cfgs = {"default"}
  MaxRuns = 2
  EntQKinds = {"positive"}
  Budget = 1
  Shapes = {"secure3"}
  Denials = {"nsec3"}
  QKinds = {"positive", "wildcard", "wilddeep", "wildsub", "nxdomain", "nxdeep", "wcnodata", "ds"}
  AdvActs = {"OtherQuestion", "DropRrsig", "SwapProof"}
SPECIFICATION Spec
VIEW View
INVARIANT Soundness
INVARIANT HonestSecure
INVARIANT InsecureNotBogus
INVARIANT WithinAllowed
INVARIANT NoPanic
INVARIANT Terminates
INVARIANT CacheTransparent
INVARIANT NoAnchorNotSecure
INVARIANT LimitsEnforced
INVARIANT Emit
CHECK_DEADLOCK TRUE
