CONSTANTS
  Dev = {"D_plus_sign", "D_rcode_fromstr", "D_nsap_ptr_mnemonic", "D_tsig_notimpl_mnemonic", "D_new_lowercase_subset"}
SPECIFICATION TSpec
POSTCONDITION Accepted
CHECK_DEADLOCK FALSE
