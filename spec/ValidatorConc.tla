---------------------------- MODULE ValidatorConc ----------------------------
(* X13 - concurrent validations on ONE shared ValidationContext              *)
(* (src/dnssec/validator/context.rs: node_cache, get_node, find_closest_node,*)
(* Node::trust_anchor, create_child_node, Node::expired / Node::ttl;         *)
(* group.rs: validate_with_vc / validate_with_node).                         *)
(*                                                                           *)
(* Validator.tla (C14) runs ONE validation at a time.  Here N validations    *)
(* (processes) run the same walk over a SHARED node cache, one action per    *)
(* await point of the code (cache look-up, fetch issue, fetch completion,    *)
(* cache insert, verdict), interleaved in every order, with an adversary     *)
(* rewriting answers in flight and a clock that advances between and DURING  *)
(* validations.  The code takes no lock and never waits for another          *)
(* validation: concurrent validations that miss the cache all fetch, and     *)
(* the last insert wins.                                                     *)
(*                                                                           *)
(* Properties (for every set of validations, question assignment, schedule,  *)
(* adversary rewrite and clock advance within the constants):                *)
(*  P1 Linearisable verdicts / caches invisible.                             *)
(*     Soundness:  a verdict Secure rests on a genuine, in-time chain: every *)
(*       node used was built from genuine DS / DNSKEY answers whose          *)
(*       signatures were valid when verified, and the answer's own signature *)
(*       verifies under the zone's genuine keys at the time of the verdict.  *)
(*     NoPoison:   a verdict differs from the one a fresh context gives for  *)
(*       honest upstream answers ONLY IF the validation's own answer, or one *)
(*       of the answers that built a node it used (its own fetches or a      *)
(*       cached node), was rewritten or had expired when verified - whatever *)
(*       other validations were served, and however the steps interleave.    *)
(*     BogusCapped: a Bogus node (the only way a bad answer served to one    *)
(*       validation reaches another) is never valid for longer than          *)
(*       max_bogus_validity.                                                 *)
(*  P2 Upstream economy is an optimisation only: the number of fetches of a  *)
(*     validation is bounded by the walk (FetchBound) whatever the schedule, *)
(*     and every started validation terminates (Termination, liveness under  *)
(*     weak fairness of each process and of fetch delivery).                 *)
(*  P3 Expiry: a cache look-up never returns a node after the expiry of any  *)
(*     signature in the chain it was built from, nor after its parent's      *)
(*     validity (NoStaleHit on every hit, NodeExpiryCapped on every node).   *)
(*                                                                           *)
(* Time is counted in half-units (the clock advances by 2); lifetimes are    *)
(* odd, so "expired" never depends on a tie.  In the binding a half-unit is  *)
(* 50 s: Tick = +100 s, a short-lived signature lives 150 s after it was     *)
(* served, max_bogus_validity = 150 s; everything else (TTL 3600,            *)
(* max_node_validity) is beyond the horizon (Inf).                           *)
EXTENDS Naturals, Sequences, FiniteSets, TLC

CONSTANTS Procs,     \* validation slots (tasks sharing the context)
          Qs,        \* zones a question may be about
          Runs,      \* validations per slot, one after the other
          MaxNow,    \* clock horizon (half-units)
          Budget,    \* rewrites the adversary may perform
          AdvKinds,  \* rewrite kinds enabled
          Dev,       \* named deviations of the real code (DESIGN 2.6)
          Mut,       \* seeded mutants of this specification
          Atomic     \* TRUE: a process runs from one fetch completion to its next
                     \* fetch without interleaving (single-threaded runtime: the
                     \* schedules the S->I executor can force)

DevNames == {"D_unproven_ds_bogus_validity", "D_child_validity_from_ds_time"}

Inf == 99
BogusV == 3       \* max_bogus_validity
ShortL == 3       \* remaining life of a "Short" signature when served
NsecTtl == 5      \* TTL of the no-DS proof (NSEC: the SOA minimum, 300 s - just under 3 ticks)
Min(a, b) == IF a <= b THEN a ELSE b
Monus(a, b) == IF a >= b THEN a - b ELSE 0

-----------------------------------------------------------------------------
(* Hierarchy: root > tld > { zone > sub, other, plain(unsigned) }; trust     *)
(* anchor at the root.                                                       *)
Zones == {"root", "tld", "zone", "sub", "other", "plain"}
AZ == "root"
Parent(z) == CASE z = "tld" -> "root"
               [] z \in {"zone", "other", "plain"} -> "tld"
               [] z = "sub" -> "zone"
               [] z = "host" -> "plain"      \* the owner name of an unsigned RRset
               [] OTHER -> "root"
Signed(z) == z # "plain"
Depth(z) == CASE z = "root" -> 0 [] z = "tld" -> 1 [] z = "sub" -> 3 [] z = "host" -> 3 [] OTHER -> 2

\* Messages: the form says what the upstream returned, exp is the absolute
\* time at which its signature expires.
\*  DS:     "ds" (DS RRset for the genuine key, signed by the parent), "nods"
\*          (signed proof that there is no DS), "badsig" / "nodsbad" (DS RRset /
\*          proof whose signature does not verify), "empty" (neither DS nor proof)
\*  DNSKEY: "keys" (genuine key set, self-signed), "advkeys" (the attacker's
\*          key set, self-signed), "badsig", "empty"
\*  ANS:    "data" (signed by the zone), "unsigned" (zone plain), "bad" (rdata
\*          replaced), "forged" (signed with the attacker's key)
Msg(t, z, form, exp) == [t |-> t, z |-> z, form |-> form, exp |-> exp]
HonestFetch(t, z) == IF t = "DNSKEY" THEN Msg(t, z, "keys", Inf)
                     ELSE Msg(t, z, IF Signed(z) THEN "ds" ELSE "nods", Inf)
HonestAns(q) == Msg("ANS", q, IF Signed(q) THEN "data" ELSE "unsigned", Inf)
HonestForm(m) == m.form \in {"keys", "ds", "nods", "data", "unsigned"}
SigOk(m, t) == t < m.exp
HonestVerdict(q) == IF Signed(q) THEN "Secure" ELSE "Insecure"

\* the adversary's rewrites of a message on the wire
Rewritten(m, k, t) ==
  CASE k = "Short"  -> [m EXCEPT !.exp = t + ShortL]    \* honest, little time left
    [] k = "Expire" -> [m EXCEPT !.exp = 0]
    [] k = "BadSig" -> [m EXCEPT !.form = IF m.t = "ANS" THEN "bad"
                                          ELSE IF m.form = "nods" THEN "nodsbad" ELSE "badsig"]
    [] k = "Empty"  -> [m EXCEPT !.form = "empty"]
    [] k = "AdvKey" -> [m EXCEPT !.form = "advkeys"]
    [] k = "Forge"  -> [m EXCEPT !.form = "forged"]
Applies(k, m) ==
  /\ k \in AdvKinds
  /\ CASE k \in {"Short", "Expire", "BadSig"} -> m.form \in {"keys", "ds", "nods", "data"}
       [] k = "Empty"  -> m.t \in {"DS", "DNSKEY"} /\ HonestForm(m)
       [] k = "AdvKey" -> m.form = "keys"
       [] k = "Forge"  -> m.form = "data"
       [] OTHER -> FALSE

-----------------------------------------------------------------------------
(* Nodes (context.rs: struct Node).  c = created_at, v = valid_for.  Ghost   *)
(* fields: cx = the earliest expiry of any signature in the chain the node   *)
(* was built from; gen = the whole chain is genuine; tn = some answer in the *)
(* chain was rewritten or expired when verified.                             *)
NoNode == [z |-> "-", st |-> "none", keys |-> {}, c |-> 0, v |-> 0, cx |-> 0,
           gen |-> FALSE, tn |-> FALSE]
MkNode(z, st, keys, c, v, cx, gen, tn) ==
  [z |-> z, st |-> st, keys |-> keys, c |-> c, v |-> v, cx |-> cx, gen |-> gen, tn |-> tn]
Expired(n, t) == t - n.c > n.v \/ n.v = 0         \* Node::expired (validity 0: at once)
Ttl(n, t) == Monus(n.v, t - n.c)                   \* Node::ttl (saturating)

VARIABLES now,     \* the clock
          cache,   \* node_cache: zone -> Node | NoNode
          p,       \* per process: control state and the held values of the walk
          budget,  \* rewrites left
          cur      \* Atomic: the process that holds the (single) thread, or 0

vars == <<now, cache, p, budget, cur>>

Idle == [pc |-> "idle", run |-> 0, q |-> "-", ans |-> Msg("-", "-", "-", 0), target |-> "-",
         curr |-> "-", names |-> <<>>, node |-> NoNode, pend |-> [t |-> "-", z |-> "-"],
         inbox |-> Msg("-", "-", "-", 0), ttl1 |-> 0, t1 |-> 0, dsm |-> Msg("-", "-", "-", 0),
         build |-> NoNode, verdict |-> "-", nf |-> 0, tchk |-> 0, hitbad |-> FALSE,
         hits |-> 0]

Init == /\ now = 0 /\ cache = [z \in Zones |-> NoNode]
        /\ p = [i \in Procs |-> Idle] /\ budget = Budget /\ cur = 0

Sched(i) == ~Atomic \/ cur \in {0, i}
\* after a step of process i: it keeps the thread until it waits for the upstream
Hold(i, r) == cur' = IF Atomic /\ r.pc \notin {"wire", "done"} THEN i ELSE 0
Set(i, r) == p' = [p EXCEPT ![i] = r] /\ Hold(i, r)

Issue(r, t, z) == [r EXCEPT !.pc = "wire", !.pend = [t |-> t, z |-> z],
                            !.inbox = HonestFetch(t, z), !.nf = @ + 1]

\* cache_lookup at time t; the ghost records a hit on a node that should no
\* longer be served
Hit(z, t) == LET n == cache[z] IN n.st # "none" /\
                ("M_no_expiry_check" \in Mut \/ ~Expired(n, t))
StaleNode(n, t) == IF n.st = "Bogus" THEN t - n.c > BogusV ELSE t >= n.cx
TookHit(r, z) == [r EXCEPT !.node = cache[z], !.hits = @ + 1,
                           !.hitbad = @ \/ StaleNode(cache[z], now)]

-----------------------------------------------------------------------------
(* validate_msg is called with the answer to question q (one RRset).  The    *)
(* answer may have been rewritten on its way (k).                            *)
Start(i, q, k) ==
  /\ Sched(i) /\ (p[i].pc = "idle" \/ (p[i].pc = "done" /\ p[i].run < Runs))
  /\ \/ k = "none" /\ UNCHANGED budget
     \/ k # "none" /\ budget > 0 /\ Applies(k, HonestAns(q)) /\ budget' = budget - 1
  /\ Set(i, [Idle EXCEPT !.pc = "lookup", !.run = p[i].run + 1, !.q = q,
                         !.ans = IF k = "none" THEN HonestAns(q) ELSE Rewritten(HonestAns(q), k, now),
                         \* Group::validate_with_vc: the signer's name, or the
                         \* owner name of an unsigned RRset
                         !.target = IF Signed(q) THEN q ELSE "host"])
  /\ UNCHANGED <<now, cache>>

\* get_node: "Check the cache first"
Lookup(i) ==
  LET r == p[i] IN
  /\ Sched(i) /\ r.pc = "lookup"
  /\ IF r.target \in Zones /\ Hit(r.target, now)
     THEN Set(i, [TookHit(r, r.target) EXCEPT !.pc = "check"])
     ELSE IF r.target = AZ
     THEN Set(i, Issue(r, "DNSKEY", AZ))                     \* Node::trust_anchor
     ELSE Set(i, [r EXCEPT !.pc = "closest", !.curr = Parent(r.target), !.names = <<r.target>>])
  /\ UNCHANGED <<now, cache, budget>>

\* find_closest_node: one iteration of the loop towards the trust anchor (the
\* anchor's name is tested before the cache is looked at)
Closest(i) ==
  LET r == p[i] IN
  /\ Sched(i) /\ r.pc = "closest"
  /\ IF r.curr = AZ
     THEN Set(i, Issue(r, "DNSKEY", AZ))
     ELSE IF Hit(r.curr, now)
     THEN Set(i, [TookHit(r, r.curr) EXCEPT !.pc = "descend"])
     ELSE Set(i, [r EXCEPT !.names = <<r.curr>> \o r.names, !.curr = Parent(r.curr)])
  /\ UNCHANGED <<now, cache, budget>>

\* Node::trust_anchor after the DNSKEY answer arrived
RecvTA(i) ==
  LET r == p[i] m == r.inbox
      ok == m.form = "keys" /\ SigOk(m, now)
      n == IF ok THEN MkNode(AZ, "Secure", {AZ}, now, Min(Inf, m.exp - now), m.exp, TRUE, FALSE)
           ELSE MkNode(AZ, "Bogus", {}, now, BogusV, Inf, FALSE, TRUE)
  IN
  /\ Sched(i) /\ r.pc = "wire" /\ r.pend = [t |-> "DNSKEY", z |-> AZ]
  /\ Set(i, [r EXCEPT !.pc = "insert", !.build = n])
  /\ UNCHANGED <<now, cache, budget>>

\* node_cache.insert; the walk continues with the new node
Insert(i) ==
  LET r == p[i] IN
  /\ Sched(i) /\ r.pc = "insert"
  /\ cache' = [cache EXCEPT ![r.build.z] = r.build]
  /\ Set(i, [r EXCEPT !.node = r.build, !.build = NoNode,
                      !.pc = IF r.names = <<>> THEN "check" ELSE "descend"])
  /\ UNCHANGED <<now, budget>>

\* get_node: the loop from the closest node down to the target
Descend(i) ==
  LET r == p[i] IN
  /\ Sched(i) /\ r.pc = "descend"
  /\ IF r.node.st # "Secure"
     THEN Set(i, [r EXCEPT !.pc = "check"])
     ELSE Set(i, [Issue(r, "DS", Head(r.names)) EXCEPT !.names = Tail(r.names)])
  /\ UNCHANGED <<now, cache, budget>>

\* create_child_node after the DS answer arrived; P is the held parent node
RecvDs(i) ==
  LET r == p[i] m == r.inbox P == r.node z == r.pend.z
      pt == IF "M_parent_ttl_ignored" \in Mut THEN Inf ELSE Ttl(P, now)
      bogus(v) == MkNode(z, "Bogus", {}, now, v, Inf, FALSE, TRUE)
  IN
  /\ Sched(i) /\ r.pc = "wire" /\ r.pend.t = "DS"
  /\ CASE m.form = "ds" /\ SigOk(m, now) ->
            \* "Limit the validity of the child node to the one of the parent",
            \* the DS RRset's TTL and its signature's remaining life
            Set(i, [r EXCEPT !.pc = "kfetch", !.ttl1 = Min(pt, m.exp - now), !.t1 = now, !.dsm = m])
       [] m.form \in {"ds", "badsig"} ->
            Set(i, [r EXCEPT !.pc = "insert", !.build = bogus(Min(pt, BogusV))])
       [] m.form = "nodsbad" ->   \* the proof's signature does not verify: nsec_for_ds
            Set(i, [r EXCEPT !.pc = "insert", !.build = bogus(BogusV)])
       [] m.form = "nods" ->
            Set(i, [r EXCEPT !.pc = "insert", !.build =
                      IF SigOk(m, now)
                      THEN MkNode(z, "Insecure", {}, now, Min(Min(pt, NsecTtl), m.exp - now), Min(P.cx, m.exp),
                                  P.gen, P.tn)
                      ELSE bogus(BogusV)])
       [] OTHER ->    \* neither DS nor a usable NSEC / NSEC3
            Set(i, [r EXCEPT !.pc = "insert", !.build =
                      bogus(IF "D_unproven_ds_bogus_validity" \in Dev THEN Inf ELSE BogusV)])
  /\ UNCHANGED <<now, cache, budget>>

IssueKey(i) ==
  LET r == p[i] IN
  /\ Sched(i) /\ r.pc = "kfetch"
  /\ Set(i, Issue(r, "DNSKEY", r.pend.z))
  /\ UNCHANGED <<now, cache, budget>>

\* create_child_node after the DNSKEY answer arrived
RecvKey(i) ==
  LET r == p[i] m == r.inbox P == r.node z == r.pend.z
      match == m.form = "keys" \/ ("M_skip_ds_match" \in Mut /\ m.form = "advkeys")
      \* what is left of the parent's validity and of the DS signature's life
      \* now (the code uses the durations computed when the DS answer arrived)
      left == IF "D_child_validity_from_ds_time" \in Dev THEN r.ttl1
              ELSE Monus(r.ttl1, now - r.t1)
  IN
  /\ Sched(i) /\ r.pc = "wire" /\ r.pend.t = "DNSKEY" /\ z # AZ
  /\ Set(i, [r EXCEPT !.pc = "insert", !.build =
               IF match /\ SigOk(m, now)
               THEN MkNode(z, "Secure", IF m.form = "keys" THEN {z} ELSE {"adv"}, now,
                           Min(left, m.exp - now), Min(P.cx, Min(r.dsm.exp, m.exp)),
                           P.gen /\ m.form = "keys", P.tn)
               ELSE MkNode(z, "Bogus", {}, now, BogusV, Inf, FALSE, TRUE)])
  /\ UNCHANGED <<now, cache, budget>>

\* validate_with_vc / validate_with_node with the node get_node returned
AnsVerifies(a, n, t) == /\ SigOk(a, t)
                        /\ \/ a.form = "data" /\ a.z \in n.keys
                           \/ a.form = "forged" /\ "adv" \in n.keys
Check(i) ==
  LET r == p[i] n == r.node IN
  /\ Sched(i) /\ r.pc = "check"
  /\ Set(i, [r EXCEPT !.pc = "done", !.tchk = now,
                      !.verdict = IF n.st # "Secure" THEN n.st
                                  ELSE IF n.z = r.q /\ AnsVerifies(r.ans, n, now) THEN "Secure"
                                  ELSE "Bogus"])
  /\ UNCHANGED <<now, cache, budget>>

ProcNext(i) == \/ Lookup(i) \/ Closest(i) \/ RecvTA(i) \/ Insert(i) \/ Descend(i)
               \/ RecvDs(i) \/ IssueKey(i) \/ RecvKey(i) \/ Check(i)

\* the adversary rewrites the answer in flight to process i (once per fetch)
Adv(i, k) ==
  /\ (~Atomic \/ cur = 0) /\ p[i].pc = "wire" /\ budget > 0
  /\ p[i].inbox = HonestFetch(p[i].pend.t, p[i].pend.z) /\ Applies(k, p[i].inbox)
  /\ p' = [p EXCEPT ![i].inbox = Rewritten(@, k, now)]
  /\ budget' = budget - 1
  /\ UNCHANGED <<now, cache, cur>>

Tick == /\ (~Atomic \/ cur = 0) /\ now < MaxNow /\ now' = now + 2
        /\ UNCHANGED <<cache, p, budget, cur>>

StartSome == \E i \in Procs, q \in Qs, k \in {"none"} \cup AdvKinds : Start(i, q, k)
AdvSome == \E i \in Procs, k \in AdvKinds : Adv(i, k)
Quiescent == \A i \in Procs : p[i].pc = "done" /\ p[i].run = Runs
Done == Quiescent /\ UNCHANGED vars

Next == StartSome \/ (\E i \in Procs : ProcNext(i)) \/ AdvSome \/ Tick \/ Done
Spec == Init /\ [][Next]_vars /\ \A i \in Procs : WF_vars(ProcNext(i))

-----------------------------------------------------------------------------
(* Properties *)

AllNodes == {cache[z] : z \in Zones} \cup {p[i].node : i \in Procs} \cup {p[i].build : i \in Procs}
Finished(i) == p[i].pc = "done"

\* P1
NodeSound == \A n \in AllNodes : n.st = "Secure" => n.gen /\ n.keys = {n.z}
Soundness == \A i \in Procs : Finished(i) /\ p[i].verdict = "Secure" =>
                /\ p[i].ans.form = "data" /\ SigOk(p[i].ans, p[i].tchk)
                /\ p[i].node.gen /\ p[i].node.z = p[i].q
\* nothing in the provenance of the verdict was rewritten or stale
Clean(i) == /\ HonestForm(p[i].ans) /\ SigOk(p[i].ans, p[i].tchk)
            /\ ~p[i].node.tn
NoPoison == \A i \in Procs : Finished(i) /\ Clean(i) => p[i].verdict = HonestVerdict(p[i].q)
BogusCapped == \A n \in AllNodes : n.st = "Bogus" => n.v <= BogusV
\* (when nobody interferes at all every verdict is the fresh one)
HonestAgree == budget = Budget =>
                 \A i \in Procs : Finished(i) => p[i].verdict = HonestVerdict(p[i].q)

\* P2
FetchBound == \A i \in Procs : p[i].nf <= 1 + 2 * Depth(p[i].target)
Termination == \A i \in Procs : (p[i].pc \notin {"idle", "done"}) ~> (p[i].pc = "done")

\* P3
Times == {t \in 0..MaxNow : t % 2 = 0}
NodeExpiryCapped ==
  \A n \in AllNodes : n.st \in {"Secure", "Insecure"} =>
     \A t \in Times : t >= n.c /\ ~Expired(n, t) => t < n.cx
NoStaleHit == \A i \in Procs : ~p[i].hitbad
\* a child is never valid for longer than the parent it was built under was
\* (checked where the child is built: pc = "insert" with the parent still held)
ChildWithinParent ==
  \A i \in Procs : p[i].pc = "insert" /\ p[i].build.z # AZ /\ p[i].build.st # "Bogus" =>
     p[i].build.v = 0 \/ p[i].build.c + p[i].build.v <= p[i].node.c + p[i].node.v

\* vacuity guards (expected to be violated: see MC_ValidatorConc_vac_*.cfg)
NeverHitAfterTick == \A i \in Procs : ~(p[i].hits > 0 /\ now > 0)
NeverBogusFromCache == \A i \in Procs : ~(Finished(i) /\ p[i].verdict = "Bogus" /\ p[i].nf = 0)
=============================================================================
