CONSTANTS
  Dev = {}
  Big = TRUE
SPECIFICATION Spec
INVARIANT NewRuleStricter
INVARIANT NewViewConsistent
CHECK_DEADLOCK FALSE
