CONSTANTS
  Mod = 64
  Past = 12
  Future = 4
  Dev = {"D_pass_no_cookie"}
  NowAll = FALSE
SPECIFICATION Spec
INVARIANT P3c_CookieAlways
CHECK_DEADLOCK FALSE
