--------------------------- MODULE MC_SerialPlace ---------------------------
(* Placement of serials / signature times on the time line next to a       *)
(* reference time (Timestamp::to_system_time): laws for all reference      *)
(* times in ERAS eras, all serials and (quantified) all second serials and *)
(* shifts, and the S->I case generator.                                     *)
EXTENDS SerialSites, Sequences, TLC, Json

CONSTANT Sites        \* the site table (SerialSites!SiteTable)

CONSTANT ERAS            \* reference times range over 0 .. ERAS * 2^BITS - 1

VARIABLES ref, ts
pvars == <<ref, ts>>

Init == ref \in 0 .. ERAS * M - 1 /\ ts \in Val

\* time passes / the same situation one era later
Tick  == ref' = ref + 1 /\ ref' < ERAS * M /\ ts' = ts
Later == ref' = ref + M /\ ref' < ERAS * M /\ ts' = ts
Next == Tick \/ Later
Spec == Init /\ [][Next]_pvars
GenSpec == Init /\ [][UNCHANGED pvars]_pvars

INear   == LawPlaceNear(ref, ts)
IDoc    == LawPlaceDoc(ref, ts)
ITie    == LawPlaceTie(ref, ts)
IVsRef  == LawPlaceVsRef(ref, ts)
IOrder  == \A y \in Val : LawPlaceOrder(ref, ts, y)
IShift  == \A n \in {0, 1, H - 1, H, M - 1, M, M + 1} : LawPlaceShift(ref, ts, n)
IImpl   == ImplPlaceMatches(ref, ts)
\* one era later the placed time is one era later (action property on Later)
\* (ties included: the tie of era e + 1 is the tie of era e, one era later)
PLater == [][(ref' = ref + M /\ ts' = ts)
                => /\ Place(ref', ts') = Place(ref, ts) + M
                   /\ PlaceDefined(ref', ts') <=> PlaceDefined(ref, ts)]_pvars

\* vacuity guards: the unconstrained situations do occur in the explored space
\* (evaluated once): a half-distance pair and a placement before the epoch
IVacuity == (ref = 0 /\ ts = 0) =>
               /\ \E r \in 0 .. ERAS * M - 1, t \in Val : ~PlaceDefined(r, t)
               \* constrained ties with the serial numerically below and above the
               \* reference's serial, in every era but the first half of era 0,
               \* where the tie would lie before the epoch
               /\ \A e \in 1 .. ERAS - 1 :
                     /\ \E r \in e * M .. (e + 1) * M - 1, t \in Val :
                           ~PlaceDefined(r, t) /\ t < r % M /\ PlaceConstrained(r, t)
                     /\ \E r \in e * M .. (e + 1) * M - 1, t \in Val :
                           ~PlaceDefined(r, t) /\ t > r % M /\ PlaceConstrained(r, t)
               /\ \E r \in H .. M - 1, t \in Val : ~PlaceDefined(r, t) /\ PlaceConstrained(r, t)
               /\ \A r \in 0 .. H - 1, t \in Val : ~PlaceDefined(r, t) => ~PlaceConstrained(r, t)
               /\ \E r \in 0 .. ERAS * M - 1, t \in Val : PlaceDefined(r, t) /\ Place(r, t) < 0
               /\ \E r \in 0 .. ERAS * M - 1, t \in Val : Place(r, t) \div M > r \div M
               /\ \E r \in 0 .. ERAS * M - 1, t \in Val : Place(r, t) >= 0 /\ Place(r, t) \div M < r \div M

EmitPlace == PrintT("CASE " \o ToJson(
   [in  |-> [kind |-> "place", k |-> BITS, ref |-> ref, ts |-> ts,
             free |-> ~PlaceConstrained(ref, ts), tie |-> ~PlaceDefined(ref, ts)],
    exp |-> IF PlaceConstrained(ref, ts)
            THEN [s \in SitesOf(Sites, "place") |-> [t |-> Place(ref, ts)]]
            ELSE [s \in SitesOf(Sites, "place") |-> "any"]]))
=============================================================================
