-------------------------- MODULE MC_NotifyXfrReq --------------------------
(* The request grid and configuration grid of X05 and the exhaustive check *)
(* of NotifyXfrReq.tla over them.                                          *)
EXTENDS NotifyXfrReq, TLC

CONSTANTS Thorough,     \* TRUE: the full grid
          Focus         \* "all" | "notify" | "xfr" | "huge": a part of the grid (deviation runs)

\* ---- size profiles: [K, R, d1, d2]
ProfSmall == [K |-> 3,  R |-> 29, d1 |-> [rem |-> 1, add |-> 2],   d2 |-> [rem |-> 2, add |-> 1]]
ProfBig   == [K |-> 20, R |-> 29, d1 |-> [rem |-> 6, add |-> 8],   d2 |-> [rem |-> 5, add |-> 9]]
ProfHuge  == [K |-> 20, R |-> 29, d1 |-> [rem |-> 80, add |-> 80], d2 |-> [rem |-> 1, add |-> 1]]

Cfg(nk, av, br, cm, st, pf) ==
  [needKey |-> nk, avail |-> av, broken |-> br, compat |-> cm, store |-> st,
   K |-> pf.K, R |-> pf.R, d1 |-> pf.d1, d2 |-> pf.d2]

\* ---- transports: [udp, hint, rsv]
TV(u, h, r) == [udp |-> u, hint |-> h, rsv |-> r]
UdpPlain == TV(TRUE, 0, 0)
TcpPlain == TV(FALSE, 0, 0)
TvXfr == {UdpPlain, TV(TRUE, 1232, 0), TV(TRUE, 512, 300), TV(TRUE, 512, 450),
          TcpPlain, TV(FALSE, 0, 65335), TV(FALSE, 0, 65465)}
TvXfrQuick == {UdpPlain, TV(TRUE, 512, 300), TcpPlain, TV(FALSE, 0, 65335), TV(FALSE, 0, 65465)}

Req(op, qr, qd, qt, qc, zn, tv, an, ns, key) ==
  [op |-> op, qr |-> qr, qd |-> qd, qt |-> qt, qc |-> qc, zn |-> zn,
   udp |-> tv.udp, hint |-> tv.hint, rsv |-> tv.rsv, an |-> an, ns |-> ns, key |-> key]

Zns == {"known", "deep", "unknown"}
Qcs == {"IN", "CH"}

\* ---- NOTIFY sub-grid
NotifyCfgs == {Cfg(FALSE, TRUE, br, FALSE, "sync", ProfSmall) : br \in BOOLEAN}
NotifyReqs ==
  {Req("NOTIFY", qr, qd, qt, qc, zn, tv, an, "none", key) :
     qr \in BOOLEAN, qd \in {0, 1, 2}, qt \in {"SOA", "A", "AXFR"}, qc \in Qcs, zn \in Zns,
     tv \in {UdpPlain, TcpPlain}, an \in {"none", "soa", "a", "trunc"}, key \in {"none", "good"}}
  \cup {Req("NOTIFY", FALSE, 1, "SOA", "IN", zn, UdpPlain, "none", ns, "none") :
          zn \in Zns, ns \in {"a", "cur"}}

\* ---- pass-through sub-grid: everything that is neither a NOTIFY nor an XFR request
PassCfgs == {Cfg(TRUE, TRUE, FALSE, FALSE, "sync", ProfSmall)}
PassReqs ==
  {q \in {Req(op, qr, qd, qt, qc, zn, tv, an, ns, key) :
     op \in {"QUERY", "UPDATE"}, qr \in BOOLEAN, qd \in {0, 1, 2}, qt \in {"SOA", "A", "AXFR", "IXFR"},
     qc \in {"IN"}, zn \in {"known", "unknown"}, tv \in {UdpPlain, TcpPlain},
     an \in {"none", "trunc"}, ns \in {"none", "old"}, key \in {"none", "good", "bad"}} :
     q.an = "none" \/ q.ns = "none"}

\* ---- XFR sub-grid
XfrCfgsMain ==
  IF Thorough
  THEN {Cfg(nk, av, FALSE, cm, st, pf) :
          nk \in BOOLEAN, av \in BOOLEAN, cm \in BOOLEAN, st \in {"sync", "async"},
          pf \in {ProfSmall, ProfBig}}
  ELSE {Cfg(nk, TRUE, FALSE, cm, st, pf) :
          nk \in BOOLEAN, cm \in BOOLEAN, st \in {"sync", "async"}, pf \in {ProfSmall, ProfBig}}
       \cup {Cfg(nk, FALSE, FALSE, FALSE, "sync", ProfSmall) : nk \in BOOLEAN}
XfrCfgsHuge == {Cfg(FALSE, TRUE, FALSE, FALSE, "sync", ProfHuge)}
QcZn == IF Thorough THEN Qcs \X Zns
        ELSE {<<"IN", "known">>, <<"IN", "deep">>, <<"IN", "unknown">>, <<"CH", "known">>}
XfrReqsFor(c) ==
  {Req("QUERY", FALSE, 1, qt, cz[1], cz[2], tv, an, ns, key) :
     qt \in {"AXFR", "IXFR"}, cz \in QcZn,
     tv \in IF Thorough THEN TvXfr ELSE TvXfrQuick,
     an \in IF Thorough THEN {"none", "soa"} ELSE {"none"},
     ns \in {"none", "a", "old", "mid", "gap", "cur", "new"},
     key \in IF c.needKey \/ Thorough THEN {"none", "good", "bad"} ELSE {"none", "good"}}
XfrReqsHuge ==
  {Req("QUERY", FALSE, 1, "IXFR", "IN", "known", tv, "none", ns, "none") :
     tv \in {UdpPlain, TV(TRUE, 1232, 0), TV(FALSE, 0, 65335)}, ns \in {"old", "mid"}}

GridNotify == {<<c, r>> : c \in NotifyCfgs, r \in NotifyReqs} \cup {<<c, r>> : c \in PassCfgs, r \in PassReqs}
GridXfr(cs) == UNION {{<<c, r>> : r \in XfrReqsFor(c)} : c \in cs}
GridHuge == {<<c, r>> : c \in XfrCfgsHuge, r \in XfrReqsHuge}
Grid == CASE Focus = "notify" -> GridNotify
          [] Focus = "xfr" -> GridXfr({c \in XfrCfgsMain : c.K = ProfSmall.K /\ c.avail /\ ~c.needKey})
          [] Focus = "huge" -> GridHuge
          [] OTHER -> GridNotify \cup GridXfr(XfrCfgsMain) \cup GridHuge

\* Sanity of the grid (checked once, in the idle state of the main run): the
\* limit is never negative, the late-error band of the channel is avoided,
\* and no case depends on whether a message of exactly `limit` octets is allowed
Stream(c, r) == IF r.qt = "IXFR" /\ DiffsFrom(c, SerialTag(r)) # <<>> THEN IxfrRecs(DiffsFrom(c, SerialTag(r))) ELSE AxfrRecs(c)
GridSane ==
  phase = "idle" =>
    \A x \in Grid :
      LET c == x[1]
          r == x[2]
          n == Len(IxfrRecs(DiffsFrom(c, SerialTag(r))))
          recs == Stream(c, r)
          szs == [j \in 1 .. Len(recs) |-> RecSize(c, recs[j])]
      IN /\ Limit(r) >= 0
         /\ (n <= 50 \/ n >= ChanCap + 50)
         /\ XfrRelevant(r) =>
               \A rr \in {0, 1} : \A mf \in BOOLEAN : ~PackAll(szs, Params(Fixed, Limit(r), rr, mf)).amb

DoRecv == /\ phase = "idle"
          /\ \E x \in Grid : Recv(x[1], x[2])
MCNext == DoRecv \/ NotifyPre \/ NotifyReply \/ XfrPre \/ XfrAcl \/ XfrRespond \/ Next \/ Done
MCSpec == Init /\ [][MCNext]_vars

\* vacuity witnesses (each expected to be violated)
NeverNotifyOk == ~(AtDone /\ IsNotifyReq(req) /\ Len(rs) = 1 /\ rs[1].k = "msg" /\ rs[1].rc = 0)
NeverMultiMsg == ~(AtDone /\ Len(Msgs(rs)) >= 3)
NeverUdpSoaOnly == ~(AtDone /\ Granted(cfg, req) /\ req.udp /\ rs = <<SoaOnly(req)>> /\ SerialTag(req) \in {"old", "mid", "gap"})
NeverRefused == ~(AtDone /\ rs = <<ErrMsg(req, 5)>>)
=============================================================================
