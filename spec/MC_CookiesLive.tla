-------------------------- MODULE MC_CookiesLive --------------------------
(* Liveness form of P5 (RFC 7873 5.3): a client on the deny list that      *)
(* speaks UDP, follows the protocol (keeps the COOKIE option of the last   *)
(* response that had one and sends it with the next query) and queries at  *)
(* least once per validity period is served again and again -- whatever    *)
(* finitely many secret rotations, restarts and clock steps happen -- and, *)
(* for the specified middleware, from some point on is served by EVERY     *)
(* query.  The as-built code (D_pass_no_cookie) satisfies only the first:  *)
(* its client never gets a renewed cookie with an answer and is bounced    *)
(* with BADCOOKIE once per validity period for ever.                       *)
EXTENDS Cookies, TLC

CONSTANTS Budget      \* number of disturbances (rotation, clock step)

VARIABLES held,       \* the COOKIE option the client holds
          served,     \* the last query was answered with data
          since,      \* clock ticks since the client's last query
          budget
lvars == <<cfg, now, phase, req, out, held, served, since, budget>>

ClientIp == "a"
Bare == Ck(8, "c1", 0, 0, TZero, Junk)
ClientReq == [udp |-> TRUE, ip |-> ClientIp, qd |-> 1, opt |-> "ok",
              cks |-> <<IF held.k = "none" THEN Bare ELSE held>>]

LInit == /\ cfg = [secret |-> "s1", deny |-> {ClientIp}, enabled |-> TRUE]
         /\ now \in 0 .. Mod - 1 /\ phase = "idle" /\ req = NoReq /\ out = NoOut
         /\ held = NoCk /\ served = FALSE /\ since = 0 /\ budget = Budget

ClientSend == Call(ClientReq) /\ UNCHANGED <<held, served, since, budget>>
ClientRecv == /\ phase = "called"
              /\ held' = IF out.ck.k = "ck" THEN out.ck ELSE held
              /\ served' = (out.act = "pass")
              /\ since' = 0
              /\ Done /\ UNCHANGED budget
\* time passes, but the client queries at least once per validity period
Tick == /\ since < Past /\ ClockSet((now + 1) % Mod) /\ since' = since + 1
        /\ UNCHANGED <<held, served, budget>>
\* restart with a rotated secret (the deny list is configured again)
Rotate == /\ phase = "idle" /\ budget > 0 /\ budget' = budget - 1
          /\ cfg' = [cfg EXCEPT !.secret = IF @ = "s1" THEN "s2" ELSE "s1"]
          /\ UNCHANGED <<now, phase, req, out, held, served, since>>
\* the clock is stepped (NTP, another server of the anycast set)
Step == /\ budget > 0 /\ budget' = budget - 1
        /\ \E t \in 0 .. Mod - 1 : ClockSet(t)
        /\ UNCHANGED <<held, served, since>>

LNext == ClientSend \/ ClientRecv \/ Tick \/ Rotate \/ Step
LSpec == LInit /\ [][LNext]_lvars /\ WF_lvars(ClientSend) /\ WF_lvars(ClientRecv)

ServedAgainAndAgain == []<>served
EventuallyAlwaysServed == <>[](phase = "idle" => served)
\* safety: whatever the client holds was issued to it and is never "other"
HeldIsOurs == held.k = "ck" => held.cc = "c1" /\ held.len = 24
=============================================================================
