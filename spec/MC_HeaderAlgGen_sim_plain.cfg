CONSTANTS
  Dev = {}
  MaxOps = 0
  Deep = TRUE
  Carrier = "plain"
  MaxHist = 30
  GKind = "beh"
  GWords <- QuickWords
SPECIFICATION BehSpec
INVARIANT BehEmit
CHECK_DEADLOCK FALSE
