CONSTANTS
  Dev = {}
  Mut = {}
  Names = {"a.example"}
  Types = {"A"}
  Cases = {0}
  AdVals = {FALSE, TRUE}
  CdVals = {FALSE}
  DoVals = {FALSE, TRUE}
  RdVals = {TRUE}
  WithBypass = FALSE
  Classes <- FlagClasses
  TtlVecs <- TV_One
  AdBits = {TRUE}
  Ticks <- TK_Flags
  Configs <- CfgsDefault
  MaxSteps = 3
  RouteMode <- RouteModeAll
SPECIFICATION Spec
VIEW View
INVARIANT TypeOK
PROPERTY P_ServedWasSaid
PROPERTY P_AgedExactly
PROPERTY P_NeverStale
PROPERTY P_BoundsRespected
PROPERTY P_NoDnssecLeak
PROPERTY P_NoPanic
PROPERTY P_ViewIsWire
CHECK_DEADLOCK FALSE
