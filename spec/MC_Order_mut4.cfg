CONSTANTS
  Dev = {}
  Mut = {"M_rec_no_type_step"}
  Tier = 1
  Big = 300
SPECIFICATION SpecReps
INVARIANT LawRecRep
CHECK_DEADLOCK FALSE
