CONSTANTS
  Dev = {}
  MaxOps = 0
  Deep = FALSE
  Carrier = "plain"
  MaxHist = 0
  GKind = "dig"
  GWords <- QuickWords
SPECIFICATION FunSpec
INVARIANT FunEmit
CHECK_DEADLOCK FALSE
