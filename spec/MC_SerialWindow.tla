--------------------------- MODULE MC_SerialWindow ---------------------------
(* Validity windows over serials / times (property C17, law 4 applied to   *)
(* the decision "was this timestamp made inside [lo, hi)"): a verifier      *)
(* holds a half-open window, a timestamp x is presented to it.  Every       *)
(* triple is an initial state, so windows that straddle the wrap-around     *)
(* (lo > hi as integers) are as common as those that do not.  Actions:      *)
(* `Shift` -- time passes for everybody (the same amount is added to the    *)
(* window and to the timestamp); `Slide` -- the verifier's clock advances   *)
(* one second while the presented timestamp stays; `Renew` -- a timestamp   *)
(* made one second later is presented.  Site in the library:                *)
(* new::edns::Cookie::verify(addr, secret, validity: Range<Serial>), and    *)
(* Range<Serial>::contains / Range<Timestamp>::contains as such.            *)
EXTENDS SerialSites, Sequences, FiniteSets, TLC, Json

CONSTANT Sites        \* the site table (SerialSites!SiteTable)

VARIABLES lo, hi, x
wvars == <<lo, hi, x>>

Init == lo \in Val /\ hi \in Val /\ x \in Val

Shift(n) == lo' = Add(lo, n) /\ hi' = Add(hi, n) /\ x' = Add(x, n)
Slide    == lo' = Add(lo, 1) /\ hi' = Add(hi, 1) /\ x' = x
Renew    == x' = Add(x, 1) /\ lo' = lo /\ hi' = hi

ShiftAny == \E n \in Addend : Shift(n)
Next == ShiftAny \/ Slide \/ Renew
Spec == Init /\ [][Next]_wvars
GenSpec == Init /\ [][UNCHANGED wvars]_wvars

----------------------------------------------------------------------------
ITypeOK == WindowDecision(lo, hi, x) \in {"accept", "reject", "any"}
\* membership means "fewer than width steps after lo", wherever the window lies
IMeaning == LawWindowMeaning(lo, hi, x)
\* exactly `width` many values are inside a well-formed window
ICount == (x = 0 /\ WellFormed(lo, hi)) =>
             Cardinality({y \in Val : InWindow(lo, hi, y)}) = WindowWidth(lo, hi)
\* the library's formulation (Range::contains over new::base::Serial)
IImpl == ImplInWindow(lo, hi, x) = InWindow(lo, hi, x)
\* the same decision with the operands shifted (quantified form of PShift)
IShift == \A n \in {0, 1, H - 1, (M - lo) % M, (M - hi) % M} \cap Addend :
             LawWindowShift(lo, hi, x, n)

\* law 4: adding the same amount to all three leaves the decision unchanged
PShift == [][((lo' - lo) % M = (hi' - hi) % M /\ (lo' - lo) % M = (x' - x) % M
               /\ (lo' - lo) % M \in Addend)
                => InWindow(lo', hi', x') = InWindow(lo, hi, x)]_wvars
\* a timestamp inside a well-formed window stays inside while the window
\* slides, until it drops out at the low end -- across the wrap as anywhere
PSlide == [][(lo' = Add(lo, 1) /\ hi' = Add(hi, 1) /\ x' = x
                /\ WellFormed(lo, hi) /\ InWindow(lo, hi, x))
                => (InWindow(lo', hi', x') <=> x # lo)]_wvars
\* the next timestamp is inside too, unless it reaches the (excluded) end
PRenew == [][(x' = Add(x, 1) /\ lo' = lo /\ hi' = hi
                /\ WellFormed(lo, hi) /\ InWindow(lo, hi, x))
                => (InWindow(lo', hi', x') <=> x' # hi)]_wvars

\* vacuity (evaluated in one state): straddling well-formed windows with
\* members on both sides of the wrap exist, as do ill-formed windows
IVacuity == (lo = 0 /\ hi = 0 /\ x = 0) =>
   /\ \E l \in Val, h \in Val : l > h /\ WellFormed(l, h)
                                 /\ InWindow(l, h, M - 1) /\ InWindow(l, h, 0)
   /\ \E l \in Val, h \in Val : ~WellFormed(l, h)
   /\ \E l \in Val, h \in Val, y \in Val : WellFormed(l, h) /\ Cmp(l, y) = "UNDEF"

----------------------------------------------------------------------------
(* S->I: every triple with the decision a verifier has to take.  `straddle` *)
(* (informative, for the vacuity guard of the check): the window contains   *)
(* the wrap-around point.                                                    *)
EmitWindow == PrintT("CASE " \o ToJson(
   [in  |-> [kind |-> "window", k |-> BITS, lo |-> lo, hi |-> hi, x |-> x,
             straddle |-> (WellFormed(lo, hi) /\ lo > hi)],
    exp |-> LET d == WindowDecision(lo, hi, x) IN
            [s \in SitesOf(Sites, "window") |-> d]]))
=============================================================================
