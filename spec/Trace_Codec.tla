----------------------------- MODULE Trace_Codec -----------------------------
(* C19, I->S: build scripts executed on the established MessageBuilder and   *)
(* on new::base::build::MessageBuilder.  `built` events carry the octets     *)
(* produced and the items pushed (names lower-cased): TLC re-parses the      *)
(* octets with Wire.tla (the referee) and requires that the referee, the     *)
(* established reader and the new reader give the same verdict "this is      *)
(* exactly what was pushed".  A wrong output is accepted only as the open    *)
(* deviation of the new compressor.  `bigbuilt` events are outputs beyond    *)
(* TLC's size cap (they cross the 16384-octet pointer limit): the two        *)
(* readers' verdicts are taken as recorded.  `plain` events are messages      *)
(* with a name of 250 .. 259 octets (random label partition and octets) or   *)
(* character strings of up to 255 in a random place - question, owner, the   *)
(* RDATA of every type that carries a name, completed by a pointer or not -  *)
(* read by every route of both codecs, with and without decompression: TLC   *)
(* computes the referee's view (Wire!CodecView, Wire!PlainView) and requires *)
(* both codecs to have reported exactly that wherever the referee decides.   *)
EXTENDS Naturals, Sequences, TLC, Json, IOUtils

Rec == ndJsonDeserialize(IOEnv.TRACE)
AllDevs == {"D_new_compressor_revname_rest", "D_new_compressor_ptr_overflow",
            "D_new_builder_failed_push_compressor", "D_new_builder_truncate_counts",
            "D_new_compressor_partial_match_children", "D_new_ptr_rule"}
OpenDevs == {d \in AllDevs : d \in DOMAIN IOEnv}
\* deviations under which the new builder writes a name that reads back
\* wrong; the second one only for scripts whose names can trigger it (two
\* names ending in a.S and a.T with T a proper suffix of S: `prone`)
WrongNameDevsFor(e) ==
  ({"D_new_compressor_revname_rest"} \cup
   (IF e.prone THEN {"D_new_compressor_partial_match_children"} ELSE {})) \cap OpenDevs

W == INSTANCE Wire WITH Dev <- {}
BL == INSTANCE BuildLimit

VARIABLES l, used
tvars == <<l, used>>
IsEv(e) == l <= Len(Rec) /\ Rec[l].ev = e /\ l' = l + 1

LowerNameT(n) == [i \in 1..Len(n) |-> W!LowerSeq(n[i])]
LowerItem(it) ==
  IF it[1] = 0 THEN <<0, <<LowerNameT(it[2][1]), it[2][2], it[2][3]>>>>
  ELSE <<it[1], <<LowerNameT(it[2][1]), it[2][2], it[2][3], it[2][4], it[2][5],
                  [j \in 1..Len(it[2][6]) |-> LowerNameT(it[2][6][j])], it[2][7]>>>>

SpecReads(m, items) ==
  LET v == W!NewView(FALSE, m) IN
  /\ v.end = "done"
  /\ [i \in 1..Len(v.items) |-> LowerItem(v.items[i])] = items

TInit == l = 1 /\ used = {}

T_Built ==
  /\ IsEv("built")
  /\ LET ok == SpecReads(Rec[l].m, Rec[l].items) IN
     /\ Rec[l].old_reads = ok
     /\ Rec[l].new_reads = ok
     /\ (IF ok \/ (Rec[l].side = "new" /\ WrongNameDevsFor(Rec[l]) # {}) THEN TRUE ELSE FALSE)
     /\ used' = IF ok THEN used ELSE used \cup WrongNameDevsFor(Rec[l])

T_Big ==
  /\ IsEv("bigbuilt")
  /\ Rec[l].old_reads = Rec[l].new_reads
  /\ \/ Rec[l].built = "ok" /\ Rec[l].old_reads /\ used' = used
     \/ /\ Rec[l].built = "ok" /\ ~Rec[l].old_reads /\ Rec[l].side = "new"
        /\ WrongNameDevsFor(Rec[l]) # {}
        /\ used' = used \cup WrongNameDevsFor(Rec[l])
     \/ /\ Rec[l].built = "panic" /\ Rec[l].side = "new"
        /\ "D_new_compressor_ptr_overflow" \in OpenDevs
        /\ used' = used \cup {"D_new_compressor_ptr_overflow"}

\* "fill until full, then finish" with a small size limit, on either builder.
\* After every push: Ok adds exactly one to the count of the item's section,
\* an error leaves all four counts alone.  The finished message stays within
\* the limit, its header carries the last counts, and the referee and both
\* readers find exactly the accepted items in it (a failed push leaves no
\* trace).
StepsOk(steps) ==
  \A i \in 1..Len(steps) :
    LET prev == IF i = 1 THEN <<0, 0, 0, 0>> ELSE steps[i - 1].counts
        sec == steps[i].sec + 1
    IN steps[i].counts = IF steps[i].ok THEN [prev EXCEPT ![sec] = prev[sec] + 1] ELSE prev

FillOk(e) ==
  /\ StepsOk(e.steps)
  /\ Len(e.m) <= IF e.limit < 12 THEN 12 ELSE e.limit
  /\ <<W!QD(e.m), W!AN(e.m), W!NS(e.m), W!AR(e.m)>> = e.steps[Len(e.steps)].counts
  /\ e.qok => (SpecReads(e.m, e.items) /\ e.old_reads /\ e.new_reads)

T_Fill ==
  /\ IsEv("fill")
  /\ (IF FillOk(Rec[l]) THEN TRUE ELSE FALSE)
  /\ used' = used

T_FillPanic ==
  /\ IsEv("fillpanic")
  /\ Rec[l].side = "new"
  /\ "D_new_builder_failed_push_compressor" \in OpenDevs
  /\ used' = used \cup {"D_new_builder_failed_push_compressor"}

\* push a segment, discard everything (new: truncate(); established:
\* builder(), which rewinds all sections), push a second segment, finish.
\* Discarding zeroes the counts; the finished message holds exactly the
\* second segment (names of the first one must be forgotten) and, on the
\* new builder, has TC set.
Zero4 == <<0, 0, 0, 0>>
TruncStepsOk(e) ==
  \A i \in 1..Len(e.steps) :
    LET prev == IF i = 1 THEN Zero4 ELSE e.steps[i - 1].counts
        st == e.steps[i]
    IN CASE st.op = "push" ->
              st.counts = IF st.ok THEN [prev EXCEPT ![st.sec + 1] = prev[st.sec + 1] + 1] ELSE prev
         [] st.op = "trunc" ->
              \/ st.counts = Zero4
              \/ (e.side = "new" /\ "D_new_builder_truncate_counts" \in OpenDevs /\ st.counts = prev)
         [] st.op = "reset" -> st.counts = Zero4
         [] OTHER -> FALSE
TruncOk(e) ==
  /\ TruncStepsOk(e)
  /\ <<W!QD(e.m), W!AN(e.m), W!NS(e.m), W!AR(e.m)>> = e.steps[Len(e.steps)].counts
  /\ SpecReads(e.m, e.items) /\ e.old_reads /\ e.new_reads
  /\ e.side = "new" => W!TC(e.m)
T_Trunc ==
  /\ IsEv("trunc")
  /\ (IF TruncOk(Rec[l]) THEN TRUE ELSE FALSE)
  /\ used' = IF \E i \in 1..Len(Rec[l].steps) : Rec[l].steps[i].op = "trunc" /\ Rec[l].steps[i].counts # Zero4
             THEN used \cup {"D_new_builder_truncate_counts"} ELSE used

\* One script under one abstract size limit through every limiting entry
\* point of both builders (established: set_push_limit before / between the
\* pushes / replacing a laxer one / across builder(), target capacity; new:
\* buffer size, limit_to before / between the pushes / narrowing a laxer
\* one / after a stricter one / across truncate()).  Every run obeys
\* BuildLimit (limits count the whole message, header included); the
\* finished octets have the last length and counts; the referee and both
\* readers find exactly the admitted items in them; runs whose pushes need
\* the same lengths under the same effective limits admit the same prefix of
\* pushes, and runs that admit the same pushes with the same lengths emit
\* the same octets, whichever builder and entry point.
AcceptedOf(items, oks) ==
  LET idx == SelectSeq([i \in 1..Len(items) |-> i], LAMBDA i : oks[i]) IN [j \in 1..Len(idx) |-> items[idx[j]]]
RunOk(e, r) ==
  LET f == BL!Fold(BL!Init(r.cap), r.steps, 1, IF r.side = "old" THEN "soft" ELSE "hard", e.items, e.fixed, 1)
  IN /\ f.st.ok
     /\ f.pushes = Len(e.items)
     /\ r.oks = BL!PushOks(r.steps)
     /\ Len(r.m) = f.st.len
     /\ <<W!QD(r.m), W!AN(r.m), W!NS(r.m), W!AR(r.m)>> = f.st.counts
     /\ \E i \in 1..Len(e.outs) : e.outs[i].m = r.m /\ e.outs[i].oks = r.oks
RunSt(e, r) == BL!Fold(BL!Init(r.cap), r.steps, 1, IF r.side = "old" THEN "soft" ELSE "hard", e.items, e.fixed, 1).st
LimitOk(e) ==
  /\ \A i \in 1..Len(e.runs) : RunOk(e, e.runs[i])
  /\ \A i \in 1..Len(e.outs) :
        /\ SpecReads(e.outs[i].m, AcceptedOf(e.items, e.outs[i].oks))
        /\ e.outs[i].old_reads /\ e.outs[i].new_reads
  /\ \A i, j \in 1..Len(e.runs) :
        LET a == e.runs[i]
            b == e.runs[j]
            k == BL!FirstFail(a.oks)
        IN /\ (/\ BL!Upto(BL!Needs(a.steps), k) = BL!Upto(BL!Needs(b.steps), k)
               /\ BL!Upto(RunSt(e, a).bounds, k) = BL!Upto(RunSt(e, b).bounds, k)
               /\ ~RunSt(e, a).amb /\ ~RunSt(e, b).amb)
              => BL!Upto(a.oks, k) = BL!Upto(b.oks, k)
           /\ (a.oks = b.oks /\ BL!Lens(a.steps) = BL!Lens(b.steps)) => a.m = b.m
T_Limit ==
  /\ IsEv("limit")
  /\ (IF LimitOk(Rec[l]) THEN TRUE ELSE FALSE)
  /\ used' = used

\* a recorded verdict against the referee's: equal, unless the referee
\* leaves the RDATA open
ItemAgrees(s, o) == s.und \/ o = s
MsgAgrees(s, o) ==
  IF s.end = "und" THEN Len(o.items) >= Len(s.items) /\ SubSeq(o.items, 1, Len(s.items)) = s.items
  ELSE o = s
ViewAgrees(v, o) ==
  /\ o.names = v.names /\ o.qs = v.qs /\ o.edns = v.edns
  /\ Len(o.rs) = Len(v.rs)
  /\ \A i \in 1..Len(v.rs) : ItemAgrees(v.rs[i], o.rs[i])
  /\ MsgAgrees(v.msg, o.msg)
PlainAgrees(pv, o) ==
  /\ Len(o) = Len(pv)
  /\ \A i \in 1..Len(pv) :
        /\ o[i].n = pv[i].n /\ o[i].sk = pv[i].sk /\ o[i].q = pv[i].q
        /\ ItemAgrees(pv[i].rn, o[i].rn) /\ ItemAgrees(pv[i].ro, o[i].ro)
PlainOk(e) ==
  LET v == W!CodecView(FALSE, e.m, e.starts)
      pv == W!PlainView(e.m, e.probes)
  IN /\ ViewAgrees(v, e.old)
     /\ PlainAgrees(pv, e.plain)
     /\ \/ ViewAgrees(v, e.new)
        \/ "D_new_ptr_rule" \in OpenDevs /\ ViewAgrees(W!CodecView(TRUE, e.m, e.starts), e.new)
T_Plain ==
  /\ IsEv("plain")
  /\ (IF PlainOk(Rec[l]) THEN TRUE ELSE FALSE)
  /\ used' = IF ViewAgrees(W!CodecView(FALSE, Rec[l].m, Rec[l].starts), Rec[l].new) THEN used
             ELSE used \cup {"D_new_ptr_rule"}

TNext == T_Built \/ T_Big \/ T_Fill \/ T_FillPanic \/ T_Trunc \/ T_Plain \/ T_Limit
TSpec == TInit /\ [][TNext]_tvars

Accepted ==
  LET d == TLCGet("stats").diameter
  IN IF d = Len(Rec) + 1 THEN TRUE
     ELSE /\ PrintT("TRACE_REJECTED " \o ToJson([matched |-> d - 1, total |-> Len(Rec),
                      event |-> IF d <= Len(Rec) THEN Rec[d] ELSE [ev |-> "none"]]))
          /\ FALSE
Witnessed == l = Len(Rec) + 1 => PrintT("WITNESSED " \o ToJson([devs |-> used]))
=============================================================================
