------------------------------ MODULE RdataDom ------------------------------
(* Boundary value domains per field kind of Rdata.tla, base values per     *)
(* type, and the one-record message used by the executors.  Shared by the  *)
(* C05 (MC_Rdata) and C04 (MC_Order) model-checking modules.               *)
EXTENDS Rdata

CONSTANT Big      \* length of "large" octet strings

UnknownCode == [TYPE62 |-> 62, TYPE99 |-> 99, TYPE65534 |-> 65534]
Types == KnownTypes \cup DOMAIN UnknownCode
CodeOf(x) == IF x \in KnownTypes THEN TypeCode[x] ELSE UnknownCode[x]

--------------------------------------------------------------------------
(* boundary domains per field kind *)

Rep(n, b) == [i \in 1..n |-> b]
Ramp(n, k) == [i \in 1..n |-> (i * 7 + k) % 256]

nRoot  == <<>>
nA     == << <<97>> >>
nAb    == << <<65>>, <<98>> >>                              \* A.b
nMixed == << <<87, 119, 87>>, <<69, 45, 88>>, <<90, 64, 91, 0, 255>> >>
nMax   == << Rep(63, 77), Rep(63, 109), Rep(63, 90), Rep(61, 65) >>   \* 255 octets on the wire
Names5 == {nRoot, nA, nAb, nMixed, nMax}

OptVal(o, fields) == [k |-> OptCode[o], v |-> ComposeFields(OptLayout[o], fields)]
OptSeqs == {
  <<>>,
  << OptVal("NSID", << <<72, 105>> >>) >>,
  << OptVal("COOKIE", << Ramp(8, 1), <<>> >>), OptVal("PADDING", << Rep(3, 0) >>) >>,
  << OptVal("COOKIE", << Ramp(8, 2), Ramp(32, 9) >>) >>,
  << OptVal("ECS", << <<0, 1>>, <<24>>, <<0>>, <<192, 0, 2>> >>),
     OptVal("KEEPALIVE", << <<0, 100>> >>),
     OptVal("EDE", << <<0, 18>>, <<72, 105>> >>) >>,
  << OptVal("KEEPALIVE", << <<>> >>), [k |-> 65001, v |-> <<1, 2, 3>>], OptVal("NSID", << <<>> >>) >>,
  << OptVal("PADDING", << Rep(Big, 0) >>) >>,
  \* text / opaque values with octets >= 0x80, invalid UTF-8, NUL, empty
  << OptVal("EDE", << <<0, 7>>, <<99, 97, 102, 195>> >>) >>,               \* "caf" 0xC3
  << OptVal("EDE", << <<0, 7>>, <<255>> >>), OptVal("EDE", << <<0, 1>>, <<>> >>),
     OptVal("NSID", << <<0, 255, 195>> >>) >>,
  << OptVal("EDE", << <<0, 3>>, <<115, 233, 101, 0>> >>), [k |-> 65001, v |-> <<195, 0, 255>>] >>
}

SvcSeqs == {
  <<>>,
  << [k |-> 3, v |-> <<1, 187>>] >>,
  << [k |-> 1, v |-> <<2, 104, 50>>], [k |-> 3, v |-> <<0, 80>>] >>,
  << [k |-> 1, v |-> <<2, 104, 50, 2, 72, 51>>], [k |-> 2, v |-> <<>>],
     [k |-> 4, v |-> <<192, 0, 2, 1, 192, 0, 2, 2>>], [k |-> 65280, v |-> <<65, 0, 255>>] >>,
  << [k |-> 65280, v |-> <<195>>], [k |-> 65281, v |-> <<>>], [k |-> 65282, v |-> <<0, 255, 128>>] >>
}

Gws == {
  [gt |-> 0, alg |-> 0, gw |-> <<>>],
  [gt |-> 0, alg |-> 2, gw |-> <<>>],
  [gt |-> 1, alg |-> 2, gw |-> <<192, 0, 2, 1>>],
  [gt |-> 2, alg |-> 1, gw |-> Ramp(16, 3)],
  [gt |-> 3, alg |-> 2, gw |-> nAb],
  [gt |-> 3, alg |-> 2, gw |-> nRoot]
}

Dom(f) ==
  LET k == f.kind IN
  {v \in
    CASE IsFixed(k) ->
           LET w == Width[k]
           IN {Rep(w, 0), Rep(w, 255), [i \in 1..w |-> IF i = w THEN 1 ELSE 0],
               [i \in 1..w |-> IF i = 1 THEN 128 ELSE 0]}
      [] k = "Name"       -> Names5
      [] k \in {"CharStr", "LP8"} -> {<<>>, <<0>>, <<65, 122>>, Rep(255, 81), <<195>>, <<255, 0, 128>>}
      [] k = "CaaTag"     -> {<<97>>, <<73, 115, 115, 85, 101, 48>>, Rep(255, 122)}
      [] k = "LP16"       -> {<<>>, <<1>>, Ramp(Big, 0), <<195>>, <<255, 0, 128>>}
      [] k = "Rest"       -> {<<>>, <<0>>, <<65, 0, 255>>, Ramp(f.min, 5), Ramp(Big, 1), <<195>>,
                              [i \in 1..(f.min + 2) |-> IF i % 2 = 0 THEN 195 ELSE 255]}
      [] k = "CharStrSeq" -> {<<>>, << <<>> >>, << <<72, 105>> >>,
                              << <<72, 105>>, <<>>, Rep(255, 81) >>,
                              << <<195>>, <<255, 0, 128>> >>}
      [] k = "TypeBitmap" -> {{}, {1}, {1, 47, 65534}, {0, 255, 256, 1234}}
      [] k = "SvcParams"  -> SvcSeqs
      [] k = "OptSeq"     -> OptSeqs
      [] k = "IpsecGw"    -> Gws
   : ValidField(f, v)}

\* base value: distinctive per field position, mixed case, no boundary
BaseField(f, i) ==
  LET k == f.kind IN
  CASE IsFixed(k)        -> [j \in 1..Width[k] |-> 16 * i + j]
    [] k = "Name"        -> << <<69, 120, 48 + i>>, <<67>> >>          \* Ex<i>.C
    [] k \in {"CharStr", "LP8", "LP16"} -> <<72, 105, 48 + i>>
    [] k = "CaaTag"      -> <<84, 97, 103>>                            \* Tag
    [] k = "Rest"        -> IF f.min > 0 THEN Ramp(f.min + 1, i) ELSE <<82, 0, 255, i>>
    [] k = "CharStrSeq"  -> << <<84, 120>>, <<116>> >>
    [] k = "TypeBitmap"  -> {2, 46, 257}
    [] k = "SvcParams"   -> << [k |-> 3, v |-> <<0, 53>>] >>
    [] k = "OptSeq"      -> << OptVal("NSID", << <<78>> >>) >>
    [] k = "IpsecGw"     -> [gt |-> 3, alg |-> 2, gw |-> << <<71, 119>> >>]
Base(x) == [i \in 1..Len(LayoutOf(x)) |-> BaseField(LayoutOf(x)[i], i)]

(* the one-record message the executor parses *)

Owner == << <<120>>, <<89, 122>> >>                                    \* x.Yz at offset 12
MsgOf(code, rd) ==
  <<0, 0, 128, 0, 0, 0, 0, 1, 0, 0, 0, 0>> \o ToWireAbs(Owner) \o EncU16(code)
    \o <<0, 1>> \o <<0, 0, 14, 16>> \o EncU16(Len(rd)) \o rd
RdPos == 12 + WireLenAbs(Owner) + 10 + 1                               \* 1-based

=============================================================================
