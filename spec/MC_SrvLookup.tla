---------------------------- MODULE MC_SrvLookup ----------------------------
(* Model-checking wrapper and S->I case generator for SrvLookup: the        *)
(* machine over finite sets of worlds.                                      *)
EXTENDS SrvLookup, Json

CONSTANTS Fam,        \* "order": record sets / weights;  "resolve": additional section and host lookups
          MaxRecs, Prios, Weights

VARIABLES W, st
vars == <<W, st>>

Outs == {"Data", "NoData", "Err"}
AllData == [a |-> "Data", aaaa |-> "Data"]

RECURSIVE SeqsUpTo(_, _)
SeqsUpTo(S, n) == IF n = 0 THEN {<<>>}
                  ELSE LET P == SeqsUpTo(S, n - 1)
                       IN P \cup {Append(p, x) : p \in {q \in P : Len(q) = n - 1}, x \in S}

\* "order": up to MaxRecs records, every priority/weight combination, distinct targets
PW == {[p |-> p, w |-> w] : p \in Prios, w \in Weights}
OrderWorlds ==
  {[srv |-> "ok", alias |-> FALSE, port |-> 80, addl |-> <<>>, hosts |-> AllData,
    recs |-> [j \in 1..Len(s) |-> [p |-> s[j].p, w |-> s[j].w, port |-> 1000 + j, t |-> j, own |-> 1]]]
   : s \in SeqsUpTo(PW, MaxRecs)}

\* "resolve": record shapes x additional sections x host outcomes
R(p, w, port, t, own) == [p |-> p, w |-> w, port |-> port, t |-> t, own |-> own]
Shapes == { <<>>,
            <<R(0, 0, 443, 0, 1)>>,                                  \* "." alone
            <<R(0, 0, 443, 1, 1)>>,
            <<R(1, 5, 443, 1, 1), R(0, 5, 8443, 2, 1)>>,
            <<R(0, 0, 443, 0, 1), R(1, 0, 443, 1, 1)>>,              \* "." among others
            <<R(0, 0, 443, 1, 0)>>,                                  \* foreign owner only
            <<R(0, 0, 443, 1, 2)>>,                                  \* class CH only
            <<R(0, 0, 443, 0, 1), R(0, 0, 443, 1, 0)>>,              \* "." plus a foreign record
            <<R(0, 0, 443, 1, 1), R(1, 0, 444, 1, 1)>>,              \* one target, two ports
            <<R(2, 1, 443, 2, 1), R(0, 0, 443, 1, 0), R(1, 1, 443, 1, 1)>> }
Ad(t, f, k) == [t |-> t, f |-> f, k |-> k]
Addls == { <<>>, <<Ad(1, 4, 1)>>, <<Ad(1, 6, 1), Ad(1, 4, 2)>>, <<Ad(2, 4, 1)>>,
           <<Ad(1, 4, 1), Ad(2, 6, 1), Ad(1, 4, 2)>>, <<Ad(9, 4, 1)>>, <<Ad(0, 4, 1)>>, <<Ad(3, 4, 1)>> }
ResolveWorlds ==
  {[srv |-> sv, alias |-> al, port |-> 80, addl |-> ad, hosts |-> [a |-> ha, aaaa |-> h6], recs |-> sh]
   : sv \in {"ok", "err"}, al \in BOOLEAN, ad \in Addls, ha \in Outs, h6 \in Outs, sh \in Shapes}

\* "merge" (generator only): two lookups whose results are merged
MergeWorlds ==
  {[srv |-> "ok", alias |-> FALSE, port |-> 80, addl |-> <<>>, hosts |-> AllData,
    recs  |-> [j \in 1..Len(a) |-> [p |-> a[j].p, w |-> a[j].w, port |-> 1000 + j, t |-> j, own |-> 1]],
    recsB |-> [j \in 1..Len(b) |-> [p |-> b[j].p, w |-> b[j].w, port |-> 1002 + j, t |-> 2 + j, own |-> 1]]]
   : a \in SeqsUpTo(PW, 2), b \in SeqsUpTo(PW, 2)}

Worlds == CASE Fam = "order" -> OrderWorlds [] Fam = "merge" -> MergeWorlds [] OTHER -> ResolveWorlds

--------------------------------------------------------------------------
Init == W \in Worlds /\ st = InitState

A_Query      == st.ph = "start"      /\ st' = Query(W, st)           /\ UNCHANGED W
A_Records    == st.ph = "records"    /\ st' = Records(W, st)         /\ UNCHANGED W
A_Additional == st.ph = "additional" /\ st' = Additional(W, st)      /\ UNCHANGED W
A_Sort       == st.ph = "sort"       /\ st' = Sort(st)               /\ UNCHANGED W
A_Pick       == /\ st.ph = "pick"
                /\ \E r \in 0..st.ws :
                     \E a \in (IF Rescan THEN {SubSeq(st.arr, st.gs, st.ge)}
                               ELSE Arrangements(SubSeq(st.arr, st.i, st.ge))) :
                       PickEnabled(st, a, r) /\ st' = Pick(st, a, r)
                /\ UNCHANGED W
A_StreamNext == st.ph = "stream"     /\ st' = StreamNext(W, st)      /\ UNCHANGED W
Done         == st.ph \in {"done", "panic"} /\ UNCHANGED vars

Next == A_Query \/ A_Records \/ A_Additional \/ A_Sort \/ A_Pick \/ A_StreamNext
Spec == Init /\ [][Next \/ Done]_vars /\ WF_vars(Next)

--------------------------------------------------------------------------
I_NoPanic          == NoPanic(st)
I_Proportion       == ProportionLaw(st)
I_SumIsRemaining   == SumIsRemaining(st)
I_AllSelectable    == AllSelectable(st)
I_ExactlyOnce      == ExactlyOnce(W, st)
I_PriorityOrder    == PriorityOrder(W, st)
I_Verdict          == Verdict(W, st)
I_LookupOnlyIfNeeded == LookupOnlyIfNeeded(W, st)
I_Questions        == QuestionsAsked(st)
\* records already ordered keep their place
P_PrefixStable == [][(st.ph = "pick" /\ st'.ph \in {"pick", "stream"}) =>
                       SubSeq(st'.arr, 1, st.i - 1) = SubSeq(st.arr, 1, st.i - 1)]_vars
L_Terminates == <>(st.ph \in {"done", "panic"})

\* every admitted order of a group is reachable (RFC: "in any order"): the
\* final orders of the ideal machine are all priority-respecting permutations
\* -- checked through the generator below (orders collected per world).

--------------------------------------------------------------------------
(* S->I cases, one per world (printed in the initial state).               *)

RecT(r) == <<r.p, r.w, r.port, r.t, r.own>>
ItemExp(W0, r) ==
  LET ad == AddlAddrs(W0.addl, r.t)
  IN IF ad # <<>> THEN <<r.p, r.w, r.port, r.t, "addl", ad, <<>>>>
     ELSE IF HostFails(W0.hosts) THEN <<r.p, r.w, r.port, r.t, "err", <<>>, <<<<r.t, "A">>, <<r.t, "AAAA">>>>>>
     ELSE <<r.p, r.w, r.port, r.t, "host", HostAddrs(W0.hosts, r.t), <<<<r.t, "A">>, <<r.t, "AAAA">>>>>>
FallbackExp(W0) ==
  LET r == [p |-> 0, w |-> 0, port |-> W0.port, t |-> 9]
      W1 == [W0 EXCEPT !.addl = <<>>]           \* the fallback item never looks at the additional section
  IN ItemExp(W1, r)

\* weights of the priority groups after the code's sort
GroupsOf(u) ==
  LET s == SortPW(u)
      starts == {g \in 1..Len(s) : g = 1 \/ s[g - 1].p # s[g].p}
  IN {[j \in 1..(GroupEnd(s, g) - g + 1) |-> s[g + j - 1].w] : g \in starts}
CanPanic(W0) ==
  LET u == Usable(W0.recs)
  IN W0.srv = "ok" /\ ~(Len(u) = 1 /\ u[1].t = 0) /\ \E ws \in GroupsOf(u) : GroupCanPanic(ws)

SrvCase(W0) ==
  LET u == Usable(W0.recs)
      kind == IF W0.srv = "err" THEN "err"
              ELSE IF u = <<>> THEN "fallback"
              ELSE IF Len(u) = 1 /\ u[1].t = 0 THEN "none" ELSE "found"
      items == IF kind = "found" THEN [j \in 1..Len(u) |-> ItemExp(W0, u[j])]
               ELSE IF kind = "fallback" THEN <<FallbackExp(W0)>> ELSE <<>>
  IN ToJson([in |-> [fam |-> "srv", srv |-> W0.srv, alias |-> W0.alias, port |-> W0.port,
                     recs |-> [j \in 1..Len(W0.recs) |-> RecT(W0.recs[j])],
                     addl |-> [j \in 1..Len(W0.addl) |-> <<W0.addl[j].t, W0.addl[j].f, W0.addl[j].k>>],
                     hosts |-> <<W0.hosts.a, W0.hosts.aaaa>>],
             exp |-> [res |-> kind, q0 |-> <<"svc", "SRV">>, items |-> items,
                      prio_ok |-> TRUE, same_order |-> TRUE, panic |-> FALSE],
             devp |-> CanPanic(W0)])

\* statistical cases: one priority group, the RFC probability bounds of every order
PermSeqs(n) == {[i \in 1..n |-> f[i]] : f \in Perms(n)}
\* final orders today's code can reach without the arithmetic fault
RECURSIVE RescanOrders(_, _, _, _)
RescanOrders(ws, arr, i, rem) ==    \* arr: record indexes in array order
  IF i > Len(arr) THEN {arr}
  ELSE UNION {
    LET RECURSIVE F(_, _)
        F(j, acc) == IF j > Len(arr) THEN 0 ELSE IF acc + ws[arr[j]] >= r THEN j ELSE F(j + 1, acc + ws[arr[j]])
        j == F(1, 0)
    IN IF j = 0 THEN RescanOrders(ws, arr, i + 1, rem)
       ELSE IF ws[arr[j]] > rem THEN {}
       ELSE RescanOrders(ws, [k \in 1..Len(arr) |-> IF k = i THEN arr[j] ELSE IF k = j THEN arr[i] ELSE arr[k]],
                         i + 1, rem - ws[arr[j]])
    : r \in 0..rem }
\* record indexes sorted by weight, stable
RECURSIVE SortIdx(_, _)
SortIdx(ws, n) ==
  IF n = 0 THEN <<>>
  ELSE LET s == SortIdx(ws, n - 1)
           pos == Cardinality({q \in 1..Len(s) : ws[s[q]] <= ws[n]})
       IN SubSeq(s, 1, pos) \o <<n>> \o SubSeq(s, pos + 1, Len(s))

StatCase(W0) ==
  LET ws == [j \in 1..Len(W0.recs) |-> W0.recs[j].w]
      n == Len(ws)
      orders == PermSeqs(n)
      must == {o \in orders : OrderBounds(ws, o, 1)[1] > 0}
      today == RescanOrders(ws, SortIdx(ws, n), 1, SumInts(ws))
      sorted == SortIdx(ws, n)
  IN ToJson([in |-> [fam |-> "srvstat", ws |-> ws,
                     orders |-> {<<o, OrderBounds(ws, o, 1)>> : o \in orders}],
             exp |-> [panic |-> FALSE, perm |-> TRUE, cover |-> TRUE, law |-> TRUE],
             devp |-> GroupCanPanic([j \in 1..n |-> ws[sorted[j]]]),
             devcover |-> must \subseteq today])

MergeItems(recs, port) ==
  IF recs = <<>> THEN <<[p |-> 0, w |-> 0, port |-> port, t |-> 9]>>
  ELSE [j \in 1..Len(recs) |-> [p |-> recs[j].p, w |-> recs[j].w, port |-> recs[j].port, t |-> recs[j].t]]
MergeCase(W0) ==
  LET all == MergeItems(W0.recs, 80) \o MergeItems(W0.recsB, 81)
  IN ToJson([in |-> [fam |-> "merge", a |-> [j \in 1..Len(W0.recs) |-> RecT(W0.recs[j])],
                     b |-> [j \in 1..Len(W0.recsB) |-> RecT(W0.recsB[j])]],
             exp |-> [bag |-> [j \in 1..Len(all) |-> <<all[j].p, all[j].w, all[j].port, all[j].t>>],
                      prio_ok |-> TRUE, panic |-> FALSE],
             devp |-> \E ws \in GroupsOf(all) : GroupCanPanic(ws)])

SinglePrio(W0) == \A j \in 1..Len(W0.recs) : W0.recs[j].p = 0

\* the generator only needs the initial states
GenOnlyInit == st.ph = "start"

Emit == st.ph = "start" =>
          /\ PrintT("CASE " \o (IF Fam = "merge" THEN MergeCase(W) ELSE SrvCase(W)))
          /\ (Fam = "order" /\ Len(W.recs) >= 2 /\ SinglePrio(W)) => PrintT("CASE " \o StatCase(W))
=============================================================================
