CONSTANTS
  Dev = {}
  Classes = {}
  ApexNames = {}
  ArgNames = {}
  QNames = {}
  Ids = {}
  MaxOps = 0
SPECIFICATION TSpec
INVARIANT TreeOK
POSTCONDITION Accepted
CHECK_DEADLOCK FALSE
