CONSTANTS
  Dev = {}
  L16 = 6
  L32 = 7
  L64 = 6
SPECIFICATION Spec
INVARIANT ConvEqualsFunction
INVARIANT SaltEqualsFunction
INVARIANT ConvEqualsDecoder
INVARIANT EscapedOctetRejected
INVARIANT ConvIndexInBounds
INVARIANT RunAgrees
INVARIANT EmitSym
INVARIANT EmitSymProbe
INVARIANT EmitBadEsc
CHECK_DEADLOCK FALSE
