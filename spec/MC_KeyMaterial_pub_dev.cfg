CONSTANTS
  Dev = {"D_pubkey_trailing_blank"}
  Mode = "pub"
  MaxLines = 0
  MaxSyms = 4
  MaxAdds = 0
  LineSet = "full"
  TagKeyLen = 0
  RsaFields <- RsaFields2
SPECIFICATION Spec
INVARIANT PubReaderIsGrammar
CHECK_DEADLOCK FALSE
