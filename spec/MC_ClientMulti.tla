--------------------------- MODULE MC_ClientMulti ---------------------------
(* multi_stream on a fine clock (ClientCompose, MFineTickSet): connection   *)
(* attempts that fail, connections that are closed, back-offs of any length *)
(* within the documented range, response timeouts below / at / above them.  *)
(* Every request is completed exactly once, no later than its response      *)
(* timeout after submission.                                                *)
EXTENDS ClientCompose

CONSTANTS FineRts     \* the response timeouts (ms) a run may be configured with
VARIABLES st
fvars == <<st, dvars, ndg>>

DFrozen == /\ ndg = 0 /\ ph = "idle" /\ att = 0 /\ e = 0 /\ inq = <<>> /\ q = 0
           /\ fault = [kind |-> "none", at |-> 0] /\ sent = <<>> /\ done = <<>>
           /\ waited = 0 /\ conf = DConfOf(DgScript("new", <<>>))
QuietSt == StScript("new", <<Call("set_response_timeout", 595000), Call("set_idle_timeout", 3600000)>>)
FConfs == {MsScript("from", QuietSt, <<Call("set_response_timeout", rt)>>) : rt \in FineRts}

FInit == DFrozen /\ st \in {MInitOf(sc) : sc \in FConfs}
Step(name) == /\ UNCHANGED <<dvars, ndg>>
              /\ \E o \in {p \in MOpsOf(st) : p.op = name} : st' \in MSuccF(st, o)
FSubmit   == Step("submit")
FConnOk   == Step("conn_ok")
FConnFail == Step("conn_fail")
FReply    == Step("reply")
FWrong    == Step("wrong")
FClose    == Step("close")
Left(r)   == st.reqs[r].st = "delay" /\ (st'.reqs[r].st # "delay" \/ st'.reqs[r].cnt # st.reqs[r].cnt)
\* time passes: nobody is woken / a back-off ends / the response timeout
\* ends a back-off
FTickQuiet   == Step("tick") /\ \A r \in MReqs : ~Left(r)
FTickWake    == Step("tick") /\ \E r \in MReqs : Left(r) /\ st'.reqs[r].st # "done"
FTickTimeout == Step("tick") /\ \E r \in MReqs : Left(r) /\ st'.reqs[r].st = "done"
FNext == FSubmit \/ FConnOk \/ FConnFail \/ FReply \/ FWrong \/ FClose
         \/ FTickQuiet \/ FTickWake \/ FTickTimeout
FSpec == FInit /\ [][FNext]_fvars

MAtMostOnce   == MAtMostOnceOf(st)
MOnTime       == MOnTimeOf(st)
MOwn          == MOwnOf(st)
MNoDup        == MNoDupOf(st)
MConnsSound   == MConnsSoundOf(st)
MBackoffSound == MBackoffSoundOf(st)
\* (for the self-test of the model: a back-off that is not bounded by the
\* response timeout would show as a request still pending at its deadline)
=============================================================================
