CONSTANTS
  Dev = {"D_sign_into_skips_zone"}
SPECIFICATION TSpec
POSTCONDITION Accepted
CHECK_DEADLOCK FALSE
