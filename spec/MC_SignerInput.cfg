CONSTANTS
  Dev = {}
  MaxRecs = 4
  MaxEdits = 1
  EditRecs = 3
  EditAnywhere = FALSE
  Mutant = FALSE
SPECIFICATION Spec
INVARIANT InputCanonical
INVARIANT InputIsContent
INVARIANT PreconditionHolds
INVARIANT HandedIsSignedData
INVARIANT SliceIsSignedData
INVARIANT SignaturesVerify
INVARIANT EntriesAreRfc
INVARIANT Emit
CHECK_DEADLOCK FALSE
