------------------------------- MODULE Order -------------------------------
(* Equality, order and hash of labels, names, character strings, record    *)
(* data and records (C04), as operators over Names.tla / Rdata.tla.         *)
(*                                                                          *)
(* Pinned by the RFCs / the property:                                       *)
(*   labels, names   == ignores ASCII case; order = RFC 4034 6.1            *)
(*   char strings    == ignores ASCII case; canonical order = octet order   *)
(*                   of the wire form (length octet first)                  *)
(*   record data     canonical order = LexCmp of CanonRd (RFC 4034 6.2/6.3) *)
(*   records         same class: by owner (RFC 4034 6.1), then type code,   *)
(*                   then canonical order of RDATA                          *)
(* Not pinned (any total order coherent with == is admissible): Ord of      *)
(* char strings, record data and records; == of record data whose           *)
(* character strings differ only in case; whether == of records looks at    *)
(* the TTL.  There only the coherence laws are demanded.                    *)
EXTENDS Rdata

Neg(c) == 0 - c
IsSign(c) == c \in {-1, 0, 1}

(* labels *)
LabelWire(a) == <<Len(a)>> \o a
LabelComposedCmp(a, b) == LexCmp(LabelWire(a), LabelWire(b))
LabelLowerComposedCmp(a, b) == LexCmp(LabelWire(LowerSeq(a)), LabelWire(LowerSeq(b)))
LabelHashKey(a) == LabelWire(LowerSeq(a))     \* what a correct Hash may depend on

(* names *)
NameComposedCmp(m, n) == LexCmp(ToWireAbs(m), ToWireAbs(n))
NameLowerComposedCmp(m, n) == LexCmp(ToWireAbs(LowerName(m)), ToWireAbs(LowerName(n)))
NameHashKey(n) == ToWireAbs(LowerName(n))

(* character strings *)
CharStrEq(a, b) == LowerSeq(a) = LowerSeq(b)
CharStrCanonCmp(a, b) == LexCmp(LabelWire(a), LabelWire(b))
CharStrHashKey(a) == LowerSeq(a)

(* record data: RdEq (Rdata.tla) is the strict reading (character strings   *)
(* octet-wise); RdEqLoose also folds case inside character strings.  Pairs  *)
(* in between are not pinned.                                               *)
FieldEqLoose(f, a, b) ==
  CASE f.kind = "CharStr"    -> LowerSeq(a) = LowerSeq(b)
    [] f.kind = "CharStrSeq" -> Len(a) = Len(b) /\ \A i \in 1..Len(a) : LowerSeq(a[i]) = LowerSeq(b[i])
    [] OTHER -> FieldEq(f, a, b)
RdEqLoose(t, v1, v2) == \A i \in 1..Len(LayoutOf(t)) : FieldEqLoose(LayoutOf(t)[i], v1[i], v2[i])
RdEqFree(t, v1, v2) == RdEqLoose(t, v1, v2) /\ ~RdEq(t, v1, v2)

(* records: [class, owner, ttl, code, t, val]  (code: numeric type, t: its row) *)
RecSameKey(r, s) == r.class = s.class /\ NameEq(r.owner, s.owner) /\ r.code = s.code
RecEqCore(r, s) == RecSameKey(r, s) /\ RdEq(r.t, r.val, s.val)
\* == is pinned unless only the TTL (or character-string case) differs
RecEqFree(r, s) == RecSameKey(r, s) /\ RdEqLoose(r.t, r.val, s.val)
                     /\ (r.ttl # s.ttl \/ ~RdEq(r.t, r.val, s.val))
\* canonical order of records = octet order of their canonical wire forms
\* (owner | type | class | ...): pinned within a class -- by owner in RFC 4034
\* 6.1 order, then by type code, then by canonical RDATA (6.3)
RecCanonPinned(r, s) == r.class = s.class
RecCanonCmp(r, s) ==     \* meaningful where RecCanonPinned
  IF ~NameEq(r.owner, s.owner) THEN CanonNameCmp(r.owner, s.owner)
  ELSE IF r.code # s.code THEN (IF r.code < s.code THEN -1 ELSE 1)
  ELSE CanonRdCmp(r.t, r.val, s.val)

--------------------------------------------------------------------------
(* Expected observations of the executor / recorder for a pair, and what   *)
(* the implementation answers today where it deviates (DESIGN 2.6)         *)
Free == "free"
\* ZoneRecordData carries the meta types (and unknown ones) opaquely: there
\* == is equality of the octets
ZoneOpaque(x) == x \in {"NULL", "TSIG", "OPT"} \/ x \notin KnownTypes
RdExp(x, u, v) ==
  LET e == IF RdEqFree(x, u, v) THEN Free ELSE RdEq(x, u, v)
      z == IF ZoneOpaque(x) THEN ComposeRd(x, u) = ComposeRd(x, v) ELSE e
  IN [eq_all |-> e, eq_zone |-> z, cmp0_all |-> e, cmp0_zone |-> z,
      canon |-> CanonRdCmp(x, u, v), canon_octets |-> CanonRdCmp(x, u, v),
      hash_ok |-> TRUE, issues |-> <<>>]

(* What the implementation does today where it deviates (known findings) *)
FirstDiff(u, v) == LET D == {i \in 1..Len(u) : u[i] # v[i]} IN IF D = {} THEN 0 ELSE MinOf(D)
\* RFC 1982 comparison of two 32-bit values given as octet tuples: -1 0 1, 2 = incomparable
SerialPartial(x, y) ==
  IF x = y THEN 0
  ELSE LET xh == x[1] * 256 + x[2]
           xl == x[3] * 256 + x[4]
           yh == y[1] * 256 + y[2]
           yl == y[3] * 256 + y[4]
           borrow == IF yl < xl THEN 1 ELSE 0
           dl == (yl - xl + 65536) % 65536
           dh == (yh - xh - borrow + 131072) % 65536
       IN IF dh = 32768 /\ dl = 0 THEN 2 ELSE IF dh < 32768 THEN -1 ELSE 1
\* D_partial_cmp_vs_cmp: partial_cmp of RRSIG / ZONEMD compares the time stamps /
\* the serial in sequence-space arithmetic while cmp compares them as integers
SerialFields(x) == IF x = "RRSIG" THEN {5, 6} ELSE IF x = "ZONEMD" THEN {1} ELSE {}
SerialMismatch(x, u, v) ==
  LET i == FirstDiff(u, v)
  IN \/ i \in SerialFields(x) /\ SerialPartial(u[i], v[i]) # LexCmp(u[i], v[i])
     \* ... and the RRSIG signer by RFC 4034 6.1 name order while cmp uses the
     \* octet order of the lower-cased wire form
     \/ x = "RRSIG" /\ i = 8 /\ CanonNameCmp(u[8], v[8]) # NameLowerComposedCmp(u[8], v[8])
\* D_canon_cmp_name_order: canonical_cmp of SVCB / HTTPS (target) and IPSECKEY
\* (gateway name) orders the embedded name by RFC 4034 6.1 (labels from the
\* right, case folded) although the canonical form keeps it as plain octets
First3(c1, c2, c3) == IF c1 # 0 THEN c1 ELSE IF c2 # 0 THEN c2 ELSE c3
CanonImpl(x, u, v) ==
  IF x \in {"SVCB", "HTTPS"}
  THEN First3(LexCmp(u[1], v[1]), CanonNameCmp(u[2], v[2]),
              LexCmp(ComposeField(LayoutOf(x)[3], u[3]), ComposeField(LayoutOf(x)[3], v[3])))
  ELSE IF x = "IPSECKEY"
  THEN First3(LexCmp(u[1] \o <<u[2].gt, u[2].alg>>, v[1] \o <<v[2].gt, v[2].alg>>),
              IF u[2].gt = 3 THEN CanonNameCmp(u[2].gw, v[2].gw) ELSE LexCmp(u[2].gw, v[2].gw),
              LexCmp(u[3], v[3]))
  ELSE CanonRdCmp(x, u, v)
\* D_nsec_cmp_self_types: Nsec's cmp / partial_cmp / canonical_cmp compare
\* self.types with self.types: the type bitmap never matters
\* D_alldata_eq_opt_unknown: AllRecordData's == has no arm for Opt / Unknown
\* D_ipseckey_hash_none_todo: Hash for IpseckeyGateway::None is todo!()
RdDev(x, u, v) ==
  IF x = "IPSECKEY" /\ (u[2].gt = 0 \/ v[2].gt = 0)
  THEN [D_ipseckey_hash_none_todo |-> [panic |-> TRUE]]
  ELSE IF (x = "OPT" \/ x \notin KnownTypes) /\ RdEq(x, u, v)
  THEN [D_alldata_eq_opt_unknown |-> [RdExp(x, u, v) EXCEPT !.eq_all = FALSE]]
  ELSE IF x = "NSEC" /\ u[2] # v[2]
  THEN [D_nsec_cmp_self_types |-> [RdExp(x, u, v) EXCEPT
           !.canon = NameComposedCmp(u[1], v[1]),
           !.cmp0_all = NameEq(u[1], v[1]), !.cmp0_zone = NameEq(u[1], v[1])]]
  ELSE IF CanonImpl(x, u, v) # CanonRdCmp(x, u, v)
  THEN [D_canon_cmp_name_order |-> [RdExp(x, u, v) EXCEPT !.canon = CanonImpl(x, u, v)]]
  ELSE IF SerialMismatch(x, u, v)
  THEN [D_partial_cmp_vs_cmp |-> [RdExp(x, u, v) EXCEPT
           !.issues = <<"AllRecordData partial_cmp differs from cmp">>]]
  \* D_nsec3_partial_cmp_vs_cmp: Nsec3::partial_cmp orders salt and next hashed
  \* owner as plain octet strings, cmp (= canonical_cmp) by length octet first
  ELSE IF x = "NSEC3" /\ FirstDiff(u, v) \in {4, 5}
          /\ LexCmp(u[FirstDiff(u, v)], v[FirstDiff(u, v)])
               # LexCmp(LabelWire(u[FirstDiff(u, v)]), LabelWire(v[FirstDiff(u, v)]))
  THEN [D_nsec3_partial_cmp_vs_cmp |-> [RdExp(x, u, v) EXCEPT
           !.issues = <<"AllRecordData partial_cmp differs from cmp">>]]
  ELSE <<>>

\* Besides Record itself the executor looks at the other views of a record:
\*   hdr_eq     RecordHeader (owner, type, class, TTL, RDLENGTH): all fields
\*   parsed_eq  ParsedRecord (header + unparsed RDATA): header and RDATA octets
\*   q_eq       Question built from (owner, type, class)
\*   q_canon    canonical order of questions = octet order of the wire form
\*              with the name lower-cased
QWire(r) == ToWireAbs(LowerName(r.owner)) \o EncU16(r.code) \o EncU16(r.class)
RecExp(r, s) ==
  LET e == IF RecEqFree(r, s) THEN Free ELSE RecEqCore(r, s)
      hq == RecSameKey(r, s) /\ r.ttl = s.ttl /\ RdLen(r.t, r.val) = RdLen(s.t, s.val)
  IN [eq |-> e, cmp0 |-> e,
      canon |-> IF RecCanonPinned(r, s) THEN RecCanonCmp(r, s) ELSE Free,
      hdr_eq |-> hq,
      parsed_eq |-> hq /\ ComposeRd(r.t, r.val) = ComposeRd(s.t, s.val),
      q_eq |-> RecSameKey(r, s),
      q_canon |-> LexCmp(QWire(r), QWire(s)),
      hash_ok |-> TRUE, hash_ok_hq |-> TRUE, issues |-> <<>>]
\* D_record_hash_ttl: Record's == ignores the TTL, its Hash feeds it
\* D_alldata_eq_opt_unknown makes records with OPT / unknown data never equal
RecDev(r, s) ==
  IF RecEqCore(r, s) /\ (r.t = "OPT" \/ r.t \notin KnownTypes)
  THEN [D_alldata_eq_opt_unknown |-> [RecExp(r, s) EXCEPT !.eq = FALSE, !.cmp0 = TRUE]]
  ELSE IF RecEqCore(r, s) /\ r.ttl # s.ttl
  THEN [D_record_hash_ttl |-> [RecExp(r, s) EXCEPT !.hash_ok = FALSE]]
  \* D_unknown_eq_ignores_rtype: UnknownRecordData's == / cmp look at the data
  \* octets only, while the Hash of the record data enums feeds the type: two
  \* records of different unknown types with the same octets are == and hash
  \* differently
  ELSE IF r.class = s.class /\ NameEq(r.owner, s.owner) /\ r.code # s.code
          /\ r.t \notin KnownTypes /\ s.t \notin KnownTypes /\ r.val = s.val
  THEN [D_unknown_eq_ignores_rtype |-> [RecExp(r, s) EXCEPT !.eq = TRUE, !.cmp0 = TRUE, !.hash_ok = FALSE]]
  ELSE <<>>
--------------------------------------------------------------------------
(* Carriers: the ways the library holds ONE name (C04: "independent of      *)
(* representation").  A carrier is a term (a tagged tuple); what it denotes *)
(* is a label sequence.                                                     *)
(*   relative (ToRelativeName):                                             *)
(*     <<"rflat", o, labels>>              RelativeName over octets kind o  *)
(*     <<"rchain", rel, rel>>              Chain<Rel, Rel>                  *)
(*     <<"rref", rel>>                     &T                               *)
(*   absolute (ToName):                                                     *)
(*     <<"flat", o, name>>                 Name over octets kind o          *)
(*     <<"parsed", cuts, hops, name>>      ParsedName inside a message:     *)
(*                                         cuts[k] = after the first k      *)
(*                                         labels a compression pointer     *)
(*                                         follows; hops pointer-only hops  *)
(*                                         lead to the first label          *)
(*     <<"chain", rel, abs>>               Chain<Rel, Abs>                  *)
(*     <<"uchain", o, isabs, labels, abs>> Chain<UncertainName, Abs>: the   *)
(*                                         right part counts only if the    *)
(*                                         uncertain name is relative       *)
(*     <<"chainroot", rel>>                rel.chain_root()                 *)
(*     <<"ref", abs>>                      &T                               *)
(* The operators CWire / CLen are written the way the implementation works  *)
(* (a chain handles its left part, then its right part; a flat name is one  *)
(* slice).  The law CarrierLaw says they are functions of the denoted name  *)
(* alone: Carrier(c) ~ Denote(c).  Everything the executor and the recorder *)
(* are told to expect of a carrier is computed from Denote(c) only          *)
(* (NameObs, NamePairExp, CanonRd, RecCanonWire).                           *)

RECURSIVE RelLabels(_)
RelLabels(c) == IF c[1] = "rflat" THEN c[3]
                ELSE IF c[1] = "rref" THEN RelLabels(c[2])
                ELSE RelLabels(c[2]) \o RelLabels(c[3])
RECURSIVE Denote(_)
Denote(c) ==
  CASE c[1] = "flat"      -> c[3]
    [] c[1] = "parsed"    -> c[4]
    [] c[1] = "chain"     -> RelLabels(c[2]) \o Denote(c[3])
    [] c[1] = "uchain"    -> IF c[3] THEN c[4] ELSE c[4] \o Denote(c[5])
    [] c[1] = "chainroot" -> RelLabels(c[2])
    [] c[1] = "ref"       -> Denote(c[2])

FlatKinds == {"vec", "bytes", "array", "slice"}
RECURSIVE WfRel(_)
WfRel(c) ==
  /\ c[1] \in {"rflat", "rchain", "rref"}
  /\ IF c[1] = "rflat" THEN Len(c) = 3 /\ c[2] \in FlatKinds /\ ValidRel(c[3])
     ELSE IF c[1] = "rref" THEN Len(c) = 2 /\ WfRel(c[2])
     ELSE Len(c) = 3 /\ WfRel(c[2]) /\ WfRel(c[3])
RECURSIVE WfAbsParts(_)
WfAbsParts(c) ==
  CASE c[1] = "flat"      -> Len(c) = 3 /\ c[2] \in FlatKinds
    [] c[1] = "parsed"    -> Len(c) = 4 /\ Len(c[2]) = Len(c[4]) /\ c[3] \in 0..8
                             /\ \A i \in 1..Len(c[2]) : c[2][i] \in BOOLEAN
    [] c[1] = "chain"     -> Len(c) = 3 /\ WfRel(c[2]) /\ WfAbsParts(c[3])
    [] c[1] = "uchain"    -> Len(c) = 5 /\ c[2] \in {"vec", "bytes"} /\ c[3] \in BOOLEAN
                             /\ WfAbsParts(c[5]) /\ ValidAbs(Denote(c[5]))
                             /\ (IF c[3] THEN ValidAbs(c[4]) ELSE ValidRel(c[4]))
    [] c[1] = "chainroot" -> Len(c) = 2 /\ WfRel(c[2])
    [] c[1] = "ref"       -> Len(c) = 2 /\ WfAbsParts(c[2])
    [] OTHER -> FALSE
WfAbs(c) == WfAbsParts(c) /\ ValidAbs(Denote(c))

\* compose (canon = FALSE) and compose_canonical (canon = TRUE), part by
\* part.  mut: model mutants (a vacuity guard for CarrierLaw, MC_Order_mut.cfg)
RECURSIVE RelWire(_, _)
RelWire(c, canon) ==
  IF c[1] = "rflat" THEN ToWireRel(IF canon THEN LowerName(c[3]) ELSE c[3])
  ELSE IF c[1] = "rref" THEN RelWire(c[2], canon)
  ELSE RelWire(c[2], canon) \o RelWire(c[3], canon)
RECURSIVE CWire(_, _, _)
CWire(c, canon, mut) ==
  LET nm(n) == IF canon THEN LowerName(n) ELSE n IN
  CASE c[1] = "flat"      -> ToWireAbs(nm(c[3]))
    [] c[1] = "parsed"    -> ToWireAbs(nm(c[4]))
    [] c[1] = "chain"     -> RelWire(c[2], canon)
                               \o CWire(c[3], canon /\ "M_chain_canon_right_raw" \notin mut, mut)
    [] c[1] = "uchain"    -> IF c[3] THEN ToWireAbs(nm(c[4]))
                             ELSE ToWireRel(nm(c[4]))
                                    \o CWire(c[5], canon, mut)
    [] c[1] = "chainroot" -> RelWire(c[2], canon) \o <<0>>
    [] c[1] = "ref"       -> CWire(c[2], canon, mut)
RECURSIVE RelLen(_)
RelLen(c) == IF c[1] = "rflat" THEN WireLenRel(c[3])
             ELSE IF c[1] = "rref" THEN RelLen(c[2])
             ELSE RelLen(c[2]) + RelLen(c[3])
RECURSIVE CLen(_, _)
CLen(c, mut) ==
  CASE c[1] = "flat"      -> WireLenAbs(c[3])
    [] c[1] = "parsed"    -> WireLenAbs(c[4])
    [] c[1] = "chain"     -> RelLen(c[2]) + CLen(c[3], mut)
    [] c[1] = "uchain"    -> IF c[3] /\ "M_uchain_abs_adds_origin" \notin mut THEN WireLenAbs(c[4])
                             ELSE WireLenRel(c[4]) + CLen(c[5], mut)
    [] c[1] = "chainroot" -> RelLen(c[2]) + 1
    [] c[1] = "ref"       -> CLen(c[2], mut)

\* what is observable of a name through any carrier: a function of the
\* abstract name.  compose / to_name / to_vec / to_bytes / to_cow / flatten
\* all give `compose`; compose_canonical / to_canonical_name give `canon`
\* (= the lower-cased `compose`); hash_ok: hashes like the flat name
NameObs(n) ==
  [compose |-> ToWireAbs(n), canon |-> LowerSeq(ToWireAbs(n)), len |-> WireLenAbs(n),
   labels |-> Append(n, <<>>), rrsig_labels |-> RrsigLabels(n), is_root |-> n = <<>>,
   hash_ok |-> TRUE, issues |-> <<>>]
CarrierObs(c, mut) ==
  [compose |-> CWire(c, FALSE, mut), canon |-> CWire(c, TRUE, mut), len |-> CLen(c, mut),
   labels |-> Append(Denote(c), <<>>), rrsig_labels |-> RrsigLabels(Denote(c)),
   is_root |-> Denote(c) = <<>>, hash_ok |-> TRUE, issues |-> <<>>]
CarrierLawM(c, mut) == CarrierObs(c, mut) = NameObs(Denote(c))
CarrierLaw(c) == CarrierLawM(c, {})

\* the same for a relative name (no root label); with_root: what the name
\* made absolute by chain_root composes to
RelObs(n) ==
  [compose |-> ToWireRel(n), canon |-> LowerSeq(ToWireRel(n)), len |-> WireLenRel(n),
   labels |-> n, is_empty |-> n = <<>>, with_root |-> ToWireAbs(n), issues |-> <<>>]
RelCarrierObs(c) ==
  [compose |-> RelWire(c, FALSE), canon |-> RelWire(c, TRUE), len |-> RelLen(c),
   labels |-> RelLabels(c), is_empty |-> RelLabels(c) = <<>>,
   with_root |-> CWire(<<"chainroot", c>>, FALSE, {}), issues |-> <<>>]
RelCarrierLaw(c) == RelCarrierObs(c) = RelObs(RelLabels(c))
WfRelTop(c) == WfRel(c) /\ ValidRel(RelLabels(c))

\* a pair of names, however carried
NamePairExp(m, n) ==
  [eq |-> NameEq(m, n), cmp |-> CanonNameCmp(m, n),
   composed |-> NameComposedCmp(m, n), lcomposed |-> NameLowerComposedCmp(m, n),
   hash_ok |-> TRUE, issues |-> <<>>]

\* record data whose domain names are held by carriers cs (one per name, in
\* layout order): composed field by field, a name through its carrier
HasName(f, v) == f.kind = "Name" \/ (f.kind = "IpsecGw" /\ v.gt = 3)
NameOfField(f, v) == IF f.kind = "Name" THEN v ELSE v.gw
NameIdx(x, val) == {i \in 1..Len(val) : HasName(LayoutOf(x)[i], val[i])}
NamesOfRd(x, val) == LET ix == SortSet(NameIdx(x, val))
                     IN [j \in 1..Len(ix) |-> NameOfField(LayoutOf(x)[ix[j]], val[ix[j]])]
\* cs carries exactly the names of val
Carries(x, val, cs) ==
  LET ns == NamesOfRd(x, val)
  IN Len(cs) = Len(ns) /\ \A j \in 1..Len(ns) : WfAbs(cs[j]) /\ Denote(cs[j]) = ns[j]
RdWireC(x, val, cs, canon, mut) ==
  LET lay == LayoutOf(x)
      ix == SortSet(NameIdx(x, val))
      pos(i) == Cardinality({j \in NameIdx(x, val) : j <= i})       \* which carrier
  IN Concat([i \in 1..Len(lay) |->
       IF lay[i].kind = "Name" THEN CWire(cs[pos(i)], canon /\ lay[i].lower, mut)
       ELSE IF HasName(lay[i], val[i]) THEN <<val[i].gt, val[i].alg>> \o CWire(cs[pos(i)], FALSE, mut)
       ELSE ComposeField(lay[i], val[i])])
CarriedRdLawM(x, val, cs, mut) ==
  /\ RdWireC(x, val, cs, FALSE, mut) = ComposeRd(x, val)
  /\ RdWireC(x, val, cs, TRUE, mut) = CanonRd(x, val)

\* a record in canonical form (RFC 4034 6.2): owner lower-cased, type, class,
\* TTL, RDLENGTH, canonical RDATA; and its plain uncompressed form
RecWire(r, canon) ==
  LET rd == IF canon THEN CanonRd(r.t, r.val) ELSE ComposeRd(r.t, r.val)
  IN ToWireAbs(IF canon THEN LowerName(r.owner) ELSE r.owner) \o EncU16(r.code) \o EncU16(r.class)
       \o EncU32(r.ttl) \o EncU16(Len(rd)) \o rd
RecWireC(r, oc, cs, canon, mut) ==
  LET rd == RdWireC(r.t, r.val, cs, canon, mut)
  IN CWire(oc, canon, mut) \o EncU16(r.code) \o EncU16(r.class)
       \o EncU32(r.ttl) \o EncU16(Len(rd)) \o rd
CarriedRecLawM(r, oc, cs, mut) ==
  /\ RecWireC(r, oc, cs, FALSE, mut) = RecWire(r, FALSE)
  /\ RecWireC(r, oc, cs, TRUE, mut) = RecWire(r, TRUE)

\* expectations for record data / a record whose names sit in carriers,
\* compared with the same or another value held flat
CrdExp(x, u, v) ==
  [compose |-> ComposeRd(x, u), canon_wire |-> CanonRd(x, u), rdlen |-> RdLen(x, u),
   eq |-> IF RdEqFree(x, u, v) THEN Free ELSE RdEq(x, u, v),
   canon |-> CanonRdCmp(x, u, v), issues |-> <<>>]
CrdDev(x, u, v) ==
  LET d == RdDev(x, u, v)
      keep == {n \in DOMAIN d : "panic" \notin DOMAIN d[n]}
  IN [n \in keep |-> [CrdExp(x, u, v) EXCEPT !.eq = d[n].eq_all, !.canon = d[n].canon]]
\* (== is not offered for records whose owner is a Chain)
CrecExp(r, s) ==
  [compose |-> RecWire(r, FALSE), canon_wire |-> RecWire(r, TRUE),
   hdr_canon |-> ToWireAbs(LowerName(r.owner)) \o EncU16(r.code) \o EncU16(r.class)
                   \o EncU32(r.ttl) \o EncU16(RdLen(r.t, r.val)),
   canon |-> IF RecCanonPinned(r, s) THEN RecCanonCmp(r, s) ELSE Free,
   issues |-> <<>>]
--------------------------------------------------------------------------
(* Representations of record DATA.  The D of Record<N, D> is any            *)
(* RecordData: the two enums, UnknownRecordData (RFC 3597: opaque octets),  *)
(* or an implementation of the traits outside the library ("ext").  The     *)
(* comparison impls of Record, of the enums and of UnknownRecordData take   *)
(* two sets of type parameters: both sides may hold owner, names and octets *)
(* differently (parsed in a message, Vec, Bytes).                           *)
(*   The contract of CanonicalOrd for record data is RFC 4034 6.3: the      *)
(* order of RDATA *within one RRset*.  What a D answers for two values of   *)
(* different types is its own business (xans, any sign, antisymmetric).     *)
(* The order of RECORDS is pinned through all three steps (owner, type,     *)
(* RDATA), so Record::canonical_cmp must take the type step itself.         *)
(* RecCanonVia is written the way the implementation works; RecRepLawM says *)
(* it is the pinned order whatever D answers across types.                  *)
DataReps == {"all", "zone", "unknown", "ext"}
OpaqueRep(rep) == rep \in {"unknown", "ext"}
SignOf(x, y) == IF x < y THEN -1 ELSE IF x = y THEN 0 ELSE 1
\* the zone enum holds the meta types (and unknown ones) as opaque octets too
HeldOpaque(rep, x) == OpaqueRep(rep) \/ (rep = "zone" /\ ZoneOpaque(x))
\* canonical RDATA of a record as representation rep holds it
RepCanonRd(rep, r) == IF HeldOpaque(rep, r.t) THEN ComposeRd(r.t, r.val) ELSE CanonRd(r.t, r.val)
\* what D::canonical_cmp answers for the data of two records
DataCanonAns(rep, xans, r, s) ==
  IF r.code = s.code THEN LexCmp(RepCanonRd(rep, r), RepCanonRd(rep, s))
  ELSE IF rep = "ext" THEN (IF r.code < s.code THEN xans ELSE Neg(xans))
  ELSE SignOf(r.code, s.code)
\* Record::canonical_cmp step by step: class, owner, type, then D's answer
RecCanonVia(r, s, dans, mut) ==
  IF r.class # s.class THEN SignOf(r.class, s.class)
  ELSE IF ~NameEq(r.owner, s.owner) THEN CanonNameCmp(r.owner, s.owner)
  ELSE IF r.code # s.code /\ "M_rec_no_type_step" \notin mut THEN SignOf(r.code, s.code)
  ELSE dans
\* the pinned order: owner | type | canonical RDATA, field by field
RecRepCanonCmp(rep, r, s) ==
  IF ~NameEq(r.owner, s.owner) THEN CanonNameCmp(r.owner, s.owner)
  ELSE IF r.code # s.code THEN SignOf(r.code, s.code)
  ELSE LexCmp(RepCanonRd(rep, r), RepCanonRd(rep, s))
RecRepLawM(rep, xans, r, s, mut) ==
  /\ RecCanonPinned(r, s) =>
       RecCanonVia(r, s, DataCanonAns(rep, xans, r, s), mut) = RecRepCanonCmp(rep, r, s)
  /\ ~HeldOpaque(rep, r.t) /\ ~HeldOpaque(rep, s.t) /\ RecCanonPinned(r, s)
       => RecRepCanonCmp(rep, r, s) = RecCanonCmp(r, s)
\* == : an opaque representation compares the RDATA octets; the zone enum
\* holds the meta types opaquely
RepRdEq(rep, r, s) ==
  IF HeldOpaque(rep, r.t)
  THEN ComposeRd(r.t, r.val) = ComposeRd(s.t, s.val)
  ELSE RdEq(r.t, r.val, s.val)
\* expectations for two records whose data both sides hold as rep (owner,
\* names and octets held differently on the two sides): every pairing of
\* holdings answers the same
XrecExp(rep, r, s) ==
  LET e == IF RecEqFree(r, s) THEN Free ELSE RecSameKey(r, s) /\ RepRdEq(rep, r, s)
  IN [eq |-> e, cmp0 |-> e,
      canon |-> IF RecCanonPinned(r, s) THEN RecRepCanonCmp(rep, r, s) ELSE Free,
      hash_ok |-> TRUE, issues |-> <<>>]
=============================================================================
