------------------------------- MODULE Order -------------------------------
(* Equality, order and hash of labels, names, character strings, record    *)
(* data and records (C04), as operators over Names.tla / Rdata.tla.         *)
(*                                                                          *)
(* Pinned by the RFCs / the property:                                       *)
(*   labels, names   == ignores ASCII case; order = RFC 4034 6.1            *)
(*   char strings    == ignores ASCII case; canonical order = octet order   *)
(*                   of the wire form (length octet first)                  *)
(*   record data     canonical order = LexCmp of CanonRd (RFC 4034 6.2/6.3) *)
(*   records         same class: by owner (RFC 4034 6.1), then type code,   *)
(*                   then canonical order of RDATA                          *)
(* Not pinned (any total order coherent with == is admissible): Ord of      *)
(* char strings, record data and records; == of record data whose           *)
(* character strings differ only in case; whether == of records looks at    *)
(* the TTL.  There only the coherence laws are demanded.                    *)
EXTENDS Rdata

Neg(c) == 0 - c
IsSign(c) == c \in {-1, 0, 1}

(* labels *)
LabelWire(a) == <<Len(a)>> \o a
LabelComposedCmp(a, b) == LexCmp(LabelWire(a), LabelWire(b))
LabelLowerComposedCmp(a, b) == LexCmp(LabelWire(LowerSeq(a)), LabelWire(LowerSeq(b)))
LabelHashKey(a) == LabelWire(LowerSeq(a))     \* what a correct Hash may depend on

(* names *)
NameComposedCmp(m, n) == LexCmp(ToWireAbs(m), ToWireAbs(n))
NameLowerComposedCmp(m, n) == LexCmp(ToWireAbs(LowerName(m)), ToWireAbs(LowerName(n)))
NameHashKey(n) == ToWireAbs(LowerName(n))

(* character strings *)
CharStrEq(a, b) == LowerSeq(a) = LowerSeq(b)
CharStrCanonCmp(a, b) == LexCmp(LabelWire(a), LabelWire(b))
CharStrHashKey(a) == LowerSeq(a)

(* record data: RdEq (Rdata.tla) is the strict reading (character strings   *)
(* octet-wise); RdEqLoose also folds case inside character strings.  Pairs  *)
(* in between are not pinned.                                               *)
FieldEqLoose(f, a, b) ==
  CASE f.kind = "CharStr"    -> LowerSeq(a) = LowerSeq(b)
    [] f.kind = "CharStrSeq" -> Len(a) = Len(b) /\ \A i \in 1..Len(a) : LowerSeq(a[i]) = LowerSeq(b[i])
    [] OTHER -> FieldEq(f, a, b)
RdEqLoose(t, v1, v2) == \A i \in 1..Len(LayoutOf(t)) : FieldEqLoose(LayoutOf(t)[i], v1[i], v2[i])
RdEqFree(t, v1, v2) == RdEqLoose(t, v1, v2) /\ ~RdEq(t, v1, v2)

(* records: [class, owner, ttl, code, t, val]  (code: numeric type, t: its row) *)
RecSameKey(r, s) == r.class = s.class /\ NameEq(r.owner, s.owner) /\ r.code = s.code
RecEqCore(r, s) == RecSameKey(r, s) /\ RdEq(r.t, r.val, s.val)
\* == is pinned unless only the TTL (or character-string case) differs
RecEqFree(r, s) == RecSameKey(r, s) /\ RdEqLoose(r.t, r.val, s.val)
                     /\ (r.ttl # s.ttl \/ ~RdEq(r.t, r.val, s.val))
\* canonical order of records = octet order of their canonical wire forms
\* (owner | type | class | ...): pinned within a class -- by owner in RFC 4034
\* 6.1 order, then by type code, then by canonical RDATA (6.3)
RecCanonPinned(r, s) == r.class = s.class
RecCanonCmp(r, s) ==     \* meaningful where RecCanonPinned
  IF ~NameEq(r.owner, s.owner) THEN CanonNameCmp(r.owner, s.owner)
  ELSE IF r.code # s.code THEN (IF r.code < s.code THEN -1 ELSE 1)
  ELSE CanonRdCmp(r.t, r.val, s.val)

--------------------------------------------------------------------------
(* Expected observations of the executor / recorder for a pair, and what   *)
(* the implementation answers today where it deviates (DESIGN 2.6)         *)
Free == "free"
\* ZoneRecordData carries the meta types (and unknown ones) opaquely: there
\* == is equality of the octets
ZoneOpaque(x) == x \in {"NULL", "TSIG", "OPT"} \/ x \notin KnownTypes
RdExp(x, u, v) ==
  LET e == IF RdEqFree(x, u, v) THEN Free ELSE RdEq(x, u, v)
      z == IF ZoneOpaque(x) THEN ComposeRd(x, u) = ComposeRd(x, v) ELSE e
  IN [eq_all |-> e, eq_zone |-> z, cmp0_all |-> e, cmp0_zone |-> z,
      canon |-> CanonRdCmp(x, u, v), canon_octets |-> CanonRdCmp(x, u, v),
      hash_ok |-> TRUE, issues |-> <<>>]

(* What the implementation does today where it deviates (known findings) *)
FirstDiff(u, v) == LET D == {i \in 1..Len(u) : u[i] # v[i]} IN IF D = {} THEN 0 ELSE MinOf(D)
\* RFC 1982 comparison of two 32-bit values given as octet tuples: -1 0 1, 2 = incomparable
SerialPartial(x, y) ==
  IF x = y THEN 0
  ELSE LET xh == x[1] * 256 + x[2]
           xl == x[3] * 256 + x[4]
           yh == y[1] * 256 + y[2]
           yl == y[3] * 256 + y[4]
           borrow == IF yl < xl THEN 1 ELSE 0
           dl == (yl - xl + 65536) % 65536
           dh == (yh - xh - borrow + 131072) % 65536
       IN IF dh = 32768 /\ dl = 0 THEN 2 ELSE IF dh < 32768 THEN -1 ELSE 1
\* D_partial_cmp_vs_cmp: partial_cmp of RRSIG / ZONEMD compares the time stamps /
\* the serial in sequence-space arithmetic while cmp compares them as integers
SerialFields(x) == IF x = "RRSIG" THEN {5, 6} ELSE IF x = "ZONEMD" THEN {1} ELSE {}
SerialMismatch(x, u, v) ==
  LET i == FirstDiff(u, v)
  IN \/ i \in SerialFields(x) /\ SerialPartial(u[i], v[i]) # LexCmp(u[i], v[i])
     \* ... and the RRSIG signer by RFC 4034 6.1 name order while cmp uses the
     \* octet order of the lower-cased wire form
     \/ x = "RRSIG" /\ i = 8 /\ CanonNameCmp(u[8], v[8]) # NameLowerComposedCmp(u[8], v[8])
\* D_canon_cmp_name_order: canonical_cmp of SVCB / HTTPS (target) and IPSECKEY
\* (gateway name) orders the embedded name by RFC 4034 6.1 (labels from the
\* right, case folded) although the canonical form keeps it as plain octets
First3(c1, c2, c3) == IF c1 # 0 THEN c1 ELSE IF c2 # 0 THEN c2 ELSE c3
CanonImpl(x, u, v) ==
  IF x \in {"SVCB", "HTTPS"}
  THEN First3(LexCmp(u[1], v[1]), CanonNameCmp(u[2], v[2]),
              LexCmp(ComposeField(LayoutOf(x)[3], u[3]), ComposeField(LayoutOf(x)[3], v[3])))
  ELSE IF x = "IPSECKEY"
  THEN First3(LexCmp(u[1] \o <<u[2].gt, u[2].alg>>, v[1] \o <<v[2].gt, v[2].alg>>),
              IF u[2].gt = 3 THEN CanonNameCmp(u[2].gw, v[2].gw) ELSE LexCmp(u[2].gw, v[2].gw),
              LexCmp(u[3], v[3]))
  ELSE CanonRdCmp(x, u, v)
\* D_nsec_cmp_self_types: Nsec's cmp / partial_cmp / canonical_cmp compare
\* self.types with self.types: the type bitmap never matters
\* D_alldata_eq_opt_unknown: AllRecordData's == has no arm for Opt / Unknown
\* D_ipseckey_hash_none_todo: Hash for IpseckeyGateway::None is todo!()
RdDev(x, u, v) ==
  IF x = "IPSECKEY" /\ (u[2].gt = 0 \/ v[2].gt = 0)
  THEN [D_ipseckey_hash_none_todo |-> [panic |-> TRUE]]
  ELSE IF (x = "OPT" \/ x \notin KnownTypes) /\ RdEq(x, u, v)
  THEN [D_alldata_eq_opt_unknown |-> [RdExp(x, u, v) EXCEPT !.eq_all = FALSE]]
  ELSE IF x = "NSEC" /\ u[2] # v[2]
  THEN [D_nsec_cmp_self_types |-> [RdExp(x, u, v) EXCEPT
           !.canon = NameComposedCmp(u[1], v[1]),
           !.cmp0_all = NameEq(u[1], v[1]), !.cmp0_zone = NameEq(u[1], v[1])]]
  ELSE IF CanonImpl(x, u, v) # CanonRdCmp(x, u, v)
  THEN [D_canon_cmp_name_order |-> [RdExp(x, u, v) EXCEPT !.canon = CanonImpl(x, u, v)]]
  ELSE IF SerialMismatch(x, u, v)
  THEN [D_partial_cmp_vs_cmp |-> [RdExp(x, u, v) EXCEPT
           !.issues = <<"AllRecordData partial_cmp differs from cmp">>]]
  \* D_nsec3_partial_cmp_vs_cmp: Nsec3::partial_cmp orders salt and next hashed
  \* owner as plain octet strings, cmp (= canonical_cmp) by length octet first
  ELSE IF x = "NSEC3" /\ FirstDiff(u, v) \in {4, 5}
          /\ LexCmp(u[FirstDiff(u, v)], v[FirstDiff(u, v)])
               # LexCmp(LabelWire(u[FirstDiff(u, v)]), LabelWire(v[FirstDiff(u, v)]))
  THEN [D_nsec3_partial_cmp_vs_cmp |-> [RdExp(x, u, v) EXCEPT
           !.issues = <<"AllRecordData partial_cmp differs from cmp">>]]
  ELSE <<>>

\* Besides Record itself the executor looks at the other views of a record:
\*   hdr_eq     RecordHeader (owner, type, class, TTL, RDLENGTH): all fields
\*   parsed_eq  ParsedRecord (header + unparsed RDATA): header and RDATA octets
\*   q_eq       Question built from (owner, type, class)
\*   q_canon    canonical order of questions = octet order of the wire form
\*              with the name lower-cased
QWire(r) == ToWireAbs(LowerName(r.owner)) \o EncU16(r.code) \o EncU16(r.class)
RecExp(r, s) ==
  LET e == IF RecEqFree(r, s) THEN Free ELSE RecEqCore(r, s)
      hq == RecSameKey(r, s) /\ r.ttl = s.ttl /\ RdLen(r.t, r.val) = RdLen(s.t, s.val)
  IN [eq |-> e, cmp0 |-> e,
      canon |-> IF RecCanonPinned(r, s) THEN RecCanonCmp(r, s) ELSE Free,
      hdr_eq |-> hq,
      parsed_eq |-> hq /\ ComposeRd(r.t, r.val) = ComposeRd(s.t, s.val),
      q_eq |-> RecSameKey(r, s),
      q_canon |-> LexCmp(QWire(r), QWire(s)),
      hash_ok |-> TRUE, hash_ok_hq |-> TRUE, issues |-> <<>>]
\* D_record_hash_ttl: Record's == ignores the TTL, its Hash feeds it
\* D_alldata_eq_opt_unknown makes records with OPT / unknown data never equal
RecDev(r, s) ==
  IF RecEqCore(r, s) /\ (r.t = "OPT" \/ r.t \notin KnownTypes)
  THEN [D_alldata_eq_opt_unknown |-> [RecExp(r, s) EXCEPT !.eq = FALSE, !.cmp0 = TRUE]]
  ELSE IF RecEqCore(r, s) /\ r.ttl # s.ttl
  THEN [D_record_hash_ttl |-> [RecExp(r, s) EXCEPT !.hash_ok = FALSE]]
  \* D_unknown_eq_ignores_rtype: UnknownRecordData's == / cmp look at the data
  \* octets only, while the Hash of the record data enums feeds the type: two
  \* records of different unknown types with the same octets are == and hash
  \* differently
  ELSE IF r.class = s.class /\ NameEq(r.owner, s.owner) /\ r.code # s.code
          /\ r.t \notin KnownTypes /\ s.t \notin KnownTypes /\ r.val = s.val
  THEN [D_unknown_eq_ignores_rtype |-> [RecExp(r, s) EXCEPT !.eq = TRUE, !.cmp0 = TRUE, !.hash_ok = FALSE]]
  ELSE <<>>
=============================================================================
