CONSTANTS
  Dev = {"D_add_opt_not_atomic"}
SPECIFICATION USpec
INVARIANTS Laws
CHECK_DEADLOCK FALSE
