CONSTANTS
  Dev = {}
  TickMs = 10000
  Confs = {}
  MaxDgrams = 0
  Faults = {}
  MReqs = {1}
  MaxConn = 2
  MsConfs <- GMsConfs
  XConfs <- GXLoss
  OpNames <- LossOps
  TcOnly = TRUE
  Mode = "dgst"
  MaxOps = 24
  PathMode = TRUE
SPECIFICATION CSpec
VIEW CView
ACTION_CONSTRAINT Emit
INVARIANT MAtMostOnce
INVARIANT MOnTime
INVARIANT MOwn
INVARIANT MNoDup
INVARIANT MConnsSound
INVARIANT XNoTruncated
INVARIANT XAtMostOnce
INVARIANT XTcpOnlyAfterTc
INVARIANT XOnTime
INVARIANT XLegsSound
CHECK_DEADLOCK FALSE
