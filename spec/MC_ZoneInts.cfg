CONSTANTS
  Dev = {}
SPECIFICATION Spec
INVARIANT ReaderAgrees
CHECK_DEADLOCK FALSE
