--------------------------- MODULE Trace_MsgReader ---------------------------
(* I->S: a recorded run of the read battery on the real library.  Each       *)
(* `read` event carries the octets, the probed slice-iterator offsets and    *)
(* the projection the library produced; TLC recomputes the projection from   *)
(* the octets with Wire.tla and requires equality, component by component.   *)
(* Each `pair` event carries two octet strings and the pair projection the   *)
(* library produced (is_answer both ways, question sections / first / sole   *)
(* question compared, the client request types' is_answer, the reply started *)
(* for either message, copy_records into it, the transfer interpreter fed    *)
(* both); TLC recomputes it with MsgPair.tla.                                *)
(* `total` events are messages beyond the size cap: only "no panic, same     *)
(* twice" is claimed for them.  Deviations listed as open are passed as      *)
(* environment variables named like the deviation.                           *)
EXTENDS Naturals, Sequences, TLC, Json, IOUtils

Rec == ndJsonDeserialize(IOEnv.TRACE)

AllDevs == {"D_cname_ancount_overflow", "D_slice_iter_selfptr", "D_slice_iter_loop", "D_xfr_unreachable_qtype"}
OpenDevs == {d \in AllDevs : d \in DOMAIN IOEnv}

W == INSTANCE Wire WITH Dev <- OpenDevs
Ideal == INSTANCE Wire WITH Dev <- {}
P == INSTANCE MsgPair WITH Dev <- OpenDevs

VARIABLES l, used      \* position in the trace; deviations witnessed so far
tvars == <<l, used>>

IsEv(e) == l <= Len(Rec) /\ Rec[l].ev = e /\ l' = l + 1

Comps == {"hdr", "hdrx", "q", "an", "ns", "ar", "iter", "cname", "opt", "selfans", "sole", "xfr", "recat"}

\* The typed walks.  Where the specification does not know a type's layout
\* (<<"o">>) a value ("o") and an error ("e") are both acceptable, but the
\* same record must fare the same in every view that reads it by the same
\* layout: view 1 (limit_to::<AllRecordData>) takes every record, so its
\* j-th element belongs to the j-th item, and every other view except the
\* ZoneRecordData one (which reads pseudo-types as raw octets) must agree
\* with it on the items it takes.
ElemOk(e, o) == IF e = <<"o">> THEN o \in {<<"o">>, <<"e">>} ELSE e = o
WalkOk(e, o) == Len(e) = Len(o) /\ \A j \in 1..Len(e) : ElemOk(e[j], o[j])
ZoneViews == {i \in 1..Len(W!TViews) : W!TViews[i].d = "Zone"}
UndAgree(m, x, S, o) ==
  \A i \in (2..Len(W!TViews)) \ ZoneViews :
    LET idx == W!TIdx(W!TViews[i], S.sec[x], 1) IN
    \A j \in 1..Len(idx) : (o[1][idx[j]] \in {<<"o">>, <<"e">>} /\ o[i][j] \in {<<"o">>, <<"e">>}) => o[i][j] = o[1][idx[j]]
TypedOk(m, exp, obs) ==
  LET S == W!Sections(m) IN
  /\ Len(obs) = 3
  /\ \A x \in 1..3 :
       /\ Len(obs[x]) = Len(exp[x])
       /\ \A i \in 1..Len(exp[x]) : WalkOk(exp[x][i], obs[x][i])
       /\ Len(exp[x]) > 0 => UndAgree(m, x, S, obs[x])

\* per component the observation is what the property requires (idl) or,
\* for an open deviation, what the code does today (exp); a repaired
\* defect is therefore accepted without touching the list of findings
SlOk(exp, idl, obs) ==
  /\ Len(exp) = Len(obs)
  /\ \A i \in 1..Len(exp) : \/ exp[i] = obs[i]
                             \/ idl[i] = obs[i]
                             \/ (idl[i] = W!SlFinite /\ obs[i] >= 0)

Matches(m, exp, idl, obs) ==
  IF exp.short THEN obs = [short |-> TRUE]
  ELSE /\ DOMAIN obs = DOMAIN exp
       /\ obs.short = FALSE
       /\ \A c \in Comps : obs[c] = exp[c] \/ obs[c] = idl[c]
       /\ SlOk(exp.sl, idl.sl, obs.sl)
       /\ TypedOk(m, exp.typed, obs.typed)

TInit == l = 1 /\ used = {}

T_Read ==
  /\ IsEv("read")
  /\ LET exp == W!Projection(Rec[l].m, Rec[l].starts)
         idl == Ideal!Projection(Rec[l].m, Rec[l].starts)
         obs == Rec[l].proj
     IN /\ (IF Matches(Rec[l].m, exp, idl, obs) THEN TRUE ELSE FALSE)   \* one evaluation, no action splitting
        /\ used' = used \cup
             (IF exp.short THEN {}
              ELSE (IF obs.cname # idl.cname THEN {"D_cname_ancount_overflow"} ELSE {})
                   \cup (IF obs.xfr # idl.xfr THEN {"D_xfr_unreachable_qtype"} ELSE {})
                   \cup (IF \E i \in 1..Len(obs.sl) : obs.sl[i] = W!SlHang THEN {"D_slice_iter_selfptr"} ELSE {})
                   \cup (IF \E i \in 1..Len(obs.sl) : obs.sl[i] = W!SlUnbounded THEN {"D_slice_iter_loop"} ELSE {}))

T_Total ==
  /\ IsEv("total")
  /\ Rec[l].ok
  /\ Rec[l].cname_panic => "D_cname_ancount_overflow" \in OpenDevs
  /\ Rec[l].xfr_panic => "D_xfr_unreachable_qtype" \in OpenDevs
  /\ used' = used \cup (IF Rec[l].cname_panic THEN {"D_cname_ancount_overflow"} ELSE {})
                  \cup (IF Rec[l].xfr_panic THEN {"D_xfr_unreachable_qtype"} ELSE {})

\* the pair projection: every component is what MsgPair.tla says; feeding
\* the transfer interpreter may only panic where the open deviation says so
PairMatches(a, b, exp, obs) ==
  /\ DOMAIN obs = DOMAIN exp
  /\ \A c \in DOMAIN exp \ {"xfrseq"} : obs[c] = exp[c]
  /\ "xfrseq" \in DOMAIN exp =>
        \/ obs.xfrseq = "nopanic"
        \/ obs.xfrseq = "panic" /\ P!XfrSeq(a, b) = "panic"

T_Pair ==
  /\ IsEv("pair")
  /\ LET exp == P!PairProj(Rec[l].a, Rec[l].b)
         obs == Rec[l].proj
     IN /\ (IF PairMatches(Rec[l].a, Rec[l].b, exp, obs) THEN TRUE ELSE FALSE)
        /\ used' = used \cup (IF "xfrseq" \in DOMAIN obs /\ obs.xfrseq = "panic"
                                THEN {"D_xfr_unreachable_qtype"} ELSE {})

TNext == T_Read \/ T_Total \/ T_Pair
TSpec == TInit /\ [][TNext]_tvars

Accepted ==
  LET d == TLCGet("stats").diameter
  IN IF d = Len(Rec) + 1 THEN TRUE
     ELSE /\ PrintT("TRACE_REJECTED " \o ToJson([matched |-> d - 1, total |-> Len(Rec),
                      event |-> IF d <= Len(Rec) THEN Rec[d] ELSE [ev |-> "none"]]))
          /\ FALSE

\* printed once at the end so that the driver can report witnessed deviations
Witnessed == l = Len(Rec) + 1 => PrintT("WITNESSED " \o ToJson([devs |-> used]))
=============================================================================
