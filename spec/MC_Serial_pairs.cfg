\* all pairs at a larger width: state laws only (no transitions), addends
\* quantified in IQuantified for b = 0
CONSTANTS
  Sites <- SiteTable
  BITS = 11
SPECIFICATION GenSpec
INVARIANT ITypeOK
INVARIANT IAntisymmetric
INVARIANT IUndefExactly
INVARIANT IImplMatches
INVARIANT IImplAddMatches
INVARIANT IQuantified
CHECK_DEADLOCK FALSE
