---------------------------- MODULE Trace_Order ----------------------------
(* I->S for C04: every recorded comparison of the real library (random     *)
(* pairs of labels, names up to 255 octets, character strings, record data *)
(* of every type, records) is recomputed with the operators of Order.tla.  *)
EXTENDS Order, TLC, Json, IOUtils

Rec == ndJsonDeserialize(IOEnv.TRACE)

VARIABLES l, devs
tvars == <<l, devs>>

IsEv(e) == l <= Len(Rec) /\ Rec[l].ev = e /\ l' = l + 1
\* a panic of the library is recorded as {"panic": true}; except where a
\* deviation explains it (T_Rdata) no action matches such an event
NoPanic == "panic" \notin DOMAIN Rec[l]
Range(s) == {s[i] : i \in 1..Len(s)}

TInit == l = 1 /\ devs = {}
T_Devs == IsEv("devs") /\ devs' = Range(Rec[l].open)

Obs4(e) == [eq |-> e.eq, cmp |-> e.cmp, composed |-> e.composed, lcomposed |-> e.lcomposed,
            hash_ok |-> e.hash_ok, issues |-> e.issues]

T_Label == /\ IsEv("label") /\ NoPanic /\ UNCHANGED devs
           /\ LET e == Rec[l] IN
              Obs4(e) = [eq |-> LabelEq(e.a, e.b), cmp |-> CanonLabelCmp(e.a, e.b),
                         composed |-> LabelComposedCmp(e.a, e.b),
                         lcomposed |-> LabelLowerComposedCmp(e.a, e.b),
                         hash_ok |-> TRUE, issues |-> <<>>]

T_Name == /\ IsEv("name") /\ NoPanic /\ UNCHANGED devs
          /\ LET e == Rec[l]
                 m == FromWire(e.a, 1)
                 n == FromWire(e.b, 1)
             IN /\ m.ok /\ n.ok
                /\ Obs4(e) = NamePairExp(m.name, n.name)

T_CharStr == /\ IsEv("charstr") /\ NoPanic /\ UNCHANGED devs
             /\ LET e == Rec[l] IN
                [eq |-> e.eq, cmp0 |-> e.cmp0, canon |-> e.canon, hash_ok |-> e.hash_ok, issues |-> e.issues]
                = [eq |-> CharStrEq(e.a, e.b), cmp0 |-> CharStrEq(e.a, e.b),
                   canon |-> CharStrCanonCmp(e.a, e.b), hash_ok |-> TRUE, issues |-> <<>>]

\* an observation matches the ideal expectation or that of an open deviation
Matches(o, exp, dev) == o = exp \/ \E d \in DOMAIN dev : d \in devs /\ o = dev[d]

T_Rdata ==
  /\ IsEv("rdata") /\ UNCHANGED devs
  /\ LET e == Rec[l]
         x == MnemonicOf(e.rtype)
         ra == ParseRd(x, e.a)
         rb == ParseRd(x, e.b)
     IN IF ~ra.ok \/ ~rb.ok
        \* an operand the library accepted although it breaks an RFC content rule
        \* (e.g. a non-minimal type bitmap) has no abstract value: not judged.
        \* An operand with no reading at all must not have been accepted.
        THEN (ra.ok \/ ~ra.hard) /\ (rb.ok \/ ~rb.hard)
        ELSE
           IF "panic" \in DOMAIN e
           THEN Matches([panic |-> TRUE], [panic |-> FALSE], RdDev(x, ra.val, rb.val))
           ELSE
           LET free == RdEqFree(x, ra.val, rb.val)
               fa == free /\ e.eq_all = e.cmp0_all         \* not pinned: coherence only
               fz == free /\ e.eq_zone = e.cmp0_zone
               o == [eq_all |-> IF fa THEN Free ELSE e.eq_all, cmp0_all |-> IF fa THEN Free ELSE e.cmp0_all,
                     eq_zone |-> IF fz THEN Free ELSE e.eq_zone, cmp0_zone |-> IF fz THEN Free ELSE e.cmp0_zone,
                     canon |-> e.canon, canon_octets |-> e.canon_octets,
                     hash_ok |-> e.hash_ok, issues |-> e.issues]
           IN Matches(o, RdExp(x, ra.val, rb.val), RdDev(x, ra.val, rb.val))

RecOf(j) == LET x == MnemonicOf(j.rtype)
                n == FromWire(j.owner, 1)
                r == ParseRd(x, j.rd)
            IN [ok |-> n.ok /\ r.ok, hard |-> ~n.ok \/ (~r.ok /\ r.hard), class |-> j.class, owner |-> IF n.ok THEN n.name ELSE <<>>,
                ttl |-> j.ttl, code |-> j.rtype, t |-> x, val |-> IF r.ok THEN r.val ELSE <<>>]
\* as in T_Rdata: a record whose data the library accepted although it breaks
\* an RFC content rule has no abstract value and is not judged; one with no
\* reading at all must not have been accepted
NotJudged(r, s) == (r.ok \/ ~r.hard) /\ (s.ok \/ ~s.hard)
T_Record ==
  /\ IsEv("record") /\ NoPanic /\ UNCHANGED devs
  /\ LET e == Rec[l]
         r == RecOf(e.a)
         s == RecOf(e.b)
     IN IF ~r.ok \/ ~s.ok THEN NotJudged(r, s) ELSE
        /\ LET free == RecEqFree(r, s) /\ e.eq = e.cmp0
               o == [eq |-> IF free THEN Free ELSE e.eq, cmp0 |-> IF free THEN Free ELSE e.cmp0,
                     canon |-> IF RecCanonPinned(r, s) THEN e.canon ELSE Free,
                     hdr_eq |-> e.hdr_eq, parsed_eq |-> e.parsed_eq,
                     q_eq |-> e.q_eq, q_canon |-> e.q_canon,
                     hash_ok |-> e.hash_ok, hash_ok_hq |-> e.hash_ok_hq, issues |-> e.issues]
           IN Matches(o, RecExp(r, s), RecDev(r, s))

\* two records, their data in representation e.rep (held differently on the
\* two sides; "ext": a record data type outside the library that answers
\* e.xans across types): the order is the pinned one whatever the data type
\* answers across types
T_XRecord ==
  /\ IsEv("xrecord") /\ NoPanic /\ UNCHANGED devs
  /\ LET e == Rec[l]
         r == RecOf(e.a)
         s == RecOf(e.b)
     IN IF ~r.ok \/ ~s.ok THEN NotJudged(r, s) ELSE
        /\ e.rep \in DataReps /\ IsSign(e.xans)
        /\ RecRepLawM(e.rep, e.xans, r, s, {})
        /\ LET free == RecEqFree(r, s) /\ e.eq = e.cmp0
               o == [eq |-> IF free THEN Free ELSE e.eq, cmp0 |-> IF free THEN Free ELSE e.cmp0,
                     canon |-> IF RecCanonPinned(r, s) THEN e.canon ELSE Free,
                     hash_ok |-> e.hash_ok, issues |-> e.issues]
           IN o = XrecExp(e.rep, r, s)

\* a name through a carrier (Order.tla): the recorded answers are those of
\* the denoted name, whatever the carrier
T_Carrier == /\ IsEv("carrier") /\ NoPanic /\ UNCHANGED devs
             /\ LET e == Rec[l] IN
                /\ WfAbs(e.c)
                /\ CarrierLaw(e.c)
                /\ [compose |-> e.compose, canon |-> e.canon, len |-> e.len, labels |-> e.labels,
                    rrsig_labels |-> e.rrsig_labels, is_root |-> e.is_root,
                    hash_ok |-> e.hash_ok, issues |-> e.issues] = NameObs(Denote(e.c))
T_RCarrier == /\ IsEv("rcarrier") /\ NoPanic /\ UNCHANGED devs
              /\ LET e == Rec[l] IN
                 /\ WfRelTop(e.c)
                 /\ RelCarrierLaw(e.c)
                 /\ [compose |-> e.compose, canon |-> e.canon, len |-> e.len, labels |-> e.labels,
                     is_empty |-> e.is_empty, with_root |-> e.with_root, issues |-> e.issues]
                      = RelObs(RelLabels(e.c))
T_CPair == /\ IsEv("cpair") /\ NoPanic /\ UNCHANGED devs
           /\ LET e == Rec[l] IN
              /\ WfAbs(e.a) /\ WfAbs(e.b)
              /\ Obs4(e) = NamePairExp(Denote(e.a), Denote(e.b))

CrdObs(e, free) ==
  [compose |-> e.compose, canon_wire |-> e.canon_wire, rdlen |-> e.rdlen,
   eq |-> IF free THEN Free ELSE e.eq, canon |-> e.canon, issues |-> e.issues]
T_Crdata ==
  /\ IsEv("crdata") /\ NoPanic /\ UNCHANGED devs
  /\ LET e == Rec[l]
         x == MnemonicOf(e.rtype)
         ra == ParseRd(x, e.a)
         rb == ParseRd(x, e.b)
     IN IF ~ra.ok \/ ~rb.ok
        THEN (ra.ok \/ ~ra.hard) /\ (rb.ok \/ ~rb.hard)      \* as in T_Rdata: not judged
        ELSE /\ Carries(x, ra.val, e.cs)
             /\ CarriedRdLawM(x, ra.val, e.cs, {})
             /\ Matches(CrdObs(e, RdEqFree(x, ra.val, rb.val)),     \* == not pinned there
                        CrdExp(x, ra.val, rb.val), CrdDev(x, ra.val, rb.val))
T_Crecord ==
  /\ IsEv("crecord") /\ NoPanic /\ UNCHANGED devs
  /\ LET e == Rec[l]
         r == RecOf(e.a)
         s == RecOf(e.b)
     IN IF ~r.ok \/ ~s.ok THEN NotJudged(r, s) ELSE
        /\ WfAbs(e.oc) /\ Denote(e.oc) = r.owner /\ Carries(r.t, r.val, e.cs)
        /\ CarriedRecLawM(r, e.oc, e.cs, {})
        /\ LET o == [compose |-> e.compose, canon_wire |-> e.canon_wire, hdr_canon |-> e.hdr_canon,
                     canon |-> IF RecCanonPinned(r, s) THEN e.canon ELSE Free,
                     issues |-> e.issues]
           IN o = CrecExp(r, s)

TNext == T_Devs \/ T_Label \/ T_Name \/ T_CharStr \/ T_Rdata \/ T_Record \/ T_XRecord
           \/ T_Carrier \/ T_RCarrier \/ T_CPair \/ T_Crdata \/ T_Crecord
TSpec == TInit /\ [][TNext]_tvars

Accepted ==
  LET d == TLCGet("stats").diameter
  IN IF d = Len(Rec) + 1 THEN TRUE
     ELSE /\ PrintT("TRACE_REJECTED " \o ToJson([matched |-> d - 1, total |-> Len(Rec),
                      event |-> IF d <= Len(Rec) THEN Rec[d] ELSE [ev |-> "none"]]))
          /\ FALSE
=============================================================================
