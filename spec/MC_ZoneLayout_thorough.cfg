CONSTANTS
  MapDevs = {}
  Dev = {}
  MaxEntries = 3
SPECIFICATION Spec
VIEW View
INVARIANT Metamorphic
INVARIANT ReaderContextAgrees
CHECK_DEADLOCK FALSE
