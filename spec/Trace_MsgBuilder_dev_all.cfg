CONSTANTS
  Dev = {"D_ptr_limit_c000", "D_opt_rcode_sticks"}
SPECIFICATION TSpec
INVARIANT TraceInv
POSTCONDITION Accepted
CHECK_DEADLOCK FALSE
