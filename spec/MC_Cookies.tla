---------------------------- MODULE MC_Cookies ----------------------------
(* Exhaustive exploration of the cookies middleware machine: every        *)
(* configuration x clock value x request of the grid below.               *)
EXTENDS Cookies, TLC

CONSTANTS NowAll      \* TRUE: the clock takes every value 0..Mod-1;
                      \* FALSE: the boundary values below

Secrets  == {"s1", "s2"}
IPs      == {"a", "b", "c"}            \* a, b: IPv4; c: IPv6
DenySets == {{}, {"a", "c"}}
OtherSecret(s) == IF s = "s1" THEN "s2" ELSE "s1"
OtherIp(i) == IF i = "a" THEN "b" ELSE "a"

NowSet == IF NowAll THEN 0 .. Mod - 1
          ELSE {0, 1, Future, Past, Half - 1, Half, Half + 1, Half + Past,
                Mod - Past - 1, Mod - Past, Mod - Future, Mod - 1}

\* timestamp - now: both sides of every boundary the two comparisons of
\* timestamp_ok have (window ends, the wrong-way-round window, the RFC 1982
\* undefined distance of either comparison)
DeltaBases == {0, Future, 0 - Past, Half, Half - Past, Half + Future, 0 - Future, Past}
Deltas == {b + k : b \in DeltaBases, k \in {-1, 0, 1}}

\* which input of the hash differs from what the server will use
Mism == {"none", "secret", "cc", "ver", "rsv", "ts", "ip", "junk"}

OtherCc(x) == IF x = "c1" THEN "c2" ELSE "c1"
StdCookieCc(c, t, ip, cc, v, r, d, m) ==
  LET ts == (t + d) % Mod
  IN Ck(24, cc, v, r, ts,
        IF m = "junk" THEN Junk
        ELSE Hash(IF m = "secret" THEN OtherSecret(c.secret) ELSE c.secret,
                  IF m = "cc" THEN OtherCc(cc) ELSE cc,
                  IF m = "ver" THEN 3 - v ELSE v,
                  IF m = "rsv" THEN 1 - r ELSE r,
                  IF m = "ts" THEN (ts + 1) % Mod ELSE ts,
                  IF m = "ip" THEN OtherIp(ip) ELSE ip))
StdCookie(c, t, ip, v, r, d, m) == StdCookieCc(c, t, ip, "c1", v, r, d, m)

OddLens == {0, 7, 8, 9, 15, 16, 23, 25, 40, 41}
Odd(len) == Ck(len, "c1", 0, 0, TZero, Junk)

CookieLists(c, t, ip) ==
  {<<>>}
  \cup {<<Odd(n)>> : n \in OddLens}
  \cup {<<StdCookie(c, t, ip, v, r, d, m)>> : v \in {1, 2}, r \in {0, 1}, d \in Deltas, m \in Mism}
  \* only the first COOKIE option counts (RFC 7873 5.2)
  \cup {<<StdCookie(c, t, ip, 1, 0, 0, "none"), Odd(7)>>,
        <<Odd(7), StdCookie(c, t, ip, 1, 0, 0, "none")>>,
        <<Odd(8), StdCookie(c, t, ip, 1, 0, 0, "none")>>,
        <<StdCookie(c, t, ip, 1, 0, 0, "junk"), StdCookie(c, t, ip, 1, 0, 0, "none")>>}

ReqGrid(c, t) ==
  UNION {{[udp |-> u, ip |-> i, qd |-> q, opt |-> "ok", cks |-> l] :
             u \in BOOLEAN, q \in {0, 1}, l \in CookieLists(c, t, i)} : i \in IPs}
  \cup {[udp |-> u, ip |-> i, qd |-> q, opt |-> o, cks |-> <<>>] :
       u \in BOOLEAN, i \in IPs, q \in {0, 1}, o \in {"none", "bad"}}

Init == InitWith("s1", 0)

\* (the guard comes first: TLC must not build the request grid in states
\* in which no call can start)
DoNew    == phase = "idle" /\ \E s \in Secrets : New(s)
DoDeny   == phase = "idle" /\ \E D \in DenySets : WithDeniedIps(D)
DoEnable == phase = "idle" /\ \E b \in BOOLEAN : Enable(b)
DoClock  == phase = "idle" /\ \E t \in NowSet : ClockSet(t)
DoCall   == phase = "idle" /\ \E r \in ReqGrid(cfg, now) : Call(r)
DoDone   == phase = "called" /\ Done
Next == DoNew \/ DoDeny \/ DoEnable \/ DoClock \/ DoCall \/ DoDone

Spec == Init /\ [][Next]_vars

TimeLawOnce == (phase = "idle" /\ now = 0 /\ cfg = NewCfg("s1")) => TimeLaw

\* vacuity guards (expected to be violated)
NeverPassDenied == ~(Called /\ cfg.enabled /\ Denied(cfg, req) /\ out.act = "pass")
NeverBadCookie == ~(Called /\ out.rcode = "BADCOOKIE")
=============================================================================
