-------------------------- MODULE MC_KeyMaterial --------------------------
(* Model checking of KeyMaterial.tla and the S->I case generators.        *)
(* Mode selects the part explored:                                         *)
(*   "laws"   one state; the flag / key tag / DS / pairing laws quantified  *)
(*            over the configured finite domains                           *)
(*   "priv"   private key files built line by line (reader machine =       *)
(*            documented grammar, round trip)                              *)
(*   "pub"    public key file texts built symbol by symbol                 *)
(*   "anchor" the TrustAnchors machine                                     *)
EXTENDS KeyMaterial, Json

CONSTANTS Mode, MaxLines, MaxSyms, MaxAdds, TagKeyLen,
          LineSet     \* "full" | "small": the line alphabet of the "priv" mode

AsBuilt == INSTANCE KeyMaterial WITH Dev <- DevNames

VARIABLES file,      \* "priv": the lines so far
          st,        \* "priv": reader machine state after these lines
          text,      \* "pub": the symbols so far
          anch,      \* "anchor": TrustAnchors state
          hist       \* "anchor": the add calls so far (sequence of record sequences)
vars == <<file, st, text, anch, hist>>

--------------------------------------------------------------------------
(* finite domains *)

RECURSIVE SeqsUpTo(_, _)
SeqsUpTo(S, n) == IF n = 0 THEN {<<>>}
                  ELSE LET P == SeqsUpTo(S, n - 1)
                       IN P \cup {Append(p, x) : p \in {q \in P : Len(q) = n - 1}, x \in S}

FlagSamples == {0, 1, 127, 128, 129, 255, 256, 257, 384, 385, 511, 32768, 65407, 65535}
ProtoSamples == {3, 0, 255}
AlgSamples == {1, 5, 8, 13, 15, 253, 255}
KeyOcts == {0, 1, 128, 255}
LongKeys == {[i \in 1..n |-> 255] : n \in {255, 256, 257, 1030}}
            \cup {[i \in 1..300 |-> (i * 37) % 256]}
TagKeys == {[flags |-> f, proto |-> p, alg |-> a, pub |-> k] :
              f \in FlagSamples, p \in ProtoSamples, a \in AlgSamples,
              k \in SeqsUpTo(KeyOcts, TagKeyLen)}
           \cup {[flags |-> f, proto |-> 3, alg |-> a, pub |-> k] :
                   f \in {256, 257, 385, 65535}, a \in {1, 8}, k \in LongKeys}

\* DS: owners with case variants and near misses, keys with single-field changes
La == <<97>>  LA == <<65>>  Lb == <<98>>  Lab == <<97, 98>>  LaB == <<97, 66>>
DsOwners == {<<>>, <<La>>, <<LA>>, <<Lb>>, <<Lab>>, <<LaB>>, <<La, Lb>>, <<LA, Lb>>,
             <<La, La>>, <<Lab, Lb>>, <<La, Lb, Lb>>}
DsBaseKey == [flags |-> 257, proto |-> 3, alg |-> 13, pub |-> <<1, 2, 3, 4>>]
DsKeys == {DsBaseKey,
           [DsBaseKey EXCEPT !.flags = 256], [DsBaseKey EXCEPT !.flags = 385],
           [DsBaseKey EXCEPT !.proto = 2], [DsBaseKey EXCEPT !.alg = 14],
           [DsBaseKey EXCEPT !.pub = <<1, 2, 3, 5>>], [DsBaseKey EXCEPT !.pub = <<1, 2, 3>>],
           [DsBaseKey EXCEPT !.pub = <<2, 1, 3, 4>>], [DsBaseKey EXCEPT !.pub = <<3, 2, 1, 4>>],
           \* moving an octet across the owner / RDATA or field boundaries
           [DsBaseKey EXCEPT !.pub = <<1, 2, 3, 4, 0>>],
           [flags |-> 1, proto |-> 3, alg |-> 13, pub |-> <<1, 2, 3, 4>>]}
DsTypes == {1, 2, 4, 3, 0}

\* private key files
PrivAlgs == {8, 13, 14, 15, 16}
SmallLines == {Blank, Junk, Fmt("v1.2"), Fmt("v1.1"), Alg(15, "ED25519"), Alg(15, "ED448"),
               Alg(8, "RSASHA256"), Field("PrivateKey", "key"), Field("PrivateKey", "m1"),
               Field("Created", "key"), Field(RsaFields[1], "key")}
PrivLines == IF LineSet = "small" THEN SmallLines ELSE
  {Blank, Junk, Fmt("v1.2"), Fmt("v1.3"), Fmt("v1.1"), Fmt("v2.0"),
   Alg(15, "ED25519"), Alg(15, "ED448"), Alg(13, "ECDSAP256SHA256"), Alg(5, "RSASHA1"),
   Alg(8, "RSASHA256"),
   Field("PrivateKey", "key"), Field("PrivateKey", "m1"), Field("PrivateKey", "bad"),
   Field("Created", "key")}
  \cup {Field(RsaFields[i], "key") : i \in 1..Len(RsaFields)}
  \cup {Field(RsaFields[1], "bad"), Field(RsaFields[1], "m1")}

Syms == {"R", "N", "S", "C", "X"}

\* trust anchors
ANameSeq == <<<<>>, <<La>>, <<LA>>, <<Lb>>, <<La, Lb>>, <<LA, Lb>>, <<Lb, Lb>>, <<La, La, Lb>>, <<Lab, Lb>>>>
ANames == {ANameSeq[i] : i \in 1..Len(ANameSeq)}
AOwners == {<<>>, <<Lb>>, <<La, Lb>>, <<LA, Lb>>, <<La>>}
ARecs(n) == {[owner |-> o, kind |-> k, id |-> n] : o \in AOwners, k \in {"DS", "DNSKEY"}}

--------------------------------------------------------------------------
Init == /\ file = <<>> /\ st = RInit /\ text = <<>> /\ anch = AInit /\ hist = <<>>

ReadLine(l) == /\ Mode = "priv" /\ Len(file) < MaxLines
               /\ file' = Append(file, l) /\ st' = RStep(st, l)
               /\ UNCHANGED <<text, anch, hist>>
PushSym(c) == /\ Mode = "pub" /\ Len(text) < MaxSyms
              /\ text' = Append(text, c)
              /\ UNCHANGED <<file, st, anch, hist>>
AddText(rrs) == /\ Mode = "anchor" /\ Len(hist) < MaxAdds
                /\ anch' = AddRecs(anch, rrs) /\ hist' = Append(hist, rrs)
                /\ UNCHANGED <<file, st, text>>
Laws == Mode = "laws" /\ UNCHANGED vars

AddOne == \E r1 \in ARecs(Len(hist) * 2 + 1) : AddText(<<r1>>)
AddTwo == \E r1 \in ARecs(Len(hist) * 2 + 1), r2 \in ARecs(Len(hist) * 2 + 2) : AddText(<<r1, r2>>)
Next == \/ \E l \in PrivLines : ReadLine(l)
        \/ \E c \in Syms : PushSym(c)
        \/ AddOne
        \/ AddTwo
        \/ Laws
Spec == Init /\ [][Next]_vars

--------------------------------------------------------------------------
(* invariants *)

\* "laws"
FlagLaws == Mode = "laws" => \A f \in 0..65535 : FlagsAgree(f)
TagLaws  == Mode = "laws" => \A k \in TagKeys :
               /\ TagAgree(k) /\ RevokeLaw(k)
               /\ \A f \in {0, 257} : B1IgnoresHeader(k, f)
\* the carry of Appendix B is exercised: some key accumulates beyond 16 bits,
\* and both REVOKE increments occur
TagLawsNonVacuous == Mode = "laws" =>
   /\ \E k \in TagKeys : k.alg # 1 /\ AppBAcc(DnskeyRdata(k), 1) > 65535
   /\ \E k \in TagKeys : k.alg # 1 /\ ~IsRevoked(k.flags) /\
        KeyTag([k EXCEPT !.flags = SetRevoke(k.flags)]) = (KeyTag(k) + 129) % 65536
DsLaws == Mode = "laws" =>
   \A o1 \in DsOwners, k1 \in DsKeys :
      /\ \A dt \in {1, 2, 4} : DsMatches(MkDs(o1, k1, dt), o1, k1)
      /\ \A dt \in {0, 3} : ~DsMatches(MkDs(o1, k1, dt), o1, k1)
      /\ \A o2 \in DsOwners, k2 \in DsKeys :
            \* the digest input identifies owner (up to case) and key ...
            /\ (DsInput(o1, k1) = DsInput(o2, k2)) <=> (NameEq(o1, o2) /\ k1 = k2)
            \* ... so a DS matches exactly the key it was made for
            /\ DsMatches(MkDs(o1, k1, 2), o2, k2) <=> (NameEq(o1, o2) /\ k1 = k2)
PairSecs == {[alg |-> a, id |-> 1] : a \in {8, 13, 14, 15}}
PairPubs(sec) == {[flags |-> f, proto |-> p, alg |-> a, key |-> k] :
                    f \in {256, 257}, p \in {3, 0}, a \in {8, 10, 13, 14, 15, 16, 253},
                    k \in {<<"pub", 1>>, <<"pub", 2>>, <<"flip", 1>>, <<"short", 1>>}}
PairLaws == Mode = "laws" => \A s \in PairSecs : \A p \in PairPubs(s) :
               \* what is accepted today is a superset of what belongs together
               PairBelongs(s, p) => PairImpl(s, p)

\* "priv": the machine is the documented grammar; the writer's output reads back
PrivMachineIsGrammar == Mode = "priv" => RFinish(st) = PrivOracle(file)
PrivAsBuiltMachineIsGrammar == Mode = "priv" =>
   AsBuilt!RFinish(AsBuilt!RRun(AsBuilt!RInit, file)) = AsBuilt!PrivOracle(file)
PrivIncremental == Mode = "priv" => st = RRun(RInit, file)
PrivErrSticky == [][st.ph = "err" => st'.ph = "err"]_vars
PrivRoundTrip == (Mode = "priv" /\ file = <<>>) => \A a \in PrivAlgs : RoundTripPriv(a)
PrivBlankIrrelevant == Mode = "priv" => ReadPriv(NonBlank(file)) = ReadPriv(file)

\* "pub": the repaired reader is the documented grammar; the reader as built
\* accepts nothing more
PubReaderIsGrammar == Mode = "pub" => ImplPub(text) = PubAccepts(text)
PubAsBuiltSubset   == Mode = "pub" => (AsBuilt!ImplPub(text) => PubAccepts(text))

\* "anchor"
Flat(h) == Concat(h)
AnchorLaws == Mode = "anchor" =>
   /\ OneAnchorPerOwner(anch)
   /\ KeepsAll(anch, Flat(hist))
   /\ \A n \in ANames : FindOk(anch, n)

--------------------------------------------------------------------------
(* S->I generators *)

DevOf(name, ideal, built) == IF ideal = built THEN [none |-> TRUE] ELSE name :> built

First == file = <<>> /\ text = <<>> /\ hist = <<>>

EmitFlags == (Mode = "laws") => \A f \in 0..65535 :
   PrintT("CASE " \o ToJson([in |-> [kind |-> "flags", flags |-> f],
                             exp |-> [zone |-> IsZoneKey(f), revoked |-> IsRevoked(f), sep |-> IsSep(f)]]))
EmitTags == (Mode = "laws") => \A k \in TagKeys :
   PrintT("CASE " \o ToJson([in |-> [kind |-> "keytag", key |-> k],
                             exp |-> [tag |-> KeyTag(k),
                                      revoked_tag |-> KeyTag([k EXCEPT !.flags = SetRevoke(k.flags)])]]))
SkKeys == {[flags |-> f, proto |-> 3, alg |-> 15, pub |-> <<7, 7, 7, 7>>] : f \in {0, 256, 257, 384}}
EmitSigningKey == (Mode = "laws") => \A k \in SkKeys : \A f \in {0, 256, 257, 385} :
   LET want == SigningKeyDnskey(f, k)
       built == AsBuilt!SigningKeyDnskey(f, k)
       obs(d) == [flags |-> f, zone |-> IsZoneKey(f), revoked |-> IsRevoked(f), sep |-> IsSep(f),
                  dnskey_flags |-> d.flags, dnskey_tag |-> KeyTag(d)]
   IN PrintT("CASE " \o ToJson([in |-> [kind |-> "signingkey", inner |-> k, flags |-> f],
                                exp |-> obs(want),
                                dev |-> DevOf("D_signingkey_flags_detached", obs(want), obs(built))]))
EmitDs == (Mode = "laws") => \A o1 \in DsOwners : \A dt \in DsTypes : \A o2 \in DsOwners : \A k2 \in DsKeys :
   \* quick enough: |owners|^2 * |keys| * |types|
   PrintT("CASE " \o ToJson([in |-> [kind |-> "ds", owner |-> o1, key |-> DsBaseKey, dt |-> dt,
                                     owner2 |-> o2, key2 |-> k2,
                                     term |-> DsDigest(o1, DsBaseKey, dt)],
                             exp |-> IF DigestName(dt) = "none" THEN [unsupported |-> TRUE]
                                     ELSE [digest_ok |-> TRUE,
                                           match |-> DsMatches(MkDs(o1, DsBaseKey, dt), o2, k2)]]))
EmitPairs == (Mode = "laws") => \A s \in PairSecs : \A p \in PairPubs(s) :
   PrintT("CASE " \o ToJson([in |-> [kind |-> "pair", sec |-> s, pub |-> p],
                             exp |-> PairExp(s, p),
                             dev |-> DevOf("D_frombytes_alg_unchecked", PairExp(s, p), PairDev(s, p))]))
AnchorShapes == {[class |-> c, finalnl |-> n, ttl |-> t, api |-> a] :
                   c \in BOOLEAN, n \in BOOLEAN, t \in BOOLEAN, a \in {"from_u8", "from_reader", "add_u8"}}
EmitAnchorText == (Mode = "laws") => \A s \in AnchorShapes :
   PrintT("CASE " \o ToJson([in |-> [kind |-> "anchortext", shape |-> s],
                             exp |-> [ok |-> AnchorTextOk(s)],
                             dev |-> DevOf("D_anchor_reader_strict", [ok |-> AnchorTextOk(s)],
                                           [ok |-> AsBuilt!AnchorTextOk(s)])]))
EmitWrite == (Mode = "laws") => \A a \in PrivAlgs :
   PrintT("CASE " \o ToJson([in |-> [kind |-> "privwrite", alg |-> a],
                             exp |-> [lines |-> WritePriv(a), back |-> ReadPriv(WritePriv(a))]]))

RemoveAt(q, i) == SubSeq(q, 1, i - 1) \o SubSeq(q, i + 1, Len(q))
InsertAt(q, i, x) == SubSeq(q, 1, i - 1) \o <<x>> \o SubSeq(q, i, Len(q))
Rotate(q, r) == SubSeq(q, r + 1, Len(q)) \o SubSeq(q, 1, r)
RsaBody == [i \in 1..Len(RsaFields) |-> Field(RsaFields[i], "key")]
RsaHead(a) == <<Fmt("v1.2"), Alg(a, AlgName(a))>>
RsaFiles ==
  {RsaHead(a) \o RsaBody : a \in {8, 10}}
  \cup {RsaHead(8) \o Rotate(RsaBody, r) : r \in 1..(Len(RsaBody) - 1)}
  \cup {RsaHead(8) \o RemoveAt(RsaBody, i) : i \in 1..Len(RsaBody)}
  \cup {RsaHead(8) \o RsaBody \o <<RsaBody[i]>> : i \in 1..Len(RsaBody)}
  \cup {RsaHead(8) \o [RsaBody EXCEPT ![i].v = t] : i \in 1..Len(RsaBody), t \in {"bad", "m1", "empty"}}
  \cup {InsertAt(RsaHead(10) \o RsaBody, p, x) : p \in 1..(Len(RsaBody) + 3),
           x \in {Junk, Blank, Field("Created", "key"), Fmt("v1.2")}}
  \cup {<<Fmt("v1.2"), Alg(8, "RSASHA512")>> \o RsaBody, <<Fmt("v1.2"), Alg(5, "RSASHA1")>> \o RsaBody,
        <<Fmt("v1.2"), Alg(13, "ECDSAP256SHA256")>> \o RsaBody}
EmitPrivRsa == (Mode = "laws") => \A f \in RsaFiles :
   PrintT("CASE " \o ToJson([in |-> [kind |-> "priv", file |-> f],
                             exp |-> ReadPriv(f),
                             dev |-> DevOf("D_pkey_rest_unparsed", ReadPriv(f), AsBuilt!ReadPriv(f))]))
RsaDirectedLaw == (Mode = "laws") => \A f \in RsaFiles : ReadPriv(f) = PrivOracle(f)
RsaFields2 == <<"Modulus", "PublicExponent">>
EmitPriv == (Mode = "priv") =>
   PrintT("CASE " \o ToJson([in |-> [kind |-> "priv", file |-> file],
                             exp |-> ReadPriv(file),
                             dev |-> DevOf("D_pkey_rest_unparsed", ReadPriv(file), AsBuilt!ReadPriv(file))]))
EmitPub == (Mode = "pub") =>
   PrintT("CASE " \o ToJson([in |-> [kind |-> "pub", text |-> text],
                             exp |-> [ok |-> PubAccepts(text)],
                             dev |-> DevOf("D_pubkey_trailing_blank", [ok |-> PubAccepts(text)],
                                           [ok |-> AsBuilt!ImplPub(text)])]))
\* one behaviour per reachable history: the add calls, and after every call
\* the anchor found for every probe name
RECURSIVE Prefixes(_, _)
Prefixes(h, i) == IF i > Len(h) THEN <<>>
                  ELSE <<LET as == AddRecs(AInit, Concat(SubSeq(h, 1, i)))
                         IN [j \in 1..Len(ANameSeq) |->
                               [name |-> ANameSeq[j], found |-> FoundOwner(as, ANameSeq[j])]]>>
                       \o Prefixes(h, i + 1)
EmitAnchors == (Mode = "anchor" /\ Len(hist) = MaxAdds) =>
   PrintT("CASE " \o ToJson([in |-> [kind |-> "anchors", ops |-> hist, probes |-> ANameSeq],
                             exp |-> [steps |-> Prefixes(hist, 1)]]))
=============================================================================
