CONSTANTS
  Dev = {}
  Big = FALSE
SPECIFICATION Spec
INVARIANT EmitCodec
CHECK_DEADLOCK FALSE
