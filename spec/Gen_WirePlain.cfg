CONSTANTS
  Dev = {}
  Big = FALSE
SPECIFICATION Spec
INVARIANT PlainIsUncompressed
INVARIANT PlainImpliesSkip
INVARIANT PlainRecordAgrees
INVARIANT NewRuleStricterP
INVARIANT EmitCodec
CHECK_DEADLOCK FALSE
