------------------------ MODULE Trace_ClientBalance ------------------------
(* I->S for redundant / load_balancer: runs of the real balancers over      *)
(* scripted upstreams (events: reset, add, submit, asked, resolve, done,    *)
(* tick, all seen from the harness: its own steps, the requests its mock    *)
(* upstreams received, the results its callers were handed) must be         *)
(* behaviours of the balancer leg of ClientCompose.  The harness acts only  *)
(* when everything has run until it waits, so before each of its steps      *)
(* nothing may be left that the specification says happens without waiting  *)
(* (BQuiescent): a request with no usable upstream is completed at once, an *)
(* upstream over its limit is skipped and not waited for, the first         *)
(* acceptable result completes the request.  A request future that panics  *)
(* is logged as a completion no rule accepts.                               *)
EXTENDS ClientCompose, Json, IOUtils

Rec == ndJsonDeserialize(IOEnv.TRACE)
VARIABLES l, b
tvars == <<l, b, dvars, ndg>>

DFrozen == /\ ndg = 0 /\ ph = "idle" /\ att = 0 /\ e = 0 /\ inq = <<>> /\ q = 0
           /\ fault = [kind |-> "none", at |-> 0] /\ sent = <<>> /\ done = <<>>
           /\ waited = 0 /\ conf = DConfOf(DgScript("new", <<>>))
Ev == Rec[l]
Is(k) == l <= Len(Rec) /\ Ev.ev = k /\ l' = l + 1 /\ UNCHANGED <<dvars, ndg>>

TInit == l = 1 /\ DFrozen /\ b = BInitState("lb", [de |-> FALSE, dr |-> FALSE, ds |-> FALSE], 1)

T_Reset   == Is("reset") /\ BQuiescent(b)
             /\ b' = BInitState(Ev.kind, [de |-> Ev.de, dr |-> Ev.dr, ds |-> Ev.ds], Ev.nreq)
\* an upstream is added with the ConnConfig a configuration script made
\* (calls; eff: what its getters said): the burst limit in force is what the
\* script leaves (`elapsed > burst_interval`)
T_Add     == /\ Is("add")
             /\ LET c == CcRun(Ev.calls)
                IN /\ Ev.eff = c
                   /\ b' = BAddOp(b, c.mb, TicksOver(c.iv, TickMs))
T_Submit  == Is("submit") /\ BQuiescent(b) /\ b.reqs[Ev.r].st = "none" /\ b' = BSubmitOp(b, Ev.r)
T_Asked   == Is("asked") /\ Ev.u \in 1..Len(b.ups) /\ Ev.r \in DOMAIN b.reqs
             /\ BAskedOk(b, Ev.u, Ev.r) /\ b' = BAskedOp(b, Ev.u, Ev.r)
T_Resolve == Is("resolve") /\ BQuiescent(b) /\ BResolveOk(b, Ev.u, Ev.r)
             /\ b' = BResolveOp(b, Ev.u, Ev.r, Ev.k)
T_Done    == /\ Is("done") /\ Ev.r \in DOMAIN b.reqs /\ BMustFinish(b, Ev.r)
             /\ LET f == BFinal(b, Ev.r)
                IN /\ Ev.ok = f.ok /\ Ev.own
                   /\ f.ok => (Ev.src = f.src /\ Ev.kind = f.kind)
             /\ b' = BDoneOp(b, Ev.r)
T_Tick    == Is("tick") /\ BQuiescent(b) /\ b' = BTickOp(b)

TNext == T_Reset \/ T_Add \/ T_Submit \/ T_Asked \/ T_Resolve \/ T_Done \/ T_Tick
TSpec == TInit /\ [][TNext]_tvars

BOwn        == BOwnOf(b)
BOnlyUsable == BOnlyUsableOf(b)
BFirstWins  == BFirstWinsOf(b)

Accepted ==
  LET d == TLCGet("stats").diameter
  IN IF d = Len(Rec) + 1 THEN TRUE
     ELSE /\ PrintT("TRACE_REJECTED " \o ToJson([matched |-> d - 1, total |-> Len(Rec),
                      event |-> IF d <= Len(Rec) THEN Rec[d] ELSE [ev |-> "none"]]))
          /\ FALSE
=============================================================================
