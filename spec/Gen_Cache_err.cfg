CONSTANTS
  Dev = {}
  Mut = {}
  Names = {"a.example"}
  Types = {"A"}
  Cases = {0}
  AdVals = {FALSE, TRUE}
  CdVals = {FALSE}
  DoVals = {FALSE, TRUE}
  RdVals = {FALSE, TRUE}
  WithBypass = FALSE
  Classes <- ErrOnly
  TtlVecs <- TV_Huge
  AdBits = {TRUE}
  Ticks <- TK_Err
  Configs <- CfgsTight
  MaxSteps = 3
SPECIFICATION GSpec
INVARIANT Emit
INVARIANT GProp
CHECK_DEADLOCK FALSE
