-------------------------- MODULE Gen_PresentTypes --------------------------
(* S->I grid for the type sweep of C06: every row of the harness's table of *)
(* hand-assembled wire RDATA (one row per zone record type, listed in the    *)
(* file IOEnv.TYPES) x every variant x display kind x origin, expectation:   *)
(* the record reads back equal.  The per-type wire layouts belong to         *)
(* Rdata.tla (C05); here the specification only states the round-trip law    *)
(* and the guards of the known deviations, as cells of this grid.            *)
EXTENDS Naturals, Sequences, TLC, Json, IOUtils

Rows == ndJsonDeserialize(IOEnv.TYPES)

VARIABLES row, var, kind, org
vars == <<row, var, kind, org>>

Kinds == {"simple", "tabbed", "multiline", "display"}
Owner == <<4, 104, 111, 115, 116, 7, 101, 120, 97, 109, 112, 108, 101, 0>>     \* host.example.
Origins == {<<>>, <<7, 101, 120, 97, 109, 112, 108, 101, 0>>}

Init == /\ row \in 1..Len(Rows) /\ var \in 0..(Rows[row].n - 1) /\ kind \in Kinds /\ org \in Origins
Next == UNCHANGED vars
Spec == Init /\ [][Next]_vars

OneName == {"NS", "CNAME", "PTR", "DNAME", "MD", "MF", "MB", "MG", "MR"}
Svc == {"SVCB", "HTTPS"}
\* variants whose names include the root / a label with '"', ';', '(', ')', '$'
RootCell(n, j) == \/ (n \in OneName /\ j = 0) \/ (n = "SOA" /\ j = 1) \/ (n = "MINFO" /\ j = 1)
                  \/ (n = "MX" /\ j = 0) \/ (n = "NAPTR" /\ j \in {0, 1}) \/ (n = "RRSIG" /\ j = 1)
                  \/ (n = "NSEC" /\ j = 1) \/ (n \in Svc /\ j \in {1, 2})
OddCell(n, j) == \/ (n \in OneName /\ j = 2) \/ (n = "SOA" /\ j = 2) \/ (n = "MINFO" /\ j = 0)
                 \/ (n = "MX" /\ j = 1) \/ (n = "SRV" /\ j = 1) \/ (n = "NAPTR" /\ j = 2)
                 \/ (n = "RRSIG" /\ j = 2) \/ (n = "NSEC" /\ j = 2)

CellDevs(n, j, k) ==
  (IF k = "display" /\ RootCell(n, j) THEN {"D_display_root_dot"} ELSE {})
  \cup (IF k = "display" /\ n = "SRV" /\ j \in {1, 2} THEN {"D_display_srv_target"} ELSE {})
  \cup (IF OddCell(n, j) THEN {"D_label_escape_set"} ELSE {})
  \cup (IF n \in Svc /\ j = 5 THEN {"D_svcb_alpn_escape"} ELSE {})
  \cup (IF n \in Svc /\ j = 7 THEN {"D_svcb_nodefaultalpn"} ELSE {})
  \cup (IF n \in Svc /\ j = 9 THEN {"D_svcb_value_escape"} ELSE {})
  \cup (IF n \in Svc /\ j = 15 THEN {"D_svcb_key_charset"} ELSE {})

Emit ==
  LET n == Rows[row].name
      inp == [type_case |-> <<Rows[row].i, var>>, tname |-> n, owner |-> Owner, kind |-> kind, origin |-> org]
      ds == CellDevs(n, var, kind)
  IN IF ds = {} THEN PrintT("CASE " \o ToJson([in |-> inp, exp |-> [lib |-> "eq"]]))
     ELSE PrintT("CASE " \o ToJson([in |-> inp, exp |-> [lib |-> "eq"], dev |-> [d \in ds |-> [lib |-> "neq"]]]))
=============================================================================
