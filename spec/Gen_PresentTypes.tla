-------------------------- MODULE Gen_PresentTypes --------------------------
(* S->I grid for the type sweep of C06: every row of the harness's table of *)
(* hand-assembled wire RDATA (one row per zone record type, listed in the    *)
(* file IOEnv.TYPES) x every variant x display kind x origin, expectation:   *)
(* the record reads back equal.  The per-type wire layouts belong to         *)
(* Rdata.tla (C05); here the specification only states the round-trip law    *)
(* and the guards of the known deviations, as cells of this grid.            *)
EXTENDS Naturals, Sequences, TLC, Json, IOUtils

Rows == ndJsonDeserialize(IOEnv.TYPES)

VARIABLES row, var, kind, org
vars == <<row, var, kind, org>>

Kinds == {"simple", "tabbed", "multiline", "display"}
Owner == <<4, 104, 111, 115, 116, 7, 101, 120, 97, 109, 112, 108, 101, 0>>     \* host.example.
Origins == {<<>>, <<7, 101, 120, 97, 109, 112, 108, 101, 0>>}

Init == /\ row \in 1..Len(Rows) /\ var \in 0..(Rows[row].n - 1) /\ kind \in Kinds /\ org \in Origins
Next == UNCHANGED vars
Spec == Init /\ [][Next]_vars

OneName == {"NS", "CNAME", "PTR", "DNAME", "MD", "MF", "MB", "MG", "MR"}
Svc == {"SVCB", "HTTPS"}
\* variants whose names include the root / a label with '"', ';', '(', ')', '$'
RootCell(n, j) == \/ (n \in OneName /\ j = 0) \/ (n = "SOA" /\ j = 1) \/ (n = "MINFO" /\ j = 1)
                  \/ (n = "MX" /\ j = 0) \/ (n = "NAPTR" /\ j \in {0, 1}) \/ (n = "RRSIG" /\ j = 1)
                  \/ (n = "NSEC" /\ j = 1) \/ (n \in Svc /\ j \in {1, 2})
OddCell(n, j) == \/ (n \in OneName /\ j = 2) \/ (n = "SOA" /\ j = 2) \/ (n = "MINFO" /\ j = 0)
                 \/ (n = "MX" /\ j = 1) \/ (n = "SRV" /\ j = 1) \/ (n = "NAPTR" /\ j = 2)
                 \/ (n = "RRSIG" /\ j = 2) \/ (n = "NSEC" /\ j = 2)

CellDevs(n, j, k) ==
  (IF k = "display" /\ RootCell(n, j) THEN {"D_display_root_dot"} ELSE {})
  \cup (IF k = "display" /\ n = "SRV" /\ j \in {1, 2} THEN {"D_display_srv_target"} ELSE {})
  \cup (IF OddCell(n, j) THEN {"D_label_escape_set"} ELSE {})
  \cup (IF n \in Svc /\ j = 5 THEN {"D_svcb_alpn_escape"} ELSE {})
  \cup (IF n \in Svc /\ j = 7 THEN {"D_svcb_nodefaultalpn"} ELSE {})
  \cup (IF n \in Svc /\ j = 9 THEN {"D_svcb_value_escape"} ELSE {})
  \cup (IF n \in Svc /\ j = 15 THEN {"D_svcb_key_charset"} ELSE {})

\* routes (aliases, see MC_Presentation): how the record and its data are built
\* and which data type is written; every variant meets every data route
MkRoutes == <<"new", "tuple_u32", "tuple_ttl", "in_default", "header", "parse">>
MkdRoutes == <<"wire", "typed", "builder">>
WrRoutes == <<"zone", "all", "ref", "parsed", "own">>
KindIx == CASE kind = "simple" -> 0 [] kind = "tabbed" -> 1 [] kind = "multiline" -> 2 [] OTHER -> 3
OrgIx == IF org = <<>> THEN 0 ELSE 1
Route == <<MkRoutes[1 + ((row + var + (2 * KindIx) + OrgIx) % 6)], MkdRoutes[1 + ((KindIx + OrgIx) % 3)],
           WrRoutes[1 + ((var + KindIx + (2 * OrgIx)) % 5)]>>

Emit ==
  LET n == Rows[row].name
      inp == [type_case |-> <<Rows[row].i, var>>, tname |-> n, owner |-> Owner, kind |-> kind, origin |-> org,
              route |-> Route]
      ds == CellDevs(n, var, kind)
      \* the token route (the library's record-data tokens read by ZoneRecordData::scan
      \* over an IterScanner): the same law; Scanner::scan_svcb_octets is documented as
      \* "only implemented by some Scanners", the token route does not offer SvcParams
      tok == IF n \in Svc /\ var >= 3 THEN "unsupported" ELSE "eq"
      generic == n = "TYPE65280"
      expd == [lib |-> "eq", tok |-> tok]
  IN IF generic THEN PrintT("CASE " \o ToJson([in |-> inp, exp |-> expd,
                        dev |-> [d \in {"D_iterscanner_marker"} |-> [lib |-> "eq", tok |-> "err"]]]))
     ELSE IF ds = {} THEN PrintT("CASE " \o ToJson([in |-> inp, exp |-> expd]))
     ELSE PrintT("CASE " \o ToJson([in |-> inp, exp |-> expd, dev |-> [d \in ds |-> [lib |-> "neq", tok |-> tok]]]))
=============================================================================
