CONSTANTS
  Dev = {"D_stream_response_timeout_ignored"}
  MaxReq = 150
  RT = 3
  DefRT = 2
  IdleCfg = 2
  RqCap = 8
  ChanCap = 8
  MaxFrames = 0
  EndKinds = {}
  Frames = {}
SPECIFICATION TSpec
INVARIANT OwnAnswer
INVARIANT AtMostOnce
INVARIANT NoCross
INVARIANT SlotTableSound
INVARIANT NothingLost
POSTCONDITION Accepted
CHECK_DEADLOCK FALSE
