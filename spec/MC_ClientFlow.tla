--------------------------- MODULE MC_ClientFlow ---------------------------
(* ClientFlow: exhaustive exploration (FSpec: peer, transport task and      *)
(* consumer scheduled independently) and S->I generation (MacroFSpec).      *)
EXTENDS ClientFlow, Json

EmitFlow == PrintT("CASE " \o ToJson(FlowCaseOf(fhist')))
=============================================================================
