--------------------------- MODULE PresentLimits ---------------------------
(* Names at the length limits for the presentation round trip (C06): the    *)
(* label-length shape family of the name checks (C03: three 63-octet labels *)
(* and a rest, runs of one-octet labels; C07: wire lengths 253 .. 256) as   *)
(* abstract names of Names.tla, judged by Names.tla's ValidAbs.  A shape is *)
(* a list of label lengths; the labels consist of 'x'.                      *)
EXTENDS Names

B3 == <<63, 63, 63>>
Ones(k) == [i \in 1..k |-> 1]
ShapeName(ls) == [i \in 1..Len(ls) |-> [j \in 1..ls[i] |-> 120]]
\* wire lengths 253 .. 256 in several label partitions
LimitShapesQuick ==
  { B3 \o <<61>>, B3 \o <<62>>,                        \* 255 256: four long labels
    Ones(127),                                          \* 255: one-octet labels
    <<63>> \o Ones(95), Ones(95) \o <<63>> }            \* 255: a 63-octet first / last label
LimitShapesMore ==
  { B3 \o <<59>>, B3 \o <<60>>, <<60>> \o B3, <<61>> \o B3, <<62>> \o B3,
    Ones(126), Ones(125) \o <<2>>, Ones(126) \o <<2>>, Ones(128),
    <<63, 2>> \o Ones(93), <<63, 2>> \o Ones(94), Ones(94) \o <<63>>, Ones(94) \o <<2, 63>>,
    <<63, 63, 61, 63>>, <<1, 63, 63, 63, 59>>, <<63, 63, 63, 59, 1>>, <<63, 63, 63, 60, 1>> }
LimitShapes(thorough) == LimitShapesQuick \cup (IF thorough THEN LimitShapesMore ELSE {})
\* shapes that reach the limit only with the labels of an origin behind them
\* (origin of wire length w, root octet included): 255 256 (254 thorough) in total
UnderShapes(w, thorough) ==
  { B3 \o <<62 - w>>, B3 \o <<63 - w>>, Ones((256 - w) \div 2) }
  \cup (IF thorough THEN { B3 \o <<61 - w>>, Ones((254 - w) \div 2), Ones((254 - w) \div 2 - 1) \o <<2>>,
                           <<63>> \o Ones((190 - w) \div 2), <<63, 2>> \o Ones((188 - w) \div 2) } ELSE {})
WireLenOfShape(ls) == 1 + SumSeq([i \in 1..Len(ls) |-> 1 + ls[i]])
=============================================================================
