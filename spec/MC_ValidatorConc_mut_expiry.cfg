CONSTANTS
  Procs = {1, 2}
  Qs = {"zone"}
  Runs = 1
  MaxNow = 4
  Budget = 1
  AdvKinds = {"Short"}
  Dev = {}
  Mut = {"M_no_expiry_check"}
  Atomic = FALSE
SPECIFICATION Spec
INVARIANT NoStaleHit
CHECK_DEADLOCK TRUE
