CONSTANTS
  Dev = {}
  CSizes = {70000, 4096}
  Hints = {70000}
  Lens = {100}
  OptLens = {0, 11}
  ROpts = {"none"}
  Recipes = {"plain", "rewind"}
  Routes = {"mk"}
  ALays = {"none"}
  Tgts = {"vec"}
  SvcRoutes = {"impl"}
  EOns = {TRUE}
  QLens = {17}
SPECIFICATION Spec
INVARIANT SomeCutLast
CHECK_DEADLOCK FALSE
