---------------------------- MODULE MC_ZoneLimits ----------------------------
(* Limit shapes: one logical value just below / at / above a length limit,   *)
(* in every spelling (plain, quoted, with one \DDD or \c escape at the       *)
(* start, in the middle, at the end, quoted with an escape).  All spellings  *)
(* of one logical value must give the same outcome, and that outcome         *)
(* respects the limit: a character string has at most 255 octets, a label at *)
(* most 63, a name at most 255 octets on the wire.                           *)
EXTENDS ZoneFile, TLC, Json

VARIABLES field, n, sp, act
vars == <<field, n, sp, act>>

Spellings == {"plain", "quoted", "dec_start", "dec_mid", "dec_end", "esc_start", "esc_mid", "esc_end", "quoted_esc"}
Fields == {"txt", "txt2", "hinfo", "label", "rdlabel", "name"}
Sizes(f) == CASE f \in {"txt", "txt2", "hinfo"} -> {254, 255, 256, 257}
              [] f \in {"label", "rdlabel"} -> {62, 63, 64, 65}
              [] f = "name" -> {253, 254, 255, 256}       \* wire length of the whole name

Origin0 == <<1, 111, 0>>
X == 120
Dec3(b) == <<BSL, 48 + (b \div 100), 48 + ((b \div 10) % 10), 48 + (b % 10)>>

\* k octets 'x' in the given spelling (k >= 3)
Spell(k, s) ==
  LET xs(m) == [i \in 1..m |-> X]
      mid == k \div 2
  IN CASE s = "plain"      -> xs(k)
       [] s = "quoted"     -> <<QUOTE>> \o xs(k) \o <<QUOTE>>
       [] s = "dec_start"  -> Dec3(X) \o xs(k - 1)
       [] s = "dec_mid"    -> xs(mid) \o Dec3(X) \o xs(k - mid - 1)
       [] s = "dec_end"    -> xs(k - 1) \o Dec3(X)
       [] s = "esc_start"  -> <<BSL, X>> \o xs(k - 1)
       [] s = "esc_mid"    -> xs(mid) \o <<BSL, X>> \o xs(k - mid - 1)
       [] s = "esc_end"    -> xs(k - 1) \o <<BSL, X>>
       [] s = "quoted_esc" -> <<QUOTE>> \o xs(mid) \o <<BSL, X>> \o xs(k - mid - 1) \o <<QUOTE>>

S_TXT == <<97, 32, 73, 78, 32, 84, 88, 84, 32>>            \* "a IN TXT "
S_HINFO == <<97, 32, 73, 78, 32, 72, 73, 78, 70, 79, 32, 121, 32>>   \* "a IN HINFO y "
S_NS == <<97, 32, 73, 78, 32, 78, 83, 32>>                 \* "a IN NS "
S_OWN == <<32, 73, 78, 32, 84, 88, 84, 32, 116, 10>>       \* " IN TXT t\n"

\* a name of wire length w (w >= 70): labels of 63 'x' octets and a rest, absolute
RECURSIVE NameLabels(_)
NameLabels(rem) == \* rem = octets still to fill, excluding the root octet
  IF rem <= 64 THEN <<[i \in 1..(rem - 1) |-> X]>> ELSE <<[i \in 1..63 |-> X]>> \o NameLabels(rem - 64)
RECURSIVE JoinD(_)
JoinD(ls) == IF Len(ls) = 0 THEN <<>> ELSE ls[1] \o <<DOT>> \o JoinD(Tail(ls))

Text(f, k, s) ==
  CASE f = "txt"     -> S_TXT \o Spell(k, s) \o <<LF>>
    [] f = "txt2"    -> S_TXT \o <<116, 32>> \o Spell(k, s) \o <<32, 34, 34, LF>>      \* t <string> ""
    [] f = "hinfo"   -> S_HINFO \o Spell(k, s) \o <<LF>>
    [] f = "label"   -> Spell(k, s) \o S_OWN
    [] f = "rdlabel" -> S_NS \o Spell(k, s) \o <<LF>>
    [] f = "name"    -> \* the first label carries the spelling; the rest is plain
         LET ls == NameLabels(k - 1)
         IN S_NS \o (IF s \in {"quoted", "quoted_esc"}
                     THEN <<QUOTE>> \o SubSeq(Spell(Len(ls[1]), s), 2, Len(Spell(Len(ls[1]), s)) - 1)
                          \o <<DOT>> \o JoinD(Tail(ls)) \o <<QUOTE>>
                     ELSE Spell(Len(ls[1]), s) \o <<DOT>> \o JoinD(Tail(ls))) \o <<LF>>

\* declarative expectation, independent of the spelling
xs(m) == [i \in 1..m |-> X]
OwnerA == <<1, 97>> \o Origin0
Rec(owner, t, rd) == [owner |-> owner, class |-> 1, ttl |-> 3600, rtype |-> t, rdata |-> rd]
OkOut(r) == [entries |-> <<r>>, err |-> FALSE]
ErrOut == [entries |-> <<>>, err |-> TRUE]
Expected(f, k) ==
  CASE f = "txt"     -> IF k <= 255 THEN OkOut(Rec(OwnerA, 16, <<k>> \o xs(k))) ELSE ErrOut
    [] f = "txt2"    -> IF k <= 255 THEN OkOut(Rec(OwnerA, 16, <<1, 116, k>> \o xs(k) \o <<0>>)) ELSE ErrOut
    [] f = "hinfo"   -> IF k <= 255 THEN OkOut(Rec(OwnerA, 13, <<1, 121, k>> \o xs(k))) ELSE ErrOut
    [] f = "label"   -> IF k <= 63 THEN OkOut(Rec(<<k>> \o xs(k) \o Origin0, 16, <<1, 116>>)) ELSE ErrOut
    [] f = "rdlabel" -> IF k <= 63 THEN OkOut(Rec(OwnerA, 2, <<k>> \o xs(k) \o Origin0)) ELSE ErrOut
    [] f = "name"    -> IF k <= 255
                        THEN OkOut(Rec(OwnerA, 2, Concat([i \in 1..Len(NameLabels(k - 1)) |->
                                 <<Len(NameLabels(k - 1)[i])>> \o NameLabels(k - 1)[i]]) \o <<0>>))
                        ELSE ErrOut

Init == /\ field \in Fields /\ n \in Sizes(field) /\ sp \in Spellings /\ act = field
Next == UNCHANGED vars
Spec == Init /\ [][Next]_vars

Read(f, k, s) == ReadAll(Text(f, k, s), Origin0, -1, Dev)

\* every spelling gives the limit-respecting outcome (hence all agree)
SpellingIrrelevant == Read(field, n, sp) = Expected(field, n)

Emit == PrintT("CASE " \o ToJson([in |-> [text |-> Text(field, n, sp), origin |-> Origin0, class |-> -1,
                                          act |-> field, size |-> n, spelling |-> sp],
                                  exp |-> Expected(field, n)]))
=============================================================================
