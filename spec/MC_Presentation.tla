-------------------------- MODULE MC_Presentation --------------------------
(* Read(Render(Write(r, kind))) = <<r>> for every record of a field-kind    *)
(* grid over the escape-relevant octet alphabet, every display kind, with   *)
(* and without an origin (also through the token route and for field texts *)
(* on their own); and the S->I case generator with alias routes.           *)
EXTENDS Presentation, TLC, Json

CONSTANT MaxStr      \* longest label / string built from the alphabet

VARIABLES r, kind, origin, grp
vars == <<r, kind, origin, grp>>

\* NUL SP " $ ( ) . ; @ \ 0 a A DEL 0xFF
Alphabet == {0, 32, 34, 36, 40, 41, 46, 59, 64, 92, 48, 97, 65, 127, 255}
RECURSIVE Strs(_)
Strs(n) == IF n = 0 THEN {<<>>} ELSE LET P == Strs(n - 1) IN P \cup {Append(p, x) : p \in {q \in P : Len(q) = n - 1}, x \in Alphabet}
NonEmpty(n) == Strs(n) \ {<<>>}

Lex == <<101, 120>>          \* "ex"
NEx == <<Lex>>               \* ex.
Origins == {<<>>, WireName(NEx)}
TxtX == [t |-> 16, strs |-> << <<120>> >>]
Rec(o, c, ttl, rd) == [owner |-> o, class |-> c, ttl |-> ttl, rd |-> rd]

\* restricted-alphabet fields: strings over the boundary characters of the
\* CAA tag alphabet ('A' 'Z' 'a' 'z' '0' '9') up to MaxStr, one character from
\* just outside alone / behind a letter, the empty tag, three longer tags
RECURSIVE BTags(_)
BTags(n) == IF n = 0 THEN {<<>>}
            ELSE LET P == BTags(n - 1) IN P \cup {Append(p, x) : p \in {q \in P : Len(q) = n - 1}, x \in FieldBoundary("caa_tag")}
Tags == BTags(MaxStr) \cup {<<x>> : x \in FieldOutside("caa_tag")} \cup {<<97, x>> : x \in FieldOutside("caa_tag")}
        \cup {<<73, 115, 115, 117, 101>>, <<73, 83, 83, 85, 69, 87, 73, 76, 68>>, <<105, 115, 115, 117, 101, 119, 105, 108, 100, 48, 57, 65, 90>>}
\* values at the ends of the range and where the number of digits changes
U8Bounds == {0, 1, 9, 10, 99, 100, 199, 200, 249, 250, 254, 255}
U16Bounds == {0, 9, 10, 99, 100, 999, 1000, 9999, 10000, 65529, 65530, 65534, 65535}
\* every type with a mnemonic, and values without one next to them / at the ends
TypeValues == {p[2] : p \in RtypeMnemonics} \cup {0, 54, 66, 98, 110, 127, 129, 248, 260, 999, 1000, 9999, 10000, 32767, 32770, 65279, 65280, 65534, 65535}

\* names at the length limits (PresentLimits.tla: wire lengths 253 .. 256 in
\* several label partitions; 256 is outside ValidAbs: the reader must refuse
\* it and the constructors must not build it), alone and reaching the limit
\* only with the origin's labels behind them
Thorough == MaxStr >= 3
LimitNames == {PL!ShapeName(ls) : ls \in PL!LimitShapes(Thorough)}
              \cup {PL!ShapeName(ls) \o RelOrigin : ls \in PL!UnderShapes(Len(WireName(RelOrigin)), Thorough)}
U4(a, b, c, d) == <<a, b, c, d>>
One32 == U4(0, 0, 0, 1)
\* 32-bit fields: the ends of the range, both sides of 2^31, changes of the digit count
U32Bounds == {U4(0, 0, 0, 0), One32, U4(0, 0, 0, 9), U4(0, 0, 0, 10), U4(0, 1, 134, 159), U4(0, 1, 134, 160),
              U4(59, 154, 201, 255), U4(59, 154, 202, 0), U4(127, 255, 255, 255), U4(128, 0, 0, 0), U4(128, 0, 0, 1),
              U4(255, 255, 255, 254), U4(255, 255, 255, 255)}
Soa(m, rn, s, a, b, c, d) == [t |-> 6, mname |-> m, rname |-> rn, serial |-> s, refresh |-> a, retry |-> b, expire |-> c, minimum |-> d]
Rrsig(cv, al, lb, ot, ex, inc, tg, sg, sig) == [t |-> 46, covered |-> cv, alg |-> al, labels |-> lb, ottl |-> ot, exp |-> ex, inc |-> inc,
                                                tag |-> tg, signer |-> sg, sig |-> sig]
Sig0 == <<1, 2, 3, 250>>
\* one group per field kind
Group(g) ==
  CASE g = "owner1" -> {Rec(<<l, Lex>>, 1, 3600, TxtX) : l \in NonEmpty(MaxStr)}
    [] g = "owner2" -> {Rec(<<a, b>>, 1, 3600, TxtX) : a \in NonEmpty(1), b \in NonEmpty(1)}
                       \cup {Rec(<<>>, 1, 3600, TxtX)} \cup {Rec(<<l>>, 1, 3600, TxtX) : l \in NonEmpty(1)}
    [] g = "txt"    -> {Rec(<<Lex>>, 1, 3600, [t |-> 16, strs |-> <<s>>]) : s \in Strs(MaxStr)}
                       \cup {Rec(<<Lex>>, 1, 0, [t |-> 16, strs |-> <<s, u>>]) : s \in Strs(1), u \in Strs(1)}
    [] g = "hinfo"  -> {Rec(<<Lex>>, 1, 5, [t |-> 13, cpu |-> s, os |-> u]) : s \in Strs(1), u \in Strs(1)}
    [] g = "name"   -> {Rec(<<Lex>>, 1, 5, [t |-> ty, name |-> <<l, Lex>>]) : l \in NonEmpty(1), ty \in NameTypes}
                       \cup {Rec(<<Lex>>, 1, 5, [t |-> 2, name |-> n]) : n \in {<<>>, <<Lex>>, <<<<97>>, <<98>>, <<99>>>>}}
                       \cup {Rec(<<Lex>>, 1, 5, [t |-> 2, name |-> <<l>>]) : l \in NonEmpty(MaxStr)}
    [] g = "mx"     -> {Rec(<<Lex>>, 1, 5, [t |-> 15, pref |-> p, name |-> n]) :
                            p \in {0, 10, 65535}, n \in {<<>>, <<Lex>>, <<<<59>>, Lex>>}}
    [] g = "generic" -> {Rec(<<Lex>>, 1, 5, [t |-> ty, data |-> d]) : ty \in {65280, 1234},
                            d \in {<<>>, <<0>>, <<255>>, <<0, 165>>, <<10, 11, 12>>, <<1, 2, 3, 4, 5>>}}
    [] g = "ctt"    -> {Rec(<<Lex>>, c, ttl, TxtX) : c \in {1, 3, 4, 254, 255, 2, 4660, 65535},
                            ttl \in {0, 1, 120, 3600, 172800, 2147483647}}
    \* --- restricted-alphabet token fields: everything the constructors admit,
    \* at the boundary characters / values, and the characters just outside
    [] g = "caa"    -> {Rec(<<Lex>>, 1, 5, [t |-> 257, fl |-> f, tag |-> tg, val |-> <<120>>]) : f \in {0, 128}, tg \in Tags}
                       \cup {Rec(<<Lex>>, 1, 5, [t |-> 257, fl |-> f, tag |-> <<97, 48>>, val |-> <<>>]) : f \in U8Bounds}
                       \cup {Rec(<<Lex>>, 1, 5, [t |-> 257, fl |-> 1, tag |-> <<116, 97, 103>>, val |-> v]) :
                                v \in {<<34, 59, 40>>, <<0, 255, 92>>, <<97, 32, 98>>}}
    [] g = "bitmap" -> {Rec(<<Lex>>, 1, 5, [t |-> 47, name |-> NEx, types |-> {ty}]) : ty \in TypeValues}
                       \cup {Rec(<<Lex>>, 1, 5, [t |-> 47, name |-> NEx, types |-> ts]) : ts \in {{}, {1, 2, 46, 47, 257}, {23, 255, 256, 32768, 65535}}}
    [] g = "ints"   -> {Rec(<<Lex>>, 1, 5, [t |-> 15, pref |-> p, name |-> NEx]) : p \in U16Bounds}
                       \cup {Rec(<<Lex>>, 1, 5, [t |-> 52, u |-> a, s |-> 1, m |-> 2, data |-> <<171>>]) : a \in U8Bounds}
                       \cup {Rec(<<Lex>>, 1, 5, [t |-> 52, u |-> 255, s |-> a, m |-> a, data |-> <<0, 255, 16>>]) : a \in {0, 255}}
                       \cup {Rec(<<Lex>>, 1, 5, [t |-> 51, alg |-> 1, fl |-> f, it |-> i, salt |-> <<171, 205>>]) :
                                f \in {0, 1, 255}, i \in {0, 10, 65530, 65535}}
                       \cup {Rec(<<Lex>>, 1, 5, [t |-> 51, alg |-> a, fl |-> 0, it |-> 1, salt |-> sl]) :
                                a \in {0, 255}, sl \in {<<>>, <<0>>, <<255>>, <<45>>, <<10, 171, 205, 239>>}}
    [] g = "limits" -> {Rec(n, 1, 5, TxtX) : n \in LimitNames}
                       \cup {Rec(<<Lex>>, 1, 5, [t |-> ty, name |-> n]) : ty \in (IF Thorough THEN {2, 39} ELSE {2}), n \in LimitNames}
                       \cup {Rec(<<Lex>>, 1, 5, [t |-> 15, pref |-> 10, name |-> n]) : n \in LimitNames}
                       \cup {Rec(<<Lex>>, 1, 5, Soa(NEx, n, One32, One32, One32, One32, One32)) : n \in LimitNames}
                       \cup {Rec(<<Lex>>, 1, 5, Rrsig(1, 8, 1, One32, One32, One32, 7, n, Sig0)) : n \in LimitNames}
                       \cup (IF ~Thorough THEN {} ELSE
                             {Rec(<<Lex>>, 1, 5, [t |-> 47, name |-> n, types |-> {1, 46}]) : n \in LimitNames}
                             \cup {Rec(<<Lex>>, 1, 5, Soa(n, NEx, One32, One32, One32, One32, One32)) : n \in LimitNames}
                             \cup {Rec(n, 1, 5, [t |-> 2, name |-> n]) : n \in LimitNames})
    [] g = "u32"    -> {Rec(<<Lex>>, 1, 5, Soa(NEx, NEx, v, One32, One32, One32, One32)) : v \in U32Bounds}
                       \cup {Rec(<<Lex>>, 1, 5, Soa(NEx, NEx, One32, v, One32, One32, One32)) : v \in U32Bounds}
                       \cup {Rec(<<Lex>>, 1, 5, Soa(NEx, NEx, One32, One32, v, One32, One32)) : v \in U32Bounds}
                       \cup {Rec(<<Lex>>, 1, 5, Soa(NEx, NEx, One32, One32, One32, v, One32)) : v \in U32Bounds}
                       \cup {Rec(<<Lex>>, 1, 5, Soa(NEx, NEx, One32, One32, One32, One32, v)) : v \in U32Bounds}
                       \cup {Rec(<<Lex>>, 1, 5, Soa(NEx, NEx, v, v, v, v, v)) : v \in {U4(128, 0, 0, 0), U4(255, 255, 255, 255)}}
                       \cup {Rec(<<Lex>>, 1, 5, Rrsig(1, 8, 1, v, One32, One32, 7, NEx, Sig0)) : v \in U32Bounds}
                       \cup {Rec(<<Lex>>, 1, 5, Rrsig(46, 255, 0, One32, v, One32, 0, <<>>, Sig0)) : v \in U32Bounds}
                       \cup {Rec(<<Lex>>, 1, 5, Rrsig(65535, 0, 255, One32, One32, v, 65535, NEx, <<255>>)) : v \in U32Bounds}
LimGroups == {"limits", "u32"}
Groups == {"limits", "u32", "owner1", "owner2", "txt", "hinfo", "name", "mx", "generic", "ctt", "caa", "bitmap", "ints"}

Init == /\ grp \in Groups /\ r \in Group(grp) /\ kind \in Kinds /\ origin \in Origins
Next == UNCHANGED vars
Spec == Init /\ [][Next]_vars

\* a record the constructors would not build is not part of the domain of the law
InDomain == RecAdmitted(r, Dev \cap FieldDevs)
\* the property on the composed specification (writer deviations Dev)
ReadEqualsWritten == InDomain => RoundTrip(r, kind, origin, Dev \cap WriterDevs)
\* ... through the token route (record data as a token list, IterScanner)
TokensReadEqualWritten == InDomain => TokenRoundTrip(r, kind, Dev)
\* ... and for the field texts on their own (Label / OwnedLabel, CharStr unquoted)
StringsOf(rd) == IF rd.t = 16 THEN rd.strs ELSE IF rd.t = 13 THEN <<rd.cpu, rd.os>> ELSE <<>>
FieldTextsReadEqualWritten ==
  /\ \A i \in 1..Len(r.owner) : LabelTextRoundTrip(r.owner[i], Dev \cap WriterDevs)
  /\ \A i \in 1..Len(StringsOf(r.rd)) : CharStrTextRoundTrip(StringsOf(r.rd)[i])

\* ... and for the restricted-alphabet token fields on their own (everything
\* the constructors admit today reads back, except where a field deviation says so)
FieldsReadEqualWritten == FieldsRoundTrip(r.rd, Dev \cap FieldDevs)
\* ... and for the spelling relative to the origin (names at the limits: the
\* reader's length check must count the origin's labels, no more, no less)
RelOn == grp = "limits" /\ origin = WireName(RelOrigin)
RelativeReadsEqual == (RelOn /\ InDomain) => ReadBackX(WText(r, "relative", {}), origin, {}) = Expected(r)
\* what is outside the domain because of a name is refused by the reader
TooLongRefused == (grp = "limits" /\ ~NamesAdmitted(r)) => ReadBackX(WText(r, kind, {}), origin, {}) = ErrOutcome

\* Routes: further ways to build the record (Record::new / From tuples /
\* set_class / RecordHeader::into_record / Record::parse), its data (wire /
\* typed constructors / builders), and to write it (as it is / as
\* AllRecordData / through a reference / with parsed names / through a
\* FormatWriter of the user's own, tokens joined by one space).  They are
\* aliases: the expectation does not depend on them.  Every case is given
\* one combination, spread over the grid by a checksum of the record.
MkRoutes == <<"new", "tuple_u32", "tuple_ttl", "in_default", "header", "parse">>
MkdRoutes == <<"wire", "typed", "builder">>
WrRoutes == <<"zone", "all", "ref", "parsed", "own">>
RECURSIVE SumFrom(_, _)
SumFrom(s, i) == IF i > Len(s) THEN 0 ELSE (s[i] + 31 * SumFrom(s, i + 1)) % 100003
Sum(s) == SumFrom(s, 1)
RouteOf(h) == <<MkRoutes[1 + (h % 6)], MkdRoutes[1 + ((h \div 6) % 3)], WrRoutes[1 + ((h \div 18) % 5)]>>

--------------------------------------------------------------------------
ReaderDevs == AllDevs      \* the reader as the code has it today (C07's findings)
Emit ==
  LET ideal == WText(r, kind, {})
      code  == WText(r, kind, WriterDevs)
      strs == StringsOf(r.rd)
      inp == [owner |-> WireName(r.owner), class |-> r.class, ttl |-> r.ttl, rtype |-> r.rd.t,
              rdata |-> RdWire(r.rd), kind |-> kind, origin |-> origin, stext |-> ideal, grp |-> grp,
              route |-> RouteOf(Sum(ideal) + Len(origin)),
              toks |-> RdTokens(r.rd, kind, {}),
              ltexts |-> [i \in 1..Len(r.owner) |-> [l |-> r.owner[i], t |-> WLabel(r.owner[i], {})]],
              ctexts |-> [i \in 1..Len(strs) |-> [s |-> strs[i], t |-> WUnquoted(strs[i])]]]
             @@ (IF RelOn /\ RecAdmitted(r, {}) THEN [rel |-> WText(r, "relative", {})] ELSE <<>>)
      relx == IF RelOn THEN [rel |-> IF ReadBackX(WText(r, "relative", {}), origin, {}) = Expected(r) THEN "eq" ELSE "neq"] ELSE <<>>
      \* a name outside ValidAbs: the text is refused, the constructors do not build the record
      rawx == [raw |-> ReadBackX(ideal, origin, {}), built |-> FALSE]
      tokRead(dv) == ReadTokens(r.rd.t, RdTokens(r.rd, kind, {}), dv)
      tokOut(dv) == IF tokRead(dv) = [rd |-> RdWire(r.rd)] THEN "eq" ELSE tokRead(dv)
      \* tokm: the generic form through the routes that take the "\#" marker
      \* themselves (UnknownRecordData::scan, base16::decode_vec on the hex words)
      rest(dv) == [spec |-> "eq", tok |-> tokOut(dv), tokm |-> tokOut({}), lbl |-> "eq", cs |-> "eq"]
      expd == [lib |-> "eq"] @@ rest({}) @@ relx
      \* what the reader makes of the text the code writes today
      o0 == ReadBack(code, origin, {})
      o1 == ReadBack(code, origin, ReaderDevs)
      which == IF WText(r, kind, {"D_label_escape_set"}) # ideal THEN "D_label_escape_set" ELSE "D_display_root_dot"
      na == [lib |-> "na", spec |-> "na", tok |-> "na", tokm |-> "na", lbl |-> "na", cs |-> "na"]
      \* a record the constructors admit today although they should not: what the code makes of it
      oc == ReadBackX(code, origin, {})
  IN IF ~NamesAdmitted(r) THEN PrintT("CASE " \o ToJson([in |-> inp @@ [adm |-> FALSE, raw |-> ideal], exp |-> na @@ rawx]))
     ELSE IF ~AllAdmitted(r.rd, {}) THEN
        (IF AllAdmitted(r.rd, FieldDevs) /\ oc # Unmodelled /\ oc # Expected(r)
         THEN PrintT("CASE " \o ToJson([in |-> inp @@ [adm |-> FALSE], exp |-> na,
                   dev |-> [x \in {"D_caa_empty_tag"} |-> [lib |-> oc, spec |-> oc] @@ rest({})]]))
         ELSE PrintT("CASE " \o ToJson([in |-> inp @@ [adm |-> FALSE], exp |-> na])))
     ELSE IF code = ideal THEN
        (IF tokRead(TokenDevs) = tokRead({}) THEN PrintT("CASE " \o ToJson([in |-> inp, exp |-> expd]))
         ELSE PrintT("CASE " \o ToJson([in |-> inp, exp |-> expd,
                   dev |-> [x \in {"D_iterscanner_marker"} |-> [lib |-> "eq"] @@ rest(TokenDevs)]])))
     ELSE IF o0 # o1 \/ o0 = Unmodelled THEN TRUE      \* reader deviations interfere: skip
     ELSE IF o0 = Expected(r) THEN PrintT("CASE " \o ToJson([in |-> inp, exp |-> expd]))
     ELSE PrintT("CASE " \o ToJson([in |-> inp, exp |-> expd,
                   dev |-> [x \in {which} |-> [lib |-> o0] @@ rest({})]]))
=============================================================================
