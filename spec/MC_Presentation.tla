-------------------------- MODULE MC_Presentation --------------------------
(* Read(Render(Write(r, kind))) = <<r>> for every record of a field-kind    *)
(* grid over the escape-relevant octet alphabet, every display kind, with   *)
(* and without an origin (also through the token route and for field texts *)
(* on their own); and the S->I case generator with alias routes.           *)
EXTENDS Presentation, TLC, Json

CONSTANT MaxStr      \* longest label / string built from the alphabet

VARIABLES r, kind, origin, grp
vars == <<r, kind, origin, grp>>

\* NUL SP " $ ( ) . ; @ \ 0 a A DEL 0xFF
Alphabet == {0, 32, 34, 36, 40, 41, 46, 59, 64, 92, 48, 97, 65, 127, 255}
RECURSIVE Strs(_)
Strs(n) == IF n = 0 THEN {<<>>} ELSE LET P == Strs(n - 1) IN P \cup {Append(p, x) : p \in {q \in P : Len(q) = n - 1}, x \in Alphabet}
NonEmpty(n) == Strs(n) \ {<<>>}

Lex == <<101, 120>>          \* "ex"
NEx == <<Lex>>               \* ex.
Origins == {<<>>, WireName(NEx)}
TxtX == [t |-> 16, strs |-> << <<120>> >>]
Rec(o, c, ttl, rd) == [owner |-> o, class |-> c, ttl |-> ttl, rd |-> rd]

\* one group per field kind
Group(g) ==
  CASE g = "owner1" -> {Rec(<<l, Lex>>, 1, 3600, TxtX) : l \in NonEmpty(MaxStr)}
    [] g = "owner2" -> {Rec(<<a, b>>, 1, 3600, TxtX) : a \in NonEmpty(1), b \in NonEmpty(1)}
                       \cup {Rec(<<>>, 1, 3600, TxtX)} \cup {Rec(<<l>>, 1, 3600, TxtX) : l \in NonEmpty(1)}
    [] g = "txt"    -> {Rec(<<Lex>>, 1, 3600, [t |-> 16, strs |-> <<s>>]) : s \in Strs(MaxStr)}
                       \cup {Rec(<<Lex>>, 1, 0, [t |-> 16, strs |-> <<s, u>>]) : s \in Strs(1), u \in Strs(1)}
    [] g = "hinfo"  -> {Rec(<<Lex>>, 1, 5, [t |-> 13, cpu |-> s, os |-> u]) : s \in Strs(1), u \in Strs(1)}
    [] g = "name"   -> {Rec(<<Lex>>, 1, 5, [t |-> ty, name |-> <<l, Lex>>]) : l \in NonEmpty(1), ty \in NameTypes}
                       \cup {Rec(<<Lex>>, 1, 5, [t |-> 2, name |-> n]) : n \in {<<>>, <<Lex>>, <<<<97>>, <<98>>, <<99>>>>}}
                       \cup {Rec(<<Lex>>, 1, 5, [t |-> 2, name |-> <<l>>]) : l \in NonEmpty(MaxStr)}
    [] g = "mx"     -> {Rec(<<Lex>>, 1, 5, [t |-> 15, pref |-> p, name |-> n]) :
                            p \in {0, 10, 65535}, n \in {<<>>, <<Lex>>, <<<<59>>, Lex>>}}
    [] g = "generic" -> {Rec(<<Lex>>, 1, 5, [t |-> ty, data |-> d]) : ty \in {65280, 1234},
                            d \in {<<>>, <<0>>, <<255>>, <<0, 165>>, <<10, 11, 12>>, <<1, 2, 3, 4, 5>>}}
    [] g = "ctt"    -> {Rec(<<Lex>>, c, ttl, TxtX) : c \in {1, 3, 4, 254, 255, 2, 4660, 65535},
                            ttl \in {0, 1, 120, 3600, 172800, 2147483647}}
Groups == {"owner1", "owner2", "txt", "hinfo", "name", "mx", "generic", "ctt"}

Init == /\ grp \in Groups /\ r \in Group(grp) /\ kind \in Kinds /\ origin \in Origins
Next == UNCHANGED vars
Spec == Init /\ [][Next]_vars

\* the property on the composed specification (writer deviations Dev)
ReadEqualsWritten == RoundTrip(r, kind, origin, Dev \cap WriterDevs)
\* ... through the token route (record data as a token list, IterScanner)
TokensReadEqualWritten == TokenRoundTrip(r, kind, Dev)
\* ... and for the field texts on their own (Label / OwnedLabel, CharStr unquoted)
StringsOf(rd) == IF rd.t = 16 THEN rd.strs ELSE IF rd.t = 13 THEN <<rd.cpu, rd.os>> ELSE <<>>
FieldTextsReadEqualWritten ==
  /\ \A i \in 1..Len(r.owner) : LabelTextRoundTrip(r.owner[i], Dev \cap WriterDevs)
  /\ \A i \in 1..Len(StringsOf(r.rd)) : CharStrTextRoundTrip(StringsOf(r.rd)[i])

\* Routes: further ways to build the record (Record::new / From tuples /
\* set_class / RecordHeader::into_record / Record::parse), its data (wire /
\* typed constructors / builders), and to write it (as it is / as
\* AllRecordData / through a reference / with parsed names / through a
\* FormatWriter of the user's own, tokens joined by one space).  They are
\* aliases: the expectation does not depend on them.  Every case is given
\* one combination, spread over the grid by a checksum of the record.
MkRoutes == <<"new", "tuple_u32", "tuple_ttl", "in_default", "header", "parse">>
MkdRoutes == <<"wire", "typed", "builder">>
WrRoutes == <<"zone", "all", "ref", "parsed", "own">>
RECURSIVE SumFrom(_, _)
SumFrom(s, i) == IF i > Len(s) THEN 0 ELSE (s[i] + 31 * SumFrom(s, i + 1)) % 100003
Sum(s) == SumFrom(s, 1)
RouteOf(h) == <<MkRoutes[1 + (h % 6)], MkdRoutes[1 + ((h \div 6) % 3)], WrRoutes[1 + ((h \div 18) % 5)]>>

--------------------------------------------------------------------------
ReaderDevs == AllDevs      \* the reader as the code has it today (C07's findings)
Emit ==
  LET ideal == WText(r, kind, {})
      code  == WText(r, kind, WriterDevs)
      strs == StringsOf(r.rd)
      inp == [owner |-> WireName(r.owner), class |-> r.class, ttl |-> r.ttl, rtype |-> r.rd.t,
              rdata |-> RdWire(r.rd), kind |-> kind, origin |-> origin, stext |-> ideal, grp |-> grp,
              route |-> RouteOf(Sum(ideal) + Len(origin)),
              toks |-> RdTokens(r.rd, kind, {}),
              ltexts |-> [i \in 1..Len(r.owner) |-> [l |-> r.owner[i], t |-> WLabel(r.owner[i], {})]],
              ctexts |-> [i \in 1..Len(strs) |-> [s |-> strs[i], t |-> WUnquoted(strs[i])]]]
      tokRead(dv) == ReadTokens(r.rd.t, RdTokens(r.rd, kind, {}), dv)
      tokOut(dv) == IF tokRead(dv) = [rd |-> RdWire(r.rd)] THEN "eq" ELSE tokRead(dv)
      \* tokm: the generic form through the routes that take the "\#" marker
      \* themselves (UnknownRecordData::scan, base16::decode_vec on the hex words)
      rest(dv) == [spec |-> "eq", tok |-> tokOut(dv), tokm |-> tokOut({}), lbl |-> "eq", cs |-> "eq"]
      expd == [lib |-> "eq"] @@ rest({})
      \* what the reader makes of the text the code writes today
      o0 == ReadBack(code, origin, {})
      o1 == ReadBack(code, origin, ReaderDevs)
      which == IF WText(r, kind, {"D_label_escape_set"}) # ideal THEN "D_label_escape_set" ELSE "D_display_root_dot"
  IN IF code = ideal THEN
        (IF tokRead(TokenDevs) = tokRead({}) THEN PrintT("CASE " \o ToJson([in |-> inp, exp |-> expd]))
         ELSE PrintT("CASE " \o ToJson([in |-> inp, exp |-> expd,
                   dev |-> [x \in {"D_iterscanner_marker"} |-> [lib |-> "eq"] @@ rest(TokenDevs)]])))
     ELSE IF o0 # o1 \/ o0 = Unmodelled THEN TRUE      \* reader deviations interfere: skip
     ELSE IF o0 = Expected(r) THEN PrintT("CASE " \o ToJson([in |-> inp, exp |-> expd]))
     ELSE PrintT("CASE " \o ToJson([in |-> inp, exp |-> expd,
                   dev |-> [x \in {which} |-> [lib |-> o0] @@ rest({})]]))
=============================================================================
