CONSTANTS
  Dev = {"D_ttl0_node_panic"}
  Mut = {}
  AdvOn = {"ANS", "DS", "DNSKEY"}
  AnchorForms = {"dnskey"}
  Cfgs = {"default"}
  MaxRuns = 1
  EntQKinds = {"positive", "nxdomain", "ds"}
  Budget = 1
  Shapes = {"secure3", "insecure3"}
  Denials = {"nsec", "nsec3"}
  QKinds = {"positive", "wildcard", "nodata", "nxdomain", "cname1", "cname2", "ds", "dname", "dnamex", "nxdeep"}
  AdvActs = {"ShortSig", "DropRrsig", "DropRrset", "ReplaceRdata", "WrongSigner", "Expire", "NotYetValid", "ReplayAncestor", "AddCollidingKey", "AddExtraDs", "CorruptSigOctets", "HideCe", "ForgeSigned", "AddBadSig", "CorruptKey", "CorruptDs", "StripProof", "ForgeNsecRange", "SwapProof", "BadNsec3Label", "BadNsec3LabelSigned", "ZeroCounts", "ZeroTtl", "Inject", "CnameLoop"}
SPECIFICATION Spec
VIEW View




INVARIANT NoPanic


CHECK_DEADLOCK TRUE
