CONSTANTS
  Dev = {}
  MaxPush = 2
  Wide = FALSE
  Big = 300
SPECIFICATION Spec
INVARIANT LawNorm
INVARIANT LawNormId
INVARIANT LawOptRoundTrip
INVARIANT LawOptLen
INVARIANT LawEcsPrivacy
INVARIANT LawRecord
INVARIANT LawRefused
INVARIANT LawImplReadsBack
CHECK_DEADLOCK FALSE
