CONSTANTS
  Dev = {"D_notify_malformed_panic"}
  Focus = "notify"
  Thorough = FALSE
SPECIFICATION MCSpec
INVARIANT MachineIsFunction
INVARIANT P1_NotifyGate
INVARIANT P2_Transparent
INVARIANT P3_XfrGate
INVARIANT P4_XfrShape
CHECK_DEADLOCK FALSE
