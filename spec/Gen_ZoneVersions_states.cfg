CONSTANTS
  Readers = {"r1"}
  MaxVer = 2
  SerialBits = 3
  SoaVals = {6, 7}
  TxtVals = {1}
  MaxHist = 40
  Mode = "states"
SPECIFICATION GenSpec
VIEW GenView
INVARIANT Emit
CHECK_DEADLOCK FALSE
