---------------------------- MODULE StubResolver ----------------------------
(* X04 — the query machine of the stub resolver                              *)
(*   src/resolv/stub/mod.rs   StubResolver::query, Query::run / run_query,   *)
(*                            setup_transport (transport choice per server)  *)
(*   src/resolv/stub/conf.rs  ResolvConf / ResolvOptions (search, ndots,     *)
(*                            timeout, use_vc, Transport)                    *)
(*   src/resolv/lookup/host.rs  lookup_host (A + AAAA), search_host          *)
(*   src/net/client/redundant.rs  the server iteration the resolver         *)
(*                            delegates to (Init / Probe / Wait / Report)    *)
(*   src/net/client/dgram_stream.rs  UDP first, TCP when truncated           *)
(*                                                                           *)
(* Properties a user of the resolver relies on (each for every configuration,*)
(* every behaviour of the upstream servers — answer, NXDOMAIN, SERVFAIL,     *)
(* REFUSED, FORMERR, truncation, transport error, late or no reply — and     *)
(* every timing):                                                            *)
(*  P1 bounded work, honest result.  Every query ends, at the latest        *)
(*     options.timeout after each (re)start; it sends at most one request    *)
(*     per server and transport per round (two rounds only after FORMERR)    *)
(*     and returns either a response that one of the servers really gave     *)
(*     for exactly this question, or an error.  Failures are only reported   *)
(*     once every server has been asked (unless the time is up).             *)
(*  P2 search rules.  search_host only ever asks for names made of the       *)
(*     caller's name and a suffix of the search list (or the root), in list  *)
(*     order, the name as-is first when it has at least ndots dots and last  *)
(*     otherwise; it returns the first non-empty answer and else the result  *)
(*     of the as-is lookup; lookup_host on an absolute name never expands.   *)
(*  P3 transports.  With use_vc (or Transport::Tcp) no datagram is ever      *)
(*     sent; otherwise a truncated UDP response is followed by the same      *)
(*     question over TCP to the same server and the truncated response is    *)
(*     never what the caller gets.                                           *)
(*  P4 no crash: the server iteration never reaches its panic!() branch.     *)
(*                                                                           *)
(* Structure.  Four nested machines, one action per step of the code:        *)
(*   S_*  search_host (candidate loop)      L_*  lookup_host (A, then AAAA)  *)
(*   Q_*  stub::Query::run / run_query      R_*  redundant::Query            *)
(* and the operator Exchange for dgram_stream / multi_stream.  Time is       *)
(* explicit (ticks): every request has a latency chosen by the environment,  *)
(* the machine jumps from event to event (reply, RTT timer of the current    *)
(* probe, options.timeout).  lookup_host runs its two questions concurrently;*)
(* they share nothing but RTT statistics, the specification runs them one    *)
(* after the other.                                                          *)
(*                                                                           *)
(* What the options really do today (documented otherwise in conf.rs):       *)
(* `attempts`, `rotate`, `ndots` and the per-server `request_timeout`,       *)
(* `recv_size`, `udp_payload_size` are never read; the order of servers is   *)
(* the RTT order of `redundant` (configuration order on a fresh resolver,    *)
(* with probability 1/20 one other server first).  Deviations (Dev):         *)
(*   D_first_failure_final  redundant runs with defer_* = false: the first   *)
(*        SERVFAIL / REFUSED / transport error ends the query although other *)
(*        servers were never asked ("SERVFAIL: go to next server" says the   *)
(*        comment in Query::run)                                             *)
(*   D_ndots_ignored        search_host never asks for the name as-is first  *)
(* Modelled as built (no documented rule is broken): the as-is name is       *)
(* asked twice by a failing search when the root is on the search list (it   *)
(* always is after ResolvConf::finalize / parse_search); after FORMERR the   *)
(* identical request is sent once more (disable_edns only flips a flag no    *)
(* one reads; the OPT record is added by the dgram transport regardless).    *)
EXTENDS Integers, Sequences, FiniteSets, TLC

CONSTANTS
  NSSet,        \* numbers of upstream servers
  SearchSet,    \* search lists: sequences of suffix numbers, 0 = the root
  NDotsSet, DotsSet,   \* options.ndots / dots in the caller's name
  CallSet,      \* the public call: "query" (StubResolver::query, one question),
                \* "lookup" (lookup_host on the absolute name), "search" (search_host)
  TooLongSet,   \* sets of suffixes whose concatenation exceeds 255 octets
  ModeSet,      \* "mock": opaque SendRequest connections; "sock": dgram_stream / multi_stream
  UseVcSet,     \* options.use_vc
  TcpOnlySet,   \* sets of servers configured with Transport::Tcp
  TmoSet,       \* options.timeout (ticks)
  Est,          \* DEFAULT_RT of redundant (ticks)
  Outs, TcpOuts, Lats,  \* environment alphabet
  FreshEvery,   \* TRUE: every question meets fresh RTT statistics (harness)
  Dev

Never == 9999
None  == [none |-> TRUE]

Defer       == "D_first_failure_final" \notin Dev
HonourNdots == "D_ndots_ignored" \notin Dev

Cfgs == {c \in [ns : NSSet, search : SearchSet, ndots : NDotsSet, dots : DotsSet,
                call : CallSet, toolong : TooLongSet, mode : ModeSet, usevc : UseVcSet,
                tcponly : TcpOnlySet, tmo : TmoSet] :
           /\ c.tcponly \subseteq 1..c.ns
           /\ (c.mode = "mock" => (c.tcponly = {} /\ ~c.usevc))}

Entries == [u : Outs, t : TcpOuts, lat : Lats]
Scripts(n) == [1..n -> Entries]

VARIABLES
  cfg,
  \* search_host
  sph, pos, role, saved, sres, qs, lks,
  \* lookup_host
  lph, lc, la, lres,
  \* stub::Query
  qph, qt, perr, edns, round, qres, script, world0,
  \* redundant::Query
  rst, order, ind, pend, est, tdue, ddl, now, defRep, defErr, rres, fresh,
  \* history of the current question
  reqs, tie

svars == <<sph, pos, role, saved, sres, lks>>
lvars == <<lph, lc, la, lres>>
qvars == <<qph, qt, perr, edns, round, qres, script, world0, qs>>
rvars == <<rst, order, ind, pend, est, tdue, ddl, now, defRep, defErr, rres, fresh>>
hvars == <<reqs, tie>>
vars  == <<cfg, svars, lvars, qvars, rvars, hvars>>

Servers == 1..cfg.ns

Resp(s, via, out) == [ok |-> TRUE, out |-> out, from |-> s, via |-> via]
ErrR(kind)        == [ok |-> FALSE, kind |-> kind]

-----------------------------------------------------------------------------
(* dgram_stream::Request::get_response_impl / multi_stream: which messages   *)
(* one request to server s puts on the wire and what comes back.             *)
TcpFirst(s) == cfg.mode = "sock" /\ (cfg.usevc \/ s \in cfg.tcponly)
Wire(s) ==
  IF cfg.mode = "mock" THEN <<"mock">>
  ELSE IF TcpFirst(s) THEN <<"tcp">>
  ELSE IF script[s].u = "TC" THEN <<"udp", "tcp">>      \* StartTcpRequest
  ELSE <<"udp">>
Exchange(s) ==
  LET w == Wire(s)
      via == w[Len(w)]
      out == IF via = "tcp" THEN script[s].t ELSE script[s].u
  IN IF out = "Err" THEN ErrR("Other") ELSE Resp(s, via, out)

-----------------------------------------------------------------------------
(* redundant::Query *)

RECURSIVE Perms(_)
Perms(S) == IF S = {} THEN {<<>>}
            ELSE UNION {{<<x>> \o p : p \in Perms(S \ {x})} : x \in S}
Ident(n) == [i \in 1..n |-> i]
\* Query::new on fresh statistics: configuration order, or (PROBE_P) one
\* other server moved to the front
MoveFront(n, k) == <<k>> \o SelectSeq(Ident(n), LAMBDA x : x # k)
FreshOrders(n) == {Ident(n)} \cup {MoveFront(n, k) : k \in 2..n}
\* later the order follows the measured response times (not modelled)
Orders(n) == IF fresh THEN FreshOrders(n) ELSE Perms(1..n)
EstChoices == IF fresh THEN {Est} ELSE {2, Est}

Pending == {s \in Servers : pend[s] >= 0}
EventTimes == {pend[s] : s \in Pending}
              \cup (IF rst = "select" THEN {tdue} ELSE {})
              \cup {ddl}
MinOf(S) == CHOOSE x \in S : \A y \in S : x <= y
NextTime == MinOf(EventTimes)
NEvents(t) == Cardinality({s \in Pending : pend[s] = t})
              + (IF rst = "select" /\ tdue = t THEN 1 ELSE 0)
              + (IF ddl = t THEN 1 ELSE 0)
Advance(t) == /\ now' = t
              /\ tie' = (tie \/ NEvents(t) > 1)

\* skip() of redundant.rs
Skip(r) == r.ok /\ Defer /\ r.out \in {"REF", "SF"}

R_Init ==
  /\ rst = "init"
  /\ IF cfg.ns = 0
     THEN /\ rres' = ErrR("Other")          \* Error::NoTransportAvailable
          /\ rst' = "ret"
          /\ UNCHANGED ind
     ELSE /\ ind' = 1
          /\ rst' = "probe"
          /\ UNCHANGED rres
  /\ UNCHANGED <<cfg, svars, lvars, qvars, order, pend, est, tdue, ddl, now, defRep, defErr, fresh, hvars>>

\* QueryState::Probe(ind): start_request on the ind-th best server, arm the
\* timer with its estimated response time
R_Probe ==
  /\ rst = "probe"
  /\ LET s == order[ind]
         w == Wire(s)
     IN /\ reqs' = reqs \o [i \in 1..Len(w) |-> [s |-> s, tr |-> w[i], t |-> now, rd |-> round]]
        /\ pend' = [pend EXCEPT ![s] = IF script[s].lat = Never THEN Never ELSE now + script[s].lat]
        /\ tdue' = now + est[s]
  /\ rst' = "select"
  /\ UNCHANGED <<cfg, svars, lvars, qvars, order, ind, est, ddl, now, defRep, defErr, rres, fresh, tie>>

NextProbeOrWait == IF ind + 1 <= cfg.ns THEN /\ ind' = ind + 1 /\ rst' = "probe"
                   ELSE /\ rst' = "wait" /\ UNCHANGED ind

\* fut_list.next() in Probe and in Wait: one outstanding request finishes
R_Complete(s) ==
  /\ rst \in {"select", "wait"}
  /\ s \in Pending /\ pend[s] = NextTime /\ pend[s] < Never
  /\ Advance(pend[s])
  /\ pend' = [pend EXCEPT ![s] = -1]
  /\ LET r == Exchange(s)
         deferred == IF r.ok THEN Skip(r) ELSE Defer
     IN IF deferred
        THEN /\ defRep' = IF r.ok /\ defRep = None THEN r ELSE defRep
             /\ defErr' = IF ~r.ok /\ defErr = None THEN r ELSE defErr
             /\ IF rst = "select" /\ s = order[ind]
                THEN NextProbeOrWait          \* the current upstream finished
                ELSE UNCHANGED <<rst, ind>>   \* just continue receiving
             /\ UNCHANGED rres
        ELSE /\ rres' = r                     \* -> Report -> returned
             /\ rst' = "ret"
             /\ UNCHANGED <<ind, defRep, defErr>>
  /\ UNCHANGED <<cfg, svars, lvars, qvars, order, est, tdue, ddl, fresh, reqs>>

R_CompleteAny == \E s \in Servers : R_Complete(s)

\* sleep_until(timeout) in Probe
R_Timer ==
  /\ rst = "select" /\ tdue = NextTime
  /\ Advance(tdue)
  /\ NextProbeOrWait
  /\ UNCHANGED <<cfg, svars, lvars, qvars, order, pend, est, tdue, ddl, defRep, defErr, rres, fresh, reqs>>

\* Wait with nothing outstanding: prefer a reply over an error
R_WaitEmpty ==
  /\ rst = "wait" /\ Pending = {}
  /\ rres' = IF defRep # None THEN defRep ELSE defErr
  /\ rst' = "ret"
  /\ UNCHANGED <<cfg, svars, lvars, qvars, order, ind, pend, est, tdue, ddl, now, defRep, defErr, fresh, hvars>>

-----------------------------------------------------------------------------
(* stub::Query *)

\* the environment decides how every server treats this question; the
\* as-is name can be asked twice by one search and gets the same treatment
Q_NewWith(sc) ==
  /\ qph = "new"
  /\ perr' = ErrR("TimedOut")        \* "all timed out"
  /\ edns' = TRUE
  /\ round' = 0
  /\ script' = sc
  /\ (lc = 0 /\ world0[qt].set) => sc = world0[qt].sc
  /\ world0' = IF lc = 0 /\ cfg.call = "search" THEN [world0 EXCEPT ![qt] = [set |-> TRUE, sc |-> sc]] ELSE world0
  /\ now' = 0 /\ reqs' = <<>> /\ tie' = tie
  /\ qs' = Append(qs, <<lc, qt>>)
  /\ fresh' = (FreshEvery \/ qs = <<>>)
  /\ qph' = "send"
  /\ UNCHANGED <<cfg, svars, lvars, qt, qres, rst, order, ind, pend, est, tdue, ddl, defRep, defErr, rres>>
Q_New == \E sc \in (IF lc = 0 /\ world0[qt].set THEN {world0[qt].sc} ELSE Scripts(cfg.ns)) : Q_NewWith(sc)

\* run_query: get_transport, send_request (GetRT, Query::new), timeout(..)
Q_RunQuery ==
  /\ qph = "send"
  /\ round' = round + 1
  /\ ddl' = now + cfg.tmo
  /\ order' \in Orders(cfg.ns)
  /\ est' \in [Servers -> EstChoices]
  /\ pend' = [s \in Servers |-> -1]
  /\ defRep' = None /\ defErr' = None /\ ind' = 0 /\ tdue' = 0
  /\ rst' = "init"
  /\ qph' = "await"
  /\ UNCHANGED <<cfg, svars, lvars, qt, perr, edns, qres, script, world0, qs, now, rres, fresh, hvars>>

\* timeout(options.timeout, ..) elapses: everything outstanding is dropped
Q_Timeout ==
  /\ qph = "await" /\ rst \in {"select", "wait"}
  /\ ~(rst = "wait" /\ Pending = {})
  /\ ddl = NextTime
  /\ Advance(ddl)
  /\ rres' = ErrR("TimedOut")
  /\ rst' = "ret"
  /\ pend' = [s \in Servers |-> -1]
  /\ UNCHANGED <<cfg, svars, lvars, qvars, order, ind, est, tdue, ddl, defRep, defErr, fresh, reqs>>

\* the match in Query::run
Q_Classify ==
  /\ qph = "await" /\ rst = "ret"
  /\ rst' = "off"
  /\ fresh' = (fresh /\ ~(rres.ok /\ rres.out = "FE" /\ edns))   \* Report: statistics moved
  /\ IF rres.ok /\ rres.out = "FE" /\ edns
     THEN /\ edns' = FALSE            \* "turn off EDNS and try again"
          /\ qph' = "send"
          /\ UNCHANGED <<perr, qres>>
     ELSE IF rres.ok /\ rres.out = "SF"
     THEN /\ perr' = rres             \* update_error_servfail; return self.error
          /\ qres' = rres /\ qph' = "ret" /\ UNCHANGED edns
     ELSE IF rres.ok
     THEN /\ qres' = rres /\ qph' = "ret" /\ UNCHANGED <<perr, edns>>
     ELSE \* update_error
          /\ perr' = IF rres.kind # "TimedOut" /\ ~perr.ok THEN rres ELSE perr
          /\ qres' = perr' /\ qph' = "ret" /\ UNCHANGED edns
  /\ UNCHANGED <<cfg, svars, lvars, qt, round, script, world0, qs, order, ind, pend, est, tdue, ddl, now, defRep, defErr, rres, hvars>>

-----------------------------------------------------------------------------
(* lookup_host: FoundHosts::new(aaaa, a) *)

NData(r) == IF r.ok /\ r.out = "Data" THEN 1 ELSE 0
Found(c, a, a4) ==
  IF ~a.ok /\ ~a4.ok THEN [found |-> FALSE, kind |-> a4.kind]
  ELSE [found |-> TRUE, cand |-> c, empty |-> (NData(a) + NData(a4) = 0), n |-> NData(a) + NData(a4)]
NonEmpty(r) == r.found /\ ~r.empty

StartLookup(c) == /\ lph' = "A" /\ lc' = c /\ qt' = "A" /\ qph' = "new"
                  /\ UNCHANGED <<la, lres>>

L_ADone ==
  /\ lph = "A" /\ qph = "ret"
  /\ la' = qres
  /\ lph' = "AAAA" /\ qt' = "AAAA" /\ qph' = "new"
  /\ UNCHANGED <<cfg, svars, lc, lres, perr, edns, round, qres, script, world0, qs, rvars, hvars>>

L_Join ==
  /\ lph = "AAAA" /\ qph = "ret"
  /\ lres' = Found(lc, la, qres)
  /\ lph' = "ret" /\ qph' = "idle"
  /\ UNCHANGED <<cfg, svars, lc, la, qt, perr, edns, round, qres, script, world0, qs, rvars, hvars>>

-----------------------------------------------------------------------------
(* search_host *)

AsIsFirst == cfg.call = "search" /\ HonourNdots /\ cfg.dots >= cfg.ndots

S_Begin ==
  /\ sph = "begin"
  /\ IF cfg.call = "query"
     THEN /\ lc' = 0 /\ qt' = "A" /\ qph' = "new" /\ role' = "query" /\ sph' = "await"
          /\ UNCHANGED <<lph, la, lres>>
     ELSE IF cfg.call = "lookup" THEN /\ StartLookup(0) /\ role' = "final" /\ sph' = "await"
     ELSE IF AsIsFirst THEN /\ StartLookup(0) /\ role' = "first" /\ sph' = "await"
     ELSE /\ sph' = "iter" /\ UNCHANGED <<role, lvars, qt, qph>>
  /\ UNCHANGED <<cfg, pos, saved, sres, lks, perr, edns, round, qres, script, world0, qs, rvars, hvars>>

\* for suffix in resolver.search_iter() { if let Ok(name) = qname.chain(suffix) ..
S_Iter ==
  /\ sph = "iter"
  /\ IF pos <= Len(cfg.search)
     THEN LET k == cfg.search[pos]
          IN /\ pos' = pos + 1
             /\ IF k \in cfg.toolong \/ (k = 0 /\ saved # None)
                THEN UNCHANGED <<sph, role, lvars, qt, qph>>
                ELSE /\ StartLookup(k) /\ role' = "try" /\ sph' = "await"
     ELSE /\ sph' = "fallback" /\ UNCHANGED <<pos, role, lvars, qt, qph>>
  /\ UNCHANGED <<cfg, saved, sres, lks, perr, edns, round, qres, script, world0, qs, rvars, hvars>>

\* lookup_host(resolver, qname.chain_root()).await
S_Fallback ==
  /\ sph = "fallback"
  /\ IF saved # None
     THEN /\ sres' = saved /\ sph' = "done" /\ UNCHANGED <<role, lvars, qt, qph>>
     ELSE /\ StartLookup(0) /\ role' = "final" /\ sph' = "await" /\ UNCHANGED sres
  /\ UNCHANGED <<cfg, pos, saved, lks, perr, edns, round, qres, script, world0, qs, rvars, hvars>>

S_LookupDone ==
  /\ sph = "await" /\ lph = "ret"
  /\ lph' = "idle"
  /\ lks' = Append(lks, [c |-> lc, res |-> lres, role |-> role])
  /\ IF role = "final" \/ NonEmpty(lres)
     THEN /\ sres' = lres /\ sph' = "done" /\ UNCHANGED saved
     ELSE /\ saved' = IF role = "first" THEN lres ELSE saved
          /\ sph' = "iter" /\ UNCHANGED sres
  /\ UNCHANGED <<cfg, pos, role, lc, la, lres, qvars, rvars, hvars>>

\* StubResolver::query called directly
S_QueryDone ==
  /\ sph = "await" /\ role = "query" /\ qph = "ret"
  /\ sres' = qres /\ sph' = "done" /\ qph' = "idle"
  /\ UNCHANGED <<cfg, pos, role, saved, lks, lvars, qt, perr, edns, round, qres, script, world0, qs, rvars, hvars>>

-----------------------------------------------------------------------------
Init ==
  /\ cfg \in Cfgs
  /\ sph = "begin" /\ pos = 1 /\ role = "none" /\ saved = None /\ sres = None
  /\ qs = <<>> /\ lks = <<>>
  /\ lph = "idle" /\ lc = 0 /\ la = None /\ lres = None
  /\ qph = "idle" /\ qt = "A" /\ perr = None /\ edns = TRUE /\ round = 0 /\ qres = None
  /\ script = <<>> /\ world0 = [q \in {"A", "AAAA"} |-> [set |-> FALSE, sc |-> <<>>]]
  /\ rst = "off" /\ order = <<>> /\ ind = 0 /\ pend = <<>> /\ est = <<>>
  /\ tdue = 0 /\ ddl = 0 /\ now = 0 /\ defRep = None /\ defErr = None /\ rres = None
  /\ fresh = TRUE
  /\ reqs = <<>> /\ tie = FALSE

Next == \/ S_Begin \/ S_Iter \/ S_Fallback \/ S_LookupDone \/ S_QueryDone
        \/ L_ADone \/ L_Join
        \/ Q_New \/ Q_RunQuery \/ Q_Timeout \/ Q_Classify
        \/ R_Init \/ R_Probe \/ R_Timer \/ R_WaitEmpty
        \/ R_CompleteAny

Spec == Init /\ [][Next]_vars /\ WF_vars(Next)

-----------------------------------------------------------------------------
(* P1 *)

\* what server s said on transport tr, according to the script
Said(s, tr) == IF tr = "tcp" THEN script[s].t ELSE script[s].u

\* a returned response was given by a server, for this question, in this query
Honest ==
  (qph = "ret" /\ qres.ok) =>
     \E i \in 1..Len(reqs) : /\ reqs[i].s = qres.from /\ reqs[i].tr = qres.via
                             /\ Said(qres.from, qres.via) = qres.out

ReqCount(s, tr, rd) == Cardinality({i \in 1..Len(reqs) : reqs[i].s = s /\ reqs[i].tr = tr /\ reqs[i].rd = rd})
AtMostOncePerRound ==
  /\ round <= 2
  /\ \A s \in Servers, tr \in {"mock", "udp", "tcp"}, rd \in 1..2 : ReqCount(s, tr, rd) <= 1
  /\ (round = 2 => \E i \in 1..Len(reqs) : reqs[i].rd = 1 /\ Said(reqs[i].s, reqs[i].tr) = "FE")

\* the caller never waits longer than options.timeout per round
InTime == (qph = "ret") => now <= round * cfg.tmo

Failure(r) == (~r.ok /\ r.kind = "Other") \/ (r.ok /\ r.out \in {"SF", "REF"})
\* (ideal) a failure is reported only after every server has been asked
EveryServerAsked ==
  (qph = "ret" /\ Failure(qres) /\ cfg.ns > 0) =>
     \A s \in Servers : \E i \in 1..Len(reqs) : reqs[i].s = s /\ reqs[i].rd = round

\* P4: the panic!() in QueryState::Wait is unreachable
NoPanic == (rst = "wait" /\ Pending = {}) => (defRep # None \/ defErr # None)

(* P3 *)
NoDatagramWithVc ==
  \A i \in 1..Len(reqs) : (cfg.usevc \/ reqs[i].s \in cfg.tcponly) => reqs[i].tr # "udp"
TruncationRetriedOverTcp ==
  \A i \in 1..Len(reqs) :
     (reqs[i].tr = "udp" /\ script[reqs[i].s].u = "TC") =>
        /\ i < Len(reqs) /\ reqs[i + 1].s = reqs[i].s /\ reqs[i + 1].tr = "tcp"
NeverTruncatedFromUdp == (qph = "ret" /\ qres.ok /\ qres.out = "TC") => qres.via # "udp"

(* P2 *)
NonRoot(sq) == SelectSeq(sq, LAMBDA k : k # 0)
Usable(sq)  == SelectSeq(sq, LAMBDA k : k \notin cfg.toolong)
\* the documented candidate order
Plan == IF cfg.call # "search" THEN <<0>>
        ELSE IF AsIsFirst THEN <<0>> \o NonRoot(Usable(cfg.search))
        ELSE Usable(cfg.search) \o <<0>>
IsPrefix(a, b) == Len(a) <= Len(b) /\ \A i \in 1..Len(a) : a[i] = b[i]
\* every lookup asks A then AAAA for one candidate; candidates follow Plan
Asked == [i \in 1..Len(qs) |-> qs[i][1]]
Twice(sq) == [i \in 1..(2 * Len(sq)) |-> sq[(i + 1) \div 2]]
SearchOrder ==
  IF cfg.call = "query" THEN IsPrefix(qs, << <<0, "A">> >>)
  ELSE /\ IsPrefix(Asked, Twice(Plan))
       /\ \A i \in 1..Len(qs) : qs[i][2] = IF i % 2 = 1 THEN "A" ELSE "AAAA"
       /\ IsPrefix([i \in 1..Len(lks) |-> lks[i].c], Plan)
\* the result: the first non-empty lookup, else the as-is lookup
SearchResult ==
  (sph = "done" /\ cfg.call # "query") =>
     LET hits == {i \in 1..Len(lks) : NonEmpty(lks[i].res)}
     IN IF hits # {}
        THEN /\ sres = lks[MinOf(hits)].res
             /\ MinOf(hits) = Len(lks)              \* nothing asked afterwards
        ELSE /\ [i \in 1..Len(lks) |-> lks[i].c] = Plan
             /\ \E i \in 1..Len(lks) : lks[i].c = 0 /\ sres = lks[i].res
             /\ (sres.found => sres.cand = 0)
FoundIsForCandidate == \A i \in 1..Len(lks) : lks[i].res.found => lks[i].res.cand = lks[i].c

Terminates == <>(sph = "done")

-----------------------------------------------------------------------------
(* projections compared with the implementation (servers count from 0 there) *)
ViaNum(v) == CASE v = "mock" -> 1 [] v = "udp" -> 2 [] OTHER -> 3
ResJson(r) == IF r.ok THEN [ok |-> [out |-> r.out, from |-> r.from - 1, via |-> ViaNum(r.via)]]
              ELSE [err |-> r.kind]
FoundJson(r) == IF r.found THEN [found |-> [cand |-> r.cand, empty |-> r.empty, n |-> r.n]]
                ELSE [err |-> r.kind]
=============================================================================
