CONSTANTS
  Sites <- SiteTable
  BITS = 6
SPECIFICATION GenSpec
INVARIANT EmitWindow
CHECK_DEADLOCK FALSE
