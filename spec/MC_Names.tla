------------------------------ MODULE MC_Names ------------------------------
(* C03, representation clauses: text <-> name and wire <-> name round     *)
(* trips, operations at label boundaries, chains, uncertain names and the *)
(* zone-file owner-name scanner, as TLC-generated cases.  Expectations    *)
(* come from Names.tla (validity, wire format, label algebra), from the   *)
(* presentation sub-model below (RFC 1035 5.1 text) and, for texts near   *)
(* the length limits, from running NameBuilder.tla over the symbols.      *)
EXTENDS NameBuilder, Json, FiniteSets

CONSTANTS Alpha,      \* octets labels are made of
          MaxLab,     \* longest label in one-label names
          Pairs,      \* BOOLEAN: two-label names from the long label set
          TextChars,  \* code points arbitrary texts are made of
          MaxText,    \* longest arbitrary text
          WireOcts,   \* octets arbitrary wire strings are made of
          MaxWire     \* longest arbitrary wire string

VARIABLES mode, val
nvars == <<mode, val>>

---------------------------------------------------------------------------
(* Presentation sub-model *)

SpecialChars == {46, 92, 32, 34, 40, 41, 59, 64}     \* . \ space " ( ) ; @
EscOctet(b) == IF b \in SpecialChars THEN <<92, b>>
               ELSE IF b < 33 \/ b > 126
               THEN <<92, 48 + (b \div 100), 48 + ((b \div 10) % 10), 48 + (b % 10)>>
               ELSE <<b>>
PresentLabel(l) == Concat([i \in 1..Len(l) |-> EscOctet(l[i])])
RECURSIVE PresentRel(_)
PresentRel(n) == IF n = <<>> THEN <<>>
                 ELSE IF Len(n) = 1 THEN PresentLabel(n[1])
                 ELSE PresentLabel(n[1]) \o <<46>> \o PresentRel(Tail(n))
PresentAbs(n) == IF n = <<>> THEN <<46>> ELSE PresentRel(n) \o <<46>>

Bad == [ok |-> FALSE]
IsDigit(c) == c >= 48 /\ c <= 57
\* reads RFC 1035 5.1 text: labels separated by unescaped dots, `\X` and
\* `\DDD` escapes; a trailing dot makes the name absolute
RECURSIVE ScanFrom(_, _, _, _)
ScanFrom(t, p, cur, acc) ==
  IF p > Len(t)
  THEN IF cur = <<>> THEN [ok |-> TRUE, abs |-> acc # <<>>, name |-> acc]
       ELSE [ok |-> TRUE, abs |-> FALSE, name |-> Append(acc, cur)]
  ELSE LET c == t[p] IN
    IF c = 46 THEN (IF cur = <<>> THEN Bad ELSE ScanFrom(t, p + 1, <<>>, Append(acc, cur)))
    ELSE IF c = 92
    THEN IF p + 1 > Len(t) THEN Bad
         ELSE LET d == t[p + 1] IN
           IF IsDigit(d)
           THEN IF p + 3 > Len(t) THEN Bad
                ELSE IF ~IsDigit(t[p + 2]) \/ ~IsDigit(t[p + 3]) THEN Bad
                ELSE LET v == (d - 48) * 100 + (t[p + 2] - 48) * 10 + (t[p + 3] - 48)
                     IN IF v > 255 THEN Bad ELSE ScanFrom(t, p + 4, Append(cur, v), acc)
           ELSE IF d < 32 \/ d > 126 THEN Bad
           \* `\[` at the start of a label announces an RFC 2673 binary label,
           \* which is refused (NameBuilder.tla, symbol kind "bracket")
           ELSE IF d = 91 /\ cur = <<>> THEN Bad
           ELSE ScanFrom(t, p + 2, Append(cur, d), acc)
    ELSE IF c < 32 \/ c > 126 THEN Bad
    ELSE ScanFrom(t, p + 1, Append(cur, c), acc)
ScanText(t) == IF t = <<46>> THEN [ok |-> TRUE, abs |-> TRUE, name |-> <<>>]
               ELSE ScanFrom(t, 1, <<>>, <<>>)

Err == <<"err">>
\* what the three text entry points must return
TextAsName(t) ==           \* Name::from_str: always absolute, "" is not a name
  LET r == ScanText(t)
  IN IF t = <<>> \/ ~r.ok THEN Err
     ELSE IF ~ValidAbs(r.name) THEN Err ELSE <<"abs", ToWireAbs(r.name)>>
TextAsUncertain(t) ==
  LET r == ScanText(t)
  IN IF ~r.ok THEN Err
     ELSE IF r.abs THEN (IF ValidAbs(r.name) THEN <<"abs", ToWireAbs(r.name)>> ELSE Err)
     ELSE (IF ValidRel(r.name) THEN <<"rel", ToWireRel(r.name)>> ELSE Err)
TextAsRelative(t) ==
  LET r == ScanText(t)
  IN IF ~r.ok \/ r.abs \/ ~ValidRel(r.name) THEN Err ELSE <<"rel", ToWireRel(r.name)>>

\* one label written as text (OwnedLabel::from_str / from_chars): the symbols
\* of the text with no unescaped dot; the empty text is the empty (root) label
TextAsLabel(t) ==
  LET r == ScanFrom(t, 1, <<>>, <<>>)
  IN IF t = <<>> THEN <<"lab", <<>>>>
     ELSE IF ~r.ok \/ r.abs \/ Len(r.name) # 1 THEN Err
     ELSE IF Len(r.name[1]) > 63 THEN Err ELSE <<"lab", r.name[1]>>
\* ... except that what a backslash before a character that is no printable
\* ASCII means for a single label is left open (the name readers refuse it)
RECURSIVE LabFreeFrom(_, _)
LabFreeFrom(t, p) ==
  IF p >= Len(t) THEN FALSE
  ELSE IF t[p] # 92 THEN LabFreeFrom(t, p + 1)
  ELSE IF t[p + 1] < 32 \/ t[p + 1] > 126 THEN TRUE
  ELSE IF IsDigit(t[p + 1]) THEN LabFreeFrom(t, p + 4)
  ELSE LabFreeFrom(t, p + 2)
LabelTextFree(t) == LabFreeFrom(t, 1)

\* a text the zone-file tokenizer takes as one unquoted token standing for
\* itself: no unescaped blank, line end, quote, parenthesis or semicolon, and
\* not the bare `@` (the origin) or `\#` (RFC 3597 marker of unknown record
\* data).  (Conservative: a special character counts as escaped only if
\* exactly one backslash precedes it.)  What `\[` at the start of a label
\* means in a zone file is left open (the zone-file reader takes it for `[`,
\* the other readers refuse it as the start of a binary label).
ZoneSpecials == {9, 10, 13, 32, 34, 40, 41, 59}
ZoneTokenSafe(t) ==
  /\ t # <<>> /\ t # <<64>> /\ t # <<92, 35>>
  /\ ~\E p \in 1..(Len(t) - 1) : t[p] = 92 /\ t[p + 1] = 91 /\ (p = 1 \/ t[p - 1] = 46)
  /\ \A p \in 1..Len(t) :
        t[p] \in ZoneSpecials => (p > 1 /\ t[p - 1] = 92 /\ (p = 2 \/ t[p - 2] # 92))

\* the symbols of presentation format (base::scan::Symbol) and the octet
\* each stands for: an unescaped character must be printable ASCII, the two
\* escaped forms carry their octet
SymOctet(sym) == IF sym[1] = "char" THEN (IF sym[2] >= 32 /\ sym[2] <= 126 THEN sym[2] ELSE -1)
                 ELSE sym[2]
\* push_symbol on a builder that holds the text `pre` ("" or "a"): the
\* relative name finish() returns afterwards and whether a label is open
SymPush(pre, sym) ==
  LET o == SymOctet(sym)
      isdot == sym = <<"char", 46>>
  IN IF isdot THEN (IF pre = <<>> THEN Err ELSE <<"rel", ToWireRel(<<pre>>), 0>>)
     ELSE IF sym = <<"simple", 91>> /\ pre = <<>> THEN Err
     ELSE IF o = -1 THEN Err
     ELSE <<"rel", ToWireRel(<<Append(pre, o)>>), 1>>

---------------------------------------------------------------------------
(* Enumerated domains *)

RECURSIVE SeqsUpTo(_, _)
SeqsUpTo(S, n) == IF n = 0 THEN {<<>>}
                  ELSE LET P == SeqsUpTo(S, n - 1)
                       IN P \cup {Append(p, x) : p \in {q \in P : Len(q) = n - 1}, x \in S}
Labs(m) == SeqsUpTo(Alpha, m) \ {<<>>}
L1 == Labs(1)
LM == Labs(MaxLab)
\* every octet value alone, inside a label, first and last in a label
OctetNames == UNION {{ << <<b>> >>, << <<97, b, 98>> >>, << <<b, 97>>, <<98, b>> >> } : b \in 0..255}
NameSet == {<<>>} \cup {<<a>> : a \in LM}
           \cup {<<a, b>> : a \in (IF Pairs THEN LM ELSE L1), b \in (IF Pairs THEN LM ELSE L1)}
           \cup {<<a, b, c>> : a \in L1, b \in L1, c \in L1}
           \cup OctetNames
\* every code point up to U+017F and some beyond, in each of its spellings
\* (plain, after a backslash, as a decimal escape -- also of values above
\* 255), alone, inside a label, after an escape sequence, as a label of its own
CodePoints == 0..383 \cup {8232, 65533, 128512, 1114111}
Dec3(v) == <<48 + (v \div 100), 48 + ((v \div 10) % 10), 48 + (v % 10)>>
Spellings(c) == {<<c>>, <<92, c>>} \cup (IF c <= 383 THEN {<<92>> \o Dec3(c)} ELSE {})
SpellCtx == {<< <<>>, <<>> >>, << <<97>>, <<98>> >>, << <<92, 48, 57, 55>>, <<>> >>,
             << <<97, 46>>, <<46, 98>> >>}
SpellTexts == {x[1] \o sp \o x[2] : x \in SpellCtx, sp \in UNION {Spellings(c) : c \in CodePoints}}
TextSet == SeqsUpTo(TextChars, MaxText) \cup SpellTexts
SymSet == {<<"char", c>> : c \in CodePoints}
          \cup {<<"simple", b>> : b \in 0..255} \cup {<<"dec", b>> : b \in 0..255}

\* label-length shapes around the limits (contents all 'a')
B3 == <<63, 63, 63>>
Ones(k) == [i \in 1..k |-> 1]
Shapes == {B3 \o <<a>> : a \in 57..64}
          \cup {B3 \o <<a, b>> : a \in 55..62, b \in 1..5}
          \cup {B3 \o <<a, 1, b>> : a \in 54..59, b \in 1..3}
          \cup {<<1>>, <<62>>, <<63>>, <<64>>, <<65>>, <<63, 64>>, <<64, 1>>}
          \cup {Ones(k) : k \in 125..129}

\* zone-file owner fields (relative to $ORIGIN example.); the reader shares
\* the text rules, and an empty label anywhere but as the final dot is an error
ZoneOwners == {<<97>>, <<97, 46, 98>>, <<97, 46, 46, 98>>, <<97, 46, 46>>, <<97, 46, 46, 46>>,
               <<97, 46, 98, 46>>, <<97, 46, 46, 98, 46>>, <<46, 97>>, <<46, 46>>, <<97, 46, 98, 46, 46, 99>>,
               <<97, 92, 46, 46, 98>>, <<97, 46, 92, 48, 52, 54, 46, 98>>, <<92, 46, 46, 46, 97>>,
               <<97, 46, 46, 98, 46, 46, 99, 46>>}

---------------------------------------------------------------------------
(* mode "name": a valid name, all its representations and pieces *)

Off(n, j) == SumSeq([i \in 1..j |-> 1 + Len(n[i])])      \* octet index where label j+1 starts
NameCase(n) ==
  LET k == Len(n)
      w == ToWireAbs(n)
      w0 == ToWireAbs(LowerName(n))
      e == [valid |-> TRUE,
            \* from_str / from_chars of the library's own Display, with and without final dot
            disp |-> w, chars |-> w, dot |-> w,
            \* Name::parse from a parser positioned at the wire format
            parse |-> w,
            \* the library's reading of the specification's text
            pres |-> <<"abs", w>>,
            unc  |-> <<"abs", w>>,
            uncrel |-> <<"rel", ToWireRel(n)>>,
            reld |-> <<"rel", ToWireRel(n)>>,
            \* UncertainName: text of the absolute / relative value read back
            uncdisp |-> <<"abs", w>>,
            uncreldisp |-> <<"rel", ToWireRel(n)>>,
            \* every label boundary of the absolute name: [index, left, right]
            splits |-> [j \in 1..(k + 1) |->
                          <<Off(n, j - 1), ToWireRel(SubSeq(n, 1, j - 1)), ToWireAbs(SubSeq(n, j, k))>>],
            \* indexes 0..len that are no boundary (must be refused)
            nonb |-> (Len(w) + 1) - (k + 1),
            parent |-> IF k = 0 THEN <<"none">> ELSE <<"abs", ToWireAbs(Parent(n))>>,
            \* every label boundary of the relative name
            rsplits |-> [j \in 1..(k + 1) |->
                          <<Off(n, j - 1), ToWireRel(SubSeq(n, 1, j - 1)), ToWireRel(SubSeq(n, j, k))>>],
            rnonb |-> (Len(w) + 1) - (k + 1),
            rparent |-> IF k = 0 THEN <<"none">> ELSE <<"rel", ToWireRel(Tail(n))>>,
            \* canonical form (make_canonical, to_canonical, compose_canonical):
            \* ASCII upper case letters lowered, no other octet touched
            canon |-> w0, relcanon |-> ToWireRel(LowerName(n)),
            \* every label on its own: its text read back as a label (OwnedLabel),
            \* rebuilt from its octets (Label::from_slice ...); is it the wildcard label
            labs |-> n,
            wild |-> [i \in 1..k |-> n[i] = Star],
            ndots |-> IF k = 0 THEN 0 ELSE k - 1,
            \* every other view of / conversion between representations of the
            \* same value (AsRef, Borrow, for_ref, as_octets, into_octets, label
            \* iteration by IntoIterator, OctetsFrom, ParsedName::from, serde)
            views |-> w, rviews |-> ToWireRel(n),
            \* the absolute text as owner and as record data of a zone file,
            \* through every way of constructing the reader
            zf |-> <<"abs", w, 1>>]
  IN [in  |-> [k |-> "name", wire |-> w, rel |-> ToWireRel(n),
               text |-> PresentAbs(n), reltext |-> PresentRel(n)],
      exp |-> e,
      \* UncertainName cannot read "." and prints the root as ".."
      dev |-> IF n = <<>>
              THEN [D_uncertain_root_text |-> [e EXCEPT !.unc = Err, !.uncdisp = Err]]
              ELSE <<>>]

\* laws of the sub-model itself: reading the written text gives the name back
PresentScanLaw ==
  mode = "name" =>
    /\ ScanText(PresentAbs(val)) = [ok |-> TRUE, abs |-> TRUE, name |-> val]
    /\ ScanText(PresentRel(val)) = [ok |-> TRUE, abs |-> FALSE, name |-> val]
    /\ ValidAbs(val)
    /\ FromWire(ToWireAbs(val), 1) = [ok |-> TRUE, name |-> val, next |-> Len(ToWireAbs(val)) + 1]

---------------------------------------------------------------------------
(* mode "text": arbitrary short texts *)

\* the longest prefix of t that consists of well-formed symbols
RECURSIVE GoodUpTo(_, _)
GoodUpTo(t, p) ==
  IF p > Len(t) THEN Len(t)
  ELSE IF t[p] # 92 THEN GoodUpTo(t, p + 1)
  ELSE IF p + 1 > Len(t) THEN p - 1
  ELSE IF IsDigit(t[p + 1])
       THEN IF p + 3 > Len(t) THEN p - 1
            ELSE IF ~IsDigit(t[p + 2]) \/ ~IsDigit(t[p + 3]) THEN p - 1
            ELSE IF (t[p + 1] - 48) * 100 + (t[p + 2] - 48) * 10 + (t[p + 3] - 48) > 255 THEN p - 1
            ELSE GoodUpTo(t, p + 4)
       ELSE IF t[p + 1] < 32 \/ t[p + 1] > 126 THEN p - 1
       ELSE GoodUpTo(t, p + 2)
GoodPrefix(t) == SubSeq(t, 1, GoodUpTo(t, 1))

\* the text as record data of a zone file under $ORIGIN example.
TextInZone(t) ==
  LET r == ScanText(t)
      full == IF r.ok THEN (IF r.abs THEN r.name ELSE r.name \o <<<<101, 120, 97, 109, 112, 108, 101>>>>) ELSE <<>>
  IN IF ~ZoneTokenSafe(t) THEN <<"skip">>
     ELSE IF r.ok /\ ValidAbs(full) THEN <<"abs", ToWireAbs(full), 1>> ELSE <<"err", <<>>, 1>>
TextCase(t) ==
  LET e == [name |-> TextAsName(t), iscan |-> TextAsName(t),
            unc |-> TextAsUncertain(t), rel |-> TextAsRelative(t),
            lab |-> IF LabelTextFree(t) THEN <<"free">> ELSE TextAsLabel(t),
            zf |-> TextInZone(t)]
  IN
  [in  |-> [k |-> "text", text |-> t, labfree |-> LabelTextFree(t), zfsafe |-> ZoneTokenSafe(t)],
   \* iscan: Name::scan on an IterScanner whose only token is t
   exp |-> e,
   dev |-> (IF t = <<46>>
            THEN [D_uncertain_root_text |-> [e EXCEPT !.unc = Err]]
            ELSE <<>>)
           @@
           \* IterScanner::scan_name stops reading at a malformed escape
           \* sequence and returns the name read so far
           (LET cut == TextAsName(GoodPrefix(t))
            IN IF GoodPrefix(t) # t /\ cut # TextAsName(t)
               THEN [D_iterscanner_bad_escape |-> [e EXCEPT !.iscan = cut]]
               ELSE <<>>)]

\* the sub-model's own law for the spellings: each legal spelling of an octet
\* reads as that octet, wherever it stands
SpellLaw ==
  mode = "sym" /\ val[1] # "char" =>
    LET b == val[2]
        sp == IF val[1] = "dec" THEN <<92>> \o Dec3(b) ELSE <<92, b>>
        legal == val[1] = "dec" \/ (b >= 32 /\ b <= 126 /\ ~IsDigit(b))
    IN /\ legal => ScanText(<<97>> \o sp \o <<98>>) = [ok |-> TRUE, abs |-> FALSE, name |-> << <<97, b, 98>> >>]
       /\ ~legal => (~ScanText(<<97>> \o sp \o <<98>>).ok
                      \/ ScanText(<<97>> \o sp \o <<98>>).name # << <<97, b, 98>> >>)

---------------------------------------------------------------------------
(* mode "sym": every symbol of presentation format and the octet it stands *)
(* for; mode "const": the ready-made names; mode "rev": names made from    *)
(* numbers (decimal and hexadecimal digit labels, reverse-lookup names)    *)

SymCase(v) ==
  [in |-> [k |-> "sym", kind |-> v[1], v |-> v[2]],
   exp |-> [octet |-> SymOctet(v), fresh |-> SymPush(<<>>, v), open |-> SymPush(<<97>>, v)],
   dev |-> <<>>]

ConstCase ==
  [in |-> [k |-> "const"],
   exp |-> [root |-> <<"abs", ToWireAbs(<<>>)>>, empty |-> <<"rel", <<>>>>,
            wild |-> <<"rel", ToWireRel(<<Star>>)>>,
            rootlabel |-> <<>>, wildlabel |-> Star],
   dev |-> <<>>]

DecLabel(v) == IF v >= 100 THEN Dec3(v)
               ELSE IF v >= 10 THEN <<48 + (v \div 10), 48 + (v % 10)>> ELSE <<48 + v>>
\* (hexadecimal digits compare without regard to case, like all labels)
HexDigit(x) == IF x < 10 THEN 48 + x ELSE 87 + x
InAddrL == <<105, 110, 45, 97, 100, 100, 114>>
ArpaL == <<97, 114, 112, 97>>
Ip6L == <<105, 112, 54>>
\* RFC 1035 3.5 / RFC 3596 2.5
ReverseV4(a) == <<DecLabel(a[4]), DecLabel(a[3]), DecLabel(a[2]), DecLabel(a[1]), InAddrL, ArpaL>>
ReverseV6(a) == [i \in 1..32 |-> LET byte == a[16 - ((i - 1) \div 2)]
                                 IN IF i % 2 = 1 THEN <<HexDigit(byte % 16)>> ELSE <<HexDigit(byte \div 16)>>]
                \o <<Ip6L, ArpaL>>
V4Set == {[i \in 1..4 |-> IF i = p THEN v ELSE 10 * i] : p \in 1..4, v \in 0..255}
V6Set == {[i \in 1..16 |-> v] : v \in 0..255}
         \cup {[i \in 1..16 |-> IF i = p THEN v ELSE 0] : p \in {1, 2, 15, 16}, v \in {1, 10, 16, 171, 255}}
         \cup {<<32, 1, 13, 184, 133, 163, 0, 0, 0, 0, 138, 46, 3, 112, 115, 52>>}
RevSet == {<<"v4", a>> : a \in V4Set} \cup {<<"v6", a>> : a \in V6Set}
          \cup {<<"dec", <<v>>>> : v \in 0..255} \cup {<<"hex", <<x>>>> : x \in 0..15}
RevName(v) == CASE v[1] = "v4" -> ReverseV4(v[2]) [] v[1] = "v6" -> ReverseV6(v[2])
                [] v[1] = "dec" -> <<DecLabel(v[2][1])>> [] OTHER -> <<<<HexDigit(v[2][1])>>>>
RevCase(v) ==
  [in |-> [k |-> "rev", kind |-> v[1], a |-> v[2]],
   \* (the executor lowers ASCII letters before comparing)
   exp |-> IF v[1] \in {"v4", "v6"} THEN <<"abs", ToWireAbs(RevName(v))>> ELSE <<"rel", ToWireRel(RevName(v))>>,
   dev |-> <<>>]
\* such names are valid, and the digit labels are what the builder model's
\* append_digits step (which counts digits only) accounts for
RevLaw ==
  mode = "rev" =>
    /\ ValidAbs(RevName(val))
    /\ val[1] = "dec" =>
          LET r == AppendDigitsF(InitSt, Len(DecLabel(val[2][1])), {})
          IN r.res = "ok" /\ r.st.labs = <<Len(DecLabel(val[2][1]))>> /\ r.st.len = WireLenRel(RevName(val))

---------------------------------------------------------------------------
(* mode "wire": arbitrary short octet strings through the wire constructors; *)
(* the oracle is Names!FromWire                                              *)

RECURSIVE RelWireOk(_, _)
RelWireOk(s, p) == IF p > Len(s) THEN TRUE
                   ELSE /\ s[p] >= 1 /\ s[p] <= 63 /\ p + s[p] <= Len(s)
                        /\ RelWireOk(s, p + 1 + s[p])
\* Label::split_from: the first label (the root label included) and the rest
SplitLabel(s) == IF s = <<>> THEN Err
                 ELSE IF s[1] > 63 \/ 1 + s[1] > Len(s) THEN Err
                 ELSE <<"lab", SubSeq(s, 2, 1 + s[1]), SubSeq(s, 2 + s[1], Len(s))>>
WireCase(s) ==
  LET r == FromWire(s, 1)
      whole == r.ok /\ r.next = Len(s) + 1
      relok == RelWireOk(s, 1) /\ Len(s) <= 254
  IN [in |-> [k |-> "wire", octets |-> s],
      exp |-> [abs   |-> IF whole THEN <<"abs", s>> ELSE Err,               \* Name::from_octets / from_slice
               parse |-> IF r.ok THEN <<"abs", SubSeq(s, 1, r.next - 1)>> ELSE Err,   \* Name::parse reads a prefix
               rel   |-> IF relok THEN <<"rel", s>> ELSE Err,               \* RelativeName::from_octets / from_slice
               \* UncertainName::from_octets (the empty string is not compared)
               unc   |-> IF s = <<>> THEN <<"skip">>
                         ELSE IF whole THEN <<"abs", s>> ELSE IF relok THEN <<"rel", s>> ELSE Err,
               label |-> SplitLabel(s)],
      dev |-> <<>>]

---------------------------------------------------------------------------
(* mode "shape": names around the limits, through the text entry points  *)
(* (= NameBuilder.tla run over the symbols), the wire constructors and   *)
(* chains                                                                *)

\* push_symbol for every character of the text of shape ls (labels of 'a')
RECURSIVE RunLabels(_, _, _, _)
RunLabels(s, ls, dot, D) ==
  IF ls = <<>> THEN R("ok", s)
  ELSE LET r == PushesF(s, Head(ls), D)
       IN IF r.res # "ok" THEN r
          ELSE IF Tail(ls) = <<>> /\ ~dot THEN r
          ELSE LET d == PushSymbolF(r.st, "dot", D)
               IN IF d.res # "ok" THEN d ELSE RunLabels(d.st, Tail(ls), dot, D)
OutR(o) == <<o.kind, o.nlen, IF o.valid THEN 1 ELSE 0>>
ErrR == <<"err", 0, 1>>
\* Name::from_str
ModelName(ls, dot, D) ==
  LET r == RunLabels(InitSt, ls, dot, D)
  IN IF r.res # "ok" THEN ErrR ELSE OutR(IntoNameF(r.st).out)
\* UncertainName::from_str: relative unless the text ended in a dot
ModelUnc(ls, dot, D) ==
  LET r == RunLabels(InitSt, ls, dot, D)
  IN IF r.res # "ok" THEN ErrR
     ELSE IF r.st.open THEN OutR(FinishF(r.st).out) ELSE OutR(IntoNameF(r.st).out)
\* RelativeName::from_str: an absolute text is refused
ModelRel(ls, dot, D) ==
  LET r == RunLabels(InitSt, ls, dot, D)
  IN IF r.res # "ok" \/ ~r.st.open THEN ErrR ELSE OutR(FinishF(r.st).out)
ShapeTextObs(ls, D) ==
  [nd |-> ModelName(ls, TRUE, D), n |-> ModelName(ls, FALSE, D),
   ne |-> ModelName(ls, TRUE, D),        \* every octet written as a \DDD escape

   ud |-> ModelUnc(ls, TRUE, D), u |-> ModelUnc(ls, FALSE, D),
   rd |-> ModelRel(ls, TRUE, D), r |-> ModelRel(ls, FALSE, D)]
ShapeTextCase(ls) ==
  LET ideal == ShapeTextObs(ls, {})
      ds == {d \in DevNames : ShapeTextObs(ls, {d}) # ideal}
  IN [in |-> [k |-> "shape_text", lens |-> ls], exp |-> ideal,
      dev |-> [d \in ds |-> ShapeTextObs(ls, {d})]]

\* the text entry points of the ideal builder model agree with Names.tla
ShapeLaw ==
  mode = "shape" =>
    LET n == LabelsOf(val)
        a == IF ValidAbs(n) THEN <<"abs", WireLenAbs(n), 1>> ELSE ErrR
        r == IF ValidRel(n) THEN <<"rel", WireLenRel(n), 1>> ELSE ErrR
    IN ShapeTextObs(val, {}) = [nd |-> a, n |-> a, ne |-> a, ud |-> a, u |-> r, rd |-> ErrR, r |-> r]

\* wire constructors
ShapeWireCase(ls) ==
  LET n == LabelsOf(ls)
      a == IF ValidAbs(n) THEN <<"abs", WireLenAbs(n), 1>> ELSE ErrR
      r == IF ValidRel(n) THEN <<"rel", WireLenRel(n), 1>> ELSE ErrR
      \* a relative name made absolute (into_absolute, chain_root, an uncertain
      \* name's into_absolute)
      ra == IF ValidRel(n) THEN <<"abs", WireLenRel(n) + 1, 1>> ELSE ErrR
      ideal == [no |-> a, ns |-> a, np |-> a, ro |-> r, rs |-> r, ua |-> a, ur |-> r, fb |-> r,
                ria |-> ra, cr |-> ra, uia |-> ra,
                \* put into canonical form in place (all labels are walked)
                cn |-> a, rcn |-> r,
                \* each label on its own through the label constructors (from
                \* octets and from text): its length, or -1 if refused
                lb |-> [i \in 1..Len(ls) |-> IF ls[i] <= 63 THEN ls[i] ELSE -1]]
  IN [in |-> [k |-> "shape_wire", lens |-> ls], exp |-> ideal,
      \* UncertainName::from_octets tests a relative name against 255
      dev |-> IF WireLenRel(n) = 255 /\ \A i \in 1..Len(ls) : ls[i] <= 63
              THEN [D_uncertain_rel_255 |-> [ideal EXCEPT !.ur = <<"rel", 255, 0>>]]
              ELSE <<>>]

\* chains of the two halves of the shape at every label boundary: relative +
\* absolute must fit 255, relative + relative must fit 254
ChainRes(total, limit, kind) == IF total <= limit THEN <<kind, total, 1>> ELSE ErrR
ShapeChainCase(ls) ==
  LET k == Len(ls)
      lft(j) == WireOfLens(SubSeq(ls, 1, j))
      rgt(j) == WireOfLens(SubSeq(ls, j + 1, k))
      js == {j \in 0..k : lft(j) <= 254 /\ rgt(j) <= 254}     \* both halves are names
      jmin == CHOOSE j \in js : \A i \in js : j <= i
      jmax == CHOOSE j \in js : \A i \in js : j >= i
      n == jmax - jmin + 1
      ira == [i \in 1..n |-> ChainRes(lft(jmin + i - 1) + rgt(jmin + i - 1) + 1, 255, "abs")]
      irr == [i \in 1..n |-> ChainRes(lft(jmin + i - 1) + rgt(jmin + i - 1), 254, "rel")]
      arr == [i \in 1..n |-> IF lft(jmin + i - 1) + rgt(jmin + i - 1) = 255
                             THEN <<"rel", 255, 0>> ELSE irr[i]]
      \* ua: the left half as an uncertain (relative) name; uaa: the left half
      \* made absolute first -- the right half is then not used; r3a / r3r: the
      \* left half itself a chain of its first label and the rest (Chain::chain)
      ideal == [ra |-> ira, rr |-> irr, ua |-> ira,
                uaa |-> [i \in 1..n |-> <<"abs", lft(jmin + i - 1) + 1, 1>>],
                r3a |-> ira, r3r |-> irr]
      asis  == [ideal EXCEPT !.rr = arr, !.r3r = arr]
  IN [in |-> [k |-> "shape_chain", lens |-> ls, jmin |-> jmin, jmax |-> jmax], exp |-> ideal,
      dev |-> IF asis # ideal THEN [D_chain_rel_rel_255 |-> asis] ELSE <<>>]
ChainShapes == {ls \in Shapes : (\A i \in 1..Len(ls) : ls[i] <= 63) /\ Len(ls) <= 8
                                /\ \E j \in 0..Len(ls) : /\ WireOfLens(SubSeq(ls, 1, j)) <= 254
                                                         /\ WireOfLens(SubSeq(ls, j + 1, Len(ls))) <= 254}

---------------------------------------------------------------------------
(* mode "zone": owner fields read by zonefile::inplace::Zonefile under   *)
(* $ORIGIN example.                                                      *)

Origin == << <<101, 120, 97, 109, 112, 108, 101>> >>
ZoneCase(t) ==
  LET r == ScanText(t)
      full == IF r.ok THEN (IF r.abs THEN r.name ELSE r.name \o Origin) ELSE <<>>
      ideal == IF r.ok /\ ValidAbs(full) THEN <<"abs", ToWireAbs(full), 1>> ELSE <<"err", <<>>, 1>>
      \* today's scanner: an empty label is written as a zero length octet
      \* and scanning goes on
      RECURSIVE Raw(_, _, _)
      Raw(p, cur, acc) ==
        IF p > Len(t) THEN (IF cur = <<>> THEN [abs |-> TRUE, o |-> acc]
                            ELSE [abs |-> FALSE, o |-> acc \o <<Len(cur)>> \o cur])
        ELSE IF t[p] = 46 THEN Raw(p + 1, <<>>, acc \o <<Len(cur)>> \o cur)
        ELSE IF t[p] = 92 /\ IsDigit(t[p + 1])
             THEN Raw(p + 4, Append(cur, (t[p + 1] - 48) * 100 + (t[p + 2] - 48) * 10 + (t[p + 3] - 48)), acc)
        ELSE IF t[p] = 92 THEN Raw(p + 2, Append(cur, t[p + 1]), acc)
        ELSE Raw(p + 1, Append(cur, t[p]), acc)
      raw == Raw(1, <<>>, <<>>)
      rawwire == IF raw.abs THEN raw.o \o <<0>> ELSE raw.o \o ToWireAbs(Origin)
  IN [in |-> [k |-> "zone", owner |-> t], exp |-> ideal,
      dev |-> IF ideal[1] = "err" /\ t[1] # 46
              THEN [D_scan_name_empty_label |-> <<"abs", rawwire, 0>>] ELSE <<>>]

---------------------------------------------------------------------------
(* mode "zscan": names around the label and name limits through the       *)
(* zone-file scanner, written plainly and with escapes (the scanner has a *)
(* fast path for plain labels and a copying path once an escape has been  *)
(* seen), as owner and inside NS / MX record data.  A label is <<length,  *)
(* form>>; contents are 'a' except for the escaped octet.                 *)

ZForms == {"plain", "lead", "mid", "trail", "escdot"}
ZPos(l, f) == CASE f = "lead" -> 1 [] f = "escdot" -> 1 [] f = "mid" -> (l + 1) \div 2
                [] f = "trail" -> l [] OTHER -> 0
ZOctets(lf) == [i \in 1..lf[1] |-> IF i = ZPos(lf[1], lf[2])
                                   THEN (IF lf[2] = "escdot" THEN 46 ELSE 65) ELSE 97]
ZText(lf) == Concat([i \in 1..lf[1] |-> IF i = ZPos(lf[1], lf[2])
                                        THEN (IF lf[2] = "escdot" THEN <<92, 46>> ELSE <<92, 48, 54, 53>>)
                                        ELSE <<97>>])
RECURSIVE ZJoin(_)
ZJoin(ls) == IF ls = <<>> THEN <<>>
             ELSE IF Len(ls) = 1 THEN ZText(ls[1]) ELSE ZText(ls[1]) \o <<46>> \o ZJoin(Tail(ls))
ZShapes ==
  {<< <<l, f>> >> : l \in 62..65, f \in ZForms}
  \cup {<< <<3, "escdot">>, <<l, f>> >> : l \in 62..65, f \in ZForms}       \* after an escaped label
  \cup {<< <<l, f>>, <<3, "plain">> >> : l \in 62..65, f \in ZForms}
  \cup {<< <<63, f1>>, <<63, "plain">>, <<63, "plain">>, <<k, f2>> >> :
          f1 \in {"plain", "lead"}, k \in 59..62, f2 \in ZForms}
  \cup {<< <<63, f1>>, <<63, "plain">>, <<63, "plain">>, <<k, f2>>, <<1, "plain">> >> :
          f1 \in {"plain", "trail"}, k \in 57..60, f2 \in {"plain", "mid"}}
\* where the name stands, and whether it is written with the final dot
ZPlaces == {<<"owner", TRUE>>, <<"owner", FALSE>>, <<"ns", TRUE>>, <<"mx", TRUE>>, <<"mx", FALSE>>}
ZScanSet == {<<sh, pl>> : sh \in ZShapes, pl \in ZPlaces}

ZScanCase(v) ==
  LET sh == v[1]
      place == v[2][1]
      dot == v[2][2]
      labels == [i \in 1..Len(sh) |-> ZOctets(sh[i])]
      full == IF dot THEN labels ELSE labels \o Origin
      text == ZJoin(sh) \o (IF dot THEN <<46>> ELSE <<>>)
  IN [in |-> [k |-> "zscan", place |-> place, text |-> text],
      exp |-> IF ValidAbs(full) THEN <<"abs", ToWireAbs(full), 1>> ELSE <<"err", <<>>, 1>>,
      dev |-> <<>>]
\* the rendered text means the intended labels
ZScanLaw ==
  mode = "zscan" =>
    LET sh == val[1]
        r == ScanText(ZJoin(sh) \o <<46>>)
    IN r.ok /\ r.abs /\ r.name = [i \in 1..Len(sh) |-> ZOctets(sh[i])]

---------------------------------------------------------------------------
(* mode "parsed": names read from compressed renderings (ParsedName) and  *)
(* converted to the other representations.  Offsets are 0-based as in a   *)
(* message; a pointer must point strictly backwards.                      *)

Ptr(t) == <<192 + (t \div 256), t % 256>>
Garbage == <<63, 255, 255>>
RECURSIVE PCFrom(_, _, _, _, _)
PCFrom(m, p, acc, used, fuel) ==
  IF fuel = 0 \/ p >= Len(m) THEN Bad
  ELSE LET b == m[p + 1] IN
    IF b = 0 THEN (IF used + 1 > 255 THEN Bad ELSE [ok |-> TRUE, name |-> acc])
    ELSE IF b < 64
    THEN IF p + 1 + b > Len(m) \/ used + 1 + b + 1 > 255 THEN Bad
         ELSE PCFrom(m, p + 1 + b, Append(acc, SubSeq(m, p + 2, p + 1 + b)), used + 1 + b, fuel)
    ELSE IF b >= 192
    THEN IF p + 2 > Len(m) THEN Bad
         ELSE LET t == (b - 192) * 256 + m[p + 2]
              IN IF t >= p THEN Bad ELSE PCFrom(m, t, acc, used, fuel - 1)
    ELSE Bad
ParseCompressed(m, p) == PCFrom(m, p, <<>>, 0, 128)
\* where the parser stands afterwards: behind the root label or the first pointer
RECURSIVE EndFrom(_, _)
EndFrom(m, p) == IF m[p + 1] = 0 THEN p + 1
                 ELSE IF m[p + 1] >= 192 THEN p + 2 ELSE EndFrom(m, p + 1 + m[p + 1])

Renderings(n) ==
  LET k == Len(n)
      W(a, b) == ToWireRel(SubSeq(n, a, b))
      base == ToWireAbs(n)
      L == Len(base)
      suf(j) == ToWireAbs(SubSeq(n, j + 1, k))
  IN {[msg |-> base \o Garbage, pos |-> 0, kind |-> "flat"],
      [msg |-> base \o Ptr(0) \o Garbage, pos |-> L, kind |-> "ptr"],
      [msg |-> base \o Ptr(0) \o Ptr(L) \o Garbage, pos |-> L + 2, kind |-> "ptr-ptr"],
      [msg |-> base \o Ptr(0) \o Ptr(L) \o Ptr(L + 2) \o Garbage, pos |-> L + 4, kind |-> "ptr-ptr-ptr"]}
     \cup {[msg |-> suf(j) \o W(1, j) \o Ptr(0) \o Garbage, pos |-> Len(suf(j)), kind |-> "labels-ptr"]
             : j \in 1..k}
     \cup {[msg |-> suf(j) \o W(1, j) \o Ptr(0) \o Ptr(Len(suf(j))) \o Garbage,
            pos |-> Len(suf(j)) + Len(W(1, j)) + 2, kind |-> "ptr-to-compressed"] : j \in 1..k}
     \cup {[msg |-> suf(j) \o W(1, j) \o Ptr(0) \o Ptr(Len(suf(j)))
                    \o Ptr(Len(suf(j)) + Len(W(1, j)) + 2) \o Garbage,
            pos |-> Len(suf(j)) + Len(W(1, j)) + 4, kind |-> "ptr-ptr-to-compressed"] : j \in 1..k}
     \cup UNION {UNION {{[msg |-> suf(j) \o W(i + 1, j) \o Ptr(0) \o W(1, i) \o Ptr(Len(suf(j))) \o Garbage,
                   pos |-> Len(suf(j)) + Len(W(i + 1, j)) + 2, kind |-> "labels-ptr-labels-ptr"],
                  [msg |-> suf(j) \o W(i + 1, j) \o Ptr(0) \o W(1, i) \o Ptr(Len(suf(j)))
                           \o Ptr(Len(suf(j)) + Len(W(i + 1, j)) + 2) \o Garbage,
                   pos |-> Len(suf(j)) + Len(W(i + 1, j)) + 2 + Len(W(1, i)) + 2,
                   kind |-> "ptr-to-twice-compressed"]} : i \in 1..(j - 1)} : j \in 1..k}
PNames == {<<>>, << <<97>> >>, << <<192, 5>>, <<97>> >>, << <<97>>, <<98, 99>>, <<100>> >>,
           << <<119, 119, 119>>, <<0, 192>>, <<99, 111>>, <<117, 107>> >>,
           LabelsOf(<<63, 63, 63, 61>>), LabelsOf(<<63, 63, 63, 62>>), LabelsOf(<<63, 63, 62, 1, 62>>)}
ParsedSet == UNION {{<<n, r>> : r \in Renderings(n)} : n \in PNames}

ParsedCase(v) ==
  LET n == v[1]
      r == v[2]
      p == ParseCompressed(r.msg, r.pos)
      e == [ok |-> TRUE, labels |-> ToWireAbs(p.name), compose |-> ToWireAbs(p.name),
            flat |-> ToWireAbs(p.name), toname |-> ToWireAbs(p.name),
            \* as_flat_slice is absent or the uncompressed octets
            afs |-> "ok", eq |-> TRUE, cmp |-> TRUE,
            \* Name::from_str of the parsed name's Display gives the name
            disp |-> TRUE,
            len |-> WireLenAbs(p.name), end |-> EndFrom(r.msg, r.pos),
            \* iter_suffixes, repeated split_first ([label, rest]), repeated parent
            psuffixes |-> [j \in 1..(Len(p.name) + 1) |-> ToWireAbs(SubSeq(p.name, j, Len(p.name)))],
            psf |-> [j \in 1..Len(p.name) |->
                       <<ToWireRel(<<p.name[j]>>), ToWireAbs(SubSeq(p.name, j + 1, Len(p.name)))>>],
            ppar |-> [j \in 1..Len(p.name) |-> ToWireAbs(SubSeq(p.name, j + 1, Len(p.name)))]]
  IN [in |-> [k |-> "parsed", msg |-> r.msg, pos |-> r.pos, kind |-> r.kind],
      exp |-> IF p.ok THEN e ELSE [ok |-> FALSE],
      \* ParsedName prints the root name as the empty string
      dev |-> IF p.ok /\ p.name = <<>>
              THEN [D_parsed_root_display |-> [e EXCEPT !.disp = FALSE]] ELSE <<>>]
\* the renderings mean the name (or a too long name, which must be refused)
ParsedLaw ==
  mode = "parsed" =>
    LET p == ParseCompressed(val[2].msg, val[2].pos)
    IN IF ValidAbs(val[1]) THEN p.ok /\ p.name = val[1] ELSE ~p.ok

---------------------------------------------------------------------------
---------------------------------------------------------------------------
(* mode "ranges": every slicing entry point with every form of range      *)
(* bounds.  A bound is <<"U", -1>> (unbounded), <<"I", i>> (included) or  *)
(* <<"E", i>> (excluded); the executor calls each entry point with every  *)
(* Rust range syntax that produces these bounds (a..b, a.., ..b, ..,      *)
(* a..=b, ..=b and (Bound, Bound) tuples).  A call is either refused (the *)
(* documented panic) or returns the labels between two label boundaries;  *)
(* the tables below list exactly the accepted calls with their results.   *)
(* Slicing an absolute name yields a relative name and must therefore     *)
(* never reach past the root label: an open end is refused.               *)

RLabs == {<<97>>, <<0, 46>>}
RNames == {<<>>} \cup {<<a>> : a \in RLabs} \cup {<<a, b>> : a \in RLabs, b \in RLabs}
          \cup {<<a, b, c>> : a \in RLabs, b \in RLabs, c \in RLabs}
          \cup {LabelsOf(<<63, 63, 63, 61>>), LabelsOf(<<1, 63, 2>>)}
Bounds(n) == {Off(n, j) : j \in 0..Len(n)}          \* label starts, incl. the root label / the end
LabAt(n, x) == CHOOSE j \in 0..Len(n) : Off(n, j) = x
\* indexes tried: everything for short names, the neighbourhood of the
\* boundaries and of the end for long ones
IdxSet(n) == LET top == Len(ToWireAbs(n)) + 1
             IN IF top <= 13 THEN 0..top
                ELSE {x \in 0..top : (\E b \in Bounds(n) : x >= b - 1 /\ x <= b + 1) \/ x >= top - 2}
SortedSeq(S) == [i \in 1..Cardinality(S) |-> CHOOSE x \in S : Cardinality({y \in S : y < x}) = i - 1]
BoundList(n) == LET ix == SortedSeq(IdxSet(n))
                IN << <<"U", -1>> >> \o [i \in 1..Len(ix) |-> <<"I", ix[i]>>]
                                   \o [i \in 1..Len(ix) |-> <<"E", ix[i]>>]
\* accepted (lo, hi) pairs in the order lo-major, with the result computed by f
RangeTable(n, Acc(_, _), Val(_, _)) ==
  LET bl == BoundList(n)
      m == Len(bl)
      pairs == [i \in 1..(m * m) |-> <<bl[((i - 1) \div m) + 1], bl[((i - 1) % m) + 1]>>]
      good == SelectSeq(pairs, LAMBDA pr : Acc(pr[1], pr[2]))
  IN [i \in 1..Len(good) |->
        <<good[i][1][1], good[i][1][2], good[i][2][1], good[i][2][2], Val(good[i][1], good[i][2])>>]
StartOf(lo) == IF lo[1] = "U" THEN 0 ELSE lo[2]
EndOf(hi, open) == IF hi[1] = "U" THEN open ELSE IF hi[1] = "I" THEN hi[2] + 1 ELSE hi[2]
RangesCase(n) ==
  LET k == Len(n)
      w == ToWireAbs(n)
      relend == Len(w) - 1
      \* Name::slice / Name::range: an open end is refused
      AbsAcc(lo, hi) == /\ lo[1] # "E" /\ hi[1] # "U"
                        /\ StartOf(lo) \in Bounds(n) /\ EndOf(hi, 0) \in Bounds(n)
                        /\ StartOf(lo) <= EndOf(hi, 0)
      AbsVal(lo, hi) == ToWireRel(SubSeq(n, LabAt(n, StartOf(lo)) + 1, LabAt(n, EndOf(hi, 0))))
      \* RelativeName::slice / range: an open end is the end of the name
      RelAcc(lo, hi) == /\ lo[1] # "E"
                        /\ StartOf(lo) \in Bounds(n) /\ EndOf(hi, relend) \in Bounds(n)
                        /\ StartOf(lo) <= EndOf(hi, relend)
      RelVal(lo, hi) == ToWireRel(SubSeq(n, LabAt(n, StartOf(lo)) + 1, LabAt(n, EndOf(hi, relend))))
      ix == SortedSeq(IdxSet(n))
      starts == SelectSeq(ix, LAMBDA x : x \in Bounds(n))
  IN [in |-> [k |-> "ranges", wire |-> w, idx |-> ix],
      exp |-> [abs |-> RangeTable(n, AbsAcc, AbsVal),
               rel |-> RangeTable(n, RelAcc, RelVal),
               \* slice_from / range_from / split / truncate: accepted indexes
               from |-> [i \in 1..Len(starts) |->
                           <<starts[i], ToWireRel(SubSeq(n, 1, LabAt(n, starts[i]))),
                             ToWireAbs(SubSeq(n, LabAt(n, starts[i]) + 1, k))>>],
               rcut |-> [i \in 1..Len(starts) |->
                           <<starts[i], ToWireRel(SubSeq(n, 1, LabAt(n, starts[i]))),
                             ToWireRel(SubSeq(n, LabAt(n, starts[i]) + 1, k))>>],
               suffixes |-> [j \in 1..(k + 1) |-> ToWireAbs(SubSeq(n, j, k))],
               psuffixes |-> [j \in 1..(k + 1) |-> ToWireAbs(SubSeq(n, j, k))],
               \* [label count, first label, last label]
               ends |-> <<k + 1, IF k = 0 THEN <<>> ELSE n[1], <<>>>>,
               rends |-> IF k = 0 THEN <<0, "none", "none">> ELSE <<k, n[1], n[k]>>,
               sf |-> IF k = 0 THEN <<"none">> ELSE <<n[1], ToWireAbs(Tail(n))>>,
               rsf |-> IF k = 0 THEN <<"none">> ELSE <<n[1], ToWireRel(Tail(n))>>,
               \* ParsedName::split_first / parent, step by step: [label, rest]
               psf |-> [j \in 1..k |-> <<ToWireRel(<<n[j]>>), ToWireAbs(SubSeq(n, j + 1, k))>>],
               ppar |-> [j \in 1..k |-> ToWireAbs(SubSeq(n, j + 1, k))]],
      dev |-> <<>>]

---------------------------------------------------------------------------
(* mode "affix": starts_with / ends_with / strip_suffix on pairs of names *)
(* whose label *contents* imitate the wire form of the other operand (a   *)
(* label "x\003com" ends, octet-wise, in the wire form of "com"): suffix  *)
(* and prefix are relations between label sequences (Names.tla), compared *)
(* label by label without regard to ASCII case, never between octets.     *)

ALabs == {<<99, 111, 109>>,                                         \* com
          <<67, 79, 77>>,                                           \* COM
          <<120, 3, 99, 111, 109>>,                                 \* x\003com
          <<101, 120, 97, 109, 112, 108, 101>>,                     \* example
          <<97, 7, 101, 120, 97, 109, 112, 108, 101, 3, 99, 111, 109>>}   \* a\007example\003com
ANames(m) == UNION {{[i \in 1..j |-> f[i]] : f \in [1..j -> ALabs]} : j \in 0..m}
AffixSet == {<<x, y>> : x \in ANames(3), y \in ANames(2)}
IsPrefixName(p, n) == Len(p) <= Len(n) /\ NameEq(SubSeq(n, 1, Len(p)), p)
AffixCase(v) ==
  LET x == v[1]
      y == v[2]
      suf == IsSuffixOf(y, x)
      pre == IsPrefixName(y, x)
      left == ToWireRel(SubSeq(x, 1, Len(x) - Len(y)))
  IN [in |-> [k |-> "affix", x |-> ToWireRel(x), y |-> ToWireRel(y)],
      \* r*: both relative; a*: x and (for ends / strip) y absolute
      exp |-> [rends |-> suf, rstarts |-> pre, aends |-> suf, astarts |-> pre,
               rstrip |-> IF suf THEN <<"ok", left>> ELSE <<"err", ToWireRel(x)>>,
               astrip |-> IF suf THEN <<"ok", left>> ELSE <<"err", ToWireAbs(x)>>],
      dev |-> <<>>]

\* (the builder variables of NameBuilder.tla are not used here)
NInit == /\ st = InitSt /\ last = NoCall
         /\ \/ mode = "name" /\ val \in NameSet
            \/ mode = "text" /\ val \in TextSet
            \/ mode = "wire" /\ val \in SeqsUpTo(WireOcts, MaxWire)
            \/ mode = "shape" /\ val \in Shapes
            \/ mode = "chain" /\ val \in ChainShapes
            \/ mode = "zone" /\ val \in ZoneOwners
            \/ mode = "zscan" /\ val \in ZScanSet
            \/ mode = "parsed" /\ val \in ParsedSet
            \/ mode = "ranges" /\ val \in RNames
            \/ mode = "affix" /\ val \in AffixSet
            \/ mode = "sym" /\ val \in SymSet
            \/ mode = "const" /\ val = 0
            \/ mode = "rev" /\ val \in RevSet
NNext == UNCHANGED <<mode, val, st, last>>
NSpec == NInit /\ [][NNext]_<<mode, val, st, last>>

Emit ==
  CASE mode = "name"  -> PrintT("CASE " \o ToJson(NameCase(val)))
    [] mode = "text"  -> PrintT("CASE " \o ToJson(TextCase(val)))
    [] mode = "wire"  -> PrintT("CASE " \o ToJson(WireCase(val)))
    [] mode = "shape" -> /\ PrintT("CASE " \o ToJson(ShapeTextCase(val)))
                         /\ PrintT("CASE " \o ToJson(ShapeWireCase(val)))
    [] mode = "chain" -> PrintT("CASE " \o ToJson(ShapeChainCase(val)))
    [] mode = "zone"  -> PrintT("CASE " \o ToJson(ZoneCase(val)))
    [] mode = "zscan" -> PrintT("CASE " \o ToJson(ZScanCase(val)))
    [] mode = "parsed" -> PrintT("CASE " \o ToJson(ParsedCase(val)))
    [] mode = "ranges" -> PrintT("CASE " \o ToJson(RangesCase(val)))
    [] mode = "affix" -> PrintT("CASE " \o ToJson(AffixCase(val)))
    [] mode = "sym" -> PrintT("CASE " \o ToJson(SymCase(val)))
    [] mode = "const" -> PrintT("CASE " \o ToJson(ConstCase))
    [] mode = "rev" -> PrintT("CASE " \o ToJson(RevCase(val)))
=============================================================================
