CONSTANTS
  Procs = {1, 2}
  Qs = {"zone"}
  Runs = 1
  MaxNow = 0
  Budget = 1
  AdvKinds = {"AdvKey"}
  Dev = {}
  Mut = {"M_skip_ds_match"}
  Atomic = FALSE
SPECIFICATION Spec
INVARIANT NodeSound
CHECK_DEADLOCK TRUE
