SPECIFICATION TSpec
INVARIANT AnchorsWellFormed
POSTCONDITION Accepted
CHECK_DEADLOCK FALSE
