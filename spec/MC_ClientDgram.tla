--------------------------- MODULE MC_ClientDgram ---------------------------
EXTENDS ClientDgram
MCFaults == {[kind |-> "none", at |-> 0]}
            \cup {[kind |-> k, at |-> a] : k \in {"connect", "send", "short"}, a \in 1..(1 + MaxRetries)}
=============================================================================
