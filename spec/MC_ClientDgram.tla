--------------------------- MODULE MC_ClientDgram ---------------------------
EXTENDS ClientDgram
S2(rt, mr) == DgScript("new", <<Call("set_read_timeout", rt), Call("set_max_retries", mr)>>)
\* a budget with one retry and two ticks per attempt; no retry at all; the
\* defaults; values beyond both ends of the ranges
MCConfs  == {S2(20000, 1), S2(10000, 0), S2(0, 0)}
MCConfsT == {S2(20000, 2), S2(10000, 0), S2(10000, 1), S2(70000, 0), DgScript("new", <<>>)}
MaxMr == LET ms == {DgRun(sc).mr : sc \in Confs} IN CHOOSE m \in ms : \A x \in ms : x <= m
MCFaults == {[kind |-> "none", at |-> 0]}
            \cup {[kind |-> k, at |-> a] : k \in {"connect", "send", "short"}, a \in 1..(1 + MaxMr)}
=============================================================================
