----------------------------- MODULE MC_Cache -----------------------------
(* Model-checking wrapper for Cache.tla: finite sets of queries, a well-   *)
(* behaved but otherwise arbitrary upstream (nine response classes, TTL    *)
(* vectors, AD bit), clock steps, configuration corners, and the property  *)
(* as action properties (checked on every transition, so the ghost         *)
(* variables `log` and `last` can be hidden from the fingerprint).         *)
EXTENDS Cache, TLC, Json

CONSTANTS
  Names, Types, Cases,        \* question names (folded), query types, spellings
  AdVals, CdVals, DoVals, RdVals,
  WithBypass,                 \* also issue the queries the cache must not touch
  Classes,                    \* upstream response classes
  TtlVecs,                    \* <<answer, authority, additional+signature>> TTLs
  AdBits,                     \* AD in the response when the query had AD or DO
  Ticks,                      \* clock steps, ms
  Configs,
  MaxSteps

VARIABLES steps, ticked
mcvars == <<cfg, now, entries, log, last, steps, ticked>>

---------------------------------------------------------------------------
(* configuration corners (seconds) *)
(* the documented defaults; the harness obtains this one from Config::new() *)
(* without calling any validity setter                                     *)
CfgDefault == [maxValidity |-> DocDefaults.maxValidity,
               transportFailure |-> DocDefaults.transportFailure,
               miscError |-> DocDefaults.miscError,
               maxNxdomain |-> DocDefaults.maxNxdomain, maxNodata |-> DocDefaults.maxNodata,
               maxDelegation |-> DocDefaults.maxDelegation,
               cacheTruncated |-> DocDefaults.cacheTruncated]
CfgMin     == [maxValidity |-> 60, transportFailure |-> 1, miscError |-> 1,
               maxNxdomain |-> 60, maxNodata |-> 60, maxDelegation |-> 60,
               cacheTruncated |-> FALSE]
(* every bound different, so that a swapped bound is visible *)
CfgMixed   == [maxValidity |-> 3000, transportFailure |-> 2, miscError |-> 4,
               maxNxdomain |-> 60, maxNodata |-> 120, maxDelegation |-> 240,
               cacheTruncated |-> TRUE]

(* max_validity smaller than every class bound (values within the limits  *)
(* Config's setters clamp to)                                              *)
CfgTight   == [maxValidity |-> 100, transportFailure |-> 300, miscError |-> 300,
               maxNxdomain |-> 3600, maxNodata |-> 3600, maxDelegation |-> 1000000,
               cacheTruncated |-> TRUE]
CfgsMaxVal == {CfgDefault, CfgTight}
CfgsDefault == {CfgDefault}
CfgsAll == {CfgDefault, CfgMin, CfgMixed}
CfgsCorners == {CfgMin, CfgMixed}

TV_All   == {<<a, b, c>> : a \in {0, 1, 5, 3600}, b \in {0, 1, 5, 3600}, c \in {0, 1, 5, 3600}}
TV_Quick == {<<3600, 3600, 3600>>, <<5, 3600, 3600>>, <<3600, 5, 1>>, <<3600, 3600, 0>>}
TV_Flags == {<<5, 3600, 1>>, <<5, 5, 5>>}
TV_One   == {<<5, 5, 5>>}
TV_Huge  == {<<2000000, 2000000, 2000000>>}     \* larger than every bound
TV_Long  == {<<3600, 3600, 3600>>}

AllClasses == {"answer", "cname", "nodata", "nxdomain", "delegation", "weird",
               "servfail", "tc", "err", "cnamenodata",
               \* authority-section orderings and mixtures (RFC 2308 type 1 / 2):
               \* the class is decided by *whether* a SOA is there, not by
               \* which of SOA / NS comes first
               "nodata_soa_ns", "nodata_ns_soa", "nx_ns_soa"}
NoErrClasses == AllClasses \ {"err"}
ErrOnly == {"err"}
CfgsTight == {CfgTight}
TK_Err == {100000, 101000, 300000, 301000}
FlagClasses == {"answer", "nodata", "err"}

(* 0.5 s, 1 s, 4 s, 5.5 s (just past TTL 5), 6 s, 3601 s *)
TK_Quick == {500, 1000, 4000, 5500, 3601000}
(* around the 30 s / 60 s / 120 s / 240 s bounds *)
TK_Bounds == {500, 1000, 4000, 30000, 60000, 120000, 240000}
(* just below / above max_validity of CfgTight (100 s) and CfgDefault (7 d) *)
TK_MaxVal == {100000, 101000, 604800000, 604801000}
(* just below / above the documented default bounds: 30 s, 1 h *)
TK_Default == {30000, 31000, 3600000, 3601000}
TK_Flags == {500, 4000, 5500}
TK_Sim == TK_Quick \cup TK_Bounds \cup {0, 1, 999, 1001, 5000, 5001, 61000}

---------------------------------------------------------------------------
Bools == {FALSE, TRUE}
(* Construction routes of the requests (Cache.tla, q.route).  "default":  *)
(* the header bits are in the source message, DO comes from               *)
(* set_dnssec_ok(true) (the way most callers build a request).  "all"     *)
(* (cfg: RouteMode <- RouteModeAll): header bits preset in the source or  *)
(* set through header_mut(); the source without / with an OPT record that *)
(* has DO clear / set; no EDNS setter, set_dnssec_ok(true / false),       *)
(* set_udp_payload_size.  The flags of a query are never chosen: they are *)
(* what the route composes to (NormQ).                                    *)
RouteMode == "default"
RouteModeAll == "all"
HdrOps(rd, ad, cd) == (IF rd THEN <<<<"rd", 1>>>> ELSE <<>>) \o (IF ad THEN <<<<"ad", 1>>>> ELSE <<>>)
                      \o (IF cd THEN <<<<"cd", 1>>>> ELSE <<>>)
Src(rd, ad, cd, o) == [rd |-> rd, ad |-> ad, cd |-> cd, opt |-> o]
EdnsOps == {<<>>, <<<<"do", 0>>>>, <<<<"udp", 1232>>>>} \cup
           (IF TRUE \in DoVals THEN {<<<<"do", 1>>>>} ELSE {})
RoutesDefault ==
  {[src |-> Src(rd, ad, cd, 0), ops |-> IF d THEN <<<<"do", 1>>>> ELSE <<>>] :
     rd \in RdVals, ad \in AdVals, cd \in CdVals, d \in DoVals}
RoutesAll ==
  UNION {{[src |-> Src(rd, ad, cd, o), ops |-> e],
          [src |-> Src(FALSE, FALSE, FALSE, o), ops |-> HdrOps(rd, ad, cd) \o e],
          [src |-> Src(FALSE, FALSE, FALSE, o), ops |-> e \o HdrOps(rd, ad, cd)]} :
            rd \in RdVals, ad \in AdVals, cd \in CdVals, o \in {0, 1, 2}, e \in EdnsOps}
RouteSet == IF RouteMode = "all" THEN RoutesAll ELSE RoutesDefault
Cacheable ==
  {NormQ([name |-> n, cs |-> cs, qtype |-> t, qclass |-> "IN", op |-> "QUERY", nq |-> 1,
          ad |-> FALSE, cd |-> FALSE, do |-> FALSE, rd |-> FALSE, route |-> r]) :
      n \in Names, cs \in Cases, t \in Types, r \in RouteSet}
BypassQ ==
  LET b == [name |-> CHOOSE n \in Names : TRUE, cs |-> 0, qtype |-> "A", qclass |-> "IN",
            op |-> "QUERY", nq |-> 1, ad |-> FALSE, cd |-> FALSE, do |-> FALSE, rd |-> TRUE,
            route |-> [src |-> Src(TRUE, FALSE, FALSE, 0), ops |-> <<>>]]
  IN {[b EXCEPT !.nq = 0, !.op = "NOTIFY"],   \* (a QUERY without question cannot be composed)
      [b EXCEPT !.nq = 2], [b EXCEPT !.op = "NOTIFY"], [b EXCEPT !.qclass = "CH"]}
Queries == Cacheable \cup (IF WithBypass THEN BypassQ ELSE {})

(* what a well-behaved upstream may answer to q: DNSSEC records and an OPT  *)
(* record only when q had DO, AD only when q had AD or DO                   *)
RR(o, t, ttl, rd) == [o |-> o, t |-> t, c |-> "IN", ttl |-> ttl, rd |-> rd]
Mk(q, cls, tv, adb) ==
  LET qd == IF q.nq = 0 THEN <<>>
            ELSE <<[n |-> q.name, cs |-> q.cs, t |-> q.qtype, c |-> q.qclass]>>
      H(rcode, aa, tc) == [aa |-> aa, tc |-> tc, rd |-> q.rd, ra |-> TRUE, ad |-> adb,
                           cd |-> q.cd, rcode |-> rcode]
      Sig(o, ttl, id) == IF q.do THEN <<RR(o, "RRSIG", ttl, id)>> ELSE <<>>
      Nsec(o, ttl)    == IF q.do THEN <<RR(o, "NSEC", ttl, 3), RR(o, "RRSIG", ttl, 4)>> ELSE <<>>
      Opt == IF q.do THEN <<[o |-> ".", t |-> "OPT", c |-> "-", ttl |-> 32768, rd |-> 0]>> ELSE <<>>
      \* DO answers carry DNSSEC records in all three sections
      Glue == <<RR("ns1.example", "A", tv[3], 9)>> \o Sig("ns1.example", tv[3], 10)
      Ans == <<RR(q.name, q.qtype, tv[1], 1)>> \o Sig(q.name, tv[3], 1)
      Full(tc) == [hdr |-> H("NOERROR", TRUE, tc), qd |-> qd, an |-> Ans,
                   ns |-> <<RR("example", "NS", tv[2], 1)>> \o Sig("example", tv[2], 2),
                   ar |-> Glue \o Opt]
  IN CASE cls = "answer" -> Full(FALSE)
       [] cls = "tc" -> Full(TRUE)
       [] cls = "cname" ->
            [hdr |-> H("NOERROR", TRUE, FALSE), qd |-> qd,
             an |-> <<RR(q.name, "CNAME", tv[1], 1)>> \o Sig(q.name, tv[1], 5)
                    \o <<RR("t1.example", q.qtype, tv[2], 2)>> \o Sig("t1.example", tv[3], 6),
             ns |-> <<>>, ar |-> Opt]
       [] cls = "cnamenodata" ->
            [hdr |-> H("NOERROR", TRUE, FALSE), qd |-> qd,
             an |-> <<RR(q.name, "CNAME", tv[1], 1)>> \o Sig(q.name, tv[1], 5),
             ns |-> <<RR("example", "SOA", tv[2], 7)>> \o Nsec("t1.example", tv[3]),
             ar |-> Opt]
       [] cls = "nodata" ->
            [hdr |-> H("NOERROR", TRUE, FALSE), qd |-> qd, an |-> <<>>,
             ns |-> <<RR("example", "SOA", tv[2], 7)>> \o Sig("example", tv[2], 8)
                    \o Nsec(q.name, tv[3]),
             ar |-> Opt]
       [] cls \in {"nodata_soa_ns", "nodata_ns_soa", "nx_ns_soa"} ->
            LET soa == <<RR("example", "SOA", tv[2], 7)>> \o Sig("example", tv[2], 8)
                nsr == <<RR("example", "NS", tv[2], 1), RR("example", "NS", tv[2], 2)>>
                       \o Sig("example", tv[2], 2)
            IN [hdr |-> H(IF cls = "nx_ns_soa" THEN "NXDOMAIN" ELSE "NOERROR", TRUE, FALSE),
                qd |-> qd, an |-> <<>>,
                ns |-> (IF cls = "nodata_soa_ns" THEN soa \o nsr ELSE nsr \o soa)
                       \o Nsec(q.name, tv[3]),
                ar |-> Glue \o Opt]
       [] cls = "nxdomain" ->
            [hdr |-> H("NXDOMAIN", TRUE, FALSE), qd |-> qd, an |-> <<>>,
             ns |-> <<RR("example", "SOA", tv[2], 7)>> \o Sig("example", tv[2], 8)
                    \o Nsec("example", tv[3]),
             ar |-> Opt]
       [] cls = "delegation" ->
            [hdr |-> H("NOERROR", FALSE, FALSE), qd |-> qd, an |-> <<>>,
             ns |-> <<RR(q.name, "NS", tv[2], 2)>> \o Nsec(q.name, tv[2]),
             ar |-> Glue \o Opt]
       [] cls = "weird" ->
            [hdr |-> H("NOERROR", FALSE, FALSE), qd |-> qd, an |-> <<>>, ns |-> <<>>,
             ar |-> Opt]
       [] cls = "servfail" ->
            [hdr |-> H("SERVFAIL", FALSE, FALSE), qd |-> qd, an |-> <<>>, ns |-> <<>>,
             ar |-> Opt]
       [] OTHER -> [err |-> "ConnectionClosed"]

(* classes whose answer does not depend on the TTL vector / AD bit get one each *)
Up(q) ==
  UNION {
    IF cls = "err" THEN {[err |-> "ConnectionClosed"]}
    ELSE IF cls \in {"weird", "servfail"}
         THEN {Mk(q, cls, CHOOSE tv \in TtlVecs : TRUE, FALSE)}
    ELSE {Mk(q, cls, tv, adb) : tv \in TtlVecs,
                                adb \in (IF q.ad \/ q.do THEN AdBits ELSE {FALSE})}
    : cls \in Classes }

Dummy == [err |-> "unused"]

---------------------------------------------------------------------------
(* Vacuity guard.  (-coverage cannot be used: TLC's cost model does not   *)
(* terminate on this module.)  Every action, and every rung of the lookup *)
(* lattice through which a query is answered, announces itself the first  *)
(* time a worker takes it; the check requires all of them.                *)
Labels == <<"tick", "evict", "bypass", "miss", "expired", "exact", "ad", "do",
            "rd:exact", "rd:ad", "rd:do">>
ASSUME \A i \in DOMAIN Labels : TLCSet(i, 0)
Cover(name) ==
  LET i == CHOOSE j \in DOMAIN Labels : Labels[j] = name
  IN IF TLCGet(i) = 0
     THEN TLCSet(i, 1) /\ PrintT("COVER " \o ToJson([a |-> name]))
     ELSE TRUE

Init == /\ \E c \in Configs : InitWith(c)
        /\ steps = 0 /\ ticked = FALSE

DoQuery == \E q \in Queries :
             IF Hits(entries, q) THEN Query(q, Dummy)
             ELSE \E up \in Up(AskedQ(q)) : Query(q, up)   \* upstream answers what it is asked on the wire
DoTick  == \E d \in Ticks : Tick(d)
DoEvict == \E k \in DOMAIN entries : Evict(k)

Next == /\ steps < MaxSteps
        /\ steps' = steps + 1
        /\ \/ DoQuery /\ ticked' = FALSE /\ Cover(last'.via)
           \/ ~ticked /\ DoTick /\ ticked' = TRUE /\ Cover("tick")   \* two ticks in a row add nothing
           \/ DoEvict /\ ticked' = ticked /\ Cover("evict")

Spec == Init /\ [][Next]_mcvars

(* fingerprint without the ghosts *)
View == <<cfg, now, entries, steps, ticked>>

---------------------------------------------------------------------------
(* The property, on every transition (TLC checks action properties also    *)
(* on transitions into already-seen states)                                *)
P_ServedWasSaid   == [][ServedWasSaid(last)']_mcvars
P_AgedExactly     == [][AgedExactly(last)']_mcvars
P_NeverStale      == [][NeverStale(last)']_mcvars
P_BoundsRespected == [][BoundsRespected(last)']_mcvars
P_NoDnssecLeak    == [][NoDnssecLeak(last)']_mcvars
P_NoPanic         == [][NoPanic(last)']_mcvars
P_ViewIsWire      == [][ViewIsWire(last)']_mcvars

(* Eviction: the property must survive any Evict(k) at any time (the     *)
(* P_* above are checked on the transitions after it).  Note that it is   *)
(* NOT true of this design that eviction only turns hits into misses: an  *)
(* expired exact-key entry shadows usable Ad/Do/RD=1 variants (cache.get   *)
(* finds it first, get_response then refuses it), so dropping it turns a  *)
(* miss into a hit.  TLC found that; no claim of that kind is made.       *)

(* structural sanity of the map: never an entry with zero validity, AA     *)
(* never stored, the stored question/flags fit the key                     *)
TypeOK ==
  \A k \in DOMAIN entries :
    LET v == entries[k] IN
    /\ v.validFor > 0 /\ v.createdAt <= now
    /\ IsErr(v.resp) \/ (~v.resp.hdr.aa /\ v.resp.hdr.cd = k.cd)

(* non-vacuity: these must be *violated* (reachability witnesses) *)
W_NoHit         == ~last.fromCache
W_NoDerivedDo   == ~(last.fromCache /\ ~last.q.do /\
                     \E i \in DOMAIN log : log[i].q.do /\ SaidBy(log[i], last) /\
                        ~\E j \in DOMAIN log : ~log[j].q.do /\ SaidBy(log[j], last))
=============================================================================
