----------------------------- MODULE IanaTables -----------------------------
(* The registries, transcribed from the RFCs and the IANA registry pages    *)
(* (dns-parameters, dns-sec-alg-numbers, ds-rr-types, dnssec-nsec3-          *)
(* parameters, dane-parameters, dns-sshfp-rr-parameters, dns-svcb) -- NOT    *)
(* from the Rust source: a wrong row in the source is what X14 looks for.    *)
(*                                                                          *)
(* Row <<code, name, flag>>:                                                 *)
(*   "r"  required: registered no later than the date for which the type's   *)
(*        documentation claims completeness (Rtype, Class, Rcode, OptRcode,  *)
(*        TsigRcode 2019-01-28; Opcode 2019-12-23; DigestAlgorithm           *)
(*        2012-04-13; Nsec3HashAlgorithm 2008-03-05; Zonemd* 2024-11-29), or *)
(*        defined by the RFC the type implements;                            *)
(*   "o"  optional: a later registration.  `adopted' lists the optional rows *)
(*        this library version names; an adopted row is checked like a       *)
(*        required one.  For an optional row that is not adopted, naming it  *)
(*        (with the registry's code and name) and not naming it both conform *)
(*        (TA: the tables with every optional row adopted; Undecided).       *)
(* `unsure': codes about whose registry NAME this transcription (made        *)
(* without network access) makes no claim; they are left out of the cases.   *)
(* Spelling: the RFC / registry spelling; for RCODEs and OPCODEs the         *)
(* upper-case spelling of RFC 1035 / 2136 / 2845 (mnemonics are case-        *)
(* insensitive; dig, BIND, ldns write them in upper case).  QTYPE / QCLASS   *)
(* 255 is registered as "*" with the alias ANY (RFC 1035 3.2.3 / 3.2.5, RFC  *)
(* 8482): the row carries the spelling the type documents.                   *)
(***************************************************************************)
EXTENDS IanaParams

RtypeRows == {
  <<1, "A", "r">>, <<2, "NS", "r">>, <<3, "MD", "r">>, <<4, "MF", "r">>, <<5, "CNAME", "r">>,
  <<6, "SOA", "r">>, <<7, "MB", "r">>, <<8, "MG", "r">>, <<9, "MR", "r">>, <<10, "NULL", "r">>,
  <<11, "WKS", "r">>, <<12, "PTR", "r">>, <<13, "HINFO", "r">>, <<14, "MINFO", "r">>, <<15, "MX", "r">>,
  <<16, "TXT", "r">>, <<17, "RP", "r">>, <<18, "AFSDB", "r">>, <<19, "X25", "r">>, <<20, "ISDN", "r">>,
  <<21, "RT", "r">>, <<22, "NSAP", "r">>, <<23, "NSAP-PTR", "r">>, <<24, "SIG", "r">>, <<25, "KEY", "r">>,
  <<26, "PX", "r">>, <<27, "GPOS", "r">>, <<28, "AAAA", "r">>, <<29, "LOC", "r">>, <<30, "NXT", "r">>,
  <<31, "EID", "r">>, <<32, "NIMLOC", "r">>, <<33, "SRV", "r">>, <<34, "ATMA", "r">>, <<35, "NAPTR", "r">>,
  <<36, "KX", "r">>, <<37, "CERT", "r">>, <<38, "A6", "r">>, <<39, "DNAME", "r">>, <<40, "SINK", "r">>,
  <<41, "OPT", "r">>, <<42, "APL", "r">>, <<43, "DS", "r">>, <<44, "SSHFP", "r">>, <<45, "IPSECKEY", "r">>,
  <<46, "RRSIG", "r">>, <<47, "NSEC", "r">>, <<48, "DNSKEY", "r">>, <<49, "DHCID", "r">>, <<50, "NSEC3", "r">>,
  <<51, "NSEC3PARAM", "r">>, <<52, "TLSA", "r">>, <<53, "SMIMEA", "r">>,
  <<55, "HIP", "r">>, <<56, "NINFO", "r">>, <<57, "RKEY", "r">>, <<58, "TALINK", "r">>, <<59, "CDS", "r">>,
  <<60, "CDNSKEY", "r">>, <<61, "OPENPGPKEY", "r">>, <<62, "CSYNC", "r">>,
  <<63, "ZONEMD", "o">>, <<64, "SVCB", "o">>, <<65, "HTTPS", "o">>, <<66, "DSYNC", "o">>,
  <<67, "HHIT", "o">>, <<68, "BRID", "o">>,
  <<99, "SPF", "r">>, <<100, "UINFO", "r">>, <<101, "UID", "r">>, <<102, "GID", "r">>, <<103, "UNSPEC", "r">>,
  <<104, "NID", "r">>, <<105, "L32", "r">>, <<106, "L64", "r">>, <<107, "LP", "r">>, <<108, "EUI48", "r">>,
  <<109, "EUI64", "r">>, <<128, "NXNAME", "o">>,
  <<249, "TKEY", "r">>, <<250, "TSIG", "r">>, <<251, "IXFR", "r">>, <<252, "AXFR", "r">>, <<253, "MAILB", "r">>,
  <<254, "MAILA", "r">>, <<255, "ANY", "r">>, <<256, "URI", "r">>, <<257, "CAA", "r">>, <<258, "AVC", "r">>,
  <<259, "DOA", "r">>, <<260, "AMTRELAY", "o">>, <<261, "RESINFO", "o">>, <<262, "WALLET", "o">>,
  <<263, "CLA", "o">>, <<264, "IPN", "o">>,
  <<32768, "TA", "r">>, <<32769, "DLV", "r">> }

ClassRows == { <<1, "IN", "r">>, <<3, "CH", "r">>, <<4, "HS", "r">>, <<254, "NONE", "r">>, <<255, "*", "r">> }

\* RFC 1035 4.1.1, RFC 1996, RFC 2136, RFC 8490
OpcodeRows == { <<0, "QUERY", "r">>, <<1, "IQUERY", "r">>, <<2, "STATUS", "r">>, <<4, "NOTIFY", "r">>,
                <<5, "UPDATE", "r">>, <<6, "DSO", "r">> }

\* RFC 1035 4.1.1, RFC 2136 2.2, RFC 6895 2.3 (NoError FormErr ServFail NXDomain
\* NotImp Refused YXDomain YXRRSet NXRRSet NotAuth NotZone), RFC 8490 DSOTYPENI
RcodeCommon == { <<0, "NOERROR", "r">>, <<1, "FORMERR", "r">>, <<2, "SERVFAIL", "r">>, <<3, "NXDOMAIN", "r">>,
                 <<4, "NOTIMP", "r">>, <<5, "REFUSED", "r">>, <<6, "YXDOMAIN", "r">>, <<7, "YXRRSET", "r">>,
                 <<8, "NXRRSET", "r">>, <<9, "NOTAUTH", "r">>, <<10, "NOTZONE", "r">>, <<11, "DSOTYPENI", "o">> }
RcodeRows == RcodeCommon
\* RFC 6891 BADVERS, RFC 7873 BADCOOKIE; 17..22 are defined for TSIG / TKEY only
OptRcodeRows == RcodeCommon \cup { <<16, "BADVERS", "r">>, <<17, "BADKEY", "o">>, <<18, "BADTIME", "o">>,
                 <<19, "BADMODE", "o">>, <<20, "BADNAME", "o">>, <<21, "BADALG", "o">>, <<22, "BADTRUNC", "o">>,
                 <<23, "BADCOOKIE", "r">> }
\* RFC 8945 (2845) BADSIG BADKEY BADTIME BADTRUNC, RFC 2930 BADMODE BADNAME BADALG
TsigRcodeRows == RcodeCommon \cup { <<16, "BADSIG", "r">>, <<17, "BADKEY", "r">>, <<18, "BADTIME", "r">>,
                 <<19, "BADMODE", "r">>, <<20, "BADNAME", "r">>, <<21, "BADALG", "r">>, <<22, "BADTRUNC", "r">>,
                 <<23, "BADCOOKIE", "r">> }

\* EDNS0 option codes
OptionCodeRows == { <<1, "LLQ", "r">>, <<2, "UL", "r">>, <<3, "NSID", "r">>, <<5, "DAU", "r">>, <<6, "DHU", "r">>,
  <<7, "N3U", "r">>, <<8, "edns-client-subnet", "r">>, <<9, "EDNS EXPIRE", "r">>, <<10, "COOKIE", "r">>,
  <<11, "edns-tcp-keepalive", "r">>, <<12, "Padding", "r">>, <<13, "CHAIN", "r">>, <<14, "edns-key-tag", "r">>,
  <<15, "Extended DNS Error", "r">>, <<16, "EDNS-Client-Tag", "r">>, <<17, "EDNS-Server-Tag", "r">>,
  <<18, "Report-Channel", "o">>, <<19, "ZONEVERSION", "o">> }

\* DNS Security Algorithm Numbers
SecAlgRows == { <<0, "DELETE", "r">>, <<1, "RSAMD5", "r">>, <<2, "DH", "r">>, <<3, "DSA", "r">>, <<5, "RSASHA1", "r">>,
  <<6, "DSA-NSEC3-SHA1", "r">>, <<7, "RSASHA1-NSEC3-SHA1", "r">>, <<8, "RSASHA256", "r">>, <<10, "RSASHA512", "r">>,
  <<12, "ECC-GOST", "r">>, <<13, "ECDSAP256SHA256", "r">>, <<14, "ECDSAP384SHA384", "r">>, <<15, "ED25519", "r">>,
  <<16, "ED448", "r">>, <<17, "SM2SM3", "o">>, <<23, "ECC-GOST12", "o">>,
  <<252, "INDIRECT", "r">>, <<253, "PRIVATEDNS", "r">>, <<254, "PRIVATEOID", "r">> }

\* DS RR type digest algorithms
DigestRows == { <<1, "SHA-1", "r">>, <<2, "SHA-256", "r">>, <<3, "GOST R 34.11-94", "r">>, <<4, "SHA-384", "r">>,
                <<5, "GOST R 34.11-2012", "o">>, <<6, "SM3", "o">> }
Nsec3HashRows == { <<1, "SHA-1", "r">> }
ZonemdSchemeRows == { <<1, "SIMPLE", "r">> }
ZonemdAlgRows == { <<1, "SHA384", "r">>, <<2, "SHA512", "r">> }
\* RFC 6698 / RFC 7218 acronyms
TlsaUsageRows == { <<0, "PKIX-TA", "r">>, <<1, "PKIX-EE", "r">>, <<2, "DANE-TA", "r">>, <<3, "DANE-EE", "r">>,
                   <<255, "PrivCert", "r">> }
TlsaSelectorRows == { <<0, "Cert", "r">>, <<1, "SPKI", "r">>, <<255, "PrivSel", "r">> }
TlsaMatchingRows == { <<0, "Full", "r">>, <<1, "SHA2-256", "r">>, <<2, "SHA2-512", "r">>, <<255, "PrivMatch", "r">> }
\* RFC 4255, 6594, 7479, 8709
SshfpAlgRows == { <<1, "RSA", "r">>, <<3, "ECDSA", "r">>, <<4, "Ed25519", "r">>, <<6, "Ed448", "r">> }
SshfpTypeRows == { <<1, "SHA-1", "r">>, <<2, "SHA-256", "r">> }
\* RFC 9460 14.3.2, RFC 9461, RFC 9540, draft-ietf-tls-key-share-prediction
SvcParamRows == { <<0, "mandatory", "r">>, <<1, "alpn", "r">>, <<2, "no-default-alpn", "r">>, <<3, "port", "r">>,
  <<4, "ipv4hint", "r">>, <<5, "ech", "r">>, <<6, "ipv6hint", "r">>, <<7, "dohpath", "r">>, <<8, "ohttp", "r">>,
  <<9, "tls-supported-groups", "r">>, <<10, "docpath", "o">> }
\* RFC 8914 5.2 (0..24), later registrations
EdeRows == { <<0, "Other Error", "r">>, <<1, "Unsupported DNSKEY Algorithm", "r">>,
  <<2, "Unsupported DS Digest Type", "r">>, <<3, "Stale Answer", "r">>, <<4, "Forged Answer", "r">>,
  <<5, "DNSSEC Indeterminate", "r">>, <<6, "DNSSEC Bogus", "r">>, <<7, "Signature Expired", "r">>,
  <<8, "Signature Not Yet Valid", "r">>, <<9, "DNSKEY Missing", "r">>, <<10, "RRSIGs Missing", "r">>,
  <<11, "No Zone Key Bit Set", "r">>, <<12, "NSEC Missing", "r">>, <<13, "Cached Error", "r">>,
  <<14, "Not Ready", "r">>, <<15, "Blocked", "r">>, <<16, "Censored", "r">>, <<17, "Filtered", "r">>,
  <<18, "Prohibited", "r">>, <<20, "Not Authoritative", "r">>, <<21, "Not Supported", "r">>,
  <<22, "No Reachable Authority", "r">>, <<23, "Network Error", "r">>, <<24, "Invalid Data", "r">>,
  <<25, "Signature Expired before Valid", "o">>, <<26, "Too Early", "o">>,
  <<27, "Unsupported NSEC3 Iterations Value", "o">>, <<29, "Synthesized", "o">> }

D(id, max, style, prefix, rows, adopted, unsure) ==
  [id |-> id, max |-> max, style |-> style, prefix |-> prefix, rows |-> rows, adopted |-> adopted, unsure |-> unsure]

\* the new API names a subset of the registry (its constants); every row is
\* optional there and `adopted' lists the named ones
AllOptional(rows) == {<<r[1], r[2], "o">> : r \in rows}

Descriptors == <<
  D("Rtype", 65535, "prefix", "TYPE", RtypeRows, {63, 64, 65, 128}, {}),
  D("Class", 65535, "prefix", "CLASS", ClassRows, {}, {}),
  D("SvcParamKey", 65535, "prefix", "key", SvcParamRows, {}, {}),
  D("ExtendedErrorCode", 65535, "prefix", "EDE", EdeRows, {}, {19, 28} \cup 30..40),
  D("Opcode", 255, "withdec", "", OpcodeRows, {}, {}),
  D("OptionCode", 65535, "withdec", "", OptionCodeRows, {}, {4, 20292, 26946}),
  D("TsigRcode", 65535, "withdec", "", TsigRcodeRows, {}, {}),
  D("SecurityAlgorithm", 255, "decimal", "", SecAlgRows, {}, {}),
  D("DigestAlgorithm", 255, "decimal", "", DigestRows, {}, {}),
  D("Nsec3HashAlgorithm", 255, "decimal", "", Nsec3HashRows, {}, {}),
  D("ZonemdScheme", 255, "decimal", "", ZonemdSchemeRows, {}, {}),
  D("ZonemdAlgorithm", 255, "decimal", "", ZonemdAlgRows, {}, {}),
  D("TlsaCertificateUsage", 255, "decimal", "", TlsaUsageRows, {}, {}),
  D("TlsaSelector", 255, "decimal", "", TlsaSelectorRows, {}, {}),
  D("TlsaMatchingType", 255, "decimal", "", TlsaMatchingRows, {}, {}),
  D("SshfpAlgorithm", 255, "decimal", "", SshfpAlgRows, {}, {0, 2}),
  D("SshfpType", 255, "decimal", "", SshfpTypeRows, {}, {0}),
  D("IpseckeyAlgorithm", 255, "decimal", "", {}, {}, 0..4),
  D("IpseckeyGatewayType", 255, "decimal", "", {}, {}, 0..3),
  D("Rcode", 15, "rcode", "", RcodeRows, {}, {}),
  D("OptRcode", 4095, "rcode", "", OptRcodeRows, {}, {}),
  D("RType", 65535, "newdisp", "TYPE", AllOptional(RtypeRows),
      {1, 2, 5, 6, 12, 13, 15, 16, 17, 28, 33, 39, 41, 43, 46, 47, 48, 50, 51, 59, 60, 63, 250}, {}),
  D("RClass", 65535, "newdisp", "CLASS", AllOptional(ClassRows), {1, 3}, {}) >>

TypeIds == {Descriptors[i].id : i \in 1..Len(Descriptors)}
DescOf(id) == Descriptors[CHOOSE i \in 1..Len(Descriptors) : Descriptors[i].id = id]

\* completed descriptors: as specified (ideal) and as built today (Dev)
\* TLC re-evaluates a defined constant at every use: the completed tables are
\* computed once (ASSUME, before the search) and kept in TLC's registers
TabIdealDef == PairsToFun({<<id, MkDv(DescOf(id), {})>> : id \in TypeIds})
TabDevDef == PairsToFun({<<id, MkDv(DescOf(id), Dev)>> : id \in TypeIds})
ASSUME TLCSet(1, TabIdealDef) /\ TLCSet(2, TabDevDef)
TabIdeal == TLCGet(1)
TabDev == TLCGet(2)
\* the same tables with EVERY optional row adopted: for an optional row that is
\* not (yet) adopted, naming it and not naming it both conform
TabAllDef == PairsToFun({<<id, MkDv([DescOf(id) EXCEPT !.adopted = Optional(DescOf(id))], {})>> : id \in TypeIds})
ASSUME TLCSet(4, TabAllDef)
TA(id) == TLCGet(4)[id]
Undecided(id, c) == HasName(TA(id), c) /\ ~HasName(TabIdeal[id], c)
TI(id) == TabIdeal[id]
TD(id) == TabDev[id]

Res(v) == IF v = None THEN [err |-> TRUE] ELSE [ok |-> v]
MnJ(T, c) == IF HasName(T, c) THEN T.nm[c] ELSE <<>>

\* one table per single deviation (the tables depend on two of them)
TabByDef == PairsToFun({<<d, PairsToFun({<<id, MkDv(DescOf(id), {d})>> : id \in TypeIds})>> : d \in Dev})
ASSUME TLCSet(3, TabByDef)
TabBy == TLCGet(3)
TT(id, dv) == IF dv = {} THEN TabIdeal[id] ELSE TabBy[CHOOSE d \in dv : TRUE][id]


TablesWellFormed == \A id \in TypeIds : WellFormed(DescOf(id))

\* ---- named constants of hand-written / new-API types: <<type, ident, registry type, registry name>>
\* (macro types: the constant IS the row, reached through from_mnemonic)
ConstRows == {
  <<"Rcode", "NOERROR", "Rcode", "NOERROR">>, <<"Rcode", "FORMERR", "Rcode", "FORMERR">>,
  <<"Rcode", "SERVFAIL", "Rcode", "SERVFAIL">>, <<"Rcode", "NXDOMAIN", "Rcode", "NXDOMAIN">>,
  <<"Rcode", "NOTIMP", "Rcode", "NOTIMP">>, <<"Rcode", "REFUSED", "Rcode", "REFUSED">>,
  <<"Rcode", "YXDOMAIN", "Rcode", "YXDOMAIN">>, <<"Rcode", "YXRRSET", "Rcode", "YXRRSET">>,
  <<"Rcode", "NXRRSET", "Rcode", "NXRRSET">>, <<"Rcode", "NOTAUTH", "Rcode", "NOTAUTH">>,
  <<"Rcode", "NOTZONE", "Rcode", "NOTZONE">>,
  <<"OptRcode", "NOERROR", "OptRcode", "NOERROR">>, <<"OptRcode", "FORMERR", "OptRcode", "FORMERR">>,
  <<"OptRcode", "SERVFAIL", "OptRcode", "SERVFAIL">>, <<"OptRcode", "NXDOMAIN", "OptRcode", "NXDOMAIN">>,
  <<"OptRcode", "NOTIMP", "OptRcode", "NOTIMP">>, <<"OptRcode", "REFUSED", "OptRcode", "REFUSED">>,
  <<"OptRcode", "YXDOMAIN", "OptRcode", "YXDOMAIN">>, <<"OptRcode", "YXRRSET", "OptRcode", "YXRRSET">>,
  <<"OptRcode", "NXRRSET", "OptRcode", "NXRRSET">>, <<"OptRcode", "NOTAUTH", "OptRcode", "NOTAUTH">>,
  <<"OptRcode", "NOTZONE", "OptRcode", "NOTZONE">>, <<"OptRcode", "BADVERS", "OptRcode", "BADVERS">>,
  <<"OptRcode", "BADCOOKIE", "OptRcode", "BADCOOKIE">>,
  <<"RClass", "IN", "Class", "IN">>, <<"RClass", "CH", "Class", "CH">>,
  <<"new.OptionCode", "COOKIE", "OptionCode", "COOKIE">>,
  <<"new.OptionCode", "EXT_ERROR", "OptionCode", "Extended DNS Error">>,
  <<"new.SecAlg", "DSA_SHA1", "SecurityAlgorithm", "DSA">>,
  <<"new.SecAlg", "RSA_SHA1", "SecurityAlgorithm", "RSASHA1">>,
  <<"new.DigestType", "SHA1", "DigestAlgorithm", "SHA-1">>,
  <<"new.Nsec3HashAlgorithm", "SHA1", "Nsec3HashAlgorithm", "SHA-1">>,
  <<"new.ZoneMDScheme", "SIMPLE", "ZonemdScheme", "SIMPLE">>,
  <<"new.ZoneMDHashAlg", "SHA384", "ZonemdAlgorithm", "SHA384">>,
  <<"new.ZoneMDHashAlg", "SHA512", "ZonemdAlgorithm", "SHA512">>,
  <<"new.ExtErrorCode", "OTHER", "ExtendedErrorCode", "Other Error">>,
  <<"new.ExtErrorCode", "BAD_DNSKEY_ALG", "ExtendedErrorCode", "Unsupported DNSKEY Algorithm">>,
  <<"new.ExtErrorCode", "BAD_DS_ALG", "ExtendedErrorCode", "Unsupported DS Digest Type">>,
  <<"new.ExtErrorCode", "STALE_ANSWER", "ExtendedErrorCode", "Stale Answer">>,
  <<"new.ExtErrorCode", "FORGED_ANSWER", "ExtendedErrorCode", "Forged Answer">>,
  <<"new.ExtErrorCode", "DNSSEC_INDETERMINATE", "ExtendedErrorCode", "DNSSEC Indeterminate">>,
  <<"new.ExtErrorCode", "DNSSEC_BOGUS", "ExtendedErrorCode", "DNSSEC Bogus">>,
  <<"new.ExtErrorCode", "SIG_EXPIRED", "ExtendedErrorCode", "Signature Expired">>,
  <<"new.ExtErrorCode", "SIG_FUTURE", "ExtendedErrorCode", "Signature Not Yet Valid">>,
  <<"new.ExtErrorCode", "DNSKEY_MISSING", "ExtendedErrorCode", "DNSKEY Missing">>,
  <<"new.ExtErrorCode", "RRSIGS_MISSING", "ExtendedErrorCode", "RRSIGs Missing">>,
  <<"new.ExtErrorCode", "NOT_ZSK", "ExtendedErrorCode", "No Zone Key Bit Set">>,
  <<"new.ExtErrorCode", "NSEC_MISSING", "ExtendedErrorCode", "NSEC Missing">>,
  <<"new.ExtErrorCode", "CACHED_ERROR", "ExtendedErrorCode", "Cached Error">>,
  <<"new.ExtErrorCode", "NOT_READY", "ExtendedErrorCode", "Not Ready">>,
  <<"new.ExtErrorCode", "BLOCKED", "ExtendedErrorCode", "Blocked">>,
  <<"new.ExtErrorCode", "CENSORED", "ExtendedErrorCode", "Censored">>,
  <<"new.ExtErrorCode", "FILTERED", "ExtendedErrorCode", "Filtered">>,
  <<"new.ExtErrorCode", "PROHIBITED", "ExtendedErrorCode", "Prohibited">>,
  <<"new.ExtErrorCode", "NOT_AUTHORITATIVE", "ExtendedErrorCode", "Not Authoritative">>,
  <<"new.ExtErrorCode", "NOT_SUPPORTED", "ExtendedErrorCode", "Not Supported">>,
  <<"new.ExtErrorCode", "NO_REACHABLE_AUTHORITY", "ExtendedErrorCode", "No Reachable Authority">>,
  <<"new.ExtErrorCode", "NETWORK_ERROR", "ExtendedErrorCode", "Network Error">>,
  <<"new.ExtErrorCode", "INVALID_DATA", "ExtendedErrorCode", "Invalid Data">>,
  <<"new.ExtErrorCode", "TOO_EARLY", "ExtendedErrorCode", "Too Early">>,
  <<"new.ExtErrorCode", "BAD_NSEC3_ITERS", "ExtendedErrorCode", "Unsupported NSEC3 Iterations Value">> }
\* the new RType constants are spelled like the registry mnemonic
RTypeConsts == {<<"RType", r[2], "Rtype", r[2]>> : r \in {q \in RtypeRows : q[1] \in DescOf("RType").adopted}}
AllConsts == ConstRows \cup RTypeConsts

\* the registry's code for a name of a registry type
CodeOfName(rid, name) == (CHOOSE r \in DescOf(rid).rows : r[2] = name)[1]
ConstsResolvable == \A k \in AllConsts : \E r \in DescOf(k[3]).rows : r[2] = k[4]
=============================================================================
