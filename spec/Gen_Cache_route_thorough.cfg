CONSTANTS
  Dev = {}
  Mut = {}
  Names = {"a.example"}
  Types = {"A"}
  Cases = {0}
  AdVals = {FALSE}
  CdVals = {FALSE}
  DoVals = {FALSE, TRUE}
  RdVals = {TRUE}
  WithBypass = FALSE
  Classes = {"answer"}
  TtlVecs <- TV_One
  AdBits = {TRUE}
  Ticks = {500}
  Configs <- CfgsDefault
  MaxSteps = 3
  RouteMode <- RouteModeAll
SPECIFICATION GSpec
INVARIANT Emit
INVARIANT GProp
CHECK_DEADLOCK FALSE
