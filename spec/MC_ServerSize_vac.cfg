CONSTANTS
  Dev = {}
  CSizes = {70000, 512, 4096}
  Hints = {70000, 1232}
  Lens = {100, 5000}
  OptLens = {0, 11}
  ROpts = {"none", "keepalive"}
  Recipes = {"plain"}
  Routes = {"mk"}
  ALays = {"none"}
  Tgts = {"vec"}
  SvcRoutes = {"impl"}
  EOns = {TRUE}
  QLens = {17}
SPECIFICATION Spec
INVARIANT SomeTruncated
CHECK_DEADLOCK FALSE
