CONSTANTS
  Dev = {}
  CSizes = {70000, 512, 4096}
  Hints = {70000, 1232}
  Lens = {100, 5000}
  OptLens = {0, 11}
  ROpts = {"none", "keepalive"}
  QLens = {17}
SPECIFICATION Spec
INVARIANT SomeTruncated
CHECK_DEADLOCK FALSE
