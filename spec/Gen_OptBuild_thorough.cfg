CONSTANTS
  Dev = {}
  MaxPush = 2
  Wide = TRUE
  Big = 400
SPECIFICATION Spec
INVARIANT Emit
CHECK_DEADLOCK FALSE
