CONSTANTS
  LW = 4
SPECIFICATION Spec
INVARIANT CmpEquiv
INVARIANT SubEquiv
INVARIANT AddEquiv
INVARIANT ImplAddEquiv
INVARIANT LessEquiv
INVARIANT RoundTrip
INVARIANT PlaceEquiv
INVARIANT WindowEquiv
INVARIANT FreshEquiv
CHECK_DEADLOCK FALSE
