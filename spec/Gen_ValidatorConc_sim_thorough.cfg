CONSTANTS
  Procs = {1, 2, 3}
  Qs = {"zone", "sub", "other", "plain", "tld"}
  Runs = 3
  MaxNow = 8
  Budget = 4
  AdvKinds <- AllKinds
  Dev <- EnvDev
  Mut = {}
  Atomic = TRUE
  Script <- NoScript
SPECIFICATION SimSpec
INVARIANT Emit
CHECK_DEADLOCK FALSE
