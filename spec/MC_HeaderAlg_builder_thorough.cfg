CONSTANTS
  Dev = {}
  MaxOps = 5
  Deep = TRUE
  Carrier = "builder"
SPECIFICATION Spec
INVARIANTS TypeOK RcodeJoin StageCounts GettersTotal
PROPERTIES Frame ReadBack NoWrap OptFrame FailedCallNoop SetRcodeBoth Scaffold Axfr GotoCounts
CHECK_DEADLOCK FALSE
