CONSTANTS
  Dev = {}
  MaxReq = 2
  RT = 1
  DefRT = 2
  IdleCfg = 0
  RqCap = 8
  ChanCap = 8
  MaxFrames = 1
  MaxQ = 1
  MaxId = 0
  KaVals = {}
  XQs = {}
  XfrIds = {}
  XfrAll = FALSE
  QVars = {}
  EndKinds = {"eof", "short", "trunc", "wfail", "stall"}
  Frames <- MCFrames
SPECIFICATION Spec
VIEW View
INVARIANT OwnAnswer
INVARIANT AtMostOnce
INVARIANT NoCross
INVARIANT SlotTableSound
INVARIANT NothingLost
INVARIANT TimerArmed
CHECK_DEADLOCK FALSE
