CONSTANTS
  NSSet = {2}
  SearchSet <- MCQ_Search
  NDotsSet = {1}
  DotsSet = {0}
  CallSet = {"query"}
  TooLongSet <- MCQ_TooLong
  ModeSet = {"mock"}
  UseVcSet = {FALSE}
  TcpOnlySet <- MCQ_TcpOnly
  TmoSet = {500}
  Est = 30
  Outs = {"Data", "SF"}
  TcpOuts = {"Data"}
  Lats = {1}
  FreshEvery = FALSE
  Dev = {"D_first_failure_final"}
SPECIFICATION MCSpec
INVARIANT Honest
INVARIANT AtMostOncePerRound
INVARIANT InTime
INVARIANT NoPanic
INVARIANT NoDatagramWithVc
INVARIANT TruncationRetriedOverTcp
INVARIANT NeverTruncatedFromUdp
INVARIANT SearchOrder
INVARIANT SearchResult
INVARIANT FoundIsForCandidate
INVARIANT EveryServerAsked
CHECK_DEADLOCK TRUE
