------------------------------- MODULE Rrsig -------------------------------
(* C12 - what is signed by an RRSIG (RFC 4034 3.1.8.1, 6.2, 6.3; RFC 4035  *)
(* 5.3.2; RFC 6840 5.1), the Labels field (RFC 4034 3.1.3), the key tag    *)
(* (RFC 4034 App. B) and the DS digest input (RFC 4034 5.1.4).             *)
(*                                                                         *)
(* Three constructions of the signed octets are written down:              *)
(*   SignedData       - the RFC text, declaratively (set of RRs, sorted)   *)
(*   SignerOctets     - transcription of sign_rrset/sign_sorted_rrset_in   *)
(*   ValidatorOctets  - transcription of RrsigExt::signed_data             *)
(* Cryptography is symbolic: a signature is the free term Sign(key, data), *)
(* verification is term equality.  Everything that is *layout* is here.    *)
(*                                                                         *)
(* RDATA: the full per-type layouts belong to Rdata.tla (another module,   *)
(* not imported).  Here record data is a sequence of fields, each either   *)
(* raw octets or an (uncompressed) domain name; the only per-type          *)
(* knowledge needed for signing is *whether embedded names are lower-cased *)
(* in canonical form* (LowerNameTypes) - a local table for the types the   *)
(* check exercises.                                                        *)
EXTENDS Names, FiniteSets

CONSTANT Dev          \* named deviations (none known for C12)

--------------------------------------------------------------------------
(* Record data as field sequences *)

Raw(o) == [k |-> "raw",  o |-> o,    n |-> <<>>]
Nm(n)  == [k |-> "name", o |-> <<>>, n |-> n]

\* RFC 4034 6.2 item 3 as corrected by RFC 6840 5.1: HINFO has no names,
\* NSEC is *not* lower-cased, RRSIG is.
\* NS MD MF CNAME SOA MB MG MR PTR MINFO MX RP AFSDB RT SIG PX NXT NAPTR KX
\* SRV DNAME A6 RRSIG
LowerNameTypes == {2, 3, 4, 5, 6, 7, 8, 9, 12, 14, 15, 17, 18, 21, 24, 26,
                   30, 35, 36, 33, 39, 38, 46}

FieldWire(f) == IF f.k = "raw" THEN f.o ELSE ToWireAbs(f.n)
FieldCanon(t, f) ==
  IF f.k = "raw" THEN f.o
  ELSE IF t \in LowerNameTypes THEN ToWireAbs(LowerName(f.n))
  ELSE ToWireAbs(f.n)
RdWire(rd)     == Concat([i \in 1..Len(rd) |-> FieldWire(rd[i])])
RdCanon(t, rd) == Concat([i \in 1..Len(rd) |-> FieldCanon(t, rd[i])])

\* a resource record: [owner, type, class, ttl, rd]
\* an RRset as handed around: a non-empty sequence of RRs of one type/class
\* (the owners may differ in case, the TTLs are equal on the signer side)

--------------------------------------------------------------------------
(* RRSIG fields.  Timestamps are kept as 4-octet sequences (TLC integers   *)
(* are 32-bit signed).                                                     *)
\* f = [tc, alg, labels, ottl, exp, inc, tag, signer]

SigPrefix(f) ==
  EncU16(f.tc) \o <<f.alg, f.labels>> \o EncU32(f.ottl) \o f.exp \o f.inc
  \o EncU16(f.tag) \o ToWireAbs(LowerName(f.signer))

\* RFC 4034 3.1.3 is Names!RrsigLabels.
\* RFC 4035 5.3.2: the name that was signed, reconstructed from a possibly
\* wildcard-expanded owner
OwnerForSig(owner, labels) ==
  IF labels < Len(owner) THEN <<Star>> \o Suffix(owner, labels) ELSE owner

RrForm(name, type, class, ttl, canon) ==
  ToWireAbs(LowerName(name)) \o EncU16(type) \o EncU16(class) \o EncU32(ttl)
  \o EncU16(Len(canon)) \o canon

--------------------------------------------------------------------------
(* Sorting octet strings (RFC 4034 6.3: RDATA as left-justified unsigned   *)
(* octet sequences, shorter first when one is a prefix)                    *)

MinOcts(S) == CHOOSE x \in S : \A y \in S : LexCmp(x, y) <= 0
RECURSIVE SortOctSet(_)
SortOctSet(S) == IF S = {} THEN <<>>
                 ELSE LET m == MinOcts(S) IN <<m>> \o SortOctSet(S \ {m})

\* stable insertion sort of a sequence of RRs by canonical RDATA (what
\* `sort_by(|a, b| a.data().canonical_cmp(b.data()))` does when the
\* library's canonical_cmp is RFC 4034 6.3)
RECURSIVE InsertRr(_, _)
InsertRr(sorted, rr) ==
  IF sorted = <<>> THEN <<rr>>
  ELSE IF LexCmp(RdCanon(rr.type, rr.rd),
                 RdCanon(sorted[Len(sorted)].type, sorted[Len(sorted)].rd)) >= 0
       THEN Append(sorted, rr)
       ELSE Append(InsertRr(SubSeq(sorted, 1, Len(sorted) - 1), rr), sorted[Len(sorted)])
RECURSIVE SortRrs(_)
SortRrs(rrs) == IF rrs = <<>> THEN <<>>
                ELSE InsertRr(SortRrs(SubSeq(rrs, 1, Len(rrs) - 1)), rrs[Len(rrs)])

--------------------------------------------------------------------------
(* 1. The RFC, declaratively *)

\* RFC 4034 3.1.8.1:  signed_data = RRSIG_RDATA | RR(1) | RR(2)...
\*   RR(i) = owner | type | class | TTL | RDATA length | RDATA, owner fully
\*   expanded lower-case (wildcard label not expanded), TTL = Original TTL,
\*   all RR(i) in canonical order, duplicates removed (6.3).
SignedData(f, rrs) ==
  LET canons == {RdCanon(rrs[i].type, rrs[i].rd) : i \in 1..Len(rrs)}
      sorted == SortOctSet(canons)
      name   == OwnerForSig(rrs[1].owner, f.labels)
  IN SigPrefix(f) \o
     Concat([i \in 1..Len(sorted) |->
               RrForm(name, rrs[1].type, rrs[1].class, f.ottl, sorted[i])])

--------------------------------------------------------------------------
(* 2. The signer (sign_rrset -> sign_sorted_rrset_in) *)

\* the DNSKEY RDATA of a key: [flags, proto, alg, pub]
DnskeyRdata(key) == EncU16(key.flags) \o <<key.proto, key.alg>> \o key.pub

\* RFC 4034 Appendix B (and B.1 for algorithm 1)
RECURSIVE KeyTagAcc(_, _)
KeyTagAcc(rd, i) ==
  IF i > Len(rd) THEN 0
  ELSE (IF i % 2 = 1 THEN rd[i] * 256 ELSE rd[i]) + KeyTagAcc(rd, i + 1)
KeyTagOfRdata(rd) ==
  LET ac == KeyTagAcc(rd, 1) IN (ac + ((ac \div 65536) % 65536)) % 65536
KeyTag(key) ==
  IF key.alg = 1
  THEN LET n == Len(key.pub)        \* B.1: third-to-last and second-to-last octet
       IN IF n >= 3 THEN key.pub[n - 2] * 256 + key.pub[n - 1] ELSE 0
  ELSE KeyTagOfRdata(DnskeyRdata(key))

\* the RRSIG fields the signer chooses for an RRset (RFC 4035 2.2)
SignerFields(key, keyOwner, rrs, inc, exp) ==
  [tc |-> rrs[1].type, alg |-> key.alg, labels |-> RrsigLabels(rrs[1].owner),
   ottl |-> rrs[1].ttl, exp |-> exp, inc |-> inc, tag |-> KeyTag(key),
   signer |-> keyOwner]

\* the buffer handed to SignRaw::sign_raw: ProtoRrsig::compose_canonical,
\* then Record::compose_canonical of every record of the sorted RRset
\* (owner lower-cased as it stands, the record's own TTL)
\* sign_sorted_rrset_in proper: it *trusts* the order (and the absence of
\* duplicates) of the RRset it is handed - "The RRset must be sorted in
\* canonical ordering before calling this function"
TrustingOctets(f, s) ==
  SigPrefix(f) \o
     Concat([i \in 1..Len(s) |->
               RrForm(s[i].owner, s[i].type, s[i].class, s[i].ttl,
                      RdCanon(s[i].type, s[i].rd))])
\* sign_rrset: sorts a copy by canonical RDATA, then the above
SignerOctets(f, rrs) == TrustingOctets(f, SortRrs(rrs))
\* the precondition of the trusting entry points (RFC 4034 6.3): strictly
\* ascending canonical RDATA - sorted and free of duplicates
CanonicalRrset(s) ==
  \A i \in 1..(Len(s) - 1) :
     LexCmp(RdCanon(s[i].type, s[i].rd), RdCanon(s[i + 1].type, s[i + 1].rd)) < 0

--------------------------------------------------------------------------
(* 3. The validator (RrsigExt::signed_data) *)

ValidatorOctets(f, rrs) ==
  LET s == SortRrs(rrs)
  IN SigPrefix(f) \o
     Concat([i \in 1..Len(s) |->
               RrForm(OwnerForSig(s[i].owner, f.labels), s[i].type, s[i].class,
                      f.ottl, RdCanon(s[i].type, s[i].rd))])

NoDuplicates(rrs) ==
  \A i, j \in 1..Len(rrs) :
     i # j => RdCanon(rrs[i].type, rrs[i].rd) # RdCanon(rrs[j].type, rrs[j].rd)

--------------------------------------------------------------------------
(* Symbolic crypto *)

SignTerm(key, data) == [op |-> "sign", key |-> key, data |-> data]
Verify(sigTerm, key, data) == sigTerm = SignTerm(key, data)

\* RFC 4034 5.1.4: digest = H(canonical owner name | DNSKEY RDATA)
Oct(o)    == [op |-> "oct", o |-> o]
Cat(ts)   == [op |-> "cat", of |-> ts]
Hash(h, t) == [op |-> h, of |-> <<t>>]          \* h in {"sha1","sha256","sha384"}
DsDigestAlg(d) == CASE d = 1 -> "sha1" [] d = 2 -> "sha256" [] d = 4 -> "sha384"
DsDigest(owner, key, d) ==
  Hash(DsDigestAlg(d), Cat(<<Oct(ToWireAbs(LowerName(owner))), Oct(DnskeyRdata(key))>>))

--------------------------------------------------------------------------
(* Keys: algorithm numbers, flag bits, sizes and the RSA public key layout *)

\* DNSSEC algorithm numbers (IANA; RFC 8624 3.1).  What the ring backend can
\* sign with and what verify_signed_data can check with it: a signature made
\* under algorithm a is a signature *of that algorithm* (RFC 5702 for 8 / 10,
\* RFC 6605 for 13 / 14, RFC 8080 for 15) - in the symbolic world the
\* algorithm is part of the key term, so a key whose algorithm number was
\* changed is another key.
RsaAlgs    == {1, 5, 7, 8, 10}
SignAlgs   == {8, 10, 13, 14, 15}
VerifyAlgs == {5, 7, 8, 10, 13, 14, 15}
\* an algorithm that is not alg but that a careless dispatch confuses with it
SiblingAlg(alg) == CASE alg = 8 -> 10 [] alg = 10 -> 8 [] alg = 13 -> 14 [] alg = 14 -> 13
                     [] alg = 5 -> 7 [] alg = 7 -> 5 [] OTHER -> 13

\* RFC 4034 2.1.1 (bit 7 zone key, bit 15 SEP, bits counted from the most
\* significant one) and RFC 5011 7 (bit 8 REVOKE)
IsZoneKey(flags) == (flags \div 256) % 2 = 1
IsRevoked(flags) == (flags \div 128) % 2 = 1
IsSep(flags)     == flags % 2 = 1

\* RFC 3110 2: exponent length (one octet 1..255, or a zero octet and two
\* octets for 256..65535), exponent, modulus; no leading zero octets; both at
\* most 4096 bits
RECURSIVE TrimZeros(_)
TrimZeros(s) == IF s # <<>> /\ Head(s) = 0 THEN TrimZeros(Tail(s)) ELSE s
RsaEncode(e, n) ==
  LET e2 == TrimZeros(e)   n2 == TrimZeros(n)
  IN (IF Len(e2) <= 255 THEN <<Len(e2)>> ELSE <<0>> \o EncU16(Len(e2))) \o e2 \o n2
RsaHead(pub) ==      \* [ok, len, off]: exponent length and where the exponent starts
  IF Len(pub) >= 1 /\ pub[1] # 0 THEN [ok |-> TRUE, len |-> pub[1], off |-> 1]
  ELSE IF Len(pub) >= 3 /\ pub[2] # 0 THEN [ok |-> TRUE, len |-> pub[2] * 256 + pub[3], off |-> 3]
  ELSE [ok |-> FALSE, len |-> 0, off |-> 0]
RsaExp(pub) == LET h == RsaHead(pub) IN SubSeq(pub, h.off + 1, h.off + h.len)
RsaMod(pub) == LET h == RsaHead(pub) IN SubSeq(pub, h.off + h.len + 1, Len(pub))
RsaWellFormed(pub) ==
  LET h == RsaHead(pub)
  IN /\ h.ok /\ Len(pub) > h.off + h.len
     /\ h.len <= 512 /\ Len(pub) - h.off - h.len <= 512
     /\ pub[h.off + 1] # 0 /\ pub[h.off + h.len + 1] # 0

\* RFC 3110 2 on exponent and modulus as numbers (before encoding): what
\* RsaEncode can express and a decoder must take back
RsaInRange(e, n) ==
  /\ Len(TrimZeros(e)) \in 1..512 /\ Len(TrimZeros(n)) \in 1..512
\* backend limits (crypto/ring.rs): signatures are verified with RSA moduli
\* from 1024 bits, made with moduli from 2048 bits; the upper limit on both
\* sides is RFC 3110's 4096 bits
VerifyMinModOctets == 128
SignMinModOctets   == 256
\* the validator-side decision to take a DNSKEY as a public key at all
\* (PublicKey::from_dnskey behind verify_signed_data): every well-formed key
\* of a verifiable algorithm whose size the backend supports - in
\* particular every key the signer side can sign with
ValidatorAccepts(key) ==
  /\ key.alg \in VerifyAlgs
  /\ key.alg \in RsaAlgs => RsaWellFormed(key.pub) /\ Len(RsaMod(key.pub)) >= VerifyMinModOctets
SignerAccepts(key) ==
  /\ key.alg \in SignAlgs
  /\ key.alg \in RsaAlgs => RsaWellFormed(key.pub) /\ Len(RsaMod(key.pub)) >= SignMinModOctets

\* the size of a well-formed key in bits: RSA - the modulus without leading
\* zero bits; ECDSA - the curve (RFC 6605 4: two coordinates); EdDSA - the
\* encoded key (RFC 8080 3)
BitLen(b) == CHOOSE k \in 1..8 : b \div (2 ^ (k - 1)) = 1
KeyWellFormed(key) ==
  CASE key.alg \in RsaAlgs -> RsaWellFormed(key.pub)
    [] key.alg = 13 -> Len(key.pub) = 64
    [] key.alg = 14 -> Len(key.pub) = 96
    [] key.alg = 15 -> Len(key.pub) = 32
    [] key.alg = 16 -> Len(key.pub) = 57
    [] OTHER -> FALSE
KeySize(key) ==
  IF key.alg \in RsaAlgs
  THEN LET n == RsaMod(key.pub) IN 8 * (Len(n) - 1) + BitLen(n[1])
  ELSE IF key.alg \in {13, 14} THEN 4 * Len(key.pub) ELSE 8 * Len(key.pub)

\* the length of a signature (RFC 3110 3: as long as the modulus; RFC 6605 4;
\* RFC 8080 4)
SigLen(key) ==
  CASE key.alg \in RsaAlgs -> Len(RsaMod(key.pub))
    [] key.alg = 13 -> 64 [] key.alg = 14 -> 96 [] key.alg = 15 -> 64 [] key.alg = 16 -> 114

--------------------------------------------------------------------------
(* Helpers for transforms / alterations *)

Upper(b) == IF b >= 97 /\ b <= 122 THEN b - 32 ELSE b
UpperName(n) == [i \in 1..Len(n) |-> [j \in 1..Len(n[i]) |-> Upper(n[i][j])]]
\* an octet that is different from b even ignoring case
OtherLetter(b) == IF Lower(b) = 113 THEN 114 ELSE 113      \* 'q' / 'r'
AltLabel(l) == [l EXCEPT ![1] = OtherLetter(l[1])]
\* alter one label of a name (index i)
AltNameAt(n, i) == [n EXCEPT ![i] = AltLabel(n[i])]

\* alter the record data: the first raw field with at least one octet gets
\* its last octet incremented; without one, the first name gets a changed
\* or an extra label
RECURSIVE FirstRawNE(_, _)
FirstRawNE(rd, i) == IF i > Len(rd) THEN 0
                     ELSE IF rd[i].k = "raw" /\ Len(rd[i].o) > 0 THEN i
                     ELSE FirstRawNE(rd, i + 1)
RECURSIVE FirstName(_, _)
FirstName(rd, i) == IF i > Len(rd) THEN 0
                    ELSE IF rd[i].k = "name" THEN i ELSE FirstName(rd, i + 1)
\* keep the record data well-formed for its type: NAPTR - the order field;
\* TXT - a character of the last string or one more string; otherwise the
\* last octet of the first non-empty raw field
AltRaw(t, o) ==
  IF t = 35 THEN [o EXCEPT ![1] = (o[1] + 1) % 256]
  ELSE IF t = 16 /\ (Len(o) < 2 \/ o[Len(o)] = 0) THEN o \o <<1, 120>>
  ELSE [o EXCEPT ![Len(o)] = (o[Len(o)] + 1) % 256]
AltRd(t, rd) ==
  LET r == FirstRawNE(rd, 1)
      m == FirstName(rd, 1)
  IN IF r > 0
     THEN [rd EXCEPT ![r] = Raw(AltRaw(t, rd[r].o))]
     ELSE IF m > 0
     THEN [rd EXCEPT ![m] = Nm(IF rd[m].n = <<>> THEN <<<<113>>>> ELSE AltNameAt(rd[m].n, 1))]
     ELSE Append(rd, Raw(<<0>>))
=============================================================================
