----------------------------- MODULE KeySetEnv -----------------------------
(* X01.1 / X01.4 -- the key set driven by an honest operator, and the      *)
(* resolvers' caches.                                                      *)
(*                                                                         *)
(* The operator (H_* actions) only uses add_key_*, start_roll (with ANY    *)
(* lists the key set accepts), the five step calls and delete_key.  After  *)
(* every successful call he publishes what the returned Action list names: *)
(*   UpdateDnskeyRrset -> the DNSKEY RRset (present keys, signed by the    *)
(*                        KSK-role signers),                               *)
(*   UpdateDsRrset     -> the DS RRset at the parent (at_parent keys),     *)
(*   UpdateRrsig       -> the zone's RRSIGs (ZSK-role signers).            *)
(* He calls propagationN_complete / roll_done only when the current        *)
(* version of every RRset named by a Report / Wait action has reached all  *)
(* secondaries, and reports the largest TTL among the reported RRsets.     *)
(* He may call cache_expiredN at any time (the key set refuses with        *)
(* Error::Wait when it is too early).                                      *)
(*                                                                         *)
(* Resolver caches: a superseded RRset version can be served by a lagging  *)
(* secondary until propagation completes and then lives in caches for at   *)
(* most its TTL.  `cache[X]` is the set of superseded versions of RRset X  *)
(* that some resolver may still hold, with the ticks they have left        *)
(* (Inf = propagation of the successor not yet complete).  A resolver may  *)
(* hold any combination of a current or cached version of the three sets.  *)
EXTENDS KeySet

CONSTANTS KeySeq,      \* key universe as a sequence (list order)
          Rts,         \* roll types the operator uses
          InitKinds,   \* subset of {"empty", "split", "csk", "imported"}
          TtlChoices,  \* set of [D |-> , S |-> , R |-> ] TTL triples (ticks, >= 1)
          Discipline   \* TRUE: only AlgorithmRoll is used while the zone has no DS

VARIABLES pub,         \* [D |-> [keys, sigs], S |-> set, R |-> set]: what is published
          cache,       \* [D, S, R |-> set of [v, life]]
          ttls         \* the TTL triple of this behaviour

envvars == <<keys, rolls, last, pub, cache, ttls>>

EKeys == {KeySeq[i] : i \in 1..Len(KeySeq)}
Inf == 99

N == Len(KeySeq)
ListsOver(P) ==
  {<<>>} \cup {<<KeySeq[i]>> : i \in P}
  \cup {<<KeySeq[p[1]], KeySeq[p[2]]>> : p \in {q \in P \X P : q[1] < q[2]}}
StartLists == ListsOver({i \in 1..N : KeySeq[i] \in DOMAIN keys})
\* a call naming a key in `new` that is not fresh is refused (nothing
\* changes): those calls are not explored
NewLists == ListsOver({i \in 1..N : KeySeq[i] \in DOMAIN keys /\ IsFresh(KeySeq[i], keys[KeySeq[i]])})

--------------------------------------------------------------------------
(* The world *)

WorldD(ks) == [keys |-> DnskeySet(ks), sigs |-> DnskeySigs(ks)]
WorldS(ks) == DsSet(ks)
WorldR(ks) == ZoneSigs(ks)

Has(acts, a) == \E i \in 1..Len(acts) : acts[i] = a

\* publish a new version of RRset X (the old one stays in caches)
Supersede(c, old, new) == IF old = new THEN c ELSE c \cup {[life |-> Inf, v |-> old]}

Publish(acts, ks, p, c) ==
  LET d == IF Has(acts, "UpdateDnskeyRrset") THEN WorldD(ks) ELSE p.D
      s == IF Has(acts, "UpdateDsRrset")     THEN WorldS(ks) ELSE p.S
      r == IF Has(acts, "UpdateRrsig")       THEN WorldR(ks) ELSE p.R
  IN [cache |-> [D |-> Supersede(c.D, p.D, d), R |-> Supersede(c.R, p.R, r),
                 S |-> Supersede(c.S, p.S, s)],
      pub |-> [D |-> d, R |-> r, S |-> s]]

\* the current version of X has reached every secondary: superseded
\* versions are no longer served, caches keep them for at most TTL[X]
Settle(cs, t) == {[life |-> IF e.life = Inf THEN t ELSE e.life, v |-> e.v] : e \in cs}
\* keep one entry per version (the longest lived)
Norm(cs) == {e \in cs : \A f \in cs : f.v = e.v => f.life <= e.life}

Propagated(acts, c) ==
  [D |-> IF Has(acts, "ReportDnskeyPropagated") \/ Has(acts, "WaitDnskeyPropagated")
         THEN Norm(Settle(c.D, ttls.D)) ELSE c.D,
   R |-> IF Has(acts, "ReportRrsigPropagated") \/ Has(acts, "WaitRrsigPropagated")
         THEN Norm(Settle(c.R, ttls.R)) ELSE c.R,
   S |-> IF Has(acts, "ReportDsPropagated") \/ Has(acts, "WaitDsPropagated")
         THEN Norm(Settle(c.S, ttls.S)) ELSE c.S]

Max(a, b) == IF a >= b THEN a ELSE b
ReportTtl(acts) ==
  Max(IF Has(acts, "ReportDnskeyPropagated") THEN ttls.D ELSE 0,
      Max(IF Has(acts, "ReportDsPropagated") THEN ttls.S ELSE 0,
          IF Has(acts, "ReportRrsigPropagated") THEN ttls.R ELSE 0))

AgeCache(cs) == {[life |-> IF e.life = Inf THEN Inf ELSE e.life - 1, v |-> e.v] :
                   e \in {f \in cs : f.life = Inf \/ f.life > 1}}

--------------------------------------------------------------------------
(* The operator *)

\* perform call o; on success publish what the returned actions name
Call(o, settle) ==
  \E r \in Outcomes(Dev, keys, rolls, o) :
    /\ keys' = r.keys
    /\ rolls' = r.rolls
    /\ last' = [acts |-> <<>>, op |-> [op |-> o.op, rt |-> IF "rt" \in DOMAIN o THEN o.rt ELSE ""],
                res |-> r.res]
    /\ LET c0 == IF r.res = "ok" THEN Propagated(settle, cache) ELSE cache
           w  == IF r.res = "ok" THEN Publish(r.acts, r.keys, pub, c0)
                 ELSE [cache |-> c0, pub |-> pub]
       IN pub' = w.pub /\ cache' = w.cache
    /\ UNCHANGED ttls

TagIx(k) == CHOOSE i \in 1..N : KeySeq[i] = k
H_AddKey(k) == k \notin DOMAIN keys /\
               Call([avail |-> TRUE, k |-> k, op |-> "add", tag |-> TagIx(k)], <<>>)
H_DeleteKey(k) == k \in DOMAIN keys /\ Call([k |-> k, op |-> "delete_key"], <<>>)
\* Every roll type except AlgorithmRoll replaces keys of a zone that is
\* already signed: on an unsigned zone KskRoll / CskRoll are accepted by the
\* key set but publish the DS before (or together with) the first
\* signatures.  With Discipline the operator does not do that.
H_Start(rt) == rolls[rt].st = "Idle" /\
               (Discipline => rt = "AlgorithmRoll" \/ pub.S # {}) /\
               \E old \in StartLists, new \in NewLists :
                  Call([new |-> new, old |-> old, op |-> "start_roll", rt |-> rt], <<>>)
H_P1(rt) == rolls[rt].st = "P1" /\
            LET acts == ActionsOf(rt, "P1")
            IN Call([op |-> "propagation1_complete", rt |-> rt, ttl |-> ReportTtl(acts)], acts)
H_CE1(rt) == rolls[rt].st = "CE1" /\ Call([op |-> "cache_expired1", rt |-> rt], <<>>)
H_P2(rt) == rolls[rt].st = "P2" /\
            LET acts == ActionsOf(rt, "P2")
            IN Call([op |-> "propagation2_complete", rt |-> rt, ttl |-> ReportTtl(acts)], acts)
H_CE2(rt) == rolls[rt].st = "CE2" /\ Call([op |-> "cache_expired2", rt |-> rt], <<>>)
H_Done(rt) == rolls[rt].st = "Done" /\
              Call([op |-> "roll_done", rt |-> rt], ActionsOf(rt, "Done"))

\* a step that succeeds (for fairness: the operator keeps trying)
Advance(rt) == /\ H_P1(rt) \/ H_CE1(rt) \/ H_P2(rt) \/ H_CE2(rt) \/ H_Done(rt)
               /\ rolls'[rt] # rolls[rt]

H_Tick == /\ keys' = TickKeys(keys)
          /\ cache' = [D |-> AgeCache(cache.D), R |-> AgeCache(cache.R), S |-> AgeCache(cache.S)]
          /\ last' = [acts |-> <<>>, op |-> [op |-> "tick"], res |-> "ok"]
          /\ UNCHANGED <<rolls, pub, ttls>>

--------------------------------------------------------------------------
(* Initial states *)

Active1(k, dated) ==       \* an active key (imported keys have no timestamps)
  LET s == [St0 EXCEPT !.avail = TRUE, !.present = TRUE, !.signer = TRUE]
      t == KType(k)
      age == IF dated THEN MaxTTL ELSE None
  IN [a |-> IF t \in {"ksk", "csk"} THEN [s EXCEPT !.at_parent = TRUE] ELSE s,
      b |-> IF t = "csk" THEN s ELSE St0,
      dec |-> FALSE, dsv |-> IF t = "zsk" THEN None ELSE age, pubd |-> TRUE,
      rsv |-> IF t = "ksk" THEN None ELSE age, tag |-> TagIx(k), vis |-> age, wd |-> FALSE]

InitKeys(kind) ==
  CASE kind = "empty" -> << >>
    [] kind = "csk"   -> [k \in {x \in EKeys : x = "c1"} |-> Active1(k, TRUE)]
    [] kind = "split" -> [k \in {x \in EKeys : x \in {"k1", "z1"}} |-> Active1(k, TRUE)]
    [] OTHER          -> [k \in {x \in EKeys : x \in {"k1", "z1"}} |-> Active1(k, FALSE)]

EInit == \E kind \in InitKinds, t \in TtlChoices :
           /\ keys = InitKeys(kind)
           /\ rolls = [rt \in RollTypes |-> Idle]
           /\ last = [acts |-> <<>>, op |-> [op |-> "new"], res |-> "ok"]
           /\ pub = [D |-> WorldD(keys), R |-> WorldR(keys), S |-> WorldS(keys)]
           /\ cache = [D |-> {}, R |-> {}, S |-> {}]
           /\ ttls = t

ENext == \/ \E k \in EKeys : H_AddKey(k) \/ H_DeleteKey(k)
         \/ \E rt \in Rts : H_Start(rt) \/ H_P1(rt) \/ H_CE1(rt) \/ H_P2(rt)
                            \/ H_CE2(rt) \/ H_Done(rt)
         \/ H_Tick

ESpec == EInit /\ [][ENext]_envvars

\* fairness: time passes and the operator keeps performing the next step
EFair == /\ WF_envvars(H_Tick)
         /\ \A rt \in Rts : WF_envvars(Advance(rt))
ELive == ESpec /\ EFair

--------------------------------------------------------------------------
(* X01.1: the zone validates for every admissible cache state *)

Vers(X) == {pub[X]} \cup {e.v : e \in cache[X]}

\* a resolver holding DNSKEY version d, DS version s, RRSIG version r
Chain(d, s, r) ==
  \/ s = {}                                         \* insecure delegation
  \/ /\ \E k \in s : k \in d.keys /\ k \in d.sigs   \* DS -> DNSKEY RRset signed by that key
     /\ \E z \in r : z \in d.keys                   \* RRSIG -> a key of the DNSKEY RRset
Validatable == \A d \in Vers("D"), s \in Vers("S"), r \in Vers("R") : Chain(d, s, r)

\* the published data alone (no caches): what an empty resolver sees
ValidatableNow == Chain(pub.D, pub.S, pub.R)

--------------------------------------------------------------------------
(* X01.4 *)

\* the action lists name every RRset a step changed
InSync == /\ pub.D = WorldD(keys)
          /\ pub.S = WorldS(keys)
          /\ pub.R = WorldR(keys)

\* with no roll in progress, every old key is stale (deletable) ...
RoleActive(k) ==
  LET t == KType(k)
      cls == (IF t \in {"ksk", "csk"} THEN KskRolls ELSE {})
             \cup (IF t \in {"zsk", "csk"} THEN ZskRolls ELSE {}) \cup AllRolls
  IN Active(rolls) \cap cls # {}
OldMeansStale ==
  \A k \in DOMAIN keys :
    (keys[k].a.old \/ keys[k].b.old) /\ ~RoleActive(k) =>
      Stale(keys[k].a) /\ (KType(k) = "csk" => Stale(keys[k].b))
\* ... and a signed zone keeps a non-old signer in each role
SignersRemain ==
  DsSet(keys) # {} /\ Active(rolls) = {} =>
    /\ \E k \in DnskeySigs(keys) : ~keys[k].a.old /\ k \in DsSet(keys)
    /\ \E k \in ZoneSigs(keys) : ~ZS(k, keys[k]).old

\* every started roll completes
Completes == \A rt \in Rts : (rolls[rt].st # "Idle") ~> (rolls[rt].st = "Idle")

\* reachability witnesses (expected to be violated)
NeverRollDone == ~(last.op.op = "roll_done" /\ last.res = "ok")
NeverCached == cache.D = {} \/ cache.S = {} \/ cache.R = {}
=============================================================================
