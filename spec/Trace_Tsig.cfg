CONSTANTS
  Dev = {}
SPECIFICATION TSpec
INVARIANT TraceOk
POSTCONDITION Accepted
CHECK_DEADLOCK FALSE
