CONSTANTS
  Readers = {"r1", "r2"}
  MaxVer = 2
  SerialBits = 3
  SoaVals = {6, 7}
  TxtVals = {1}
SPECIFICATION Spec
INVARIANT TypeOK
INVARIANT CleanKeepsLive
INVARIANT AfterCleanOnlyLive
INVARIANT EntriesBoundedByVersions
PROPERTY HeldViewStable
PROPERTY CurrentViewStable
PROPERTY CleanExact
PROPERTY BumpLaw
PROPERTY NoBumpLaw
CHECK_DEADLOCK FALSE
