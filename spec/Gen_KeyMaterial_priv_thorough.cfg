CONSTANTS
  Dev = {}
  Mode = "priv"
  MaxLines = 4
  MaxSyms = 0
  MaxAdds = 0
  LineSet = "full"
  TagKeyLen = 0
  RsaFields <- RsaNames8
SPECIFICATION Spec
INVARIANT EmitPriv
CHECK_DEADLOCK FALSE
