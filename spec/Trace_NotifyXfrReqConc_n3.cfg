CONSTANTS
  N = 3
  T = 6
  W = 2
  Cap = 2
  Kinds = {"axfr", "ixfr"}
  Design = "ordered"
  Dev = {}
SPECIFICATION TSpec
INVARIANT Far
INVARIANT C2_Conserved
POSTCONDITION Accepted
CHECK_DEADLOCK FALSE
