CONSTANTS
  MapDevs = {}
  Dev = {}
  MaxEntries = 2
SPECIFICATION GenSpec
VIEW View
CHECK_DEADLOCK FALSE
