\* model checking and case generation in one run
CONSTANTS
  MapDevs = {}
  Dev = {}
  MaxEntries = 2
SPECIFICATION GenSpec
VIEW View
INVARIANT Metamorphic
INVARIANT ReaderContextAgrees
CHECK_DEADLOCK FALSE
