CONSTANTS
  Dev = {}
  KeyCfgs <- KeysQuick
  Modes = {"txn", "seq"}
  Servers = {"impl", "rfc"}
  ClockCfgs <- ClocksQuick
  MaxAns = 3
  Bursts = {99, 100}
  FaultsOn = TRUE
  RcKeys <- RcKeysQuick
  Retries = 1
  T0 = 1000000
  StructKinds <- StructAll
SPECIFICATION Spec
INVARIANT HonestVerifies
INVARIANT TamperRejected
INVARIANT ClocksRejected
INVARIANT WindowEnforced
INVARIANT PolicyRejected
INVARIANT RestoresOctets
INVARIANT LayoutFollowsRfc
INVARIANT UnsignedBound
INVARIANT NoPanic
INVARIANT AcceptedWasSigned
CHECK_DEADLOCK FALSE
