---------------------------- MODULE MC_Validator ----------------------------
(* Model-checking wrapper and S->I case generator for Validator.tla.        *)
EXTENDS Validator, Json

\* history variables that do not influence the future are hidden from the
\* fingerprint: two behaviours that differ only there are the same scenario
View == <<scn, budget, advlog, pc, pend, inbox, msg, gi, gst, walk, node, tkeys, dsd,
          ttl0, probes, entp, late, shortz, run, hist, result>>

\* deviations: what the code does today, per scenario (DESIGN 2.6)
HasAct(S) == \E i \in 1..Len(advlog) : advlog[i].act \in S
DevOf(d) ==
  CASE d = "D_nsec3_label_expect" -> [panic |-> TRUE]
    [] d = "D_ttl0_node_panic" -> [panic |-> TRUE]
    [] d = "D_sigcache_ignores_time" -> [panic |-> TRUE]
    [] d = "D_extra_rrset_ignored" -> [state |-> AnswerO(NoInj(msg))]
    [] d = "D_ent_node_as_signer" -> [state |-> "Bogus"]
\* in some run after time had passed a short-lived signature is served that an
\* earlier run (before time passed) had accepted: it sits in the signature
\* cache as good (a panic there ends the behaviour in the real code)
\* the leaf zone's node had expired while the node of the empty non-terminal
\* above it was still cached, and the zone's node has been built again since
EntNodeStale == \E i \in 1..Len(hist) :
                   /\ hist[i].stale
                   /\ \E j \in (hist[i].nf + 1)..Len(fetches) : fetches[j] = [t |-> "DS", z |-> "zone"]
SigCacheStale ==
  \E r \in 2..Len(Logs), i \in 1..Len(Logs) :
     /\ i < r /\ LateBefore(r) /\ ~LateBefore(i)
     /\ \E j \in 1..Len(Logs[r]), k \in 1..Len(Logs[i]) :
           Logs[r][j].act = "ShortSig" /\ Logs[r][j] = Logs[i][k]
DevSet ==
  (IF HasAct({"BadNsec3Label", "BadNsec3LabelSigned"}) THEN {"D_nsec3_label_expect"} ELSE {}) \cup
  (IF \E i \in 1..Len(advlog) : advlog[i].act = "ZeroTtl" /\ advlog[i].t # "ANS"
   THEN {"D_ttl0_node_panic"} ELSE {}) \cup
  (IF Has(msg, "inj") THEN {"D_extra_rrset_ignored"} ELSE {}) \cup
  \* a short-lived signature that was accepted (and cached as good) before time
  \* passed is served again, now expired
  (IF SigCacheStale THEN {"D_sigcache_ignores_time"} ELSE {}) \cup
  (IF EntNodeStale THEN {"D_ent_node_as_signer"} ELSE {})

SetToSeq(S) == CHOOSE f \in [1..Cardinality(S) -> S] : \A i, j \in DOMAIN f : i # j => f[i] # f[j]
\* the admitted set, the machine's own verdict first
AllowSeq == <<result>> \o SetToSeq(Allowed \ {result})

Emit ==
  Finished /\ run = MaxRuns => PrintT("CASE " \o ToJson(
     [in  |-> [shape |-> scn.shape, denial |-> scn.denial, qk |-> scn.qk,
               anc |-> scn.anc, cfg |-> scn.cfg,
               adv |-> advlog, runs |-> [i \in 1..Len(hist) |-> hist[i].adv] \o <<advlog>>,
               qks |-> [i \in 1..Len(hist) |-> hist[i].qk] \o <<scn.qk>>,
               tps |-> <<FALSE>> \o [i \in 1..Len(hist) |-> hist[i].tp],
               rss |-> <<FALSE>> \o [i \in 1..Len(hist) |-> hist[i].rs],
               allow |-> AllowSeq, oracle |-> Oracle,
               fetches |-> fetches],
      exp |-> [state |-> result],
      dev |-> [d \in DevSet |-> DevOf(d)]]))
=============================================================================
