CONSTANTS
  Dev = {"D_record_hash_ttl"}
  Mut = {}
  Tier = 1
  Big = 300
SPECIFICATION Spec
INVARIANT LawRecordHash
CHECK_DEADLOCK FALSE
