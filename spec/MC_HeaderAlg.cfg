CONSTANTS
  Dev = {}
  MaxOps = 2
  Deep = FALSE
  Carrier = "plain"
SPECIFICATION Spec
INVARIANTS TypeOK RcodeJoin StageCounts GettersTotal
PROPERTIES Frame ReadBack NoWrap OptFrame FailedCallNoop SetRcodeBoth Scaffold Axfr GotoCounts
CHECK_DEADLOCK FALSE
