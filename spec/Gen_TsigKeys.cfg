CONSTANTS
  Dev = {}
  Grid = "full"
  PresentAll = FALSE
  MaxLabels = 3
SPECIFICATION Spec
INVARIANT Emit
CHECK_DEADLOCK FALSE
