CONSTANTS
  Dev = {}
  MaxOps = 4
  MaxViewOps = 4
  ManyViews = FALSE
SPECIFICATION MCSpec
INVARIANT EmitOrders
INVARIANT NoUndecided
CHECK_DEADLOCK FALSE
