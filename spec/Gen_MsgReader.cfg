CONSTANTS
  Dev = {}
  MaxOps = 4
SPECIFICATION MCSpec
INVARIANT EmitOrders
CHECK_DEADLOCK FALSE
