CONSTANTS
  Procs = {1, 2}
  Qs = {"zone", "other", "plain"}
  Runs = 1
  MaxNow = 4
  Budget = 1
  AdvKinds <- AllKinds
  Dev = {}
  Mut = {}
  Atomic = FALSE
SPECIFICATION Spec
INVARIANT NodeSound
INVARIANT Soundness
INVARIANT NoPoison
INVARIANT BogusCapped
INVARIANT HonestAgree
INVARIANT FetchBound
INVARIANT NodeExpiryCapped
INVARIANT NoStaleHit
INVARIANT ChildWithinParent
CHECK_DEADLOCK TRUE
