CONSTANTS
  Dev = {"D_remove_zone_drops_class"}
  Classes = {}
  ApexNames = {}
  ArgNames = {}
  QNames = {}
  Ids = {}
  MaxOps = 0
SPECIFICATION TSpec
INVARIANT TreeOK
POSTCONDITION Accepted
CHECK_DEADLOCK FALSE
