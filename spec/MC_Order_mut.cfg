CONSTANTS
  Dev = {}
  Mut = {"M_chain_canon_right_raw"}
  Tier = 1
  Big = 300
SPECIFICATION SpecCarriers
INVARIANT LawCarrier
CHECK_DEADLOCK FALSE
