-------------------------- MODULE MC_SignedOrder --------------------------
(* Model: an RRset derived from the layout table (SignedOrder.tla) reaches  *)
(* the signer and the validator in some arrival order; whatever the order   *)
(* of arrival, what is signed and what is rebuilt is the RFC construction,  *)
(* whose RRs are in the order of their canonical RDATA OCTETS.  Every state *)
(* is one S->I case (Emit).                                                 *)
EXTENDS SignedOrder, TLC, Json

CONSTANTS MaxPerm,      \* rearrangements of the arrival order per behaviour
          Two           \* BOOLEAN: also the two-field RRsets

\* the types a zone holds and the library has structured record data for
\* (RRSIG RRsets are not signed, OPT / TSIG / NULL are not zone data), and
\* types it does not know
SignTypes == (KnownTypes \ {"RRSIG", "OPT", "TSIG", "NULL"}) \cup DOMAIN UnknownCode

Menu == {m \in [x : SignTypes, i : 1..9, two : BOOLEAN] :
           /\ m.i <= Len(LayoutOf(m.x))
           /\ IF m.two THEN Two /\ m.i < Len(LayoutOf(m.x)) /\ Cardinality(Vary2(m.x, m.i)) = 2
              ELSE Cardinality(Vary1(m.x, m.i)) >= 2}
SetOf(m) == IF m.two THEN Vary2(m.x, m.i) ELSE Vary1(m.x, m.i)

Key == [flags |-> 256, proto |-> 3, alg |-> 15, pub |-> [i \in 1..32 |-> (i * 7 + 3) % 256]]
Apex == Suffix(Owner, 1)
KeyOwner == Apex
Inc == <<0, 0, 0, 0>>   Exp == <<0, 0, 0, 100>>
SoaRd == <<Nm(<< <<110, 115>> >> \o Apex), Nm(<< <<109>> >> \o Apex),
           Raw(<<0, 0, 0, 1,  0, 0, 14, 16,  0, 0, 3, 132,  0, 9, 58, 128,  0, 0, 14, 16>>)>>
Soa == [owner |-> Apex, type |-> 6, class |-> 1, ttl |-> 3600, rd |-> SoaRd]

VARIABLES menu, vals, nperm, last
vars == <<menu, vals, nperm, last>>

Init == /\ menu \in Menu
        /\ vals = CanonSeq(menu.x, SetOf(menu))      \* as a sorted zone file has them
        /\ nperm = 0 /\ last = "Sorted"

Reverse == /\ nperm < MaxPerm
           /\ vals' = [i \in 1..Len(vals) |-> vals[Len(vals) + 1 - i]]
           /\ nperm' = nperm + 1 /\ last' = "Reverse" /\ UNCHANGED menu
Rotate  == /\ nperm < MaxPerm /\ Len(vals) >= 3
           /\ vals' = Tail(vals) \o <<Head(vals)>>
           /\ nperm' = nperm + 1 /\ last' = "Rotate" /\ UNCHANGED menu
Next == Reverse \/ Rotate
Spec == Init /\ [][Next]_vars

--------------------------------------------------------------------------
x == menu.x
Rrs == [i \in 1..Len(vals) |->
          [owner |-> Owner, type |-> CodeOf(x), class |-> 1, ttl |-> 3600, rd |-> FieldsOf(x, vals[i])]]
Fields == SignerFields(Key, KeyOwner, Rrs, Inc, Exp)
Rfc == SignedData(Fields, Rrs)

\* Rdata.tla's table and Rrsig.tla's local table state one canonical form
TablesAgree == \A i \in 1..Len(vals) : TablesAgreeOn(x, vals[i])
\* signer and validator transcriptions are the RFC construction in any arrival order
SignerValidatorAreRfc ==
  /\ NoDuplicates(Rrs)
  /\ SignerOctets(Fields, Rrs) = Rfc
  /\ ValidatorOctets(Fields, Rrs) = Rfc
\* ... whose RRs are in the order of the canonical RDATA octets of the table
OrderIsOctetOrder ==
  LET s == SortRrs(Rrs)
      c == CanonSeq(x, SetOf(menu))
  IN /\ CanonicalRrset(s)
     /\ \A i \in 1..Len(s) : RdCanon(CodeOf(x), s[i].rd) = CanonRd(x, c[i])
     /\ \A i, j \in 1..Len(c) : i < j => CanonRdCmp(x, c[i], c[j]) < 0
\* the order of arrival does not matter
ArrivalIrrelevant == Rfc = SignedData(Fields, [i \in 1..Len(vals) |->
                              [Rrs[1] EXCEPT !.rd = FieldsOf(x, CanonSeq(x, SetOf(menu))[i])]])
SignatureVerifies == Verify(SignTerm(Key, SignerOctets(Fields, Rrs)), Key, ValidatorOctets(Fields, Rrs))
\* the menu does what it is for: every variable-length field kind of every
\* type has an RRset which the field-wise "natural" order gets wrong
MenuIsAdversarial ==
  (nperm = 0 /\ ~menu.two /\ IsVarKind(LayoutOf(x)[menu.i].kind)) => Adversarial(x, SetOf(menu))
MenuIsComplete ==
  nperm >= 0 /\ \A t \in SignTypes : \A i \in 1..Len(LayoutOf(t)) :
     IsVarKind(LayoutOf(t)[i].kind) => [x |-> t, i |-> i, two |-> FALSE] \in Menu

\* RFC 4035 2.2: the NS RRset of a delegation point is not signed
ZoneSigns == x # "NS"

Emit == PrintT("CASE " \o ToJson(
  [in  |-> [kind |-> "order", x |-> x, field |-> menu.i, two |-> menu.two, last |-> last,
            key |-> Key, keyOwner |-> KeyOwner, apex |-> Apex, soa |-> Soa, inc |-> Inc, exp |-> Exp,
            rrs |-> Rrs, foreign |-> Rfc],
   exp |-> [sig0 |-> Fields, signer |-> Rfc, zone |-> IF ZoneSigns THEN Rfc ELSE <<>>,
            validator |-> Rfc, stored |-> [i \in 1..Len(vals) |-> CanonRd(x, CanonSeq(x, SetOf(menu))[i])],
            foreign_verifies |-> TRUE, own_verifies_rfc |-> TRUE]]))
=============================================================================
