CONSTANTS
  MaxOps = 2
  Kinds = {"dg", "st", "ms", "x", "cc", "lb", "red"}
SPECIFICATION Spec
INVARIANT ConfigHonoured
ACTION_CONSTRAINT Emit
CHECK_DEADLOCK FALSE
