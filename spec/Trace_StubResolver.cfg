CONSTANTS
  NSSet = {0}
  SearchSet = {}
  NDotsSet = {0}
  DotsSet = {0}
  CallSet = {"query"}
  TooLongSet = {}
  ModeSet = {"mock"}
  UseVcSet = {FALSE}
  TcpOnlySet = {}
  TmoSet = {0}
  Est = 30
  Outs = {}
  TcpOuts = {}
  Lats = {}
  FreshEvery = TRUE
  Dev = {"D_first_failure_final", "D_ndots_ignored"}
SPECIFICATION TSpec
INVARIANT TraceInv
POSTCONDITION Accepted
CHECK_DEADLOCK FALSE
