---------------------------- MODULE ServerRouting ----------------------------
(***************************************************************************)
(* X11 (part 1) -- request routing by query name:                          *)
(* src/net/server/qname_router.rs (QnameRouter) behind the SingleService   *)
(* -> Service adapter of src/net/server/adapter.rs                         *)
(* (SingleServiceToService, ReplyMessage of single_service.rs).            *)
(*                                                                         *)
(* Properties (stated by the builder):                                     *)
(*  P1a  For every list of routes and every request with a question,       *)
(*       QnameRouter::call invokes EXACTLY ONE registered service, exactly *)
(*       once: one registered for the LONGEST name that is a suffix of the *)
(*       first question's name, label by label and ASCII-case-insensitive  *)
(*       (xa.b is not below a.b), and NO other; the reply of that service  *)
(*       is the router's reply.  With no such name NO service is invoked   *)
(*       and the reply is SERVFAIL (with an extended error, as the code    *)
(*       documents).  A request never makes the router panic.              *)
(*  P1b  The routing function depends only on the SET of (name, service)   *)
(*       pairs: for pairwise different names the order of `add` calls is   *)
(*       irrelevant.  (For a name registered twice the code takes the      *)
(*       later registration; the property only asks for one of them.)      *)
(*  P1c  SingleServiceToService yields exactly one stream item per request *)
(*       carrying the service's reply (ID, question, answer kept); behind   *)
(*       EdnsMiddlewareSvc the reply has an OPT record iff the request had.*)
(*                                                                         *)
(* Named deviation:                                                        *)
(*  D_router_no_question_panic  QnameRouter::call `expect`s a first        *)
(*       question: a request with QDCOUNT = 0 (which MandatoryMiddlewareSvc*)
(*       lets through) panics instead of being answered                    *)
(***************************************************************************)
EXTENDS Names, FiniteSets

CONSTANT Dev

VARIABLES routes,   \* Seq of names; service i is the one added i-th
          last      \* what the last call did
rvars == <<routes, last>>

\* ---- declarative: the longest registered suffix
Matches(rs, q) == {i \in 1..Len(rs) : IsSuffixOf(rs[i], q)}
Best(rs, q) == {i \in Matches(rs, q) : \A j \in Matches(rs, q) : Len(rs[j]) <= Len(rs[i])}

\* ---- the code: filter(ends_with).max_by_key(label_count) -- Iterator::
\* max_by_key returns the LAST of several maxima
SetMax(S) == CHOOSE x \in S : \A y \in S : y <= x
Chosen(rs, q) == IF Matches(rs, q) = {} THEN 0 ELSE SetMax(Best(rs, q))

NoCall == [valid |-> FALSE, q |-> <<>>, qd |-> 1, edns |-> FALSE, mw |-> FALSE,
           chosen |-> 0, invoked |-> <<>>, panic |-> FALSE]

RInit == routes = <<>> /\ last = NoCall

R_Add(n) == /\ routes' = Append(routes, n)
            /\ last' = NoCall

\* one request (first question q; qd questions; with an OPT record or not;
\* the adapter alone or behind EdnsMiddlewareSvc)
R_Call(q, qd, edns, mw) ==
  /\ UNCHANGED routes
  /\ IF qd = 0
     THEN last' = [valid |-> TRUE, q |-> q, qd |-> 0, edns |-> edns, mw |-> mw, chosen |-> 0,
                   invoked |-> <<>>, panic |-> "D_router_no_question_panic" \in Dev]
     ELSE LET c == Chosen(routes, q) IN
          last' = [valid |-> TRUE, q |-> q, qd |-> qd, edns |-> edns, mw |-> mw, chosen |-> c,
                   invoked |-> IF c = 0 THEN <<>> ELSE <<c>>, panic |-> FALSE]

\* ---- what the client gets (projection compared with the real reply)
RcServFail == 2
Reply(l) ==
  IF l.qd = 0 THEN [chosen |-> 0, ncalls |-> 0, answered |-> TRUE]
  ELSE IF l.chosen = 0
  THEN [chosen |-> 0, ncalls |-> 0, rcode |-> RcServFail, marker |-> 0,
        opt |-> (~l.mw \/ l.edns), ede |-> (~l.mw \/ l.edns), qd |-> l.qd, idok |-> TRUE]
  ELSE [chosen |-> l.chosen, ncalls |-> 1, rcode |-> 0, marker |-> l.chosen,
        opt |-> (l.mw /\ l.edns), ede |-> FALSE, qd |-> l.qd, idok |-> TRUE]

\* ---- properties
NeverPanics == ~last.panic
RoutesToLongest ==
  (last.valid /\ last.qd > 0) =>
     /\ Len(last.invoked) <= 1
     /\ last.chosen = 0 <=> Matches(routes, last.q) = {}
     /\ last.chosen # 0 => /\ last.invoked = <<last.chosen>>
                           /\ last.chosen \in Best(routes, last.q)
\* all candidates for "the longest suffix" carry the same name
BestIsOneName(Q) ==
  \A q \in Q : \A i, j \in Best(routes, q) : NameEq(routes[i], routes[j])
Distinct(rs) == \A i, j \in 1..Len(rs) : i # j => ~NameEq(rs[i], rs[j])
Reverse(s) == [i \in 1..Len(s) |-> s[Len(s) + 1 - i]]
OrderIrrelevant(Q) ==
  Distinct(routes) =>
    \A q \in Q : LET a == Chosen(routes, q)  b == Chosen(Reverse(routes), q)
                 IN (a = 0) = (b = 0) /\ (a # 0 => routes[a] = Reverse(routes)[b])
=============================================================================
