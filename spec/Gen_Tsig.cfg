CONSTANTS
  Dev = {}
  KeyCfgs <- KeysQuick
  Modes = {"txn", "seq"}
  Servers = {"impl", "rfc"}
  ClockCfgs <- ClocksQuick
  MaxAns = 3
  Bursts = {99, 100}
  FaultsOn = TRUE
  RcKeys <- RcKeysQuick
  Retries = 1
  T0 = 1000000
  StructKinds <- StructAll
SPECIFICATION Spec
INVARIANT Emit
CHECK_DEADLOCK FALSE
