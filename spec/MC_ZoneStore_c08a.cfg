CONSTANTS
  Dev = {}
  NodeNames <- Nodes_tiny
  QNames <- QNames_tiny
  Types <- FourTypes
  QTypes <- QTypesFour
  Vals = {1, 2}
  ValsOf <- MCValsOne
  OpFamilies = {"W", "U", "M", "B"}
  Writers = {"w1"}
  Readers = {}
  MaxVer = 1
  MaxOps = 1
  MaxZf = 2
  NsTarget <- MCNsTarget
SPECIFICATION Spec
VIEW View
INVARIANT TypeOK
INVARIANT AnswersAgree
INVARIANT SpellingLaw
INVARIANT ContentRefines
INVARIANT AbortInvisible
INVARIANT SingleWriter
INVARIANT WalkCurrentIsContent
PROPERTY AtomicVisibility
CHECK_DEADLOCK FALSE
