CONSTANTS
  Sites <- SiteTable
  BITS = 5
SPECIFICATION GenSpec
INVARIANT EmitWindow
CHECK_DEADLOCK FALSE
