CONSTANTS
  BITS = 5
SPECIFICATION GenSpec
INVARIANT EmitWindow
CHECK_DEADLOCK FALSE
