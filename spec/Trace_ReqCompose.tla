--------------------------- MODULE Trace_ReqCompose ---------------------------
(* I->S: a recorded run of real RequestMessage / RequestMessageMulti objects  *)
(* (one event per constructor and per setter call, with the complete          *)
(* projection read back after it) must be a behaviour of ReqCompose.tla.  A    *)
(* step may follow the named deviation only if it is listed in Dev; what was   *)
(* needed is reported (TRACE_DEVS).                                            *)
EXTENDS ReqCompose, Json, IOUtils

Rec == ndJsonDeserialize(IOEnv.TRACE)

VARIABLES l, st, used
tvars == <<l, st, used>>

\* st: <<>> before the first accepted constructor, else <<request>>
IsEv(k) == l <= Len(Rec) /\ Rec[l].ev = k /\ l' = l + 1
\* what an event logs
Seen(e) == [comp |-> e.proj.comp, plain |-> e.proj.plain, h |-> e.proj.h, do |-> e.proj.do, ans |-> e.proj.ans]
NoNotes(e) == "notes" \notin DOMAIN e.proj

TInit == l = 1 /\ st = <<>> /\ used = {}

Matches(s, e) ==
  \/ /\ Seen(e) = ProjIdeal(s) /\ used' = used
  \/ /\ Seen(e) # ProjIdeal(s) /\ Seen(e) = Proj(s)
     /\ used' = used \cup Dev

\* the constructor accepts exactly the sources the specification says, and
\* the new request composes to the source without its OPT records
T_New ==
  /\ IsEv("new")
  /\ LET e == Rec[l] IN
     /\ (e.ok = 1) = NewOk(e.kind, e.src)
     /\ IF e.ok = 1
        THEN /\ st' = <<NewReq(e.kind, e.src)>>
             /\ NoNotes(e) /\ Matches(st'[1], e)
        ELSE st' = <<>> /\ used' = used
T_Call ==
  /\ IsEv("call") /\ st # <<>>
  /\ LET e == Rec[l] IN
     /\ e.op.k \in SetterKinds
     /\ st' = <<Setter(st[1], e.op)>>
     /\ NoNotes(e) /\ Matches(st'[1], e)

TNext == T_New \/ T_Call
TSpec == TInit /\ [][TNext]_tvars

\* the state predicates hold along the recorded run
Inv == st # <<>> => (RoutesAgree(st[1]) \/ Dev # {}) /\ OneOpt(st[1]) /\ GettersAgree(st[1])

Accepted ==
  LET d == TLCGet("stats").diameter
  IN IF d = Len(Rec) + 1 THEN TRUE
     ELSE /\ PrintT("TRACE_REJECTED " \o ToJson([matched |-> d - 1, total |-> Len(Rec),
                      event |-> IF d <= Len(Rec) THEN Rec[d] ELSE [ev |-> "none"]]))
          /\ FALSE
DevReport == (l = Len(Rec) + 1 /\ used # {}) => PrintT("TRACE_DEVS " \o ToJson([devs |-> used]))
=============================================================================
