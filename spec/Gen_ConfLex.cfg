CONSTANTS
  MaxLen = 5
SPECIFICATION Spec
INVARIANT Emit
CHECK_DEADLOCK FALSE
