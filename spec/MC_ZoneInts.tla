----------------------------- MODULE MC_ZoneInts -----------------------------
(* Integer boundaries.  For every numeric field kind reachable from a zone   *)
(* file -- u8, u16, u32 / Serial, Ttl, time stamps in both notations, the    *)
(* TTL column, $TTL, CLASSnnn, TYPEnnn, the \# length -- in the record data  *)
(* of the types that carry them, the values 0, max-1, max, max+1, max+4,     *)
(* 10*max, just past the multiplication guard, max with leading zeros and a  *)
(* 100-digit number are written into a record template.  The law: the        *)
(* outcome is an error if the value exceeds the field's maximum, otherwise   *)
(* the record with exactly that value -- never a panic or a wrapped value.   *)
(* For the templates ZoneFile.tla models (TTL column, $TTL, class, type, MX  *)
(* preference, \# length) the reader machine must agree with the law.        *)
EXTENDS ZoneFile, TLC, Json

VARIABLES tpl, val, act
vars == <<tpl, val, act>>

Origin0 == <<1, 111, 0>>
OwnerA == <<1, 97>> \o Origin0
Dg(ds) == [i \in 1..Len(ds) |-> 48 + ds[i]]
T(s) == s                       \* texts are octet tuples
Nines == [i \in 1..100 |-> 57]
FF(w) == [i \in 1..w |-> 255]
FE(w) == [i \in 1..w |-> IF i = w THEN 254 ELSE 255]
ZZ(w) == [i \in 1..w |-> 0]

\* values per field width: [t |-> text, ok |-> fits, o |-> big-endian octets, lz |-> leading zeros]
V(t, ok, o, lz) == [t |-> t, ok |-> ok, o |-> o, lz |-> lz]
Vals(w) ==
  CASE w = 1 -> { V(Dg(<<1>>), TRUE, <<1>>, FALSE), V(Dg(<<0>>), TRUE, ZZ(1), FALSE), V(Dg(<<2,5,4>>), TRUE, FE(1), FALSE), V(Dg(<<2,5,5>>), TRUE, FF(1), FALSE),
                  V(Dg(<<2,5,6>>), FALSE, <<>>, FALSE), V(Dg(<<2,5,9>>), FALSE, <<>>, FALSE), V(Dg(<<2,6,0>>), FALSE, <<>>, FALSE),
                  V(Dg(<<2,5,5,0>>), FALSE, <<>>, FALSE), V(Dg(<<0,0,2,5,5>>), TRUE, FF(1), TRUE), V(Nines, FALSE, <<>>, FALSE) }
    [] w = 2 -> { V(Dg(<<1>>), TRUE, <<0, 1>>, FALSE), V(Dg(<<0>>), TRUE, ZZ(2), FALSE), V(Dg(<<6,5,5,3,4>>), TRUE, FE(2), FALSE), V(Dg(<<6,5,5,3,5>>), TRUE, FF(2), FALSE),
                  V(Dg(<<6,5,5,3,6>>), FALSE, <<>>, FALSE), V(Dg(<<6,5,5,3,9>>), FALSE, <<>>, FALSE), V(Dg(<<6,5,5,4,0>>), FALSE, <<>>, FALSE),
                  V(Dg(<<6,5,5,3,5,0>>), FALSE, <<>>, FALSE), V(Dg(<<0,0,6,5,5,3,5>>), TRUE, FF(2), TRUE), V(Nines, FALSE, <<>>, FALSE) }
    [] w = 4 -> { V(Dg(<<1>>), TRUE, <<0, 0, 0, 1>>, FALSE), V(Dg(<<0>>), TRUE, ZZ(4), FALSE), V(Dg(<<4,2,9,4,9,6,7,2,9,4>>), TRUE, FE(4), FALSE),
                  V(Dg(<<4,2,9,4,9,6,7,2,9,5>>), TRUE, FF(4), FALSE), V(Dg(<<2,1,4,7,4,8,3,6,4,8>>), TRUE, <<128, 0, 0, 0>>, FALSE),
                  V(Dg(<<4,2,9,4,9,6,7,2,9,6>>), FALSE, <<>>, FALSE), V(Dg(<<4,2,9,4,9,6,7,2,9,9>>), FALSE, <<>>, FALSE),
                  V(Dg(<<4,2,9,4,9,6,7,3,0,0>>), FALSE, <<>>, FALSE), V(Dg(<<4,2,9,4,9,6,7,2,9,5,0>>), FALSE, <<>>, FALSE),
                  V(Dg(<<0,0,4,2,9,4,9,6,7,2,9,5>>), TRUE, FF(4), TRUE), V(Nines, FALSE, <<>>, FALSE) }
\* YYYYMMDDHHmmSS notation of a time stamp
DateVals == { V(Dg(<<1,9,7,0,0,1,0,1,0,0,0,0,0,0>>), TRUE, ZZ(4), FALSE),
              V(Dg(<<2,1,0,6,0,2,0,7,0,6,2,8,1,4>>), TRUE, FE(4), FALSE),
              V(Dg(<<2,1,0,6,0,2,0,7,0,6,2,8,1,5>>), TRUE, FF(4), FALSE),
              V(Dg(<<2,0,3,8,0,1,1,9,0,3,1,4,0,8>>), TRUE, <<128, 0, 0, 0>>, FALSE),
              V(Dg(<<2,0,2,4,1,3,0,1,0,0,0,0,0,0>>), FALSE, <<>>, FALSE),        \* month 13
              V(Dg(<<2,0,2,4,0,2,3,0,0,0,0,0,0,0>>), FALSE, <<>>, FALSE),        \* 30 February
              V(Dg(<<2,1,0,6,0,2,0,7,0,6,2,8,1>>), FALSE, <<>>, FALSE),          \* 13 digits
              V(Dg(<<2,1,0,6,0,2,0,7,0,6,2,8,1,5,0>>), FALSE, <<>>, FALSE) }     \* 15 digits

\* templates: the value goes between pre and post.  kind: which field of the
\* record carries it ("rdata" with wire wpre/wpost, "ttl", "class", "rtype");
\* num: "int" plain integer scan, "ts" time stamp (at most 10 characters or a
\* date), "str" parsed from a decoded string (leading zeros fine)
Tp(name, pre, post, kind, num, w, rtype, wpre, wpost, modelled) ==
  [name |-> name, pre |-> pre, post |-> post, kind |-> kind, num |-> num, w |-> w, rtype |-> rtype,
   wpre |-> wpre, wpost |-> wpost, modelled |-> modelled]
A_IN == <<97, 32, 73, 78, 32>>                                  \* "a IN "
Sp == <<32>>
Nm(c) == <<c, 46>>                                              \* "c."
One == Dg(<<1>>)
U32(v) == <<0, 0, 0, v>>
\* text helpers
Join(ts) == Concat([i \in 1..Len(ts) |-> (IF i = 1 THEN <<>> ELSE Sp) \o ts[i]])
S_SOA == <<83, 79, 65>>  S_RRSIG == <<82, 82, 83, 73, 71>>  S_MX == <<77, 88>>  S_SRV == <<83, 82, 86>>
S_NAPTR == <<78, 65, 80, 84, 82>>  S_DS == <<68, 83>>  S_DNSKEY == <<68, 78, 83, 75, 69, 89>>
S_NSEC3 == <<78, 83, 69, 67, 51>>  S_TLSA == <<84, 76, 83, 65>>  S_CAA == <<67, 65, 65>>  S_TXT == <<84, 88, 84>>
B64_0 == <<65, 65, 61, 61>>                                      \* "AA==" = one zero octet
HEX_0 == <<48, 48>>                                              \* "00"
EmptyQ == <<34, 34>>

\* a record data template: tokens with a hole at position h, wire fields with the hole at the same place
RdTpl(name, tyText, rtype, toks, wires, h, num, w) ==
  Tp(name, A_IN \o tyText \o Sp \o Join(SubSeq(toks, 1, h - 1)) \o (IF h > 1 THEN Sp ELSE <<>>),
     (IF h < Len(toks) THEN Sp ELSE <<>>) \o Join(SubSeq(toks, h + 1, Len(toks))) \o <<LF>>,
     "rdata", num, w, rtype, Concat(SubSeq(wires, 1, h - 1)), Concat(SubSeq(wires, h + 1, Len(wires))), FALSE)

SoaToks == <<Nm(109), Nm(114), One, One, One, One, One>>
SoaWire == <<<<1, 109, 0>>, <<1, 114, 0>>, U32(1), U32(1), U32(1), U32(1), U32(1)>>
RrsigToks == <<<<65>>, Dg(<<8>>), Dg(<<2>>), One, One, One, One, Nm(115), B64_0>>
RrsigWire == <<<<0, 1>>, <<8>>, <<2>>, U32(1), U32(1), U32(1), <<0, 1>>, <<1, 115, 0>>, <<0>>>>
SrvToks == <<One, One, One, Nm(116)>>           SrvWire == <<<<0, 1>>, <<0, 1>>, <<0, 1>>, <<1, 116, 0>>>>
NaptrToks == <<One, One, EmptyQ, EmptyQ, EmptyQ, <<46>>>>   NaptrWire == <<<<0, 1>>, <<0, 1>>, <<0>>, <<0>>, <<0>>, <<0>>>>
DsToks == <<One, Dg(<<8>>), Dg(<<2>>), HEX_0>>  DsWire == <<<<0, 1>>, <<8>>, <<2>>, <<0>>>>
KeyToks == <<One, Dg(<<3>>), Dg(<<8>>), B64_0>> KeyWire == <<<<0, 1>>, <<3>>, <<8>>, <<0>>>>
N3Toks == <<One, One, One, <<45>>, HEX_0, <<65>>>>   N3Wire == <<<<1>>, <<1>>, <<0, 1>>, <<0>>, <<1, 0>>, <<0, 1, 64>>>>
TlsaToks == <<One, One, One, HEX_0>>            TlsaWire == <<<<1>>, <<1>>, <<1>>, <<0>>>>
CaaToks == <<One, <<105, 115, 115, 117, 101>>, <<34, 120, 34>>>>   CaaWire == <<<<1>>, <<5, 105, 115, 115, 117, 101>>, <<120>>>>

Templates ==
  { RdTpl("soa-serial", S_SOA, 6, SoaToks, SoaWire, 3, "int", 4), RdTpl("soa-refresh", S_SOA, 6, SoaToks, SoaWire, 4, "int", 4),
    RdTpl("soa-retry", S_SOA, 6, SoaToks, SoaWire, 5, "int", 4), RdTpl("soa-expire", S_SOA, 6, SoaToks, SoaWire, 6, "int", 4),
    RdTpl("soa-minimum", S_SOA, 6, SoaToks, SoaWire, 7, "int", 4),
    RdTpl("rrsig-alg", S_RRSIG, 46, RrsigToks, RrsigWire, 2, "str", 1), RdTpl("rrsig-labels", S_RRSIG, 46, RrsigToks, RrsigWire, 3, "int", 1),
    RdTpl("rrsig-origttl", S_RRSIG, 46, RrsigToks, RrsigWire, 4, "int", 4),
    RdTpl("rrsig-expiration", S_RRSIG, 46, RrsigToks, RrsigWire, 5, "ts", 4), RdTpl("rrsig-inception", S_RRSIG, 46, RrsigToks, RrsigWire, 6, "ts", 4),
    RdTpl("rrsig-keytag", S_RRSIG, 46, RrsigToks, RrsigWire, 7, "int", 2),
    RdTpl("srv-priority", S_SRV, 33, SrvToks, SrvWire, 1, "int", 2), RdTpl("srv-weight", S_SRV, 33, SrvToks, SrvWire, 2, "int", 2),
    RdTpl("srv-port", S_SRV, 33, SrvToks, SrvWire, 3, "int", 2),
    RdTpl("naptr-order", S_NAPTR, 35, NaptrToks, NaptrWire, 1, "int", 2), RdTpl("naptr-preference", S_NAPTR, 35, NaptrToks, NaptrWire, 2, "int", 2),
    RdTpl("ds-keytag", S_DS, 43, DsToks, DsWire, 1, "int", 2), RdTpl("ds-alg", S_DS, 43, DsToks, DsWire, 2, "str", 1),
    RdTpl("ds-digesttype", S_DS, 43, DsToks, DsWire, 3, "str", 1),
    RdTpl("dnskey-flags", S_DNSKEY, 48, KeyToks, KeyWire, 1, "int", 2), RdTpl("dnskey-protocol", S_DNSKEY, 48, KeyToks, KeyWire, 2, "int", 1),
    RdTpl("dnskey-alg", S_DNSKEY, 48, KeyToks, KeyWire, 3, "str", 1),
    RdTpl("nsec3-alg", S_NSEC3, 50, N3Toks, N3Wire, 1, "str", 1), RdTpl("nsec3-flags", S_NSEC3, 50, N3Toks, N3Wire, 2, "int", 1),
    RdTpl("nsec3-iterations", S_NSEC3, 50, N3Toks, N3Wire, 3, "int", 2),
    RdTpl("tlsa-usage", S_TLSA, 52, TlsaToks, TlsaWire, 1, "str", 1), RdTpl("tlsa-selector", S_TLSA, 52, TlsaToks, TlsaWire, 2, "str", 1),
    RdTpl("tlsa-matching", S_TLSA, 52, TlsaToks, TlsaWire, 3, "str", 1),
    RdTpl("caa-flags", S_CAA, 257, CaaToks, CaaWire, 1, "int", 1),
    [RdTpl("mx-preference", S_MX, 15, <<One, Nm(116)>>, <<<<0, 1>>, <<1, 116, 0>>>>, 1, "int", 2) EXCEPT !.modelled = TRUE],
    \* the columns of the entry itself
    Tp("ttl-column", <<97, 32>>, <<32, 73, 78, 32>> \o S_TXT \o <<32, 116, LF>>, "ttl", "str", 4, 16, <<>>, <<>>, TRUE),
    Tp("dollar-ttl", W_TTL \o Sp, <<LF>> \o A_IN \o S_TXT \o <<32, 116, LF>>, "ttl", "int", 4, 16, <<>>, <<>>, TRUE),
    Tp("class-nnn", <<97, 32, 67, 76, 65, 83, 83>>, Sp \o S_TXT \o <<32, 116, LF>>, "class", "str", 2, 16, <<>>, <<>>, TRUE),
    Tp("type-nnn", A_IN \o <<84, 89, 80, 69>>, <<32, BSL, HASH, 32, 48, LF>>, "rtype", "str", 2, 0, <<>>, <<>>, TRUE),
    Tp("generic-len", A_IN \o <<84, 89, 80, 69, 49>> \o <<32, BSL, HASH, 32>>, <<32, 48, 48, LF>>, "len", "int", 2, 1, <<>>, <<>>, TRUE) }

ValsOf(t) == Vals(t.w) \cup (IF t.num = "ts" THEN DateVals ELSE {})

Text(t, v) == t.pre \o v.t \o t.post

\* the law
Accepts(t, v) ==
  /\ v.ok
  /\ ~(t.num = "ts" /\ Len(v.t) > 10 /\ Len(v.t) # 14)        \* a time stamp is at most 10 digits or a date
  /\ (t.kind = "len" => v.o = <<0, 1>>)                        \* the length must be the data's
Num2(o) == o[1] * 256 + o[2]
Expected(t, v) ==
  IF ~Accepts(t, v) THEN [entries |-> <<>>, err |-> TRUE]
  ELSE LET base == [owner |-> OwnerA, class |-> 1, ttl |-> U32(14) \o <<>>, rtype |-> t.rtype, rdata |-> <<1, 116>>]
           r == CASE t.kind = "rdata" -> [base EXCEPT !.rdata = t.wpre \o v.o \o t.wpost]
                  [] t.kind = "ttl"   -> [base EXCEPT !.ttl = v.o]
                  [] t.kind = "class" -> [base EXCEPT !.class = Num2(v.o)]
                  [] t.kind = "rtype" -> [base EXCEPT !.rtype = Num2(v.o), !.rdata = <<>>]
                  [] t.kind = "len"   -> [base EXCEPT !.rdata = <<0>>]
       IN [entries |-> <<[r EXCEPT !.ttl = IF t.kind = "ttl" THEN v.o ELSE <<0, 0, 14, 16>>]>>, err |-> FALSE]

Init == /\ tpl \in Templates /\ val \in ValsOf(tpl) /\ act = tpl.name
Next == UNCHANGED vars
Spec == Init /\ [][Next]_vars

\* the reader machine of ZoneFile.tla agrees with the law where it models the
\* entry (values from 2^31 up are not representable in TLC: it abstains there)
TtlOct(e) == [e EXCEPT !.ttl = <<(e.ttl \div 16777216) % 256, (e.ttl \div 65536) % 256, (e.ttl \div 256) % 256, e.ttl % 256>>]
ReaderAgrees ==
  tpl.modelled =>
    LET o == ReadAll(Text(tpl, val), Origin0, -1, Dev)
    IN o = Unmodelled \/ [entries |-> [i \in 1..Len(o.entries) |-> TtlOct(o.entries[i])], err |-> o.err] = Expected(tpl, val)

Emit == PrintT("CASE " \o ToJson([in |-> [text |-> Text(tpl, val), origin |-> Origin0, class |-> -1, ttl_octets |-> TRUE,
                                          act |-> tpl.name, value |-> val.t],
                                  exp |-> Expected(tpl, val)]))
=============================================================================
