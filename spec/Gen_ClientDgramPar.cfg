CONSTANTS
  TickMs = 10000
  PConfs <- ParConfs
  Bursts = {1, 3, 1002}
  MaxBursts = 2
  MaxOps = 7
SPECIFICATION GenSpec
VIEW GenView
ACTION_CONSTRAINT EmitTransition
INVARIANT PLimit
INVARIANT PNoStarve
INVARIANT PAccount
CHECK_DEADLOCK FALSE
