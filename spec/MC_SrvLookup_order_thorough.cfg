CONSTANTS
  Fam = "order"
  MaxRecs = 4
  Prios = {0, 1}
  Weights = {0, 1, 3}
  Dev = {}
SPECIFICATION Spec
INVARIANT I_NoPanic
INVARIANT I_Proportion
INVARIANT I_SumIsRemaining
INVARIANT I_AllSelectable
INVARIANT I_ExactlyOnce
INVARIANT I_PriorityOrder
INVARIANT I_Verdict
INVARIANT I_LookupOnlyIfNeeded
INVARIANT I_Questions
PROPERTY P_PrefixStable
PROPERTY L_Terminates
CHECK_DEADLOCK FALSE
