CONSTANTS
  Dev = {}
SPECIFICATION Spec
INVARIANT ReaderAgrees
INVARIANT ReaderDecides
CHECK_DEADLOCK FALSE
