------------------------------- MODULE BaseN -------------------------------
(***************************************************************************)
(* Base16 / Base32hex / Base64 as used by domain's presentation format     *)
(* (src/utils/base16.rs, base32.rs, base64.rs).                            *)
(*                                                                         *)
(* Two layers:                                                             *)
(*   1. the RFC 4648 *functions*  EncN / DecN  (declarative oracle);       *)
(*   2. the incremental *decoder machines* transcribed from the code       *)
(*      (buf / next / latched error), one action per public call           *)
(*      (Push, Finalize).                                                  *)
(* The invariant MachineEqualsFunction ties 2 to 1; the bindings tie the   *)
(* real code to both.                                                      *)
(*                                                                         *)
(* Characters are code points (Nat).  Octets are 0..255.                   *)
(*   3. the symbol level: which zone-file symbols denote a codec character *)
(*      (SymChar), the three SymbolConverters transcribed (one action per  *)
(*      process_symbol / process_tail), the NSEC3 salt wrapper and the     *)
(*      SVCB "ech" reading - tied to 1 by ConvEqualsFunction.              *)
(* Named deviations (see DESIGN.md 2.6) in Dev:                            *)
(*   D_b64_push_after_badpad   "xx=x" leaves next = 4: next push indexes   *)
(*                             buf[4] (panic)                              *)
(*   D_b64_illegal_not_latched an illegal character is reported but not    *)
(*                             remembered; finalize may later say Ok       *)
(*   D_iter_bad_escape_ends_token  IterScanner drops the rest of a token   *)
(*                             at a malformed escape instead of failing    *)
(*                             (cases only: TruncAtBad)                    *)
(***************************************************************************)
EXTENDS Naturals, Sequences, FiniteSets

CONSTANT Dev          \* set of deviation names that are switched on

PAD == 61             \* '='
Err == [err |-> TRUE]
Ok(o) == [ok |-> o]

--------------------------------------------------------------------------
(* Alphabets *)

B64Val(c) ==
  IF c >= 65 /\ c <= 90 THEN c - 65
  ELSE IF c >= 97 /\ c <= 122 THEN c - 97 + 26
  ELSE IF c >= 48 /\ c <= 57 THEN c - 48 + 52
  ELSE IF c = 43 THEN 62
  ELSE IF c = 47 THEN 63
  ELSE 255                         \* illegal

B64Chr(v) ==
  IF v < 26 THEN 65 + v
  ELSE IF v < 52 THEN 97 + (v - 26)
  ELSE IF v < 62 THEN 48 + (v - 52)
  ELSE IF v = 62 THEN 43 ELSE 47

\* base32hex: 0-9 A-V, decoding is case-insensitive
B32Val(c) ==
  IF c >= 48 /\ c <= 57 THEN c - 48
  ELSE IF c >= 65 /\ c <= 86 THEN c - 65 + 10
  ELSE IF c >= 97 /\ c <= 118 THEN c - 97 + 10
  ELSE 255

B32Chr(v) == IF v < 10 THEN 48 + v ELSE 65 + (v - 10)

\* base16: 0-9 A-F, decoding case-insensitive, encoding upper case
B16Val(c) ==
  IF c >= 48 /\ c <= 57 THEN c - 48
  ELSE IF c >= 65 /\ c <= 70 THEN c - 65 + 10
  ELSE IF c >= 97 /\ c <= 102 THEN c - 97 + 10
  ELSE 255

B16Chr(v) == IF v < 10 THEN 48 + v ELSE 65 + (v - 10)

--------------------------------------------------------------------------
(* Bit strings: the RFC 4648 definition is "concatenate the bits, cut in   *)
(* groups of k".  We write exactly that.                                   *)

RECURSIVE BitsOf(_, _)
BitsOf(v, n) ==      \* n-bit big-endian representation of v
  IF n = 0 THEN <<>> ELSE Append(BitsOf(v \div 2, n - 1), v % 2)

RECURSIVE ValOf(_)
ValOf(bits) ==
  IF bits = <<>> THEN 0
  ELSE 2 * ValOf(SubSeq(bits, 1, Len(bits) - 1)) + bits[Len(bits)]

RECURSIVE Flat(_, _)
Flat(vals, n) ==     \* concatenated n-bit representations
  IF vals = <<>> THEN <<>> ELSE BitsOf(Head(vals), n) \o Flat(Tail(vals), n)

PadZero(bits, k) ==  \* extend with zero bits to a multiple of k
  LET r == Len(bits) % k
  IN IF r = 0 THEN bits ELSE bits \o [i \in 1..(k - r) |-> 0]

Groups(bits, k) ==   \* values of the successive complete k-bit groups
  [i \in 1..(Len(bits) \div k) |-> ValOf(SubSeq(bits, (i - 1) * k + 1, i * k))]

--------------------------------------------------------------------------
(* RFC 4648 encoders *)

Enc16(o) == [i \in 1..(2 * Len(o)) |->
               B16Chr(IF i % 2 = 1 THEN o[(i + 1) \div 2] \div 16
                                   ELSE o[i \div 2] % 16)]

\* base32hex *without* padding, as the library documents
Enc32(o) == LET g == Groups(PadZero(Flat(o, 8), 5), 5)
            IN [i \in 1..Len(g) |-> B32Chr(g[i])]

\* base64 with mandatory padding
Enc64(o) == LET g == Groups(PadZero(Flat(o, 8), 6), 6)
                body == [i \in 1..Len(g) |-> B64Chr(g[i])]
                npad == (4 - (Len(g) % 4)) % 4
            IN body \o [i \in 1..npad |-> PAD]

--------------------------------------------------------------------------
(* RFC 4648 decoders: result is Ok(octets) or Err.                        *)
(* Non-canonical trailing bits are accepted and ignored (RFC 4648 3.5     *)
(* says MAY reject; the library accepts).                                 *)

AllLegal(t, V(_)) == \A i \in 1..Len(t) : V(t[i]) # 255

Dec16(t) ==
  IF ~AllLegal(t, B16Val) \/ Len(t) % 2 # 0 THEN Err
  ELSE Ok([i \in 1..(Len(t) \div 2) |-> 16 * B16Val(t[2 * i - 1]) + B16Val(t[2 * i])])

Dec32(t) ==
  IF ~AllLegal(t, B32Val) \/ (Len(t) % 8) \in {1, 3, 6} THEN Err
  ELSE LET bits == Flat([i \in 1..Len(t) |-> B32Val(t[i])], 5)
       IN Ok(Groups(bits, 8))

Dec64(t) ==
  LET n == Len(t)
      npad == IF n >= 2 /\ t[n] = PAD /\ t[n - 1] = PAD THEN 2
              ELSE IF n >= 1 /\ t[n] = PAD THEN 1 ELSE 0
      body == SubSeq(t, 1, n - npad)
  IN IF n % 4 # 0 \/ ~AllLegal(body, B64Val) THEN Err
     ELSE Ok(Groups(Flat([i \in 1..Len(body) |-> B64Val(body[i])], 6), 8))

--------------------------------------------------------------------------
(* Decoder machines, transcribed.  State records; Push returns the new     *)
(* state and the call's result class ("ok" | "err" | "panic").            *)

Shl(v, k) == (v * (2 ^ k)) % 256
Shr(v, k) == v \div (2 ^ k)
Or(a, b)  == \* bitwise or of two octets whose set bits are disjoint by construction,
             \* or overlap only in ignored "marker" cases: computed bit by bit
  LET ba == BitsOf(a, 8) bb == BitsOf(b, 8)
  IN ValOf([i \in 1..8 |-> IF ba[i] = 1 \/ bb[i] = 1 THEN 1 ELSE 0])

\* ---- Base64 (base64.rs Decoder) ----
EOFMARK == 240
PADMARK == 128

Init64 == [buf |-> <<0, 0, 0, 0>>, next |-> 0, out |-> <<>>, err |-> FALSE, dead |-> FALSE]

Push64(st, c) ==
  IF st.dead THEN [st |-> st, res |-> "panic"]
  ELSE IF st.err THEN [st |-> st, res |-> "err"]
  ELSE IF st.next = EOFMARK THEN [st |-> [st EXCEPT !.err = TRUE], res |-> "err"]
  ELSE
    LET illegal == IF c = PAD THEN st.next < 2 ELSE (c > 127 \/ B64Val(c) = 255)
        v == IF c = PAD THEN PADMARK ELSE B64Val(c)
    IN IF illegal
       THEN IF "D_b64_illegal_not_latched" \in Dev
            THEN [st |-> st, res |-> "err"]
            ELSE [st |-> [st EXCEPT !.err = TRUE], res |-> "err"]
       ELSE IF st.next >= 4
       THEN [st |-> [st EXCEPT !.dead = TRUE], res |-> "panic"]   \* buf[next] out of bounds
       ELSE
         LET buf == [st.buf EXCEPT ![st.next + 1] = v]
             nx  == st.next + 1
             o1  == Or(Shl(buf[1], 2), Shr(buf[2], 4))
             o2  == Or(Shl(buf[2], 4), Shr(buf[3], 2))
             o3  == Or(Shl(buf[3], 6), buf[4] % 256)
         IN IF nx < 4
            THEN [st |-> [st EXCEPT !.buf = buf, !.next = nx], res |-> "ok"]
            ELSE
              LET out1 == Append(st.out, o1)
                  out2 == IF buf[3] # PADMARK THEN Append(out1, o2) ELSE out1
              IN IF buf[4] # PADMARK
                 THEN IF buf[3] = PADMARK
                      THEN \* "xx=x"
                           IF "D_b64_push_after_badpad" \in Dev
                           THEN [st |-> [st EXCEPT !.buf = buf, !.next = 4, !.out = out2],
                                 res |-> "err"]
                           ELSE [st |-> [st EXCEPT !.buf = buf, !.next = 4, !.err = TRUE],
                                 res |-> "err"]
                      ELSE [st |-> [st EXCEPT !.buf = buf, !.next = 0,
                                              !.out = Append(out2, o3)], res |-> "ok"]
                 ELSE [st |-> [st EXCEPT !.buf = buf, !.next = EOFMARK, !.out = out2],
                       res |-> "ok"]

Fin64(st) ==
  IF st.dead THEN [panic |-> TRUE]
  ELSE IF st.err THEN Err
  ELSE IF (st.next % 16) # 0 THEN Err ELSE Ok(st.out)

\* ---- Base32hex (base32.rs Decoder) ----
Init32 == [buf |-> <<0, 0, 0, 0, 0, 0, 0, 0>>, next |-> 0, out |-> <<>>, err |-> FALSE, dead |-> FALSE]

Oct32(b, k) ==   \* octet_0 .. octet_4
  CASE k = 0 -> Or(Shl(b[1], 3), Shr(b[2], 2))
    [] k = 1 -> Or(Or(Shl(b[2], 6), Shl(b[3], 1)), Shr(b[4], 4))
    [] k = 2 -> Or(Shl(b[4], 4), Shr(b[5], 1))
    [] k = 3 -> Or(Or(Shl(b[5], 7), Shl(b[6], 2)), Shr(b[7], 3))
    [] k = 4 -> Or(Shl(b[7], 5), b[8])

Push32(st, c) ==
  IF c > 127 \/ B32Val(c) = 255
  THEN [st |-> [st EXCEPT !.err = TRUE], res |-> "err"]
  ELSE LET buf == [st.buf EXCEPT ![st.next + 1] = B32Val(c)]
           nx == st.next + 1
           st1 == IF nx = 8
                  THEN [st EXCEPT !.buf = buf, !.next = 0,
                          !.out = IF st.err THEN st.out
                                  ELSE st.out \o [k \in 1..5 |-> Oct32(buf, k - 1)]]
                  ELSE [st EXCEPT !.buf = buf, !.next = nx]
       IN [st |-> st1, res |-> IF st.err THEN "err" ELSE "ok"]

Fin32(st) ==
  IF st.err THEN Err
  ELSE IF st.next \in {1, 3, 6} THEN Err
  ELSE LET n == CASE st.next = 0 -> 0 [] st.next = 2 -> 1 [] st.next = 4 -> 2
                  [] st.next = 5 -> 3 [] st.next = 7 -> 4
       IN Ok(st.out \o [k \in 1..n |-> Oct32(st.buf, k - 1)])

\* ---- Base16 (base16.rs Decoder) ----
Init16 == [hi |-> 255, out |-> <<>>, err |-> FALSE, dead |-> FALSE]   \* hi = 255: no pending nibble

Push16(st, c) ==
  IF c > 127 \/ B16Val(c) = 255
  THEN [st |-> [st EXCEPT !.err = TRUE], res |-> "err"]
  ELSE LET v == B16Val(c)
           st1 == IF st.hi # 255
                  THEN [st EXCEPT !.hi = 255,
                          !.out = IF st.err THEN st.out ELSE Append(st.out, st.hi + v)]
                  ELSE [st EXCEPT !.hi = 16 * v]
       IN [st |-> st1, res |-> IF st.err THEN "err" ELSE "ok"]

Fin16(st) == IF st.hi # 255 THEN Err ELSE IF st.err THEN Err ELSE Ok(st.out)

--------------------------------------------------------------------------
(* Generic view used by the model-checking, generator and trace modules. *)

Codecs == {"b16", "b32", "b64"}

InitOf(codec) == CASE codec = "b16" -> Init16 [] codec = "b32" -> Init32 [] codec = "b64" -> Init64
PushOf(codec, st, c) ==
  CASE codec = "b16" -> Push16(st, c) [] codec = "b32" -> Push32(st, c) [] codec = "b64" -> Push64(st, c)
FinOf(codec, st) ==
  CASE codec = "b16" -> Fin16(st) [] codec = "b32" -> Fin32(st) [] codec = "b64" -> Fin64(st)
DecOf(codec, t) ==
  CASE codec = "b16" -> Dec16(t) [] codec = "b32" -> Dec32(t) [] codec = "b64" -> Dec64(t)
EncOf(codec, o) ==
  CASE codec = "b16" -> Enc16(o) [] codec = "b32" -> Enc32(o) [] codec = "b64" -> Enc64(o)

RECURSIVE RunPushes(_, _, _)
RunPushes(codec, st, t) ==
  IF t = <<>> THEN st ELSE RunPushes(codec, PushOf(codec, st, Head(t)).st, Tail(t))
--------------------------------------------------------------------------
(* The symbol level (src/base/scan.rs `Symbol`, `EntrySymbol`).            *)
(*                                                                         *)
(* Presentation-format text reaches the codecs as a sequence of *symbols*: *)
(*   [k |-> "c", v |-> code point]   Symbol::Char          an unescaped    *)
(*                                   Unicode character                     *)
(*   [k |-> "s", v |-> octet]        Symbol::SimpleEscape  `\X`            *)
(*   [k |-> "d", v |-> octet]        Symbol::DecimalEscape `\DDD`          *)
(*   [k |-> "e", v |-> 0]            EntrySymbol::EndOfToken               *)
(*                                                                         *)
(* Which symbols denote a codec *character* (reference: the documentation  *)
(* of `Symbol` and of `Symbol::into_char`, and the behaviour of the pinned *)
(* tree): an unescaped character denotes itself; a simple escape "is only  *)
(* allowed for printable ASCII characters" and denotes that character      *)
(* (`\Q` is `Q`); a decimal escape is "a raw octet escaped using the       *)
(* decimal escape sequence", i.e. data, and "doesn't actually represent a  *)
(* character" - into_char fails for it whatever its value.  So `Zm9\118`   *)
(* is not Base64 text although octet 118 is the ASCII code of `v` (this is *)
(* also what BIND does: escapes are not resolved inside Base-N fields).    *)
(* NoChar is a code point outside Unicode: it is in no alphabet and is not *)
(* the padding character, so the RFC 4648 functions reject any text that   *)
(* contains it.                                                            *)

NoChar == 1114112
EOT == [k |-> "e", v |-> 0]
IsPrintable(v) == v >= 32 /\ v < 127

SymChar(sym) ==
  CASE sym.k = "c" -> sym.v
    [] sym.k = "s" -> IF IsPrintable(sym.v) THEN sym.v ELSE NoChar
    [] sym.k = "d" -> NoChar

\* Symbol::into_octet - what character strings (and the SVCB parameter
\* values, RFC 9460 appendix A: "decode the char-string first") make of a
\* symbol: printable ASCII, plain or escaped, or any decimal escape
SymOctet(sym) ==
  CASE sym.k = "c" -> IF IsPrintable(sym.v) THEN sym.v ELSE NoChar
    [] OTHER -> sym.v

SymsOf(esyms) == SelectSeq(esyms, LAMBDA s : s.k # "e")          \* token boundaries carry no data
CharsOf(esyms) == LET y == SymsOf(esyms) IN [i \in 1..Len(y) |-> SymChar(y[i])]
AllPlain(esyms) == \A i \in 1..Len(esyms) : esyms[i].k = "c"

\* What the *string* API (decode, Decoder::push, FromStr) makes of the
\* written form of the symbols: it knows no escapes, a backslash is just a
\* character outside every alphabet.
StrDecOf(codec, syms) == IF AllPlain(syms) THEN DecOf(codec, CharsOf(syms)) ELSE Err

\* NSEC3 salt (RFC 5155 3.3): a single "-" is the empty salt, otherwise Base16
SaltDec(chars) ==
  IF chars = <<45>> THEN Ok(<<>>)
  ELSE IF Len(chars) > 0 /\ chars[1] = 45 THEN Err
  ELSE Dec16(chars)
SaltStrDec(syms) == IF AllPlain(syms) THEN SaltDec(CharsOf(syms)) ELSE Err

\* SVCB "ech" (RFC 9460 14.3.2 + appendix A): the value is a char-string,
\* decoded to octets first (every escape is resolved, a non-ASCII character is
\* an error); the octets must then be non-empty Base64 text.
EchDec(syms) ==
  LET o == [i \in 1..Len(syms) |-> SymOctet(syms[i])]
      ch == [i \in 1..Len(syms) |-> IF IsPrintable(o[i]) THEN o[i] ELSE NoChar]
  IN IF \E i \in 1..Len(syms) : o[i] = NoChar THEN Err
     ELSE IF Dec64(ch) = Ok(<<>>) THEN Err ELSE Dec64(ch)

\* A malformed escape sequence - [k |-> "x", v |-> variant]: a backslash at
\* the end of a token (0), followed by one digit only (1), by a digit and a
\* non-digit (2), by three digits above 255 (3), by a non-ASCII character (4) -
\* is not a symbol at all: text that contains one is not well-formed and every
\* reader of written text must reject it.
HasBad(t) == \E i \in 1..Len(t) : t[i].k = "x"
\* D_iter_bad_escape_ends_token: the token loops of IterScanner iterate
\* `Symbols`, which merely *ends* at a malformed escape; the rest of the
\* token is silently dropped and the conversion carries on with the next one
RECURSIVE TruncAtBad(_, _)
TruncAtBad(t, dropping) ==
  IF t = <<>> THEN <<>>
  ELSE LET h == Head(t)
       IN IF h.k = "e" THEN <<h>> \o TruncAtBad(Tail(t), FALSE)
          ELSE IF dropping \/ h.k = "x" THEN TruncAtBad(Tail(t), TRUE)
          ELSE <<h>> \o TruncAtBad(Tail(t), FALSE)

\* ---- the three SymbolConverters, transcribed ----
\* One step = one `process_symbol` call: the new state and the call's result,
\* Ok(data appended to the output) or Err.  `process_tail` likewise.  A
\* scanner abandons the conversion at the first error.

CInit16 == [buf |-> 0, pending |-> FALSE]
CChar16(st, ch) ==
  LET v == IF ch > 127 THEN 255 ELSE B16Val(ch)                    \* char::to_digit(16)
  IN IF v = 255 THEN [st |-> st, res |-> Err]
     ELSE IF st.pending
          THEN [st |-> [buf |-> st.buf + v, pending |-> FALSE], res |-> Ok(<<st.buf + v>>)]
          ELSE [st |-> [buf |-> 16 * v, pending |-> TRUE], res |-> Ok(<<>>)]
CTail16(st) == IF st.pending THEN Err ELSE Ok(<<>>)

CInit32 == [inp |-> <<0, 0, 0, 0, 0, 0, 0, 0>>, next |-> 0]
CChar32(st, ch) ==
  IF ch > 127 \/ B32Val(ch) = 255 THEN [st |-> st, res |-> Err]
  ELSE LET inp == [st.inp EXCEPT ![st.next + 1] = B32Val(ch)]
           nx == st.next + 1
       IN IF nx = 8
          THEN [st |-> [inp |-> inp, next |-> 0], res |-> Ok([k \in 1..5 |-> Oct32(inp, k - 1)])]
          ELSE [st |-> [inp |-> inp, next |-> nx], res |-> Ok(<<>>)]
CTail32(st) ==
  IF st.next \in {1, 3, 6} THEN Err
  ELSE LET n == CASE st.next = 0 -> 0 [] st.next = 2 -> 1 [] st.next = 4 -> 2
                  [] st.next = 5 -> 3 [] st.next = 7 -> 4
       IN Ok([k \in 1..n |-> Oct32(st.inp, k - 1)])

CInit64 == [inp |-> <<0, 0, 0, 0>>, next |-> 0]
CChar64(st, ch) ==
  IF st.next = EOFMARK THEN [st |-> st, res |-> Err]                \* trailing data
  ELSE IF (IF ch = PAD THEN st.next < 2 ELSE (ch > 127 \/ B64Val(ch) = 255))
  THEN [st |-> st, res |-> Err]
  ELSE LET inp == [st.inp EXCEPT ![st.next + 1] = IF ch = PAD THEN PADMARK ELSE B64Val(ch)]
           nx == st.next + 1
           o1 == Or(Shl(inp[1], 2), Shr(inp[2], 4))
           o2 == Or(Shl(inp[2], 4), Shr(inp[3], 2))
           o3 == Or(Shl(inp[3], 6), inp[4])
       IN IF nx < 4 THEN [st |-> [inp |-> inp, next |-> nx], res |-> Ok(<<>>)]
          ELSE IF inp[3] = PADMARK
          THEN IF inp[4] = PADMARK
               THEN [st |-> [inp |-> inp, next |-> EOFMARK], res |-> Ok(<<o1>>)]
               ELSE [st |-> [inp |-> inp, next |-> 4], res |-> Err]          \* "xx=x"
          ELSE IF inp[4] = PADMARK
          THEN [st |-> [inp |-> inp, next |-> EOFMARK], res |-> Ok(<<o1, o2>>)]
          ELSE [st |-> [inp |-> inp, next |-> 0], res |-> Ok(<<o1, o2, o3>>)]
CTail64(st) == IF (st.next % 16) # 0 THEN Err ELSE Ok(<<>>)

CInitOf(codec) == CASE codec = "b16" -> CInit16 [] codec = "b32" -> CInit32 [] codec = "b64" -> CInit64
CCharOf(codec, st, ch) ==
  CASE codec = "b16" -> CChar16(st, ch) [] codec = "b32" -> CChar32(st, ch) [] codec = "b64" -> CChar64(st, ch)
CTailOf(codec, st) ==
  CASE codec = "b16" -> CTail16(st) [] codec = "b32" -> CTail32(st) [] codec = "b64" -> CTail64(st)

\* process_symbol: the end of a token is ignored, a symbol that denotes no
\* character is an error, a character goes to the decoder proper
CSymOf(codec, st, esym) ==
  IF esym.k = "e" THEN [st |-> st, res |-> Ok(<<>>)]
  ELSE IF SymChar(esym) = NoChar THEN [st |-> st, res |-> Err]
  ELSE CCharOf(codec, st, SymChar(esym))

\* A whole conversion as a scanner performs it: the per-call results up to
\* and including the first error, and the overall result.
RECURSIVE ConvGo(_, _, _, _, _)
ConvGo(codec, st, esyms, steps, out) ==
  IF esyms = <<>>
  THEN LET t == CTailOf(codec, st)
       IN [steps |-> steps, tail |-> t, fin |-> IF t = Err THEN Err ELSE Ok(out \o t.ok)]
  ELSE LET r == CSymOf(codec, st, Head(esyms))
       IN IF r.res = Err THEN [steps |-> Append(steps, Err), tail |-> Err, fin |-> Err]
          ELSE ConvGo(codec, r.st, Tail(esyms), Append(steps, r.res), out \o r.res.ok)
ConvRun(codec, esyms) == ConvGo(codec, CInitOf(codec), esyms, <<>>, <<>>)

\* The NSEC3 salt converter (rdata/nsec3.rs, Nsec3Salt::scan): a wrapper
\* that decides on the first symbol
SaltInit == [mode |-> "none", b16 |-> CInit16]
SaltSym(st, esym) ==
  IF st.mode = "none" /\ esym.k # "e" /\ SymChar(esym) = 45
  THEN [st |-> [st EXCEPT !.mode = "empty"], res |-> Ok(<<>>)]
  ELSE IF st.mode = "empty" THEN [st |-> st, res |-> Err]
  ELSE LET r == CSymOf("b16", st.b16, esym)
       IN [st |-> [mode |-> "b16", b16 |-> r.st], res |-> r.res]
SaltTail(st) == IF st.mode = "b16" THEN CTail16(st.b16) ELSE Ok(<<>>)
RECURSIVE SaltGo(_, _, _)
SaltGo(st, esyms, out) ==
  IF esyms = <<>>
  THEN LET t == SaltTail(st) IN IF t = Err THEN Err ELSE Ok(out \o t.ok)
  ELSE LET r == SaltSym(st, Head(esyms))
       IN IF r.res = Err THEN Err ELSE SaltGo(r.st, Tail(esyms), out \o r.res.ok)
SaltRun(esyms) == SaltGo(SaltInit, esyms, <<>>)

=============================================================================
