------------------------------- MODULE BaseN -------------------------------
(***************************************************************************)
(* Base16 / Base32hex / Base64 as used by domain's presentation format     *)
(* (src/utils/base16.rs, base32.rs, base64.rs).                            *)
(*                                                                         *)
(* Two layers:                                                             *)
(*   1. the RFC 4648 *functions*  EncN / DecN  (declarative oracle);       *)
(*   2. the incremental *decoder machines* transcribed from the code       *)
(*      (buf / next / latched error), one action per public call           *)
(*      (Push, Finalize).                                                  *)
(* The invariant MachineEqualsFunction ties 2 to 1; the bindings tie the   *)
(* real code to both.                                                      *)
(*                                                                         *)
(* Characters are code points (Nat).  Octets are 0..255.                   *)
(* Named deviations (see DESIGN.md 2.6) in Dev:                            *)
(*   D_b64_push_after_badpad   "xx=x" leaves next = 4: next push indexes   *)
(*                             buf[4] (panic)                              *)
(*   D_b64_illegal_not_latched an illegal character is reported but not    *)
(*                             remembered; finalize may later say Ok       *)
(***************************************************************************)
EXTENDS Naturals, Sequences, FiniteSets

CONSTANT Dev          \* set of deviation names that are switched on

PAD == 61             \* '='
Err == [err |-> TRUE]
Ok(o) == [ok |-> o]

--------------------------------------------------------------------------
(* Alphabets *)

B64Val(c) ==
  IF c >= 65 /\ c <= 90 THEN c - 65
  ELSE IF c >= 97 /\ c <= 122 THEN c - 97 + 26
  ELSE IF c >= 48 /\ c <= 57 THEN c - 48 + 52
  ELSE IF c = 43 THEN 62
  ELSE IF c = 47 THEN 63
  ELSE 255                         \* illegal

B64Chr(v) ==
  IF v < 26 THEN 65 + v
  ELSE IF v < 52 THEN 97 + (v - 26)
  ELSE IF v < 62 THEN 48 + (v - 52)
  ELSE IF v = 62 THEN 43 ELSE 47

\* base32hex: 0-9 A-V, decoding is case-insensitive
B32Val(c) ==
  IF c >= 48 /\ c <= 57 THEN c - 48
  ELSE IF c >= 65 /\ c <= 86 THEN c - 65 + 10
  ELSE IF c >= 97 /\ c <= 118 THEN c - 97 + 10
  ELSE 255

B32Chr(v) == IF v < 10 THEN 48 + v ELSE 65 + (v - 10)

\* base16: 0-9 A-F, decoding case-insensitive, encoding upper case
B16Val(c) ==
  IF c >= 48 /\ c <= 57 THEN c - 48
  ELSE IF c >= 65 /\ c <= 70 THEN c - 65 + 10
  ELSE IF c >= 97 /\ c <= 102 THEN c - 97 + 10
  ELSE 255

B16Chr(v) == IF v < 10 THEN 48 + v ELSE 65 + (v - 10)

--------------------------------------------------------------------------
(* Bit strings: the RFC 4648 definition is "concatenate the bits, cut in   *)
(* groups of k".  We write exactly that.                                   *)

RECURSIVE BitsOf(_, _)
BitsOf(v, n) ==      \* n-bit big-endian representation of v
  IF n = 0 THEN <<>> ELSE Append(BitsOf(v \div 2, n - 1), v % 2)

RECURSIVE ValOf(_)
ValOf(bits) ==
  IF bits = <<>> THEN 0
  ELSE 2 * ValOf(SubSeq(bits, 1, Len(bits) - 1)) + bits[Len(bits)]

RECURSIVE Flat(_, _)
Flat(vals, n) ==     \* concatenated n-bit representations
  IF vals = <<>> THEN <<>> ELSE BitsOf(Head(vals), n) \o Flat(Tail(vals), n)

PadZero(bits, k) ==  \* extend with zero bits to a multiple of k
  LET r == Len(bits) % k
  IN IF r = 0 THEN bits ELSE bits \o [i \in 1..(k - r) |-> 0]

Groups(bits, k) ==   \* values of the successive complete k-bit groups
  [i \in 1..(Len(bits) \div k) |-> ValOf(SubSeq(bits, (i - 1) * k + 1, i * k))]

--------------------------------------------------------------------------
(* RFC 4648 encoders *)

Enc16(o) == [i \in 1..(2 * Len(o)) |->
               B16Chr(IF i % 2 = 1 THEN o[(i + 1) \div 2] \div 16
                                   ELSE o[i \div 2] % 16)]

\* base32hex *without* padding, as the library documents
Enc32(o) == LET g == Groups(PadZero(Flat(o, 8), 5), 5)
            IN [i \in 1..Len(g) |-> B32Chr(g[i])]

\* base64 with mandatory padding
Enc64(o) == LET g == Groups(PadZero(Flat(o, 8), 6), 6)
                body == [i \in 1..Len(g) |-> B64Chr(g[i])]
                npad == (4 - (Len(g) % 4)) % 4
            IN body \o [i \in 1..npad |-> PAD]

--------------------------------------------------------------------------
(* RFC 4648 decoders: result is Ok(octets) or Err.                        *)
(* Non-canonical trailing bits are accepted and ignored (RFC 4648 3.5     *)
(* says MAY reject; the library accepts).                                 *)

AllLegal(t, V(_)) == \A i \in 1..Len(t) : V(t[i]) # 255

Dec16(t) ==
  IF ~AllLegal(t, B16Val) \/ Len(t) % 2 # 0 THEN Err
  ELSE Ok([i \in 1..(Len(t) \div 2) |-> 16 * B16Val(t[2 * i - 1]) + B16Val(t[2 * i])])

Dec32(t) ==
  IF ~AllLegal(t, B32Val) \/ (Len(t) % 8) \in {1, 3, 6} THEN Err
  ELSE LET bits == Flat([i \in 1..Len(t) |-> B32Val(t[i])], 5)
       IN Ok(Groups(bits, 8))

Dec64(t) ==
  LET n == Len(t)
      npad == IF n >= 2 /\ t[n] = PAD /\ t[n - 1] = PAD THEN 2
              ELSE IF n >= 1 /\ t[n] = PAD THEN 1 ELSE 0
      body == SubSeq(t, 1, n - npad)
  IN IF n % 4 # 0 \/ ~AllLegal(body, B64Val) THEN Err
     ELSE Ok(Groups(Flat([i \in 1..Len(body) |-> B64Val(body[i])], 6), 8))

--------------------------------------------------------------------------
(* Decoder machines, transcribed.  State records; Push returns the new     *)
(* state and the call's result class ("ok" | "err" | "panic").            *)

Shl(v, k) == (v * (2 ^ k)) % 256
Shr(v, k) == v \div (2 ^ k)
Or(a, b)  == \* bitwise or of two octets whose set bits are disjoint by construction,
             \* or overlap only in ignored "marker" cases: computed bit by bit
  LET ba == BitsOf(a, 8) bb == BitsOf(b, 8)
  IN ValOf([i \in 1..8 |-> IF ba[i] = 1 \/ bb[i] = 1 THEN 1 ELSE 0])

\* ---- Base64 (base64.rs Decoder) ----
EOFMARK == 240
PADMARK == 128

Init64 == [buf |-> <<0, 0, 0, 0>>, next |-> 0, out |-> <<>>, err |-> FALSE, dead |-> FALSE]

Push64(st, c) ==
  IF st.dead THEN [st |-> st, res |-> "panic"]
  ELSE IF st.err THEN [st |-> st, res |-> "err"]
  ELSE IF st.next = EOFMARK THEN [st |-> [st EXCEPT !.err = TRUE], res |-> "err"]
  ELSE
    LET illegal == IF c = PAD THEN st.next < 2 ELSE (c > 127 \/ B64Val(c) = 255)
        v == IF c = PAD THEN PADMARK ELSE B64Val(c)
    IN IF illegal
       THEN IF "D_b64_illegal_not_latched" \in Dev
            THEN [st |-> st, res |-> "err"]
            ELSE [st |-> [st EXCEPT !.err = TRUE], res |-> "err"]
       ELSE IF st.next >= 4
       THEN [st |-> [st EXCEPT !.dead = TRUE], res |-> "panic"]   \* buf[next] out of bounds
       ELSE
         LET buf == [st.buf EXCEPT ![st.next + 1] = v]
             nx  == st.next + 1
             o1  == Or(Shl(buf[1], 2), Shr(buf[2], 4))
             o2  == Or(Shl(buf[2], 4), Shr(buf[3], 2))
             o3  == Or(Shl(buf[3], 6), buf[4] % 256)
         IN IF nx < 4
            THEN [st |-> [st EXCEPT !.buf = buf, !.next = nx], res |-> "ok"]
            ELSE
              LET out1 == Append(st.out, o1)
                  out2 == IF buf[3] # PADMARK THEN Append(out1, o2) ELSE out1
              IN IF buf[4] # PADMARK
                 THEN IF buf[3] = PADMARK
                      THEN \* "xx=x"
                           IF "D_b64_push_after_badpad" \in Dev
                           THEN [st |-> [st EXCEPT !.buf = buf, !.next = 4, !.out = out2],
                                 res |-> "err"]
                           ELSE [st |-> [st EXCEPT !.buf = buf, !.next = 4, !.err = TRUE],
                                 res |-> "err"]
                      ELSE [st |-> [st EXCEPT !.buf = buf, !.next = 0,
                                              !.out = Append(out2, o3)], res |-> "ok"]
                 ELSE [st |-> [st EXCEPT !.buf = buf, !.next = EOFMARK, !.out = out2],
                       res |-> "ok"]

Fin64(st) ==
  IF st.dead THEN [panic |-> TRUE]
  ELSE IF st.err THEN Err
  ELSE IF (st.next % 16) # 0 THEN Err ELSE Ok(st.out)

\* ---- Base32hex (base32.rs Decoder) ----
Init32 == [buf |-> <<0, 0, 0, 0, 0, 0, 0, 0>>, next |-> 0, out |-> <<>>, err |-> FALSE, dead |-> FALSE]

Oct32(b, k) ==   \* octet_0 .. octet_4
  CASE k = 0 -> Or(Shl(b[1], 3), Shr(b[2], 2))
    [] k = 1 -> Or(Or(Shl(b[2], 6), Shl(b[3], 1)), Shr(b[4], 4))
    [] k = 2 -> Or(Shl(b[4], 4), Shr(b[5], 1))
    [] k = 3 -> Or(Or(Shl(b[5], 7), Shl(b[6], 2)), Shr(b[7], 3))
    [] k = 4 -> Or(Shl(b[7], 5), b[8])

Push32(st, c) ==
  IF c > 127 \/ B32Val(c) = 255
  THEN [st |-> [st EXCEPT !.err = TRUE], res |-> "err"]
  ELSE LET buf == [st.buf EXCEPT ![st.next + 1] = B32Val(c)]
           nx == st.next + 1
           st1 == IF nx = 8
                  THEN [st EXCEPT !.buf = buf, !.next = 0,
                          !.out = IF st.err THEN st.out
                                  ELSE st.out \o [k \in 1..5 |-> Oct32(buf, k - 1)]]
                  ELSE [st EXCEPT !.buf = buf, !.next = nx]
       IN [st |-> st1, res |-> IF st.err THEN "err" ELSE "ok"]

Fin32(st) ==
  IF st.err THEN Err
  ELSE IF st.next \in {1, 3, 6} THEN Err
  ELSE LET n == CASE st.next = 0 -> 0 [] st.next = 2 -> 1 [] st.next = 4 -> 2
                  [] st.next = 5 -> 3 [] st.next = 7 -> 4
       IN Ok(st.out \o [k \in 1..n |-> Oct32(st.buf, k - 1)])

\* ---- Base16 (base16.rs Decoder) ----
Init16 == [hi |-> 255, out |-> <<>>, err |-> FALSE, dead |-> FALSE]   \* hi = 255: no pending nibble

Push16(st, c) ==
  IF c > 127 \/ B16Val(c) = 255
  THEN [st |-> [st EXCEPT !.err = TRUE], res |-> "err"]
  ELSE LET v == B16Val(c)
           st1 == IF st.hi # 255
                  THEN [st EXCEPT !.hi = 255,
                          !.out = IF st.err THEN st.out ELSE Append(st.out, st.hi + v)]
                  ELSE [st EXCEPT !.hi = 16 * v]
       IN [st |-> st1, res |-> IF st.err THEN "err" ELSE "ok"]

Fin16(st) == IF st.hi # 255 THEN Err ELSE IF st.err THEN Err ELSE Ok(st.out)

--------------------------------------------------------------------------
(* Generic view used by the model-checking, generator and trace modules. *)

Codecs == {"b16", "b32", "b64"}

InitOf(codec) == CASE codec = "b16" -> Init16 [] codec = "b32" -> Init32 [] codec = "b64" -> Init64
PushOf(codec, st, c) ==
  CASE codec = "b16" -> Push16(st, c) [] codec = "b32" -> Push32(st, c) [] codec = "b64" -> Push64(st, c)
FinOf(codec, st) ==
  CASE codec = "b16" -> Fin16(st) [] codec = "b32" -> Fin32(st) [] codec = "b64" -> Fin64(st)
DecOf(codec, t) ==
  CASE codec = "b16" -> Dec16(t) [] codec = "b32" -> Dec32(t) [] codec = "b64" -> Dec64(t)
EncOf(codec, o) ==
  CASE codec = "b16" -> Enc16(o) [] codec = "b32" -> Enc32(o) [] codec = "b64" -> Enc64(o)

RECURSIVE RunPushes(_, _, _)
RunPushes(codec, st, t) ==
  IF t = <<>> THEN st ELSE RunPushes(codec, PushOf(codec, st, Head(t)).st, Tail(t))
=============================================================================
