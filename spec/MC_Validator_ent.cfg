CONSTANTS
  Dev = {}
  Mut = {}
  AdvOn = {"ANS", "DS", "DNSKEY"}
  AnchorForms = {"dnskey"}
  Cfgs = {"default"}
  MaxRuns = 2
  EntQKinds = {"positive", "nxdomain"}
  Budget = 1
  Shapes = {"entapex_s", "entname_s"}
  Denials = {"nsec", "nsec3"}
  QKinds = {"positive", "nxdomain"}
  AdvActs = {"TimePasses", "ShortSig"}
SPECIFICATION Spec
VIEW View
INVARIANT Soundness
INVARIANT HonestSecure
INVARIANT InsecureNotBogus
INVARIANT WithinAllowed
INVARIANT NoPanic
INVARIANT Terminates
INVARIANT CacheTransparent
INVARIANT NoAnchorNotSecure
INVARIANT LimitsEnforced
INVARIANT Emit
CHECK_DEADLOCK TRUE
