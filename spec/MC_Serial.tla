----------------------------- MODULE MC_Serial -----------------------------
(* Exhaustive check of the RFC 1982 laws (property C17) for SERIAL_BITS =  *)
(* BITS, and the S->I case generator.                                       *)
(*                                                                          *)
(* The state is a pair of serial numbers held by two parties (think: the   *)
(* serial of a primary and of a secondary, or inception / expiration of a  *)
(* signature).  Every pair is an initial state.  The actions are the       *)
(* operations RFC 1982 defines: `Bump`: while both sides are in sync, one  *)
(* side adds an amount 1 .. 2^(BITS-1)-1 (law 1 involves one value and one *)
(* addend only); `Shift` adds the same amount 0 .. 2^(BITS-1)-1 to both    *)
(* sides of any pair; `Swap` exchanges the sides.  The four laws of the    *)
(* property are action properties / invariants over this graph, so TLC     *)
(* evaluates them for all values, all pairs and all addends.                *)
EXTENDS SerialSites, Sequences, TLC, Json

CONSTANT Sites        \* the site table (SerialSites!SiteTable)

VARIABLES a, b
vars == <<a, b>>

Init == a \in Val /\ b \in Val

Bump(n)  == a = b /\ a' = Add(a, n) /\ b' = b
Shift(n) == a' = Add(a, n) /\ b' = Add(b, n)
Swap     == a' = b /\ b' = a

BumpAny  == \E n \in 1 .. H - 1 : Bump(n)
ShiftAny == \E n \in Addend : Shift(n)

Next == BumpAny \/ ShiftAny \/ Swap
Spec == Init /\ [][Next]_vars

(* generator configurations only enumerate the initial states *)
GenSpec == Init /\ [][UNCHANGED vars]_vars

----------------------------------------------------------------------------
(* The laws.  The action properties identify the kind of step by its       *)
(* arithmetic effect, so each holds for *every* transition of that effect. *)

\* 1. a + n > a for n in 1 .. 2^(BITS-1)-1
PAddGreater ==
  [][(b' = b /\ (a' - a) % M \in 1 .. H - 1) => (Cmp(a, a') = "LT" /\ Cmp(a', a) = "GT")]_vars

\* 4. Cmp(a + n, b + n) = Cmp(a, b) for n in 0 .. 2^(BITS-1)-1
PShiftInvariant ==
  [][((a' - a) % M = (b' - b) % M /\ (a' - a) % M \in Addend)
        => Cmp(a', b') = Cmp(a, b)]_vars

\* 2. antisymmetry, stated both on the Swap step and as a state predicate
PSwapFlips == [][(a' = b /\ b' = a) => Cmp(a', b') = Flip(Cmp(a, b))]_vars
IAntisymmetric == LawAntisymmetric(a, b)

\* 3. undefined exactly at distance 2^(BITS-1)
IUndefExactly == LawUndefExactly(a, b)

\* the transcriptions of the library code compute the RFC's function;
\* b doubles as the addend (all of Val, including the panicking half)
IImplMatches == ImplMatches(a, b)
IImplAddMatches == /\ ImplAddMatches(a, b)
                   /\ (b \notin Addend => ImplAdd(a, b) = [panic |-> TRUE])
ITypeOK == a \in Val /\ b \in Val /\ Cmp(a, b) \in Results

\* the same laws in quantified form for one side (redundant with the action
\* properties; kept so that a generator run without transitions checks them)
IQuantified == b = 0 => \A n \in Addend : /\ LawAddGreater(a, n)
                                          /\ \A c \in {0, 1, H - 1, H, H + 1, M - 1} :
                                                LawShiftInvariant(a, c, n)

----------------------------------------------------------------------------
(* S->I generators: one comparison case and one addition case per state.   *)
(* The executor lifts k-bit values to 32 bits by x |-> x * 2^(32-k) + c.   *)

\* one expectation per site of kind "cmp" / "add" in the table, all from Cmp /
\* ImplAdd; `ops` / `rev` bind the operators and antisymmetry of base::Serial,
\* `ref` / `refk` the harness reference at 32 and at k bits
EmitCmp == PrintT("CASE " \o ToJson(
   [in  |-> [kind |-> "cmp", k |-> BITS, a |-> a, b |-> b],
    exp |-> LET r == Cmp(a, b) IN
            [s \in SitesOf(Sites, "cmp") |-> ExpectCmp(OpOf(Sites, "cmp", s), r)]
            @@ [ops |-> OpsOf(r), rev |-> Flip(r), ref |-> r, refk |-> r]]))

EmitAdd == PrintT("CASE " \o ToJson(
   [in  |-> [kind |-> "add", k |-> BITS, a |-> a, n |-> b],
    exp |-> LET r == ImplAdd(a, b) IN
            [s \in SitesOf(Sites, "add") |-> r]
            @@ [ref |-> r, grew |-> (b \in 1 .. H - 1)]]))

\* the executor must know exactly the table's sites (emitted once)
EmitSites == (a = 0 /\ b = 0) => PrintT("CASE " \o ToJson(
   [in  |-> [kind |-> "sites", k |-> BITS],
    exp |-> [kd \in {"cmp", "add", "window", "fresh", "place"} |->
               [s \in SitesOf(Sites, kd) |-> OpOf(Sites, kd, s)]]]))
=============================================================================
