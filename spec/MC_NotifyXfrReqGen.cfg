CONSTANTS
  Dev = {}
  Focus = "all"
  Thorough = FALSE
SPECIFICATION GSpec
INVARIANT Emit
CHECK_DEADLOCK FALSE
