CONSTANTS
  Dev = {}
  MaxReq = 1
  TickMs = 10000
  StConfs <- St_3_2
  RqCap = 8
  ChanCap = 8
  MaxFrames = 0
  EndKinds = {}
  Frames = {}
  DCap = 8
  XLen = 20
  FlowQs = {501, 601}
  Bursts = {1}
  Wants = {1}
  FlowMaxOps = 0
  FlowDev = {}
SPECIFICATION FSpec
INVARIANT FlowPrefix
INVARIANT FlowComplete
INVARIANT FlowBounded
INVARIANT FlowSettled
INVARIANT FlowStream
CHECK_DEADLOCK FALSE
