CONSTANTS
  Dev = {}
  Mut = {}
  AdvOn = {"ANS", "DS", "DNSKEY"}
  AnchorForms = {"dnskey"}
  Cfgs = {"new", "setdef", "tiny", "cname1", "iterins0", "iterbog0"}
  MaxRuns = 1
  EntQKinds = {"positive"}
  Budget = 1
  Shapes = {"secure3", "insecure3"}
  Denials = {"nsec", "nsec3", "optout"}
  QKinds = {"positive", "cname1", "cname2", "wildcard", "nodata", "nxdomain", "wcnodata", "wcname", "dname"}
  AdvActs = {"StripProof", "CorruptKey", "SigsFirst"}
SPECIFICATION Spec
VIEW View
INVARIANT Soundness
INVARIANT HonestSecure
INVARIANT InsecureNotBogus
INVARIANT WithinAllowed
INVARIANT NoPanic
INVARIANT Terminates
INVARIANT CacheTransparent
INVARIANT NoAnchorNotSecure
INVARIANT LimitsEnforced
INVARIANT Emit
CHECK_DEADLOCK TRUE
