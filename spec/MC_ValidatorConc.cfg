CONSTANTS
  Procs = {1, 2}
  Qs = {"zone", "plain"}
  Runs = 1
  MaxNow = 2
  Budget = 1
  AdvKinds = {"Short", "BadSig", "Empty", "AdvKey"}
  Dev = {}
  Mut = {}
  Atomic = FALSE
SPECIFICATION Spec
INVARIANT NodeSound
INVARIANT Soundness
INVARIANT NoPoison
INVARIANT BogusCapped
INVARIANT HonestAgree
INVARIANT FetchBound
INVARIANT NodeExpiryCapped
INVARIANT NoStaleHit
INVARIANT ChildWithinParent
CHECK_DEADLOCK TRUE
