CONSTANTS
  Procs = {1, 2, 3}
  Qs = {"zone", "sub", "other", "plain", "tld"}
  Runs = 2
  MaxNow = 6
  Budget = 3
  AdvKinds <- AllKinds
  Dev <- EnvDev
  Mut = {}
  Atomic = TRUE
  Script <- NoScript
SPECIFICATION SimSpec
INVARIANT Emit
CHECK_DEADLOCK FALSE
