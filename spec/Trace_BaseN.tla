---------------------------- MODULE Trace_BaseN ----------------------------
(* I->S: a recorded run of the real decoders (one event per public call)   *)
(* must be a behaviour of the decoder machines of BaseN.tla, and every     *)
(* finalize result must equal the RFC 4648 function of the pushed text.    *)
EXTENDS BaseN, TLC, Json, IOUtils

Rec == ndJsonDeserialize(IOEnv.TRACE)

VARIABLES l, codec, st, txt
tvars == <<l, codec, st, txt>>

IsEv(e) == l <= Len(Rec) /\ Rec[l].ev = e /\ l' = l + 1

TInit == l = 1 /\ codec = "b16" /\ st = Init16 /\ txt = <<>>

T_New == /\ IsEv("new")
         /\ codec' = Rec[l].codec
         /\ st' = InitOf(Rec[l].codec)
         /\ txt' = <<>>

T_Push == /\ IsEv("push")
          /\ LET r == PushOf(codec, st, Rec[l].c)
             IN r.res = Rec[l].res /\ st' = r.st
          /\ txt' = Append(txt, Rec[l].c)
          /\ UNCHANGED codec

T_Fin == /\ IsEv("fin")
         /\ FinOf(codec, st) = Rec[l].res
         /\ DecOf(codec, txt) = Rec[l].res        \* the property itself
         /\ UNCHANGED <<codec, st, txt>>

TNext == T_New \/ T_Push \/ T_Fin
TSpec == TInit /\ [][TNext]_tvars

NoPanic == ~st.dead

Accepted ==
  LET d == TLCGet("stats").diameter
  IN IF d = Len(Rec) + 1 THEN TRUE
     ELSE /\ PrintT("TRACE_REJECTED " \o ToJson([matched |-> d - 1, total |-> Len(Rec),
                      event |-> IF d <= Len(Rec) THEN Rec[d] ELSE [ev |-> "none"]]))
          /\ FALSE
=============================================================================
