---------------------------- MODULE Trace_BaseN ----------------------------
(* I->S: a recorded run of the real decoders (one event per public call)   *)
(* must be a behaviour of the decoder machines of BaseN.tla, and every     *)
(* finalize result must equal the RFC 4648 function of the pushed text.    *)
(* Likewise the SymbolConverters driven symbol by symbol, and the results  *)
(* of IterScanner conversions / Nsec3Salt::scan over written symbols.      *)
EXTENDS BaseN, TLC, Json, IOUtils

Rec == ndJsonDeserialize(IOEnv.TRACE)

VARIABLES l, codec, st, txt,
          cst, csyms, cout        \* the SymbolConverter being driven: state, symbols so far, output so far
tvars == <<l, codec, st, txt, cst, csyms, cout>>
cvars == <<cst, csyms, cout>>

IsEv(e) == l <= Len(Rec) /\ Rec[l].ev = e /\ l' = l + 1

TInit == /\ l = 1 /\ codec = "b16" /\ st = Init16 /\ txt = <<>>
         /\ cst = CInit16 /\ csyms = <<>> /\ cout = <<>>

T_New == /\ IsEv("new")
         /\ codec' = Rec[l].codec
         /\ st' = InitOf(Rec[l].codec)
         /\ txt' = <<>>
         /\ UNCHANGED cvars

T_Push == /\ IsEv("push")
          /\ LET r == PushOf(codec, st, Rec[l].c)
             IN r.res = Rec[l].res /\ st' = r.st
          /\ txt' = Append(txt, Rec[l].c)
          /\ UNCHANGED <<codec, cvars>>

T_Fin == /\ IsEv("fin")
         /\ FinOf(codec, st) = Rec[l].res
         /\ DecOf(codec, txt) = Rec[l].res        \* the property itself
         /\ UNCHANGED <<codec, st, txt, cvars>>

\* ---- the symbol level ----
SymOfEv(e) == [k |-> e.k, v |-> e.v]
SymsOfEv(a) == [i \in 1..Len(a) |-> SymOfEv(a[i])]

T_CNew == /\ IsEv("cnew")
          /\ codec' = Rec[l].codec
          /\ cst' = CInitOf(Rec[l].codec) /\ csyms' = <<>> /\ cout' = <<>>
          /\ UNCHANGED <<st, txt>>

\* one process_symbol call: the converter machine's result, data included
T_CSym == /\ IsEv("csym")
          /\ LET r == CSymOf(codec, cst, SymOfEv(Rec[l]))
             IN /\ r.res = Rec[l].res
                /\ cst' = r.st
                /\ cout' = IF r.res = Err THEN cout ELSE cout \o r.res.ok
          /\ csyms' = Append(csyms, SymOfEv(Rec[l]))
          /\ UNCHANGED <<codec, st, txt>>

\* process_tail, and the property: everything the converter emitted is the
\* RFC 4648 function of the characters the symbols denote
T_CTail == /\ IsEv("ctail")
           /\ CTailOf(codec, cst) = Rec[l].res
           /\ (IF Rec[l].res = Err THEN Err ELSE Ok(cout \o Rec[l].res.ok)) = DecOf(codec, CharsOf(csyms))
           /\ UNCHANGED <<codec, st, txt, cvars>>

\* IterScanner::convert_token / convert_entry over written symbols
T_IScan == /\ IsEv("iscan")
           /\ LET y == SymsOfEv(Rec[l].syms)
              IN /\ Rec[l].res = DecOf(Rec[l].codec, CharsOf(y))
                 /\ Rec[l].res = ConvRun(Rec[l].codec, y).fin
           /\ UNCHANGED <<codec, st, txt, cvars>>

\* Nsec3Salt::scan over written symbols
T_Salt == /\ IsEv("salt")
          /\ LET y == SymsOfEv(Rec[l].syms)
             IN /\ Rec[l].res = SaltDec(CharsOf(y))
                /\ Rec[l].res = SaltRun(y)
          /\ UNCHANGED <<codec, st, txt, cvars>>

TNext == T_New \/ T_Push \/ T_Fin \/ T_CNew \/ T_CSym \/ T_CTail \/ T_IScan \/ T_Salt
TSpec == TInit /\ [][TNext]_tvars

NoPanic == ~st.dead

Accepted ==
  LET d == TLCGet("stats").diameter
  IN IF d = Len(Rec) + 1 THEN TRUE
     ELSE /\ PrintT("TRACE_REJECTED " \o ToJson([matched |-> d - 1, total |-> Len(Rec),
                      event |-> IF d <= Len(Rec) THEN Rec[d] ELSE [ev |-> "none"]]))
          /\ FALSE
=============================================================================
