CONSTANTS
  Big = TRUE
SPECIFICATION Spec
INVARIANT QueryLaws
INVARIANT BadLaws
INVARIANT Emit
CHECK_DEADLOCK FALSE
