CONSTANTS
  Dev = {}
  TickMs = 10000
  Confs <- MCConfs
  MaxDgrams = 2
  Faults <- MCFaults
SPECIFICATION DSpec
INVARIANT DOwnAnswer
INVARIANT DAtMostOnce
INVARIANT DBudget
INVARIANT DConfigured
INVARIANT DCurrentAttempt
CHECK_DEADLOCK FALSE
