CONSTANTS
  Dev = {}
  RD = 2
  MaxRetries = 1
  MaxDgrams = 2
  Faults <- MCFaults
SPECIFICATION DSpec
INVARIANT DOwnAnswer
INVARIANT DAtMostOnce
INVARIANT DBudget
INVARIANT DCurrentAttempt
CHECK_DEADLOCK FALSE
