SPECIFICATION MCSpec
CONSTANTS
  Caps = {24, 40}
  Ps = {12, 17, 18, 19, 25, 31, 41}
  Fixed = {4, 5}
  MaxCalls = 4
CONSTRAINT Bound
INVARIANTS WithinHard Decisive
PROPERTIES AdmittedWithinSoft HardOnlyNarrows DiscardKeepsLimits LimitToRefusedIffExceeded
CHECK_DEADLOCK FALSE
