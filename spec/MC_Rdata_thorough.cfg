CONSTANTS
  Dev = {}
  MaxVary = 3
  Big = 400
SPECIFICATION Spec
INVARIANT LawValid
INVARIANT LawRoundTrip
INVARIANT LawLen
INVARIANT LawCanon
INVARIANT LawMutants
INVARIANT LawTrailing
INVARIANT LawPtr
INVARIANT LawOpt
INVARIANT LawBitmap
INVARIANT LawSvcBuilder
INVARIANT LawTxtBuilder
INVARIANT LawImplEq
CHECK_DEADLOCK FALSE
