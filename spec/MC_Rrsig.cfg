CONSTANTS
  Dev = {}
  MaxT = 2
  AltDepth = 1
  Thorough = FALSE
SPECIFICATION Spec
INVARIANT SignerValidatorAgree
INVARIANT ValidatorIsRfc
INVARIANT TransformsPreserveSignedData
INVARIANT AlterationsChangeSignedData
INVARIANT KeyTagRange
INVARIANT KeyTagLaws
CHECK_DEADLOCK FALSE
