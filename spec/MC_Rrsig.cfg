CONSTANTS
  Dev = {}
  MaxT = 2
  AltDepth = 1
  Thorough = FALSE
SPECIFICATION Spec
INVARIANT SignerValidatorAgree
INVARIANT ValidatorIsRfc
INVARIANT TransformsPreserveSignedData
INVARIANT AlterationsChangeSignedData
INVARIANT KeyTagRange
INVARIANT KeyTagLaws
INVARIANT KeyLayoutLaws
INVARIANT VectorLaws
INVARIANT Emit
INVARIANT EmitKeys
INVARIANT EmitVectors
CHECK_DEADLOCK FALSE
