CONSTANTS
  Dev = {}
  TickMs = 100000
  Confs = {}
  MaxDgrams = 0
  Faults = {}
  MReqs = {1, 2}
  MaxConn = 3
  MsConfs <- GMsIdle
  XConfs <- GXConfs
  OpNames <- IdleOps
  TcOnly = FALSE
  Mode = "multi"
  MaxOps = 9
  PathMode = FALSE
SPECIFICATION CSpec
VIEW CView
CONSTRAINT OneDelay
ACTION_CONSTRAINT Emit
INVARIANT MAtMostOnce
INVARIANT MOnTime
INVARIANT MOwn
INVARIANT MNoDup
INVARIANT MConnsSound
INVARIANT XNoTruncated
INVARIANT XAtMostOnce
INVARIANT XTcpOnlyAfterTc
INVARIANT XOnTime
INVARIANT XLegsSound
CHECK_DEADLOCK FALSE
