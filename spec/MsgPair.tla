------------------------------ MODULE MsgPair ------------------------------
(* Two-message read operations (C01): every public read-side call that      *)
(* takes a SECOND message or a part of one, as total functions of a PAIR of  *)
(* octet strings.  Either side may be hostile, cut off at any length or a    *)
(* mutated copy of the other; the result is a value (here: a Boolean, a      *)
(* small view, "none" for a constructor that refuses), never a failure, and  *)
(* it depends on the two octet strings only.                                 *)
(*                                                                          *)
(*   Message::is_answer(&self, query)          IsAnswer(resp, req)           *)
(*   QuestionSection == QuestionSection        QSecEq(a, b)                  *)
(*   first_question() / sole_question() of two messages compared             *)
(*   RequestMessage::new(a)?.is_answer(b)       ReqAns(a, b)                  *)
(*   RequestMessageMulti::new(a)?.is_answer(b)  ReqMultiAns(a, b)             *)
(*   MessageBuilder::start_answer(m, rcode) / start_error(m, rcode)          *)
(*                                             StartAnswerV(V(m), rcode)     *)
(*   start_answer(b).is_answer(a)              IsAnswerV(StartAnswerV(..),..) *)
(*   a.copy_records(start_error(b, ..), keep)  CopyIntoV(V(a), V(b))         *)
(*   XfrResponseInterpreter fed a then b       XfrSeq(a, b)                  *)
(*                                                                          *)
(* Everything is defined on the header-and-question view V(m) of a message   *)
(* (Wire.tla's QSection: the questions up to the count or the first error).  *)
EXTENDS Wire

\* records read one after the other as copy_records does (each one parsed,
\* the next section begins where the last record ended)
RECURSIVE ReadRecs(_, _, _, _)
ReadRecs(m, pos, rem, n) ==
  IF rem = 0 THEN [ok |-> TRUE, n |-> n, end |-> pos]
  ELSE LET r == ParseRecord(m, pos) IN
    IF ~r.ok THEN [ok |-> FALSE, n |-> n, end |-> pos] ELSE ReadRecs(m, r.next, rem - 1, n + 1)
\* the number of records of each section if the whole message can be read
\* to its last record, <<>> otherwise
RecCounts(m, q) ==
  IF q.err THEN <<>>
  ELSE LET an == ReadRecs(m, q.end, AN(m), 0) IN
    IF ~an.ok THEN <<>>
    ELSE LET ns == ReadRecs(m, an.end, NS(m), 0) IN
      IF ~ns.ok THEN <<>>
      ELSE LET ar == ReadRecs(m, ns.end, AR(m), 0) IN
        IF ~ar.ok THEN <<>> ELSE <<an.n, ns.n, ar.n>>

\* the header-and-question view of a message of at least 12 octets (rc: the
\* record counts for copy_records)
V(m) ==
  LET q == QSection(m) IN
  [id |-> HId(m), qr |-> QR(m), opcode |-> Opcode(m), rd |-> Bit(At(m, 2), 0), rcode |-> Rcode(m),
   qd |-> QD(m), cnt |-> <<AN(m), NS(m), AR(m)>>, items |-> q.items, err |-> q.err,
   rc |-> RecCounts(m, q)]

\* two questions are the same: name ignoring case, type, class
QItemEq(x, y) == NameEq(x[1], y[1]) /\ x[2] = y[2] /\ x[3] = y[3]

\* QuestionSection == QuestionSection: both are walked in step; they are
\* equal iff both end at the same time without an error and every pair of
\* questions is the same.  A section that cannot be read to its end equals
\* nothing, not even itself.
QSecEqV(a, b) ==
  /\ ~a.err /\ ~b.err
  /\ Len(a.items) = Len(b.items)
  /\ \A i \in 1..Len(a.items) : QItemEq(a.items[i], b.items[i])
QSecEq(a, b) == QSecEqV(V(a), V(b))

\* Message::is_answer: "checks whether the ID fields of the headers are the
\* same, whether the QR flag is set in this message, and whether the
\* questions are the same"
IsAnswerV(resp, req) ==
  /\ resp.qr
  /\ resp.id = req.id
  /\ resp.qd = req.qd
  /\ QSecEqV(resp, req)
IsAnswer(resp, req) == IsAnswerV(V(resp), V(req))

\* first_question() / sole_question() of the two messages compared:
\* -1 one of them has none, 0 different, 1 the same.  first_question() is
\* the first item of the section if there is one, sole_question() wants
\* QDCOUNT = 1 as well.
Tri(b) == IF b THEN 1 ELSE 0
HasFirst(v) == v.qd # 0 /\ Len(v.items) >= 1
HasSole(v) == v.qd = 1 /\ Len(v.items) = 1
FirstEqV(x, y) == IF ~HasFirst(x) \/ ~HasFirst(y) THEN -1 ELSE Tri(QItemEq(x.items[1], y.items[1]))
SoleEqV(x, y) == IF ~HasSole(x) \/ ~HasSole(y) THEN -1 ELSE Tri(QItemEq(x.items[1], y.items[1]))
FirstEq(a, b) == FirstEqV(V(a), V(b))
SoleEq(a, b) == SoleEqV(V(a), V(b))

---------------------------------------------------------------------------
(* The client request types (src/net/client/request.rs).  A request is made  *)
(* from any message: RequestMessage refuses a QUERY without a readable first *)
(* question or with an AXFR question, RequestMessageMulti takes transfer     *)
(* questions only.  is_answer(answer): QR set and same ID; a header-only     *)
(* error reply needs nothing else; otherwise same QDCOUNT and the same       *)
(* questions (Multi: an AXFR reply may leave the question section empty,     *)
(* RFC 5936 2.2).                                                            *)

FirstType(v) == IF HasFirst(v) THEN v.items[1][2] ELSE -1
ReqNewOkV(v) == v.opcode # 0 \/ (HasFirst(v) /\ FirstType(v) # T_AXFR)
ReqMultiNewOkV(v) == FirstType(v) \in {T_AXFR, T_IXFR}

HeaderOnlyError(v) == v.rcode # 0 /\ v.qd = 0 /\ v.cnt = <<0, 0, 0>>

ReqIsAnswerV(req, ans) ==
  /\ ans.qr /\ ans.id = req.id
  /\ \/ HeaderOnlyError(ans)
     \/ (ans.qd = req.qd /\ QSecEqV(ans, req))
ReqMultiIsAnswerV(req, ans) ==
  /\ ans.qr /\ ans.id = req.id
  /\ \/ HeaderOnlyError(ans)
     \/ (FirstType(req) = T_AXFR /\ ans.qd = 0)
     \/ (ans.qd = req.qd /\ QSecEqV(ans, req))

\* -1: the constructor refuses a; else is_answer(b) as 0 / 1
ReqAnsV(x, y) == IF ~ReqNewOkV(x) THEN -1 ELSE Tri(ReqIsAnswerV(x, y))
ReqMultiAnsV(x, y) == IF ~ReqMultiNewOkV(x) THEN -1 ELSE Tri(ReqMultiIsAnswerV(x, y))
ReqAns(a, b) == ReqAnsV(V(a), V(b))
ReqMultiAns(a, b) == ReqMultiAnsV(V(a), V(b))

---------------------------------------------------------------------------
(* MessageBuilder::start_answer(msg, rcode) / start_error(msg, rcode): the   *)
(* reply a server starts for a (possibly hostile) request: ID, opcode and RD *)
(* copied, QR set, the given RCODE, and the questions that can be read       *)
(* (up to the first error) pushed.                                           *)

StartAnswerV(v, rcode) ==
  [id |-> v.id, qr |-> TRUE, opcode |-> v.opcode, rd |-> v.rd, rcode |-> rcode,
   qd |-> Len(v.items), cnt |-> <<0, 0, 0>>, items |-> v.items, err |-> FALSE]

\* what the executor reads back from the built message, plus whether the
\* reply is an answer to the request it was started for
StartProjV(v, rcode) ==
  LET s == StartAnswerV(v, rcode) IN
  [hdr |-> <<s.id, s.opcode, s.rd, s.rcode, s.qd>>, items |-> s.items, answers |-> IsAnswerV(s, v)]

\* the reply started for y, held against x
CrossAnsV(x, y) == IsAnswerV(StartAnswerV(y, 0), x)

---------------------------------------------------------------------------
(* Message::copy_records(target, op) with the target a reply started for a   *)
(* second message and op keeping every record: refused (<<0>>) unless every  *)
(* section of the source can be read to its end; otherwise the result has    *)
(* the header and questions of the started reply and as many records in each *)
(* section as the source: <<1, id, qdcount, ancount, nscount, arcount>>.     *)
CopyIntoV(src, dst) ==
  IF src.rc = <<>> THEN <<0>>
  ELSE <<1, dst.id, Len(dst.items), src.rc[1], src.rc[2], src.rc[3]>>

---------------------------------------------------------------------------
(* XfrResponseInterpreter::interpret_response fed a and then b (and what     *)
(* each yields drained): the property only demands "no panic".  Under the    *)
(* deviation the entry guard fails for a first response whose question is    *)
(* not a transfer question; b is a first response again if a was refused.    *)
XfrSeq(a, b) ==
  IF XfrFirst(a) = "panic" \/ XfrFirst(b) = "panic" THEN "panic" ELSE "nopanic"

---------------------------------------------------------------------------
(* The projection compared with the implementation (S->I cases and I->S      *)
(* "pair" events).  Both orders of every ordered operation are part of it.   *)
(* (x, y: the views of a and b, evaluated once.)                             *)

PairProjV(x, y) ==
  [short |-> <<FALSE, FALSE>>,
   ans |-> <<IsAnswerV(x, y), IsAnswerV(y, x)>>,
   qeq |-> QSecEqV(x, y),
   first |-> FirstEqV(x, y),
   sole |-> SoleEqV(x, y),
   req |-> <<ReqAnsV(x, y), ReqAnsV(y, x)>>,
   reqm |-> <<ReqMultiAnsV(x, y), ReqMultiAnsV(y, x)>>,
   start |-> <<StartProjV(x, 3), StartProjV(y, 1)>>,
   cross |-> <<CrossAnsV(x, y), CrossAnsV(y, x)>>,
   copy |-> <<CopyIntoV(x, y), CopyIntoV(y, x)>>,
   xfrseq |-> "nopanic"]
PairProj(a, b) ==
  IF IsShort(a) \/ IsShort(b) THEN [short |-> <<IsShort(a), IsShort(b)>>]
  ELSE LET x == V(a)  y == V(b) IN PairProjV(x, y)

---------------------------------------------------------------------------
(* Laws (checked by TLC over the enumerated pairs in MC_MsgPair), on the     *)
(* views x, y of two messages                                                *)

\* the extension agrees with the one-message operator it extends
\* (IsAnswerSelf(m) = QR(m) /\ ~QSection(m).err)
SelfAnswerAgreesV(x) == IsAnswerV(x, x) = (x.qr /\ ~x.err)

\* comparing is symmetric; answering needs both question sections readable
PairSymmetricV(x, y) ==
  /\ QSecEqV(x, y) = QSecEqV(y, x)
  /\ FirstEqV(x, y) = FirstEqV(y, x)
  /\ SoleEqV(x, y) = SoleEqV(y, x)
HostileNeverAnswersV(x, y) ==
  (x.err \/ y.err) => (~IsAnswerV(x, y) /\ ~IsAnswerV(y, x) /\ ~QSecEqV(x, y))

\* the reply started for a request answers it exactly if all its questions
\* could be read; whatever answers a request by the client's rule and is
\* not a header-only error answers it by Message::is_answer as well
StartAnswerAnswersV(x) == StartProjV(x, 0).answers = ~x.err
ClientRefinesV(x, y) ==
  (ReqAnsV(x, y) = 1 /\ ~HeaderOnlyError(y)) => IsAnswerV(y, x)

\* a copy is refused exactly if some section of the source cannot be read,
\* and what is copied is what the source's counts announce
CopyLawV(x, y) ==
  /\ (CopyIntoV(x, y) = <<0>>) = (x.rc = <<>>)
  /\ x.err => x.rc = <<>>
  /\ x.rc # <<>> => x.rc = x.cnt
=============================================================================
