CONSTANTS
  Dev = {}
  MaxReq = 2
  RT = 1
  DefRT = 2
  IdleCfg = 0
  RqCap = 8
  ChanCap = 8
  MaxFrames = 3
  MaxQ = 1
  MaxId = 0
  KaVals = {}
  XQs = {501, 601}
  XfrIds = {0, 1}
  XfrAll = FALSE
  QVars = {}
  EndKinds = {"eof"}
  MaxOps = 5
  Frames <- GFrames
SPECIFICATION GenSpec
VIEW GenView
ACTION_CONSTRAINT EmitTransition
CHECK_DEADLOCK FALSE
