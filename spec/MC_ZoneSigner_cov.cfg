CONSTANTS
  Dev = {}
  MaxK = 0
  Thorough = FALSE
SPECIFICATION Spec
INVARIANT DoneMatchesOracle
INVARIANT ErrMatchesOracle
INVARIANT ActsSeen
CHECK_DEADLOCK FALSE
