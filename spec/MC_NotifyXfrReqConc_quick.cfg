CONSTANTS
  N = 1
  T = 3
  W = 2
  Cap = 1
  Kinds = {"axfr", "ixfr"}
  Design = "ordered"
  Dev = {}
  GateClosed = FALSE
SPECIFICATION MCSpec
INVARIANT C1_Bounded
INVARIANT C2_Conserved
INVARIANT C2_Released
INVARIANT OrderedLaw
INVARIANT QuiescentLaw
PROPERTY C3_Progress
CHECK_DEADLOCK FALSE
