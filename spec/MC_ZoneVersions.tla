--------------------------- MODULE MC_ZoneVersions ---------------------------
EXTENDS ZoneVersions
View == <<current, allv, held, rr, wst, nv>>
=============================================================================
