------------------------------ MODULE MC_Tsig ------------------------------
(***************************************************************************)
(* One TSIG exchange between a client and a server that share a key, with  *)
(* an adversary on the wire and skewed clocks.  The participants are the   *)
(* transcriptions of Tsig.tla (or, for the responder, an independent RFC   *)
(* 8945 signer that may leave intermediate answers unsigned).              *)
(*                                                                         *)
(* Properties (C11):                                                       *)
(*   HonestVerifies  no tampering, clocks within fudge, compatible         *)
(*                   truncation policy  =>  every verification is Ok       *)
(*   TamperRejected  after an adversary action the next verification       *)
(*                   returns the error RFC 8945 assigns (ExpectAfter), and *)
(*                   a tampered exchange never completes un-rejected       *)
(*   ClocksRejected  a clock outside the window => BADTIME / BadTime       *)
(*   RestoresOctets  a successful verification yields the pre-signing      *)
(*                   message                                               *)
(*   LayoutFollowsRfc every MAC the transcribed signers produce is the     *)
(*                   HMAC of the declarative RFC digest                    *)
(*   UnsignedBound   99 unsigned answers in a row are accepted, the 100th  *)
(*                   is TooManyUnsigned; the last answer must be signed    *)
(*   AcceptedWasSigned  whenever a receiver accepts a signed message, the  *)
(*                   digest RFC 8945 4.3.3 defines for the message *as     *)
(*                   received* (owner / algorithm name, CLASS, TTL of the  *)
(*                   record included) is one the key holder signed         *)
(* The same module generates the S->I behaviours (Emit).                   *)
(***************************************************************************)
EXTENDS Tsig, TLC, Json

CONSTANTS KeyCfgs,    \* set of [alg, cs, cm, ss, sm]: signing_len / min_mac_len of client and server
          Modes,      \* subset of {"txn", "seq"}
          Servers,    \* subset of {"impl", "rfc"}
          ClockCfgs,  \* set of <<skew of the server clock, drift of the client clock at answer time>>
          MaxAns,     \* answers in a sequence
          Bursts,     \* sizes of unsigned bursts the RFC responder may send
          FaultsOn,   \* BOOLEAN: adversary enabled
          RcKeys,     \* key configurations for which the RCODE / TSIG-error dimension of answers is explored
          Retries,    \* how often the client may compose (sign) the request again before it is answered
          T0,         \* the client's clock (SymTime for the behaviours run through the wrappers)
          StructKinds \* structural mutations of the TSIG record the adversary may apply

VARIABLES cfg, pc, net, pre, fault, cli, srv, rfc, macs, nans, g, hist, outs
vars == <<cfg, pc, net, pre, fault, cli, srv, rfc, macs, nans, g, hist, outs>>

Fudge == 300
ReqId == 4660                                    \* 0x1234
KeyNameC == <<4, 84, 115, 73, 103, 3, 75, 101, 121, 0>>     \* "TsIg.Key." (client's spelling)
KeyNameS == <<4, 116, 115, 105, 103, 3, 107, 101, 121, 0>>  \* "tsig.key." (server's spelling)
KeyNameX == <<5, 111, 116, 104, 101, 114, 3, 107, 101, 121, 0>>  \* "other.key."

CKey == [name |-> KeyNameC, alg |-> cfg.kc.alg, sec |-> 1, slen |-> cfg.kc.cs, minlen |-> cfg.kc.cm]
SKey == [name |-> KeyNameS, alg |-> cfg.kc.alg, sec |-> 1, slen |-> cfg.kc.ss, minlen |-> cfg.kc.sm]
Skew == cfg.clk[1]
Drift == cfg.clk[2]
NowS == T0 + Skew
NowC == T0 + Drift

\* message contents are pseudo-octets: body b = 1000 + b, its section counts
\* 2000 + b; bodies 1, 2 are requests (2 has one additional record), 3, 4 answers
BodyAr(b) == IF b \in {2, 4} THEN 1 ELSE 0
Msg(id, f1, f2, b) == [hdr |-> EncU16(id) \o <<f1, f2, 2000 + b>> \o EncU16(BodyAr(b)),
                       body |-> <<1000 + b>>, recs |-> <<>>]
ExtraRec == MkOther(<<5000>>)
\* NOERROR, SERVFAIL, NXDOMAIN, REFUSED, NOTAUTH, NOTZONE
RCodes == {0, 2, 3, 5, 9, 10}
TErrs == {0, BADSIG, BADKEY, BADTIME, BADTRUNC}
PlainAnswers == cfg.rc = 0 /\ cfg.terr = 0
\* RFC 8945 5.2.3 / 5.3.2 error answers as the client reads them: RCODE NOTAUTH
\* with TSIG error BADKEY / BADSIG (unsigned errors) or BADTIME
ErrShape == cfg.rc = NOTAUTH /\ cfg.terr \in {BADSIG, BADKEY, BADTIME}

NewFull == PseudoFull(Len(macs) + 1, cfg.kc.alg)
Abs(x) == IF x < 0 THEN -x ELSE x

\* not tampering with signed octets: a forwarder's new ID, another spelling of
\* the key name, truncation to a length the receiver's policy accepts, and -
\* RFC 8945 5.3.1 - the error / other fields of the second and later answers
\* of a sequence, whose digest covers only the timers
\* ... and what leaves the signed content alone but a receiver may refuse
\* (DESIGN 7): another spelling of the algorithm name (names compare
\* case-insensitively, the digest takes the canonical form), compressed names
\* (RFC 8945 4.2: the algorithm name MUST NOT be compressed; nothing is said
\* about the owner), CLASS / TTL of the record of a second or later answer
Benign == {"none", "RewriteId", "RecaseKey", "TruncOk", "TimersOnly",
           "AlgUpper", "AlgCompressed", "KeyCompressed", "FormatOnly"}

--------------------------------------------------------------------------
(* The error RFC 8945 assigns (5.2, 5.2.1 - 5.2.3, 5.3.1); sets where the  *)
(* RFC / the property leave freedom                                        *)

ExpectAfter(kind, side, first, uns) ==
  CASE kind \in {"FlipBody", "FlipMac", "ChangeOrigId", "ShiftTime", "SetErr", "SetOther6"}
         -> IF side = "srv" THEN {"BADSIG"} ELSE {"BadSig"}
    \* other-data that is neither empty nor a time stamp: the record cannot be interpreted
    [] kind = "SetOther" -> IF side = "srv" THEN {"FORMERR"} ELSE {"FormErr"}
    \* RFC 8945 5.2.2.1: a MAC longer than the algorithm's output is FORMERR; it also
    \* cannot equal the computed MAC (BADSIG) - either rejection is admitted.  A
    \* truncated MAC extended to at most the native length is just a wrong MAC.
    [] kind = "ExtendMac" -> IF side = "srv" THEN {"FORMERR", "BADSIG"} ELSE {"FormErr", "BadSig"}
    [] kind = "ExtendWithin" -> IF side = "srv" THEN {"BADSIG"} ELSE {"BadSig"}
    [] kind = "TruncShort" -> IF side = "srv" THEN {"BADTRUNC", "FORMERR"} ELSE {"BadTrunc", "FormErr"}
    [] kind \in {"RenameKey", "SwapAlg"} -> IF side = "srv" THEN {"BADKEY"} ELSE {"BadKey"}
    \* RFC 8945 5.2.1: a name that is not the name of the key / of a supported
    \* algorithm - more labels, fewer labels - is an unknown key
    [] kind \in {"AlgExtra", "AlgDouble", "AlgSigAlg", "AlgRoot", "AlgPrefix", "KeyExtra", "KeyFewer", "KeyRoot"}
         -> IF side = "srv" THEN {"BADKEY"} ELSE {"BadKey"}
    [] kind = "AlgUpper" -> IF side = "srv" THEN {"Ok", "BADKEY"} ELSE {"Ok", "BadKey"}
    [] kind \in {"AlgCompressed", "KeyCompressed"} -> IF side = "srv" THEN {"Ok", "FORMERR"} ELSE {"Ok", "FormErr"}
    \* RFC 8945 5.2: a TSIG RR that cannot be interpreted
    [] kind \in {"AlgBadPtr", "KeyBadPtr", "RdTrail", "RdLong", "RdShort", "OtherLenLong"}
         -> IF side = "srv" THEN {"FORMERR"} ELSE {"FormErr"}
    \* RFC 8945 4.2: CLASS MUST be ANY, TTL MUST be 0; both are digest input
    \* (4.3.3), so such a record can never verify
    [] kind \in {"ClassIn", "ClassNone", "TtlOne"} -> IF side = "srv" THEN {"FORMERR", "BADSIG"} ELSE {"FormErr", "BadSig"}
    [] kind = "FormatOnly" -> {"Ok", "FormErr"}
    [] kind \in {"MoveTsig", "DupTsig"} -> IF side = "srv" THEN {"FORMERR"} ELSE {"FormErr"}
    [] kind = "StripTsig" -> IF side = "srv" THEN {"Unsigned"}
                             ELSE IF first THEN {"ServerUnsigned"}
                             ELSE IF uns < 99 THEN {"Ok"} ELSE {"TooManyUnsigned"}
    [] kind = "InsertUnsigned" -> IF first THEN {"ServerUnsigned"}
                                  ELSE IF uns < 99 THEN {"Ok"} ELSE {"TooManyUnsigned"}
    [] kind = "ForgeBadKey" -> {"ServerBadKey"}
    [] kind = "ForgeBadSig" -> {"ServerBadSig"}
    [] kind = "ForgeBadTime" -> {"BadSig"}
    [] OTHER -> {"Ok"}

--------------------------------------------------------------------------
Init ==
  /\ cfg \in {c \in [kc : KeyCfgs, mode : Modes, server : Servers, clk : ClockCfgs, reqb : {1, 2},
                       rc : RCodes, terr : TErrs] :
                /\ (c.clk # <<0, 0>> => c.reqb = 1)
                \* the RCODE of the answers and - for the independent responder, the
                \* library's signer always writes 0 - the TSIG error field of its signed answers
                /\ (c.server = "impl" => c.terr = 0)
                /\ (<<c.rc, c.terr>> # <<0, 0>> => c.kc \in RcKeys /\ c.reqb = 1)}
  /\ pc = "c_req" /\ net = <<>> /\ pre = Msg(0, 0, 0, 1) /\ fault = "none"
  /\ cli = [ctx |-> <<>>, first |-> TRUE, unsigned |-> 0]
  /\ srv = [ctx |-> <<>>, first |-> TRUE]
  /\ rfc = [prior |-> <<>>, pending |-> <<>>, first |-> TRUE]
  /\ macs = <<>> /\ nans = 0
  /\ g = [req |-> Msg(0, 0, 0, 1), reqv |-> Msg(0, 0, 0, 1), err |-> "", etime |-> 0, efudge |-> 0,
          smac |-> <<>>, expect |-> {"Ok"}, got |-> "Ok", restored |-> TRUE, layout |-> TRUE, signed |-> TRUE,
          rejected |-> FALSE, run |-> 0, composed |-> 1]
  /\ hist = <<>> /\ outs = <<>>

Log(op, out) == hist' = Append(hist, op) /\ outs' = Append(outs, out)

\* ClientTransaction::request / ClientSequence::request
ClientRequest ==
  /\ pc = "c_req"
  /\ LET m == Msg(ReqId, 0, 0, cfg.reqb)
         r == ClientRequestStep(CKey, m, T0, Fudge, macs, NewFull)
     IN /\ macs' = r.tbl
        /\ cli' = [ctx |-> r.ctx, first |-> TRUE, unsigned |-> 0]
        /\ net' = <<[msg |-> r.msg, rep |-> 1]>>
        /\ pre' = m
        /\ g' = [g EXCEPT !.layout = @ /\ r.data = DigestReq(CKey.name, AlgWire(CKey.alg), r.msg)]
        /\ Log([op |-> "c_request", b |-> cfg.reqb, id |-> ReqId, now |-> T0, fudge |-> Fudge],
               [res |-> "Ok", mac |-> r.j, n |-> Len(r.mac)])
  /\ pc' = "net1"
  /\ UNCHANGED <<cfg, fault, srv, rfc, nans>>

\* The request is composed and signed again before any answer arrived (what a
\* datagram transport does on a timeout: new message ID).  The new transaction
\* replaces the pending one: answers are verified against the latest request.
ClientRecompose ==
  /\ pc = "net1" /\ fault = "none" /\ g.composed <= Retries /\ PlainAnswers
  /\ LET m == Msg(ReqId + g.composed, 0, 0, cfg.reqb)
         r == ClientRequestStep(CKey, m, T0, Fudge, macs, NewFull)
     IN /\ macs' = r.tbl
        /\ cli' = [ctx |-> r.ctx, first |-> TRUE, unsigned |-> 0]
        /\ net' = <<[msg |-> r.msg, rep |-> 1]>>
        /\ pre' = m
        /\ g' = [g EXCEPT !.layout = @ /\ r.data = DigestReq(CKey.name, AlgWire(CKey.alg), r.msg),
                          !.composed = @ + 1]
        /\ Log([op |-> "c_request", b |-> cfg.reqb, id |-> ReqId + g.composed, now |-> T0, fudge |-> Fudge],
               [res |-> "Ok", mac |-> r.j, n |-> Len(r.mac)])
  /\ UNCHANGED <<cfg, pc, fault, srv, rfc, nans>>

--------------------------------------------------------------------------
(* The adversary: one action on the signed message in flight *)

CanTamper == /\ FaultsOn /\ cfg.clk = <<0, 0>> /\ fault = "none" /\ PlainAnswers
             /\ pc \in {"net1", "net2"} /\ net # <<>> /\ Head(net).rep = 1
             /\ FromMessage(Head(net).msg) = "Found"
Side == IF pc = "net1" THEN "srv" ELSE "cli"
RecvMin == IF pc = "net1" THEN cfg.kc.sm ELSE cfg.kc.cm
M0 == Head(net).msg
WithTsig(m, t) == [m EXCEPT !.recs = Append(SubSeq(@, 1, Len(@) - 1), t)]
ClassTtlKinds == {"ClassIn", "ClassNone", "TtlOne"}
Effective(kind) == IF kind \in {"SetErr", "SetOther6"} /\ pc = "net2" /\ cfg.mode = "seq" /\ ~cli.first
                   THEN "TimersOnly"
                   ELSE IF kind \in ClassTtlKinds /\ pc = "net2" /\ cfg.mode = "seq" /\ ~cli.first
                   THEN "FormatOnly" ELSE kind
Tamper(kind, arg, m) ==
  /\ net' = <<[msg |-> m, rep |-> 1]>> \o Tail(net)
  /\ fault' = Effective(kind)
  /\ g' = [g EXCEPT !.expect = ExpectAfter(Effective(kind), Side, cli.first, cli.unsigned)]
  /\ hist' = Append(hist, [op |-> "adv", kind |-> kind, arg |-> arg])
  /\ outs' = Append(outs, [res |-> "Ok", allow |-> ExpectAfter(Effective(kind), Side, cli.first, cli.unsigned)])
  /\ UNCHANGED <<cfg, pc, pre, cli, srv, rfc, macs, nans>>

AdvFlipBody == CanTamper /\ Tamper("FlipBody", 0, [M0 EXCEPT !.body = <<@[1] + 100>>])
AdvFlipMac == CanTamper /\ \E i \in {1, Len(LastRec(M0).mac)} :
                Tamper("FlipMac", i, WithTsig(M0, [LastRec(M0) EXCEPT !.mac[i] = 999]))
AdvTruncMac == CanTamper /\ \E n \in {0, 9, RecvMin - 1, RecvMin} :
                /\ n >= 0 /\ n < Len(LastRec(M0).mac)
                /\ Tamper(IF n < RecvMin THEN "TruncShort" ELSE "TruncOk", n,
                          WithTsig(M0, [LastRec(M0) EXCEPT !.mac = Take(@, n)]))
\* n octets appended to the transmitted (full-length or truncated) MAC
AdvExtendMac == CanTamper /\ \E n \in {1, 16} :
                Tamper(IF Len(LastRec(M0).mac) + n > Native(cfg.kc.alg) THEN "ExtendMac" ELSE "ExtendWithin", n,
                       WithTsig(M0, [LastRec(M0) EXCEPT !.mac = @ \o [i \in 1..n |-> 998]]))
AdvRenameKey == CanTamper /\ Tamper("RenameKey", 0, WithTsig(M0, [LastRec(M0) EXCEPT !.name = KeyNameX]))
\* the other side's spelling of the key name
AdvRecaseKey == CanTamper /\
                Tamper("RecaseKey", 0, WithTsig(M0, [LastRec(M0) EXCEPT !.name = IF pc = "net2" THEN KeyNameC ELSE KeyNameS]))
AdvSwapAlg == CanTamper /\ \E a \in {"md5", IF cfg.kc.alg = "sha256" THEN "sha1" ELSE "sha256"} :
                Tamper("SwapAlg", a, WithTsig(M0, [LastRec(M0) EXCEPT !.alg = AlgWire(a)]))
AdvChangeOrigId == CanTamper /\ Tamper("ChangeOrigId", 1, WithTsig(M0, [LastRec(M0) EXCEPT !.oid = @ + 1]))
AdvRewriteId == CanTamper /\ Tamper("RewriteId", 7, [M0 EXCEPT !.hdr = SetId(@, HdrId(@) + 7)])
AdvShiftTime == CanTamper /\ \E d \in {-1, 1} :
                Tamper("ShiftTime", d, WithTsig(M0, [LastRec(M0) EXCEPT !.time = @ + d]))
AdvStripTsig == CanTamper /\ Tamper("StripTsig", 0, RemoveTsig(M0, HdrId(M0.hdr)))
AdvMoveTsig == CanTamper /\ Tamper("MoveTsig", 0, PushRec(M0, ExtraRec))
AdvDupTsig == CanTamper /\ Tamper("DupTsig", 0, PushRec(M0, LastRec(M0)))
AdvSetErr == CanTamper /\ \E e \in {BADSIG, BADKEY, BADTIME} :
                Tamper("SetErr", e, WithTsig(M0, [LastRec(M0) EXCEPT !.err = e]))
AdvSetOther == CanTamper /\ \E o \in {<<1, 2>>, EncU48(5)} :
                Tamper(IF Len(o) = 6 THEN "SetOther6" ELSE "SetOther", Len(o), WithTsig(M0, [LastRec(M0) EXCEPT !.other = o]))
\* The names of the record as names: labels appended, labels removed, another
\* spelling, compressed (a pointer to the root label that the second flags
\* octet of a request / NOERROR answer happens to be), a pointer that points
\* nowhere
Front(w) == SubSeq(w, 1, Len(w) - 1)
Upper(b) == IF b >= 97 /\ b <= 122 THEN b - 32 ELSE b
LblExample == <<101, 120, 97, 109, 112, 108, 101>>
LblSigAlg == <<115, 105, 103, 45, 97, 108, 103>>
LblReg == <<114, 101, 103>>
LblInt == <<105, 110, 116>>
NameVariant(kind, w) ==
  CASE kind \in {"AlgExtra", "KeyExtra"} -> Front(w) \o NameOf(<<LblExample>>)
    [] kind = "AlgDouble" -> Front(w) \o w
    [] kind = "AlgSigAlg" -> Front(w) \o NameOf(<<LblSigAlg, LblReg, LblInt>>)
    [] kind \in {"AlgRoot", "KeyRoot"} -> <<0>>
    [] kind = "AlgPrefix" -> <<1, 120>> \o w
    [] kind = "KeyFewer" -> SubSeq(w, w[1] + 2, Len(w))
    [] kind = "AlgUpper" -> [i \in 1..Len(w) |-> Upper(w[i])]
    [] kind \in {"AlgCompressed", "KeyCompressed"} -> Front(w) \o <<192, 3>>
    [] kind \in {"AlgBadPtr", "KeyBadPtr"} -> Front(w) \o <<255, 255>>
AlgKinds == {"AlgExtra", "AlgDouble", "AlgSigAlg", "AlgRoot", "AlgPrefix", "AlgUpper", "AlgCompressed", "AlgBadPtr"}
KeyKinds == {"KeyExtra", "KeyFewer", "KeyRoot", "KeyCompressed", "KeyBadPtr"}
KC(a, cs, cm, ss, sm) == [alg |-> a, cs |-> cs, cm |-> cm, ss |-> ss, sm |-> sm]
KeysQuick == { KC("sha256", 32, 32, 32, 32),     \* no truncation
               KC("sha256", 16, 16, 16, 16),     \* both sides truncate to half
               KC("sha1", 10, 10, 20, 10),       \* client truncates, server does not
               KC("sha384", 48, 24, 24, 48),     \* server truncates, demands full MACs
               KC("sha512", 32, 40, 40, 32),     \* asymmetric but compatible
               KC("sha256", 16, 32, 16, 32) }    \* incompatible policy: BADTRUNC
\* (explored for the key configurations of KeysQuick - one per algorithm and
\* truncation pattern: the structure of the record does not interact with the
\* truncation policy, so the thorough tier does not multiply the two)
StructHere == cfg.kc \in KeysQuick
AdvAlgName == CanTamper /\ StructHere /\ \E k \in AlgKinds \cap StructKinds :
                Tamper(k, 0, WithTsig(M0, [LastRec(M0) EXCEPT !.alg = NameVariant(k, @)]))
AdvKeyName == CanTamper /\ StructHere /\ \E k \in KeyKinds \cap StructKinds :
                Tamper(k, 0, WithTsig(M0, [LastRec(M0) EXCEPT !.name = NameVariant(k, @)]))
\* CLASS / TTL of the TSIG RR
AdvClassTtl == CanTamper /\ StructHere /\ \E k \in ClassTtlKinds \cap StructKinds :
                Tamper(k, 0, WithTsig(M0, CASE k = "ClassIn" -> [LastRec(M0) EXCEPT !.cls = 1]
                                            [] k = "ClassNone" -> [LastRec(M0) EXCEPT !.cls = 254]
                                            [] OTHER -> [LastRec(M0) EXCEPT !.ttl = 1]))
\* lengths that disagree: an octet behind Other Data inside the RDATA, RDLENGTH
\* beyond the end of the message, RDLENGTH that cuts the RDATA short, Other Len
\* that announces other-data that is not there
AdvLengths == CanTamper /\ StructHere /\ \E k \in {"RdTrail", "RdLong", "RdShort", "OtherLenLong"} \cap StructKinds :
                Tamper(k, 0, WithTsig(M0, CASE k = "RdTrail" -> [LastRec(M0) EXCEPT !.rdx = <<0>>]
                                            [] k = "RdLong" -> [LastRec(M0) EXCEPT !.rdadj = 1]
                                            [] k = "RdShort" -> [LastRec(M0) EXCEPT !.rdadj = -1]
                                            [] OTHER -> [LastRec(M0) EXCEPT !.oladj = 6]))
\* a forged "unsigned error" answer: RCODE NOTAUTH and a TSIG error code
AdvForgeErr == CanTamper /\ pc = "net2" /\ \E e \in {BADSIG, BADKEY, BADTIME} :
                Tamper(CASE e = BADSIG -> "ForgeBadSig" [] e = BADKEY -> "ForgeBadKey" [] OTHER -> "ForgeBadTime",
                       e, WithTsig([M0 EXCEPT !.hdr[4] = NOTAUTH], [LastRec(M0) EXCEPT !.err = e]))
\* an unsigned message slipped into the answer stream ahead of the signed one
AdvInsertUnsigned ==
  /\ CanTamper /\ pc = "net2" /\ cfg.mode = "seq"
  /\ LET u == Msg(ReqId, 128, 0, 3)
     IN /\ net' = <<[msg |-> u, rep |-> 1]>> \o net
        /\ fault' = "InsertUnsigned"
        /\ g' = [g EXCEPT !.expect = ExpectAfter("InsertUnsigned", "cli", cli.first, cli.unsigned)]
        /\ hist' = Append(hist, [op |-> "adv", kind |-> "InsertUnsigned", arg |-> 1])
        /\ outs' = Append(outs, [res |-> "Ok"])
  /\ UNCHANGED <<cfg, pc, pre, cli, srv, rfc, macs, nans>>

Adversary == \/ AdvFlipBody \/ AdvFlipMac \/ AdvTruncMac \/ AdvExtendMac \/ AdvRenameKey \/ AdvRecaseKey
             \/ AdvSwapAlg \/ AdvChangeOrigId \/ AdvRewriteId \/ AdvShiftTime \/ AdvStripTsig
             \/ AdvMoveTsig \/ AdvDupTsig \/ AdvSetErr \/ AdvSetOther \/ AdvForgeErr
             \/ AdvInsertUnsigned \/ AdvAlgName \/ AdvKeyName \/ AdvClassTtl \/ AdvLengths

--------------------------------------------------------------------------
(* The server *)

\* ServerTransaction::request / ServerSequence::request
ServerRequest ==
  /\ pc = "net1"
  /\ LET m == Head(net).msg
         r == ServerRequestStep(SKey, m, NowS, macs)
     IN /\ srv' = [ctx |-> r.ctx, first |-> TRUE]
        /\ rfc' = [prior |-> IF r.res = "Ok" THEN LastRec(m).mac ELSE <<>>, pending |-> <<>>, first |-> TRUE]
        /\ g' = [g EXCEPT !.req = m, !.reqv = r.msg, !.err = r.res, !.etime = r.etime, !.efudge = r.efudge,
                          !.smac = IF FromMessage(m) = "Found" THEN LastRec(m).mac ELSE <<>>,
                          !.got = r.res, !.restored = @ /\ (r.res = "Ok" => r.msg = pre),
                          !.signed = @ /\ (r.res = "Ok" =>
                                MacIsOf(macs, SKey.alg, SKey.sec, RfcRecvDigest(<<>>, m, FALSE), LastRec(m).mac)),
                          !.rejected = @ \/ r.res # "Ok"]
        /\ pc' = CASE r.res = "Ok" -> "s_ans" [] r.res = "Unsigned" -> "done" [] OTHER -> "s_err"
        /\ Log([op |-> "s_request", now |-> NowS],
               [res |-> r.res, restored |-> r.res = "Ok" /\ r.msg = pre])
  /\ net' = <<>>
  /\ UNCHANGED <<cfg, pre, fault, cli, macs, nans>>

\* ServerError::build_message on builder.start_answer(request, NOTAUTH)
ServerErrorResponse ==
  /\ pc = "s_err"
  /\ LET resp == Msg(HdrId(g.req.hdr), 128, NOTAUTH, 1)
     IN IF g.err = "BADTIME"
        THEN LET r == ServerErrSignedStep(SKey, srv.ctx, resp, g.etime, g.efudge, NowS, macs, NewFull)
             IN /\ macs' = r.tbl
                /\ net' = <<[msg |-> r.msg, rep |-> 1]>>
                /\ pre' = resp
                /\ g' = [g EXCEPT !.layout = @ /\ r.data = DigestResp(SKey.name, AlgWire(SKey.alg), g.smac, r.msg),
                                  !.expect = {"ServerBadTime"}]
                /\ pc' = "net2e"
                /\ Log([op |-> "s_error"], [res |-> "Ok", mac |-> r.j, n |-> Len(r.mac)])
        ELSE LET code == CASE g.err = "BADSIG" -> BADSIG [] g.err = "BADKEY" -> BADKEY
                           [] g.err = "BADTRUNC" -> BADTRUNC [] OTHER -> FORMERR
                 found == FromMessage(g.req) = "Found"
                 r == ServerErrUnsignedStep(g.req, resp, code,
                                            IF found THEN LastRec(g.req).time ELSE 0,
                                            IF found THEN LastRec(g.req).fudge ELSE 0)
             IN /\ macs' = macs
                /\ pre' = resp
                /\ IF r.tsig
                   THEN /\ net' = <<[msg |-> r.msg, rep |-> 1]>>
                        /\ pc' = "net2e"
                        /\ g' = [g EXCEPT !.expect = {"ServerBadKey", "ServerBadSig", "BadTrunc", "BadSig", "FormErr"}]
                        /\ Log([op |-> "s_error"], [res |-> "Ok", mac |-> 0, n |-> 0])
                   ELSE /\ net' = <<>> /\ pc' = "done" /\ g' = g
                        /\ Log([op |-> "s_error"], [res |-> IF r.panic THEN "panic" ELSE "NoPanic"])
  /\ UNCHANGED <<cfg, fault, cli, srv, rfc, nans>>

AnsBody == IF nans % 2 = 0 THEN 3 ELSE 4
AnsMsg == Msg(HdrId(g.reqv.hdr), 128, cfg.rc, AnsBody)
CanAnswer == pc = "s_ans" /\ nans < (IF cfg.mode = "txn" THEN 1 ELSE MaxAns)

\* ServerTransaction::answer / ServerSequence::answer
ServerAnswer ==
  /\ CanAnswer /\ cfg.server = "impl"
  /\ LET m == AnsMsg
         r == IF cfg.mode = "txn" THEN ServerAnswerStep(SKey, srv.ctx, m, NowS, Fudge, macs, NewFull)
              ELSE ServerSeqAnswerStep(SKey, srv.ctx, srv.first, m, NowS, Fudge, macs, NewFull)
         rfcdata == IF cfg.mode = "txn" \/ srv.first
                    THEN DigestResp(SKey.name, AlgWire(SKey.alg), g.smac, r.msg)
                    ELSE DigestSubseq(g.smac, <<>>, r.msg)
     IN /\ macs' = r.tbl
        /\ srv' = [ctx |-> r.ctx, first |-> FALSE]
        /\ net' = <<[msg |-> r.msg, rep |-> 1]>>
        /\ pre' = m
        /\ g' = [g EXCEPT !.layout = @ /\ r.data = rfcdata, !.smac = r.mac]
        /\ Log([op |-> "s_answer", b |-> AnsBody, rc |-> cfg.rc, now |-> NowS, fudge |-> Fudge],
               [res |-> "Ok", mac |-> r.j, n |-> Len(r.mac)])
  /\ pc' = "net2" /\ nans' = nans + 1
  /\ UNCHANGED <<cfg, fault, cli, rfc>>

\* the independent responder: a signed answer
RfcAnswer ==
  /\ CanAnswer /\ cfg.server = "rfc"
  /\ LET m == AnsMsg
         other == IF cfg.terr = BADTIME THEN EncU48(NowS) ELSE <<>>
         r == RfcSignStepE(SKey, rfc, m, NowS, Fudge, cfg.terr, other, macs, NewFull)
     IN /\ macs' = r.tbl
        /\ rfc' = r.rs
        /\ net' = <<[msg |-> r.msg, rep |-> 1]>>
        /\ pre' = m
        /\ g' = [g EXCEPT !.run = 0]
        /\ Log([op |-> "rfc_answer", b |-> AnsBody, rc |-> cfg.rc, err |-> cfg.terr, other |-> other,
                now |-> NowS, fudge |-> Fudge, mac |-> r.j, n |-> Len(r.mac)],
               [res |-> "Ok"])
  /\ pc' = "net2" /\ nans' = nans + 1
  /\ UNCHANGED <<cfg, fault, cli, srv>>

\* ... n unsigned answers in a row (n = 1, or a burst around the bound)
RfcUnsigned ==
  /\ CanAnswer /\ cfg.server = "rfc" /\ cfg.mode = "seq" /\ ~rfc.first
  /\ \E n \in {1} \cup Bursts :
       /\ (n > 1 => g.run = 0 /\ cfg.reqb = 1 /\ cfg.clk = <<0, 0>> /\ fault = "none")
       /\ rfc' = RfcUnsignedStep(rfc, AnsMsg, n)
       /\ net' = <<[msg |-> AnsMsg, rep |-> n]>>
       /\ g' = [g EXCEPT !.run = @ + n]
       /\ fault' = IF g.run + n > 99 /\ fault = "none" THEN "LongRun" ELSE fault
       /\ Log([op |-> "rfc_unsigned", b |-> AnsBody, rc |-> cfg.rc, n |-> n], [res |-> "Ok"])
  /\ pre' = AnsMsg
  /\ pc' = "net2" /\ nans' = nans + 1
  /\ UNCHANGED <<cfg, cli, srv, macs>>

--------------------------------------------------------------------------
(* The client *)

\* ClientTransaction::answer / ClientSequence::answer (rep times)
ClientAnswer ==
  /\ pc \in {"net2", "net2e"} /\ net # <<>>
  /\ LET e == Head(net)
         signed == FromMessage(e.msg) # "Missing"
         r == IF cfg.mode = "txn"
              THEN LET x == ClientAnswerStep(CKey, cli.ctx, e.msg, NowC, macs)
                   IN [res |-> x.res, msg |-> x.msg, cs |-> cli, left |-> 0]
              ELSE ClientSeqRepeat(CKey, cli, e.msg, NowC, macs, e.rep)
     IN /\ cli' = r.cs
        /\ g' = [g EXCEPT !.got = r.res,
                          !.restored = @ /\ ((r.res = "Ok" /\ signed) => r.msg = pre),
                          !.signed = @ /\ ((r.res = "Ok" /\ signed /\ e.rep = 1) =>
                                MacIsOf(macs, CKey.alg, CKey.sec,
                                        RfcRecvDigest(cli.ctx, e.msg, cfg.mode = "seq" /\ ~cli.first), LastRec(e.msg).mac)),
                          !.rejected = @ \/ r.res # "Ok"]
        /\ Log([op |-> "c_answer", now |-> NowC, rep |-> e.rep],
               [res |-> r.res, restored |-> r.res = "Ok" /\ signed /\ r.msg = pre, left |-> r.left])
  /\ net' = Tail(net)
  /\ pc' = IF Tail(net) # <<>> THEN pc
           ELSE IF pc = "net2e" \/ cfg.mode = "txn" THEN "done" ELSE "s_ans"
  /\ UNCHANGED <<cfg, pre, fault, srv, rfc, macs, nans>>

\* ClientSequence::done
ClientDone ==
  /\ pc = "s_ans" /\ cfg.mode = "seq" /\ nans >= 1
  /\ g' = [g EXCEPT !.got = ClientDoneRes(cli), !.rejected = @ \/ ClientDoneRes(cli) # "Ok",
                    !.expect = IF cli.unsigned # 0 THEN {"TooManyUnsigned"} ELSE @]
  /\ fault' = IF rfc.pending # <<>> /\ fault = "none" THEN "EndsUnsigned" ELSE fault
  /\ Log([op |-> "c_done"], [res |-> ClientDoneRes(cli)])
  /\ pc' = "done"
  /\ UNCHANGED <<cfg, net, pre, cli, srv, rfc, macs, nans>>

Next == ClientRequest \/ ClientRecompose \/ Adversary \/ ServerRequest \/ ServerErrorResponse \/ ServerAnswer
        \/ RfcAnswer \/ RfcUnsigned \/ ClientAnswer \/ ClientDone
Spec == Init /\ [][Next]_vars

--------------------------------------------------------------------------
(* Properties *)

PolicyOk == cfg.kc.cs >= cfg.kc.sm /\ cfg.kc.ss >= cfg.kc.cm
ClocksOk == Abs(Skew) <= Fudge /\ Abs(Drift - Skew) <= Fudge

Honest == fault \in {"none", "RewriteId", "RecaseKey", "EndsUnsigned"}
EndsUnsigned == pc = "done" /\ rfc.pending # <<>>
HonestVerifies ==
  (Honest /\ PolicyOk /\ ClocksOk /\ g.run <= 99 /\ ~EndsUnsigned /\ ~ErrShape) => ~g.rejected

\* the verification that follows an adversary action returns the assigned error
LastOp == hist[Len(hist)].op
PrevOp == hist[Len(hist) - 1]
TamperRejected ==
  /\ (PolicyOk /\ Len(hist) >= 2 /\ PrevOp.op = "adv" /\ LastOp \in {"s_request", "c_answer"})
     => g.got \in g.expect
  /\ (pc = "done" /\ fault \notin Benign) => g.rejected

ClocksRejected ==
  /\ (fault = "none" /\ PolicyOk /\ Abs(Skew) > Fudge /\ pc \in {"s_err", "net2e"}) => g.err = "BADTIME"
  /\ (fault = "none" /\ PolicyOk /\ Abs(Skew) > Fudge /\ pc = "done") => g.got = "ServerBadTime"
  /\ (fault = "none" /\ PolicyOk /\ Abs(Skew) <= Fudge /\ Abs(Drift - Skew) > Fudge
        /\ nans = 1 /\ hist # <<>> /\ LastOp = "c_answer" /\ ~ErrShape) => g.got = "BadTime"
\* Whenever the MAC of an answer verifies the time window is enforced, whatever
\* the RCODE and the TSIG error field say - except for the error answers RFC 8945
\* defines: NOTAUTH + BADKEY / BADSIG (reported as such) and NOTAUTH + BADTIME
\* (5.2.3: Time Signed is the client's, the server's clock is in other-data).
FirstAnswerChecked == fault = "none" /\ PolicyOk /\ Abs(Skew) <= Fudge /\ nans = 1
                      /\ hist # <<>> /\ LastOp = "c_answer"
WindowEnforced ==
  /\ (FirstAnswerChecked /\ ~ErrShape) =>
        g.got = (IF Abs(Drift - Skew) > Fudge THEN "BadTime" ELSE "Ok")
  /\ (FirstAnswerChecked /\ ErrShape) =>
        g.got = (CASE cfg.terr = BADKEY -> "ServerBadKey" [] cfg.terr = BADSIG -> "ServerBadSig"
                   [] OTHER -> "ServerBadTime")
PolicyRejected ==
  /\ (fault = "none" /\ cfg.kc.cs < cfg.kc.sm /\ pc \notin {"c_req", "net1"}) => g.err = "BADTRUNC"
  /\ (fault = "none" /\ ClocksOk /\ cfg.kc.cs >= cfg.kc.sm /\ cfg.kc.ss < cfg.kc.cm /\ nans = 1
        /\ hist # <<>> /\ LastOp = "c_answer") => g.got = "BadTrunc"
NoPanic == \A i \in 1..Len(outs) : outs[i].res # "panic"
RestoresOctets == g.restored
AcceptedWasSigned == g.signed
LayoutFollowsRfc == g.layout
\* RFC 8945 5.3.1: up to 99 unsigned answers in a row, the last answer signed
UnsignedBound ==
  /\ cli.unsigned <= 99
  /\ (Len(hist) >= 2 /\ LastOp = "c_answer" /\ PrevOp.op = "rfc_unsigned" /\ g.run > 99
        /\ PolicyOk /\ ClocksOk /\ ~ErrShape /\ fault = "LongRun")
       => (g.got = "TooManyUnsigned" /\ (PrevOp.n = 100 => outs[Len(outs)].left = 0))
  /\ (Len(hist) >= 2 /\ LastOp = "c_answer" /\ PrevOp.op = "rfc_unsigned" /\ g.run <= 99
        /\ fault = "none" /\ PolicyOk /\ ClocksOk /\ ~ErrShape) => g.got = "Ok"
  /\ (Honest /\ EndsUnsigned /\ PolicyOk /\ ClocksOk /\ ~ErrShape) => g.got = "TooManyUnsigned"

--------------------------------------------------------------------------
(* Constant values for the .cfg files (records / tuples cannot be written there) *)
KeysThorough == KeysQuick \cup
             { KC("sha1", 20, 20, 20, 20), KC("sha1", 20, 10, 12, 12),
               KC("sha384", 24, 24, 24, 24), KC("sha384", 48, 48, 48, 48), KC("sha384", 30, 25, 47, 30),
               KC("sha512", 64, 64, 64, 64), KC("sha512", 32, 32, 32, 32), KC("sha512", 64, 33, 33, 64),
               KC("sha256", 32, 16, 17, 32), KC("sha256", 31, 31, 31, 31), KC("sha256", 32, 32, 16, 16) }
KeysTrunc == { KC("sha256", 16, 16, 16, 16), KC("sha384", 48, 24, 24, 48), KC("sha256", 32, 32, 32, 32) }
ClocksQuick == { <<0, 0>>, <<300, 0>>, <<-300, 0>>, <<301, 0>>, <<-301, 0>>,
                 <<0, 301>>, <<0, -301>>, <<300, -1>>, <<-300, 1>> }
ClocksThorough == ClocksQuick \cup { <<299, -1>>, <<150, -150>>, <<150, -151>>, <<-151, 150>>,
                                     <<1000, 0>>, <<0, 300>>, <<0, -300>>, <<-999999, 0>> }
ClocksNone == { <<0, 0>> }
RcKeysQuick == { KC("sha256", 32, 32, 32, 32) }
RcKeysThorough == { KC("sha256", 32, 32, 32, 32), KC("sha256", 16, 16, 16, 16), KC("sha1", 10, 10, 20, 10) }
RcKeysNone == {}
\* structural mutations of the TSIG record
StructAll == AlgKinds \cup KeyKinds \cup ClassTtlKinds \cup {"RdTrail", "RdLong", "RdShort", "OtherLenLong"}
StructNone == {}
\* ... without CLASS / TTL (the wrappers' run while D_tsig_class_ttl_unchecked is open)
StructNoClassTtl == StructAll \ ClassTtlKinds

--------------------------------------------------------------------------
(* S->I: one case per finished behaviour *)
Emit == pc = "done" =>
  PrintT("CASE " \o ToJson([in |-> [cfg |-> cfg, ops |-> hist], out |-> [ops |-> outs, macs |-> macs]]))
=============================================================================
