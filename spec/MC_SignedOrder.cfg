CONSTANTS
  Dev = {}
  Big = 300
  MaxPerm = 1
  Two = TRUE
SPECIFICATION Spec
INVARIANT TablesAgree
INVARIANT SignerValidatorAreRfc
INVARIANT OrderIsOctetOrder
INVARIANT ArrivalIrrelevant
INVARIANT SignatureVerifies
INVARIANT MenuIsAdversarial
INVARIANT MenuIsComplete
INVARIANT Emit
CHECK_DEADLOCK FALSE
