--------------------------- MODULE Trace_ClientMulti ---------------------------
(* I->S for multi_stream under connection-establishment faults on a fine    *)
(* clock: recorded runs of the real multi_stream::Connection over a         *)
(* connector whose connect() fails or succeeds when the harness says so     *)
(* (events: init, submit, conn_ok, conn_fail, reply, wrong, close, tick;    *)
(* after each the harness logs what it can see: connect() calls so far,     *)
(* what was written on which connection, which requests are completed, how  *)
(* and how many ticks after their submission) must be behaviours of the     *)
(* multi_stream part of ClientCompose with the back-off durations chosen    *)
(* within their documented range (MFineTickSet).  The deadline (MOnTimeOf)  *)
(* and the other invariants are evaluated in every state.                   *)
EXTENDS ClientCompose, Json, IOUtils

Rec == ndJsonDeserialize(IOEnv.TRACE)
VARIABLES l, st
tvars == <<l, st, dvars, ndg>>

DFrozen == /\ ndg = 0 /\ ph = "idle" /\ att = 0 /\ e = 0 /\ inq = <<>> /\ q = 0
           /\ fault = [kind |-> "none", at |-> 0] /\ sent = <<>> /\ done = <<>>
           /\ waited = 0 /\ conf = DConfOf(DgScript("new", <<>>))
Ev == Rec[l]
Is(k) == l <= Len(Rec) /\ Ev.ev = k /\ l' = l + 1 /\ UNCHANGED <<dvars, ndg>>

RECURSIVE SeqOfF(_, _)
SeqOfF(f, n) == IF n = 0 THEN <<>> ELSE Append(SeqOfF(f, n - 1), f[n])
\* what the harness can see of a state
ObsOf(m) ==
  [nconnect |-> m.nconnect, pending |-> m.pendingc,
   written  |-> SeqOfF([c \in 1..Len(m.conns) |->
                          SeqOfF([qq \in MReqs |-> \E i \in 1..Len(m.conns[c].out) : m.conns[c].out[i] = qq],
                                 Cardinality(MReqs))], Len(m.conns)),
   done     |-> SeqOfF([r \in MReqs |->
                          SeqOfF([k \in 1..Len(m.done[r]) |-> [ok |-> m.done[r][k].ok, t |-> m.done[r][k].t]],
                                 Len(m.done[r]))], Cardinality(MReqs))]

Sc0 == MsScript("from", StScript("new", <<>>), <<>>)
TInit == l = 1 /\ DFrozen /\ st = MInitOf(Sc0)

\* a new scenario: the configuration script and what the getters said
T_Init == /\ Is("init")
          /\ LET m == MInitOf(Ev.conf)
             IN /\ Ev.eff = m.conf.eff
                /\ st' = m
OpOfEv == MMkOp(Ev.ev, IF "r" \in DOMAIN Ev THEN Ev.r ELSE 0, IF "q" \in DOMAIN Ev THEN Ev.q ELSE 0,
                IF "c" \in DOMAIN Ev THEN Ev.c ELSE 0)
T_Op(k) == /\ Is(k)
           /\ OpOfEv \in MOpsOf(st)
           /\ \E t \in MSuccF(st, OpOfEv) : ObsOf(t) = Ev.obs /\ st' = t
T_Submit   == T_Op("submit")
T_ConnOk   == T_Op("conn_ok")
T_ConnFail == T_Op("conn_fail")
T_Reply    == T_Op("reply")
T_Wrong    == T_Op("wrong")
T_Close    == T_Op("close")
T_Tick     == T_Op("tick")

TNext == T_Init \/ T_Submit \/ T_ConnOk \/ T_ConnFail \/ T_Reply \/ T_Wrong \/ T_Close \/ T_Tick
TSpec == TInit /\ [][TNext]_tvars

MAtMostOnce   == MAtMostOnceOf(st)
MOnTime       == MOnTimeOf(st)
MOwn          == MOwnOf(st)
MNoDup        == MNoDupOf(st)
MConnsSound   == MConnsSoundOf(st)
MBackoffSound == MBackoffSoundOf(st)

Accepted ==
  LET d == TLCGet("stats").diameter
  IN IF d = Len(Rec) + 1 THEN TRUE
     ELSE /\ PrintT("TRACE_REJECTED " \o ToJson([matched |-> d - 1, total |-> Len(Rec),
                      event |-> IF d <= Len(Rec) THEN Rec[d] ELSE [ev |-> "none"]]))
          /\ FALSE
=============================================================================
