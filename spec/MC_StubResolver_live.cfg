CONSTANTS
  NSSet = {0, 1, 2}
  SearchSet <- MCL_Search
  NDotsSet = {1}
  DotsSet = {0, 1}
  CallSet = {"query"}
  TooLongSet <- MCQ_TooLong
  ModeSet = {"mock"}
  UseVcSet = {FALSE}
  TcpOnlySet <- MCQ_TcpOnly
  TmoSet = {40}
  Est = 30
  Outs = {"Data", "SF", "FE"}
  TcpOuts = {"Data"}
  Lats = {1, 50, 9999}
  FreshEvery = FALSE
  Dev = {}
SPECIFICATION MCSpec
PROPERTY Terminates
CHECK_DEADLOCK TRUE
