CONSTANTS
  Mod = 16
  Past = 3
  Future = 1
  Dev = {}
  Budget = 2
SPECIFICATION LSpec
INVARIANT HeldIsOurs
PROPERTY ServedAgainAndAgain
PROPERTY EventuallyAlwaysServed
CHECK_DEADLOCK FALSE
