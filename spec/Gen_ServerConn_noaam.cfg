CONSTANTS
  Dev = {}
  Mode = "conn"
  NConn = 4
  MaxReq = 1
  QCapG = 1
  Kinds = {"single", "stream2", "fail"}
  MaxOps = 16
  MaxCredit = 4
  MaxTick = 3
  Limit = 2
  AAM = FALSE
  WithSReconf = TRUE
  Defaults = FALSE
SPECIFICATION Spec
INVARIANT Emit
CHECK_DEADLOCK FALSE
