---------------------------- MODULE Gen_ZoneTree ----------------------------
(* S->I behaviour generator for ZoneTree.tla.  A behaviour is a sequence of *)
(* insert_zone / remove_zone calls; after EVERY call the case carries the   *)
(* call's result and the complete projection of the tree: get_zone and      *)
(* find_zone for every probe (class, name) and the outcome of iter_zones.   *)
(* Two trees evolve side by side: the ideal one (exp) and the one with all  *)
(* named deviations in force (dev), so that a known finding predicts the    *)
(* code's observations exactly, step by step.                               *)
EXTENDS MC_ZoneTree, Json

CONSTANTS MaxHist, Mode     \* Mode: "behaviours" (one case per maximal behaviour) | "states" (one per distinct tree)
VARIABLES td, hist          \* the ideal tree is ZoneTree's own variable `tree`
gvars == <<tree, td, hist>>

\* the probes, in the order the executor receives them (PROBES line)
NameSeq == <<nRoot, nCom, nExample, nSub, nASub, nOrg, nExampleUC, nASubUC,
             <<lwww, lexample, lcom>>, <<lwww, lExample, lCOM>>, <<lwww, la, lsub, lexample, lcom>>,
             <<lnet>>, <<lexampl, lcom>>, <<lwww, lorg>>, <<lsub, lorg>>>>
ClassSeq == <<"IN", "CH">>
ProbeSeq == [i \in 1..(Len(ClassSeq) * Len(NameSeq)) |->
               [c |-> ClassSeq[((i - 1) \div Len(NameSeq)) + 1], n |-> NameSeq[((i - 1) % Len(NameSeq)) + 1]]]
ASSUME PrintT("PROBES " \o ToJson(ProbeSeq))

Proj(t) ==
  LET it == IterOp(t)
  \* (`\o <<>>` forces TLC to evaluate the function to a tuple: lazily
  \* evaluated functions inside the unfingerprinted history cannot be spilled
  \* to TLC's disk queue)
  IN [g |-> [i \in DOMAIN ProbeSeq |-> GetOp(t, ProbeSeq[i].c, ProbeSeq[i].n).id] \o <<>>,
      f |-> [i \in DOMAIN ProbeSeq |-> FindOp(t, ProbeSeq[i].c, ProbeSeq[i].n).id] \o <<>>,
      n |-> Len(it),
      it |-> {it[i].id : i \in DOMAIN it}]

AllDevs == DevNames
GenApex == Apex6 \cup {nExampleUC}

Did(op, ri, rd) ==
  /\ tree' = (ri.t @@ <<>>) /\ td' = (rd.t @@ <<>>) /\ UNCHANGED <<nops, res>>   \* @@ forces evaluation, see Proj
  /\ hist' = Append(hist, [op |-> op, e |-> [r |-> ri.res, p |-> Proj(ri.t)],
                                       d |-> [r |-> rd.res, p |-> Proj(rd.t)]])

GInsert(c, a) ==
  LET z == ZoneOf(Len(hist) + 1, c, a)
  IN Did([op |-> "insert", c |-> c, a |-> a, id |-> z.id], InsertOp(tree, z), InsertOp(td, z))
GRemove(c, a) ==
  Did([op |-> "remove", c |-> c, a |-> a], RemoveOp(tree, c, a, {}), RemoveOp(td, c, a, AllDevs))

GenInit == Init /\ td = EmptyTree /\ hist = <<>>
GenNext ==
  /\ Len(hist) < MaxHist
  /\ \E c \in MCClasses : \E a \in GenApex : GInsert(c, a) \/ GRemove(c, a)
GenSpec == GenInit /\ [][GenNext]_<<vars, gvars>>

\* one witness behaviour per distinct pair of tree shapes
Shape(t) == [n \in NodesOf(t) |-> t[n] # NoZone]
GenView == IF Mode = "states" THEN <<Shape(tree), Shape(td)>> ELSE gvars

Ops == [i \in DOMAIN hist |-> hist[i].op]
ExpI == [i \in DOMAIN hist |-> hist[i].e]
ExpD == [i \in DOMAIN hist |-> hist[i].d]
Case == IF ExpD = ExpI THEN [in |-> [ops |-> Ops], exp |-> ExpI]
        ELSE [in |-> [ops |-> Ops], exp |-> ExpI, dev |-> [D_remove_zone_drops_class |-> ExpD]]
Emit ==
  (hist # <<>> /\ (Mode = "states" \/ Len(hist) = MaxHist)) => PrintT("CASE " \o ToJson(Case))
=============================================================================
