---------------------------- MODULE Trace_Server ----------------------------
(* I->S for C16: a recorded run of the real stream and datagram servers    *)
(* under hostile input must be a behaviour of Server.tla: the octets fed   *)
(* to a connection are framed by the spec (Deframe), every complete frame  *)
(* is classified by the spec (short / reply / query) and given to the      *)
(* connection machine with an echo service and a peer that always reads;   *)
(* after every stimulus the machine is run to quiescence and must have     *)
(* written exactly the frames the real server wrote: one well-formed       *)
(* response per well-formed request, carrying its ID, FORMERR for QR=1,    *)
(* nothing after a too-short message or a vanished peer, never a partial   *)
(* frame, and the server tasks stay alive.                                 *)
EXTENDS Server, Json, IOUtils

CONSTANTS QCapT,          \* the server's default result queue capacity
          LimitT          \* max_concurrent_connections the recorder configures

Rec == ndJsonDeserialize(IOEnv.TRACE)

VARIABLES l, cn, rx, ids, nw, lostn
tvars == <<l, cn, rx, ids, nw, lostn>>

IsEv(e) == l <= Len(Rec) /\ Rec[l].ev = e /\ l' = l + 1
E == Rec[l]

TInit == /\ l = 1
         /\ cn = [x \in {} |-> 0] /\ rx = [x \in {} |-> 0]
         /\ ids = [x \in {} |-> 0] /\ nw = [x \in {} |-> 0] /\ lostn = 0

IdOf(body) == IF Len(body) >= 2 THEN U16At(body, 1)
              ELSE IF Len(body) = 1 THEN body[1] * 256 ELSE 0

RECURSIVE SendAll(_, _, _)
SendAll(s, frames, r) ==
  IF frames = <<>> THEN s
  ELSE SendAll(EnvSend(s, Classify(Head(frames)), r, "echo"), Tail(frames), r + 1)

\* the frames the real server wrote since the last event, against the
\* machine's: same number, same IDs in the same order, all well-formed,
\* FORMERR where the machine says so
Matches(c, s, evw, idseq, seen) ==
  /\ Len(s.wrote) = seen + Len(evw)
  /\ \A i \in 1..Len(evw) :
       LET x == s.wrote[seen + i]
       IN /\ evw[i][1] = idseq[x.r]
          /\ evw[i][3] = TRUE
          /\ x.kind = "formerr" => evw[i][2] = 1

\* a failing accept() leaves no trace either (the server tasks stay alive)
T_AcceptErr ==
  /\ IsEv("accepterr") /\ E.alive = TRUE
  /\ UNCHANGED <<cn, rx, ids, nw, lostn>>

\* a failed connection setup leaves no trace in the server
T_OpenFail ==
  /\ IsEv("openfail") /\ E.alive = TRUE /\ E.cl = TRUE
  /\ UNCHANGED <<cn, rx, ids, nw, lostn>>

\* the recorder never has more than LimitT peers connected, so a
\* connection must be taken on (not dropped) whatever happened before
T_Open ==
  /\ IsEv("open") /\ E.alive = TRUE /\ E.cl = FALSE
  /\ Cardinality({c \in DOMAIN cn : cn[c].st = "open"}) < LimitT
  /\ cn' = cn @@ (E.c :> EnvCredit(EnvOpen(InitConn(Dev, QCapT)), 1000000))
  /\ rx' = rx @@ (E.c :> <<>>) /\ ids' = ids @@ (E.c :> <<>>) /\ nw' = nw @@ (E.c :> 0)
  /\ UNCHANGED lostn

T_Chunk ==
  /\ IsEv("chunk") /\ E.alive = TRUE
  /\ LET c  == E.c
         d  == Deframe(rx[c] \o E.data)
         n0 == Len(ids[c])
         s  == Settle(SendAll(cn[c], d.frames, n0 + 1))
         id2 == ids[c] \o [i \in 1..Len(d.frames) |-> IdOf(d.frames[i])]
     IN /\ Matches(c, s, E.w, id2, nw[c])
        /\ E.left = 0
        /\ E.cl = (s.st = "closed")
        /\ cn' = [cn EXCEPT ![c] = s] /\ rx' = [rx EXCEPT ![c] = d.rest]
        /\ ids' = [ids EXCEPT ![c] = id2] /\ nw' = [nw EXCEPT ![c] = Len(s.wrote)]
        /\ lostn' = lostn + Cardinality(s.lost) - Cardinality(cn[c].lost)

T_Abort ==
  /\ IsEv("abort") /\ E.alive = TRUE
  /\ LET c == E.c
         s == Settle(EnvAbort(cn[c]))
     IN /\ Matches(c, s, E.w, ids[c], nw[c])
        /\ E.left = 0 /\ E.cl = TRUE /\ s.st = "closed"
        /\ cn' = [cn EXCEPT ![c] = s] /\ nw' = [nw EXCEPT ![c] = Len(s.wrote)]
        /\ UNCHANGED <<rx, ids, lostn>>

\* dgram.rs: the datagram is parsed in a zero-filled 1024-octet buffer
T_Dgram ==
  /\ IsEv("dgram") /\ E.alive = TRUE /\ E.dest_ok = TRUE
  /\ LET what == IF Len(E.data) >= 3 /\ E.data[3] >= 128 THEN "reply" ELSE "query"
         d    == DgSettle(DgRecv(InitDg, what, 1, "echo"))
     IN /\ DgEachOnce(d) /\ Len(d.sent) = 1
        /\ Len(E.w) = 1
        /\ E.w[1][1] = IdOf(E.data) /\ E.w[1][3] = TRUE
        /\ d.sent[1].kind = "formerr" => E.w[1][2] = 1
  /\ UNCHANGED <<cn, rx, ids, nw, lostn>>

TNext == T_Open \/ T_OpenFail \/ T_AcceptErr \/ T_Chunk \/ T_Abort \/ T_Dgram
TSpec == TInit /\ [][TNext]_tvars

ConnInvariants == \A c \in DOMAIN cn : EachOnce(cn[c]) /\ IdPreserved(cn[c]) /\ QueueBounded(cn[c])

Accepted ==
  LET d == TLCGet("stats").diameter
  IN IF d = Len(Rec) + 1
     THEN PrintT("TRACE_STATS " \o ToJson([events |-> Len(Rec), lost |-> TLCGet(1)]))
     ELSE /\ PrintT("TRACE_REJECTED " \o ToJson([matched |-> d - 1, total |-> Len(Rec),
                      event |-> IF d <= Len(Rec) THEN Rec[d] ELSE [ev |-> "none"]]))
          /\ FALSE
\* responses the machine dropped because of D_queue_full_drop (0 when the
\* deviation is not in Dev); kept in a TLC register for the postcondition
LostCounter == TLCSet(1, lostn)
=============================================================================
