--------------------------- MODULE MC_NewLabelBuf ---------------------------
(* X10: exhaustive exploration of the LabelBuf machine over all 64 content *)
(* lengths (one representative content per length: the VIEW) with          *)
(* arguments on both sides of every guard, and the S->I generator: one     *)
(* CASE line per transition (source content, call, arguments, expected     *)
(* result and content afterwards).                                         *)
EXTENDS NewLabelBuf, Json

CONSTANT EmitCases
View == Len(lb)

Fill(n, b) == [i \in 1..n |-> b]
AppendLens == {n \in {0, 1, 2, 31, 62 - Len(lb), 63 - Len(lb), 64 - Len(lb), 63, 64, 65, 200} : n >= 0}
TruncLens == {n \in {0, 1, Len(lb) - 1, Len(lb), Len(lb) + 1, 63, 64, 1000} : n >= 0}
CopyLabels == {<<>>, <<65>>, <<97, 0, 255>>, Fill(62, 66), Fill(63, 66)}
StrTexts == {<<>>, <<97>>, <<65, 92, 46, 92, 48, 48, 57>>, <<97, 46>>, <<92>>, <<92, 50, 53, 54>>,
             Fill(63, 97), Fill(64, 97), Fill(62, 97) \o <<92, 48, 54, 53>>, Fill(63, 97) \o <<92, 48, 54, 53>>}

Emit(op, arg) == EmitCases =>
  PrintT("CASE " \o ToJson([in |-> [kind |-> "lbuf", s |-> lb, op |-> op, arg |-> arg],
                            exp |-> [res |-> StepL(lb, op, arg).res, s |-> StepL(lb, op, arg).st,
                                     issues |-> <<>>]]))
MDo(op, arg) == LDo(op, arg) /\ Emit(op, arg)

A_New       == Len(lb) >= 0 /\ MDo("new", <<>>)
A_Append    == Len(lb) >= 0 /\ \E n \in AppendLens, b \in {65, 255} : MDo("append", Fill(n, b))
A_Push      == Len(lb) >= 0 /\ \E b \in {0, 65, 255} : MDo("push", <<b>>)
A_Truncate  == Len(lb) >= 0 /\ \E n \in TruncLens : MDo("truncate", <<n>>)
A_Lower     == Len(lb) >= 0 /\ MDo("lower", <<>>)
A_Copy      == Len(lb) >= 0 /\ \E l \in CopyLabels : MDo("copy", l)
A_ParseStr  == Len(lb) >= 0 /\ \E t \in StrTexts : MDo("parse_str", t)
MNext == A_New \/ A_Append \/ A_Push \/ A_Truncate \/ A_Lower \/ A_Copy \/ A_ParseStr
MSpec == LInit /\ [][MNext]_lvars
=============================================================================
