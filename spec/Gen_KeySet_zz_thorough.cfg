CONSTANTS
  Keys <- MCKeys
  KType <- MCKType
  KAlg <- MCKAlg
  MaxTTL = 1
  Dev <- OpenDevs
  KeySeq <- KS_zz
  MaxList = 2
  Ops = {}
  SetKeys = {}
  Rts = {"ZskRoll", "ZskDoubleSignatureRoll"}
  AltTag = {}
  OddLists = FALSE
  WellTyped = FALSE
  NoopRolls = TRUE
SPECIFICATION Spec
VIEW GenView
ACTION_CONSTRAINT EmitT
CHECK_DEADLOCK FALSE
