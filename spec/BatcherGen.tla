----------------------------- MODULE BatcherGen -----------------------------
(* S->I generator for Batcher.tla: every behaviour (push ... [finish]) of   *)
(* at most MaxOps calls with real-scale sizes; one CASE per maximal         *)
(* behaviour with the projected state (result, batches handed out) after    *)
(* every call.                                                              *)
EXTENDS MC_Batcher, Json

CONSTANTS MaxOps
VARIABLES hist
gvars == <<prm, open, out, last, acc, clean, hist>>

Proj(l, o) == [res |-> l, out |-> [j \in 1 .. Len(o) |-> [recs |-> o[j].recs, fin |-> o[j].fin]]]

GInit == MCInit /\ hist = <<>>
GPush == \E s \in Sizes : /\ last \notin {"fin", "mustfit"} /\ Len(hist) < MaxOps /\ Push(s)
                          /\ hist' = Append(hist, [s |-> s, exp |-> Proj(last', out')])
GFinish == /\ last \notin {"fin", "mustfit"} /\ Finish
           /\ hist' = Append(hist, [s |-> 0, exp |-> Proj(last', out')])
GNext == GPush \/ GFinish
GSpec == GInit /\ [][GNext]_gvars

Emit == (last \in {"fin", "mustfit"}) =>
          PrintT("CASE " \o ToJson([in |-> [kind |-> "batch", prm |-> prm,
                                            ops |-> [j \in 1 .. Len(hist) |-> hist[j].s]],
                                    exp |-> [j \in 1 .. Len(hist) |-> hist[j].exp]]))
=============================================================================
