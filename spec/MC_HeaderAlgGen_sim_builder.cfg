CONSTANTS
  Dev = {}
  MaxOps = 0
  Deep = TRUE
  Carrier = "builder"
  MaxHist = 14
  GKind = "beh"
  GWords <- QuickWords
SPECIFICATION BehSpec
INVARIANT BehEmit
CHECK_DEADLOCK FALSE
