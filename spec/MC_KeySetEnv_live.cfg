CONSTANTS
  Keys <- EKeys
  KType <- MCKType
  KAlg <- MCKAlg
  MaxTTL = 1
  Dev = {}
  KeySeq <- KS_kkz
  Rts = {"KskRoll", "KskDoubleDsRoll", "ZskRoll"}
  InitKinds = {"split"}
  TtlChoices <- T1
  Discipline = TRUE
SPECIFICATION ELive
PROPERTY Completes
CHECK_DEADLOCK FALSE
