CONSTANTS
  BITS = 7
  ERAS = 3
SPECIFICATION Spec
INVARIANT IOrder
INVARIANT IPlace
INVARIANT IAdd
INVARIANT IText
PROPERTY PBoth
PROPERTY POne
CHECK_DEADLOCK FALSE
