CONSTANTS
  Dev = {}
  Mut = {}
  AdvOn = {"ANS"}
  AnchorForms = {"dnskey"}
  Cfgs = {"default"}
  MaxRuns = 1
  EntQKinds = {"positive"}
  Budget = 1
  Shapes = {"secure3", "insecure3"}
  Denials = {"nsec", "nsec3", "optout"}
  QKinds = {"wildcard", "wilddeep", "wildsub", "wcname", "wcnodata", "positive", "nxdomain"}
  AdvActs = {"ShortSig", "DropRrsig", "DropRrset", "ReplaceRdata", "WrongSigner", "Expire", "NotYetValid", "ReplayAncestor", "CorruptSigOctets", "ForgeSigned", "AddBadSig", "StripProof", "ForgeNsecRange", "SwapProof", "BadNsec3LabelSigned", "ZeroCounts", "ZeroTtl", "Inject", "CnameLoop", "MisapplyWildcard", "DenyExisting", "SigsFirst", "Duplicate", "OrphanSig", "WrongSoa"}
SPECIFICATION Spec
VIEW View
INVARIANT Soundness
INVARIANT HonestSecure
INVARIANT InsecureNotBogus
INVARIANT WithinAllowed
INVARIANT NoPanic
INVARIANT Terminates
INVARIANT CacheTransparent
INVARIANT NoAnchorNotSecure
INVARIANT LimitsEnforced
INVARIANT Emit
CHECK_DEADLOCK TRUE
