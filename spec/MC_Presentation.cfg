CONSTANTS
  Dev = {}
  MaxStr = 2
SPECIFICATION Spec
INVARIANT ReadEqualsWritten
INVARIANT TokensReadEqualWritten
INVARIANT FieldTextsReadEqualWritten
INVARIANT FieldsReadEqualWritten
CHECK_DEADLOCK FALSE
