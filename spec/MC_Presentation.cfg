CONSTANTS
  Dev = {}
  MaxStr = 2
SPECIFICATION Spec
INVARIANT ReadEqualsWritten
INVARIANT TokensReadEqualWritten
INVARIANT FieldTextsReadEqualWritten
CHECK_DEADLOCK FALSE
