CONSTANTS
  Dev = {}
  MaxStr = 2
SPECIFICATION Spec
INVARIANT ReadEqualsWritten
CHECK_DEADLOCK FALSE
