CONSTANTS
  Dev = {}
  MaxStr = 2
SPECIFICATION Spec
INVARIANT ReadEqualsWritten
INVARIANT TokensReadEqualWritten
INVARIANT FieldTextsReadEqualWritten
INVARIANT FieldsReadEqualWritten
INVARIANT RelativeReadsEqual
INVARIANT TooLongRefused
CHECK_DEADLOCK FALSE
