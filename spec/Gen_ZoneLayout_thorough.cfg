CONSTANTS
  MapDevs = {}
  Dev = {}
  MaxEntries = 3
SPECIFICATION GenSpec
VIEW View
CHECK_DEADLOCK FALSE
