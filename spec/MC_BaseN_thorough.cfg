CONSTANTS
  Dev = {}
  MaxLen = 8
  Deep32 = FALSE
  MaxOct = 6
SPECIFICATION Spec
INVARIANT MachineEqualsFunction
INVARIANT IndexInBounds
INVARIANT PushErrImpliesReject
INVARIANT ChunkingIrrelevant
INVARIANT RoundTrip
INVARIANT ProbeLaw
INVARIANT EncProbeLaw
PROPERTY ErrorsSticky
CHECK_DEADLOCK FALSE
