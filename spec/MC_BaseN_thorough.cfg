CONSTANTS
  Dev = {}
  MaxLen = 8
  MaxOct = 6
SPECIFICATION Spec
INVARIANT MachineEqualsFunction
INVARIANT IndexInBounds
INVARIANT PushErrImpliesReject
INVARIANT ChunkingIrrelevant
INVARIANT RoundTrip
INVARIANT ProbeLaw
PROPERTY ErrorsSticky
CHECK_DEADLOCK FALSE
