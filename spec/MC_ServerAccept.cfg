CONSTANTS
  Dev = {}
  Conns = {1, 2, 3, 4}
  MaxReq = 0
  QCaps = {1}
  Kinds = {"single"}
  MaxCredit = 0
  MaxTick = 2
  NP = 1
  Limit = 2
  MaxFail = 3
  MaxAbort = 3
SPECIFICATION SpecConn
INVARIANT NumConnsExact
INVARIANT Framed
PROPERTY RefusedOnlyAtLimit
PROPERTY OthersUnaffected
CHECK_DEADLOCK FALSE
