CONSTANTS
  Dev = {}
  Conns = {1, 2, 3, 4}
  MaxReq = 0
  QCaps = {1}
  Kinds = {"single"}
  MaxCredit = 0
  MaxTick = 0
  NP = 1
  Limit = 2
  MaxAErr = 1
  AAMs = {TRUE, FALSE}
  MaxFail = 2
  MaxAbort = 2
SPECIFICATION SpecConn
INVARIANT NumConnsExact
INVARIANT AcceptServes
INVARIANT AcceptLoopAlive
INVARIANT Framed
PROPERTY RefusedOnlyAtLimit
PROPERTY OthersUnaffected
CHECK_DEADLOCK FALSE
