CONSTANTS
  Bnd4 = {0, 1, 9, 10, 99, 100, 199, 255}
  Full = TRUE
SPECIFICATION Spec
INVARIANT Emit
CONSTRAINT GenOnlyInit
CHECK_DEADLOCK FALSE
