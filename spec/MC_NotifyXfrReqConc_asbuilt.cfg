CONSTANTS
  N = 1
  T = 2
  W = 2
  Cap = 1
  Kinds = {"axfr"}
  Design = "ordered"
  Dev = {"D_xfr_permits_not_held"}
  GateClosed = FALSE
SPECIFICATION MCSpec
INVARIANT C1_Bounded
INVARIANT C2_Conserved
INVARIANT C2_Released
INVARIANT OrderedLaw
INVARIANT QuiescentLaw

CHECK_DEADLOCK FALSE
