------------------------------ MODULE Cookies ------------------------------
(***************************************************************************)
(* X02 -- the server-side DNS Cookies middleware                           *)
(* (src/net/server/middleware/cookies.rs, option codec base/opt/cookie.rs; *)
(* RFC 7873, RFC 9018).                                                    *)
(*                                                                         *)
(* PROPERTIES (for all configurations, clock values, transports, client    *)
(* addresses and requests -- well-formed or not):                          *)
(*                                                                         *)
(*  P1 DeniedNeedsCookie.  A request from an address on the deny list that *)
(*     arrived over UDP is handed to the service (= answered with data)    *)
(*     only if its first COOKIE option carries a server cookie that is     *)
(*     valid now.  Without one the middleware answers itself: REFUSED+TC   *)
(*     (no cookie), FORMERR (malformed), BADCOOKIE (invalid), never data.  *)
(*  P2 ValidIffExact.  A server cookie is treated as valid iff it is the   *)
(*     16-octet RFC 9018 cookie whose hash is                              *)
(*     Hash(this secret, this client cookie, version, reserved, timestamp, *)
(*     this client IP) and whose timestamp lies in [now-Past, now+Future]  *)
(*     in RFC 1982 serial arithmetic -- for every clock value including    *)
(*     both sides of the 2^32 wrap and of the 2^31 "undefined" distance.   *)
(*     Any change of secret, client cookie, IP, timestamp, version,        *)
(*     reserved or hash is rejected.                                       *)
(*  P3 ResponseCookie.  A response carries a COOKIE option only if the     *)
(*     request's first COOKIE option was well-formed; it then repeats the  *)
(*     client cookie and carries a server cookie that is valid *now* for   *)
(*     this client (exactly one COOKIE option).  Conversely (RFC 7873      *)
(*     5.2.3-5.2.5 "SHALL ... include a COOKIE option in the response")    *)
(*     every response of an enabled middleware to a request with a         *)
(*     well-formed COOKIE option carries one.                              *)
(*  P4 Transparent.  The decision procedure is total (malformed options    *)
(*     never make it fail), a forwarded request is the request, and a      *)
(*     forwarded response differs from the service's response at most in   *)
(*     the COOKIE option of its OPT record.                                *)
(*  P5 RetryConverges (RFC 7873 5.3).  The COOKIE option of a BADCOOKIE    *)
(*     reply, sent back at once, is accepted: no endless BADCOOKIE loop.   *)
(*     (Liveness form in MC_Cookies: a client that follows 5.3 and retries *)
(*     within the validity window is eventually served.)                   *)
(*                                                                         *)
(* The server cookie hash is a SYMBOLIC term (SipHash-2-4 is the           *)
(* library's; the harness evaluates terms with an independent SipHash).    *)
(* Distinct terms are assumed to have distinct values.                     *)
(*                                                                         *)
(* One action per public call: New, WithDeniedIps, Enable, Call (+ the     *)
(* environment's ClockSet).  The middleware keeps no state between calls   *)
(* other than its configuration; the bindings check exactly that by        *)
(* replaying multi-call behaviours.                                        *)
(***************************************************************************)
EXTENDS Integers, Sequences, FiniteSets

CONSTANTS Mod,      \* timestamps are serial numbers modulo Mod (code: 2^32)
          Past,     \* accepted age (code: 3600 s)
          Future,   \* accepted skew into the future (code: 300 s)
          Dev       \* set of open deviations (known findings) switched on

Half == Mod \div 2

---------------------------------------------------------------------------
(* Time.  Three primitives; Trace_Cookies overrides them with 2 x 16-bit   *)
(* limb arithmetic for Mod = 2^32 (TLC integers are 32 bit).               *)

TZero == 0
TAdd(t, k) == (t + k) % Mod                         \* Serial::add
SerialGt(a, b) ==                                   \* Serial: a > b (RFC 1982);
  LET d == (a - b) % Mod IN d # 0 /\ d < Half       \* distance Half: partial_cmp = None, ">" is false
DiffLe(a, b, k) == ((a - b) % Mod) <= k             \* a is at most k after b

\* transcription of CookiesMiddlewareSvc::timestamp_ok
TimestampOk(now, ts) ==
  LET tooNewAt  == TAdd(now, Future)
      expiresAt == TAdd(ts, Past)
  IN IF SerialGt(now, expiresAt) THEN FALSE
     ELSE IF SerialGt(ts, tooNewAt) THEN FALSE
     ELSE TRUE

\* RFC 9018 4.3: within Past in the past and Future into the future
\* (both ends inclusive, as in the code, BIND and NSD)
InWindow(now, ts) == DiffLe(now, ts, Past) \/ DiffLe(ts, now, Future)

---------------------------------------------------------------------------
(* Cookie options and requests *)

\* the hash of a standard server cookie, as a term
Hash(secret, cc, ver, rsv, ts, ip) == <<"sip", secret, cc, ver, rsv, ts, ip>>
Junk == <<"junk", "-", "-", 0, 0, TZero, "-">>      \* any octets that are no such value

\* A COOKIE option: option length `len`; for len >= 8 the client cookie cc;
\* for len = 24 the fields of the standard server cookie.
NoCk == [k |-> "none", len |-> 0, cc |-> "-", v |-> 0, r |-> 0, ts |-> TZero, h |-> Junk]
Ck(len, cc, v, r, ts, h) == [k |-> "ck", len |-> len, cc |-> cc, v |-> v, r |-> r, ts |-> ts, h |-> h]

\* base/opt/cookie.rs Cookie::parse: 8 octets of client cookie, then nothing
\* or 8..32 octets of server cookie
WellFormed(len) == len = 8 \/ (len >= 16 /\ len <= 40)

\* A request: transport, client address, QDCOUNT, whether there is an OPT
\* record whose data parses ("ok"), one that does not ("bad": Message::opt()
\* is None) or none, and the COOKIE options of the OPT record in order.
FirstCookie(r) == IF r.opt = "ok" /\ Len(r.cks) > 0 THEN Head(r.cks) ELSE NoCk

NewCfg(s) == [secret |-> s, deny |-> {}, enabled |-> TRUE]

---------------------------------------------------------------------------
(* The decision procedure: CookiesMiddlewareSvc::call / preprocess *)

NoOut == [act |-> "none", rcode |-> "-", tc |-> FALSE, ck |-> NoCk, echo |-> FALSE]
\* act "pass": the service is called with the unchanged request and its
\*   response is returned (rcode "svc"); ck = the COOKIE option added to it.
\* act "reply": the middleware answers itself, the service is not called;
\*   echo = the reply is built from the request (ID, question, RD copied).
Pass(ck) == [act |-> "pass", rcode |-> "svc", tc |-> FALSE, ck |-> ck, echo |-> TRUE]
Reply(rc, tc, ck, echo) == [act |-> "reply", rcode |-> rc, tc |-> tc, ck |-> ck, echo |-> echo]

\* Cookie::create_response(Serial::now(), client ip, secret)
FreshCk(c, t, r) ==
  LET k == FirstCookie(r)
  IN Ck(24, k.cc, 1, 0, t, Hash(c.secret, k.cc, 1, 0, t, r.ip))

\* Cookie::check_server_hash(ip, secret, timestamp_ok): a standard (16 octet)
\* server cookie, timestamp acceptable, hash over the received fields
ServerCookieValid(c, t, r) ==
  LET k == FirstCookie(r)
  IN /\ k.len = 24
     /\ TimestampOk(t, k.ts)
     /\ k.h = Hash(c.secret, k.cc, k.v, k.r, k.ts, r.ip)

Denied(c, r) == r.udp /\ r.ip \in c.deny

DecideD(c, t, r, D) ==
  LET k == FirstCookie(r) IN
  IF ~c.enabled THEN Pass(NoCk)
  ELSE IF k.k = "none" THEN
     \* RFC 7873 5.2.1, plus the Unbound-like deny list
     IF Denied(c, r) THEN Reply("REFUSED", TRUE, NoCk, FALSE) ELSE Pass(NoCk)
  ELSE IF ~WellFormed(k.len) THEN
     \* 5.2.2
     Reply("FORMERR", FALSE, NoCk, FALSE)
  ELSE
     LET valid     == ServerCookieValid(c, t, r)
         hasServer == k.len > 8
         fresh     == FreshCk(c, t, r)
     IN IF r.qd = 0 THEN
           \* 5.4 querying for a server cookie
           Reply(IF valid \/ ~hasServer THEN "NOERROR" ELSE "BADCOOKIE", FALSE, fresh, TRUE)
        ELSE IF ~valid /\ Denied(c, r) THEN
           \* 5.2.3 (2) / 5.2.4
           Reply("BADCOOKIE", FALSE, fresh, TRUE)
        ELSE
           \* 5.2.3 (3), 5.2.4, 5.2.5: process and include a COOKIE option.
           \* D_pass_no_cookie: the code has no post-processing step; the
           \* service's response goes out without a COOKIE option.
           IF "D_pass_no_cookie" \in D THEN Pass(NoCk) ELSE Pass(fresh)

Decide(c, t, r) == DecideD(c, t, r, Dev)

---------------------------------------------------------------------------
(* The machine *)

VARIABLES cfg,     \* [secret, deny, enabled]: the middleware object
          now,     \* the system clock (Serial::now())
          phase,   \* "idle" | "called"
          req,     \* the request of the call in progress
          out      \* its outcome

vars == <<cfg, now, phase, req, out>>

NoReq == [udp |-> TRUE, ip |-> "-", qd |-> 1, opt |-> "none", cks |-> <<>>]

InitWith(s, t) ==
  /\ cfg = NewCfg(s) /\ now = t /\ phase = "idle" /\ req = NoReq /\ out = NoOut

\* CookiesMiddlewareSvc::new(svc, secret) -- also models a restart with a
\* rotated secret
New(s) == /\ phase = "idle" /\ cfg' = NewCfg(s) /\ UNCHANGED <<now, phase, req, out>>
\* .with_denied_ips(list)
WithDeniedIps(D) == /\ phase = "idle" /\ cfg' = [cfg EXCEPT !.deny = D]
                    /\ UNCHANGED <<now, phase, req, out>>
\* .enable(flag)
Enable(b) == /\ phase = "idle" /\ cfg' = [cfg EXCEPT !.enabled = b]
             /\ UNCHANGED <<now, phase, req, out>>
\* the environment moves the clock (ticks, NTP steps, anycast skew)
ClockSet(t) == /\ phase = "idle" /\ now' = t /\ UNCHANGED <<cfg, phase, req, out>>
\* Service::call(request)
Call(r) == /\ phase = "idle" /\ phase' = "called" /\ req' = r
           /\ out' = Decide(cfg, now, r)
           /\ UNCHANGED <<cfg, now>>
\* the response stream has been consumed
Done == /\ phase = "called" /\ phase' = "idle" /\ req' = NoReq /\ out' = NoOut
        /\ UNCHANGED <<cfg, now>>

---------------------------------------------------------------------------
(* The properties, on the outcome of the call in progress *)

HasCk(r) == FirstCookie(r).k = "ck"
WF(r) == HasCk(r) /\ WellFormed(FirstCookie(r).len)

\* declarative oracle (RFC 9018 4): the one and only valid server cookie
ExactServerCookie(c, t, r) ==
  LET k == FirstCookie(r)
  IN /\ k.k = "ck" /\ k.len = 24
     /\ InWindow(t, k.ts)
     /\ k.h = Hash(c.secret, k.cc, k.v, k.r, k.ts, r.ip)

Called == phase = "called"

P1_DeniedNeedsCookie ==
  (Called /\ cfg.enabled /\ Denied(cfg, req)) =>
     /\ out.act = "pass" => ExactServerCookie(cfg, now, req)
     /\ out.act = "reply"
          => \/ ~HasCk(req) /\ out.rcode = "REFUSED" /\ out.tc
             \/ HasCk(req) /\ ~WF(req) /\ out.rcode = "FORMERR"
             \/ WF(req) /\ out.rcode = "BADCOOKIE" /\ ~ExactServerCookie(cfg, now, req)
             \/ WF(req) /\ req.qd = 0 /\ out.rcode = "NOERROR"

P2_ValidIffExact ==
  (Called /\ cfg.enabled /\ WF(req) /\ FirstCookie(req).len > 8) =>
     /\ ServerCookieValid(cfg, now, req) <=> ExactServerCookie(cfg, now, req)
     /\ req.qd = 0 => /\ out.act = "reply"
                      /\ out.rcode = IF ExactServerCookie(cfg, now, req) THEN "NOERROR" ELSE "BADCOOKIE"
     /\ (req.qd # 0 /\ Denied(cfg, req)) =>
          IF ExactServerCookie(cfg, now, req) THEN out.act = "pass"
          ELSE out.act = "reply" /\ out.rcode = "BADCOOKIE"

\* the COOKIE option o as the only COOKIE option of request r
WithCookie(r, o) == [r EXCEPT !.opt = "ok", !.cks = <<o>>]

P3a_CookieOnlyValidNow ==
  (Called /\ out.ck.k = "ck") =>
     /\ WF(req)
     /\ out.ck.cc = FirstCookie(req).cc
     /\ out.ck.v = 1 /\ out.ck.r = 0
     /\ ExactServerCookie(cfg, now, WithCookie(req, out.ck))
P3b_NoCookieUnasked == (Called /\ ~HasCk(req)) => out.ck.k = "none"
P3c_CookieAlways == (Called /\ cfg.enabled /\ WF(req)) => out.ck.k = "ck"

P4_Total == Called => /\ out.act \in {"pass", "reply"}
                      /\ out.act = "pass" => out.rcode = "svc"
                      /\ out.act = "reply" => out.rcode \in {"NOERROR", "BADCOOKIE", "FORMERR", "REFUSED"}
                      /\ ~cfg.enabled => out = Pass(NoCk)

P5_RetryConverges ==
  (Called /\ out.rcode = "BADCOOKIE") =>
     LET o2 == Decide(cfg, now, WithCookie(req, out.ck))
     IN o2.rcode # "BADCOOKIE" /\ (req.qd # 0 => o2.act = "pass")

\* serial arithmetic: the code's two comparisons are the RFC window, for
\* every pair of clock value and timestamp
TimeLaw == \A t \in 0 .. Mod - 1 : \A s \in 0 .. Mod - 1 :
              /\ TimestampOk(t, s) <=> InWindow(t, s)
              /\ InWindow(t, s) <=> \E d \in (0 - Past) .. Future : s = (t + d) % Mod
=============================================================================
