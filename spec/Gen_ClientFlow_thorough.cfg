CONSTANTS
  Dev = {}
  MaxReq = 2
  TickMs = 10000
  StConfs <- St_3_2
  RqCap = 8
  ChanCap = 8
  MaxFrames = 0
  EndKinds = {}
  Frames = {}
  DCap = 8
  XLen = 21
  FlowQs = {1, 501, 601}
  Bursts = {1, 3, 10, 21}
  Wants = {1, 2, 9, 19}
  FlowMaxOps = 6
  FlowDev = {}
SPECIFICATION MacroFSpec
VIEW FlowView
ACTION_CONSTRAINT EmitFlow
INVARIANT FlowPrefix
INVARIANT FlowComplete
INVARIANT FlowBounded
INVARIANT FlowSettled
INVARIANT FlowStream
CHECK_DEADLOCK FALSE
