CONSTANTS
  Dev = {}
  TickMs = 10000
  Confs = {}
  MaxDgrams = 0
  Faults = {}
  MReqs = {1}
  MaxConn = 0
  BKind = "lb"
  NUp = 1
  NReq = 3
  Limits <- LimBurst
  CfgSet <- CfgAll
SPECIFICATION BSpec
INVARIANT BOwn
INVARIANT BOnlyUsable
INVARIANT BFirstWins
CHECK_DEADLOCK FALSE
