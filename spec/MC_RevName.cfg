CONSTANTS
  Bnd4 = {0, 9, 10, 100, 255}
  Full = FALSE
SPECIFICATION Spec
INVARIANT I_BuiltIsRfcName
INVARIANT I_NeverTooLong
INVARIANT I_Invertible
INVARIANT I_OctetLaws
INVARIANT I_Injective
CHECK_DEADLOCK FALSE
