CONSTANTS
  Dev = {"D_opt_rcode_sticks"}
  Scenario = "optrc"
  MaxOps = 5
  CompSet = {"none", "static", "tree", "hash"}
  TgtSet = {"array", "sarray", "stream"}
SPECIFICATION Spec
INVARIANT Emit
CHECK_DEADLOCK FALSE
