CONSTANTS
  Dev = {}
  RD = 1
  MaxRetries = 0
  MaxDgrams = 0
  Faults = {}
  MRT = 1
  MReqs = {1}
  MaxConn = 0
SPECIFICATION TSpec
INVARIANT BOwn
INVARIANT BOnlyUsable
INVARIANT BFirstWins
POSTCONDITION Accepted
CHECK_DEADLOCK FALSE
