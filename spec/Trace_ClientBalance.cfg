CONSTANTS
  Dev = {}
  TickMs = 10000
  Confs = {}
  MaxDgrams = 0
  Faults = {}
  MReqs = {1}
  MaxConn = 0
SPECIFICATION TSpec
INVARIANT BOwn
INVARIANT BOnlyUsable
INVARIANT BFirstWins
POSTCONDITION Accepted
CHECK_DEADLOCK FALSE
