CONSTANTS
  Sites <- SiteTable
  BITS = 8
SPECIFICATION GenSpec
INVARIANT EmitCmp
INVARIANT EmitAdd
INVARIANT EmitSites
CHECK_DEADLOCK FALSE
