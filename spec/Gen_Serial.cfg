CONSTANTS
  BITS = 8
SPECIFICATION GenSpec
INVARIANT EmitCmp
INVARIANT EmitAdd
CHECK_DEADLOCK FALSE
