-------------------------- MODULE Gen_ClientConfig --------------------------
(* The configuration objects of the client transports as a machine of      *)
(* their own: one object of a kind, one action per public setter, values   *)
(* at, just inside and just outside the ends of the documented ranges.     *)
(* TLC checks that the operational definitions (ClientConfig: fold of the  *)
(* calls) meet the declarative reading (Honoured: asked for, capped to the *)
(* range; never asked: the default) and that a setter touches its own      *)
(* setting only; every behaviour of MaxOps calls is emitted as a case with *)
(* what the getters say after every call (S->I: replay_client "config").   *)
EXTENDS ClientConfig, Json, TLC

CONSTANTS MaxOps, Kinds
VARIABLES kind, route, obj, hist
vars == <<kind, route, obj, hist>>

DefaultOf(k) == CASE k = "dg" -> DgDefault [] k = "st" -> StDefault [] k = "ms" -> MsDefault
                  [] k = "x" -> XDefault [] k = "cc" -> CcDefault [] k = "lb" -> BalDefault
                  [] k = "red" -> RedDefault
RoutesOf(k) == IF k \in {"dg", "st", "x"} THEN {"new", "default"}
               ELSE IF k = "cc" THEN {"new"} ELSE {"default"}

Durs(l) == {0, 1, l.def, l.max - 1, l.max, l.max + 1, l.max * 2}
DgCalls == {Call("set_max_parallel", v) : v \in {0, 1, 2, 100, 1000, 1001}}
      \cup {Call("set_read_timeout", v) : v \in Durs(DgReadTimeout)}
      \cup {Call("set_max_retries", v) : v \in {0, 1, 5, 99, 100, 101, 255}}
      \cup {Call("set_udp_payload_size", v) : v \in {-1, 0, 512, 1232, 65535}}
      \cup {Call("set_recv_size", v) : v \in {0, 512, 2000, 65535}}
StCalls == {Call("set_response_timeout", v) : v \in Durs(StResponse)}
      \cup {Call("set_streaming_response_timeout", v) : v \in Durs(StResponse)}
      \cup {Call("set_idle_timeout", v) : v \in Durs(StIdle)}
MsOwnCalls == {Call("set_response_timeout", v) : v \in Durs(MsResponse)}
At(at, S) == {CallAt(at, k.f, k.v) : k \in S}
CcCalls == {Call("set_max_burst", v) : v \in {-1, 0, 1, 1000000}}
      \cup {Call("set_burst_interval", v) : v \in Durs(LbBurstInterval)}
FlagCalls == {Call(f, v) : f \in {"set_defer_transport_error", "set_defer_refused", "set_defer_servfail"},
                           v \in {0, 1}}
LbCalls == FlagCalls \cup {Call("set_slow_rt_factor", v) : v \in {0, 9, 10, 11, 50, 1000}}

CallsOf(k) == CASE k = "dg" -> At("", DgCalls) [] k = "st" -> At("", StCalls)
                [] k = "ms" -> At("", MsOwnCalls) \cup At("stream_mut", StCalls)
                [] k = "x" -> At("dgram_mut", DgCalls) \cup At("stream_mut", MsOwnCalls)
                              \cup At("stream_mut.stream_mut", StCalls)
                [] k = "cc" -> At("", CcCalls) [] k = "lb" -> At("", LbCalls)
                [] k = "red" -> At("", FlagCalls)

RedCall(c, k) == CASE k.f = "set_defer_transport_error" -> [c EXCEPT !.de = (k.v = 1)]
                   [] k.f = "set_defer_refused"         -> [c EXCEPT !.dr = (k.v = 1)]
                   [] k.f = "set_defer_servfail"        -> [c EXCEPT !.ds = (k.v = 1)]
Do(k, c, call) == CASE k = "dg" -> DgCall(c, call) [] k = "st" -> StCall(c, call)
                    [] k = "ms" -> MsCallAt(c, call) [] k = "x" -> XCallAt(c, call)
                    [] k = "cc" -> CcCall(c, call) [] k = "lb" -> BalCall(c, call)
                    [] k = "red" -> RedCall(c, call)

Init == /\ kind \in Kinds /\ route \in RoutesOf(kind) /\ obj = DefaultOf(kind) /\ hist = <<>>
Step(call) == /\ Len(hist) < MaxOps
              /\ obj' = Do(kind, obj, call)
              /\ hist' = Append(hist, [call |-> call, eff |-> obj'])
              /\ UNCHANGED <<kind, route>>
\* one action per public setter
SetMaxParallel    == \E c \in CallsOf(kind) : c.f = "set_max_parallel" /\ Step(c)
SetReadTimeout    == \E c \in CallsOf(kind) : c.f = "set_read_timeout" /\ Step(c)
SetMaxRetries     == \E c \in CallsOf(kind) : c.f = "set_max_retries" /\ Step(c)
SetUdpPayloadSize == \E c \in CallsOf(kind) : c.f = "set_udp_payload_size" /\ Step(c)
SetRecvSize       == \E c \in CallsOf(kind) : c.f = "set_recv_size" /\ Step(c)
SetResponseTimeout == \E c \in CallsOf(kind) : c.f = "set_response_timeout" /\ Step(c)
SetStreamingResponseTimeout == \E c \in CallsOf(kind) : c.f = "set_streaming_response_timeout" /\ Step(c)
SetIdleTimeout    == \E c \in CallsOf(kind) : c.f = "set_idle_timeout" /\ Step(c)
SetMaxBurst       == \E c \in CallsOf(kind) : c.f = "set_max_burst" /\ Step(c)
SetBurstInterval  == \E c \in CallsOf(kind) : c.f = "set_burst_interval" /\ Step(c)
SetDeferFlag      == \E c \in CallsOf(kind) : c.f \in {"set_defer_transport_error", "set_defer_refused",
                                                         "set_defer_servfail"} /\ Step(c)
SetSlowRtFactor   == \E c \in CallsOf(kind) : c.f = "set_slow_rt_factor" /\ Step(c)
Next == SetMaxParallel \/ SetReadTimeout \/ SetMaxRetries \/ SetUdpPayloadSize \/ SetRecvSize
        \/ SetResponseTimeout \/ SetStreamingResponseTimeout \/ SetIdleTimeout \/ SetMaxBurst
        \/ SetBurstInterval \/ SetDeferFlag \/ SetSlowRtFactor
Spec == Init /\ [][Next]_vars

\* the calls made so far, per part
RECURSIVE CallsAt(_, _)
CallsAt(h, at) == IF h = <<>> THEN <<>>
                  ELSE (IF Head(h).call.at = at THEN <<Head(h).call>> ELSE <<>>) \o CallsAt(Tail(h), at)
Asked(calls, f) == \E i \in 1..Len(calls) : calls[i].f = f
LastIdx(calls, f) == CHOOSE i \in 1..Len(calls) : calls[i].f = f /\ \A j \in (i+1)..Len(calls) : calls[j].f # f
FlagPlain(calls, f, val) == IF Asked(calls, f) THEN val = (calls[LastIdx(calls, f)].v = 1) ELSE val = FALSE
FlagHonoured(calls, c) == /\ FlagPlain(calls, "set_defer_transport_error", c.de)
                          /\ FlagPlain(calls, "set_defer_refused", c.dr)
                          /\ FlagPlain(calls, "set_defer_servfail", c.ds)
SrfHonoured(calls, c) == LET a == LastAsked(calls, "set_slow_rt_factor")
                         IN IF a = Unset THEN c.srf = LbSlowRtDef
                            ELSE c.srf >= LbSlowRtMin /\ (a >= LbSlowRtMin => c.srf = a)
ConfigHonoured ==
  CASE kind = "dg" -> DgHonoured(CallsAt(hist, ""), obj)
    [] kind = "st" -> StHonoured(CallsAt(hist, ""), obj)
    [] kind = "ms" -> /\ Honoured(MsResponse, LastAsked(CallsAt(hist, ""), "set_response_timeout"), obj.rt)
                      /\ StHonoured(CallsAt(hist, "stream_mut"), obj.st)
    [] kind = "x"  -> /\ DgHonoured(CallsAt(hist, "dgram_mut"), obj.dg)
                      /\ Honoured(MsResponse, LastAsked(CallsAt(hist, "stream_mut"), "set_response_timeout"), obj.ms.rt)
                      /\ StHonoured(CallsAt(hist, "stream_mut.stream_mut"), obj.ms.st)
    [] kind = "cc" -> CcHonoured(CallsAt(hist, ""), obj)
    [] kind = "lb" -> FlagHonoured(CallsAt(hist, ""), obj) /\ SrfHonoured(CallsAt(hist, ""), obj)
    [] kind = "red" -> FlagHonoured(CallsAt(hist, ""), obj)

CaseOf(h) == ToJson([in |-> [kind |-> "config", obj |-> kind, route |-> route,
                             calls |-> [i \in 1..Len(h) |-> h[i].call]],
                     exp |-> [i \in 1..Len(h) |-> h[i].eff]])
Emit == Len(hist') = MaxOps => PrintT("CASE " \o CaseOf(hist'))
=============================================================================
