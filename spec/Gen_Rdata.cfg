CONSTANTS
  Dev = {}
  MaxVary = 2
  Big = 300
SPECIFICATION Spec
INVARIANT EmitPlain
INVARIANT EmitPtr
INVARIANT EmitMutants
CHECK_DEADLOCK FALSE
