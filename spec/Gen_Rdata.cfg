CONSTANTS
  Dev = {}
  MaxVary = 2
  Big = 300
SPECIFICATION Spec
INVARIANT EmitPlain
INVARIANT EmitPtr
INVARIANT EmitMutants
INVARIANT EmitBitmap
INVARIANT EmitSvcBuilder
INVARIANT EmitTxtBuilder
INVARIANT EmitAlpnBuilder
INVARIANT EmitCtor
INVARIANT EmitCtorLong
CHECK_DEADLOCK FALSE
