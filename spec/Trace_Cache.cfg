CONSTANTS
  Dev = {}
  Mut = {}
SPECIFICATION TSpec
INVARIANT I_ServedWasSaid
INVARIANT I_AgedExactly
INVARIANT I_NeverStale
INVARIANT I_BoundsRespected
INVARIANT I_NoDnssecLeak
INVARIANT I_NoPanic
INVARIANT I_ViewIsWire
POSTCONDITION Accepted
CHECK_DEADLOCK FALSE
