CONSTANTS
  Sites <- SiteTable
  BITS = 7
SPECIFICATION Spec
INVARIANT ITypeOK
INVARIANT ILaw
INVARIANT ICount
INVARIANT IUndefStale
INVARIANT IShift
INVARIANT IVacuity
INVARIANT ILifted
PROPERTY PShift
PROPERTY PTick
PROPERTY PRenew
CHECK_DEADLOCK FALSE
