CONSTANTS
  Dev = {}
  MaxReq = 4
  TickMs = 10000
  StConfs <- St_1_1
  RqCap = 8
  ChanCap = 8
  MaxFrames = 8
  MaxQ = 2
  MaxId = 3
  KaVals = {0}
  XQs = {}
  XfrIds = {}
  XfrAll = FALSE
  QVars = {101, 201, 301, 401}
  EndKinds = {"eof", "short", "trunc", "wfail", "stall"}
  MaxOps = 14
  Frames <- GFrames
SPECIFICATION GenSpec
ACTION_CONSTRAINT EmitAtEnd
CHECK_DEADLOCK FALSE
