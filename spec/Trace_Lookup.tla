----------------------------- MODULE Trace_Lookup -----------------------------
(* I->S for X09: a recorded run of the real lookup functions and of the       *)
(* resolv.conf parser (one event per public call, every argument logged)      *)
(* must be a behaviour of SrvLookup / HostLookup / RevName / ResolvConfFile.   *)
(* The random draws of the weighted selection are not visible in a trace:     *)
(* the observed order must be admitted (MC_SrvLookup shows that the machine   *)
(* reaches exactly the admitted orders), the stream phase is replayed with    *)
(* the machine's own StreamNext on the observed order.                        *)
EXTENDS Integers, Sequences, FiniteSets, TLC, Json, IOUtils

CONSTANT Dev
S == INSTANCE SrvLookup
H == INSTANCE HostLookup
R == INSTANCE RevName
C == INSTANCE ResolvConfFile

Rec == ndJsonDeserialize(IOEnv.TRACE)

VARIABLES l, conf
tvars == <<l, conf>>

IsEv(e) == l <= Len(Rec) /\ Rec[l].ev = e /\ l' = l + 1
TInit == l = 1 /\ conf = C!ConfInit

--------------------------------------------------------------------------
RecOf(t) == [p |-> t[1], w |-> t[2], port |-> t[3], t |-> t[4], own |-> t[5]]
ItemOfT(t) == [p |-> t[1], w |-> t[2], port |-> t[3], t |-> t[4]]
WorldOf(e) == [srv |-> e.srv, alias |-> e.alias, port |-> e.port,
               recs |-> [i \in 1..Len(e.recs) |-> RecOf(e.recs[i])],
               addl |-> [i \in 1..Len(e.addl) |-> [t |-> e.addl[i][1], f |-> e.addl[i][2], k |-> e.addl[i][3]]],
               hosts |-> [a |-> e.hosts[1], aaaa |-> e.hosts[2]]]
NonUniform(items) == \E i, j \in 1..Len(items) : items[i].p = items[j].p /\ items[i].w # items[j].w

RECURSIVE RunStream(_, _)
RunStream(W, s) == IF s.ph = "stream" THEN RunStream(W, S!StreamNext(W, s)) ELSE s

StreamMatches(W, s0, e) ==
  LET sF == RunStream(W, s0)
  IN /\ sF.asked = e.asked
     /\ Len(sF.yielded) = Len(e.ys)
     /\ \A j \in 1..Len(e.ys) :
          LET y == sF.yielded[j] IN e.ys[j] = <<y.t, y.port, y.kind, y.addrs>>

SrvOk(e) ==
  LET W == WorldOf(e)
      s1 == S!Query(W, S!InitState)
      order == [i \in 1..Len(e.order) |-> ItemOfT(e.order[i])]
  IN IF e.res = "panic"
     THEN S!Rescan /\ W.srv = "ok" /\ NonUniform(S!Usable(W.recs))
     ELSE IF W.srv = "err" THEN e.res = "err" /\ e.asked = s1.asked /\ order = <<>>
     ELSE LET s2 == S!Records(W, s1) IN
       IF s2.out = "none" THEN e.res = "none" /\ e.asked = s1.asked /\ order = <<>>
       ELSE IF s2.out = "fallback"
       THEN e.res = "fallback" /\ order = S!Bare(s2.arr) /\ StreamMatches(W, s2, e)
       ELSE /\ e.res = "found"
            /\ S!AdmittedOrder(W, order)                                       \* P1a
            /\ StreamMatches(W, [s2 EXCEPT !.arr = [i \in 1..Len(order) |->
                                     S!Item(order[i], S!AddlAddrs(W.addl, order[i].t))],
                                   !.ph = "stream", !.out = "found"], e)        \* P1d

T_Srv == IsEv("srv") /\ SrvOk(Rec[l]) /\ UNCHANGED conf

ItemsOfLookup(recs, port) ==
  LET u == S!Usable([i \in 1..Len(recs) |-> RecOf(recs[i])])
  IN IF u = <<>> THEN <<[p |-> 0, w |-> 0, port |-> port, t |-> 9]>>
     ELSE [i \in 1..Len(u) |-> [p |-> u[i].p, w |-> u[i].w, port |-> u[i].port, t |-> u[i].t]]
MergeOk(e) ==
  LET a == ItemsOfLookup(e.a, 80)  b == ItemsOfLookup(e.b, 81)
      m == [i \in 1..Len(e.m) |-> ItemOfT(e.m[i])]
  IN IF e.panic THEN S!Rescan /\ NonUniform(a \o b)
     ELSE S!AdmittedMerge(a, b, m)                                              \* P1e
T_Merge == IsEv("merge") /\ MergeOk(Rec[l]) /\ UNCHANGED conf

--------------------------------------------------------------------------
NameOf(i) == CASE i = 0 -> "h.test." [] i = 1 -> "c1.test." [] i = 2 -> "c2.test." [] OTHER -> "other.test."
HostOk(e) ==
  LET W == [a |-> e.a, aaaa |-> e.aaaa]
      sj == H!Join(W, H!AskAAAA(W, H!AskA(W, H!HInit)))
  IN /\ e.qs = sj.asked
     /\ e.err = (sj.res = "err")
     /\ sj.res = "found" =>
          LET sF == H!Iter(W, H!CanonicalName(W, H!IsEmpty(W, sj)))
              ends == {H!Canon(x) : x \in {y \in {W.a, W.aaaa} : ~H!IsErr(y)}} \ {-1}
          IN /\ e.empty = sF.empty
             /\ e.addrs = sF.addrs
             /\ IF H!Canon(H!Used(W)) # -1 THEN e.canon \in {NameOf(i) : i \in ends}
                ELSE \/ e.canon \in {NameOf(i) : i \in H!ChainNames(W.a) \cup H!ChainNames(W.aaaa)}
                     \/ ("D_host_canonical_loop_panic" \in Dev /\ e.canon = "panic")     \* T_Dev disjunct
T_Host == IsEv("host") /\ HostOk(Rec[l]) /\ UNCHANGED conf

RevOk(e) ==
  /\ e.q = R!RevName(e.v, e.o)
  /\ e.qtype = "PTR" /\ e.nq = 1
  /\ e.err = (e.ans = "err")
  /\ e.names = (IF e.ans = "err" THEN <<>> ELSE [k \in 1..e.n |-> k])
T_Rev == IsEv("rev") /\ RevOk(Rec[l]) /\ UNCHANGED conf

--------------------------------------------------------------------------
SameConf(c, st) ==
  /\ st.servers = c.servers /\ st.stmo = c.stmo /\ st.search = c.search
  /\ st.ndots = c.ndots /\ st.timeout = c.timeout /\ st.attempts = c.attempts
  /\ {st.flags[i] : i \in 1..Len(st.flags)} = c.flags
T_ConfNew == IsEv("conf_new") /\ conf' = C!ConfInit
T_ConfLine == /\ IsEv("conf_line")
              /\ LET r == C!ParseLine(conf, Rec[l].words, Rec[l].lead)
                 IN r.ok = Rec[l].ok /\ SameConf(r.st, Rec[l].st) /\ conf' = r.st
T_ConfFin == IsEv("conf_fin") /\ SameConf(C!Finalize(conf), Rec[l].st) /\ C!FinalLaws(conf) /\ UNCHANGED conf

TNext == T_Srv \/ T_Merge \/ T_Host \/ T_Rev \/ T_ConfNew \/ T_ConfLine \/ T_ConfFin
TSpec == TInit /\ [][TNext]_tvars

Accepted ==
  LET d == TLCGet("stats").diameter
  IN IF d = Len(Rec) + 1 THEN TRUE
     ELSE /\ PrintT("TRACE_REJECTED " \o ToJson([matched |-> d - 1, total |-> Len(Rec),
                      event |-> IF d <= Len(Rec) THEN Rec[d] ELSE [ev |-> "none"]]))
          /\ FALSE
=============================================================================
