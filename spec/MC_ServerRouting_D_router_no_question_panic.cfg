CONSTANTS
  Dev = {"D_router_no_question_panic"}
  MaxRoutes = 1
  Wide = FALSE
SPECIFICATION Spec
INVARIANTS NeverPanics RoutesToLongest BestOne OrderFree
PROPERTY CallFrame
CHECK_DEADLOCK FALSE
