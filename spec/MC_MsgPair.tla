---------------------------- MODULE MC_MsgPair ----------------------------
(* Enumeration of PAIRS of octet strings for MsgPair.tla.  Phase 1 chooses   *)
(* a base message, phase 2 its partner:                                      *)
(*   P  every prefix of the base of at least 12 octets (and two shorter      *)
(*      ones; thinned for the long limit-shape messages) - a related message *)
(*      cut off anywhere                                                     *)
(*   M  the base with one field changed (ID, QR, opcode, RCODE, each count,  *)
(*      one body octet: letter case, label length, pointer, type, class),    *)
(*      with an octet appended, and the base itself                          *)
(*   H  the hostile / limit families crossed with each other on a small set  *)
(* Bases: header shapes x question bodies built from boundary chunks (root,  *)
(* labels in both cases, pointers backward / to itself / forward, reserved   *)
(* label type, half a pointer) x question tails (A, AXFR, cut, absent);      *)
(* two-question messages with the second name compressed into the first;     *)
(* responses with records in every section; question names at the            *)
(* 253..257-octet boundary.  The executor performs every ordered operation   *)
(* in both orders, so (m, prefix) also covers (prefix, m).                   *)
EXTENDS MsgPair, TLC, Json

CONSTANTS Big            \* TRUE: the larger alphabets (thorough tier)

VARIABLES ph,            \* 0 start, 1 base chosen, 2 pair complete
          fam,           \* family of the pair
          a, b           \* the pair (phase 2); a is the base in phase 1
vars == <<ph, fam, a, b>>

F(n, v) == [i \in 1..n |-> v]
HdrI(id, h) == EncU16(id) \o EncU16(h[1]) \o EncU16(h[2]) \o EncU16(h[3]) \o EncU16(h[4]) \o EncU16(h[5])
Hdr(h) == HdrI(4660, h)

---------------------------------------------------------------------------
(* bases *)

NCx == { <<>>, <<0>>, <<1, 97>>, <<1, 65>>, <<192, 12>>, <<192, 14>>, <<64>>, <<192>> }
NCy == { <<>>, <<0>>, <<192, 12>> } \cup (IF Big THEN { <<1, 65>>, <<192, 14>> } ELSE {})
\* (the cut and the absent tail are prefixes of the complete ones)
QFix == { <<0, 1, 0, 1>>, <<0, 252, 0, 1>> }
         \cup (IF Big THEN { <<0, 251, 0, 1>>, <<0, 1, 0, 3>> } ELSE {})

\* <<flags, qd, an, ns, ar>>: query, response, response with an answer count,
\* header-only error, response without question, two questions, 65535
\* questions, a request of another opcode, an error response with question
HQ == { <<0, 1, 0, 0, 0>>, <<32768, 1, 0, 0, 0>>, <<32768, 1, 1, 0, 0>>, <<32771, 0, 0, 0, 0>>,
        <<32768, 2, 0, 0, 0>>, <<32768, 65535, 0, 0, 0>>, <<10240, 1, 0, 0, 0>>, <<33027, 1, 0, 0, 0>> }
      \cup (IF Big THEN { <<32768, 0, 0, 0, 0>>, <<0, 2, 0, 0, 0>>, <<0, 0, 0, 0, 0>>, <<33792, 1, 0, 0, 0>> } ELSE {})

PQ(h, x) == { Hdr(h) \o x \o y \o qf : y \in NCy, qf \in QFix }

\* two questions, the second name compressed into (or a case variant of) the first
QQ == { Hdr(<<f, 2, 0, 0, 0>>) \o x \o <<0, 1, 0, 1>> \o y \o <<0, 1, 0, 1>> :
          f \in {0, 32768}, x \in {<<1, 97, 0>>, <<0>>},
          y \in {<<192, 12>>, <<1, 97, 0>>, <<1, 65, 0>>, <<192, 14>>, <<192, 19>>, <<0>>} }

\* responses with records: the question, then records in every section
XRec(v) == <<192, 12, 0, 1, 0, 1, 0, 0, 0, 60, 0, 4, v, v, v, v>>
RFull(f, q) == Hdr(<<f, 1, 2, 1, 1>>) \o q \o XRec(1) \o XRec(2) \o XRec(3)
                 \o <<0, 0, 41, 4, 208, 0, 0, 0, 0, 0, 0>>
RR == { RFull(f, q) : f \in {0, 32768, 33792},
                      q \in {<<1, 97, 0, 0, 1, 0, 1>>, <<1, 97, 0, 0, 252, 0, 1>>, <<3, 119, 119, 119, 1, 97, 0, 0, 6, 0, 1>>} }

\* question names at the 255-octet limit
Lab(n, c) == <<n>> \o F(n, c)
RECURSIVE Labs(_, _)
Labs(lens, c) == IF lens = <<>> THEN <<>> ELSE Lab(Head(lens), c) \o Labs(Tail(lens), c)
LQShapes == { <<63, 63, 63, 61>>, <<63, 63, 63, 62>>, <<63, 63, 63, 60>>, F(127, 1), F(128, 1), F(126, 1) }
LQ(f, qs, c) == Hdr(<<f, 1, 0, 0, 0>>) \o Labs(qs, c) \o <<0, 0, 1, 0, 1>>
LL == { LQ(f, qs, 97) : f \in {0, 32768}, qs \in LQShapes }

\* the hostile / limit set that is crossed with itself
HH == { <<>>, F(11, 1), F(12, 0), F(12, 255), Hdr(<<32768, 1, 0, 0, 0>>), Hdr(<<32768, 65535, 65535, 0, 0>>),
        Hdr(<<32768, 65535, 0, 0, 0>>) \o <<0, 0, 1, 0, 1>>,
        Hdr(<<32768, 1, 0, 0, 0>>) \o <<192, 12, 0, 1, 0, 1>>,
        Hdr(<<32768, 1, 0, 0, 0>>) \o <<192, 14, 0, 1, 0, 1>>,
        Hdr(<<0, 1, 0, 0, 0>>) \o <<64, 0, 1, 0, 1>>,
        Hdr(<<0, 1, 0, 0, 0>>) \o <<63>>,
        Hdr(<<32768, 1, 0, 0, 0>>) \o <<1, 97, 0, 0, 1, 0, 1>>,
        Hdr(<<0, 1, 0, 0, 0>>) \o <<1, 97, 0, 0, 1, 0, 1>>,
        Hdr(<<32768, 1, 0, 0, 0>>) \o <<1, 65, 0, 0, 1, 0, 1>>,
        Hdr(<<32768, 1, 0, 0, 0>>) \o <<1, 97, 0, 0, 1, 0>>,
        Hdr(<<0, 1, 0, 0, 0>>) \o <<1, 97, 0, 0, 252, 0, 1>>,
        Hdr(<<32768, 1, 1, 0, 0>>) \o <<1, 97, 0, 0, 252, 0, 1>> \o XRec(1),
        Hdr(<<32768, 0, 1, 0, 0>>) \o XRec(1),
        Hdr(<<32771, 0, 0, 0, 0>>), HdrI(4661, <<32771, 0, 0, 0, 0>>),
        \* an error reply without question that announces records is not "header only"
        Hdr(<<32771, 0, 1, 0, 0>>), Hdr(<<32773, 0, 0, 1, 0>>), Hdr(<<33797, 0, 0, 0, 1>>),
        HdrI(4661, <<32768, 1, 0, 0, 0>>) \o <<1, 97, 0, 0, 1, 0, 1>>,
        LQ(32768, <<63, 63, 63, 61>>, 97), LQ(0, <<63, 63, 63, 61>>, 65), LQ(0, <<63, 63, 63, 62>>, 97) }

---------------------------------------------------------------------------
(* partners *)

PrefixLens(m) ==
  IF Len(m) <= 64 THEN {0, 11} \cup (12..Len(m))
  ELSE {0, 11, 12, 13, 14, 76} \cup {Len(m) - d : d \in 0..8} \cup {k \in 12..Len(m) : k % 41 = 0}
Prefixes(m) == { SubSeq(m, 1, k) : k \in PrefixLens(m) }

Set(m, i, v) == [m EXCEPT ![i] = v]
Bump(m, i, d) == Set(m, i, (m[i] + d) % 256)
FlipCase(o) == IF o >= 97 /\ o <= 122 THEN o - 32 ELSE IF o >= 65 /\ o <= 90 THEN o + 32 ELSE (o + 1) % 256
\* one header field changed: ID, QR, opcode, RCODE, QDCOUNT (+1, -1), ANCOUNT, ARCOUNT
HdrMutants(m) ==
  { Bump(m, 2, 1), Bump(m, 3, 128), Bump(m, 3, 8), Bump(m, 4, 3), Bump(m, 6, 1), Bump(m, 6, 255),
    Bump(m, 8, 1), Bump(m, 12, 1) }
\* one body octet changed (letter case where it is a letter), at every
\* position in the thorough tier, at up to four positions otherwise
BodyPos(m) ==
  IF Big \/ Len(m) <= 16 THEN 13..Len(m)
  ELSE {13, 14, Len(m) - 3, Len(m)} \cap (13..Len(m))
BodyMutants(m) ==
  { Set(m, i, FlipCase(m[i])) : i \in BodyPos(m) }
    \cup (IF Big THEN { Set(m, i, v) : i \in BodyPos(m), v \in {0, 192} } ELSE {})
Mutants(m) ==
  IF Len(m) < 12 THEN {m} ELSE HdrMutants(m) \cup BodyMutants(m) \cup {m, m \o <<0>>}

---------------------------------------------------------------------------
(* two-phase choice so that TLC's workers share the enumeration *)

Init == ph = 0 /\ fam = "" /\ a = <<>> /\ b = <<>>

Phase1 ==
  /\ ph = 0 /\ ph' = 1 /\ b' = <<>>
  /\ \/ \E h \in HQ, x \in NCx : \E m \in PQ(h, x) : a' = m /\ fam' = "Q"
     \/ \E m \in QQ : a' = m /\ fam' = "QQ"
     \/ \E m \in RR : a' = m /\ fam' = "R"
     \/ \E m \in LL : a' = m /\ fam' = "L"
     \/ \E m \in HH : a' = m /\ fam' = "H"

Phase2 ==
  /\ ph = 1 /\ ph' = 2 /\ UNCHANGED <<a, fam>>
  /\ IF fam = "H" THEN \E m \in HH : b' = m
     ELSE \/ \E m \in Prefixes(a) : b' = m
          \/ \E m \in Mutants(a) : b' = m
          \* the same name in the other case / one label longer
          \/ fam = "L" /\ \E qs \in LQShapes, f \in {0, 32768} : b' = LQ(f, qs, 65)

Next == Phase1 \/ Phase2
Spec == Init /\ [][Next]_vars

Done == ph = 2
Both == Done /\ ~IsShort(a) /\ ~IsShort(b)

---------------------------------------------------------------------------
(* Laws *)

PairLaws == Both =>
  LET x == V(a)  y == V(b) IN
  /\ SelfAnswerAgreesV(x) /\ SelfAnswerAgreesV(y)
  /\ x.qr = QR(a) /\ (x.qr /\ ~x.err) = IsAnswerSelf(a)
  /\ PairSymmetricV(x, y)
  /\ HostileNeverAnswersV(x, y)
  /\ StartAnswerAnswersV(x) /\ StartAnswerAnswersV(y)
  /\ ClientRefinesV(x, y) /\ ClientRefinesV(y, x)
  /\ CopyLawV(x, y) /\ CopyLawV(y, x)
  \* reading record by record and skipping to the next section agree
  /\ (x.rc # <<>>) = (\A i \in 1..3 : LET s == RSection(a, i) IN s.reach /\ ~s.err)
  \* a message cut off inside its question section never answers, and is
  \* never answered by, the message it was cut from
  /\ (fam # "H" /\ Len(b) < Len(a) /\ b = SubSeq(a, 1, Len(b)) /\ y.err) =>
        (~IsAnswerV(x, y) /\ ~IsAnswerV(y, x))
  \* the view's first / sole question is Wire's
  /\ HasFirst(x) = FirstQuestion(a).ok /\ HasSole(x) = SoleQuestion(a).ok

---------------------------------------------------------------------------
(* S->I: every pair with its projection *)

DevI == INSTANCE MsgPair WITH Dev <- DevNames
Emit == Done =>
  LET dx == IF IsShort(a) \/ IsShort(b) THEN "nopanic" ELSE DevI!XfrSeq(a, b)
      dev == IF dx = "panic" THEN [D_xfr_unreachable_qtype |-> [xfrseq |-> dx]] ELSE [none |-> 0]
  IN PrintT("CASE " \o ToJson([in |-> [a |-> a, b |-> b, fam |-> fam], exp |-> PairProj(a, b), dev |-> dev]))
=============================================================================
