CONSTANTS
  Dev = {"D_fwd_cmp_byte_suffix"}
  Tier = 1
SPECIFICATION Spec
INVARIANT LawPairs
CHECK_DEADLOCK FALSE
