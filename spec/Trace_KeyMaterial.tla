------------------------- MODULE Trace_KeyMaterial -------------------------
(* I->S: a recorded run of the real key-material functions (one event per  *)
(* call, random inputs far beyond the model-checking constants) must be a  *)
(* behaviour of KeyMaterial.tla.  The first event names the deviations     *)
(* that are open (known findings): the specification is instantiated with  *)
(* them, so a repaired defect is validated against the ideal.              *)
EXTENDS TLC, Json, IOUtils, Sequences, Naturals

Rec == ndJsonDeserialize(IOEnv.TRACE)
OpenDevs == {Rec[1].open[i] : i \in 1..Len(Rec[1].open)}
Names8 == <<"Modulus", "PublicExponent", "PrivateExponent", "Prime1",
            "Prime2", "Exponent1", "Exponent2", "Coefficient">>
K == INSTANCE KeyMaterial WITH Dev <- OpenDevs, RsaFields <- Names8

VARIABLES l, anch
tvars == <<l, anch>>

IsEv(e) == l <= Len(Rec) /\ Rec[l].ev = e /\ l' = l + 1

TInit == l = 1 /\ anch = K!AInit

T_Devs == IsEv("devs") /\ UNCHANGED anch
T_KeyTag == /\ IsEv("keytag")
            /\ LET r == Rec[l] IN
               /\ K!KeyTag(r.key) = r.tag
               /\ K!ImplKeyTag(r.key) = r.tag
               /\ K!IsZoneKey(r.key.flags) = r.zone
               /\ K!IsRevoked(r.key.flags) = r.revoked
               /\ K!IsSep(r.key.flags) = r.sep
            /\ UNCHANGED anch
T_Ds == /\ IsEv("ds")
        /\ K!DsInput(Rec[l].owner, Rec[l].key) = Rec[l].input
        /\ Rec[l].match = TRUE
        /\ UNCHANGED anch
T_Priv == /\ IsEv("priv")
          /\ K!ReadPriv(Rec[l].file) = Rec[l].res
          /\ K!PrivOracle(Rec[l].file) = Rec[l].res
          /\ UNCHANGED anch
T_Pub == /\ IsEv("pub")
         /\ Rec[l].res = [ok |-> K!ImplPub(Rec[l].text)]
         /\ (Rec[l].res.ok => K!PubAccepts(Rec[l].text))     \* nothing outside the grammar is read
         /\ UNCHANGED anch
T_New == IsEv("anew") /\ anch' = K!AInit
T_Add == /\ IsEv("add")
         /\ Rec[l].res = "ok"
         /\ anch' = K!AddRecs(anch, Rec[l].recs)
T_Find == /\ IsEv("find")
          /\ K!FoundOwner(anch, Rec[l].name) = Rec[l].found
          /\ K!FindOk(anch, Rec[l].name)
          /\ UNCHANGED anch

TNext == T_Devs \/ T_KeyTag \/ T_Ds \/ T_Priv \/ T_Pub \/ T_New \/ T_Add \/ T_Find
TSpec == TInit /\ [][TNext]_tvars

AnchorsWellFormed == K!OneAnchorPerOwner(anch)

Accepted ==
  LET d == TLCGet("stats").diameter
  IN IF d = Len(Rec) + 1 THEN TRUE
     ELSE /\ PrintT("TRACE_REJECTED " \o ToJson([matched |-> d - 1, total |-> Len(Rec),
                      event |-> IF d <= Len(Rec) THEN Rec[d] ELSE [ev |-> "none"]]))
          /\ FALSE
=============================================================================
