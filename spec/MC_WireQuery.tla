--------------------------- MODULE MC_WireQuery ---------------------------
(* Enumeration of (type bitmap value x queried type) for WireQuery.tla.     *)
(* Phase 1 chooses the first window (number 0 / 1 / 255, EVERY length        *)
(* 1..32, sparse / dense / mixed octets) or a malformed bitmap; phase 2 the  *)
(* record type (NSEC / NSEC3 with salt and hash shapes) and further windows. *)
(* Every case queries all 256 types of every present window's block (that    *)
(* includes the 8 types just past the window's last octet) and of absent     *)
(* neighbour blocks.                                                         *)
EXTENDS WireQuery, TLC, Json

CONSTANTS Big

VARIABLES ph, ws, bad, rt, salt, hash
vars == <<ph, ws, bad, rt, salt, hash>>

Lens == 1..32
Nums1 == {0, 1, 255}
Pats == {"sparse", "dense", "mixed"}
Octs(len, pat) ==
  [i \in 1..len |-> CASE pat = "sparse" -> IF i = len THEN 1 ELSE 0
                      [] pat = "dense" -> 255
                      [] OTHER -> IF i = len THEN 128 + ((37 * i) % 128) ELSE (37 * i) % 256]
Win(n, len, pat) == [n |-> n, o |-> Octs(len, pat)]

Lens2 == IF Big THEN Lens ELSE {1, 2, 7, 8, 16, 27, 31, 32}
\* malformed: window of 0 octets, of 33, cut short, a lone octet, a good
\* window followed by a cut one
BadWires == { <<0, 0>>, <<0, 33>> \o [i \in 1..33 |-> 255], <<0, 6, 64, 1, 0, 0, 0>>, <<0>>,
              <<0, 1, 64, 1>>, <<0, 1, 64, 1, 0>>, <<0, 1, 64, 2, 1>>, <<0, 1, 64, 2, 2, 255>> }

Init == ph = 0 /\ ws = <<>> /\ bad = <<>> /\ rt = 0 /\ salt = <<>> /\ hash = <<>>

Phase1 ==
  /\ ph = 0 /\ ph' = 1 /\ UNCHANGED <<rt, salt, hash>>
  /\ \/ \E n \in Nums1, len \in Lens, p \in Pats : ws' = <<Win(n, len, p)>> /\ bad' = <<>>
     \/ ws' = <<>> /\ bad' = <<>>
     \/ \E b \in BadWires : bad' = b /\ ws' = <<>>

Salts == { <<>>, <<171>>, [i \in 1..8 |-> i] }
Hashes == { [i \in 1..20 |-> 200 + i], <<7>>, [i \in 1..32 |-> i] }
Phase2 ==
  /\ ph = 1 /\ ph' = 2 /\ UNCHANGED bad
  /\ \/ rt' = 47 /\ UNCHANGED <<ws, salt, hash>>
     \/ rt' = 50 /\ UNCHANGED ws /\ \E s \in Salts, h \in Hashes : salt' = s /\ hash' = h
                 /\ (Big \/ Len(s) = 1 \/ Len(ws) = 0 \/ (Len(ws) > 0 /\ Len(ws[1].o) \in {6, 32}))
     \* a second window (and a third) behind a first one of number 0
     \/ /\ Len(ws) = 1 /\ ws[1].n = 0 /\ Len(ws[1].o) \in {1, 6, 32} /\ bad = <<>>
        /\ (Big \/ ws[1].o[1] # 37)
        /\ rt' \in {47, 50} /\ (Big \/ rt' = 47 \/ Len(ws[1].o) = 6) /\ salt' = <<171>> /\ hash' = <<7>>
        /\ \E n \in {1, 2, 255}, len \in Lens2, p \in {"sparse", "dense"} :
             \/ ws' = ws \o <<Win(n, len, p)>>
             \/ n = 2 /\ len \in {1, 7, 32} /\ ws' = ws \o <<Win(n, len, p), Win(255, 33 - len, "mixed")>>

Next == Phase1 \/ Phase2
Spec == Init /\ [][Next]_vars
Done == ph = 2

BMW == IF bad # <<>> THEN bad ELSE BMWire(ws)
\* blocks queried: every present one and absent neighbours
BlockSet == { ws[i].n : i \in 1..Len(ws) } \cup {0}
            \cup { b \in 0..255 : \E i \in 1..Len(ws) : b = ws[i].n + 1 }
Blocks == LET S == BlockSet IN SelectSeq([k \in 1..256 |-> k - 1], LAMBDA b : b \in S)

\* arguments the hashed owner / the salt are compared with: themselves, cut
\* by one octet, one octet longer, empty, a different octet of the same length
ArgsOf(x) == <<x, IF x = <<>> THEN <<>> ELSE SubSeq(x, 1, Len(x) - 1), x \o <<0>>, <<>>,
               IF x = <<>> THEN <<1>> ELSE [x EXCEPT ![Len(x)] = (x[Len(x)] + 1) % 256]>>

---------------------------------------------------------------------------
QueryLaws == (Done /\ bad = <<>>) =>
  LET qs == BlockTypes(Blocks)
      it == IterTypes(ws)
      S == TypesOf(ws)
  IN /\ ParseBM(BMWire(ws)) = [ok |-> TRUE, ws |-> ws]
     /\ RFCValid(ws)
     \* the declarative answer is the operational one
     /\ \A i \in 1..Len(qs) : (qs[i] \in S) = ContainsOp(ws, qs[i])
     \* iteration: strictly ascending, exactly the members
     /\ \A i \in 1..Len(it) - 1 : it[i] < it[i + 1]
     /\ { it[i] : i \in 1..Len(it) } = S
     /\ Len(it) = Cardinality(S)
     \* nothing past a window's last octet is a member
     /\ \A k \in 1..Len(ws) : \A t \in (ws[k].n * 256 + 8 * Len(ws[k].o)) .. (ws[k].n * 256 + 255) :
          t \notin S /\ ~ContainsOp(ws, t)
     \* the last type of every window is one
     /\ \A k \in 1..Len(ws) : \E t \in TypesIn(ws[k]) : (t % 256) \div 8 = Len(ws[k].o) - 1
BadLaws == (Done /\ bad # <<>>) => ~ParseBM(bad).ok

Emit == Done =>
  LET rdata == IF rt = 47 THEN NsecRdata(<<1, 97, 0>>, BMW) ELSE Nsec3Rdata(salt, hash, BMW)
      base == QueryProj(BMW, Blocks)
      exp == IF base.parse = "err" \/ rt = 47 THEN base
             ELSE [parse |-> "ok", empty |-> base.empty, iter |-> base.iter, contains |-> base.contains,
                   hasheq |-> [i \in 1..5 |-> OctEq(hash, ArgsOf(hash)[i])],
                   salteq |-> [i \in 1..5 |-> OctEq(salt, ArgsOf(salt)[i])]]
  IN PrintT("CASE " \o ToJson([in |-> [m |-> MsgOf(rt, rdata), rt |-> rt, blocks |-> Blocks,
                                       hargs |-> IF rt = 50 THEN ArgsOf(hash) ELSE <<>>,
                                       sargs |-> IF rt = 50 THEN ArgsOf(salt) ELSE <<>>],
                               exp |-> exp, dev |-> [none |-> 0]]))
=============================================================================
