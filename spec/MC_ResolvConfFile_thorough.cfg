CONSTANTS
  MaxLines = 4
  Pool = "core"
SPECIFICATION Spec
INVARIANT I_StepLaws
INVARIANT I_FinalLaws
INVARIANT I_WholeFile
INVARIANT I_LastWins

CHECK_DEADLOCK FALSE
