----------------------------- MODULE MC_RevName -----------------------------
(* Model-checking wrapper and S->I generator for RevName: the builder steps  *)
(* over boundary addresses, one-octet sweeps (all 256 values at every        *)
(* position) and nibble patterns.                                            *)
EXTENDS RevName, TLC, Json

CONSTANTS Bnd4,        \* boundary octets for the IPv4 cross product
          Full         \* TRUE: sweep all 256 values per position, else every 5th + boundaries

VARIABLES v, o, ans, n, b
vars == <<v, o, ans, n, b>>

SweepVals == IF Full THEN 0..255 ELSE {x \in 0..255 : x % 5 = 0 \/ x \in {1, 9, 10, 11, 99, 100, 101, 199, 200, 254, 255}}
Base4 == <<192, 0, 2, 77>>
V4Set == {<<a, bb, c, d>> : a \in Bnd4, bb \in Bnd4, c \in Bnd4, d \in Bnd4}
         \cup {[Base4 EXCEPT ![p] = x] : p \in 1..4, x \in SweepVals}
Pattern6 == { [k \in 1..16 |-> 0], [k \in 1..16 |-> 255],
              [k \in 1..16 |-> 16 * (k - 1) + (16 - k)],              \* every nibble position identifiable
              <<67, 33, 0, 0, 0, 1, 0, 2, 0, 3, 0, 4, 5, 103, 137, 171>>,   \* RFC 3596 2.5: 4321:0:1:2:3:4:567:89ab
              <<32, 1, 13, 184, 0, 0, 0, 0, 0, 0, 0, 0, 0, 0, 0, 1>>,
              <<0, 0, 0, 0, 0, 0, 0, 0, 0, 0, 255, 255, 192, 0, 2, 1>> }
Base6 == [k \in 1..16 |-> 16 * (k - 1) + (16 - k)]
V6Set == Pattern6 \cup {[Base6 EXCEPT ![p] = x] : p \in 1..16, x \in SweepVals}

\* the answer is a function of the address so that every kind occurs
AnsOf(oo) == LET s == SumSeq(oo) % 7
             IN CASE s = 0 -> <<"err", 0>> [] s = 1 -> <<"alias", 2>> [] s = 2 -> <<"foreign", 1>>
                  [] s = 3 -> <<"ptr", 0>> [] s = 4 -> <<"ptr", 3>> [] OTHER -> <<"ptr", 1>>

Init == /\ \/ (v = 4 /\ o \in V4Set)
           \/ (v = 6 /\ o \in V6Set)
        /\ ans = AnsOf(o)[1] /\ n = AnsOf(o)[2]
        /\ b = BInit

A_Step == b.pc <= Steps(v) /\ ~b.err /\ b' = Step(v, o, b) /\ UNCHANGED <<v, o, ans, n>>
Done == (b.pc > Steps(v) \/ b.err) /\ UNCHANGED vars
Next == A_Step
Spec == Init /\ [][Next \/ Done]_vars

I_BuiltIsRfcName == BuiltIsRfcName(v, o, b)
I_NeverTooLong == NeverTooLong(b)
I_Invertible == Invertible(v, o)
I_OctetLaws == (b.pc = 1 /\ v = 4 /\ o = Base4) => OctetLaws            \* evaluated in one state
I_Injective == (b.pc = 1 /\ v = 4 /\ o = Base4) =>
                 /\ Cardinality({RevV4(x) : x \in V4Set}) = Cardinality(V4Set)
                 /\ Cardinality({RevV6(x) : x \in V6Set}) = Cardinality(V6Set)

GenOnlyInit == b.pc = 1
Emit == b.pc = 1 =>
  PrintT("CASE " \o ToJson([in |-> [fam |-> "rev", v |-> v, o |-> o, ans |-> ans, n |-> n],
                            exp |-> [q |-> RevName(v, o), qtype |-> "PTR", nq |-> 1, res |-> PtrResult(ans, n)]]))
=============================================================================
