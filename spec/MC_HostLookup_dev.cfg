CONSTANTS
  Dev = {"D_host_canonical_loop_panic"}
  MaxA = 1
  Max6 = 1
SPECIFICATION Spec
INVARIANT I_NoPanic
CHECK_DEADLOCK FALSE
