CONSTANTS
  Keys <- MCKeys
  KType <- MCKType
  KAlg <- MCKAlg
  MaxTTL = 1
  Dev <- OpenDevs
  KeySeq <- KS_kzc
  MaxList = 2
  Ops = {}
  SetKeys = {}
  Rts <- RollTypes
  AltTag = {}
  OddLists = FALSE
  WellTyped = TRUE
  NoopRolls = FALSE
SPECIFICATION Spec
VIEW GenView
ACTION_CONSTRAINT EmitT
CHECK_DEADLOCK FALSE
