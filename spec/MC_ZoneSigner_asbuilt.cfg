CONSTANTS
  Dev = {"D_sign_into_skips_zone"}
  MaxK = 2
  Thorough = FALSE
SPECIFICATION Spec
INVARIANT DoneMatchesOracle
INVARIANT ErrMatchesOracle
INVARIANT NoSpuriousErr
INVARIANT PrefixSafe
INVARIANT CutStateCorrect
INVARIANT Consequences
INVARIANT ClosureHolds
CHECK_DEADLOCK FALSE
