CONSTANTS
  Dev = {}
SPECIFICATION TSpec
INVARIANTS RoutesToLongest
POSTCONDITION Accepted
CHECK_DEADLOCK FALSE
