------------------------- MODULE Gen_ClientDgramPar -------------------------
(* Model checking and S->I generation for ClientDgramPar: one case per      *)
(* transition of the state graph (path to the source state, then the        *)
(* operation) with the projection after every operation: sockets opened,    *)
(* sockets open now (= requests holding a permit), requests completed, and  *)
(* what the getters of the configuration object say.                        *)
EXTENDS ClientDgramPar, Json

CONSTANTS MaxOps
VARIABLE hist
gvars == <<pvars, hist>>

\* configuration scripts: one tick per attempt
P2(mp, mr) == DgScript("new", <<Call("set_read_timeout", TickMs), Call("set_max_retries", mr),
                                Call("set_max_parallel", mp)>>)
\* max_parallel at, just inside and just outside both ends of its range
\* (a small and a large burst tell them apart), never set, set twice, by
\* every route
ParConfs ==
       {P2(mp, 0) : mp \in {0, 1, 2, 3, 999, 1000, 1001, 65535}}
  \cup {P2(mp, 1) : mp \in {1, 2}}
  \cup {DgScript(r, <<Call("set_max_retries", 0)>>) : r \in {"new", "default"}}
  \cup {DgScript("default", <<Call("set_max_parallel", 5000), Call("set_max_retries", 0),
                              Call("set_read_timeout", TickMs), Call("set_max_parallel", 2)>>)}
\* without a configuration object: 100 at a time, six attempts each
ParConfsT == ParConfs \cup {DgScript("conn_new", <<>>), P2(100, 2), P2(101, 0)}

Proj(p) == [nsock |-> p.nsock, open |-> InFlight(p), ndone |-> p.ndone, eff |-> p.conf.eff]

GenInit == PInit /\ hist = <<>>
GenNext == /\ Len(hist) < MaxOps
           /\ \E o \in POpsOf(PCur) :
                LET t == PApply(PCur, o)
                IN PSet(t) /\ hist' = Append(hist, [op |-> o, proj |-> Proj(t)])
GenSpec == GenInit /\ [][GenNext]_gvars

OpJson(o) == IF o.op = "burst" THEN [op |-> "burst", n |-> o.n] ELSE [op |-> "tick"]
CaseOf(h) == ToJson([in |-> [kind |-> "dgpar", cfg |-> [conf |-> pconf.sc, tickms |-> TickMs],
                             ops |-> [i \in 1..Len(h) |-> OpJson(h[i].op)]],
                     exp |-> [i \in 1..Len(h) |-> h[i].proj]])
EmitTransition == PrintT("CASE " \o CaseOf(hist'))
GenView == pvars
=============================================================================
