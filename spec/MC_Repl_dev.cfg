CONSTANTS
  Dev <- EnvDev
  XDev <- XEnvDev
  Hists <- HistsB
  Bases = {14}
  Reqs <- ReqsB
  Keys = {"good"}
  OldC <- OldC9
  MaxMsgs = 2
  LaterQ = {FALSE}
  FaultKinds = {"forge", "strip", "fliprec"}
  MaxFaults = 2
  Bursts = {}
  Prim = "scripted"
SPECIFICATION Spec
INVARIANT PublishedLegit
INVARIANT Emit
CHECK_DEADLOCK FALSE
