CONSTANTS
  Dev = {}
  RecU = {5, 13}
  TtlU = {0}
  Styles = {"rfc"}
  MaxC = 1
  Kinds = {"ixfr2"}
  MaxMsgs = 3
  FaultKinds = {"none", "drop", "dup", "swap", "trunc", "csoa"}
  LaterQ = {FALSE}
SPECIFICATION Spec
INVARIANT StepwiseIsRun
INVARIANT AxfrFidelity
INVARIANT IxfrFidelity
INVARIANT HonestDenotesHistory
INVARIANT DiffApply
INVARIANT PublishedIsLegit
INVARIANT FaultRejectedOrHarmless
INVARIANT RolledBack
CHECK_DEADLOCK FALSE
