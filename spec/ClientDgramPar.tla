--------------------------- MODULE ClientDgramPar ---------------------------
(* The datagram client transport with many requests at once:               *)
(* net::client::dgram, Connection::handle_request_impl up to the transmit   *)
(* loop.  Every request first takes a permit of the connection's semaphore  *)
(* (max_parallel permits, handed out in the order of asking); "Once this    *)
(* many number of requests are currently outstanding, additional requests   *)
(* will wait."  The requests themselves are ClientDgram's, in the scenario  *)
(* in which nothing ever arrives: 1 + max_retries attempts (a fresh socket  *)
(* each), read_timeout apart, then a timeout error; the permit is given     *)
(* back when the request completes.                                         *)
(*                                                                          *)
(* Requests that start together stay together, so the state keeps cohorts   *)
(* [n requests, attempt, ticks since the attempt's deadline was set].       *)
(* The budget is the configured one (ClientConfig: DgScript).               *)
EXTENDS ClientConfig, TLC

CONSTANTS PConfs,    \* the configuration scripts (DgScript) a run may start from
          TickMs,    \* milliseconds per tick
          Bursts,    \* how many requests a caller may submit at once
          MaxBursts  \* bound on the number of such bursts

VARIABLES pconf,   \* [sc, eff, rd (read timeout in ticks), mr, mp]
          run,     \* cohorts holding permits, oldest first: [n, att, e]
          wait,    \* requests waiting for a permit
          nsock,   \* sockets opened so far (one per attempt)
          ndone,   \* requests completed (nothing arrives: all with a timeout)
          nsub,    \* requests submitted
          nburst
pvars == <<pconf, run, wait, nsock, ndone, nsub, nburst>>

PCur == [conf |-> pconf, run |-> run, wait |-> wait, nsock |-> nsock, ndone |-> ndone,
         nsub |-> nsub, nburst |-> nburst]
PSet(p) == /\ pconf' = p.conf /\ run' = p.run /\ wait' = p.wait /\ nsock' = p.nsock
           /\ ndone' = p.ndone /\ nsub' = p.nsub /\ nburst' = p.nburst

PConfOf(sc) == LET eff == DgRun(sc)
               IN [sc |-> sc, eff |-> eff, rd |-> TicksUp(eff.rto, TickMs), mr |-> eff.mr,
                   mp |-> eff.mp]
PInitState(sc) == [conf |-> PConfOf(sc), run |-> <<>>, wait |-> 0, nsock |-> 0, ndone |-> 0,
                   nsub |-> 0, nburst |-> 0]

RECURSIVE SumN(_)
SumN(sq) == IF sq = <<>> THEN 0 ELSE Head(sq).n + SumN(Tail(sq))
InFlight(p) == SumN(p.run)
Min2p(a, b) == IF a <= b THEN a ELSE b

\* the semaphore: waiting requests take the free permits; each opens its
\* first socket
PAdmit(p) ==
  LET a == Min2p(p.wait, p.conf.mp - InFlight(p))
  IN IF a <= 0 THEN p
     ELSE [p EXCEPT !.run = Append(@, [n |-> a, att |-> 1, e |-> 0]),
                    !.wait = @ - a, !.nsock = @ + a]

\* a caller submits k requests
PBurstOp(p, k) == PAdmit([p EXCEPT !.wait = @ + k, !.nsub = @ + k, !.nburst = @ + 1])

\* one tick for one cohort: <<what is left of it, sockets opened, requests done>>
PCohortTick(p, c) ==
  IF c.e + 1 < p.conf.rd THEN <<[c EXCEPT !.e = @ + 1], 0, 0>>
  ELSE IF c.att = 1 + p.conf.mr THEN <<[c EXCEPT !.n = 0], 0, c.n>>       \* timeout error
  ELSE <<[c EXCEPT !.att = @ + 1, !.e = 0], c.n, 0>>                     \* next attempt
RECURSIVE PTickAll(_, _)
PTickAll(p, cs) ==
  IF cs = <<>> THEN [p EXCEPT !.run = <<>>]
  ELSE LET r  == PCohortTick(p, Head(cs))
           p1 == PTickAll(p, Tail(cs))
       IN [p1 EXCEPT !.run = (IF r[1].n > 0 THEN <<r[1]>> ELSE <<>>) \o @,
                     !.nsock = @ + r[2], !.ndone = @ + r[3]]
PTickOp(p) == PAdmit(PTickAll(p, p.run))

PMkOp(op, n) == [op |-> op, n |-> n]
PApply(p, o) == IF o.op = "burst" THEN PBurstOp(p, o.n) ELSE PTickOp(p)
POpsOf(p) ==      (IF p.nburst < MaxBursts THEN {PMkOp("burst", k) : k \in Bursts} ELSE {})
             \cup (IF p.run # <<>> THEN {PMkOp("tick", 0)} ELSE {})

--------------------------------------------------------------------------
PInit == /\ pconf \in {PConfOf(sc) : sc \in PConfs}
         /\ run = <<>> /\ wait = 0 /\ nsock = 0 /\ ndone = 0 /\ nsub = 0 /\ nburst = 0
SubmitBurst == nburst < MaxBursts /\ \E k \in Bursts : PSet(PBurstOp(PCur, k))
PTick       == run # <<>> /\ PSet(PTickOp(PCur))
PNext == SubmitBurst \/ PTick
PSpec == PInit /\ [][PNext]_pvars
PLiveSpec == PSpec /\ WF_pvars(PTick)

--------------------------------------------------------------------------
(* the property *)
\* never more requests outstanding than the caller allowed - the limit being
\* the configured one (asked for, capped to the range)
PLimitOf(p) == /\ InFlight(p) <= p.conf.mp
               /\ DgHonoured(p.conf.sc.calls, p.conf.eff)
               /\ p.conf.mp = p.conf.eff.mp /\ p.conf.mr = p.conf.eff.mr
\* nobody waits while a permit is free
PNoStarveOf(p) == p.wait > 0 => InFlight(p) = p.conf.mp
\* every request is waiting, in flight or done; each attempt has its own
\* socket and there are at most 1 + max_retries of them per request
PAccountOf(p) == /\ p.nsub = p.wait + InFlight(p) + p.ndone
                 /\ p.nsock <= (1 + p.conf.mr) * (InFlight(p) + p.ndone)
                 /\ p.nsock >= InFlight(p) + p.ndone
                 /\ \A i \in 1..Len(p.run) : /\ p.run[i].att <= 1 + p.conf.mr
                                            /\ p.run[i].e < p.conf.rd /\ p.run[i].n > 0
PLimit   == PLimitOf(PCur)
PNoStarve == PNoStarveOf(PCur)
PAccount == PAccountOf(PCur)
\* every request completes (the clock runs; callers stop submitting)
PCompletion == <>[](ndone = nsub /\ wait = 0)
=============================================================================
