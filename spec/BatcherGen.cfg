CONSTANTS
  Sizes = {25, 30, 40, 75, 100}
  Hs = {25}
  Ls = {99, 101, 131}
  RRs = {0, 1, 2}
  MaxLen = 9
  MaxOps = 5
SPECIFICATION GSpec
INVARIANT Emit
INVARIANT B1_ExactlyOnceInOrder
INVARIANT B2_Bounded
CHECK_DEADLOCK FALSE
