CONSTANTS
  Dev = {}
  MaxReq = 2
  RT = 1
  DefRT = 2
  IdleCfg = 0
  RqCap = 8
  ChanCap = 8
  MaxFrames = 2
  MaxQ = 1
  MaxId = 0
  KaVals = {}
  XQs = {501, 601}
  XfrIds = {0, 1}
  XfrAll = TRUE
  QVars = {}
  EndKinds = {"eof"}
  Frames <- MCFrames
SPECIFICATION MacroSpec
VIEW View
INVARIANT OwnAnswer
INVARIANT AtMostOnce
INVARIANT NoCross
INVARIANT SlotTableSound
INVARIANT NothingLost
INVARIANT TimerArmed
INVARIANT MacroQuiescent
CHECK_DEADLOCK FALSE
