------------------------------- MODULE Names -------------------------------
(* The abstract domain-name algebra (RFC 1035 3.1, RFC 4034 6.1, RFC 4592). *)
(* A label is a non-empty octet sequence of at most 63 octets.  An absolute *)
(* name is a sequence of labels, leftmost label first; the root label is    *)
(* implicit (the root name is <<>>).  A relative name is the same thing     *)
(* without the implicit root.                                               *)
EXTENDS Octets

IsLabel(l) == Len(l) >= 1 /\ Len(l) <= 63 /\ \A i \in 1..Len(l) : l[i] \in Octet

\* wire length of an absolute name (with root octet) / of a relative name
WireLenAbs(n) == 1 + SumSeq([i \in 1..Len(n) |-> 1 + Len(n[i])])
WireLenRel(n) == SumSeq([i \in 1..Len(n) |-> 1 + Len(n[i])])

ValidAbs(n) == (\A i \in 1..Len(n) : IsLabel(n[i])) /\ WireLenAbs(n) <= 255
ValidRel(n) == (\A i \in 1..Len(n) : IsLabel(n[i])) /\ WireLenRel(n) <= 254

\* uncompressed wire format
RECURSIVE ToWireRel(_)
ToWireRel(n) == IF n = <<>> THEN <<>> ELSE <<Len(Head(n))>> \o Head(n) \o ToWireRel(Tail(n))
ToWireAbs(n) == ToWireRel(n) \o <<0>>

\* parse an *uncompressed* absolute name starting at 1-based position p of s;
\* result [ok |-> TRUE, name, next] or [ok |-> FALSE]
RECURSIVE FromWireAt(_, _, _, _)
FromWireAt(s, p, acc, used) ==
  IF p > Len(s) THEN [ok |-> FALSE]
  ELSE LET b == s[p] IN
    IF b = 0 THEN (IF used + 1 > 255 THEN [ok |-> FALSE]
                   ELSE [ok |-> TRUE, name |-> acc, next |-> p + 1])
    ELSE IF b > 63 THEN [ok |-> FALSE]
    ELSE IF p + b > Len(s) THEN [ok |-> FALSE]
    ELSE IF used + 1 + b + 1 > 255 THEN [ok |-> FALSE]
    ELSE FromWireAt(s, p + 1 + b, Append(acc, SubSeq(s, p + 1, p + b)), used + 1 + b)
FromWire(s, p) == FromWireAt(s, p, <<>>, 0)

\* case-insensitive equality
LabelEq(a, b) == LowerSeq(a) = LowerSeq(b)
NameEq(m, n) == Len(m) = Len(n) /\ \A i \in 1..Len(m) : LabelEq(m[i], n[i])
LowerName(n) == [i \in 1..Len(n) |-> LowerSeq(n[i])]

\* RFC 4034 6.1 canonical order: labels compared as lower-cased octet
\* strings, names compared label by label from the *rightmost* label, a name
\* that runs out of labels first sorts first.  -1 / 0 / 1
CanonLabelCmp(a, b) == LexCmp(LowerSeq(a), LowerSeq(b))

RECURSIVE CanonNameCmpFrom(_, _, _)
CanonNameCmpFrom(m, n, k) ==     \* k = number of labels already compared from the right
  IF k >= Len(m) /\ k >= Len(n) THEN 0
  ELSE IF k >= Len(m) THEN -1
  ELSE IF k >= Len(n) THEN 1
  ELSE LET c == CanonLabelCmp(m[Len(m) - k], n[Len(n) - k])
       IN IF c # 0 THEN c ELSE CanonNameCmpFrom(m, n, k + 1)
CanonNameCmp(m, n) == CanonNameCmpFrom(m, n, 0)

\* tree relations on absolute names
Parent(n) == Tail(n)
IsSuffixOf(s, n) == Len(s) <= Len(n) /\ NameEq(SubSeq(n, Len(n) - Len(s) + 1, Len(n)), s)
IsSubdomain(n, z) == IsSuffixOf(z, n)             \* n at or below z
StrictlyBelow(n, z) == IsSuffixOf(z, n) /\ Len(n) > Len(z)
Suffix(n, k) == SubSeq(n, Len(n) - k + 1, Len(n)) \* rightmost k labels
Ancestors(n) == {Suffix(n, k) : k \in 0..Len(n)}  \* includes n and the root
Star == <<42>>
IsWildcard(n) == Len(n) >= 1 /\ n[1] = Star
WildcardAt(z) == <<Star>> \o z
\* RRSIG "labels" field: label count without root and without a leading "*"
RrsigLabels(n) == IF IsWildcard(n) THEN Len(n) - 1 ELSE Len(n)
=============================================================================
