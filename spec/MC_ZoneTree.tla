---------------------------- MODULE MC_ZoneTree ----------------------------
(* Model-checking wrapper for ZoneTree.tla: the name tree                   *)
(*   .   com.   example.com.   sub.example.com.   a.sub.example.com.   org. *)
(* in two classes, with case variants and names that are never an apex.     *)
EXTENDS ZoneTree

lcom == <<99, 111, 109>>                       \* "com"
lCOM == <<67, 79, 77>>                         \* "COM"
lexample == <<101, 120, 97, 109, 112, 108, 101>>   \* "example"
lExample == <<69, 120, 65, 109, 112, 76, 101>>     \* "ExAmpLe"
lsub == <<115, 117, 98>>                       \* "sub"
la == <<97>>                                   \* "a"
lA == <<65>>                                   \* "A"
lorg == <<111, 114, 103>>                      \* "org"
lwww == <<119, 119, 119>>                      \* "www"
lnet == <<110, 101, 116>>                      \* "net"
lexampl == <<101, 120, 97, 109, 112, 108>>     \* "exampl" (a label prefix, not a suffix)

nRoot == <<>>
nCom == <<lcom>>
nExample == <<lexample, lcom>>
nSub == <<lsub, lexample, lcom>>
nASub == <<la, lsub, lexample, lcom>>
nOrg == <<lorg>>
nExampleUC == <<lExample, lCOM>>               \* "ExAmpLe.COM."
nASubUC == <<lA, lsub, lExample, lcom>>        \* "A.sub.ExAmpLe.com."

Apex6 == {nRoot, nCom, nExample, nSub, nASub, nOrg}
Apex4 == {nRoot, nExample, nSub, nOrg}
Variants == {nExampleUC, nASubUC}
\* names that are never an apex: below, beside and above the zones
Probes == {<<lwww, lexample, lcom>>, <<lwww, lExample, lCOM>>, <<lwww, la, lsub, lexample, lcom>>,
           <<lnet>>, <<lexampl, lcom>>, <<lwww, lorg>>, <<lsub, lorg>>}

MCClasses == {"IN", "CH"}
MCApexQuick == Apex6 \cup {nExampleUC}
MCArgQuick == Apex6 \cup {nExampleUC}
MCQQuick == Apex6 \cup Variants \cup Probes
MCApexSmall == Apex4 \cup {nExampleUC}
MCArgSmall == Apex4 \cup {nExampleUC}

\* `res` only records the last call; the invariants do not read it
View == <<tree, nops>>
=============================================================================
