------------------------------- MODULE Server -------------------------------
(***************************************************************************)
(* C16 -- DNS server transports of domain (src/net/server).                *)
(*                                                                         *)
(* Part 1  size discipline: the three places that implement it together    *)
(*         (middleware/edns.rs preprocess+postprocess, middleware/         *)
(*         mandatory.rs truncate+postprocess, util.rs OPT helpers) as pure *)
(*         operators over abstract messages, and `Allowed` written from    *)
(*         the property text.                                              *)
(* Part 1b what the stack decides before the service sees a request        *)
(*         (mandatory.rs / edns.rs / cookies.rs preprocess, with every     *)
(*         public constructor and switch of the three middleware services *)
(*         as configuration), for every hostile request shape; cookie      *)
(*         timestamps in RFC 1982 arithmetic on 2 x 16-bit limbs.           *)
(* Part 1c how a response comes to be: the builder route, the layout of the *)
(*         additional section and the last builder operations (recipes);    *)
(*         the length prefix a stream transport sends in front of it.       *)
(* Part 2  the stream connection machine (connection.rs + invoker.rs):     *)
(*         the biased select loop, the spawned per-request tasks, the      *)
(*         bounded result queue, idle / write timers, flush on shutdown.   *)
(*         Written functionally (state record -> state record) so that the *)
(*         same transitions serve the fine-grained model (every            *)
(*         interleaving of environment and internal steps), the case       *)
(*         generator (environment step, then run to quiescence, which is   *)
(*         what a current-thread runtime does) and the trace validator.    *)
(* Part 3  the datagram machine (dgram.rs).                                *)
(*                                                                         *)
(* Named deviations (DESIGN 2.6):                                          *)
(*  D_no_edns_uses_server_hint  request without OPT over UDP: truncate     *)
(*        uses the transport's hint (default 1232) instead of 512          *)
(*  D_trunc_opt_over_limit      truncation keeps the response's OPT record *)
(*        whole: header+question+OPT can still exceed the limit            *)
(*  D_queue_full_drop           outside a transaction a full result queue  *)
(*        drops the response (connection.rs do_enqueue_response)           *)
(***************************************************************************)
EXTENDS Octets, FiniteSets, TLC

CONSTANT Dev

---------------------------------------------------------------------------
(* Part 1: size discipline                                                 *)

MinUdp == 512           \* mandatory.rs MINIMUM_RESPONSE_BYTE_LEN
NoV == 70000           \* "None": no client OPT size / no server hint (cfg files cannot say -1)
OptMin == 11            \* root name + type + class + ttl + rdlen
KeepAliveLen == 6       \* option code + length + 2 octets timeout

(* A request:  [udp, edns, csize, qlen]; csize only meaningful with edns.  *)
(* A response: [len, optlen, body, tc] with len = 12 + qlen + body + optlen; *)
(* body = octets of answer/authority/non-OPT additional records.           *)

\* edns.rs preprocess, UDP branch: "values lower than 512 MUST be treated
\* as equal to 512"; server hint clamped into [512, client]; the smaller.
Negotiate(csize, hint) ==
  LET cl == Max(MinUdp, csize)
      sh == IF hint = NoV THEN NoV ELSE Max(MinUdp, Min(hint, cl))
  IN IF sh = NoV THEN cl ELSE Min(cl, sh)

\* EdnsMiddlewareSvc::enable(false) passes requests and responses through
\* unmodified; a request record may carry the switch (field `eon`), without
\* it the middleware is enabled (EdnsMiddlewareSvc::new)
EOn(req) == IF "eon" \in DOMAIN req THEN req.eon ELSE TRUE

\* the hint the rest of the stack sees after the EDNS middleware ran
HintAfter(req, hint) ==
  IF EOn(req) /\ req.udp /\ req.edns THEN Negotiate(req.csize, hint) ELSE hint

\* edns.rs reserve_space_for_opt
Reserve(req) ==
  IF ~req.edns \/ ~EOn(req) THEN 0
  ELSE IF req.udp THEN OptMin ELSE OptMin + KeepAliveLen

\* edns.rs postprocess (idle timeout of the stream transport is known)
EdnsPost(req, resp) ==
  IF ~EOn(req) THEN resp ELSE
  LET strip == IF ~req.edns
               THEN [resp EXCEPT !.len = @ - resp.optlen, !.optlen = 0]
               ELSE resp
      ka    == IF ~req.udp /\ req.edns
               THEN IF strip.optlen = 0
                    THEN [strip EXCEPT !.len = @ + OptMin + KeepAliveLen,
                                       !.optlen = OptMin + KeepAliveLen]
                    ELSE [strip EXCEPT !.len = @ + KeepAliveLen,
                                       !.optlen = @ + KeepAliveLen]
               ELSE strip
  IN IF req.edns /\ ka.optlen = 0
     THEN [ka EXCEPT !.len = @ + OptMin, !.optlen = OptMin]
     ELSE ka

\* mandatory.rs truncate: the limit it enforces
TruncLimit(dv, req, hintAfter) ==
  LET h == IF hintAfter = NoV THEN MinUdp ELSE hintAfter
  IN IF "D_no_edns_uses_server_hint" \in dv THEN h
     ELSE IF req.edns THEN h ELSE Min(h, MinUdp)

\* mandatory.rs truncate: TC, keep header + question + OPT
Truncate(dv, req, resp, limit) ==
  IF req.udp /\ resp.len > limit
  THEN LET keep == IF "D_trunc_opt_over_limit" \in dv
                      \/ 12 + req.qlen + resp.optlen <= limit
                   THEN resp.optlen
                   ELSE IF resp.optlen = 0 THEN 0 ELSE OptMin
       IN [len |-> 12 + req.qlen + keep, optlen |-> keep, body |-> 0,
           tc |-> TRUE, dropped |-> resp.body > 0 \/ keep < resp.optlen]
  ELSE [len |-> resp.len, optlen |-> resp.optlen, body |-> resp.body,
        tc |-> resp.tc, dropped |-> FALSE]

\* what finally leaves the stack for one service response
Final(dv, req, hint, svcResp) ==
  Truncate(dv, req, EdnsPost(req, svcResp), TruncLimit(dv, req, HintAfter(req, hint)))

\* ---- the property, from its text ----
\* "over UDP never larger than the smaller of the client's advertised EDNS
\*  size (values below 512 count as 512) and the configured limit, or 512
\*  without EDNS"
Allowed(req, hint) ==
  IF ~req.udp THEN 65535
  ELSE IF ~req.edns THEN 512
  ELSE IF hint = NoV THEN Max(512, req.csize)
  ELSE Min(Max(512, req.csize), hint)

\* the size clause is a claim about the stack the property names; with the
\* EDNS middleware switched off nobody negotiates and only the transport's
\* limit (and 512 without OPT) is enforced
UdpSizeOK(req, hint, svcResp) ==
  Final(Dev, req, hint, svcResp).len <=
    (IF EOn(req) THEN Allowed(req, hint)
     ELSE IF ~req.udp THEN 65535
     ELSE IF ~req.edns THEN 512
     ELSE IF hint = NoV THEN 512 ELSE Max(512, hint))
TcIffDroppedOK(req, hint, svcResp) ==
  LET f == Final(Dev, req, hint, svcResp)
  IN /\ f.dropped => f.tc                       \* the property
     /\ (f.tc /\ ~svcResp.tc) => f.body = 0     \* TC only comes from truncation
StillParsesOK(req, hint, svcResp) ==
  LET f == Final(Dev, req, hint, svcResp)
  IN /\ f.len = 12 + req.qlen + f.body + f.optlen
     /\ f.body >= 0 /\ f.optlen >= 0
     /\ EOn(req) => (req.edns <=> f.optlen > 0) \* RFC 6891 6.1.1 / 7

---------------------------------------------------------------------------
(* Part 1c: how a response comes to be, and its frame.                     *)
(* A service assembles its answer with a message builder atop a            *)
(* StreamTarget, whose first two octets announce the length of what        *)
(* follows; connection.rs writes as_stream_slice() verbatim.  Every builder *)
(* operation ends by refreshing the prefix (append_slice / truncate ->      *)
(* update_shim), so the frame is right whatever came last: an append        *)
(* (plain), a rewound section, a push rolled back at the push limit or at   *)
(* the 65535-octet ceiling of the target, an OPT cut off again, the OPT     *)
(* stripped by the EDNS middleware.                                         *)

Recipes0 == {"plain", "rewind", "filllimit", "fill64k", "optfail"}
Routes0  == {"mk", "new", "from", "newtgt"}     \* mk_builder_for_target, new_stream_vec /
                                                \* new_stream_bytes, StreamTarget::new, new_vec / new_bytes
ALays0   == {"none", "before", "after", "both"} \* non-OPT additional records around the OPT
ARecLen  == 15                                  \* root owner, A record
AddsOf(alay) == IF alay = "none" THEN 0 ELSE IF alay = "both" THEN 2 * ARecLen ELSE ARecLen

\* builder atop a stream target: [len, shim]
BNew == [len |-> 0, shim |-> 0]
BAppend(b, n) == [len |-> b.len + n, shim |-> b.len + n]          \* append_slice; update_shim
BCut(b, to)   == [len |-> to, shim |-> to]                        \* truncate; update_shim
\* MessageBuilder::push: append; beyond 65535 the target refuses, at the
\* limit the builder does: either way truncate back
BPush(b, n, limit) ==
  IF b.len + n > 65535 \/ b.len + n >= limit THEN BCut(BAppend(b, n), b.len) ELSE BAppend(b, n)

\* the builder operations a recipe ends with, applied to a message of n octets
RecipeEnd(recipe, n) ==
  LET b == BAppend(BNew, n)
  IN CASE recipe = "rewind"    -> BCut(BAppend(b, ARecLen), n)
       [] recipe = "filllimit" -> BPush(b, 111, n + 50)
       [] recipe = "fill64k"   -> BPush(b, 65546, NoV * 1000)
       [] recipe = "optfail"   -> BCut(BAppend(b, OptMin + 14), n)
       [] OTHER                -> b
\* the length prefix in front of a message of n octets that leaves the stack
\* (whatever the middleware did to it last is an append or a cut as well)
FrameOf(recipe, n) == BCut(RecipeEnd(recipe, n), n).shim
\* "correctly framed (two-octet length on streams)"
FramedOK(recipe, n) == FrameOf(recipe, n) = n /\ RecipeEnd(recipe, n).len = n /\ n <= 65535

---------------------------------------------------------------------------
(* Part 1b: the stack before the service.                                  *)
(* cfg  = [strict, eon, con, denied]: MandatoryMiddlewareSvc::new/relaxed, *)
(*        EdnsMiddlewareSvc::enable, CookiesMiddlewareSvc::enable,         *)
(*        ::with_denied_ips (the client is on the list or not)             *)
(* preq = [udp, opcode, qd, nopt, ver, kato, ck]: opcode query | iquery,   *)
(*        number of questions, number of OPT records, EDNS version,        *)
(*        edns-tcp-keepalive option carrying a timeout, the first COOKIE   *)
(*        option ck = [form, hashok, d]: form none | client | badlen |     *)
(*        std | nonstd, d the distance of the timestamp from the server's  *)
(*        clock as limbs <<hi, lo>>                                        *)

SL == INSTANCE SerialLimbs WITH LW <- 16
FiveMinutes == <<0, 300>>
OneHour == <<0, 3600>>
ClockNow == <<0, 0>>              \* the server's clock is the origin of d
TsOf(d) == SL!LAdd(ClockNow, d)
\* cookies.rs timestamp_ok, clause by clause (Serial `>` is false at
\* distance 2^31)
TimestampOk(ts) ==
  LET tooNewAt  == SL!LAdd(ClockNow, FiveMinutes)
      expiresAt == SL!LAdd(ts, OneHour)
  IN IF SL!LGt(ClockNow, expiresAt) THEN FALSE
     ELSE IF SL!LGt(ts, tooNewAt) THEN FALSE
     ELSE TRUE
\* RFC 9018 4.3: one hour into the past, five minutes into the future
LLe(x, y) == x = y \/ SL!LLess(x, y)
InWindow(d) == LLe(d, FiveMinutes) \/ LLe(<<65535, 65536 - 3600>>, d)

NoCk == [form |-> "none", hashok |-> FALSE, d |-> <<0, 0>>]
\* Cookie::check_server_hash: standard server cookie, timestamp, then hash
CookieValid(ck) == ck.form = "std" /\ TimestampOk(TsOf(ck.d)) /\ ck.hashok
HasServerPart(ck) == ck.form \in {"std", "nonstd"}

\* rcodes (OptRcode)
RcNoError == 0  RcFormErr == 1  RcServFail == 2  RcNotImp == 4  RcRefused == 5
RcBadVers == 16 RcBadCookie == 23

\* who answers and how: [by, rcode, tc, q, ck]; q: the response carries the
\* request's question section ("req") or none; ck: it carries a COOKIE option
Verdict(by, rc, tc, q, ck) == [by |-> by, rcode |-> rc, tc |-> tc, q |-> q, ck |-> ck]
ToService == Verdict("service", RcNoError, FALSE, "req", FALSE)

\* mandatory.rs preprocess
MandatoryPre(cfg, p) ==
  IF cfg.strict /\ p.opcode = "iquery" THEN Verdict("mandatory", RcNotImp, FALSE, "req", FALSE)
  ELSE IF cfg.strict /\ p.opcode = "query" /\ p.qd > 1
       THEN Verdict("mandatory", RcFormErr, FALSE, "req", FALSE)
  ELSE ToService
\* edns.rs preprocess (only looks at requests with an OPT record)
EdnsPre(cfg, p) ==
  IF ~cfg.eon \/ p.nopt = 0 THEN ToService
  ELSE IF p.nopt > 1 THEN Verdict("edns", RcFormErr, FALSE, "req", FALSE)
  ELSE IF p.ver > 0 THEN Verdict("edns", RcBadVers, FALSE, "req", FALSE)
  ELSE IF ~p.udp /\ p.kato THEN Verdict("edns", RcFormErr, FALSE, "req", FALSE)
  ELSE ToService
\* cookies.rs preprocess; the COOKIE option lives in the first OPT record
CookiesPre(cfg, p) ==
  LET ck == IF p.nopt = 0 THEN NoCk ELSE p.ck IN
  IF ~cfg.con THEN ToService
  ELSE IF ck.form = "none"
       THEN IF p.udp /\ cfg.denied THEN Verdict("cookies", RcRefused, TRUE, "none", FALSE)
            ELSE ToService
  ELSE IF ck.form = "badlen" THEN Verdict("cookies", RcFormErr, FALSE, "none", FALSE)
  ELSE IF ~CookieValid(ck)
       THEN IF p.qd = 0
            THEN IF ~HasServerPart(ck) THEN Verdict("cookies", RcNoError, FALSE, "req", TRUE)
                 ELSE Verdict("cookies", RcBadCookie, FALSE, "req", TRUE)
            ELSE IF p.udp /\ cfg.denied THEN Verdict("cookies", RcBadCookie, FALSE, "req", TRUE)
            ELSE ToService
  ELSE IF p.qd = 0 THEN Verdict("cookies", RcNoError, FALSE, "req", TRUE)
  ELSE ToService

StackVerdict(cfg, p) ==
  LET m == MandatoryPre(cfg, p) IN
  IF m.by # "service" THEN m
  ELSE LET e == EdnsPre(cfg, p) IN
       IF e.by # "service" THEN e ELSE CookiesPre(cfg, p)

\* middleware/stream.rs size_hint before the first poll and after each of n
\* items: a mandatory-made response is a ready one-item stream, everything
\* else sits behind a not yet resolved service future
HintsFor(by, n) ==
  IF by = "mandatory" THEN << <<1, 1>>, <<0, 0>> >>
  ELSE << <<0, NoV>> >> \o [i \in 1..n |-> <<n - i, n - i>>]

\* the property, for whatever arrives: answered exactly once, by somebody
AnsweredOnce(cfg, p) == StackVerdict(cfg, p).by \in {"mandatory", "edns", "cookies", "service"}
\* P: a denied UDP client reaches the service only with a valid cookie
DeniedNeedsValid(cfg, p) ==
  (cfg.con /\ cfg.denied /\ p.udp /\ StackVerdict(cfg, p).by = "service")
     => (p.nopt > 0 /\ CookieValid(p.ck))

---------------------------------------------------------------------------
(* Framing (connection.rs DnsMessageReceiver) at the octet level, used by  *)
(* the trace validator: two-octet length, then that many octets.           *)

RECURSIVE Deframe(_)
Deframe(buf) ==      \* [frames |-> sequence of bodies, rest |-> leftover octets]
  IF Len(buf) < 2 \/ Len(buf) < 2 + U16At(buf, 1)
  THEN [frames |-> <<>>, rest |-> buf]
  ELSE LET n == U16At(buf, 1)
           d == Deframe(Drop(buf, 2 + n))
       IN [frames |-> <<SubSeq(buf, 3, 2 + n)>> \o d.frames, rest |-> d.rest]

\* connection.rs process_read_request / dgram.rs process_received_message
Classify(body) ==
  IF Len(body) < 12 THEN "short"
  ELSE IF body[3] >= 128 THEN "reply"
  ELSE "query"

---------------------------------------------------------------------------
(* Part 2: the stream connection machine                                   *)

\* The documented defaults (doc comments of connection.rs / stream.rs /
\* dgram.rs), which is what a server built without explicit configuration
\* has to behave like.  Times in milliseconds.
Doc == [idle_timeout |-> 30000, response_write_timeout |-> 30000,
        max_queued_responses |-> 10, max_concurrent_connections |-> 100,
        accept_connections_at_max |-> TRUE,
        udp_max_response_size |-> 1232, udp_min |-> 512, udp_max |-> 4096,
        dgram_write_timeout |-> 5000]
IdleDefault == 2        \* configured idle timeout = write timeout = 2 half ticks
IdleLong == 4           \* what service kind "rlong" asks for
IdleShort == 1          \* what service kind "rshort" asks for
Nil == [r |-> 0, kind |-> "nil", k |-> 0]
Resp(r, kind, k) == [r |-> r, kind |-> kind, k |-> k]

\* service scripts: what the service's response stream will yield
IR  == [t |-> "resp", fb |-> "none"]
IB  == [t |-> "resp", fb |-> "begin"]      \* ServiceFeedback::BeginTransaction
IE  == [t |-> "resp", fb |-> "end"]        \* ServiceFeedback::EndTransaction
IRL == [t |-> "resp", fb |-> "long"]       \* ServiceFeedback::Reconfigure { idle_timeout: longer }
IRS == [t |-> "resp", fb |-> "short"]      \* ServiceFeedback::Reconfigure { idle_timeout: shorter }
FBb == [t |-> "fb", fb |-> "begin"]        \* feedback-only CallResult (no response), as the
FBe == [t |-> "fb", fb |-> "end"]          \* XFR middleware emits around a transfer
FBl == [t |-> "fb", fb |-> "long"]         \* feedback-only Reconfigure
IBig == [t |-> "big", fb |-> "none"]       \* (datagram machine) an answer of BigLen octets
IFl == [t |-> "fail", fb |-> "none"]       \* Err(ServiceError)
IFe == [t |-> "formerr", fb |-> "none"]    \* the FORMERR task for QR=1
Script(svc) ==
  CASE svc = "single"  -> <<IR>>
    [] svc = "stream2" -> <<IR, IR>>
    [] svc = "fail"    -> <<IFl>>
    [] svc = "empty"   -> <<>>
    [] svc = "rfail"   -> <<IR, IFl, IR>>
    [] svc = "txn"     -> <<IB, IR, IE>>
    [] svc = "echo"    -> <<IR>>
    [] svc = "rlong"   -> <<IRL>>
    [] svc = "rshort"  -> <<IRS>>
    [] svc = "big"     -> <<IBig>>
    [] svc = "mid"     -> <<IBig>>
    [] svc = "huge"    -> <<IBig>>
    [] svc = "xfr"     -> <<FBb, IR, IR, IR, IR, FBe>>
    [] svc = "fblong"  -> <<FBl, IR>>
    \* request without OPT, answer with OPT: stripped by the EDNS middleware
    \* (the last builder operation is a cut), once and as a two-item stream
    [] svc = "strip"   -> <<IR>>
    [] svc = "strip2"  -> <<IR, IR>>
    \* request without OPT, answer assembled until a push fails
    [] svc = "fill"    -> <<IR>>
    [] svc = "fill64"  -> <<IR>>
    \* request with a COOKIE option whose server cookie (right hash) is far
    \* away in serial-number space / expired: invalid, processed normally
    \* (RFC 7873 5.2.3 (3)); of a forbidden length: the cookie middleware
    \* answers FORMERR itself, at once, the service never sees the request
    [] svc = "ckfar"   -> <<IR>>
    [] svc = "ckexp"   -> <<IR>>
    [] svc = "cklen"   -> <<IFe>>
    \* Err(ServiceError) of the other kinds
    [] svc = "ffail"   -> <<[t |-> "ffail", fb |-> "none"]>>
    [] svc = "refuse"  -> <<[t |-> "refuse", fb |-> "none"]>>
    [] svc = "nimp"    -> <<[t |-> "nimp", fb |-> "none"]>>
    [] OTHER           -> <<>>

\* service.rs ServiceError::rcode
FailItems == {"fail", "ffail", "refuse", "nimp"}
FailKind(t) == CASE t = "ffail" -> "formerr" [] t = "refuse" -> "refused"
                 [] t = "nimp" -> "notimp" [] OTHER -> "servfail"

\* answers that need no completion of the service: the echo service, and
\* what a middleware answers itself
Permits0(svc) == IF svc \in {"echo", "cklen"} THEN 1 ELSE 0

Task(items, permits, disp) ==
  [items |-> items, permits |-> permits, disp |-> disp, status |-> "normal",
   pending |-> Nil, n |-> 0]

NoTasks == [x \in {} |-> Nil]

\* dv: deviations in force for this machine, qcap: result queue capacity
InitConn(dv, qcap) ==
  [st |-> "none", dv |-> dv, qcap |-> qcap, inb |-> <<>>, mode |-> "select",
   cur |-> Nil, cmd |-> FALSE, ab |-> FALSE, q |-> <<>>, qclosed |-> FALSE,
   credit |-> 0, age |-> 0, wage |-> 0, tasks |-> NoTasks, wrote |-> <<>>,
   lost |-> {}, yielded |-> <<>>,
   itmo |-> IdleDefault,  \* idle timeout in force, in half ticks (connection Config,
                          \* changed by ServiceFeedback::Reconfigure via update_config)
   np |-> 1,        \* pieces the transport takes to accept one frame (partial writes)
   pd |-> 0,        \* pieces of the frame in `cur` already on the wire
   torn |-> FALSE,  \* the connection ended with a partial frame on the wire
   live |-> FALSE]  \* counted in the server's num_connections (Connection::run .. Drop)

ChanClosed(s) == s.st = "closed" \/ s.qclosed

\* connection.rs do_enqueue_response: try_send; Closed -> give up; Full ->
\* retry only in a transaction, else drop (D_queue_full_drop; ideal: wait)
TryEnq(s, r, resp) ==
  IF ChanClosed(s) THEN [s EXCEPT !.tasks[r].pending = Nil]
  ELSE IF Len(s.q) < s.qcap
       THEN [s EXCEPT !.q = Append(@, resp), !.tasks[r].pending = Nil]
  ELSE IF s.tasks[r].status = "txn" \/ "D_queue_full_drop" \notin s.dv
       THEN [s EXCEPT !.tasks[r].pending = resp]
  ELSE [s EXCEPT !.lost = @ \cup {resp}, !.tasks[r].pending = Nil]

CanRetry(s, r) ==
  /\ s.tasks[r].pending # Nil
  /\ (ChanClosed(s) \/ Len(s.q) < s.qcap)
CanYield(s, r) ==
  LET t == s.tasks[r]
  IN t.disp /\ t.pending = Nil /\ t.permits > 0 /\ t.items # <<>> /\ t.status # "abort"
TaskEnabled(s, r) == r \in DOMAIN s.tasks /\ (CanRetry(s, r) \/ CanYield(s, r))

\* invoker.rs dispatch loop body: one stream item (or one retry)
TaskStep(s, r) ==
  LET t == s.tasks[r] IN
  IF t.pending # Nil THEN TryEnq(s, r, t.pending)
  ELSE
    LET it == Head(t.items)
        t1 == [t EXCEPT !.items = Tail(@), !.permits = @ - 1]
    IN CASE it.t \in FailItems ->
              \* invoker.rs: Err(e) -> mk_error_response(e.rcode()), Aborting
              LET resp == Resp(r, FailKind(it.t), 0)
              IN TryEnq([s EXCEPT !.tasks[r] = [t1 EXCEPT !.status = "abort"],
                                  !.yielded = Append(@, resp)], r, resp)
         [] it.t = "fb" ->       \* feedback only: process_feedback, nothing to enqueue
              [s EXCEPT !.tasks[r] = [t1 EXCEPT !.status = IF it.fb = "begin" THEN "txn"
                                                           ELSE IF it.fb = "end" THEN "normal"
                                                           ELSE @],
                        !.itmo = IF it.fb = "long" THEN IdleLong ELSE @]
         [] it.t = "formerr" ->
              LET resp == Resp(r, "formerr", 0)
              IN TryEnq([s EXCEPT !.tasks[r] = t1, !.yielded = Append(@, resp)], r, resp)
         [] OTHER ->
              LET st2  == IF it.fb = "begin" THEN "txn"
                          ELSE IF it.fb = "end" THEN "normal" ELSE t.status
                  resp == Resp(r, "ans", t.n + 1)
                  \* process_feedback runs before the response is enqueued
                  tmo  == IF it.fb = "long" THEN IdleLong
                          ELSE IF it.fb = "short" THEN IdleShort ELSE s.itmo
              IN TryEnq([s EXCEPT !.tasks[r] = [t1 EXCEPT !.status = st2, !.n = @ + 1],
                                  !.yielded = Append(@, resp), !.itmo = tmo], r, resp)

Close(s) == [s EXCEPT !.st = "closed", !.mode = "done", !.cur = Nil, !.q = <<>>,
                      !.torn = @ \/ s.pd > 0, !.pd = 0]

\* write_response_to_stream succeeded; idle timer reset when the queue is empty
\* write_all: the transport may accept the frame in several pieces; the
\* peer's readiness (credit) is needed to begin a frame
WritePiece(s) == [s EXCEPT !.pd = @ + 1, !.credit = IF s.pd = 0 THEN @ - 1 ELSE @]

Written(s, next) ==
  LET s1 == [s EXCEPT !.wrote = Append(@, s.cur), !.cur = Nil, !.pd = 0,
                      !.credit = IF s.pd = 0 THEN @ - 1 ELSE @, !.mode = next]
  IN IF s1.q = <<>> THEN [s1 EXCEPT !.age = 0] ELSE s1

\* process_read_request
ReadOne(s) ==
  LET it == Head(s.inb)
      s1 == [s EXCEPT !.inb = Tail(@), !.age = 0]
  IN CASE it.t = "query" -> [s1 EXCEPT !.tasks[it.r].disp = TRUE]
       [] it.t = "reply" -> [s1 EXCEPT !.tasks = @ @@ (it.r :> Task(<<IFe>>, 1, TRUE))]
       [] OTHER          -> Close(s1)          \* "short", "eof"

\* which branch of the loop is ready (biased select: command, queue, idle
\* timer, read; a blocked write / the flush loop see nothing else)
LoopBranch(s) ==
  IF s.st # "open" THEN "none"
  ELSE IF s.mode = "select" THEN
         IF s.cmd THEN "cmd"
         ELSE IF s.q # <<>> THEN "take"
         ELSE IF s.age >= s.itmo THEN "idle"       \* the value in force now
         ELSE IF s.inb # <<>> /\ Head(s.inb).t # "partial" THEN "read"
         ELSE "none"
  ELSE IF s.mode = "write" THEN
         IF s.ab THEN "werr"
         ELSE IF s.credit > 0 \/ s.pd > 0
              THEN (IF s.pd < s.np - 1 THEN "wpart" ELSE "write")
         ELSE IF s.wage >= 2 THEN "wtimeout"
         ELSE "none"
  ELSE IF s.mode = "flush" THEN
         IF s.q # <<>> THEN "take" ELSE "flushed"
  ELSE IF s.mode = "flushwrite" THEN
         IF s.ab THEN "werr"
         ELSE IF s.credit > 0 \/ s.pd > 0
              THEN (IF s.pd < s.np - 1 THEN "wpart" ELSE "write")
         ELSE IF s.wage >= 2 THEN "wtimeout"
         ELSE "none"
  ELSE "none"

LoopStep(s) ==
  LET b == LoopBranch(s) IN
  CASE b = "cmd"  -> [s EXCEPT !.cmd = FALSE, !.qclosed = TRUE, !.mode = "flush"]
    [] b = "take" -> [s EXCEPT !.cur = Head(s.q), !.q = Tail(s.q), !.wage = 0,
                               !.mode = IF s.mode = "flush" THEN "flushwrite" ELSE "write"]
    [] b = "idle" -> Close(s)
    [] b = "read" -> ReadOne(s)
    [] b = "wpart" -> WritePiece(s)
    [] b = "write" -> Written(s, IF s.mode = "flushwrite" THEN "flush" ELSE "select")
    [] b \in {"werr", "wtimeout"} ->
         IF s.mode = "flushwrite"
         THEN [s EXCEPT !.cur = Nil, !.mode = "flush", !.torn = @ \/ s.pd > 0, !.pd = 0]
         ELSE Close(s)
    [] b = "flushed" -> Close(s)
    [] OTHER -> s

EnabledTasks(s) == {r \in DOMAIN s.tasks : TaskEnabled(s, r)}
MinOf(S) == CHOOSE x \in S : \A y \in S : x <= y
Quiescent(s) == LoopBranch(s) = "none" /\ EnabledTasks(s) = {}

\* Run the connection to quiescence the way a current-thread runtime does
\* between two stimuli (FIFO run queue): the loop task runs until it blocks;
\* then every task that is runnable at that moment runs once, in spawn
\* order, until *it* blocks (a task polls its response stream until the
\* stream is pending; a full-queue retry is one attempt, then yield_now);
\* only then does the loop task run again.  The order matters: two tasks
\* spawned in the same loop run both try the queue before the loop takes
\* anything out of it.
RECURSIVE LoopRun(_)
LoopRun(s) == IF LoopBranch(s) # "none" THEN LoopRun(LoopStep(s)) ELSE s

RECURSIVE TaskRun(_, _)
TaskRun(s, r) ==
  \* a retry that succeeds returns into the dispatch loop, which polls the
  \* response stream again in the same task poll
  IF CanRetry(s, r) THEN TaskRun(TaskStep(s, r), r)
  ELSE IF CanYield(s, r) THEN TaskRun(TaskStep(s, r), r)
  ELSE s

RECURSIVE SortedSeq(_)
SortedSeq(S) == IF S = {} THEN <<>> ELSE <<MinOf(S)>> \o SortedSeq(S \ {MinOf(S)})

RECURSIVE RunTasks(_, _)
RunTasks(s, rs) ==
  IF rs = <<>> THEN s
  ELSE RunTasks(IF TaskEnabled(s, Head(rs)) THEN TaskRun(s, Head(rs)) ELSE s, Tail(rs))

RECURSIVE Settle(_)
Settle(s) ==
  LET s1 == LoopRun(s)
      E  == EnabledTasks(s1)
  IN IF E = {} THEN s1 ELSE Settle(RunTasks(s1, SortedSeq(E)))

\* ---- environment stimuli (no settling here) ----
TailPartial(s) == s.inb # <<>> /\ s.inb[Len(s.inb)].t = "partial"

\* stream.rs: an accepted connection whose setup future succeeded and that
\* found the server below max_concurrent_connections gets a Connection
\* (counted from run() to Drop); a failed setup or a refusal at the limit
\* just drops the stream
EnvOpen(s) == [s EXCEPT !.st = "open", !.live = TRUE]
EnvNoConn(s) == [s EXCEPT !.st = "closed", !.mode = "done"]
EnvSend(s, what, r, svc) ==       \* what \in query | partial | reply | short
  LET it == [t |-> what, r |-> r, svc |-> svc]
      s1 == [s EXCEPT !.inb = Append(@, it)]
  IN IF what \in {"query", "partial"}
     THEN [s1 EXCEPT !.tasks = @ @@ (r :> Task(Script(svc), Permits0(svc), FALSE))]
     ELSE s1
EnvRest(s) ==
  [s EXCEPT !.inb[Len(s.inb)].t = "query"]
EnvRelease(s, r) == [s EXCEPT !.tasks[r].permits = @ + 1]
EnvCredit(s, n) == [s EXCEPT !.credit = @ + n]
EnvHalfTick(s) ==
  IF s.st # "open" THEN s
  ELSE [s EXCEPT !.age = Min(IdleLong, @ + 1),
                 !.wage = IF s.mode \in {"write", "flushwrite"} THEN Min(2, @ + 1) ELSE @]
EnvAbort(s) ==
  LET eof == [t |-> "eof", r |-> 0, svc |-> ""]
  IN [s EXCEPT !.ab = TRUE,
               !.inb = IF TailPartial(s) THEN [@ EXCEPT ![Len(@)] = eof] ELSE Append(@, eof)]
EnvShutdown(s) == IF s.st = "open" THEN [s EXCEPT !.cmd = TRUE] ELSE s

\* ---- what a client can observe ----
Proj(s) == [w |-> [i \in 1..Len(s.wrote) |-> <<s.wrote[i].r, s.wrote[i].kind, s.wrote[i].k>>],
            cl |-> s.st = "closed"]

\* ---- properties of one connection ----
SeqSet(q) == {q[i] : i \in 1..Len(q)}
NoDup(q) == \A i, j \in 1..Len(q) : i # j => q[i] # q[j]
Pendings(s) == {s.tasks[r].pending : r \in DOMAIN s.tasks} \ {Nil}
IndexIn(q, x) == CHOOSE i \in 1..Len(q) : q[i] = x

\* every response the service produced is written at most once, in the
\* service's order per request, and -- while the connection lives -- is
\* either written or still on its way (never silently gone)
EachOnce(s) ==
  /\ NoDup(s.wrote)
  /\ SeqSet(s.wrote) \subseteq SeqSet(s.yielded)
  /\ \A i, j \in 1..Len(s.wrote) :
        (i < j /\ s.wrote[i].r = s.wrote[j].r)
           => IndexIn(s.yielded, s.wrote[i]) < IndexIn(s.yielded, s.wrote[j])
  /\ (s.st = "open" /\ ~s.qclosed) =>
        SeqSet(s.yielded) \subseteq
           (SeqSet(s.wrote) \cup SeqSet(s.q) \cup {s.cur} \cup Pendings(s) \cup s.lost)
NoneLost(s) == s.lost = {}
QueueBounded(s) == Len(s.q) <= s.qcap
\* Framed: what is on the wire is a sequence of whole frames, possibly
\* followed by the first pieces of the one frame that is being written;
\* no other frame starts before that one is complete, and a torn frame is
\* only ever the last thing a connection sent
WireFramed(s) ==
  /\ s.pd > 0 => (s.mode \in {"write", "flushwrite"} /\ s.cur # Nil /\ s.pd < s.np)
  /\ s.torn => (s.st = "closed" \/ s.mode \in {"flush", "flushwrite"})
\* responses carry the key of a request that was really received on this
\* connection, and only "formerr" for QR=1 input
IdPreserved(s) ==
  \A i \in 1..Len(s.wrote) :
     /\ s.wrote[i].r \in DOMAIN s.tasks
     /\ s.tasks[s.wrote[i].r].disp
ClosedIsFinal(s, t) == s.st = "closed" => (t.st = "closed" /\ t.wrote = s.wrote)

---------------------------------------------------------------------------
(* Part 3: the datagram machine (dgram.rs).  No queue, no shared state:    *)
(* every datagram is zero-padded to the receive buffer (the code parses    *)
(* the whole 1024-octet buffer, so nothing is ever "too short"), a set QR  *)
(* bit gives FORMERR, anything else goes to the service; every response    *)
(* item is sent at once.                                                   *)

\* limit: Config::max_response_size in force (DgramServer::reconfigure);
\* hints: the limit each request was received under (UdpTransportContext is
\* built when the datagram is received); sendfail: transient errors armed
\* on the socket's send side; alive: the receive loop is running
InitDg == [tasks |-> NoTasks, sent |-> <<>>, yielded |-> <<>>, limit |-> Doc.udp_max_response_size,
           hints |-> [x \in {} |-> 0], bigs |-> [x \in {} |-> ""], sendfail |-> 0, unsent |-> {}, alive |-> TRUE]

\* answers of prescribed size: "big" 1840 octets to a client advertising
\* 4096, "mid" 300 to 4096, "huge" 5000 to 65535
BLen(svc) == IF svc = "mid" THEN 300 ELSE IF svc = "huge" THEN 5000 ELSE 1840
BCsz(svc) == IF svc = "huge" THEN 65535 ELSE 4096
BigReqS(r, svc) == [udp |-> TRUE, edns |-> TRUE, csize |-> BCsz(svc), qlen |-> 9 + r, opts |-> "none"]
BigSvcS(r, svc) == [len |-> BLen(svc), optlen |-> 0, body |-> BLen(svc) - 12 - (9 + r), tc |-> FALSE]

DgRecv(d, what, r, svc) ==        \* what: query | short (QR clear), reply | shortqr
  IF what \in {"reply", "shortqr"}
  THEN LET resp == Resp(r, "formerr", 0)
       IN [d EXCEPT !.yielded = Append(@, resp),
                    !.sent = IF d.sendfail > 0 THEN @ ELSE Append(@, resp),
                    !.unsent = IF d.sendfail > 0 THEN @ \cup {resp} ELSE @,
                    !.sendfail = IF @ > 0 THEN @ - 1 ELSE 0,
                    !.tasks = @ @@ (r :> Task(<<>>, 0, TRUE))]
  ELSE [d EXCEPT !.tasks = @ @@ (r :> Task(Script(svc), Permits0(svc), TRUE)),
                 !.hints = @ @@ (r :> d.limit),
                 !.bigs = IF svc \in {"big", "mid", "huge"} THEN @ @@ (r :> svc) ELSE @]

\* run_until_error: a command, spurious readiness (WouldBlock) and a failed
\* send leave the loop running
\* Config::set_max_response_size clamps into the documented range
DgReconf(d, limit) == [d EXCEPT !.limit = Max(Doc.udp_min, Min(Doc.udp_max, limit))]
DgSpurious(d) == d
DgSendErr(d) == [d EXCEPT !.sendfail = @ + 1]

DgCanYield(d, r) ==
  /\ r \in DOMAIN d.tasks
  /\ d.tasks[r].permits > 0 /\ d.tasks[r].items # <<>> /\ d.tasks[r].status # "abort"

DgYield(d, r) ==
  LET t  == d.tasks[r]
      it == Head(t.items)
      t1 == [t EXCEPT !.items = Tail(@), !.permits = @ - 1]
      \* the limit in force when the request was received decides
      cut == it.t = "big" /\ Final({}, BigReqS(r, d.bigs[r]), d.hints[r], BigSvcS(r, d.bigs[r])).tc
      resp == IF it.t \in FailItems THEN Resp(r, FailKind(it.t), 0)
              ELSE IF it.t = "formerr" THEN Resp(r, "formerr", 0)   \* a middleware's own FORMERR
              ELSE IF cut THEN Resp(r, "trunc", 0)
              ELSE Resp(r, "ans", t.n + 1)
      t2 == IF it.t \in FailItems THEN [t1 EXCEPT !.status = "abort"]
            ELSE IF it.t = "formerr" THEN t1 ELSE [t1 EXCEPT !.n = @ + 1]
  IN [d EXCEPT !.tasks[r] = t2, !.yielded = Append(@, resp),
               !.sent = IF d.sendfail > 0 THEN @ ELSE Append(@, resp),
               !.unsent = IF d.sendfail > 0 THEN @ \cup {resp} ELSE @,
               !.sendfail = IF @ > 0 THEN @ - 1 ELSE 0]

RECURSIVE DgSettle(_)
DgSettle(d) ==
  LET E == {r \in DOMAIN d.tasks : DgCanYield(d, r)}
  IN IF E = {} THEN d ELSE DgSettle(DgYield(d, MinOf(E)))

DgRelease(d, r) == [d EXCEPT !.tasks[r].permits = @ + 1]
DgProj(d) == [i \in 1..Len(d.sent) |-> <<d.sent[i].r, d.sent[i].kind, d.sent[i].k>>]
\* every response is sent exactly once, in order, except those that hit a
\* socket send error; nothing but a shutdown stops the receive loop
DgEachOnce(d) == /\ d.sent = SelectSeq(d.yielded, LAMBDA x : x \notin d.unsent)
                 /\ NoDup(d.sent)
DgLoopAlive(d) == d.alive
\* UdpSize for the datagram server: what is sent for a big answer fits
\* what the property allows under the limit in force when the request was
\* received, and it is cut (TC) exactly when it had to be
DgSizeOK(d) ==
  \A i \in 1..Len(d.sent) :
     LET x == d.sent[i] IN
     x.r \in DOMAIN d.bigs =>
       LET f == Final({}, BigReqS(x.r, d.bigs[x.r]), d.hints[x.r], BigSvcS(x.r, d.bigs[x.r]))
       IN /\ f.len <= Allowed(BigReqS(x.r, d.bigs[x.r]), d.hints[x.r])
          /\ (x.kind = "trunc") = f.tc
=============================================================================
