CONSTANTS
  Dev = {}
  Mut = {}
  AdvOn = {"ANS", "DS", "DNSKEY"}
  AnchorForms = {"dnskey"}
  Cfgs = {"default"}
  MaxRuns = 1
  EntQKinds = {"positive"}
  Budget = 1
  Shapes = {"secure3", "insecure3", "secure4"}
  Denials = {"nsec", "nsec3", "optout"}
  QKinds = {"wilddeep", "wildsub", "wcname", "wcnodata", "positive", "nxdomain"}
  AdvActs = {"ShortSig", "DropRrsig", "DropRrset", "ReplaceRdata", "WrongSigner", "Expire", "NotYetValid", "ReplayAncestor", "AddCollidingKey", "AddExtraDs", "CorruptSigOctets", "HideCe", "ForgeSigned", "AddBadSig", "CorruptKey", "CorruptDs", "StripProof", "ForgeNsecRange", "SwapProof", "BadNsec3Label", "BadNsec3LabelSigned", "ZeroCounts", "ZeroTtl", "Inject", "CnameLoop", "MisapplyWildcard", "DenyExisting", "SigsFirst", "Duplicate", "OrphanSig", "WrongSoa"}
SPECIFICATION Spec
VIEW View
INVARIANT Soundness
INVARIANT HonestSecure
INVARIANT InsecureNotBogus
INVARIANT WithinAllowed
INVARIANT NoPanic
INVARIANT Terminates
INVARIANT CacheTransparent
INVARIANT NoAnchorNotSecure
INVARIANT LimitsEnforced
INVARIANT Emit
CHECK_DEADLOCK TRUE
