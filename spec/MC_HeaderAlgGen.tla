--------------------------- MODULE MC_HeaderAlgGen ---------------------------
(* S->I generators for HeaderAlg.tla (one configuration per GKind):           *)
(*  "beh"    behaviours of the machine: operation sequences with the          *)
(*           specification's projected state (12 header octets, OPT headers,   *)
(*           stage, result, what every getter reports) after EVERY operation;  *)
(*           exhaustive to depth MaxHist or simulated;                          *)
(*  "indep"  one case per initial flag word: every single-field operation with *)
(*           every argument applied to that header, expected 12 octets each;    *)
(*  "rcode"  the 12-bit / 4-bit RCODE conversions for every value;              *)
(*  "flags"  Flags text for all 128 values, and token lists to parse;           *)
(*  "copy"   Message::copy_records;                                             *)
(*  "dig"    display_dig_style.                                                 *)
(* A step on which a named deviation changes the outcome carries the deviating  *)
(* projection too (computed from the IDEAL state before the step: the executor  *)
(* re-bases the real object to the ideal state after such a step).              *)
EXTENDS MC_HeaderAlg, Json

CONSTANTS MaxHist, GKind, GWords
VARIABLES hist, dk, init0, arg
gvars == <<st, n, last, hist, dk, init0, arg>>

MachineDevs == {"D_set_opcode_spill", "D_opt_fail_keeps_rcode"}
DevOf(s, op) ==
  IF Step(s, op, {}) = Step(s, op, MachineDevs) THEN ""
  ELSE IF op.k = "set_opcode" THEN "D_set_opcode_spill" ELSE "D_opt_fail_keeps_rcode"

--------------------------------------------------------------------------
(* behaviours *)
GDo(op) ==
  /\ Len(hist) < MaxHist
  /\ Enabled(st, op)
  /\ LET d == DevOf(st, op)
         res == Step(st, op, {})
         resd == Step(st, op, MachineDevs)
     IN /\ d = "" \/ dk = "" \/ dk = d          \* at most one deviation name per behaviour
        /\ dk' = IF d = "" THEN dk ELSE d
        /\ st' = res.s
        /\ hist' = Append(hist, [op |-> op, e |-> Proj(res), d |-> Proj(resd)])
  /\ UNCHANGED <<n, last, init0, arg>>

AllOps(s) ==
  IF s.g = -1 THEN HeaderSetOps \cup CountSetOps \cup CountStepOps \cup OptHeaderSetOps
  ELSE HeaderSetOpsB \cup GotoOps \cup PushOps \cup OptOps \cup StartOps \cup AxfrOps

BehInit == /\ st \in (IF Carrier = "plain" THEN PlainInits ELSE BuilderInits)
           /\ init0 = st /\ hist = <<>> /\ dk = "" /\ arg = 0
           /\ n = 0 /\ last = [op |-> Op("init", <<>>), r |-> 0, c |-> <<>>]
BehNext == \E op \in AllOps(st) : GDo(op)
BehSpec == BehInit /\ [][BehNext]_gvars

Ops == [i \in DOMAIN hist |-> hist[i].op]
ExpI == [i \in DOMAIN hist |-> hist[i].e]
ExpD == [i \in DOMAIN hist |-> IF hist[i].d = hist[i].e THEN hist[i].e ELSE hist[i].d]
\* the steps after which the executor re-bases: [step, ideal header, an
\* out-of-range argument that a stricter implementation may refuse by panicking]
Rebase == SelectSeq([i \in DOMAIN hist |->
                       [i |-> i, h |-> hist[i].e.h, mp |-> B(hist[i].op.k = "set_opcode")]],
                    LAMBDA x : hist[x.i].d # hist[x.i].e)
BehIn == [t |-> "beh", init |-> init0, ops |-> Ops, rb |-> Rebase]
BehCase ==
  IF dk = "D_set_opcode_spill" THEN [in |-> BehIn, exp |-> ExpI, dev |-> [D_set_opcode_spill |-> ExpD]]
  ELSE IF dk = "D_opt_fail_keeps_rcode" THEN [in |-> BehIn, exp |-> ExpI, dev |-> [D_opt_fail_keeps_rcode |-> ExpD]]
  ELSE [in |-> BehIn, exp |-> ExpI]
BehEmit == Len(hist) = MaxHist => PrintT("CASE " \o ToJson(BehCase))

--------------------------------------------------------------------------
(* one case per initial word: every header-field operation, independently *)
IndepOps ==
  <<Op("set_qr", <<0>>), Op("set_qr", <<1>>), Op("set_aa", <<0>>), Op("set_aa", <<1>>),
    Op("set_tc", <<0>>), Op("set_tc", <<1>>), Op("set_rd", <<0>>), Op("set_rd", <<1>>),
    Op("set_ra", <<0>>), Op("set_ra", <<1>>), Op("set_z", <<0>>), Op("set_z", <<1>>),
    Op("set_ad", <<0>>), Op("set_ad", <<1>>), Op("set_cd", <<0>>), Op("set_cd", <<1>>)>>
  \o [i \in 1..16 |-> Op("set_opcode", <<i - 1>>)]
  \o <<Op("set_opcode", <<16>>), Op("set_opcode", <<21>>), Op("set_opcode", <<32>>), Op("set_opcode", <<255>>)>>
  \o [i \in 1..16 |-> Op("set_rcode", <<i - 1>>)]
  \o <<Op("set_flags", <<0>>), Op("set_flags", <<127>>), Op("set_flags", <<85>>), Op("set_flags", <<42>>),
       Op("set_id", <<0>>), Op("set_id", <<65535>>), Op("set_id", <<258>>)>>
\* id and counts vary with the word so that neighbours of the word differ
HdrOfWord(w) ==
  LET c == (w * 7 + 3) % 65536 IN
  PutCount(PutCount(PutCount(PutCount(PutWord(PutId(HdrZero, 65535 - w), w), 0, c), 1, 65535 - c), 2, w), 3, 65535)
IndepState(w) == [h |-> HdrOfWord(w), o |-> <<OptDefault>>, g |-> -1]
IndepStep(s, op, D) == LET res == Step(s, op, D) IN <<res.s.h, res.r>>
IndepExp(w, D) == [i \in DOMAIN IndepOps |-> IndepStep(IndepState(w), IndepOps[i], D)]
IndepCase(w) ==
  LET in == [t |-> "indep", init |-> IndepState(w), ops |-> IndepOps]
      x == [x0 |-> Getters(IndepState(w)), steps |-> IndepExp(w, {})]
      xd == [x0 |-> Getters(IndepState(w)), steps |-> IndepExp(w, MachineDevs)]
  IN [in |-> in, exp |-> x, dev |-> [D_set_opcode_spill |-> xd]]

--------------------------------------------------------------------------
(* function-like cases *)
RcodeArgs == 0..4095 \cup {4096, 4097, 4111, 8192, 32768, 61440, 61441, 65535}
RcodeOut(v, D) ==
  [low |-> RcLow(v), ext |-> RcExt(v), isext |-> B(RcIsExt(v % 4096)), join |-> RcJoin(RcLow(v), RcExt(v)),
   masked |-> v % 4096, checked |-> B(OptRcodeChecked(v, D)),
   rc8 |-> B(RcodeChecked(v % 256)), rc8m |-> (v % 256) % 16,
   text |-> RcodeText(v % 4096), text4 |-> RcodeText(v % 16)]
RcodeCase(v) ==
  IF RcodeOut(v, {}) = RcodeOut(v, {"D_optrcode_checked_mask"})
  THEN [in |-> [t |-> "rcode", v |-> v], exp |-> RcodeOut(v, {})]
  ELSE [in |-> [t |-> "rcode", v |-> v], exp |-> RcodeOut(v, {}),
        dev |-> [D_optrcode_checked_mask |-> RcodeOut(v, {"D_optrcode_checked_mask"})]]

\* flags: mask -> text; token sequences -> mask (tokens are matched ignoring
\* ASCII case, in any order, repetitions allowed; anything else is an error)
FlagParseArgs ==
  {<<"QR", "AA">>, <<"cd", "qr">>, <<"Rd", "rA", "aD">>, <<"tc", "TC">>, <<"QR", "XX">>, <<"Z">>,
   <<"QRAA">>, <<"AA", "TC", "RD", "RA", "AD", "CD", "QR">>, <<"q">>, <<"RD,">>}
TokenMask(t) ==
  CASE t \in {"QR", "Qr", "qR", "qr"} -> 64 [] t \in {"AA", "Aa", "aA", "aa"} -> 32
    [] t \in {"TC", "Tc", "tC", "tc"} -> 16 [] t \in {"RD", "Rd", "rD", "rd"} -> 8
    [] t \in {"RA", "Ra", "rA", "ra"} -> 4 [] t \in {"AD", "Ad", "aD", "ad"} -> 2
    [] t \in {"CD", "Cd", "cD", "cd"} -> 1 [] OTHER -> -1
RECURSIVE ParseFlags(_, _)
ParseFlags(ts, acc) ==
  IF ts = <<>> THEN acc
  ELSE IF TokenMask(Head(ts)) < 0 THEN -1
  ELSE LET m == TokenMask(Head(ts)) IN
       ParseFlags(Tail(ts), IF (acc \div m) % 2 = 1 THEN acc ELSE acc + m)
FlagsCase(a) == [in |-> [t |-> "flags", m |-> a], exp |-> [text |-> FlagsText(a), back |-> a]]
FlagParseCase(a) == [in |-> [t |-> "flagparse", toks |-> a], exp |-> [mask |-> ParseFlags(a, 0)]]

\* copy_records
CopySrcs == {<<<<1, 2>>, <<3>>, <<4, 5>>>>, <<<<>>, <<1, 2, 3>>, <<>>>>, <<<<1>>, <<>>, <<2, 3, 4>>>>,
             <<<<>>, <<>>, <<>>>>, <<<<3, 1, 2>>, <<5, 4>>, <<6>>>>}
CopyKeeps == {{}, {1, 2, 3, 4, 5, 6}, {2, 4}, {1, 3, 5}, {6}, {1}}
CopyArgs == {[src |-> s, keep |-> k, cap |-> c, pre |-> p, w |-> w] :
               s \in CopySrcs, k \in CopyKeeps, c \in {0, 1, 2, 99}, p \in {<<>>, <<9>>}, w \in {0, 65535}}
SetToSeq(S) == LET RECURSIVE F(_) F(T) == IF T = {} THEN <<>> ELSE LET x == CHOOSE x \in T : \A y \in T : x <= y IN <<x>> \o F(T \ {x}) IN F(S)
CopyCase(a) ==
  [in |-> [t |-> "copy", src |-> a.src, keep |-> SetToSeq(a.keep), cap |-> a.cap, pre |-> a.pre, w |-> a.w],
   exp |-> LET r == CopyRecords(a.src, a.keep, a.cap, a.pre) IN
           IF r.ok = 1 THEN [ok |-> 1, sec |-> r.sec, counts |-> r.counts, w |-> a.w] ELSE [ok |-> 0]]

\* dig
DigWords == {0, 256, 33152, 34176, 10240, 65535, 30739, 34183, 33943, 1055}
DigOpts == {<<>>, <<1232, 0, 0, 1>>, <<512, 1, 0, 0>>, <<65535, 240, 1, 1>>, <<4096, 0, 255, 0>>}
DigArgs == {[w |-> w, id |-> i, nq |-> q, an |-> a.x, ns |-> a.y, ar |-> a.z, opt |-> o, optfirst |-> f] :
              w \in DigWords, i \in {0, 4660, 65535}, q \in {0, 1, 2},
              a \in {[x |-> 0, y |-> 0, z |-> 0], [x |-> 2, y |-> 1, z |-> 0], [x |-> 0, y |-> 1, z |-> 2],
                     [x |-> 1, y |-> 0, z |-> 1]},
              o \in DigOpts, f \in {0, 1}}
\* (extended codes 17..22 are TSIG error values; their text is not defined for OPT)
DigDefined(a) == a.opt = <<>> \/ ~(RcJoin(GetW(a.w, "rcode"), a.opt[2]) \in 17..22)
DigCase(a) ==
  IF Dig(a, {}) = Dig(a, {"D_dig_rcode_low_bits"}) THEN [in |-> [t |-> "dig", d |-> a], exp |-> Dig(a, {})]
  ELSE [in |-> [t |-> "dig", d |-> a], exp |-> Dig(a, {}),
        dev |-> [D_dig_rcode_low_bits |-> Dig(a, {"D_dig_rcode_low_bits"})]]

ArgSet ==
  CASE GKind = "indep" -> GWords
    [] GKind = "rcode" -> RcodeArgs
    [] GKind = "flags" -> 0..127
    [] GKind = "flagparse" -> FlagParseArgs
    [] GKind = "copy" -> CopyArgs
    [] GKind = "dig" -> {a \in DigArgs : DigDefined(a)}
FunCase ==
  CASE GKind = "indep" -> IndepCase(arg)
    [] GKind = "rcode" -> RcodeCase(arg)
    [] GKind = "flags" -> FlagsCase(arg)
    [] GKind = "flagparse" -> FlagParseCase(arg)
    [] GKind = "copy" -> CopyCase(arg)
    [] GKind = "dig" -> DigCase(arg)

FunInit == /\ arg \in ArgSet
           /\ st = Fresh /\ init0 = Fresh /\ hist = <<>> /\ dk = ""
           /\ n = 0 /\ last = [op |-> Op("init", <<>>), r |-> 0, c |-> <<>>]
FunNext == UNCHANGED gvars
FunSpec == FunInit /\ [][FunNext]_gvars
FunEmit == PrintT("CASE " \o ToJson(FunCase))

\* the quick word set: every combination of the eight flag bits with four
\* opcode and four rcode values
QuickWords == {w \in 0..65535 : GetW(w, "opcode") \in {0, 5, 10, 15} /\ GetW(w, "rcode") \in {0, 5, 10, 15}}
AllWords == 0..65535
=============================================================================
