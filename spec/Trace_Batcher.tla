---------------------------- MODULE Trace_Batcher ----------------------------
(* I->S: recorded runs of the real CallbackBatcher (bnew / push / finish    *)
(* with the result and all batches handed out so far) must be behaviours of *)
(* Batcher.tla; the invariants B1, B2, B3, B5 are evaluated on every step.  *)
EXTENDS Batcher, TLC, Json, IOUtils

Rec == ndJsonDeserialize(IOEnv.TRACE)
VARIABLES l
tvars == <<l, prm, open, out, last, acc, clean>>

IsEv(e) == l <= Len(Rec) /\ Rec[l].ev = e /\ l' = l + 1

OutIs(o) == /\ Len(o) = Len(out')
            /\ \A j \in 1 .. Len(o) : /\ o[j].recs = out'[j].recs /\ o[j].fin = out'[j].fin
                                      \* the octets of the message are header + question + records
                                      /\ o[j].size = prm'.H + Sum(o[j].recs)

TInit == l = 1 /\ BInit
T_New == IsEv("bnew") /\ New(Params(Rec[l].H, Rec[l].L, Rec[l].RR, Rec[l].MF))
T_Push == /\ IsEv("push") /\ Push(Rec[l].s)
          /\ ~Boundary(prm.H + Sum(open) + Rec[l].s, prm) /\ ~Boundary(prm.H + Rec[l].s, prm)
          /\ last' = Rec[l].res /\ OutIs(Rec[l].out)
T_Finish == IsEv("finish") /\ Finish /\ last' = Rec[l].res /\ OutIs(Rec[l].out)
TNext == T_New \/ T_Push \/ T_Finish
TSpec == TInit /\ [][TNext]_tvars

Accepted ==
  LET d == TLCGet("stats").diameter
  IN IF d = Len(Rec) + 1 THEN TRUE
     ELSE /\ PrintT("TRACE_REJECTED " \o ToJson([depth |-> d, total |-> Len(Rec),
                        event |-> IF d <= Len(Rec) THEN Rec[d] ELSE [ev |-> "-"]]))
          /\ FALSE
=============================================================================
