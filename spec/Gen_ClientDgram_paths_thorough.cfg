CONSTANTS
  Dev = {}
  RD = 2
  MaxRetries = 1
  MaxDgrams = 3
  MaxOps = 8
  PathMode = TRUE
  Faults <- GFaults
SPECIFICATION GenSpec
ACTION_CONSTRAINT EmitPaths
CHECK_DEADLOCK FALSE
