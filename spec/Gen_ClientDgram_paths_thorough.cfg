CONSTANTS
  Dev = {}
  TickMs = 10000
  Confs <- GConfs
  MaxDgrams = 3
  MaxOps = 8
  PathMode = TRUE
  Faults <- GFaults
SPECIFICATION GenSpec
ACTION_CONSTRAINT EmitPaths
CHECK_DEADLOCK FALSE
