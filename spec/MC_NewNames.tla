---------------------------- MODULE MC_NewNames ----------------------------
(* X10: TLC checks the laws of NewNames.tla over an enumerated space and   *)
(* emits every enumerated point as one implementation case (S->I).  A      *)
(* state is one case (kind, x, y); there are no transitions.               *)
EXTENDS NewNames, Json

CONSTANTS Tier          \* 1 quick, 2 thorough

S == INSTANCE Serial WITH BITS <- 6

VARIABLES kind, x, y
vars == <<kind, x, y>>

--------------------------------------------------------------------------
(* the enumerated space *)
Fill(n, b) == [i \in 1..n |-> b]
la == <<97>>
lA == <<65>>
lb == <<98>>
lz == <<122>>
l1 == <<1>>
l0 == <<0>>
la1z == <<97, 1, 122>>          \* "a\001z": contains what looks like the label "z"
l1z == <<1, 122>>
lstar == <<42>>
ldot == <<46>>
lbs == <<92>>
lff == <<255>>
ladotb == <<97, 46, 98>>
lZ == <<90>>
lBr == <<91>>
NameLabels == IF Tier = 1 THEN {la, lA, lb, lz, l1, l0, la1z, l1z, lstar, lff, lBr}
              ELSE {la, lA, lb, lz, l1, l0, la1z, l1z, lstar, ldot, lbs, lff, ladotb, lZ, lBr}
NamesUpTo2 == {<<>>} \cup {<<p>> : p \in NameLabels} \cup {<<p, q>> : p \in NameLabels, q \in NameLabels}
ExtraNames == { <<la, lb, lz>>, <<lA, lb, lz>>, <<lb, lz>>, <<lstar, la, lb>>, <<la, la1z>>,
                <<la, l1, lz>>, <<ldot, lbs>>, <<ladotb>>, <<Fill(63, 97)>>, <<Fill(63, 65)>>,
                <<Fill(63, 97), Fill(63, 98), Fill(63, 99), Fill(61, 100)>>,      \* 255 octets
                <<Fill(63, 97), Fill(63, 98), Fill(63, 99), Fill(61, 68)>>,
                <<Fill(62, 97), Fill(63, 98), Fill(63, 99), Fill(61, 100)>> }     \* 254 octets
Names == NamesUpTo2 \cup ExtraNames
TripleNames == {<<>>} \cup {<<p>> : p \in {la, lA, lz, l1, la1z, l1z, lBr}}
               \cup {<<p, q>> : p \in {la, lA, l1, la1z}, q \in {lz, la1z, lb}} \cup {<<la, lb, lz>>, <<lb, lz>>}

LabEdge == {0, 1, 64, 65, 90, 91, 96, 97, 122, 123, 255, 42}
NLabels == {<<>>} \cup {<<p>> : p \in LabEdge} \cup {<<p, q>> : p \in LabEdge, q \in LabEdge}
           \cup {Fill(63, 97), Fill(63, 65), Fill(62, 97)}
CharStrs == {<<>>} \cup {<<p>> : p \in LabEdge} \cup {<<p, q>> : p \in {65, 97, 0, 255}, q \in {65, 97, 90, 122}}
            \cup {Fill(255, 97), Fill(255, 65), Fill(254, 97)}

RECURSIVE SeqsUpTo(_, _)
SeqsUpTo(A, n) == IF n = 0 THEN {<<>>}
                  ELSE LET R == SeqsUpTo(A, n - 1) IN R \cup {Append(s, a) : s \in {r \in R : Len(r) = n - 1}, a \in A}

ByteAlpha == {0, 1, 2, 63, 64, 65, 192, 255}
\* names by label lengths around the limits: wire length 253 .. 256, labels 63 / 64
ByLens(ls) == [i \in 1..Len(ls) |-> Fill(ls[i], 96 + i)]
RawWire(ls) == Concat([i \in 1..Len(ls) |-> <<ls[i]>> \o Fill(ls[i], 96 + i)]) \o <<0>>
LimitLens == { <<63, 63, 63, 59>>, <<63, 63, 63, 60>>, <<63, 63, 63, 61>>, <<63, 63, 63, 62>>,
               <<63, 63, 63, 63>>, <<63>>, <<64>>, <<62, 1>>, <<1, 63, 63, 63, 60>>, <<1, 63, 63, 63, 59>>,
               <<61, 63, 63, 63>>, <<62, 63, 63, 63>> }
LimitBytes == {RawWire(ls) : ls \in LimitLens} \cup {RawWire(ls) \o <<5>> : ls \in LimitLens}
              \cup {SubSeq(RawWire(ls), 1, Len(RawWire(ls)) - 1) : ls \in LimitLens}
              \* character strings / size prefixes at their limits
              \cup {<<255>> \o Fill(255, 7), <<255>> \o Fill(254, 7), <<254>> \o Fill(255, 7),
                    <<1, 0>> \o Fill(256, 7), <<1, 0>> \o Fill(255, 7), <<0, 255>> \o Fill(255, 7)}
Bytes == SeqsUpTo(ByteAlpha, IF Tier = 1 THEN 4 ELSE 5) \cup LimitBytes

\* message contents: labels, roots, pointers (192, t + 12) to every offset,
\* into the header (11, 0 .. 11) and forward
MsgAlpha == IF Tier = 1 THEN {0, 1, 97, 192, 11, 12, 13, 14} ELSE {0, 1, 97, 192, 11, 12, 13, 14, 15}
MsgShort == {m \in {<<c, st>> : c \in SeqsUpTo(MsgAlpha, IF Tier = 1 THEN 4 ELSE 5), st \in 0..6} : m[2] <= Len(m[1]) + 1}
\* directed: long names completed through pointers (limits 253 .. 256), pointer
\* chains, pointer to the start of its own run / into the preceding label
Ptr(t) == <<192 + ((t + 12) \div 256), (t + 12) % 256>>
LongMsgs ==
  { <<RawWire(Tail(ls)) \o <<ls[1]>> \o Fill(ls[1], 65) \o Ptr(0), Len(RawWire(Tail(ls)))>> : ls \in LimitLens }
  \cup { <<RawWire(ls), 0>> : ls \in LimitLens }
  \cup { \* chain: z. at 0, y + ptr 0 at 3, x + ptr 3 at 7, name at 11; and parse from every start
         << <<1, 122, 0>> \o <<1, 121>> \o Ptr(0) \o <<1, 120>> \o Ptr(3) \o <<1, 119>> \o Ptr(7), st>> : st \in 0..16 }
  \cup { \* pointer into the label run it ends (D_new_ptr_rule territory: refused), to itself, forward
         << <<1, 97, 0>> \o <<1, 98, 1, 99>> \o Ptr(t), 3>> : t \in {0, 1, 2, 3, 4, 5, 7, 8, 9} }
  \cup { \* the unparsed reader's offset confusion: name at 20 pointing to 13 (message offset 25)
         << Fill(13, 0) \o <<1, 97, 0>> \o Fill(4, 0) \o <<1, 98>> \o Ptr(13), 20>>,
         << Fill(20, 0) \o <<1, 98, 192, 5>>, 20>>,
         << Fill(20, 0) \o <<1, 98, 192, 11>>, 20>>,
         << Fill(20, 0) \o <<1, 98>> \o Ptr(19), 20>>,
         << Fill(20, 0) \o <<1, 98>> \o Ptr(20), 20>>,
         << Fill(20, 0) \o <<1, 98>> \o Ptr(8), 20>>,
         << Fill(20, 0) \o <<1, 98>> \o Ptr(7), 20>> }
Msgs == MsgShort \cup LongMsgs

TextAlpha == {97, 46, 92, 48, 50, 53, 54, 32, 64, 255}
ExtraTexts == { <<92, 50, 53, 53, 46>>, <<92, 50, 53, 54, 46>>, <<92, 48, 52, 54, 46>>, <<97, 92, 46, 98, 46>>,
                <<97, 46, 98, 46>>, <<97, 46, 46>>, <<46, 97, 46>>, <<97, 46, 98>>, <<42, 46, 97, 46>>,
                <<92, 92, 46>>, <<92, 46, 46>>, <<97, 59, 46>>, <<97, 92, 59, 46>>, <<92, 48, 48, 48, 46>>,
                <<92, 49, 43, 50, 46>>, <<92, 43, 49, 50, 46>>, <<92, 57, 57, 57, 46>>, <<92, 32, 46>>,
                <<92, 127, 46>>, <<92, 255, 46>>, <<92, 48, 48>>, <<92, 48, 48, 46>>, <<97, 46, 92>> }
              \cup {ShowName(ByLens(ls)) : ls \in LimitLens \cup {<<63, 63, 63, 61>>}}
              \cup {ShowName(n) : n \in ExtraNames}
              \cup {Fill(k, 97) \o <<46>> : k \in {62, 63, 64, 65}}
              \cup {Fill(k, 97) : k \in {63, 64}}
Texts == SeqsUpTo(TextAlpha, IF Tier = 1 THEN 4 ELSE 5) \cup ExtraTexts

BuildNames == {<<>>, <<la>>, <<lA, lb>>, <<la1z, lZ>>, <<Fill(63, 65)>>,
               <<Fill(63, 97), Fill(63, 98), Fill(63, 99), Fill(61, 68)>>}
BuildKs(n) == {k \in {0, 1, WireLenAbs(n) - 1, WireLenAbs(n), WireLenAbs(n) + 1, WireLenAbs(n) + 2,
                      WireLenAbs(n) + 3, 300} : k >= 0}
BigSizes == {255, 256, 300}

Init ==
  \/ kind = "pair"   /\ x \in Names /\ y \in Names
  \/ kind = "lpair"  /\ x \in NLabels /\ y \in NLabels
  \/ kind = "cpair"  /\ x \in CharStrs /\ y \in CharStrs
  \/ kind = "bytes"  /\ x \in Bytes /\ y = 0
  \/ kind = "msg"    /\ \E m \in Msgs : x = m[1] /\ y = m[2]
  \/ kind = "text"   /\ x \in Texts /\ y = 0
  \/ kind = "show"   /\ x \in Names /\ y = 0
  \/ kind = "build"  /\ x \in BuildNames /\ y \in BuildKs(x)
  \/ kind = "bigbuild" /\ x \in BigSizes /\ y \in {x - 1, x, x + 1, x + 2, x + 3, 70000}
  \/ kind = "serial" /\ x \in S!Val /\ y \in S!Val
  \/ kind = "once"   /\ x = 0 /\ y = 0
Next == FALSE /\ UNCHANGED vars
Spec == Init /\ [][Next]_vars

--------------------------------------------------------------------------
(* the laws *)
LawPairs == kind = "pair" => LawPair(x, y) /\ LawFwdRevAgree(x, y, Dev)
LawLabels == kind = "lpair" => LawLabelPair(x, y)
LawCharStrs == kind = "cpair" => LawCharStrPair(x, y)
LawBytes == kind = "bytes" =>
  /\ LawSplitName(x) /\ LawCharStr(x) /\ LawSizePrefixed(1, x) /\ LawSizePrefixed(2, x)
  /\ (ParseLabel(x).ok <=> (Len(x) >= 1 /\ x[1] <= 63 /\ Len(x) = 1 + x[1]))
  /\ (SplitLabel(x).ok => IsNLabel(SplitLabel(x).label))
  /\ LawSizePrefixedData(1, IF Len(x) <= 255 THEN x ELSE <<>>) /\ LawSizePrefixedData(2, x)
LawMsgs == kind = "msg" => LawMsgName(x, y) /\ LawUnparsed(x, y)
LawTexts == kind = "text" => LawText(x)
LawShows == kind = "show" => LawShow(x) /\ LawRep(x)
LeqT(c) == c <= 0
LawOnce == kind = "once" =>
  /\ \A p, q, r \in TripleNames :
        /\ (LeqT(CanonNameCmp(p, q)) /\ LeqT(CanonNameCmp(q, r))) => LeqT(CanonNameCmp(p, r))
        /\ (LeqT(RevCmpImpl(RevRep(p), RevRep(q))) /\ LeqT(RevCmpImpl(RevRep(q), RevRep(r))))
              => LeqT(RevCmpImpl(RevRep(p), RevRep(r)))
  /\ \A ls \in LimitLens : LawRep(ByLens(ls))
  /\ \A p \in TripleNames : LawShow(p)
\* the transcription of today's Name::cmp is not even transitive on the
\* enumerated names (checked as an expected violation in MC_NewNames_dev)
LawFwdImplTransitive == kind = "once" =>
  \A p, q, r \in TripleNames :
     (LeqT(FwdCmpImpl(FwdRep(p), FwdRep(q))) /\ LeqT(FwdCmpImpl(FwdRep(q), FwdRep(r))))
        => LeqT(FwdCmpImpl(FwdRep(p), FwdRep(r)))
LawSerial == kind = "serial" => S!ImplCmpNew(x, y) = S!Cmp(x, y)

--------------------------------------------------------------------------
(* S->I: expected observations *)
EmitPair == kind = "pair" =>
  PrintT("CASE " \o ToJson([in |-> [kind |-> kind, a |-> FwdRep(x), b |-> FwdRep(y)],
     exp |-> PairExp(x, y, {}),
     dev |-> PairDev(x, y)]))
EmitLabel == kind = "lpair" =>
  PrintT("CASE " \o ToJson([in |-> [kind |-> kind, a |-> x, b |-> y],
     exp |-> [eq |-> NLabelEqImpl(x, y), cmp |-> NLabelCmpImpl(x, y), hash_ok |-> TRUE,
              wild |-> x = <<42>>, root |-> x = <<>>, lower |-> LowerSeq(x), issues |-> NoIssues]]))
EmitCharStr == kind = "cpair" =>
  PrintT("CASE " \o ToJson([in |-> [kind |-> kind, a |-> x, b |-> y],
     exp |-> [eq |-> CharStrEqImpl(x, y), hash_ok |-> TRUE, issues |-> NoIssues]]))

EmitBytes == kind = "bytes" =>
  PrintT("CASE " \o ToJson([in |-> [kind |-> kind, b |-> x], exp |-> BytesExp(x, {}),
     dev |-> BytesDev(x)]))

EmitMsg == kind = "msg" =>
  PrintT("CASE " \o ToJson([in |-> [kind |-> kind, c |-> x, start |-> y], exp |-> MsgExp(x, y, {}),
     dev |-> MsgDev(x, y)]))

EmitText == kind = "text" =>
  PrintT("CASE " \o ToJson([in |-> [kind |-> kind, s |-> x], exp |-> TextExp(x)]))
EmitShow == kind = "show" =>
  PrintT("CASE " \o ToJson([in |-> [kind |-> kind, a |-> FwdRep(x)], exp |-> ShowExp(x)]))
EmitBuild == kind = "build" =>
  PrintT("CASE " \o ToJson([in |-> [kind |-> kind, a |-> FwdRep(x), k |-> y], exp |-> BuildExp(FwdRep(x), y)]))
EmitBigBuild == kind = "bigbuild" =>
  PrintT("CASE " \o ToJson([in |-> [kind |-> kind, n |-> x, k |-> y],
     exp |-> [sp1 |-> BObs(SpBuild(1, Fill(x, 7), y)), sp2 |-> BObs(SpBuild(2, Fill(x, 7), y))]]))
EmitSerial == kind = "serial" =>
  PrintT("CASE " \o ToJson([in |-> [kind |-> kind, a |-> x, b |-> y, bits |-> 6],
     exp |-> [cmp |-> S!Cmp(x, y), inc |-> IF y < S!H THEN S!Add(x, y) ELSE -1, issues |-> NoIssues]]))
=============================================================================
