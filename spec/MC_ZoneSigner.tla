---------------------------- MODULE MC_ZoneSigner ----------------------------
(* X07: sign_zone as a machine over all small zones.  One behaviour per     *)
(* (zone, denial mode, calling convention): GenDenial, then per pass        *)
(* StartPass, one Owner* action per owner group, one Rrset* action per      *)
(* RRset of a visited owner, Extend.  Invariants: the transcribed pass      *)
(* equals the declarative oracle (P1, P2), safety during the pass, the      *)
(* consequences of RFC 4035 2.2 stated independently, closure (P4),         *)
(* refusal (P5).  Every finished behaviour is an S->I case.                 *)
EXTENDS ZoneSigner, Json

CONSTANTS MaxK,        \* owner names besides the apex
          Thorough     \* BOOLEAN: more type sets per name

VARIABLES zone, cfg, phase, coll, passes, groups, gi, ri, cut, sigs,
          aux,    \* the oracle's answer for (zone, cfg), computed once: [want, view]
          acts    \* names of the actions taken so far (vacuity guard, see ActsSeen)
vars == <<zone, cfg, phase, coll, passes, groups, gi, ri, cut, sigs, aux, acts>>

la == <<97>>  lb == <<98>>  lc == <<99>>  lA == <<65>>  lB == <<66>>
ex == <<101, 120>>  Ex == <<69, 120>>  fx == <<102, 120>>

\* owner names as spelled: case variants, a wildcard, names below b.ex (glue
\* or occluded when b.ex is a delegation, ordinary otherwise; one of them
\* spelled a.B.ex), a wildcard below b.ex, a name two levels below b.ex and one
\* below the never-owned c.ex (empty non-terminals), names outside the zone
\* sorting after ("fx.") and before ("a.") it
UNames == {<<la, ex>>, <<lA, ex>>, <<lb, ex>>, <<Star, ex>>,
           <<la, lb, ex>>, <<la, lB, ex>>, <<Star, lb, ex>>, <<la, la, lb, ex>>,
           <<la, lc, ex>>, <<fx>>, <<la>>}
\* type sets: data, a CNAME, an insecure and a secure delegation, a
\* delegation with an address at the cut itself, DS without NS (no cut),
\* DNSKEY/CDS away from the apex (signed like anything else)
Menu6 == {{T_A}, {T_TXT, T_AAAA}, {T_CNAME}, {T_NS}, {T_NS, T_DS}, {T_NS, T_A}}
Menu == Menu6 \cup (IF Thorough THEN {{T_DS}, {T_DNSKEY, T_CDS, T_A}, {T_NS, T_DS, T_TXT}} ELSE {})
\* zones of three further names (thorough tier) always contain b.ex and use
\* the six basic type sets
MenuFor(S) == IF Cardinality(S) >= 3 THEN Menu6 ELSE Menu
ApexSets == <<{T_SOA, T_NS}, {T_SOA, T_NS, T_DNSKEY, T_CDS, T_CDNSKEY, T_A, T_TXT}>>

Soas == <<[ttl |-> 3600, min |-> 300], [ttl |-> 100, min |-> 7200]>>
TtlOf(n, t, soa) == CASE t = T_SOA -> soa.ttl [] t = T_NS -> 3600 [] t = T_A -> 60 + Len(n)
                      [] t = T_TXT -> 300 [] t = T_DS -> 1800 [] OTHER -> 600 + t
CntOf(t) == IF t \in {T_A, T_NS, T_DNSKEY} THEN 2 ELSE 1
Ents(n, ts, soa) == {RRs(n, t, TtlOf(n, t, soa), CntOf(t)) : t \in ts}

ZoneOk(S, f) == \A m, n \in S : (m # n /\ NameEq(m, n)) => f[m] \cap f[n] = {}
\* a few hand-picked larger zones (5-6 owners)
Extra(soa) == {
  \* delegation with glue below and beside it, occluded wildcard, name after the zone
  Ents(<<lb, ex>>, {T_NS, T_DS}, soa) \cup Ents(<<la, lb, ex>>, {T_A}, soa)
    \cup Ents(<<Star, lb, ex>>, {T_TXT}, soa) \cup Ents(<<la, la, lb, ex>>, {T_NS}, soa)
    \cup Ents(<<la, ex>>, {T_A}, soa) \cup Ents(<<fx>>, {T_A}, soa),
  \* the child's apex data at the delegation point, mixed case, wildcard, ENT
  Ents(<<lB, ex>>, {T_NS, T_SOA, T_TXT}, soa) \cup Ents(<<la, lb, ex>>, {T_A}, soa)
    \cup Ents(<<Star, ex>>, {T_A, T_TXT}, soa) \cup Ents(<<la, lc, ex>>, {T_CNAME}, soa)
    \cup Ents(<<lA, ex>>, {T_NS}, soa) \cup Ents(<<la>>, {T_A}, soa) }

\* --- configuration, derived from the zone so that the space stays small
K1(apexS) == [flags |-> 256, proto |-> 3, alg |-> 15, owner |-> apexS,
              pub |-> [i \in 1..32 |-> (i * 7 + 3) % 256]]
K2 == [flags |-> 257, proto |-> 3, alg |-> 13, owner |-> <<Ex>>,
       pub |-> [i \in 1..64 |-> (i * 11 + 5) % 256]]
ValidPeriods == << [inc |-> <<0, 0>>,         exp |-> <<0, 100>>],
                   [inc |-> <<65535, 65000>>, exp |-> <<0, 100>>],      \* across the wrap
                   [inc |-> <<0, 100>>,       exp |-> <<0, 100>>],      \* equal
                   [inc |-> <<0, 0>>,         exp |-> <<32768, 0>>] >>  \* distance 2^31: not "less"
BadPeriods == { [inc |-> <<0, 200>>, exp |-> <<0, 100>>],
                [inc |-> <<0, 0>>,   exp |-> <<32768, 1>>],
                [inc |-> <<0, 100>>, exp |-> <<65535, 65000>>] }
Closure(S) == UNION {{Suffix(n, k) : k \in 1..Len(n)} : n \in S}
RankOf(z, r) ==
  LET S == Closure({Low(e.n) : e \in z})
      N == Cardinality(S)
  IN TLCEval([n \in S |->
        LET i == 1 + Cardinality({m \in S : CanonNameCmp(m, n) < 0})
        IN CASE r = 0 -> i
             [] r = 1 -> N + 1 - i
             [] OTHER -> ((i + (N \div 2)) % N) + 1])
MkCfg(z, apexS, soa, den, mode, per) ==
  LET hz == Cardinality(z) IN
  [apex |-> apexS, den |-> den, mode |-> mode, soa |-> soa, assume |-> TRUE,
   keys |-> IF hz % 2 = 0 THEN <<K1(apexS)>> ELSE <<K1(apexS), K2>>,
   inc |-> per.inc, exp |-> per.exp,
   rank |-> IF den \in {"nsec3", "optout"} THEN RankOf(z, hz % 3) ELSE <<>>]

Dens == {"none", "nsec", "nsec3", "optout"}
Modes == {"inplace", "into"}

Apex == cfg.apex

Init ==
  /\ \E S \in SUBSET UNames :
       /\ Cardinality(S) <= MaxK
       /\ (Cardinality(S) >= 3 => <<lb, ex>> \in S)
       /\ \E f \in [S -> MenuFor(S)] :
            /\ ZoneOk(S, f)
            /\ LET hs   == Cardinality(S) + Cardinality({n \in S : T_NS \in f[n]})
                   soa  == Soas[(hs % 2) + 1]
                   apxS == IF hs % 3 = 0 THEN <<Ex>> ELSE <<ex>>
                   z0   == Ents(<<ex>>, ApexSets[(hs % 2) + 1], soa)
                           \cup UNION {Ents(n, f[n], soa) : n \in S}
               IN \E z \in {z0} \cup (IF S = {} THEN {Ents(<<ex>>, ApexSets[1], soa) \cup x : x \in Extra(soa)}
                                      ELSE {}) :
                    /\ zone = z
                    /\ \E den \in Dens, mode \in Modes :
                       /\ (mode = "into" => den # "optout")
                       \* the quick tier thins out the configurations of two-name zones, the
                       \* thorough tier those of three-name zones
                       /\ ((Thorough /\ Cardinality(S) <= 2) \/ Cardinality(S) <= 1 \/
                             (den # "none" /\ (mode = "into" => hs % 2 = 0)))
                       /\ \E per \in (IF Cardinality(S) <= 1 THEN BadPeriods ELSE {})
                                     \cup {ValidPeriods[((Cardinality(z) + hs) % 4) + 1]} :
                             cfg = MkCfg(z, apxS, soa, den, mode, per)
  /\ phase = "start" /\ coll = (IF cfg.mode = "inplace" THEN zone ELSE {})
  /\ passes = <<>> /\ groups = <<>> /\ gi = 0 /\ ri = 0 /\ cut = None /\ sigs = <<>>
  /\ acts = {}
  /\ aux = LET w == SignedZone(zone, cfg.apex, cfg)
           IN [want |-> w, view |-> View(zone \cup w.den, cfg.apex),
               osigs |-> IF w.err THEN OracleSigs(zone \cup w.den, cfg.apex, cfg) ELSE w.sigs]

\* sign_zone: generate the denial records, sorted_extend them into the
\* collection written to (the zone itself, or `out`), then sign
\* `as_out_slice()`.  The repaired sign-into path also signs `as_slice()`.
GenDenial ==
  /\ phase = "start"
  /\ LET d == DenialOf(zone, Apex, cfg)
     IN IF d.err THEN phase' = "err" /\ UNCHANGED <<coll, passes>>
        ELSE /\ coll' = coll \cup d.recs
             /\ IF cfg.keys = <<>> THEN phase' = "done" /\ passes' = <<>>
                ELSE /\ phase' = "pass"
                     /\ passes' = IF cfg.mode = "inplace" \/ "D_sign_into_skips_zone" \in Dev
                                  THEN <<coll'>> ELSE <<coll', zone>>
  /\ UNCHANGED <<aux, zone, cfg, groups, gi, ri, cut, sigs>>

\* RecordsIter::new_from_owned + skip_before
StartPass ==
  /\ phase = "pass" /\ passes # <<>>
  /\ groups' = Groups(SortRecs(Head(passes)), Apex)
  /\ passes' = Tail(passes)
  /\ gi' = 1 /\ ri' = 0 /\ cut' = None /\ phase' = "owner"
  /\ UNCHANGED <<aux, zone, cfg, coll, sigs>>

AtOwner == phase = "owner" /\ gi <= Len(groups)
OwnerEnd ==                      \* the iterator is exhausted
  /\ phase = "owner" /\ gi > Len(groups)
  /\ phase' = "pass"
  /\ UNCHANGED <<aux, zone, cfg, coll, passes, groups, gi, ri, cut, sigs>>
OwnerBreak ==                    \* out of zone: done
  /\ AtOwner /\ OwnerVerdict(cut, groups[gi], Apex) = "break"
  /\ phase' = "pass"
  /\ UNCHANGED <<aux, zone, cfg, coll, passes, groups, gi, ri, cut, sigs>>
OwnerSkip ==                     \* below the cut: ignored, `cut` kept
  /\ AtOwner /\ OwnerVerdict(cut, groups[gi], Apex) = "skip"
  /\ gi' = gi + 1
  /\ UNCHANGED <<aux, zone, cfg, phase, coll, passes, groups, ri, cut, sigs>>
OwnerVisit ==                    \* `cut` is set or cleared here
  /\ AtOwner /\ OwnerVerdict(cut, groups[gi], Apex) = "visit"
  /\ cut' = NewCut(groups[gi], Apex)
  /\ ri' = 1 /\ phase' = "rrset"
  /\ UNCHANGED <<aux, zone, cfg, coll, passes, groups, gi, sigs>>

CurE == groups[gi][ri]
CurSigned == RrsetSigned(cut, GOwner(groups[gi]), Apex, CurE.t)
Advance ==
  IF ri < Len(groups[gi]) THEN ri' = ri + 1 /\ UNCHANGED <<gi, phase>>
  ELSE ri' = 0 /\ gi' = gi + 1 /\ phase' = "owner"
RrsetSkip ==
  /\ phase = "rrset" /\ ~CurSigned
  /\ Advance
  /\ UNCHANGED <<aux, zone, cfg, coll, passes, groups, cut, sigs>>
RrsetSign ==                     \* one RRSIG per key
  /\ phase = "rrset" /\ CurSigned /\ ~PeriodRefused(cfg)
  /\ sigs' = sigs \o KeySigs(CurE, cfg)
  /\ Advance
  /\ UNCHANGED <<aux, zone, cfg, coll, passes, groups, cut>>
RrsetRefuse ==                   \* sign_sorted_rrset_in returns Err, `?` propagates
  /\ phase = "rrset" /\ CurSigned /\ PeriodRefused(cfg)
  /\ phase' = "err"
  /\ UNCHANGED <<aux, zone, cfg, coll, passes, groups, gi, ri, cut, sigs>>

\* sorted_extend(rrsigs); the signatures are kept apart from `coll` here
Extend ==
  /\ phase = "pass" /\ passes = <<>>
  /\ phase' = "done"
  /\ UNCHANGED <<aux, zone, cfg, coll, passes, groups, gi, ri, cut, sigs>>

Act(a) == acts' = acts \cup {a}
Next ==
  \/ (GenDenial /\ Act("GenDenial"))
  \/ (StartPass /\ Act("StartPass"))
  \/ (OwnerEnd /\ Act("OwnerEnd"))
  \/ (OwnerBreak /\ Act("OwnerBreak"))
  \/ (OwnerSkip /\ Act("OwnerSkip"))
  \/ (OwnerVisit /\ Act("OwnerVisit"))
  \/ (RrsetSkip /\ Act("RrsetSkip"))
  \/ (RrsetSign /\ Act("RrsetSign"))
  \/ (RrsetRefuse /\ Act("RrsetRefuse"))
  \/ (Extend /\ Act("Extend"))
Spec == Init /\ [][Next]_vars

--------------------------------------------------------------------------
(* Properties *)
Want == aux.want
DenSet == aux.want.den
Full == zone \cup DenSet
DenTypes == {T_NSEC, T_NSEC3, T_NSEC3PARAM}
IntoDev == cfg.mode = "into" /\ "D_sign_into_skips_zone" \in Dev

\* P1 + P2 for the transcription (as built when a deviation is switched on)
DoneMatchesOracle ==
  phase = "done" =>
    LET w == Want
        expect == IF IntoDev THEN {s \in w.sigs : s.cov \in DenTypes} ELSE w.sigs
    IN /\ (w.err => IntoDev /\ cfg.den = "none")   \* as built: nothing to sign, nothing refused
       /\ Range(sigs) = expect
       /\ Len(sigs) = Cardinality(expect)                 \* exactly one per key per RRset
       /\ coll = (IF cfg.mode = "inplace" THEN zone \cup w.den ELSE w.den)
\* P2: zone + out is the signed zone (fails as built: D_sign_into_skips_zone)
IntoSignsWholeZone ==
  (phase = "done" /\ cfg.mode = "into") => Range(sigs) = Want.sigs
\* P5
ErrMatchesOracle ==
  phase = "err" => Want.err /\ sigs = <<>> /\ (cfg.mode = "inplace" => zone \subseteq coll)
NoSpuriousErr == (phase = "done" /\ ~IntoDev) => ~Want.err

\* safety while the pass runs: nothing that must not be signed is ever
\* signed, and the `cut` state means what the comment in the code says
PrefixSafe ==
  phase \in {"pass", "owner", "rrset"} =>
    Range(sigs) \subseteq aux.osigs
\* (holds for a pass over a collection that contains the zone; the first pass
\* of the sign-into path sees the generated records only - no NS, no cuts)
PassSeesZone == cfg.mode = "inplace" \/ (passes = <<>> /\ "D_sign_into_skips_zone" \notin Dev)
CutStateCorrect ==
  (phase = "rrset" /\ PassSeesZone) =>
    LET v == aux.view
        o == Low(GOwner(groups[gi]))
    IN /\ o \in v.auth
       /\ (cut.some <=> o \in v.cuts)
       /\ (cut.some => NameEq(cut.n, GOwner(groups[gi])))

\* RFC 4035 2.2 / 2.3, RFC 5155 7.1 consequences, stated without SignedRRsets
SigAt(n, t) == {i \in 1..Len(sigs) : Low(sigs[i].n) = n /\ sigs[i].cov = t}
Consequences ==
  (phase = "done" /\ ~IntoDev) =>
    LET nk == Len(cfg.keys)
        ap == Low(Apex)
    IN /\ \A i \in 1..Len(sigs) :
            LET n == Low(sigs[i].n) IN
            /\ IsSubdomain(n, ap)                                   \* nothing outside the zone
            /\ ~BelowCut(zone, Apex, n)                             \* no glue, nothing occluded
            /\ (sigs[i].cov = T_NS => n = ap)                       \* delegation NS unsigned
            /\ (IsCut(zone, Apex, n) => sigs[i].cov \in {T_DS, T_NSEC})
            /\ sigs[i].cov # T_RRSIG
            /\ NameEq(sigs[i].signer, Apex)
       /\ \A d \in DenSet : Cardinality(SigAt(Low(d.n), d.t)) = nk   \* every NSEC(3)(PARAM) signed
       /\ Cardinality(SigAt(ap, T_SOA)) = nk /\ Cardinality(SigAt(ap, T_NS)) = nk
       /\ \A e \in zone :                                           \* DS at a cut is signed
            (e.t = T_DS /\ IsCut(zone, Apex, Low(e.n)) /\ ~BelowCut(zone, Apex, Low(e.n)))
               => Cardinality(SigAt(Low(e.n), T_DS)) = nk
       /\ \A e \in zone :                                           \* wildcard: label not counted
            (IsWildcard(e.n) /\ SigAt(Low(e.n), e.t) # {}) =>
               \A i \in SigAt(Low(e.n), e.t) : sigs[i].labels = Len(e.n) - 1

\* P4 in the model
ClosureHolds ==
  (phase = "done" /\ ~IntoDev) =>
    \A e \in SignedRRsetsV(aux.view, Full, Apex) : \A ki \in 1..Len(cfg.keys) :
       \E i \in 1..Len(sigs) :
          sigs[i].key = ki /\ RrsigAcceptable(sigs[i], e, Apex, cfg.keys[ki])

\* the two sides of the zone-key / signer relation in the configuration
CfgOk == \A ki \in 1..Len(cfg.keys) : NameEq(cfg.keys[ki].owner, Apex)

--------------------------------------------------------------------------
(* S->I cases: one per finished behaviour *)
\* vacuity guard (TLC's -coverage is prohibitively slow on this module): every
\* finished behaviour reports the actions it took; the driver requires each
\* action in the union
ActsSeen == phase \in {"done", "err"} => PrintT("ACTS " \o ToJson(SortSetBy(acts, LAMBDA a, b : FALSE)))
SortSeqBy(S, Less(_, _)) == SortSetBy(S, Less)
NameOfHash(l) ==      \* the name whose hash label is l
  CHOOSE x \in DOMAIN cfg.rank : HLabel(cfg.rank[x]) = l
Hashed(e) == e.t = T_NSEC3
OwnerKey(n, t) == IF t = T_NSEC3 THEN [h |-> 1, n |-> NameOfHash(n[1])] ELSE [h |-> 0, n |-> Low(n)]
KeyLess(a, ta, ka, b, tb, kb) ==
  LET x == OwnerKey(a, ta)  y == OwnerKey(b, tb)
  IN IF x.h # y.h THEN x.h < y.h
     ELSE LET c == CanonNameCmp(x.n, y.n)
          IN IF c # 0 THEN c < 0 ELSE IF ta # tb THEN ta < tb ELSE ka < kb
SigJ(s) == LET k == OwnerKey(s.n, s.cov)
           IN [h |-> k.h, n |-> k.n, cov |-> s.cov, key |-> s.key, alg |-> s.alg, labels |-> s.labels,
               ttl |-> s.ttl, ottl |-> s.ottl, exp |-> s.exp, inc |-> s.inc, tag |-> s.tag,
               signer |-> Low(s.signer)]
SigsJ(S) == LET q == SortSeqBy(S, LAMBDA a, b : KeyLess(a.n, a.cov, a.key, b.n, b.cov, b.key))
            IN [i \in 1..Len(q) |-> SigJ(q[i])]
DenJ(S) == LET q == SortSeqBy(S, LAMBDA a, b : KeyLess(a.n, a.t, 0, b.n, b.t, 0))
           IN [i \in 1..Len(q) |-> LET k == OwnerKey(q[i].n, q[i].t)
                                   IN [h |-> k.h, n |-> k.n, t |-> q[i].t, ttl |-> q[i].ttl]]
ZoneJ == LET s == SortRecs(zone) IN [i \in 1..Len(s) |-> s[Len(s) + 1 - i]]   \* handed over reversed
SaltOf == IF Cardinality(zone) % 2 = 0 THEN <<>> ELSE <<171, 205>>
ItersOf == Cardinality(zone) % 3
N3J == IF cfg.den \in {"nsec3", "optout"}
       THEN LET names == SortNames(N3Names(zone, Apex, cfg.den = "optout"))
            IN [i \in 1..Len(names) |-> [n |-> names[i], term |-> Nsec3Term(names[i], SaltOf, ItersOf)]]
       ELSE <<>>
\* P4 on the real code: for a third of the cases the executor signs once more
\* with real keys, verifies every RRSIG, and asks the real validator about
\* every RRset the oracle says is signed (wildcard owners and NSEC3 RRsets
\* aside): all must be Secure
DoClosure == (Cardinality(zone) + Len(cfg.keys)) % 3 = 0
AskJ == IF ~DoClosure THEN <<>>
        ELSE LET q == SortSeqBy({e \in SignedRRsetsV(aux.view, Full, Apex) : ~IsWildcard(e.n) /\ e.t # T_NSEC3},
                                LAMBDA a, b : KeyLess(a.n, a.t, 0, b.n, b.t, 0))
             IN [i \in 1..Len(q) |-> [n |-> Low(q[i].n), t |-> q[i].t]]
OutJ(w, S, v) == [err |-> FALSE, sigs |-> SigsJ(S), den |-> DenJ(w.den), rest |-> TRUE,
                  order_independent |-> TRUE, verified |-> v]
Emit ==
  phase \in {"done", "err"} =>
    LET w == Want
        input == [kind |-> "sign", apex |-> Apex, mode |-> cfg.mode, den |-> cfg.den, soa |-> cfg.soa,
                  keys |-> cfg.keys, inc |-> TsOctets(cfg.inc), exp |-> TsOctets(cfg.exp),
                  rrsets |-> ZoneJ, salt |-> SaltOf, iters |-> ItersOf, names |-> N3J,
                  closure |-> DoClosure, ask |-> AskJ]
    IN IF w.err
       THEN IF cfg.mode = "into" /\ cfg.den = "none"
            THEN PrintT("CASE " \o ToJson([in |-> input, exp |-> [err |-> TRUE, rest |-> TRUE],
                                            dev |-> [D_sign_into_skips_zone |-> OutJ(w, {}, ~DoClosure)]]))
            ELSE PrintT("CASE " \o ToJson([in |-> input, exp |-> [err |-> TRUE, rest |-> TRUE]]))
       ELSE IF cfg.mode = "into"
       THEN PrintT("CASE " \o ToJson(
              [in |-> input, exp |-> OutJ(w, w.sigs, TRUE),
               dev |-> [D_sign_into_skips_zone |->
                          OutJ(w, {s \in w.sigs : s.cov \in DenTypes}, ~DoClosure)]]))
       ELSE PrintT("CASE " \o ToJson([in |-> input, exp |-> OutJ(w, w.sigs, TRUE)]))
=============================================================================
