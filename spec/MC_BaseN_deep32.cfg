CONSTANTS
  Dev = {}
  MaxLen = 9
  Deep32 = TRUE
  MaxOct = 1
SPECIFICATION Spec
INVARIANT MachineEqualsFunction
INVARIANT IndexInBounds
INVARIANT PushErrImpliesReject
INVARIANT ChunkingIrrelevant
INVARIANT EmitDec
PROPERTY ErrorsSticky
CHECK_DEADLOCK FALSE
