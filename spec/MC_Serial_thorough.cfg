CONSTANTS
  Sites <- SiteTable
  BITS = 9
SPECIFICATION Spec
INVARIANT ITypeOK
INVARIANT IAntisymmetric
INVARIANT IUndefExactly
INVARIANT IImplMatches
INVARIANT IImplAddMatches
INVARIANT IQuantified
PROPERTY PAddGreater
PROPERTY PShiftInvariant
PROPERTY PSwapFlips
CHECK_DEADLOCK FALSE
