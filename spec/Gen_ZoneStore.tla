---------------------------- MODULE Gen_ZoneStore ----------------------------
(* S->I behaviour generator: a history variable records every action with   *)
(* the specification's expectation for the observations the executor makes  *)
(* after it; one CASE line per behaviour.                                   *)
EXTENDS MC_ZoneStore

CONSTANT MaxHist
VARIABLES hist,
  gcfg       \* what is fixed for the whole behaviour: [apx |-> index of the spelling of the
             \* apex the zone is created with, br |-> the route by which it is built]

\* ---- variants.  The API is driven with names in varying spellings and through
\* its alternative routes; which one is used where is a deterministic function of
\* the position in the behaviour (TLC's simulation varies the behaviours).
\* Build routes:
\*   "new"      parsed::Zonefile::new(apex, class), insert, ZoneBuilder::try_from, build
\*   "soa"      parsed::Zonefile::default(): apex and class are taken from the SOA,
\*              the first record
\*   "origin"   Zonefile::new(<another name>, class), then set_origin(apex)
\*   "text"     presentation format -> inplace::Zonefile -> Zone::try_from
\*   "builder"  ZoneBuilder::new + insert_zone_cut / insert_cname / insert_rrset with the
\*              classification of BuildStore
\* Query routes: "zone" = Zone::read().query(); "tree" = the zone is looked up in a
\*   ZoneTree (find_zone / get_zone) among other zones first.
\* Observation routes: "msg" = Answer::to_message; "get" = rcode() / content() / first().
BuildRoutes == <<"new", "soa", "origin", "text", "builder">>
Mix(a, b) == (a * 1103 + b * 769 + 13) % 1009
NameNum(n) == IF n = <<>> THEN 0 ELSE n[1][1] + 3 * Len(n) + (IF Len(n) > 1 THEN 7 * n[2][1] ELSE 0)
TypeOrder == <<"SOA", "NS", "A", "AAAA", "CNAME", "DS", "TXT", "ANY">>
TypeNum(t) == CHOOSE i \in 1..Len(TypeOrder) : TypeOrder[i] = t
\* (not the length of the history: the expectation is part of the history)
Pos == 3 * nops + 5 * current + 7 * Cardinality(zf) + 11 * Cardinality(store.nodes) + gcfg.apx + 2 * gcfg.br
ApexSp == ApexSpellings[gcfg.apx]

\* the query (qn, qt) as it is put to the API at this point of the behaviour
QSpell(qn, qt) ==
  LET h == Mix(Pos, NameNum(qn) * 11 + TypeNum(qt))
  IN [sq |-> SpellAbs(qn, h % (2 ^ Len(qn)), 1 + ((h \div 8) % 3)),
      rt |-> IF (h \div 32) % 3 = 0 THEN "tree" ELSE "zone",
      ob |-> IF (h \div 128) % 3 = 0 THEN "get" ELSE "msg"]

\* expectation for one query against version v: the admissible answers
\* (ideal), and -- where the transcription with the open deviations predicts
\* something else -- each such answer with the deviations that explain it
\* (TLC passes operator arguments and LET definitions unevaluated and evaluates them
\* again at every use; `x \in {expr}` binds the value)
ChkS(v, qn, qt, s) ==
  LET c == QueryAbs(store, v, ApexSp, s.sq, qt, Dev)
  IN CHOOSE r \in {[v |-> v, qn |-> qn, qt |-> qt, exp |-> e, sq |-> s.sq, rt |-> s.rt, ob |-> s.ob,
                    dev |-> {[ans |-> a, blame |-> IF a = OutOfZone THEN {} ELSE BlameOf(v, qn, qt, a)] : a \in c \ e}] :
                     e \in {AnswerAbs(committed[v], ApexLabels, s.sq, qt)}} : TRUE
Chk(v, qn, qt) == CHOOSE r \in {ChkS(v, qn, qt, s) : s \in {QSpell(qn, qt)}} : TRUE
\* names outside the zone: query() says so; a server that looks the name up in its
\* ZoneTree finds no zone and answers REFUSED
ChkOut(v, full, k) ==
  LET tree == Mix(Pos, k) % 2 = 0
      c == QueryAbs(store, v, ApexSp, full, "A", Dev)
      e == IF tree THEN {Refused} ELSE AnswerAbs(committed[v], ApexLabels, full, "A")
  IN [v |-> v, qn |-> full, qt |-> "A", sq |-> full, rt |-> IF tree THEN "tree" ELSE "zone", ob |-> "msg",
      exp |-> e, dev |-> {[ans |-> a, blame |-> {}] : a \in (IF tree THEN {} ELSE c \ e)}]
OutChks(v) == {ChkOut(v, OutProbeSeq[i], i) : i \in DOMAIN OutProbeSeq}

\* C09: the reference is the answer the version gave when it was published
Chk9(v, qn, qt) ==
  LET e == SnapAnswer(v, qn, qt)
      c == ConcreteAnswer(store, v, qn, qt, Dev)
  IN [v |-> v, qn |-> qn, qt |-> qt, exp |-> e,
      dev |-> {[ans |-> a, blame |-> {"D_unversioned_node_creation"}] : a \in c \ e}]

WalkChk(v) ==
  LET w == WalkOf(store, v, Dev)
  IN [on |-> TRUE, v |-> v, exp |-> committed[v],
      dev |-> IF w = committed[v] THEN {}
              ELSE {[ans |-> w, blame |-> {d \in Dev : WalkOf(store, v, Dev \ {d}) # w}]}]
NoWalk == [on |-> FALSE]

FreshPoint == act.a \in {"Build", "CommitPushVersion", "DropWriter"}

\* the action as the executor performs it: names spelled, routes chosen
HasName == act.a \in {"ZfInsert", "ZfReject", "W_UpdateChild", "W_UpdateRrset", "W_RemoveRrset", "W_RemoveAll",
                      "W_MakeRegular", "W_MakeCname", "W_MakeZoneCut", "U_AddRecord", "U_DeleteRecord"}
BuildParts ==       \* the classification BuildStore makes, for the "builder" route
  LET S == BuildStore(zf)
  IN [cuts |-> {[n |-> n, ns |-> Stored(S, 0, n).ns, ds |-> Stored(S, 0, n).ds, glue |-> Stored(S, 0, n).glue] :
                  n \in {m \in S.nodes : Stored(S, 0, m).k = "Cut"}},
      cnames |-> {[n |-> n, x |-> Stored(S, 0, n).val] : n \in {m \in S.nodes : Stored(S, 0, m).k = "Cname"}},
      plain |-> {[n |-> p[1], t |-> p[2], xs |-> LiveVals(S, 0, p[1], p[2])] :
                   p \in {q \in (S.nodes \cup {Apex}) \X Types : LiveVals(S, 0, q[1], q[2]) # {}}}]
OpOut ==
  LET h == Mix(Pos, 7)
      base == act @@ [apx |-> ApexSp, br |-> BuildRoutes[gcfg.br]]
  IN IF HasName THEN base @@ [sn |-> SpellAbs(act.n, h % (2 ^ Len(act.n)), 1 + ((h \div 8) % 3))]
     ELSE IF act.a = "Open" THEN base @@ [diff |-> h % 2 = 0]
     ELSE IF act.a = "Build" /\ BuildRoutes[gcfg.br] = "builder" THEN base @@ [parts |-> BuildParts]
     ELSE base

StepOut ==
  [op |-> OpOut,
   chk |-> IF act.a \in {"Build", "CommitPushVersion"}
             THEN {Chk(current, q[1], q[2]) : q \in Queries} \cup OutChks(current)
           ELSE IF act.a = "DropWriter" THEN {Chk9(current, q[1], q[2]) : q \in Queries}
           ELSE IF act.a = "ReaderQuery" THEN {Chk9(act.v, act.qn, qt) : qt \in QTypes}
           ELSE {},
   \* C09 generator (Readers # {}): what a new reader gets right after a commit is
   \* exactly the published version -- nothing of earlier abandoned sessions
   chk9 |-> IF Readers # {} /\ act.a \in {"Build", "CommitPushVersion"}
            THEN {Chk9(current, q[1], q[2]) : q \in Queries} ELSE {},
   walk |-> IF FreshPoint THEN WalkChk(current)
            ELSE IF act.a = "ReaderWalk" THEN WalkChk(act.v) ELSE NoWalk]

GCfgs == [apx : 1..3, br : 1..Len(BuildRoutes)]
GenInit == Init /\ hist = <<>> /\ gcfg \in GCfgs

\* ---- directed generator for the zone-file route: every valid combination of
\* two delegations (a. and b.), their name servers (a.a. below the first cut,
\* b. the second cut's own owner, o. outside) and the A / AAAA glue of each
\* host; the behaviour is "Build", then all queries
DelegationRecs ==
  {Rec(<<la>>, "NS", 1), Rec(<<la>>, "NS", 3), Rec(<<la>>, "DS", 1),
   Rec(<<lb>>, "NS", 1),
   Rec(<<la, la>>, "A", 1), Rec(<<la, la>>, "AAAA", 1),
   Rec(<<lb>>, "A", 1), Rec(<<lb>>, "AAAA", 1)}
DirectedZones ==
  {z \in {{Rec(Apex, "SOA", 1)} \cup s : s \in SUBSET DelegationRecs} :
     ValidZone(z) /\ \E r \in z : TypeOf(r) = "NS"}
GenInitDirected ==
  /\ \E z \in DirectedZones : InitWith(z)
  /\ hist = <<>>
  /\ gcfg = [apx |-> 1 + (Cardinality(zf) % 3),
             br |-> 1 + ((Cardinality(zf) + Cardinality({r \in zf : TypeOf(r) = "A"})) % Len(BuildRoutes))]
\* padding keeps every behaviour alive up to MaxHist steps (one CASE line each)
Pad == UNCHANGED vars /\ hist' = Append(hist, [op |-> [a |-> "Pad"], chk |-> {}, chk9 |-> {}, walk |-> NoWalk])
GenNext == Len(hist) < MaxHist /\ UNCHANGED gcfg /\ ((Next /\ hist' = Append(hist, StepOut')) \/ Pad)
GenSpec == GenInit /\ [][GenNext]_<<vars, hist, gcfg>>
GenSpecDirected == GenInitDirected /\ [][GenNext]_<<vars, hist, gcfg>>

GenView == <<svars, hist, gcfg>>

EmitBehaviour ==
  Len(hist) = MaxHist => PrintT("CASE " \o ToJson([steps |-> hist]))
=============================================================================
