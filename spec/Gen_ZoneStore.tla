---------------------------- MODULE Gen_ZoneStore ----------------------------
(* S->I behaviour generator: a history variable records every action with   *)
(* the specification's expectation for the observations the executor makes  *)
(* after it; one CASE line per behaviour.                                   *)
EXTENDS MC_ZoneStore

CONSTANT MaxHist
VARIABLE hist

\* expectation for one query against version v: the admissible answers
\* (ideal), and -- where the transcription with the open deviations predicts
\* something else -- each such answer with the deviations that explain it
Chk(v, qn, qt) ==
  LET e == Admissible(v, qn, qt)
      c == ConcreteAnswer(store, v, qn, qt, Dev)
  IN [v |-> v, qn |-> qn, qt |-> qt, exp |-> e,
      dev |-> {[ans |-> a, blame |-> BlameOf(v, qn, qt, a)] : a \in c \ e}]

\* C09: the reference is the answer the version gave when it was published
Chk9(v, qn, qt) ==
  LET e == SnapAnswer(v, qn, qt)
      c == ConcreteAnswer(store, v, qn, qt, Dev)
  IN [v |-> v, qn |-> qn, qt |-> qt, exp |-> e,
      dev |-> {[ans |-> a, blame |-> {"D_unversioned_node_creation"}] : a \in c \ e}]

WalkChk(v) ==
  LET w == WalkOf(store, v, Dev)
  IN [on |-> TRUE, v |-> v, exp |-> committed[v],
      dev |-> IF w = committed[v] THEN {}
              ELSE {[ans |-> w, blame |-> {d \in Dev : WalkOf(store, v, Dev \ {d}) # w}]}]
NoWalk == [on |-> FALSE]

FreshPoint == act.a \in {"Build", "CommitPushVersion", "DropWriter"}

StepOut ==
  [op |-> act,
   chk |-> IF act.a \in {"Build", "CommitPushVersion"} THEN {Chk(current, q[1], q[2]) : q \in Queries}
           ELSE IF act.a = "DropWriter" THEN {Chk9(current, q[1], q[2]) : q \in Queries}
           ELSE IF act.a = "ReaderQuery" THEN {Chk9(act.v, act.qn, qt) : qt \in QTypes}
           ELSE {},
   \* C09 generator (Readers # {}): what a new reader gets right after a commit is
   \* exactly the published version -- nothing of earlier abandoned sessions
   chk9 |-> IF Readers # {} /\ act.a \in {"Build", "CommitPushVersion"}
            THEN {Chk9(current, q[1], q[2]) : q \in Queries} ELSE {},
   walk |-> IF FreshPoint THEN WalkChk(current)
            ELSE IF act.a = "ReaderWalk" THEN WalkChk(act.v) ELSE NoWalk]

GenInit == Init /\ hist = <<>>

\* ---- directed generator for the zone-file route: every valid combination of
\* two delegations (a. and b.), their name servers (a.a. below the first cut,
\* b. the second cut's own owner, o. outside) and the A / AAAA glue of each
\* host; the behaviour is "Build", then all queries
DelegationRecs ==
  {Rec(<<la>>, "NS", 1), Rec(<<la>>, "NS", 3), Rec(<<la>>, "DS", 1),
   Rec(<<lb>>, "NS", 1),
   Rec(<<la, la>>, "A", 1), Rec(<<la, la>>, "AAAA", 1),
   Rec(<<lb>>, "A", 1), Rec(<<lb>>, "AAAA", 1)}
DirectedZones ==
  {z \in {{Rec(Apex, "SOA", 1)} \cup s : s \in SUBSET DelegationRecs} :
     ValidZone(z) /\ \E r \in z : TypeOf(r) = "NS"}
GenInitDirected == (\E z \in DirectedZones : InitWith(z)) /\ hist = <<>>
\* padding keeps every behaviour alive up to MaxHist steps (one CASE line each)
Pad == UNCHANGED vars /\ hist' = Append(hist, [op |-> [a |-> "Pad"], chk |-> {}, chk9 |-> {}, walk |-> NoWalk])
GenNext == Len(hist) < MaxHist /\ ((Next /\ hist' = Append(hist, StepOut')) \/ Pad)
GenSpec == GenInit /\ [][GenNext]_<<vars, hist>>
GenSpecDirected == GenInitDirected /\ [][GenNext]_<<vars, hist>>

GenView == <<svars, hist>>

EmitBehaviour ==
  Len(hist) = MaxHist => PrintT("CASE " \o ToJson([steps |-> hist]))
=============================================================================
