CONSTANTS
  Dev = {}
  NodeNames <- Nodes_live
  QNames <- QNames_live
  Types <- TypesQ9
  QTypes <- QTypesQ9
  Vals = {1}
  ValsOf <- OneVal
  OpFamilies = {"U"}
  Writers = {"w1", "w2"}
  Readers = {}
  MaxVer = 2
  MaxOps = 1
  MaxZf = 1
  NsTarget <- MCNsTarget
SPECIFICATION Spec
INVARIANT SingleWriter
PROPERTY LockEventuallyReleased
CHECK_DEADLOCK FALSE
