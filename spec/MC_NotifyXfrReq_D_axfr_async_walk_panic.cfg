CONSTANTS
  Dev = {"D_axfr_async_walk_panic"}
  Focus = "xfr"
  Thorough = FALSE
SPECIFICATION MCSpec
INVARIANT MachineIsFunction
INVARIANT P1_NotifyGate
INVARIANT P2_Transparent
INVARIANT P3_XfrGate
INVARIANT P4_XfrShape
CHECK_DEADLOCK FALSE
