CONSTANTS
  Dev <- AllDevs
  NodeNames <- Nodes_c09
  QNames <- QNames_c09
  Types <- TypesC09
  QTypes <- QTypesC09
  Vals = {1, 2}
  ValsOf <- C09ValsOf
  OpFamilies = {"W", "U", "B"}
  Writers = {"w1"}
  Readers = {"r1", "r2"}
  MaxVer = 4
  MaxOps = 14
  MaxZf = 3
  MaxHist = 40
  NsTarget <- MCNsTarget
SPECIFICATION GenSpec
INVARIANT EmitBehaviour
CHECK_DEADLOCK FALSE
