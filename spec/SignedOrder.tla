---------------------------- MODULE SignedOrder ----------------------------
(* C12 - the ORDER of the RRs inside the signed data (RFC 4034 3.1.8.1 with *)
(* 6.3): "RRs are sorted by treating the RDATA portion of the canonical     *)
(* form of each RR as a left-justified unsigned octet sequence".            *)
(*                                                                          *)
(* Rrsig.tla sorts by LexCmp of the canonical RDATA octets of records whose *)
(* data is a sequence of raw / name fields.  Here the records come from the *)
(* layout table of Rdata.tla (every type the library has a structured       *)
(* record data type for): a typed value is turned into Rrsig.tla's field    *)
(* sequence (FieldsOf), the two canonical forms must agree (TablesAgree:    *)
(* Rrsig.tla's LowerNameTypes against the `lower` column of the table), and *)
(* RRsets are DERIVED from the table so that an implementation that orders  *)
(* records field by field - which the library does, one CanonicalOrd per    *)
(* record type - is told apart from the octet order whenever one of its     *)
(* field comparisons is not the comparison of the field's wire octets.      *)
EXTENDS Rrsig, RdataDom

--------------------------------------------------------------------------
(* typed value -> Rrsig.tla record data *)
FieldsOf(x, val) ==
  [i \in 1..Len(val) |->
     IF LayoutOf(x)[i].kind = "Name" THEN Nm(val[i])
     ELSE Raw(ComposeField(LayoutOf(x)[i], val[i]))]

\* the two statements of the canonical form are one: the local table of
\* Rrsig.tla (numeric codes) and the `lower` column of Rdata.tla's layouts
TablesAgreeOn(x, val) ==
  /\ RdWire(FieldsOf(x, val)) = ComposeRd(x, val)
  /\ RdCanon(CodeOf(x), FieldsOf(x, val)) = CanonRd(x, val)

--------------------------------------------------------------------------
(* Adversarial values per field kind: short-but-greater against             *)
(* long-but-smaller content, equal prefixes of different lengths, case.     *)
(* Every set is ordered differently by the wire octets of the field than by *)
(* the "natural" comparison of its content (NaiveFieldCmp below).           *)
oA == <<97>>   oB == <<98>>   oAA == <<97, 97>>   oC == <<99>>   oUB == <<66>>

AdvOcts(min) == {Rep(min, 97) \o s : s \in {oB, oAA, oA}}
AdvNames == { <<oB>>, <<oAA>>, <<oA, oC>>, <<oUB, oA>> }       \* b  aa  a.c  B.a
AdvField(f) ==
  LET k == f.kind IN
  {v \in
    CASE IsFixed(k) ->
           LET w == Width[k]
           IN {[i \in 1..w |-> IF i = w THEN 1 ELSE 0], [i \in 1..w |-> IF i = 1 THEN 128 ELSE 0],
               [i \in 1..w |-> IF i = w THEN 2 ELSE 0]}
      [] k = "Name"       -> AdvNames
      [] k \in {"CharStr", "LP8", "LP16", "CaaTag"} -> AdvOcts(0)
      [] k = "Rest"       -> AdvOcts(f.min)
      [] k = "CharStrSeq" -> { <<oB>>, <<oAA>>, <<oA, <<>> >>, <<oA>>, <<oA, oA>> }
      [] k = "TypeBitmap" -> { {1}, {2}, {1, 47}, {257} }
      [] k = "SvcParams"  -> { << [k |-> 3, v |-> <<1, 187>>] >>, << [k |-> 65280, v |-> oB] >>,
                               << [k |-> 65280, v |-> oAA] >>, << [k |-> 3, v |-> <<1, 187>>], [k |-> 65280, v |-> oA] >>, <<>> }
      [] k = "IpsecGw"    -> { [gt |-> 1, alg |-> 2, gw |-> <<192, 0, 2, 1>>],
                               [gt |-> 3, alg |-> 2, gw |-> <<oB>>], [gt |-> 3, alg |-> 2, gw |-> <<oAA>>],
                               [gt |-> 3, alg |-> 2, gw |-> <<oA, oC>>] }
      [] OTHER            -> {}
   : ValidField(f, v)}

IsVarKind(k) == ~IsFixed(k)

\* the comparison somebody writes who thinks of the VALUE of a field, not
\* of its octets: content before length, names in name order (RFC 4034 6.1),
\* opaque data by length first, sets and parameter lists by their members
Sign(c) == IF c < 0 THEN -1 ELSE IF c > 0 THEN 1 ELSE 0
LenFirstCmp(a, b) == IF Len(a) # Len(b) THEN Sign(Len(a) - Len(b)) ELSE LexCmp(a, b)
NaiveFieldCmp(f, a, b) ==
  LET k == f.kind IN
  CASE k = "Name"       -> CanonNameCmp(a, b)
    [] k \in {"CharStr", "LP8", "LP16", "CaaTag"} -> LexCmp(a, b)
    [] k = "Rest"       -> LenFirstCmp(a, b)
    [] k = "CharStrSeq" -> LexCmp(Concat(a), Concat(b))
    [] k = "TypeBitmap" -> LexCmp(SortSet(a), SortSet(b))
    [] k = "SvcParams"  -> LexCmp(Concat([i \in 1..Len(a) |-> EncU16(a[i].k) \o a[i].v]),
                                  Concat([i \in 1..Len(b) |-> EncU16(b[i].k) \o b[i].v]))
    [] k = "IpsecGw"    -> IF a.gt # b.gt THEN Sign(a.gt - b.gt)
                           ELSE IF a.gt = 3 THEN CanonNameCmp(a.gw, b.gw) ELSE LexCmp(a.gw, b.gw)
    [] OTHER            -> LexCmp(a, b)
RECURSIVE NaiveCmpFrom(_, _, _, _)
NaiveCmpFrom(x, u, v, i) ==
  IF i > Len(LayoutOf(x)) THEN 0
  ELSE LET c == NaiveFieldCmp(LayoutOf(x)[i], u[i], v[i])
       IN IF c # 0 THEN Sign(c) ELSE NaiveCmpFrom(x, u, v, i + 1)
NaiveCmp(x, u, v) == NaiveCmpFrom(x, u, v, 1)

\* an RRset (a set of typed values) on which the naive order is not the order
Adversarial(x, S) == \E u, v \in S : Sign(CanonRdCmp(x, u, v)) # NaiveCmp(x, u, v)

--------------------------------------------------------------------------
(* RRsets derived from the table.  "one": the records differ in ONE field,  *)
(* which takes every adversarial value of its kind; "two": two records that *)
(* differ in two neighbouring fields in opposite directions (the earlier    *)
(* field decides).                                                          *)
Vary1(x, i) == {v \in {[Base(x) EXCEPT ![i] = y] : y \in AdvField(LayoutOf(x)[i])} : ValidRd(x, v)}
Lo(S, cmp(_, _)) == CHOOSE a \in S : \A b \in S : cmp(a, b) <= 0
Hi(S, cmp(_, _)) == CHOOSE a \in S : \A b \in S : cmp(a, b) >= 0
Vary2(x, i) ==
  LET f == LayoutOf(x)[i]      g == LayoutOf(x)[i + 1]
      A == AdvField(f)         B == AdvField(g)
      cf(a, b) == LexCmp(ComposeField(f, a), ComposeField(f, b))
      cg(a, b) == LexCmp(ComposeField(g, a), ComposeField(g, b))
  IN IF A = {} \/ B = {} THEN {}
     ELSE {v \in { [Base(x) EXCEPT ![i] = Lo(A, cf), ![i + 1] = Hi(B, cg)],
                   [Base(x) EXCEPT ![i] = Hi(A, cf), ![i + 1] = Lo(B, cg)] } : ValidRd(x, v)}

\* as a sequence in canonical order (CanonRdCmp of Rdata.tla)
RECURSIVE CanonSeq(_, _)
CanonSeq(x, S) ==
  IF S = {} THEN <<>>
  ELSE LET m == CHOOSE a \in S : \A b \in S : CanonRdCmp(x, a, b) <= 0
       IN <<m>> \o CanonSeq(x, S \ {m})
=============================================================================
