------------------------- MODULE Trace_ClientStream -------------------------
(* I->S: a run recorded from the real stream transport (events seen from    *)
(* the harness side only: what it did to the transport, and what it then    *)
(* observed: requests written, responses/errors handed to callers, the      *)
(* stream being closed) must be a behaviour of ClientStream's macro step,   *)
(* and OwnAnswer / AtMostOnce / NoCross / SlotTableSound / NothingLost must *)
(* hold in every state the specification passes through.                    *)
(*                                                                          *)
(* Event kinds: reset (new connection), submit, peer, burst (several        *)
(* messages in one write), end, wfail, drop, tick.  Every event carries the *)
(* observation delta: out (requests written during the step), done          *)
(* (<<[r, ok, f]>> completions during the step), closed.                    *)
EXTENDS ClientStream, Json, IOUtils

Rec == ndJsonDeserialize(IOEnv.TRACE)

VARIABLE l
tvars == <<vars, l>>

IsEv(e) == l <= Len(Rec) /\ Rec[l].ev = e /\ l' = l + 1

RECURSIVE ApplyAll(_, _)
ApplyAll(s, fs) == IF fs = <<>> THEN s ELSE ApplyAll(PeerSendOp(s, Head(fs)), Tail(fs))

\* the step the event describes
After(s, ev) ==
  CASE ev.ev = "submit" -> Apply(s, MkOp("submit", ev.r, ev.q, NoMsg, ""))
    [] ev.ev = "peer"   -> Apply(s, MkOp("peer", 0, 0, ev.f, ""))
    [] ev.ev = "burst"  -> Quiesce(ApplyAll(s, ev.fs))
    [] ev.ev = "end"    -> Apply(s, MkOp("end", 0, 0, NoMsg, ev.how))
    [] ev.ev = "wfail"  -> Apply(s, MkOp("wfail", 0, 0, NoMsg, ""))
    [] ev.ev = "stall"  -> Apply(s, MkOp("stall", 0, 0, NoMsg, ""))
    [] ev.ev = "unstall" -> Apply(s, MkOp("unstall", 0, 0, NoMsg, ""))
    [] ev.ev = "drop"   -> Apply(s, MkOp("drop", 0, 0, NoMsg, ""))
    [] ev.ev = "tick"   -> Apply(s, MkOp("tick", 0, 0, NoMsg, ""))

\* the recorded observation is exactly what the specification produces
NewOut(s, t) == SubSeq(t.out, Len(s.out) + 1, Len(t.out))
Completed(s, t) == {r \in Reqs : Len(t.done[r]) > Len(s.done[r])}

\* what request r was handed during the step, as <<kind, message>>
ItemOf(o) == IF o.why = "endmark" THEN <<"eof", NoMsg>>
             ELSE IF o.ok THEN <<"ok", o.f>> ELSE <<"err", NoMsg>>
RECURSIVE MapItems(_)
MapItems(sq) == IF sq = <<>> THEN <<>> ELSE <<ItemOf(Head(sq))>> \o MapItems(Tail(sq))
NewDone(s, t, r) == MapItems(SubSeq(t.done[r], Len(s.done[r]) + 1, Len(t.done[r])))
EvItem(d) == IF d.eof THEN <<"eof", NoMsg>> ELSE IF d.ok THEN <<"ok", d.f>> ELSE <<"err", NoMsg>>
RECURSIVE EvDone(_, _)
EvDone(ds, r) == IF ds = <<>> THEN <<>>
                 ELSE (IF Head(ds).r = r THEN <<EvItem(Head(ds))>> ELSE <<>>) \o EvDone(Tail(ds), r)

ObsMatches(s, t, ev) ==
  /\ NewOut(s, t) = ev.out
  /\ t.closed = ev.closed
  /\ (t.reqmsg # <<>>) = ev.partial
  /\ \A i \in 1..Len(ev.done) : ev.done[i].r \in Reqs
  /\ \A r \in Reqs : NewDone(s, t, r) = EvDone(ev.done, r)

TInit == l = 1 /\ InitPred

\* a new connection, made from the configuration script the event carries;
\* eff: what the getters of the configuration object said
T_Reset == /\ IsEv("reset")
           /\ Rec[l].eff = StRun(Rec[l].conf)
           /\ Set(InitState(Rec[l].conf))

T_Step == /\ l <= Len(Rec) /\ Rec[l].ev # "reset" /\ l' = l + 1
          /\ LET t == After(Cur, Rec[l])
             IN ObsMatches(Cur, t, Rec[l]) /\ Set(t)

TNext == T_Reset \/ T_Step
TSpec == TInit /\ [][TNext]_tvars

Accepted ==
  LET d == TLCGet("stats").diameter
  IN IF d = Len(Rec) + 1 THEN TRUE
     ELSE /\ PrintT("TRACE_REJECTED " \o ToJson([matched |-> d - 1, total |-> Len(Rec),
                      event |-> IF d <= Len(Rec) THEN Rec[d] ELSE [ev |-> "none"]]))
          /\ FALSE
=============================================================================
