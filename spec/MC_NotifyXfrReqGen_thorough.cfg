CONSTANTS
  Dev = {}
  Focus = "all"
  Thorough = TRUE
SPECIFICATION GSpec
INVARIANT Emit
CHECK_DEADLOCK FALSE
