CONSTANTS
  Dev = {}
  Mut = {}
  Tier = 1
  Big = 300
SPECIFICATION Spec
INVARIANT LawLabel
INVARIANT LawName
INVARIANT LawCharStr
INVARIANT LawRdata
INVARIANT LawRecord
INVARIANT LawRecordHash
INVARIANT LawRecRep
INVARIANT LawTransitive
INVARIANT LawCarrier
INVARIANT LawRelCarrier
INVARIANT LawCarrierPair
INVARIANT LawCarriedRd
INVARIANT LawCarriedRec
INVARIANT EmitLabel
INVARIANT EmitName
INVARIANT EmitCharStr
INVARIANT EmitRdata
INVARIANT EmitRecord
INVARIANT EmitXRecord
INVARIANT EmitCarrier
INVARIANT EmitRelCarrier
INVARIANT EmitCarrierPair
INVARIANT EmitCarriedRd
INVARIANT EmitCarriedRec
CHECK_DEADLOCK FALSE
