---------------------------- MODULE MC_TsigKeys ----------------------------
(***************************************************************************)
(* The key-configuration space of TSIG (C11) and the names of algorithms.  *)
(*                                                                         *)
(* Key::new / Key::generate are called with every (algorithm, min_mac_len, *)
(* signing_len), in and out of range (KeyNewStep of Tsig.tla).  A key that *)
(* was admitted signs a request (MAC of signing_len octets) and then, as a *)
(* server and as a client, receives a message whose MAC - computed with    *)
(* the shared secret by a peer - has n octets, for every n from 0 to one   *)
(* more than the algorithm's output (ServerRequestStep / ClientAnswerStep  *)
(* of Tsig.tla, i.e. Key::compare_signatures).                             *)
(*                                                                         *)
(* Oracle (RFC 8945 5.2.2.1): a MAC shorter than max(10, half the hash     *)
(* output) or longer than the output is never acceptable; between the two  *)
(* the receiver's policy decides.                                          *)
(*   AdmittedPerRfc     Key::new succeeds exactly for lengths within       *)
(*                      [max(10, native/2), native] (None = native)        *)
(*   NoShortMacAccepted whatever the configuration, a MAC of fewer than    *)
(*                      max(10, native/2) or more than native octets is    *)
(*                      never accepted                                     *)
(*   DecisionPerPolicy  n < min_mac_len -> BADTRUNC (FORMERR admitted      *)
(*                      below the RFC floor), min_mac_len <= n <= native   *)
(*                      -> accepted, n > native -> FORMERR or BADSIG       *)
(*   SignsWithSigningLen the MAC the key produces has signing_len octets   *)
(* Algorithm names (RFC 8945 6: a domain name identifies the algorithm):   *)
(*   NamesPerRfc        from_name / FromStr map a name to an algorithm     *)
(*                      only if it *is* that algorithm's name              *)
(*   NamesRoundTrip     from_name(to_name(a)) = a, FromStr(Display(a)) = a *)
(* The same module generates the S->I cases (Emit).                        *)
(***************************************************************************)
EXTENDS Tsig, TLC, Json

CONSTANTS Grid,       \* "full": every pair of lengths; "edges": lengths around the bounds only
          PresentAll, \* BOOLEAN: keys with a non-default signing_len also receive
          MaxLabels   \* names of up to this many labels

VARIABLES pc, key, macs, cli, hist, outs, g
vars == <<pc, key, macs, cli, hist, outs, g>>

Fudge == 300
T0 == 1000000
ReqId == 4660
KeyName == <<4, 116, 115, 105, 103, 3, 107, 101, 121, 0>>      \* "tsig.key."
Msg(id, f1, f2, b) == [hdr |-> EncU16(id) \o <<f1, f2, 2000 + b>> \o EncU16(0),
                       body |-> <<1000 + b>>, recs |-> <<>>]

\* -1 = None
AllLens(a) == {-1} \cup (0..(Native(a) + 1))
EdgeLens(a) == {-1, 0, 1, 9, 10, 11, RfcMinLen(a) - 1, RfcMinLen(a), RfcMinLen(a) + 1,
                Native(a) - 1, Native(a), Native(a) + 1}
Lens(a, gen) == IF Grid = "full" /\ ~gen THEN AllLens(a) ELSE EdgeLens(a)

NoKey == [name |-> KeyName, alg |-> "sha256", sec |-> 1, slen |-> 0, minlen |-> 0]
Init ==
  /\ pc = "start" /\ key = NoKey /\ macs = <<>> /\ cli = <<>> /\ hist = <<>> /\ outs = <<>>
  /\ g = [admitted |-> FALSE, args |-> <<"sha256", -1, -1>>, n |-> -1, got |-> "", mac |-> <<>>]

Log(op, out) == hist' = Append(hist, op) /\ outs' = Append(outs, out)

ArgOk(a, n) == n = -1 \/ RfcLenOk(a, n)
\* Key::new(algorithm, secret, name, min_mac_len, signing_len) / Key::generate
KeyNew ==
  /\ pc = "start"
  /\ \E a \in Algs, gen \in BOOLEAN : \E mm \in Lens(a, gen), sl \in Lens(a, gen) :
       LET r == KeyNewStep(a, mm, sl)
       IN /\ key' = [NoKey EXCEPT !.alg = a, !.slen = r.slen, !.minlen = r.minlen]
          /\ g' = [g EXCEPT !.admitted = r.res = "Ok", !.args = <<a, mm, sl>>, !.got = r.res]
          /\ pc' = IF r.res = "Ok" /\ ~gen THEN "have" ELSE "done"
          \* which of the two errors is reported when both lengths are out of range is not specified
          /\ Log([op |-> "key_new", alg |-> a, min |-> mm, sign |-> sl, gen |-> gen],
                 [res |-> r.res, minlen |-> r.minlen, slen |-> r.slen, native |-> Native(a),
                  allow |-> IF ~ArgOk(a, mm) /\ ~ArgOk(a, sl) THEN {"BadMinMacLen", "BadSigningLen"} ELSE {r.res}])
  /\ UNCHANGED <<macs, cli>>

NewFull == PseudoFull(Len(macs) + 1, key.alg)

\* the key signs a request (ClientTransaction::request)
KeySign ==
  /\ pc = "have"
  /\ LET r == ClientRequestStep(key, Msg(ReqId, 0, 0, 1), T0, Fudge, macs, NewFull)
     IN /\ macs' = r.tbl /\ cli' = r.ctx
        /\ g' = [g EXCEPT !.mac = r.mac]
        /\ Log([op |-> "k_sign", b |-> 1, id |-> ReqId, now |-> T0, fudge |-> Fudge],
               [res |-> "Ok", mac |-> r.j, n |-> Len(r.mac)])
  /\ pc' = IF PresentAll \/ g.args[3] = -1 THEN "signed" ELSE "done"
  /\ UNCHANGED <<key>>

\* RFC 8945 5.2.2.1 for a MAC of n octets presented to the holder of key k
Decision(k, n, side) ==
  IF n < k.minlen
  THEN (IF side = "srv" THEN {"BADTRUNC"} ELSE {"BadTrunc"})
       \cup (IF n < RfcMinLen(k.alg) THEN (IF side = "srv" THEN {"FORMERR"} ELSE {"FormErr"}) ELSE {})
  ELSE IF n <= Native(k.alg) THEN {"Ok"}
  ELSE IF side = "srv" THEN {"FORMERR", "BADSIG"} ELSE {"FormErr", "BadSig"}

\* what a peer that holds the secret sends: the HMAC cut to n octets, or - one
\* octet more than the hash has - extended by an octet
PeerMac(full, n) == IF n <= Len(full) THEN Take(full, n) ELSE full \o <<998>>
Peer == [key EXCEPT !.slen = Native(key.alg), !.minlen = Native(key.alg)]

\* ... as a request to the key holder (ServerTransaction::request)
PresentToServer ==
  /\ pc = "signed"
  /\ \E n \in 0..(Native(key.alg) + 1) :
       LET s == ClientRequestStep(Peer, Msg(ReqId + 1, 0, 0, 1), T0, Fudge, macs, NewFull)
           t == [LastRec(s.msg) EXCEPT !.mac = PeerMac(s.mac, n)]
           m == [s.msg EXCEPT !.recs = <<t>>]
           r == ServerRequestStep(key, m, T0, s.tbl)
       IN /\ macs' = s.tbl
          /\ g' = [g EXCEPT !.n = n, !.got = r.res]
          /\ Log([op |-> "present", side |-> "srv", n |-> n, mac |-> s.j, id |-> ReqId + 1, now |-> T0, fudge |-> Fudge],
                 [res |-> r.res, allow |-> Decision(key, n, "srv")])
  /\ pc' = "done"
  /\ UNCHANGED <<key, cli>>

\* ... as the answer to the key holder's request (ClientTransaction::answer)
PresentToClient ==
  /\ pc = "signed"
  /\ \E n \in 0..(Native(key.alg) + 1) :
       LET s == RfcSignStep(Peer, [prior |-> g.mac, pending |-> <<>>, first |-> TRUE],
                            Msg(ReqId, 128, 0, 3), T0, Fudge, macs, NewFull)
           t == [LastRec(s.msg) EXCEPT !.mac = PeerMac(s.mac, n)]
           m == [s.msg EXCEPT !.recs = <<t>>]
           r == ClientAnswerStep(key, cli, m, T0, s.tbl)
       IN /\ macs' = s.tbl
          /\ g' = [g EXCEPT !.n = n, !.got = r.res]
          /\ Log([op |-> "present", side |-> "cli", n |-> n, mac |-> s.j, id |-> ReqId, now |-> T0, fudge |-> Fudge],
                 [res |-> r.res, allow |-> Decision(key, n, "cli")])
  /\ pc' = "done"
  /\ UNCHANGED <<key, cli>>

--------------------------------------------------------------------------
(* Names of algorithms: every name of up to MaxLabels labels over a small  *)
(* alphabet of labels (the supported ones, near misses, the labels of the  *)
(* RFC 2845 name HMAC-MD5.SIG-ALG.REG.INT)                                 *)
Upper(b) == IF b >= 97 /\ b <= 122 THEN b - 32 ELSE b
UpperSeq(s) == [i \in 1..Len(s) |-> Upper(s[i])]
Front256 == SubSeq(AlgLabel("sha256"), 1, Len(AlgLabel("sha256")) - 1)      \* "hmac-sha25"
Labels == {AlgLabel(a) : a \in Algs} \cup
          { AlgLabel("md5"), UpperSeq(AlgLabel("sha256")), UpperSeq(AlgLabel("sha1")),
            Front256, AlgLabel("sha256") \o <<55>>, HmacDash,
            <<115, 105, 103, 45, 97, 108, 103>>, <<114, 101, 103>>, <<105, 110, 116>>,
            <<101, 120, 97, 109, 112, 108, 101>> }
LblSigAlg == <<115, 105, 103, 45, 97, 108, 103>>
LabelSeqs == UNION {[1..k -> Labels] : k \in 0..MaxLabels}
             \* HMAC-MD5.SIG-ALG.REG.INT (RFC 2845) and its look-alikes
             \cup {<<l, LblSigAlg, <<114, 101, 103>>, <<105, 110, 116>> >> : l \in Labels}
RECURSIVE Dotted(_)
Dotted(ls) == IF ls = <<>> THEN <<>> ELSE IF Len(ls) = 1 THEN Head(ls) ELSE Head(ls) \o <<Dot>> \o Dotted(Tail(ls))

\* Algorithm::from_name(name)
AlgName ==
  /\ pc = "start"
  /\ \E ls \in LabelSeqs :
       /\ g' = [g EXCEPT !.got = AlgFromName(NameOf(ls)), !.mac = NameOf(ls)]
       /\ Log([op |-> "from_name", name |-> NameOf(ls)],
              [res |-> AlgFromName(NameOf(ls)), allow |-> AlgFromNameRfc(NameOf(ls))])
  /\ pc' = "named"
  /\ UNCHANGED <<key, macs, cli>>
\* <Algorithm as FromStr>::from_str(s): relative and absolute presentation form
AlgStr ==
  /\ pc = "start"
  /\ \E ls \in {l \in LabelSeqs : Len(l) <= 2}, abs \in BOOLEAN :
       LET s == Dotted(ls) \o (IF abs THEN <<Dot>> ELSE <<>>)
       IN /\ g' = [g EXCEPT !.got = AlgFromStr(s), !.mac = s]
          /\ Log([op |-> "from_str", s |-> s], [res |-> AlgFromStr(s), allow |-> AlgFromStrRfc(s)])
  /\ pc' = "strd"
  /\ UNCHANGED <<key, macs, cli>>
\* Algorithm::to_name / Display / native_len
AlgShow ==
  /\ pc = "start"
  /\ \E a \in Algs :
       /\ g' = [g EXCEPT !.got = a]
       /\ Log([op |-> "to_name", alg |-> a], [name |-> AlgWire(a), str |-> AlgLabel(a), native |-> Native(a)])
  /\ pc' = "shown"
  /\ UNCHANGED <<key, macs, cli>>

Next == KeyNew \/ KeySign \/ PresentToServer \/ PresentToClient \/ AlgName \/ AlgStr \/ AlgShow
Spec == Init /\ [][Next]_vars

--------------------------------------------------------------------------
(* Properties *)
AdmittedPerRfc ==
  pc # "start" /\ hist[1].op = "key_new" =>
    /\ g.admitted = (ArgOk(g.args[1], g.args[2]) /\ ArgOk(g.args[1], g.args[3]))
    /\ (g.admitted => /\ key.minlen = (IF g.args[2] = -1 THEN Native(key.alg) ELSE g.args[2])
                      /\ key.slen = (IF g.args[3] = -1 THEN Native(key.alg) ELSE g.args[3]))
SignsWithSigningLen == Len(hist) >= 2 /\ hist[2].op = "k_sign" => Len(g.mac) = key.slen
Presented == Len(hist) = 3 /\ hist[3].op = "present"
Accept == "Ok"
NoShortMacAccepted ==
  (Presented /\ g.got = Accept) => (g.n >= RfcMinLen(key.alg) /\ g.n <= Native(key.alg))
DecisionPerPolicy == Presented => g.got \in Decision(key, g.n, hist[3].side)

NamesPerRfc ==
  /\ pc = "named" => g.got \in AlgFromNameRfc(g.mac)
  /\ pc = "strd" => g.got \in AlgFromStrRfc(g.mac)
  \* nothing but the algorithm's own name (in some spelling) maps to it
  /\ (pc = "named" /\ g.got # "none") => LowerSeq(g.mac) = AlgWire(g.got)
  /\ (pc = "strd" /\ g.got # "none") => LowerSeq(g.mac) \in {AlgLabel(g.got), AlgLabel(g.got) \o <<Dot>>}
NamesRoundTrip ==
  pc = "shown" => /\ AlgFromName(AlgWire(g.got)) = g.got
                  /\ AlgFromStr(AlgLabel(g.got)) = g.got
                  /\ \A b \in Algs : AlgWire(b) = AlgWire(g.got) => b = g.got

--------------------------------------------------------------------------
(* S->I: one case per finished behaviour *)
Final == pc \in {"done", "named", "strd", "shown"}
Emit == Final =>
  PrintT("CASE " \o ToJson([in |-> [ops |-> hist], out |-> [ops |-> outs, macs |-> macs]]))
=============================================================================
