CONSTANTS
  Dev = {}
  RD = 2
  MaxRetries = 2
  MaxDgrams = 3
  MaxOps = 14
  Faults <- GFaults
SPECIFICATION GenSpec
VIEW GenView
ACTION_CONSTRAINT EmitTransition
CHECK_DEADLOCK FALSE
