CONSTANTS
  Dev = {}
  TickMs = 10000
  Confs <- GConfsT
  MaxDgrams = 3
  MaxOps = 14
  PathMode = FALSE
  Faults <- GFaults
SPECIFICATION GenSpec
VIEW GenView
ACTION_CONSTRAINT EmitTransition
CHECK_DEADLOCK FALSE
