CONSTANTS
  Dev = {"D_opt_rcode_sticks"}
  Scenario = "optrc"
  MaxOps = 4
  CompSet = {"none"}
  TgtSet = {"sarray"}
SPECIFICATION Spec
INVARIANT HeaderKept
CHECK_DEADLOCK FALSE
