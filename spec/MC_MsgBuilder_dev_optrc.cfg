CONSTANTS
  Dev = {"D_opt_rcode_sticks"}
  Scenario = "reply"
  MaxOps = 4
  CompSet = {"none"}
  TgtSet = {"sarray"}
SPECIFICATION Spec
INVARIANT HeaderKept
CHECK_DEADLOCK FALSE
