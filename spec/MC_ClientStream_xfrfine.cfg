CONSTANTS
  Dev = {}
  MaxReq = 1
  TickMs = 10000
  StConfs <- St_1_0
  RqCap = 8
  ChanCap = 8
  MaxFrames = 1
  MaxQ = 1
  MaxId = 0
  KaVals = {}
  XQs = {501}
  XfrIds = {0}
  XfrAll = FALSE
  QVars = {}
  EndKinds = {}
  Frames <- MCFrames
SPECIFICATION Spec
VIEW View
INVARIANT OwnAnswer
INVARIANT AtMostOnce
INVARIANT NoCross
INVARIANT SlotTableSound
INVARIANT NothingLost
INVARIANT TimerArmed
INVARIANT Configured
CHECK_DEADLOCK FALSE
