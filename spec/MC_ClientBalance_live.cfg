CONSTANTS
  Dev = {}
  RD = 1
  MaxRetries = 0
  MaxDgrams = 0
  Faults = {}
  MRT = 1
  MReqs = {1}
  MaxConn = 0
  BKind = "lb"
  NUp = 2
  NReq = 1
  Limits <- LimTight
  CfgSet <- CfgAll
SPECIFICATION BLiveSpec
PROPERTY BCompletion
CHECK_DEADLOCK FALSE
