CONSTANTS
  Dev = {}
  TickMs = 10000
  Confs = {}
  MaxDgrams = 0
  Faults = {}
  MReqs = {1}
  MaxConn = 0
  BKind = "lb"
  NUp = 2
  NReq = 1
  Limits <- LimTight
  CfgSet <- CfgAll
SPECIFICATION BLiveSpec
PROPERTY BCompletion
CHECK_DEADLOCK FALSE
