CONSTANTS
  Dev = {}
SPECIFICATION Spec
INVARIANT WellFormed
CHECK_DEADLOCK FALSE
