CONSTANTS
  Dev = {}
  RecU = {5, 13}
  TtlU = {0}
  Styles = {"rfc"}
  MaxC = 1
  Kinds = {"axfr", "ixfr1", "ixfr2", "fallback", "uptodate"}
  MaxMsgs = 3
  FaultKinds = {"none", "drop", "dup", "swap", "trunc", "csoa"}
  LaterQ = {FALSE, TRUE}
SPECIFICATION CGenSpec
INVARIANT EmitClient
CHECK_DEADLOCK FALSE
