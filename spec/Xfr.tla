--------------------------------- MODULE Xfr ---------------------------------
(* C10 - zone transfers.  Four transcribed components and one declarative   *)
(* oracle:                                                                  *)
(*   Sender      AxfrSeq / IxfrSeq / single-SOA / AXFR-style fallback,      *)
(*               Package = any split of the record sequence into messages   *)
(*   Interpreter XfrResponseInterpreter::check_response, Inner::new,        *)
(*               RecordProcessor::process_record, XfrZoneUpdateIterator     *)
(*               (src/net/xfr/protocol/{interpreter,iterator}.rs)           *)
(*   Updater     ZoneUpdater::apply (src/zonetree/update.rs) on an abstract *)
(*               zone = committed content + pending content                 *)
(*   DiffCapture WriteNode::update_rrset / remove_rrset bookkeeping and the *)
(*               SOA bracketing of WriteZone::commit                        *)
(*               (src/zonetree/in_memory/write.rs)                          *)
(*   Oracle      DeclRead: what a record stream *denotes* according to      *)
(*               RFC 5936 2.2 / RFC 1995 4, written without reference to    *)
(*               the interpreter's variables.                               *)
(*                                                                          *)
(* Records are small integers b + 1000*tt: the *base* b says owner, type and *)
(* RDATA - a non-SOA base is 1 + 4*n + 2*t + v (name n, type t in 0..1,     *)
(* value v in 0..1), so the RRset key of r is (b-1) \div 2; the zone's SOA  *)
(* with serial s has base 100 + s - and tt is the index of the record's TTL.*)
(* Zone content is a set of such records in which all records of one RRset  *)
(* carry the same TTL (RFC 2181 5.2); the zone keeps one TTL per RRset      *)
(* (Rrset.ttl).  Versions may differ in an RRset's TTL alone.  SOA records  *)
(* always carry TTL index 0.                                                *)
EXTENDS Octets, FiniteSets, TLC

CONSTANTS Dev          \* named deviations switched on (DESIGN 2.6)

DevNames == {"D_xfr_unreachable_qtype", "D_xfr_dup_rr_kept",
             "D_zone_diff_not_net", "D_ixfr_soa_chain_unchecked",
             "D_zone_diff_ttl_change_lost"}

AXFR == 252
IXFR == 251
OTHERQ == 1

\* A SOA record is the pair (serial, variant): 100 + s is the zone's SOA with
\* serial s, 200 + s a SOA with the same serial and other RDATA (MINIMUM
\* differs).  Serials (version indexes) stay below 100.
Base(r) == r % 1000                       \* owner, type, RDATA
TtlOf(r) == r \div 1000                    \* TTL index
WithTtl(r, t) == Base(r) + 1000 * t
SoaRec(s) == 100 + s
IsSoa(r) == Base(r) >= 100
SoaSerial(r) == (Base(r) - 100) % 100
SoaVariant(r) == IF Base(r) < 200 THEN r + 100 ELSE r - 100     \* same serial, other RDATA
KeyOf(r) == (Base(r) - 1) \div 2

--------------------------------------------------------------------------
(* small sequence / bag vocabulary *)

Range(s) == {s[i] : i \in DOMAIN s}
RECURSIVE SetToSeq(_)
SetToSeq(S) == IF S = {} THEN <<>>
               ELSE LET m == CHOOSE x \in S : \A y \in S : x <= y
                    IN <<m>> \o SetToSeq(S \ {m})
RECURSIVE Ins(_, _)
Ins(s, x) == IF s = <<>> THEN <<x>>
             ELSE IF x <= Head(s) THEN <<x>> \o s
             ELSE <<Head(s)>> \o Ins(Tail(s), x)
RECURSIVE SortS(_)
SortS(s) == IF s = <<>> THEN <<>> ELSE Ins(SortS(Tail(s)), Head(s))
Without(s, x) == SelectSeq(s, LAMBDA y : y # x)
NotIn(s, t) == SelectSeq(s, LAMBDA y : y \notin Range(t))   \* members of s missing from t
RECURSIVE BagMinus(_, _)          \* bag difference on sorted sequences
BagMinus(s, t) ==
  IF s = <<>> THEN <<>>
  ELSE IF t = <<>> THEN s
  ELSE IF Head(s) = Head(t) THEN BagMinus(Tail(s), Tail(t))
  ELSE IF Head(s) < Head(t) THEN <<Head(s)>> \o BagMinus(Tail(s), t)
  ELSE BagMinus(s, Tail(t))

Bases(s) == {Base(s[i]) : i \in DOMAIN s}
Restamp(s, t) == [i \in DOMAIN s |-> WithTtl(s[i], t)]            \* Rrset::new(rtype, ttl) + the old data
WithoutB(s, x) == SelectSeq(s, LAMBDA y : Base(y) # Base(x))      \* RDATA comparison
NotInB(s, t) == SelectSeq(s, LAMBDA y : Base(y) \notin Bases(t))  \* members of s whose RDATA is missing from t

--------------------------------------------------------------------------
(* Zone content.  The receiver's zone keeps every RRset as a *sequence*     *)
(* (Rrset.data is a Vec; its derived equality is order sensitive), the      *)
(* apex SOA RRset separately; the RRset's TTL is the TTL index all its     *)
(* members carry.  A *view* is what walk() shows: two sorted multisets of   *)
(* records, TTLs included.                                                  *)

Keys(U) == {KeyOf(r) : r \in U}
EmptyRr(U) == [k \in Keys(U) |-> <<>>]
ContentOf(U, s, c) ==      \* zone pre-loaded with SOA s and the record set c
  [soa |-> <<SoaRec(s)>>,
   rr  |-> [k \in Keys(U) |-> SetToSeq({r \in c : KeyOf(r) = k})]]
AllRecs(z) == Concat([i \in 1..Len(SetToSeq(DOMAIN z.rr)) |-> z.rr[SetToSeq(DOMAIN z.rr)[i]]])
View(z) == [soa |-> SortS(z.soa), recs |-> SortS(AllRecs(z))]
VersionView(s, c) == [soa |-> <<SoaRec(s)>>, recs |-> SetToSeq(c)]

--------------------------------------------------------------------------
(* Diff capture for one RRset: src/zonetree/in_memory/write.rs              *)

NoDb(K) == [add |-> [k \in K |-> <<>>], rem |-> [k \in K |-> <<>>]]
NoDiffB(z) == NoDb(DOMAIN z.rr)
SeqTtl(s) == TtlOf(s[1])               \* Rrset::ttl of a non-empty RRset

\* WriteNode::update_rrset: diff bookkeeping against the *published* RRset.
\* Rrset equality (derived) covers the TTL and the order of the Vec; the
\* members are compared by RDATA.
\* ttlAware = FALSE is the code as built (D_zone_diff_ttl_change_lost).
DbUpdateF(db, cur, k, new, ttlAware) ==
  LET changed == new # cur
      hasCur == cur # <<>> /\ changed
  IN IF hasCur /\ new # <<>> THEN
       IF SeqTtl(cur) # SeqTtl(new) /\ ttlAware
       THEN \* the TTL belongs to every RR of the set (RFC 2181 5.2): the RRs as
            \* they were are removed, the RRs as they are now are added
            [add |-> [db.add EXCEPT ![k] = new], rem |-> [db.rem EXCEPT ![k] = cur]]
       ELSE
       \* as built the entries are Rrset::new(new.rtype(), new.ttl()) filled with
       \* the RDATA leaving / arriving: a removed RR is stamped with the *new*
       \* TTL, and a change of the TTL alone leaves no entry at all
       LET rm == Restamp(NotInB(cur, new), SeqTtl(new))
           ad == NotInB(new, cur)
       IN [add |-> IF ad # <<>> THEN [db.add EXCEPT ![k] = ad] ELSE db.add,
           rem |-> IF rm # <<>> THEN [db.rem EXCEPT ![k] = rm] ELSE db.rem]
     ELSE IF hasCur THEN [db EXCEPT !.rem[k] = cur]
     ELSE IF new # <<>> THEN [db EXCEPT !.add[k] = new]
     ELSE db
TtlAware == "D_zone_diff_ttl_change_lost" \notin Dev
DbUpdate(db, cur, k, new) == DbUpdateF(db, cur, k, new, TtlAware)
\* WriteNode::remove_rrset
DbRemove(db, cur, k) == IF cur # <<>> THEN [db EXCEPT !.rem[k] = cur] ELSE db

\* The difference set of a write session that touches every RRset whose
\* content differs once (one update_rrset / remove_rrset call per RRset)
KeyNetDbF(rrA, rrB, ttlAware) ==
  LET K == DOMAIN rrA
      One(k) == IF Range(rrA[k]) = Range(rrB[k]) THEN NoDb(K)
                ELSE IF rrB[k] = <<>> THEN DbRemove(NoDb(K), rrA[k], k)
                ELSE DbUpdateF(NoDb(K), rrA[k], k, rrB[k], ttlAware)
  IN [add |-> [k \in K |-> One(k).add[k]], rem |-> [k \in K |-> One(k).rem[k]]]
KeyNetDb(rrA, rrB) == KeyNetDbF(rrA, rrB, TtlAware)
FlatSorted(f) == SortS(Concat([i \in 1..Len(SetToSeq(DOMAIN f)) |-> f[SetToSeq(DOMAIN f)[i]]]))

--------------------------------------------------------------------------
(* Sender *)

AxfrSeq(s, c) == <<SoaRec(s)>> \o SetToSeq(c) \o <<SoaRec(s)>>

\* hist = <<[s |-> serial, c |-> content>>, ...>>, oldest first, Len >= 2
\* style "rfc": RFC 1995 4 - the deleted RRs as they were, the added RRs as
\* they are (a TTL is part of an RR: an RRset whose TTL changes is deleted
\* and added as a whole)
DiffSeq(a, b) == <<SoaRec(a.s)>> \o SetToSeq(a.c \ b.c) \o
                 <<SoaRec(b.s)>> \o SetToSeq(b.c \ a.c)
\* style "lib": the difference set the zone itself reports when the primary
\* rewrites every changed RRset once and commits (InMemoryZoneDiff served by
\* XfrMiddlewareSvc / DiffFunneler).
\* style "stamped": that wording as built at the pinned commit, whatever Dev
\* says - only the RDATA that leaves or arrives is listed, and what leaves is
\* stamped with the RRset's *new* TTL; an RRset whose TTL alone changes is
\* not mentioned, so this wording can only transfer histories without such a
\* step.  ZoneUpdater is built to read it (a DeleteRecord hands its TTL to
\* the records that remain).
RrOf(K, c) == [k \in K |-> SetToSeq({r \in c : KeyOf(r) = k})]
LibDiffSeq(a, b, ttlAware) ==
  LET K == Keys(a.c \cup b.c)
      db == KeyNetDbF(RrOf(K, a.c), RrOf(K, b.c), ttlAware)
  IN <<SoaRec(a.s)>> \o FlatSorted(db.rem) \o <<SoaRec(b.s)>> \o FlatSorted(db.add)
IxfrSeqS(hist, style) ==
  LET n == Len(hist) IN
  <<SoaRec(hist[n].s)>> \o
  Concat([i \in 1..(n - 1) |->
            CASE style = "lib" -> LibDiffSeq(hist[i], hist[i + 1], TtlAware)
              [] style = "stamped" -> LibDiffSeq(hist[i], hist[i + 1], FALSE)
              [] OTHER -> DiffSeq(hist[i], hist[i + 1])]) \o
  <<SoaRec(hist[n].s)>>
IxfrSeq(hist) == IxfrSeqS(hist, "rfc")
UpToDateSeq(s) == <<SoaRec(s)>>

\* all ways to cut seq into at most k non-empty consecutive pieces
Cuts(n, k) == {C \in SUBSET (1..(n - 1)) : Cardinality(C) <= k - 1}
Pieces(seq, C) ==
  LET cs == SetToSeq(C \cup {Len(seq)})
  IN [i \in 1..Len(cs) |-> SubSeq(seq, (IF i = 1 THEN 0 ELSE cs[i - 1]) + 1, cs[i])]

Msg(qd, an) == [id |-> 1, qr |-> 1, op |-> 0, rc |-> 0, tc |-> 0,
                qd |-> qd, qdc |-> Len(qd), an |-> an, anc |-> Len(an), nsc |-> 0]
\* the first message carries the question; later ones may (laterQ) or not
Package(seq, C, qtype, laterQ) ==
  LET ps == Pieces(seq, C)
  IN [i \in 1..Len(ps) |->
        Msg(IF i = 1 \/ laterQ THEN << <<0, qtype>> >> ELSE <<>>, ps[i])]

--------------------------------------------------------------------------
(* Faults on the message stream *)

DropAt(ms, i) == SubSeq(ms, 1, i - 1) \o SubSeq(ms, i + 1, Len(ms))
DupAt(ms, i)  == SubSeq(ms, 1, i) \o SubSeq(ms, i, Len(ms))
SwapAt(ms, i) == [j \in 1..Len(ms) |-> IF j = i THEN ms[i + 1]
                                       ELSE IF j = i + 1 THEN ms[i] ELSE ms[j]]
TruncAt(ms, i, k) == [ms EXCEPT ![i] = [@ EXCEPT !.an = SubSeq(@, 1, k), !.anc = k]]
HdrFields == {"qr", "op", "rc", "tc", "an0", "anplus", "anminus", "ns", "qd0", "qd2", "id"}
CorruptAt(ms, i, f) ==
  [ms EXCEPT ![i] =
     CASE f = "qr" -> [@ EXCEPT !.qr = 0]
       [] f = "op" -> [@ EXCEPT !.op = 4]            \* NOTIFY
       [] f = "rc" -> [@ EXCEPT !.rc = 2]            \* SERVFAIL
       [] f = "tc" -> [@ EXCEPT !.tc = 1]
       [] f = "an0" -> [@ EXCEPT !.anc = 0]
       [] f = "anplus" -> [@ EXCEPT !.anc = @ + 1]
       [] f = "anminus" -> [@ EXCEPT !.anc = @ - 1]
       [] f = "ns" -> [@ EXCEPT !.nsc = 1]
       [] f = "qd0" -> [@ EXCEPT !.qdc = 0]
       [] f = "qd2" -> [@ EXCEPT !.qdc = 2]
       [] f = "id" -> [@ EXCEPT !.id = 0]]
\* corruptions whose effect on parsing is defined at this level of abstraction
CorruptOk(ms, i, f) ==
  /\ f = "qd0" => (i = 1)                    \* later: question octets would be read as a record
  /\ f = "anminus" => ms[i].anc >= 2
\* the j-th answer record of message i, a SOA, arrives with the same serial
\* but other RDATA
CorruptSoaAt(ms, i, j) == [ms EXCEPT ![i].an[j] = SoaVariant(@)]
WrongQAt(ms, i, which) ==
  [ms EXCEPT ![i] = [@ EXCEPT !.qd = IF which = "qname" THEN << <<1, @[1][2]>> >>
                                     ELSE << <<0, OTHERQ>> >>]]

--------------------------------------------------------------------------
(* Interpreter: src/net/xfr/protocol/interpreter.rs, iterator.rs *)

IpNone == [init |-> FALSE, type |-> "none", rr |-> 0, mode |-> "add",
           isoa |-> 0, csoa |-> 0, delret |-> FALSE, fin |-> FALSE]

\* XfrResponseInterpreter::check_response
CheckResponse(ip, m) ==
  /\ ~(m.rc # 0 \/ m.qr = 0 \/ m.op # 0 \/ m.tc = 1 \/ m.anc = 0 \/ m.nsc # 0)
  /\ ~((~ip.init /\ m.qdc # 1) \/ (ip.init /\ m.qdc > 1))

\* records the answer-section iterator yields: the claimed count limits it
Yielded(m) == SubSeq(m.an, 1, Min(m.anc, Len(m.an)))

\* Inner::new: "ok" / "err" / "panic"
InitResult(m) ==
  LET qt == m.qd[1][2] IN
  IF qt \notin {AXFR, IXFR}
  THEN (IF "D_xfr_unreachable_qtype" \in Dev THEN "panic" ELSE "err")
  ELSE IF Yielded(m) = <<>> THEN "err"            \* Error::Malformed
  ELSE IF ~IsSoa(m.an[1]) THEN "err"              \* Error::NotValidXfrResponse
  ELSE "ok"
InitIp(m) == [init |-> TRUE, type |-> IF m.qd[1][2] = AXFR THEN "axfr" ELSE "ixfr",
              rr |-> 0, mode |-> "add", isoa |-> m.an[1], csoa |-> m.an[1],
              delret |-> FALSE, fin |-> FALSE]

\* RecordProcessor::process_record.  Result: [ip, ups, err]
ProcessRecord(ip, r) ==
  IF ip.fin THEN [ip |-> ip, ups |-> <<>>, err |-> TRUE]           \* AlreadyFinished
  ELSE
  LET rr == ip.rr + 1
      soa == IsSoa(r)
      matches == soa /\ r = ip.isoa
      ip1 == [ip EXCEPT !.rr = rr]
      Emit(ipx, u) ==
        LET ipf == [ipx EXCEPT !.fin = (u[1] = "Fin")] IN
        IF ipf.type = "axfr" /\ ~ipf.delret
        THEN [ip |-> [ipf EXCEPT !.delret = TRUE],
              ups |-> << <<"DelAll", 0>>, u >>, err |-> FALSE]
        ELSE [ip |-> ipf, ups |-> <<u>>, err |-> FALSE]
  IN
  IF rr = 1 THEN (IF ~soa THEN [ip |-> ip1, ups |-> <<>>, err |-> TRUE]   \* MissingInitialSoa
                  ELSE [ip |-> ip1, ups |-> <<>>, err |-> FALSE])
  ELSE IF ip1.type = "axfr" /\ matches THEN Emit(ip1, <<"Fin", r>>)
  ELSE IF ip1.type = "axfr" THEN Emit(ip1, <<"Add", r>>)
  ELSE IF rr = 2 /\ ~soa THEN Emit([ip1 EXCEPT !.type = "axfr"], <<"Add", r>>)
  ELSE IF soa THEN
    LET nm == IF ip1.mode = "add" THEN "del" ELSE "add"
        ip2 == [ip1 EXCEPT !.mode = nm, !.csoa = r]
        \* RFC 1995 4: the difference sequences are a history; a sequence
        \* starts at the version the previous one produced and the last one
        \* produces the server's current version.  The code does not check.
        chainOk == \/ "D_ixfr_soa_chain_unchecked" \in Dev
                   \/ rr = 2
                   \/ nm = "add"
                   \/ (IF matches THEN ip1.csoa = ip1.isoa ELSE r = ip1.csoa)
    IN IF ~chainOk THEN [ip |-> ip1, ups |-> <<>>, err |-> TRUE]
       ELSE IF nm = "del"
       THEN (IF matches THEN Emit(ip2, <<"Fin", r>>) ELSE Emit(ip2, <<"BBD", r>>))
       ELSE Emit(ip2, <<"BBA", r>>)
  ELSE IF ip1.mode = "del" THEN Emit(ip1, <<"Del", r>>)
  ELSE Emit(ip1, <<"Add", r>>)

\* XfrZoneUpdateIterator over one message: [ip, ups, err]
RECURSIVE IterRecs(_, _, _)
IterRecs(ip, recs, ups) ==
  IF recs = <<>> THEN [ip |-> ip, ups |-> ups, err |-> FALSE]
  ELSE LET p == ProcessRecord(ip, Head(recs)) IN
       IF p.err THEN [ip |-> p.ip, ups |-> ups \o p.ups, err |-> TRUE]
       ELSE IterRecs(p.ip, Tail(recs), ups \o p.ups)
IterMsg(ip, m) ==
  LET it == IterRecs(ip, Yielded(m), <<>>) IN
  IF it.err THEN it
  ELSE IF m.anc > Len(m.an) THEN [it EXCEPT !.err = TRUE]               \* ParseError
  ELSE IF ~it.ip.fin /\ it.ip.type = "ixfr" /\ it.ip.rr = 1
       THEN [ip |-> [it.ip EXCEPT !.fin = TRUE], ups |-> it.ups, err |-> TRUE]  \* SingleSoaIxfrTcpRetrySignal
  ELSE it

--------------------------------------------------------------------------
(* Updater and diff capture: src/zonetree/update.rs, in_memory/write.rs *)

\* receiver zone: com(mitted), pen(ding), db (diff builder), st (updater state)
ZoneInit(z) == [com |-> z, pen |-> z, db |-> NoDiffB(z), st |-> "normal"]

SerialOf(soaSeq) == IF soaSeq = <<>> THEN 0 ELSE SoaSerial(Head(soaSeq))

\* WriteZone::commit(false) + publish: [zn, diff]; diff = <<>> stands for None
Commit(zn) ==
  LET os == SerialOf(zn.com.soa)
      ns == SerialOf(zn.pen.soa)
      before == View(zn.com)
      after == View(zn.pen)
      addNet == BagMinus(after.recs, before.recs)
      remNet == BagMinus(before.recs, after.recs)
      \* D_zone_diff_not_net: the bookkeeping of the session as it went;
      \* D_zone_diff_ttl_change_lost alone: the net change, RRset by RRset,
      \* with the TTL handling of update_rrset as built
      asBuilt == "D_zone_diff_not_net" \in Dev
      ttlOnly == ~asBuilt /\ "D_zone_diff_ttl_change_lost" \in Dev
      kdb == KeyNetDb(zn.com.rr, zn.pen.rr)
      d == IF os > 0 /\ ns > 0 /\ os < ns
           THEN << [s |-> os, e |-> ns,
                    add |-> SortS((IF asBuilt THEN FlatSorted(zn.db.add)
                                   ELSE IF ttlOnly THEN FlatSorted(kdb.add) ELSE addNet) \o <<Head(zn.pen.soa)>>),
                    rem |-> SortS((IF asBuilt THEN FlatSorted(zn.db.rem)
                                   ELSE IF ttlOnly THEN FlatSorted(kdb.rem) ELSE remNet) \o <<Head(zn.com.soa)>>)] >>
           ELSE <<>>
  IN [zn |-> [zn EXCEPT !.com = zn.pen, !.db = NoDiffB(zn.pen)], diff |-> d]

\* ZoneUpdater::apply: [zn, err, diff, commit]
Apply(zn, u) ==
  LET kind == u[1]
      r == u[2]
      Plain(z2) == [zn |-> z2, err |-> FALSE, diff |-> <<>>, commit |-> FALSE]
      SetRr(k, new) ==    \* remove_rrset when empty, update_rrset otherwise
        [zn EXCEPT !.pen.rr[k] = new,
                   !.db = IF new = <<>> THEN DbRemove(zn.db, zn.com.rr[k], k)
                          ELSE DbUpdate(zn.db, zn.com.rr[k], k, new)]
      UpdateSoa(z2) == [z2 EXCEPT !.pen.soa = <<r>>]
  IN
  IF zn.st = "finished" THEN [zn |-> zn, err |-> TRUE, diff |-> <<>>, commit |-> FALSE]
  ELSE IF kind = "DelAll" THEN      \* remove_all: nothing is recorded in the diff
    Plain([zn EXCEPT !.pen = [soa |-> <<>>, rr |-> [k \in DOMAIN zn.pen.rr |-> <<>>]]])
  ELSE IF kind = "Del" THEN
    \* delete_record_from_rrset: Rrset::new(rec.rtype(), rec.ttl()) filled with
    \* what is left - the RRset takes the TTL the DeleteRecord carries
    Plain(SetRr(KeyOf(r), Restamp(WithoutB(zn.pen.rr[KeyOf(r)], r), TtlOf(r))))
  ELSE IF kind = "Add" THEN
    IF IsSoa(r)         \* AXFR style: a SOA other than the opening one is just a record
    THEN Plain([zn EXCEPT !.pen.soa =
                  IF r \in Range(@) /\ "D_xfr_dup_rr_kept" \notin Dev THEN @ ELSE <<r>> \o @])
    ELSE IF Base(r) \in Bases(zn.pen.rr[KeyOf(r)]) /\ "D_xfr_dup_rr_kept" \notin Dev
         THEN Plain(zn)                       \* RFC 5936 2.2: duplicates MUST be ignored
         \* add_record_to_rrset: Rrset::new(rec.rtype(), rec.ttl()), the new RR,
         \* then the old ones - the RRset takes the TTL the AddRecord carries
         ELSE Plain(SetRr(KeyOf(r), <<r>> \o Restamp(zn.pen.rr[KeyOf(r)], TtlOf(r))))
  ELSE IF kind = "BBD" /\ "D_ixfr_soa_chain_unchecked" \notin Dev /\ zn.pen.soa # <<r>> THEN
    \* types.rs, BeginBatchDelete: "The record must be a SOA record that matches
    \* the SOA record of the zone version in which the subsequent DeleteRecords
    \* should be deleted" - the difference sequence does not start at the
    \* version the zone holds.  The code does not check.
    [zn |-> zn, err |-> TRUE, diff |-> <<>>, commit |-> FALSE]
  ELSE IF kind = "BBD" THEN
    LET c == Commit(zn) IN
    [zn |-> [c.zn EXCEPT !.st = "batching"], err |-> FALSE, diff |-> c.diff, commit |-> TRUE]
  ELSE IF kind = "BBA" THEN Plain([UpdateSoa(zn) EXCEPT !.st = "batching"])
  ELSE \* "Fin"
    LET c == Commit(UpdateSoa(zn)) IN
    [zn |-> [c.zn EXCEPT !.st = "finished"], err |-> FALSE, diff |-> c.diff, commit |-> TRUE]

\* apply a list of updates; stops at the first error
RECURSIVE ApplyAll(_, _, _)
ApplyAll(zn, ups, acc) ==    \* acc = [n, diffs, pubs, err]
  IF ups = <<>> THEN [zn |-> zn, acc |-> acc]
  ELSE LET a == Apply(zn, Head(ups))
           acc1 == [acc EXCEPT !.n = @ + 1] IN
       IF a.err THEN [zn |-> zn, acc |-> [acc1 EXCEPT !.err = TRUE]]
       ELSE ApplyAll(a.zn, Tail(ups),
                     IF a.commit
                     THEN [acc1 EXCEPT !.diffs = Append(@, a.diff), !.pubs = Append(@, View(a.zn.com))]
                     ELSE acc1)

--------------------------------------------------------------------------
(* The receiver: one interpreter + one updater fed message by message, as   *)
(* in the documented loop of update.rs.  Message::is_answer on the first    *)
(* message is the caller's duty (interpret_response says so).               *)

IsAnswer(req, m) == m.qr = 1 /\ m.id = 1 /\ m.qdc = 1 /\ Len(m.qd) = 1 /\ m.qd[1] = <<0, req>>

RcvInit(z) == [ip |-> IpNone, zn |-> ZoneInit(z), stop |-> FALSE]

StepOf(ir, isans, ups, it, ap, diffs, pubs, pub) ==
  [ir |-> ir, isans |-> isans, ups |-> ups, it |-> it, ap |-> ap,
   diffs |-> diffs, pubs |-> pubs, pub |-> pub]

\* one delivered message: [rcv, step]
Deliver(rcv, req, m) ==
  LET first == ~rcv.ip.init
      Stop(ir, isans) ==
        [rcv |-> [rcv EXCEPT !.stop = TRUE],
         step |-> StepOf(ir, isans, <<>>, "ok", "ok", <<>>, <<>>, View(rcv.zn.com))]
  IN
  IF ~CheckResponse(rcv.ip, m) THEN Stop("err", TRUE)
  ELSE IF first /\ InitResult(m) # "ok" THEN Stop(InitResult(m), TRUE)
  ELSE
    LET ip0 == IF first THEN InitIp(m) ELSE rcv.ip
        it == IterMsg(ip0, m)
    IN IF first /\ ~IsAnswer(req, m)
       THEN [rcv |-> [rcv EXCEPT !.stop = TRUE, !.ip = it.ip],
             step |-> StepOf("ok", FALSE, <<>>, "ok", "ok", <<>>, <<>>, View(rcv.zn.com))]
       ELSE
         LET ap == ApplyAll(rcv.zn, it.ups, [n |-> 0, diffs |-> <<>>, pubs |-> <<>>, err |-> FALSE])
         IN [rcv |-> [ip |-> it.ip, zn |-> ap.zn, stop |-> it.err \/ ap.acc.err],
             step |-> StepOf("ok", TRUE, SubSeq(it.ups, 1, ap.acc.n),
                             IF ap.acc.err THEN "ok" ELSE IF it.err THEN "err" ELSE "ok",
                             IF ap.acc.err THEN "err" ELSE "ok",
                             ap.acc.diffs, ap.acc.pubs, View(ap.zn.com))]

\* the whole run: steps for every delivered message + what a reader sees
\* after the updater has been dropped (rollback of anything uncommitted)
RECURSIVE RunFrom(_, _, _, _)
RunFrom(rcv, req, ms, steps) ==
  IF ms = <<>> \/ rcv.stop \/ rcv.ip.fin
  THEN [steps |-> steps, final |-> View(rcv.zn.com)]
  ELSE LET d == Deliver(rcv, req, Head(ms))
       IN RunFrom(d.rcv, req, Tail(ms), Append(steps, d.step))
RunStream(z, req, ms) == RunFrom(RcvInit(z), req, ms, <<>>)

\* run summaries used by the properties
AllPubs(run) == Concat([i \in 1..Len(run.steps) |-> run.steps[i].pubs])
Panicked(run) == \E i \in 1..Len(run.steps) : run.steps[i].ir = "panic"
Rejected(run) == \E i \in 1..Len(run.steps) :
                    LET s == run.steps[i] IN s.ir # "ok" \/ ~s.isans \/ s.it # "ok" \/ s.ap # "ok"
Finished(run) == \E i \in 1..Len(run.steps) : \E j \in 1..Len(run.steps[i].ups) :
                    run.steps[i].ups[j][1] = "Fin"

--------------------------------------------------------------------------
(* Declarative oracle: what does a stream denote?  RFC 5936 2.2 (header     *)
(* values, SOA framing), RFC 1995 4 (difference sequences).  Independent of *)
(* the transcription above.                                                 *)

HeaderValid(m, first) ==
  /\ m.qr = 1 /\ m.op = 0 /\ m.rc = 0 /\ m.tc = 0
  /\ m.anc >= 1 /\ m.nsc = 0
  /\ m.qdc = Len(m.qd)
  /\ IF first THEN m.qdc = 1 ELSE m.qdc \in {0, 1}

\* The records a conforming receiver may consume: message by message up to
\* the first message whose header is not that of a transfer response or that
\* does not answer the request; a message that claims more answer records
\* than it holds is only found out at its end, its records count.
\* Result: [seq, allValid]
RECURSIVE Consumable(_, _, _, _)
Consumable(ms, req, i, acc) ==
  IF i > Len(ms) THEN [seq |-> acc, allValid |-> TRUE]
  ELSE IF ~HeaderValid(ms[i], i = 1) THEN [seq |-> acc, allValid |-> FALSE]
  ELSE IF i = 1 /\ (ms[1].qd # << <<0, req>> >> \/ ms[1].id # 1) THEN [seq |-> acc, allValid |-> FALSE]
  ELSE IF ms[i].anc > Len(ms[i].an) THEN [seq |-> acc \o ms[i].an, allValid |-> FALSE]
  ELSE Consumable(ms, req, i + 1, acc \o SubSeq(ms[i].an, 1, ms[i].anc))

\* RRs of a transfer are named by owner, type and RDATA; an RRset has one
\* TTL (RFC 2181 5.2), the one carried by the RRs of it the transfer
\* mentioned last; an RR that is already there is a duplicate and ignored
\* (RFC 5936 2.2).
ODel(C, d) == {x \in C : KeyOf(x) # KeyOf(d)} \cup
              {WithTtl(x, TtlOf(d)) : x \in {y \in C : KeyOf(y) = KeyOf(d) /\ Base(y) # Base(d)}}
OAdd(C, a) == IF \E x \in C : Base(x) = Base(a) THEN C
              ELSE {x \in C : KeyOf(x) # KeyOf(a)} \cup {a} \cup
                   {WithTtl(x, TtlOf(a)) : x \in {y \in C : KeyOf(y) = KeyOf(a)}}
RECURSIVE OFold(_, _, _)
OFold(C, s, del) == IF s = <<>> THEN C
                    ELSE OFold(IF del THEN ODel(C, Head(s)) ELSE OAdd(C, Head(s)), Tail(s), del)

\* Reading of a record sequence against the receiver's content (soa s0, set c0).
\* Result: [versions: views the stream has *completely* described so far,
\*          complete: the closing SOA was seen, bad: a framing rule is broken]
RECURSIVE ReadIxfr(_, _, _, _, _, _)
\* p: position of the next SOA expected to open a difference sequence (or close)
ReadIxfr(seq, p, top, curS, curC, vs) ==
  IF p > Len(seq) THEN [versions |-> vs, complete |-> FALSE, bad |-> FALSE]
  ELSE IF ~IsSoa(seq[p]) THEN [versions |-> vs, complete |-> FALSE, bad |-> TRUE]
  ELSE IF seq[p] = top /\ curS = top THEN [versions |-> vs, complete |-> TRUE, bad |-> FALSE]
  ELSE IF seq[p] # curS THEN [versions |-> vs, complete |-> FALSE, bad |-> TRUE]   \* not a history
  ELSE
    LET rest == SubSeq(seq, p + 1, Len(seq))
        nd == IF \E i \in 1..Len(rest) : IsSoa(rest[i])
              THEN (CHOOSE i \in 1..Len(rest) : IsSoa(rest[i]) /\ \A j \in 1..(i - 1) : ~IsSoa(rest[j])) - 1
              ELSE Len(rest)
        dels == SubSeq(rest, 1, nd)
    IN IF nd = Len(rest) THEN [versions |-> vs, complete |-> FALSE, bad |-> FALSE]
       ELSE
         LET newS == rest[nd + 1]
             rest2 == SubSeq(rest, nd + 2, Len(rest))
             na == IF \E i \in 1..Len(rest2) : IsSoa(rest2[i])
                   THEN (CHOOSE i \in 1..Len(rest2) : IsSoa(rest2[i]) /\ \A j \in 1..(i - 1) : ~IsSoa(rest2[j])) - 1
                   ELSE Len(rest2)
             adds == SubSeq(rest2, 1, na)
             newC == OFold(OFold(curC, dels, TRUE), adds, FALSE)
         IN IF na = Len(rest2)       \* the additions may still be going on
            THEN [versions |-> vs, complete |-> FALSE, bad |-> FALSE]
            ELSE ReadIxfr(seq, p + nd + na + 2, top, newS, newC,
                          Append(vs, [soa |-> <<newS>>, recs |-> SetToSeq(newC)]))

ReadAxfr(seq) ==
  LET top == seq[1]
      rest == SubSeq(seq, 2, Len(seq))
      hasEnd == \E i \in 1..Len(rest) : rest[i] = top
      e == IF hasEnd THEN CHOOSE i \in 1..Len(rest) : rest[i] = top /\ \A j \in 1..(i - 1) : rest[j] # top
           ELSE Len(rest) + 1
      body == SubSeq(rest, 1, e - 1)
  IN IF \E i \in 1..Len(body) : IsSoa(body[i])
     THEN [versions |-> <<>>, complete |-> FALSE, bad |-> TRUE]    \* a foreign SOA inside
     ELSE IF ~hasEnd THEN [versions |-> <<>>, complete |-> FALSE, bad |-> FALSE]
     ELSE [versions |-> << [soa |-> <<top>>, recs |-> SetToSeq(OFold({}, body, FALSE))] >>,
           complete |-> TRUE, bad |-> FALSE]

DeclRead(seq, req, s0, c0) ==
  IF seq = <<>> THEN [versions |-> <<>>, complete |-> FALSE, bad |-> FALSE]
  ELSE IF ~IsSoa(seq[1]) THEN [versions |-> <<>>, complete |-> FALSE, bad |-> TRUE]
  ELSE IF Len(seq) = 1 THEN [versions |-> <<>>, complete |-> FALSE, bad |-> FALSE]
  ELSE IF req = AXFR \/ ~IsSoa(seq[2]) THEN ReadAxfr(seq)
  ELSE IF seq[2] = seq[1]
       \* "S S" answering IXFR: an AXFR-style transfer of a zone holding only
       \* its SOA, or an incremental answer without difference sequences; RFC
       \* 1995 does not say which, both readings are admitted
  THEN [versions |-> << [soa |-> <<seq[1]>>, recs |-> <<>>],
                        [soa |-> <<seq[1]>>, recs |-> SetToSeq(c0)] >>,
        complete |-> TRUE, bad |-> FALSE]
  ELSE ReadIxfr(seq, 2, seq[1], SoaRec(s0), c0, <<>>)

\* what the stream, as far as a conforming receiver may consume it, denotes
Denotes(ms, req, s0, c0) ==
  LET c == Consumable(ms, req, 1, <<>>)
  IN [rd |-> DeclRead(c.seq, req, s0, c0), allValid |-> c.allValid]

--------------------------------------------------------------------------
(* Stream client: src/net/client/stream.rs, check_stream() and its XFRState *)
(* machine - how a multi-response request (RequestMessageMulti through      *)
(* stream::Connection) finds the end of the transfer.  The state carries    *)
(* the serial of the *first* SOA (the server's current one).                *)

Cs(k, ser) == [k |-> k, ser |-> ser]
CsError == Cs("Error", -1)
CsDone == Cs("Done", -1)
CsInit(req) == Cs(IF req = AXFR THEN "AXFRInit" ELSE "IXFRInit", -1)   \* insert_req

\* the record classes the loop over the answer section tells apart
CsClass(x, r) == IF ~IsSoa(r) THEN "data"
                 ELSE IF SoaSerial(r) = x.ser THEN "soa_match" ELSE "soa_other"

\* one answer record seen in state x (x is neither Error nor ... see CsMsg)
CsRecord(x, r) ==
  LET c == CsClass(x, r) IN
  CASE x.k = "AXFRInit" -> IF c = "data" THEN CsError ELSE Cs("AXFRFirstSoa", SoaSerial(r))
    [] x.k = "AXFRFirstSoa" -> IF c = "data" THEN x
                               ELSE IF c = "soa_match" THEN CsDone ELSE CsError
    [] x.k = "IXFRInit" -> IF c = "data" THEN CsError ELSE Cs("IXFRFirstSoa", SoaSerial(r))
    [] x.k = "IXFRFirstSoa" -> IF c = "data" THEN Cs("AXFRFirstSoa", x.ser)      \* AXFR-style answer
                               ELSE IF c = "soa_match" THEN CsDone               \* "strange empty AXFR"
                               ELSE Cs("IXFRFirstDiffSoa", x.ser)
    [] x.k = "IXFRFirstDiffSoa" -> IF c = "data" THEN x ELSE Cs("IXFRSecondDiffSoa", x.ser)
    [] x.k = "IXFRSecondDiffSoa" -> IF c = "data" THEN x
                                    ELSE IF c = "soa_match" THEN CsDone
                                    \* (M_cs_intermediate_serial: a mutant of the machine, used only
                                    \* to show that ClientEndAgrees can fail - MC_XfrClient_mut.cfg)
                                    ELSE Cs("IXFRFirstDiffSoa", IF "M_cs_intermediate_serial" \in Dev
                                                                THEN SoaSerial(r) ELSE x.ser)
    [] x.k = "Done" -> CsError               \* a record after the end
    [] OTHER -> CsError

CsRet(eof, x, ans) == [eof |-> eof, x |-> x, ans |-> ans]

\* RequestMessageMulti::is_answer (request.rs): QR, the ID, and the question
\* of the request - which a response to an AXFR query may leave out (RFC 5936
\* 2.2 allows that from the second message on; the function is not told which
\* message it looks at)
CsIsAnswer(req, m) ==
  /\ m.qr = 1 /\ m.id = 1
  /\ IF m.rc # 0 /\ m.qdc = 0 /\ m.anc = 0 /\ m.nsc = 0 THEN TRUE
     ELSE IF req = AXFR /\ m.qdc = 0 THEN TRUE
     ELSE m.qdc = 1 /\ Len(m.qd) = 1 /\ m.qd[1] = <<0, req>>

\* what check_stream does before it looks at the records: <<>> = go on
CsBefore(x, req, m) ==
  IF x.k \in {"AXFRInit", "IXFRInit"} /\ ~CsIsAnswer(req, m) THEN <<CsRet(FALSE, CsError, FALSE)>>
  ELSE IF x.k = "Done" THEN <<CsRet(FALSE, CsError, FALSE)>>
  ELSE IF x.k = "Error" THEN <<CsRet(FALSE, x, FALSE)>>
  ELSE IF m.rc # 0 THEN (IF ~CsIsAnswer(req, m) THEN <<CsRet(FALSE, CsError, FALSE)>>
                         ELSE <<CsRet(TRUE, x, TRUE)>>)
  ELSE <<>>
\* ... and after the last record the answer section yields
CsAfter(x, m) ==
  IF x.k = "Error" THEN CsRet(FALSE, x, FALSE)                       \* the loop returned early
  ELSE IF m.anc > Len(m.an) THEN CsRet(TRUE, CsError, FALSE)         \* a record that does not parse
  ELSE IF x.k \in {"AXFRInit", "IXFRInit"} THEN CsRet(FALSE, CsError, FALSE)   \* empty answer section
  ELSE IF x.k \in {"IXFRFirstSoa", "Done"} THEN CsRet(TRUE, CsDone, TRUE)      \* lone SOA: nothing more to say
  ELSE CsRet(FALSE, x, TRUE)

RECURSIVE CsRecs(_, _)
CsRecs(x, recs) == IF recs = <<>> \/ x.k = "Error" THEN x
                   ELSE CsRecs(CsRecord(x, Head(recs)), Tail(recs))
\* check_stream(msg, xfr_state, answer) = (eof, xfr_state, is_answer)
CheckStream(x, req, m) ==
  IF CsBefore(x, req, m) # <<>> THEN CsBefore(x, req, m)[1]
  ELSE CsAfter(CsRecs(x, Yielded(m)), m)

\* demux_reply + the request handle: what get_response() hands out, message
\* by message - <<"ok", i>> message i of the stream, <<"wrong", i>>
\* Error::WrongReplyForQuery for message i, <<"eof", i>> the end of the
\* response stream reported after message i; a request that is still
\* registered when the peer closes the connection ends in an error.  Once the
\* end has been reported the request is gone and later messages are ignored.
RECURSIVE ClientFrom(_, _, _, _, _)
ClientFrom(x, req, ms, i, outs) ==
  IF i > Len(ms) THEN Append(outs, <<"closed", Len(ms)>>)
  ELSE LET c == CheckStream(x, req, ms[i])
           o == Append(outs, <<IF c.ans THEN "ok" ELSE "wrong", i>>)
       IN IF c.eof THEN Append(o, <<"eof", i>>) ELSE ClientFrom(c.x, req, ms, i + 1, o)
ClientRun(req, ms) == ClientFrom(CsInit(req), req, ms, 1, <<>>)

\* Where does the transfer end?  Declaratively: after the first message up to
\* which the stream completely describes a transfer (DeclRead), or - RFC 1995
\* 2 and 4 - with a first message that answers an IXFR query with nothing but
\* the server's SOA (up to date / retry).  0: it does not end.
EndsAt(ms, req, s0, c0) ==
  LET Ends(i) == LET d == Denotes(SubSeq(ms, 1, i), req, s0, c0) IN
                 \/ d.allValid /\ d.rd.complete /\ ~d.rd.bad
                 \/ i = 1 /\ req = IXFR /\ d.allValid /\ Len(ms[1].an) = 1 /\ IsSoa(ms[1].an[1])
      I == {i \in 1..Len(ms) : Ends(i)}
  IN IF I = {} THEN 0 ELSE CHOOSE i \in I : \A j \in I : i <= j
\* what a client that hands out exactly the messages of the transfer, in
\* order, and then the end does
ClientIdeal(ms, req, s0, c0) ==
  LET e == EndsAt(ms, req, s0, c0) IN
  IF e = 0 THEN [i \in 1..Len(ms) |-> <<"ok", i>>] \o << <<"closed", Len(ms)>> >>
  ELSE [i \in 1..e |-> <<"ok", i>>] \o << <<"eof", e>> >>

==============================================================================
