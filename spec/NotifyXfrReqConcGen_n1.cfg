CONSTANTS
  N = 1
  T = 3
  W = 2
  Cap = 1
  Kinds = {"axfr", "ixfr"}
  Design = "ordered"
  Dev = {}
  GateClosed = TRUE
SPECIFICATION MCSpec
INVARIANT Emit
INVARIANT QuiescentLaw
CHECK_DEADLOCK FALSE
