CONSTANTS
  Procs = {1, 2, 3}
  Qs = {"zone", "sub", "other", "plain", "tld"}
  Runs = 90
  MaxNow = 40
  Budget = 100000
  AdvKinds <- AllKinds
  Dev <- EnvDev
  Mut = {}
  Atomic = FALSE
SPECIFICATION TSpec
INVARIANT Far
INVARIANT NodeSound
INVARIANT Soundness
INVARIANT NoPoison
INVARIANT FetchBound
POSTCONDITION Accepted
CHECK_DEADLOCK FALSE
