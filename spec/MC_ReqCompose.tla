--------------------------- MODULE MC_ReqCompose ---------------------------
(* The request machine of ReqCompose.tla explored from a family of source   *)
(* messages: one action per constructor / setter / compose route /          *)
(* is_answer.  Spec: model checking (VIEW hides the history); GenSpec: the   *)
(* same machine with the history kept, one CASE per behaviour (S->I).       *)
EXTENDS ReqCompose, Json

CONSTANTS Small,       \* TRUE: the reduced setter alphabet (deep configurations)
          MaxOps,      \* bound on the number of calls after the constructor
          KeepHist,    \* TRUE in the generator configurations
          Family       \* "all" | "ptr" (sources whose rdata holds pointers) | "noptr"

VARIABLES st,          \* the request, or [kind, src, refused |-> TRUE]
          n,           \* calls so far
          last,        \* the last call and its result
          hist         \* setter calls with the projection after each (GenSpec)
vars == <<st, n, last, hist>>

\* ------------------------------------------------------------- sources
Na == <<<<97>>>>
Nb == <<<<98, 99>>, <<97>>>>
H0 == [id |-> 7, qr |-> 0, op |-> 0, aa |-> 0, tc |-> 0, rd |-> 1, ra |-> 0, z |-> 0, ad |-> 0, cd |-> 0, rc |-> 0]
Q(nm, t) == <<nm, t, 1>>
R(o, t, rd) == [o |-> o, t |-> t, c |-> 1, ttl |-> <<0, 5>>, rd |-> rd, bad |-> rd]
SrcOpt1 == [o |-> <<>>, t |-> RT_OPT, c |-> 1232, ttl |-> <<0, 32768>>, rd |-> <<0, 10, 0, 2, 7, 7>>, bad |-> <<0, 10, 0, 2, 7, 7>>]
SrcOpt2 == [o |-> <<>>, t |-> RT_OPT, c |-> 512, ttl |-> <<0, 0>>, rd |-> <<>>, bad |-> <<>>]
\* an SOA whose RNAME (r.zz.) is compressed into its MNAME (m.zz.)
\* (bad: one owner name before it spelled out - the pointer hits the middle
\* of a label; two - it hits "m.zz." and the RNAME reads r.m.zz.)
SoaTail == [i \in 1..20 |-> i]
PtrSoa(bad) == [o |-> Na, t |-> 6, c |-> 1, ttl |-> <<0, 5>>,
                rd |-> <<1, 109, 2, 122, 122, 0, 1, 114, 2, 122, 122, 0>> \o SoaTail, bad |-> bad]
PtrSoa1 == PtrSoa(<<-1>>)
PtrSoa2 == PtrSoa(<<1, 109, 2, 122, 122, 0, 1, 114, 1, 109, 2, 122, 122, 0>> \o SoaTail)
A1 == R(Na, 1, <<10, 0, 0, 1>>)
A2 == R(Nb, 1, <<10, 0, 0, 2>>)
Tx == R(Nb, 16, <<1, 120>>)
S(h, q, an, ns, ar, comp, cut) == [h |-> h, q |-> q, an |-> an, ns |-> ns, ar |-> ar, comp |-> comp, cut |-> cut]
E == <<>>
SrcNoPtr ==
  { S(H0, <<Q(Na, 1)>>, E, E, E, 0, 0),                                  \* a plain query
    S(H0, <<Q(Na, 1)>>, E, E, <<SrcOpt1>>, 0, 0),                        \* with an OPT of its own
    S([H0 EXCEPT !.cd = 1, !.id = 65535], <<Q(Nb, 28)>>, <<A1>>, <<Tx>>, <<A2, SrcOpt1, A1>>, 0, 0),
    S(H0, <<Q(Nb, 28)>>, <<A1>>, <<Tx>>, <<A2, SrcOpt1, A1>>, 1, 0),     \* the same, compressed
    S(H0, <<Q(Na, 1), Q(Nb, 28)>>, E, E, E, 1, 0),                       \* two questions
    S(H0, E, E, E, E, 0, 0),                                             \* QUERY without question
    S([H0 EXCEPT !.op = 4], E, E, <<Tx>>, E, 0, 0),                      \* NOTIFY, QDCOUNT 0
    S(H0, <<Q(Na, 252)>>, E, E, E, 0, 0),                                \* AXFR
    S(H0, <<Q(Na, 251)>>, E, <<R(Na, 6, <<0, 0>> \o [i \in 1..20 |-> i])>>, <<SrcOpt1>>, 1, 0), \* IXFR
    S(H0, <<Q(Na, 1)>>, E, E, <<SrcOpt1, SrcOpt2>>, 0, 0),               \* two OPT records
    S(H0, <<Q(Na, 1)>>, E, E, <<A2>>, 0, 1),                             \* ARCOUNT lies
    S([H0 EXCEPT !.op = 5, !.qr = 1, !.rc = 3], <<Q(Na, 252)>>, E, E, E, 0, 0) }  \* AXFR, not a QUERY
SrcPtr ==
  { S(H0, <<Q(Na, 251)>>, E, <<PtrSoa1>>, E, 1, 0),                       \* IXFR as a compressor writes it
    S(H0, <<Q(Na, 251)>>, E, <<PtrSoa1>>, <<SrcOpt1>>, 1, 0),
    S(H0, <<Q(Na, 1)>>, <<A1>>, <<PtrSoa2>>, E, 1, 0) }
Sources == IF Family = "ptr" THEN SrcPtr ELSE IF Family = "noptr" THEN SrcNoPtr ELSE SrcNoPtr \cup SrcPtr
Kinds == {"single", "multi"}

\* ---------------------------------------------------------------- calls
HSet(f, v) == [k |-> "hset", f |-> f, v |-> v]
SetterOps ==
  IF Small THEN
  { HSet("id", 9), HSet("cd", 1), [k |-> "udp", v |-> 1232], [k |-> "do", v |-> 1], [k |-> "do", v |-> 0],
    [k |-> "addopt", code |-> 10, data |-> <<1, 2>>], [k |-> "addopt", code |-> 3, data |-> <<>>] }
  ELSE
  { HSet("id", 9), HSet("id", 7), HSet("rd", 0), HSet("cd", 1), HSet("qr", 1), HSet("rc", 3), HSet("op", 5),
    [k |-> "udp", v |-> 1232], [k |-> "udp", v |-> 0], [k |-> "do", v |-> 1], [k |-> "do", v |-> 0],
    [k |-> "addopt", code |-> 10, data |-> <<1, 2>>], [k |-> "addopt", code |-> 3, data |-> <<>>] }

Refused(s) == "refused" \in DOMAIN s
Init ==
  /\ \E kind \in Kinds, src \in Sources :
       st = IF NewOk(kind, src) THEN NewReq(kind, src) ELSE [kind |-> kind, src |-> src, refused |-> TRUE]
  /\ n = 0 /\ last = [k |-> "new"] /\ hist = <<>>

SetStep(op) ==
  /\ st' = Setter(st, op)
  /\ n' = n + 1 /\ last' = op
  /\ hist' = IF KeepHist THEN Append(hist, [op |-> op, e |-> ProjIdeal(st'), d |-> Proj(st')]) ELSE hist
A_HeaderMut ==
  /\ ~Refused(st) /\ n < MaxOps
  /\ \E op \in {o \in SetterOps : o.k = "hset"} : SetStep(op)
A_SetUdp ==
  /\ ~Refused(st) /\ n < MaxOps
  /\ \E op \in {o \in SetterOps : o.k = "udp"} : SetStep(op)
A_SetDo ==
  /\ ~Refused(st) /\ n < MaxOps
  /\ \E op \in {o \in SetterOps : o.k = "do"} : SetStep(op)
A_AddOpt ==
  /\ ~Refused(st) /\ n < MaxOps
  /\ \E op \in {o \in SetterOps : o.k = "addopt"} : SetStep(op)
\* the compose routes and is_answer read the request
ReadStep(op) == n' = n + 1 /\ last' = op /\ UNCHANGED <<st, hist>>
A_ToMessage ==
  /\ ~Refused(st) /\ n < MaxOps
  /\ ReadStep([k |-> "compose", route |-> "to_message", r |-> Compose(st, "to_message")])
A_ToVec ==
  /\ ~Refused(st) /\ n < MaxOps
  /\ ReadStep([k |-> "compose", route |-> "to_vec", r |-> Compose(st, "to_vec")])
A_Append ==
  /\ ~Refused(st) /\ n < MaxOps
  /\ \E t \in Routes \ {"to_message", "to_vec"} : ReadStep([k |-> "compose", route |-> t, r |-> Compose(st, t)])
A_IsAnswer ==
  /\ ~Refused(st) /\ n < MaxOps
  /\ \E i \in DOMAIN Responses(st) : ReadStep([k |-> "isans", i |-> i, r |-> AnsAll(st)[i]])

Next == A_HeaderMut \/ A_SetUdp \/ A_SetDo \/ A_AddOpt \/ A_ToMessage \/ A_ToVec \/ A_Append \/ A_IsAnswer
Spec == Init /\ [][Next]_vars
MCView == <<st, n, last>>

\* the generator takes setter steps only: the executor performs every read
\* (all routes twice, the getters, is_answer on the whole family) after
\* every call anyway
GenNext == A_HeaderMut \/ A_SetUdp \/ A_SetDo \/ A_AddOpt
GenSpec == Init /\ [][GenNext]_vars

\* ----------------------------------------------------------- properties
Live == ~Refused(st)
P1_RoutesAgree == Live => RoutesAgree(st)
P2_Exactly == Live => Exactly(st)
P2_OneOpt == Live => OneOpt(st)
P1_Getters == Live => GettersAgree(st)
P4_AnsFrame == Live => AnsFrame(st)
\* the constructor: opt none, header = the source's
NewState == (n = 0 /\ Live) => (st.h = st.src.h /\ st.opt = <<>>)
\* P3: a compose (or is_answer) step leaves the request alone; composing
\* again in the next step gives the same result
P3_ReadOnly == [][last'.k \in {"compose", "isans"} => st' = st]_vars
P3_Idempotent == [][(last.k = "compose" /\ last'.k = "compose" /\ last'.route = last.route) => last'.r = last.r]_vars
NonOptOut(s) == SelectSeq(s, LAMBDA r : r.t # RT_OPT)
\* a setter shows in the next compose, in its own place only
P3_Reflected ==
  [][(Live /\ last'.k \in SetterKinds /\ st.src.cut = 0) =>
       LET a == Ideal(st).m  b == Ideal(st').m IN
       /\ b.q = a.q /\ b.an = a.an /\ b.ns = a.ns
       /\ (last'.k = "hset" => b.h[last'.f] = last'.v /\ b.ar = a.ar
                               /\ \A f \in HFields \ {last'.f} : b.h[f] = a.h[f])
       /\ (last'.k # "hset" => /\ b.h = a.h
                               /\ LET o == b.ar[Len(b.ar)] IN
                                  /\ o.t = RT_OPT
                                  /\ (last'.k = "udp" => o.c = last'.v)
                                  /\ (last'.k = "do" => o.ttl = <<0, 32768 * last'.v>>)
                                  /\ NonOptOut(b.ar) = NonOptOut(a.ar))]_vars

\* vacuity guards for the source family
SomeRefused == \E kind \in Kinds, src \in Sources : ~NewOk(kind, src)
SomeAccepted == \E kind \in Kinds, src \in Sources : NewOk(kind, src)
ASSUME SomeRefused /\ SomeAccepted

\* ------------------------------------------------------------ generator
Ops == [i \in DOMAIN hist |-> hist[i].op]
ExpI == [i \in DOMAIN hist |-> hist[i].e]
ExpD == [i \in DOMAIN hist |-> hist[i].d]
In0 == [kind |-> st.kind, src |-> st.src, ops |-> Ops]
Exp0(s) == IF Refused(st) THEN [new |-> 0] ELSE [new |-> 1, init |-> s[1], steps |-> s[2]]
Start == NewReq(st.kind, st.src)
Case ==
  IF Refused(st) THEN [in |-> In0, exp |-> [new |-> 0]]
  ELSE LET ei == Exp0(<<ProjIdeal(Start), ExpI>>)  ed == Exp0(<<Proj(Start), ExpD>>) IN
       IF ei = ed THEN [in |-> In0, exp |-> ei]
       ELSE [in |-> In0, exp |-> ei, dev |-> [D_rdata_pointers_verbatim |-> ed]]
Emit == (n = MaxOps \/ Refused(st)) => PrintT("CASE " \o ToJson(Case))
=============================================================================
