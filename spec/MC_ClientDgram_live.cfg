CONSTANTS
  Dev = {}
  RD = 2
  MaxRetries = 1
  MaxDgrams = 2
  Faults <- MCFaults
SPECIFICATION DLiveSpec
PROPERTY DCompletion
CHECK_DEADLOCK FALSE
