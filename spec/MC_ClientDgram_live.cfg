CONSTANTS
  Dev = {}
  TickMs = 10000
  Confs <- MCConfs
  MaxDgrams = 2
  Faults <- MCFaults
SPECIFICATION DLiveSpec
PROPERTY DCompletion
CHECK_DEADLOCK FALSE
