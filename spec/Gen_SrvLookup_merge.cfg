CONSTANTS
  Fam = "merge"
  MaxRecs = 2
  Prios = {0, 1}
  Weights = {0, 1, 2}
  Dev = {}
SPECIFICATION Spec
INVARIANT Emit
CONSTRAINT GenOnlyInit
CHECK_DEADLOCK FALSE
