CONSTANTS
  TickMs = 10000
  PConfs <- MCParConfs
  Bursts = {1, 2, 5}
  MaxBursts = 3
SPECIFICATION PLiveSpec
INVARIANT PLimit
INVARIANT PNoStarve
INVARIANT PAccount
PROPERTY PCompletion
CHECK_DEADLOCK FALSE
