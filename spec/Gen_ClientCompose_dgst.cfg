CONSTANTS
  Dev = {}
  TickMs = 10000
  Confs = {}
  MaxDgrams = 0
  Faults = {}
  MReqs = {1}
  MaxConn = 2
  MsConfs <- GMsConfs
  XConfs <- GXConfs
  OpNames <- AllOps
  TcOnly = FALSE
  Mode = "dgst"
  MaxOps = 9
  PathMode = TRUE
SPECIFICATION CSpec
VIEW CView
ACTION_CONSTRAINT Emit
INVARIANT MAtMostOnce
INVARIANT MOnTime
INVARIANT MOwn
INVARIANT MNoDup
INVARIANT MConnsSound
INVARIANT XNoTruncated
INVARIANT XAtMostOnce
INVARIANT XTcpOnlyAfterTc
INVARIANT XOnTime
INVARIANT XLegsSound
CHECK_DEADLOCK FALSE
