SPECIFICATION TSpec
INVARIANT B1_ExactlyOnceInOrder
INVARIANT B2_Bounded
INVARIANT B3_GreedyAtEnd
INVARIANT B5_MustFit
POSTCONDITION Accepted
CHECK_DEADLOCK FALSE
