----------------------------- MODULE MC_BaseN -----------------------------
(* Exhaustive exploration of the three decoder machines over small        *)
(* character classes, the functional laws, and the S->I case generators.  *)
EXTENDS BaseN, TLC, Json

CONSTANTS MaxLen,      \* longest text pushed into a decoder
          MaxOct,      \* longest octet string encoded
          Deep32       \* TRUE: only Base32 over a 4-character alphabet, so that
                       \* MaxLen can exceed its 8-character group

VARIABLES codec, st, txt, res
vars == <<codec, st, txt, res>>

\* character classes: lowest / highest / mixed alphabet characters, lower
\* case where decoding is case-insensitive, '=', a non-alphabet ASCII
\* character, a non-ASCII character
Chars(c) ==
  IF Deep32 THEN {48, 86, 75, 61}                           \* 0 V K(=20, mixed bits) =
  ELSE
  CASE c = "b16" -> {48, 70, 97, 53, 71, 61, 128}            \* 0 F a 5 G = U+0080
    [] c = "b32" -> {48, 86, 118, 65, 87, 61, 128}           \* 0 V v A W = U+0080
    [] c = "b64" -> {65, 47, 81, 102, 61, 33, 128}           \* A / Q f = ! U+0080

Init == /\ codec \in (IF Deep32 THEN {"b32"} ELSE Codecs)
        /\ st = InitOf(codec)
        /\ txt = <<>>
        /\ res = "ok"

Push(c) == /\ Len(txt) < MaxLen
           /\ LET r == PushOf(codec, st, c)
              IN st' = r.st /\ res' = r.res
           /\ txt' = Append(txt, c)
           /\ UNCHANGED codec

Next == \E c \in Chars(codec) : Push(c)

Spec == Init /\ [][Next]_vars

--------------------------------------------------------------------------
(* Properties of the machines *)

MachineEqualsFunction == FinOf(codec, st) = DecOf(codec, txt)
IndexInBounds == ~st.dead /\ res # "panic"
PushErrImpliesReject == res = "err" => FinOf(codec, st) = Err
ErrorsSticky == [][res = "err" => res' = "err"]_vars
ChunkingIrrelevant ==   \* pushing the text from scratch gives the same state: the
                        \* machine state is a function of the text alone
  RunPushes(codec, InitOf(codec), txt) = st

--------------------------------------------------------------------------
(* Functional laws over all octet strings up to MaxOct over boundary octets *)

Octs == {0, 15, 165, 255}
RECURSIVE SeqsUpTo(_, _)
SeqsUpTo(S, n) == IF n = 0 THEN {<<>>}
                  ELSE LET P == SeqsUpTo(S, n - 1)
                       IN P \cup {Append(p, x) : p \in {q \in P : Len(q) = n - 1}, x \in S}

RoundTrip == (codec = "b16" /\ txt = <<>> /\ ~Deep32) =>   \* evaluated once, in one initial state
               \A c \in Codecs : \A o \in SeqsUpTo(Octs, MaxOct) :
                  DecOf(c, EncOf(c, o)) = Ok(o)

--------------------------------------------------------------------------
(* S->I generators *)

\* The zone-file reader path is exercised for non-empty texts made of token
\* characters; an empty Base32 blob cannot be written in an NSEC3 record.
Scannable == Len(txt) > 0 /\ (codec = "b32" => DecOf(codec, txt) # Ok(<<>>))
\* Users of the codecs that wrap them in glue code of their own (NSEC3 salt
\* in zone-file, string-token and FromStr form; OwnerHash::from_str; the SVCB
\* "ech" parameter, which must not be empty): each must accept exactly what
\* the codec function accepts and yield its octets.
UsersExp(c, t) ==
  CASE c = "b16" -> [salt_zf |-> Dec16(t), salt_iter |-> Dec16(t), salt_str |-> Dec16(t)]
    [] c = "b32" -> [ohash_str |-> Dec32(t)]
    [] c = "b64" -> [ech_zf |-> IF Dec64(t) = Ok(<<>>) THEN Err ELSE Dec64(t)]
EmitDec == PrintT("CASE " \o ToJson(
              [in  |-> [kind |-> "dec", codec |-> codec, text |-> txt, scan |-> Scannable],
               exp |-> [fin |-> FinOf(codec, st), dec |-> DecOf(codec, txt),
                        conv |-> DecOf(codec, txt), sticky |-> TRUE]
                       @@ (IF Scannable THEN [scan |-> DecOf(codec, txt), iscan |-> DecOf(codec, txt),
                                              users |-> UsersExp(codec, txt)]
                           ELSE <<>>)]))

\* Alphabet-table probe: every code point 0..384 (both sides of every range
\* boundary of every alphabet, and of the 128-entry decode tables) plus large
\* ones, at every position of one otherwise valid group.
ProbeChars == (0..384) \cup {65535, 65536, 1114111}
ProbeTexts(c) ==
  CASE c = "b16" -> {<<x, 48>> : x \in ProbeChars} \cup {<<48, x>> : x \in ProbeChars}
    [] c = "b32" -> {<<x, 48>> : x \in ProbeChars} \cup {<<48, x>> : x \in ProbeChars}
    [] c = "b64" -> {<<x, 65, 65, 65>> : x \in ProbeChars} \cup {<<65, x, 65, 65>> : x \in ProbeChars}
                    \cup {<<65, 65, x, 65>> : x \in ProbeChars} \cup {<<65, 65, 65, x>> : x \in ProbeChars}
EmitProbe == (codec = "b16" /\ txt = <<>> /\ ~Deep32) =>
   \A c \in Codecs : \A t \in ProbeTexts(c) :
      PrintT("CASE " \o ToJson(
              [in  |-> [kind |-> "dec", codec |-> c, text |-> t, scan |-> FALSE],
               exp |-> [fin |-> FinOf(c, RunPushes(c, InitOf(c), t)), dec |-> DecOf(c, t),
                        conv |-> DecOf(c, t), sticky |-> TRUE]]))
\* Encode-table probe: every octet value at every position of a 5-octet
\* string (5 positions = every bit alignment of Base32 and Base64).
EncProbe == {[i \in 1..5 |-> IF i = p THEN v ELSE 165] : p \in 1..5, v \in 0..255}
EmitEncProbe == (codec = "b16" /\ txt = <<>> /\ ~Deep32) =>
   \A c \in Codecs : \A o \in EncProbe :
      PrintT("CASE " \o ToJson(
              [in  |-> [kind |-> "enc", codec |-> c, octets |-> o],
               exp |-> [enc |-> EncOf(c, o), rt |-> Ok(o)]]))
EncProbeLaw == (codec = "b16" /\ txt = <<>> /\ ~Deep32) =>
   \A c \in Codecs : \A o \in EncProbe : DecOf(c, EncOf(c, o)) = Ok(o)
ProbeLaw == (codec = "b16" /\ txt = <<>> /\ ~Deep32) =>    \* machines = functions on the probe texts too
   \A c \in Codecs : \A t \in ProbeTexts(c) : FinOf(c, RunPushes(c, InitOf(c), t)) = DecOf(c, t)

EmitEnc == codec = "b16" /\ txt = <<>> =>
   \A c \in Codecs : \A o \in SeqsUpTo(Octs, MaxOct) :
      PrintT("CASE " \o ToJson(
              [in  |-> [kind |-> "enc", codec |-> c, octets |-> o],
               exp |-> [enc |-> EncOf(c, o), rt |-> Ok(o)]]))
=============================================================================
