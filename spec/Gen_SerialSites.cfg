CONSTANTS
  Sites <- SiteTable
  BITS = 4
SPECIFICATION GenSpec
INVARIANT ILifted
INVARIANT EmitFresh
CHECK_DEADLOCK FALSE
