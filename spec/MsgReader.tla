----------------------------- MODULE MsgReader -----------------------------
(* The read API of a DNS message as a cursor machine over a fixed octet     *)
(* string m (src/base/message.rs: QuestionSection, RecordSection and the    *)
(* message-level helpers).  A cursor is [sec, pos, rem, n]: the section     *)
(* (0 question, 1 answer, 2 authority, 3 additional, 4 consumed), the       *)
(* offset of the next item, the remaining count or -1 once an error has     *)
(* been seen (the `count: Result<u16, ParseError>` fuse), and the number    *)
(* of items already yielded in this section.  Cursors are Copy: Fork saves  *)
(* the cursor, Restore continues from the saved copy.  One action per       *)
(* public call; the message-level calls (canonical_name, opt,               *)
(* first_question) start fresh cursors and leave the current one alone.     *)
(* The declarative counterpart is Wire!Sections(m); the invariants say      *)
(* that every call order observes exactly that.                             *)
EXTENDS Wire, TLC

VARIABLES m,        \* the message, fixed per behaviour
          cur,      \* the live cursor
          saved,    \* the forked copy (sec = -1: none)
          last      \* [op, k, v, pos]: the last call and its result
vars == <<m, cur, saved, last>>

Cursor(sec, pos, rem, n) == [sec |-> sec, pos |-> pos, rem |-> rem, n |-> n]
NoCursor == Cursor(-1, 0, 0, 0)
Dead == Cursor(4, 0, 0, 0)
Res(op, k, v, c) == [op |-> op, k |-> k, v |-> v,
                     pos |-> IF c.sec \in 0..3 /\ c.rem >= 0 THEN c.pos ELSE -1]

InitFor(msg) ==
  /\ m = msg
  /\ cur = Cursor(0, HdrLen, QD(msg), 0)
  /\ saved = NoCursor
  /\ last = Res("open", "ok", <<>>, cur)

---------------------------------------------------------------------------
\* one step of an iterator: [c, k, v]
StepOf(c) ==
  IF c.sec = 4 THEN [c |-> c, k |-> "dead", v |-> <<>>]
  ELSE IF c.rem <= 0 THEN [c |-> c, k |-> "none", v |-> <<>>]       \* exhausted or fused
  ELSE IF c.sec = 0 THEN
    LET q == ParseQuestion(m, c.pos) IN
    IF q.ok THEN [c |-> Cursor(0, q.next, c.rem - 1, c.n + 1), k |-> "q", v |-> QItem(q)]
    ELSE [c |-> [c EXCEPT !.rem = -1], k |-> "err", v |-> <<>>]
  ELSE
    LET r == ParseRecord(m, c.pos) IN
    IF r.ok THEN [c |-> Cursor(c.sec, r.next, c.rem - 1, c.n + 1), k |-> "r", v |-> RItem(m, r)]
    ELSE [c |-> [c EXCEPT !.rem = -1], k |-> "err", v |-> <<>>]

\* next_section(): questions are read, records are skipped; an error seen
\* before or while doing so is reported and consumes the cursor
RECURSIVE Drain(_)
Drain(c) ==
  IF c.rem <= 0 THEN c
  ELSE IF c.sec = 0 THEN
    LET q == ParseQuestion(m, c.pos) IN
    IF q.ok THEN Drain(Cursor(0, q.next, c.rem - 1, c.n + 1)) ELSE [c EXCEPT !.rem = -1]
  ELSE
    LET s == SkipRecord(m, c.pos) IN
    IF s.ok THEN Drain(Cursor(c.sec, s.next, c.rem - 1, c.n + 1)) ELSE [c EXCEPT !.rem = -1]

SectionOf(c) ==
  IF c.sec = 4 THEN [c |-> c, k |-> "dead", v |-> <<>>]
  ELSE IF c.sec = 3 THEN [c |-> Dead, k |-> "nosec", v |-> <<>>]
  ELSE LET d == Drain(c) IN
    IF d.rem < 0 THEN [c |-> Dead, k |-> "err", v |-> <<>>]
    ELSE LET nc == Cursor(c.sec + 1, d.pos, Count(m, c.sec + 1), 0)
         IN [c |-> nc, k |-> "sec", v |-> <<nc.sec, nc.rem>>]

NextItem == LET s == StepOf(cur) IN
  /\ cur' = s.c /\ last' = Res("next", s.k, s.v, s.c) /\ UNCHANGED <<m, saved>>
NextSection == LET s == SectionOf(cur) IN
  /\ cur' = s.c /\ last' = Res("nextsec", s.k, s.v, s.c) /\ UNCHANGED <<m, saved>>
Fork ==
  /\ saved' = cur /\ last' = Res("fork", "ok", <<>>, cur) /\ UNCHANGED <<m, cur>>
Restore ==
  /\ saved.sec >= 0
  /\ cur' = saved /\ last' = Res("restore", "ok", <<>>, saved) /\ UNCHANGED <<m, saved>>
CanonName == LET c == CanonicalName(m) IN
  /\ last' = Res("canon", c.k, c.name, cur) /\ UNCHANGED <<m, cur, saved>>
OptCall == LET o == OptRecord(m) IN
  /\ last' = Res("opt", o.k, o.v, cur) /\ UNCHANGED <<m, cur, saved>>
FirstQ == LET q == FirstQuestion(m) IN
  /\ last' = Res("first", IF q.ok THEN "q" ELSE "none", IF q.ok THEN QItem(q) ELSE <<>>, cur)
  /\ UNCHANGED <<m, cur, saved>>

Next == NextItem \/ NextSection \/ Fork \/ Restore \/ CanonName \/ OptCall \/ FirstQ

---------------------------------------------------------------------------
(* Properties *)

S == Sections(m)
DeclItems(sec) == IF sec = 0 THEN S.q.items ELSE S.sec[sec].items
DeclErr(sec) == IF sec = 0 THEN S.q.err ELSE S.sec[sec].err

\* Idempotent: whatever order the calls come in, the k-th item of a section
\* is the k-th item of the declarative parse, errors and ends included, and
\* a record section is entered exactly where the declarative parse puts it
IdempotentOf(c) ==
  (c.sec \in 1..3 /\ c.n = 0 /\ c.rem >= 0) => (S.st[c.sec].ok /\ c.pos = S.st[c.sec].pos)
Idempotent ==
  /\ IdempotentOf(cur)
  /\ (last.op = "next" /\ last.k \in {"q", "r"}) => last.v = DeclItems(cur.sec)[cur.n]
  /\ (last.op = "next" /\ last.k = "err") => (DeclErr(cur.sec) /\ cur.n >= Len(DeclItems(cur.sec)))
  /\ (last.op = "next" /\ last.k = "none" /\ cur.rem = 0 /\ cur.n = Count(m, cur.sec))
        => (~DeclErr(cur.sec) /\ cur.n = Len(DeclItems(cur.sec)))
  /\ last.op = "canon" => last.v = CanonicalNameS(m, S).name
  /\ last.op = "opt" => last.v = OptRecordS(S).v

PosWithin == cur.sec \in 0..3 => cur.pos <= Len(m)
PosMonotone == [][(last'.op \in {"next", "nextsec"} /\ cur'.sec \in 0..3 /\ cur.sec \in 0..3)
                    => cur'.pos >= cur.pos]_vars
\* Fused: after an error an iterator yields nothing more and moving on fails
Fused == [][(cur.sec \in 0..3 /\ cur.rem < 0) =>
              /\ last'.op = "next" => (last'.k = "none" /\ cur'.rem < 0)
              /\ last'.op = "nextsec" => last'.k = "err"]_vars
\* a skipped record section never yields more items than were counted
CountBound == cur.sec \in 0..3 => (cur.rem <= 65535 /\ cur.n <= 65535)
\* every name handed out by an item is a valid name
ReturnedNamesValid ==
  /\ last.k = "q" => ValidAbs(last.v[1])
  /\ last.k = "r" => (ValidAbs(last.v[1]) /\ \A i \in 1..Len(last.v[7].names) : ValidAbs(last.v[7].names[i]))
  /\ (last.op = "canon" /\ last.k = "name") => ValidAbs(last.v)
=============================================================================
