----------------------------- MODULE MsgReader -----------------------------
(* The read API of a DNS message as a cursor machine over a fixed octet     *)
(* string m (src/base/message.rs: QuestionSection, RecordSection, the       *)
(* typed iterators RecordIter / AnyRecordIter obtained from a               *)
(* RecordSection, and the message-level helpers).  A cursor is              *)
(* [sec, pos, rem, n, v, e]: the section (0 question, 1 answer, 2           *)
(* authority, 3 additional, 4 consumed), the offset of the next item, the   *)
(* remaining count or -1 once a framing error has been seen (the            *)
(* `count: Result<u16, ParseError>` fuse), the number of items already      *)
(* consumed in this section, the view (raw: the section iterator itself;    *)
(* lim / limin / any with a record-data type: limit_to, limit_to_in,        *)
(* into_records), and whether this cursor has returned an error (after      *)
(* which its position is no longer defined for the caller: a typed          *)
(* iterator does not say whether the framing or only the RDATA was bad).    *)
(* Cursors are Copy or Clone: Fork saves the cursor, Restore continues      *)
(* from the saved copy; a copy is the same cursor, view included.  A        *)
(* cursor is opened on any of the four sections (Message::question,         *)
(* answer, authority, additional).  One action per public call; the         *)
(* message-level calls (canonical_name, opt, first_question) start fresh    *)
(* cursors and leave the current one alone.  The declarative counterpart    *)
(* is Wire!Sections(m) and Wire!TWalkFrom; the invariants say that every    *)
(* call order observes exactly that.                                        *)
EXTENDS Wire, TLC

VARIABLES m,        \* the message, fixed per behaviour
          cur,      \* the live cursor
          saved,    \* the forked copy (sec = -1: none)
          last      \* [op, k, v, pos]: the last call and its result
vars == <<m, cur, saved, last>>

Cursor(sec, pos, rem, n, v, e) == [sec |-> sec, pos |-> pos, rem |-> rem, n |-> n, v |-> v, e |-> e]
NoCursor == Cursor(-1, 0, 0, 0, RawView, 0)
Dead == Cursor(4, 0, 0, 0, RawView, 0)
Res(op, k, v, c) == [op |-> op, k |-> k, v |-> v,
                     pos |-> IF c.sec \in 0..3 /\ c.e = 0 THEN c.pos ELSE -1]

S == Sections(m)

\* Message::question() / answer() / authority() / additional()
CanOpen(msg, sec) == IF sec = 0 THEN TRUE ELSE Sections(msg).st[sec].ok
InitAt(msg, sec) ==
  /\ m = msg
  /\ cur = Cursor(sec, IF sec = 0 THEN HdrLen ELSE Sections(msg).st[sec].pos, Count(msg, sec), 0, RawView, 0)
  /\ saved = NoCursor
  /\ last = Res("open", "ok", <<sec>>, cur)
InitFor(msg) == InitAt(msg, 0)

---------------------------------------------------------------------------
\* one step of an iterator: [c, k, v]
Fuse(c) == [c EXCEPT !.rem = -1, !.e = 1]

\* RecordIter::next / AnyRecordIter::next: records the view does not take
\* are parsed and passed over
RECURSIVE TStep(_)
TStep(c) ==
  IF c.rem <= 0 THEN [c |-> c, k |-> "none", v |-> <<>>]
  ELSE LET r == ParseRecord(m, c.pos) IN
    IF ~r.ok THEN [c |-> Fuse(c), k |-> "err", v |-> <<>>]
    ELSE LET c2 == [c EXCEPT !.pos = r.next, !.rem = c.rem - 1, !.n = c.n + 1] IN
      IF ~Selects(c.v, r.type, r.class) THEN TStep(c2)
      ELSE LET el == TElem(m, c.v, RItem(m, r), r.rdpos) IN
        IF el[1] = "r" THEN [c |-> c2, k |-> "tr", v |-> Tail(el)]
        ELSE IF el[1] = "e" THEN [c |-> [c2 EXCEPT !.e = 1], k |-> "err", v |-> <<>>]
        ELSE [c |-> c2, k |-> "und", v |-> <<>>]

StepOf(c) ==
  IF c.sec = 4 THEN [c |-> c, k |-> "dead", v |-> <<>>]
  ELSE IF c.rem <= 0 THEN [c |-> c, k |-> "none", v |-> <<>>]       \* exhausted or fused
  ELSE IF c.sec = 0 THEN
    LET q == ParseQuestion(m, c.pos) IN
    IF q.ok THEN [c |-> [c EXCEPT !.pos = q.next, !.rem = c.rem - 1, !.n = c.n + 1], k |-> "q", v |-> QItem(q)]
    ELSE [c |-> Fuse(c), k |-> "err", v |-> <<>>]
  ELSE IF c.v.k # "raw" THEN TStep(c)
  ELSE
    LET r == ParseRecord(m, c.pos) IN
    IF r.ok THEN [c |-> [c EXCEPT !.pos = r.next, !.rem = c.rem - 1, !.n = c.n + 1], k |-> "r", v |-> RItem(m, r)]
    ELSE [c |-> Fuse(c), k |-> "err", v |-> <<>>]

\* next_section(): questions are read, records are skipped; an error seen
\* before or while doing so is reported and consumes the cursor
RECURSIVE Drain(_)
Drain(c) ==
  IF c.rem <= 0 THEN c
  ELSE IF c.sec = 0 THEN
    LET q == ParseQuestion(m, c.pos) IN
    IF q.ok THEN Drain([c EXCEPT !.pos = q.next, !.rem = c.rem - 1, !.n = c.n + 1]) ELSE [c EXCEPT !.rem = -1]
  ELSE
    LET s == SkipRecord(m, c.pos) IN
    IF s.ok THEN Drain([c EXCEPT !.pos = s.next, !.rem = c.rem - 1, !.n = c.n + 1]) ELSE [c EXCEPT !.rem = -1]

\* the typed iterators' next_section() is the section's: the result is a
\* plain RecordSection again
SectionOf(c) ==
  IF c.sec = 4 THEN [c |-> c, k |-> "dead", v |-> <<>>]
  ELSE IF c.sec = 3 THEN [c |-> Dead, k |-> "nosec", v |-> <<>>]
  ELSE LET d == Drain(c) IN
    IF d.rem < 0 THEN [c |-> Dead, k |-> "err", v |-> <<>>]
    ELSE LET nc == Cursor(c.sec + 1, d.pos, Count(m, c.sec + 1), 0, RawView, 0)
         IN [c |-> nc, k |-> "sec", v |-> <<nc.sec, nc.rem>>]

NextItem == LET s == StepOf(cur) IN
  /\ cur' = s.c /\ last' = Res("next", s.k, s.v, s.c) /\ UNCHANGED <<m, saved>>
NextSection == LET s == SectionOf(cur) IN
  /\ cur' = s.c /\ last' = Res("nextsec", s.k, s.v, s.c) /\ UNCHANGED <<m, saved>>
Fork ==
  /\ saved' = cur /\ last' = Res("fork", "ok", <<>>, cur) /\ UNCHANGED <<m, cur>>
Restore ==
  /\ saved.sec >= 0
  /\ cur' = saved /\ last' = Res("restore", "ok", <<>>, saved) /\ UNCHANGED <<m, saved>>
\* limit_to::<D>(), limit_to_in::<D>(), into_records::<D>() trade a record
\* section in for a typed iterator that continues at the same place;
\* unwrap() trades it back
ViewOp(v) == v.k \o "." \o v.d
Limit(v) ==
  /\ cur.sec \in 1..3 /\ cur.v.k = "raw" /\ v.k # "raw"
  /\ cur' = [cur EXCEPT !.v = v] /\ last' = Res(ViewOp(v), "ok", <<>>, cur') /\ UNCHANGED <<m, saved>>
Unwrap ==
  /\ cur.sec \in 1..3 /\ cur.v.k # "raw"
  /\ cur' = [cur EXCEPT !.v = RawView] /\ last' = Res("unwrap", "ok", <<>>, cur') /\ UNCHANGED <<m, saved>>
CanonName == LET c == CanonicalName(m) IN
  /\ last' = Res("canon", c.k, c.name, cur) /\ UNCHANGED <<m, cur, saved>>
OptCall == LET o == OptRecord(m) IN
  /\ last' = Res("opt", o.k, o.v, cur) /\ UNCHANGED <<m, cur, saved>>
FirstQ == LET q == FirstQuestion(m) IN
  /\ last' = Res("first", IF q.ok THEN "q" ELSE "none", IF q.ok THEN QItem(q) ELSE <<>>, cur)
  /\ UNCHANGED <<m, cur, saved>>

---------------------------------------------------------------------------
(* Properties *)

DeclItems(sec) == IF sec = 0 THEN S.q.items ELSE S.sec[sec].items
DeclErr(sec) == IF sec = 0 THEN S.q.err ELSE S.sec[sec].err

\* Idempotent: whatever order the calls come in, the k-th item of a section
\* is the k-th item of the declarative parse, errors and ends included, and
\* a record section is entered exactly where the declarative parse puts it
IdempotentOf(c) ==
  (c.sec \in 1..3 /\ c.n = 0 /\ c.rem >= 0) => (S.st[c.sec].ok /\ c.pos = S.st[c.sec].pos)
Idempotent ==
  /\ IdempotentOf(cur)
  /\ (last.op = "next" /\ last.k \in {"q", "r"}) => last.v = DeclItems(cur.sec)[cur.n]
  /\ (last.op = "next" /\ last.k = "err" /\ cur.rem < 0) => (DeclErr(cur.sec) /\ cur.n >= Len(DeclItems(cur.sec)))
  /\ (last.op = "next" /\ last.k = "none" /\ cur.rem = 0 /\ cur.n = Count(m, cur.sec))
        => (~DeclErr(cur.sec) /\ cur.n = Len(DeclItems(cur.sec)))
  /\ last.op = "canon" => last.v = CanonicalNameS(m, S).name
  /\ last.op = "opt" => last.v = OptRecordS(S).v

\* ViewIdempotent: what is left of a typed walk, from the live cursor and
\* from the saved copy alike, is exactly the declarative walk of the view over
\* the items not yet consumed: a copy walks what the original walks, and what
\* a fresh iterator would
RECURSIVE RunOut(_, _)
RunOut(c, acc) ==
  LET s == TStep(c) IN
  IF s.k = "none" THEN acc
  ELSE RunOut(s.c, Append(acc, IF s.k = "tr" THEN <<"r">> \o s.v
                                ELSE IF s.k = "err" THEN <<"e">> ELSE <<"o">>))
ViewIdempotentOf(c) ==
  (c.sec \in 1..3 /\ c.v.k # "raw" /\ c.rem >= 0 /\ S.st[c.sec].ok) =>
     RunOut(c, <<>>) = TWalkFrom(m, c.v, S.sec[c.sec], c.n + 1)
ViewIdempotent == ViewIdempotentOf(cur) /\ ViewIdempotentOf(saved)
\* a class-limited view hands out class IN only, a type-limited one its type only
ViewFilters ==
  (last.op = "next" /\ last.k = "tr") =>
     /\ cur.v.k = "limin" => last.v[3] = 1
     /\ (cur.v.k # "any" /\ DataType(cur.v.d) >= 0) => last.v[2] = DataType(cur.v.d)
     /\ last.v[1] = DeclItems(cur.sec)[cur.n][1]

PosWithin == cur.sec \in 0..3 => cur.pos <= Len(m)
PosMonotone == [][(last'.op \in {"next", "nextsec"} /\ cur'.sec \in 0..3 /\ cur.sec \in 0..3)
                    => cur'.pos >= cur.pos]_vars
\* Fused: after a framing error an iterator yields nothing more and moving on fails
Fused == [][(cur.sec \in 0..3 /\ cur.rem < 0) =>
              /\ last'.op = "next" => (last'.k = "none" /\ cur'.rem < 0)
              /\ last'.op = "nextsec" => last'.k = "err"]_vars
\* an RDATA error of a typed view does not fuse: the section behind it stays reachable
DataErrorGoesOn == [][(last'.op = "next" /\ last'.k = "err" /\ cur'.rem >= 0) =>
                        (cur.v.k # "raw" /\ cur'.n > cur.n /\ cur'.pos > cur.pos)]_vars
\* a skipped record section never yields more items than were counted
CountBound == cur.sec \in 0..3 => (cur.rem <= 65535 /\ cur.n <= 65535)
\* every name handed out by an item is a valid name
ReturnedNamesValid ==
  /\ last.k = "q" => ValidAbs(last.v[1])
  /\ last.k = "r" => (ValidAbs(last.v[1]) /\ \A i \in 1..Len(last.v[7].names) : ValidAbs(last.v[7].names[i]))
  /\ last.k = "tr" => ValidAbs(last.v[1])
  /\ (last.op = "canon" /\ last.k = "name") => ValidAbs(last.v)
=============================================================================
