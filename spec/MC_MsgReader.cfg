CONSTANTS
  Dev = {}
  MaxOps = 7
  MaxViewOps = 5
  ManyViews = FALSE
SPECIFICATION MCSpec
VIEW NoHistView
INVARIANT Idempotent
INVARIANT ViewIdempotent
INVARIANT ViewFilters
INVARIANT NoUndecided
INVARIANT PosWithin
INVARIANT CountBound
INVARIANT ReturnedNamesValid
PROPERTY PosMonotone
PROPERTY Fused
PROPERTY DataErrorGoesOn
CHECK_DEADLOCK FALSE
