CONSTANTS
  Dev = {}
  Mut = {}
  Names = {"a.example"}
  Types = {"A"}
  Cases = {0}
  AdVals = {FALSE, TRUE}
  CdVals = {FALSE}
  DoVals = {FALSE, TRUE}
  RdVals = {FALSE, TRUE}
  WithBypass = FALSE
  Classes <- AllClasses
  TtlVecs <- TV_All
  AdBits = {FALSE, TRUE}
  Ticks <- TK_Sim
  Configs <- CfgsAll
  MaxSteps = 24
  RouteMode <- RouteModeAll
SPECIFICATION SimSpec
INVARIANT Emit
INVARIANT GProp
CHECK_DEADLOCK FALSE
