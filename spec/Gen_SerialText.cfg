CONSTANTS
  BITS = 5
  ERAS = 3
SPECIFICATION GenSpec
INVARIANT EmitText
CHECK_DEADLOCK FALSE
