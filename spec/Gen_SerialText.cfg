CONSTANTS
  BITS = 5
  ERAS = 3
  PRE = 2
SPECIFICATION GenSpec
INVARIANT EmitText
INVARIANT EmitInstant
CHECK_DEADLOCK FALSE
