------------------------------- MODULE MC_Xfr -------------------------------
(* Exhaustive exploration of Xfr.tla: every sender history over a small    *)
(* record universe, every transfer kind, every packaging, every single      *)
(* fault at every position; the receiver is stepped message by message.     *)
(* Also the S->I behaviour generator (EmitCase).                            *)
EXTENDS Xfr, Json, IOUtils

CONSTANTS RecU,        \* record universe (base ids: owner, type, RDATA)
          TtlU,        \* TTL indexes an RRset may carry
          Styles,      \* subset of {"rfc", "lib", "stamped"}: how the sender words a difference sequence
          MaxC,        \* max records per zone version
          Kinds,       \* subset of {"axfr","ixfr1","ixfr2","fallback","uptodate"}
          MaxMsgs,     \* max messages per packaging
          FaultKinds,  \* subset of {"none","drop","dup","swap","trunc","hdr","wrongq","csoa"}
          LaterQ       \* subset of BOOLEAN: later messages repeat the question?

VARIABLES sc,      \* scenario: [kind, req, hist, style] (sender side), receiver starts at hist[1]
          fault,   \* the fault applied, <<"none">> etc.
          msgs,    \* the stream as delivered
          pos,     \* next message to deliver
          rcv,     \* receiver state
          steps,   \* per-message observations so far
          phase    \* "setup" | "run" | "closed"
vars == <<sc, fault, msgs, pos, rcv, steps, phase>>

\* open deviations are handed over by the driver as environment variables
EnvDev == {d \in DevNames : d \in DOMAIN IOEnv}

\* a version: at most MaxC records, one TTL per RRset (RFC 2181 5.2)
Stamped(c) == {{WithTtl(r, f[KeyOf(r)]) : r \in c} : f \in [Keys(c) -> TtlU]}
Contents == UNION {Stamped(c) : c \in {c \in SUBSET RecU : Cardinality(c) <= MaxC}}

HistOf(kind) ==
  CASE kind = "ixfr2" -> {<<[s |-> 1, c |-> a], [s |-> 2, c |-> b], [s |-> 3, c |-> d]>> :
                              a \in Contents, b \in Contents, d \in Contents}
    [] kind = "uptodate" -> {<<[s |-> 2, c |-> a], [s |-> 2, c |-> a]>> : a \in Contents}
    [] OTHER -> {<<[s |-> 1, c |-> a], [s |-> 2, c |-> b]>> : a \in Contents, b \in Contents}

ReqOf(kind) == IF kind = "axfr" THEN AXFR ELSE IXFR
Last(h) == h[Len(h)]
StylesOf(kind) == IF kind \in {"ixfr1", "ixfr2"} THEN Styles ELSE {"rfc"}
SeqOf(kind, h, st) ==
  CASE kind \in {"axfr", "fallback"} -> AxfrSeq(Last(h).s, Last(h).c)
    [] kind \in {"ixfr1", "ixfr2"} -> IxfrSeqS(h, st)
    [] kind = "uptodate" -> UpToDateSeq(Last(h).s)

\* TTLs as zone content

\* how an RRset present in both versions changes when its TTL changes
ClassOf(a, b, k) ==
  LET A == {Base(r) : r \in {x \in a.c : KeyOf(x) = k}}
      B == {Base(r) : r \in {x \in b.c : KeyOf(x) = k}}
      ta == {TtlOf(r) : r \in {x \in a.c : KeyOf(x) = k}}
      tb == {TtlOf(r) : r \in {x \in b.c : KeyOf(x) = k}}
  IN IF A = {} \/ B = {} \/ ta = tb THEN "same"
     ELSE IF A = B THEN "ttl_only"
     ELSE IF B \subseteq A THEN "ttl_shrink"
     ELSE IF A \subseteq B THEN "ttl_grow"
     ELSE "ttl_replace"
Classes(h) == {ClassOf(h[i], h[i + 1], k) : i \in 1..(Len(h) - 1), k \in Keys(RecU)} \ {"same"}

\* Sender preconditions:
\*  - an AXFR-style answer to an IXFR query needs a non-SOA second record (RFC
\*    1995: otherwise it reads as an empty incremental answer);
\*  - an IXFR answer whose first message holds only the SOA *is* the "retry
\*    over TCP"/"up to date" signal, so such packagings are not used;
\*  - the "stamped" wording cannot express a change of an RRset's TTL alone.
PackagingOk(kind, h, C) ==
  /\ kind = "fallback" => Last(h).c # {}
  /\ kind \in {"ixfr1", "ixfr2", "fallback"} => 1 \notin C

Init ==
  /\ \E kind \in Kinds : \E h \in HistOf(kind) : \E st \in StylesOf(kind) :
       \E C \in Cuts(Len(SeqOf(kind, h, st)), MaxMsgs) : \E lq \in LaterQ :
         /\ PackagingOk(kind, h, C)
         /\ st = "stamped" => "ttl_only" \notin Classes(h)
         /\ sc = [kind |-> kind, req |-> ReqOf(kind), hist |-> h, style |-> st]
         /\ msgs = Package(SeqOf(kind, h, st), C, ReqOf(kind), lq)
  /\ fault = <<"setup">>
  /\ pos = 1
  /\ rcv = RcvInit(ContentOf(RecU, sc.hist[1].s, sc.hist[1].c))
  /\ steps = <<>>
  /\ phase = "setup"

Go(f, ms) == /\ phase = "setup"
             /\ phase' = "run"
             /\ fault' = f
             /\ msgs' = ms
             /\ UNCHANGED <<sc, pos, rcv, steps>>

NoFault == "none" \in FaultKinds /\ Go(<<"none">>, msgs)
FaultDrop == "drop" \in FaultKinds /\ \E i \in 1..Len(msgs) : Go(<<"drop", i>>, DropAt(msgs, i))
FaultDup == "dup" \in FaultKinds /\ \E i \in 1..Len(msgs) : Go(<<"dup", i>>, DupAt(msgs, i))
FaultSwap == "swap" \in FaultKinds /\ \E i \in 1..(Len(msgs) - 1) : Go(<<"swap", i>>, SwapAt(msgs, i))
FaultTruncate == "trunc" \in FaultKinds /\ \E i \in 1..Len(msgs) : \E k \in 0..(Len(msgs[i].an) - 1) :
                    Go(<<"trunc", i, k>>, TruncAt(msgs, i, k))
FaultCorruptHeader == "hdr" \in FaultKinds /\ \E i \in 1..Len(msgs) : \E f \in HdrFields :
                    CorruptOk(msgs, i, f) /\ Go(<<"hdr", i, f>>, CorruptAt(msgs, i, f))
FaultWrongQuestion == "wrongq" \in FaultKinds /\ \E i \in 1..Len(msgs) : \E w \in {"qname", "qtype"} :
                    msgs[i].qd # <<>> /\ Go(<<"wrongq", i, w>>, WrongQAt(msgs, i, w))

FaultCorruptSoa == "csoa" \in FaultKinds /\ \E i \in 1..Len(msgs) : \E j \in 1..Len(msgs[i].an) :
                    IsSoa(msgs[i].an[j]) /\ Go(<<"csoa", i, j>>, CorruptSoaAt(msgs, i, j))

DeliverNext ==
  /\ phase = "run"
  /\ pos <= Len(msgs) /\ ~rcv.stop /\ ~rcv.ip.fin
  /\ LET d == Deliver(rcv, sc.req, msgs[pos])
     IN rcv' = d.rcv /\ steps' = Append(steps, d.step)
  /\ pos' = pos + 1
  /\ UNCHANGED <<sc, fault, msgs, phase>>

\* end of stream, error, or transfer finished: the updater is dropped, what is
\* not committed is rolled back
Close ==
  /\ phase = "run"
  /\ (pos > Len(msgs) \/ rcv.stop \/ rcv.ip.fin)
  /\ phase' = "closed"
  /\ rcv' = [rcv EXCEPT !.zn.pen = rcv.zn.com]
  /\ UNCHANGED <<sc, fault, msgs, pos, steps>>

Next == NoFault \/ FaultDrop \/ FaultDup \/ FaultSwap \/ FaultTruncate
        \/ FaultCorruptHeader \/ FaultWrongQuestion \/ FaultCorruptSoa \/ DeliverNext \/ Close
Spec == Init /\ [][Next]_vars

\* generator: scenarios and faults only
GenNext == NoFault \/ FaultDrop \/ FaultDup \/ FaultSwap \/ FaultTruncate
           \/ FaultCorruptHeader \/ FaultWrongQuestion \/ FaultCorruptSoa
GenSpec == Init /\ [][GenNext]_vars

--------------------------------------------------------------------------
(* Properties *)

Run == [steps |-> steps, final |-> View(rcv.zn.com)]
Old == VersionView(sc.hist[1].s, sc.hist[1].c)
New == VersionView(Last(sc.hist).s, Last(sc.hist).c)
History == {VersionView(sc.hist[i].s, sc.hist[i].c) : i \in 1..Len(sc.hist)}
Honest == fault = <<"none">>
Den == Denotes(msgs, sc.req, sc.hist[1].s, sc.hist[1].c)

\* the stepped state machine and the run-to-completion operator agree
StepwiseIsRun == phase = "closed" => Run = RunStream(ContentOf(RecU, sc.hist[1].s, sc.hist[1].c), sc.req, msgs)

\* (a) a full transfer reconstructs the sender's zone
AxfrFidelity == (phase = "closed" /\ Honest /\ sc.kind \in {"axfr", "fallback"})
                   => (Run.final = New /\ ~Rejected(Run) /\ Finished(Run))
\* (b) an incremental transfer applied to old yields new; "up to date" changes nothing
IxfrFidelity == (phase = "closed" /\ Honest /\ sc.kind \in {"ixfr1", "ixfr2", "uptodate"})
                   => /\ Run.final = New
                      /\ sc.kind # "uptodate" => (~Rejected(Run) /\ Finished(Run))
\* the oracle reads an honest stream as the sender's history (sanity of the oracle)
HonestDenotesHistory ==
  (phase # "setup" /\ Honest /\ sc.kind # "uptodate") =>
     /\ Den.allValid /\ Den.rd.complete /\ ~Den.rd.bad
     /\ Den.rd.versions[Len(Den.rd.versions)] = New
     /\ Range(Den.rd.versions) \subseteq History
\* (c) every diff a commit reports, applied to the content before the commit,
\* yields the content after it (multisets)
RECURSIVE DiffsApply(_, _, _)
DiffsApply(before, pubs, diffs) ==
  IF pubs = <<>> THEN TRUE
  ELSE /\ (diffs[1] # <<>> =>
            LET d == diffs[1][1] IN
            /\ SortS(BagMinus(SortS(before.recs \o before.soa), d.rem) \o d.add) = SortS(Head(pubs).recs \o Head(pubs).soa)
            /\ BagMinus(d.rem, SortS(before.recs \o before.soa)) = <<>>)
       /\ (diffs[1] = <<>> => (Head(pubs).recs = before.recs \/ SerialOf(before.soa) >= SerialOf(Head(pubs).soa)))
       /\ DiffsApply(Head(pubs), Tail(pubs), Tail(diffs))
DiffApply ==
  phase = "closed" =>      \* Run then holds every commit of the behaviour
  DiffsApply(Old, AllPubs(Run), Concat([i \in 1..Len(steps) |-> steps[i].diffs]))
\* (d) every version a reader can see is one the received stream completely
\* described (for an honest stream: a version of the sender's history)
PublishedIsLegit ==
  phase = "closed" =>      \* AllPubs(Run): everything that was ever visible to a reader
  /\ Range(AllPubs(Run)) \cup {View(rcv.zn.com)} \subseteq {Old} \cup Range(Den.rd.versions)
  /\ Honest => Range(AllPubs(Run)) \subseteq History
\* (d) a stream that is not a valid transfer is rejected or left incomplete,
\* never a panic; "finished" only for a stream that completely describes a transfer
FaultRejectedOrHarmless ==
  /\ ~Panicked(Run)
  /\ (phase = "closed" /\ Finished(Run)) => (Den.rd.complete /\ ~Den.rd.bad)
  /\ (phase = "closed" /\ ~Den.allValid /\ ~Finished(Run)) => Rejected(Run)
  /\ (phase = "closed" /\ Den.rd.bad) => (Rejected(Run) \/ ~Finished(Run))
\* rollback: after close nothing uncommitted is left
RolledBack == phase = "closed" => rcv.zn.pen = rcv.zn.com

--------------------------------------------------------------------------
(* S->I: one case per (scenario, packaging, fault): the delivered stream and *)
(* the run the specification predicts - ideal (Dev = {}) and, where it       *)
(* differs, with the open deviations.                                        *)

Ideal == INSTANCE Xfr WITH Dev <- {}
Wo(x) == INSTANCE Xfr WITH Dev <- Dev \ {x}

Z0 == ContentOf(RecU, sc.hist[1].s, sc.hist[1].c)
SoaSerials(v) == [i \in 1..Len(v.soa) |-> v.soa[i] - 100]
JView(v) == [soa |-> SoaSerials(v), recs |-> v.recs]
JDiff(d) == IF d = <<>> THEN [none |-> TRUE] ELSE d[1]
JStep(s) == [ir |-> s.ir, isans |-> s.isans, ups |-> s.ups, it |-> s.it, ap |-> s.ap,
             diffs |-> [i \in 1..Len(s.diffs) |-> JDiff(s.diffs[i])],
             pubs |-> [i \in 1..Len(s.pubs) |-> JView(s.pubs[i])],
             pub |-> JView(s.pub)]
\* "probe": a later, unrelated write session (new updater, Finished with SOA
\* serial 90) commits; nothing of the dropped session may surface (rollback)
JRun(r) == [steps |-> [i \in 1..Len(r.steps) |-> JStep(r.steps[i])], final |-> JView(r.final),
            probe |-> JView([r.final EXCEPT !.soa = <<SoaRec(90)>>])]

EmitCase ==
  phase = "run" =>
    LET ideal == Ideal!RunStream(Z0, sc.req, msgs)
        open == RunStream(Z0, sc.req, msgs)
        used == {x \in Dev : Wo(x)!RunStream(Z0, sc.req, msgs) # open}
    IN PrintT("CASE " \o ToJson(
         [in |-> [old |-> [soa |-> sc.hist[1].s, recs |-> SetToSeq(sc.hist[1].c)],
                  req |-> sc.req, kind |-> sc.kind, style |-> sc.style,
                  cls |-> SelectSeq(<<"ttl_only", "ttl_shrink", "ttl_grow", "ttl_replace">>, LAMBDA x : x \in Classes(sc.hist)), fault |-> fault, msgs |-> msgs],
          exp |-> JRun(ideal),
          dev |-> IF open = ideal THEN [x \in {} |-> 0] ELSE [x \in used |-> JRun(open)]]))
=============================================================================
