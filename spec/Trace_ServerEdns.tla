--------------------------- MODULE Trace_ServerEdns ---------------------------
(* I->S: recorded random requests through the real                          *)
(* MandatoryMiddlewareSvc(EdnsMiddlewareSvc(service)) must be explained by   *)
(* ServerEdns!Run, and the properties must hold in every recorded outcome.   *)
EXTENDS ServerEdns, TLC, Json, IOUtils

Rec == ndJsonDeserialize(IOEnv.TRACE)

VARIABLES l, used
tvars == <<vars, l, used>>

P(r) == [r EXCEPT !.by = IF @ = "service" THEN @ ELSE "mw"]

TInit == /\ l = 1 /\ used = {}
         /\ pc = "idle" /\ req = 0 /\ cfg = 0 /\ svc = 0 /\ hint = 0 /\ reserved = 0
         /\ seen = NotSeen /\ by = "nobody" /\ resp = ErrMsg

T_Stack ==
  /\ l <= Len(Rec) /\ Rec[l].ev = "stack" /\ l' = l + 1
  /\ LET in == Rec[l].in IN
     \E dv \in {{}} \cup {{d} : d \in Dev} :
        LET r == Run(dv, in.cfg, in.req, in.svc) IN
        /\ P(r) = Rec[l].obs
        /\ (dv # {} => P(Run({}, in.cfg, in.req, in.svc)) # Rec[l].obs)
        /\ used' = IF dv = {} THEN used ELSE used \cup dv
        /\ (dv # {} /\ ~(dv \subseteq used)) => PrintT("TRACE_DEVS " \o ToJson([devs |-> dv]))
        /\ req' = in.req /\ cfg' = in.cfg /\ svc' = in.svc
        /\ by' = r.by /\ seen' = r.seen /\ hint' = r.hint /\ resp' = r.resp
        /\ reserved' = r.seen.reserved /\ pc' = "done"

TNext == T_Stack
TSpec == TInit /\ [][TNext]_tvars

Accepted ==
  LET d == TLCGet("stats").diameter
  IN IF d = Len(Rec) + 1
     THEN TRUE
     ELSE /\ PrintT("TRACE_REJECTED " \o ToJson([matched |-> d - 1, total |-> Len(Rec),
                      event |-> IF d <= Len(Rec) THEN Rec[d] ELSE [ev |-> "none"]]))
          /\ FALSE
=============================================================================
