--------------------------- MODULE ClientStream ---------------------------
(* The multiplexed stream client transport: net::client::stream.            *)
(*                                                                          *)
(* Structure follows Transport::run (src/net/client/stream.rs): one action  *)
(* per select! arm / helper, over the state the run loop keeps              *)
(*   Queries {vec, count, curr}      the outstanding-request table; the ID  *)
(*                                   put on the wire is the slot index      *)
(*   Status  {state, send_keepalive, idle_timeout}                          *)
(*   reqmsg                          the request currently being written    *)
(* plus the three queues around it: chan (Connection -> run, mpsc), wire    *)
(* (peer -> reader), rq (reader -> run, mpsc) and the observable effects:   *)
(* out (messages written to the peer), done (what every caller was handed), *)
(* closed (run returned; the stream was shut down).                         *)
(*                                                                          *)
(* Every transition is written as a function on a state record (operators  *)
(* ending in ...Arm / ...Op), so that the same definitions serve            *)
(*   - the fine-grained actions below (TLC explores all interleavings),     *)
(*   - the macro step  Quiesce(op(s))  = "environment step, then run the    *)
(*     transport until nothing is runnable", which is what a harness on a   *)
(*     current-thread runtime observes (S->I generation, I->S validation).  *)
(*                                                                          *)
(* Time: ticks.  A timer holds the number of ticks since it was (re)armed.  *)
(* Active(Some) fires when e >= RT (the harness configures response_timeout *)
(* = RT ticks minus half a tick, the code tests elapsed > timeout); Idle    *)
(* fires when e >= idle (the code tests elapsed >= idle_timeout).  A tick   *)
(* cannot pass while a timer is due (the loop head checks before anything   *)
(* else runs).                                                              *)
(*                                                                          *)
(* Not modelled (cut deliberately): multi-response (AXFR/IXFR) requests and *)
(* check_stream; how many octets of a request a stalled write has taken;    *)
(* StreamTooManyOutstandingQueries (2*count > 65535);         *)
(* StreamLongMessage; callers dropping a request future before it resolves. *)
(*                                                                          *)
(* The budget is the configured one: a connection starts from a             *)
(* configuration script (ClientConfig: the stream::Config calls the caller  *)
(* made, the route by which the object was made); the response timeout for  *)
(* ordinary requests, the one for streaming (zone transfer) requests and    *)
(* the idle timeout are what that script leaves in force.  Transport::run   *)
(* puts the timeout of the kind of request it accepted last in force        *)
(* (`tsel`) for the whole connection.                                       *)
EXTENDS ClientMsg, ClientConfig, FiniteSets, TLC

CONSTANTS MaxReq,      \* number of request instances (each submitted once)
          StConfs,     \* the configuration scripts (StScript) a connection may start from
          TickMs,      \* milliseconds per tick
          RqCap,       \* capacity of the reader -> run channel (8 in the code)
          ChanCap,     \* capacity of the Connection -> run channel (8)
          Frames,      \* the messages the peer may send (a finite alphabet)
          MaxFrames,   \* bound on the number of messages the peer sends
          EndKinds,    \* which ways of breaking the stream the peer may use:
                       \* subset of {"eof", "short", "trunc", "wfail", "stall"}
          Dev          \* named deviations in force, subset of DevNames

VARIABLES vec, count, curr,          \* Queries
          state, keepalive, idle,    \* Status
          reqmsg,                    \* <<>> or <<request being written>>
          chan, wire, rq, rdead,     \* queues; result of the reader future
          wfail, wstall, peerOpen, handles,  \* environment (wstall: the peer does
                                     \* not take octets: write() is short, then pending)
          out, closed,               \* observable effects
          asked, sent, done,         \* ghost: per request question, ID, outcomes
          nsub, nframes,             \* counters: requests submitted, peer messages
          sconf,                     \* the configuration of this connection: [sc, eff, rt,
                                     \* srt, idle, def]: script, what it leaves in force,
                                     \* the three timeouts and the default in ticks
          tsel                       \* "single" | "multi": whose response timeout is in force

vars == <<vec, count, curr, state, keepalive, idle, reqmsg, chan, wire, rq,
          rdead, wfail, wstall, peerOpen, handles, out, closed, asked, sent, done,
          nsub, nframes, sconf, tsel>>

\* the code tests `elapsed > response_timeout` and `elapsed >= idle_timeout`
SConfOf(sc) == LET eff == StRun(sc)
               IN [sc |-> sc, eff |-> eff, rt |-> TicksOver(eff.rt, TickMs),
                   srt |-> TicksOver(eff.srt, TickMs), idle |-> TicksAt(eff.idle, TickMs),
                   def |-> TicksOver(StResponse.def, TickMs)]
\* scripts for timeouts of whole ticks: response rt, streaming srt, idle
\* (half a tick short, so that `elapsed > timeout` is decided on whole ticks)
StS(rt, srt, idl) ==
  StScript("new", <<Call("set_response_timeout", rt * TickMs - TickMs \div 2)>>
                  \o (IF srt # rt THEN <<Call("set_streaming_response_timeout",
                                            srt * TickMs - TickMs \div 2)>> ELSE <<>>)
                  \o <<Call("set_idle_timeout", idl * TickMs)>>)
St_1_1 == {StS(1, 1, 1)}
St_1_0 == {StS(1, 1, 0)}
St_3_2 == {StS(3, 3, 2)}
\* the streaming timeout longer / shorter than the ordinary one
St_1s2_0 == {StS(1, 2, 0)}
St_2s1_0 == {StS(2, 1, 0)}
St_xfr   == {StS(1, 1, 0), StS(1, 2, 0)}
\* Every setting at, just inside and just outside the ends of its range, set
\* twice, in either order, not at all, by every route.  The lower ends, the
\* defaults and values inside are told apart on a clock of 10 s ticks, the
\* upper ends on longer ticks (the case carries TickMs to the harness).  A
\* response timeout that is a whole number of ticks is avoided: at `elapsed =
\* timeout` exactly the run loop sleeps for zero time until the clock moves,
\* which a frozen clock never does.
Half == TickMs \div 2
St_low ==
       {StScript(r, <<>>) : r \in {"new", "default", "conn_new"}}
  \cup {StScript("new", <<Call("set_idle_timeout", 0), Call("set_response_timeout", v)>>) :
          v \in {0, 1, Half, TickMs + Half, 2 * TickMs + Half}}
  \cup {StScript("new", <<Call("set_idle_timeout", 0), Call("set_response_timeout", TickMs + Half),
                          Call("set_streaming_response_timeout", v)>>) :
          v \in {0, 1, 2 * TickMs + Half}}
  \cup {StScript("default", <<Call("set_response_timeout", Half), Call("set_idle_timeout", v)>>) :
          v \in {0, 1, TickMs, TickMs + 1, 2 * TickMs}}
  \cup {StScript("new", <<Call("set_streaming_response_timeout", 2 * TickMs + Half),
                          Call("set_response_timeout", 700000),
                          Call("set_response_timeout", Half), Call("set_idle_timeout", 0)>>),
        StScript("default", <<Call("set_idle_timeout", 3600001), Call("set_idle_timeout", TickMs),
                              Call("set_streaming_response_timeout", Half)>>)}
\* TickMs = 70000
St_high ==
       {StScript("new", <<Call("set_idle_timeout", 0), Call("set_response_timeout", v)>>) :
          v \in {599999, 600000, 600001, 3600000}}
  \cup {StScript("default", <<Call("set_idle_timeout", 0), Call("set_response_timeout", Half),
                              Call("set_streaming_response_timeout", v)>>) :
          v \in {600000, 600001, 3600000}}
  \cup {StScript("new", <<Call("set_idle_timeout", 0), Call("set_response_timeout", Half),
                          Call("set_response_timeout", 3600000)>>)}
\* TickMs = 600000: `elapsed >= idle_timeout` is decided exactly at the end of the range
St_idlehigh ==
       {StScript("new", <<Call("set_response_timeout", Half), Call("set_idle_timeout", v)>>) :
          v \in {3599999, 3600000, 3600001, 7200000}}
  \cup {StScript("default", <<Call("set_idle_timeout", 7200000), Call("set_response_timeout", Half),
                              Call("set_idle_timeout", TickMs + 1)>>)}

(* D_stream_response_timeout_ignored: Config::set_response_timeout stores   *)
(* the value in `response_timeout` (and `streaming_response_timeout`), but  *)
(* Transport::run overwrites `response_timeout` with                        *)
(* `single_response_timeout` whenever it takes a request from the channel,  *)
(* and that field is only ever the 19 s default.  So for ordinary requests  *)
(* the configured timeout is never in force.                                *)
DevNames == {"D_stream_response_timeout_ignored"}

\* the response timeout for ordinary requests under a set of deviations
EffRT(dev, cf) == IF "D_stream_response_timeout_ignored" \in dev THEN cf.def ELSE cf.rt
\* the response timeout in force
RtOf(s) == IF s.tsel = "multi" THEN s.conf.srt ELSE s.rts
\* the one the caller configured for the kind of request accepted last
WantOf(s) == IF s.tsel = "multi" THEN s.conf.srt ELSE s.conf.rt

Cur == [vec |-> vec, count |-> count, curr |-> curr, state |-> state,
        keepalive |-> keepalive, idle |-> idle, reqmsg |-> reqmsg,
        chan |-> chan, wire |-> wire, rq |-> rq, rdead |-> rdead,
        wfail |-> wfail, wstall |-> wstall, peerOpen |-> peerOpen, handles |-> handles,
        out |-> out, closed |-> closed, asked |-> asked, sent |-> sent,
        done |-> done, nsub |-> nsub, nframes |-> nframes, conf |-> sconf, tsel |-> tsel,
        rts |-> EffRT(Dev, sconf)]

Set(s) == /\ vec' = s.vec /\ count' = s.count /\ curr' = s.curr
          /\ state' = s.state /\ keepalive' = s.keepalive /\ idle' = s.idle
          /\ reqmsg' = s.reqmsg /\ chan' = s.chan /\ wire' = s.wire
          /\ rq' = s.rq /\ rdead' = s.rdead /\ wfail' = s.wfail /\ wstall' = s.wstall
          /\ peerOpen' = s.peerOpen /\ handles' = s.handles /\ out' = s.out
          /\ closed' = s.closed /\ asked' = s.asked /\ sent' = s.sent
          /\ done' = s.done /\ nsub' = s.nsub /\ nframes' = s.nframes
          /\ sconf' = s.conf /\ tsel' = s.tsel

Reqs == 1..MaxReq
Free == [r |-> 0, q |-> 0, x |-> XSt("na", 0)]  \* an empty slot (None)
St(k, e) == [k |-> k, e |-> e]                  \* e = -1: no timer

InitState(sc) ==
  [vec |-> <<>>, count |-> 0, curr |-> 0, state |-> St("Active", -1),
   keepalive |-> TRUE, idle |-> SConfOf(sc).idle, reqmsg |-> <<>>, chan |-> <<>>,
   wire |-> <<>>, rq |-> <<>>, rdead |-> "none", wfail |-> FALSE, wstall |-> FALSE,
   peerOpen |-> TRUE, handles |-> TRUE, out |-> <<>>, closed |-> FALSE,
   asked |-> [r \in Reqs |-> 0], sent |-> [r \in Reqs |-> -1],
   done |-> [r \in Reqs |-> <<>>], nsub |-> 0, nframes |-> 0, conf |-> SConfOf(sc),
   tsel |-> "single", rts |-> EffRT(Dev, SConfOf(sc))]

\* the same connection as the code behaves under deviations dev
InitStateDev(dev, sc) == [InitState(sc) EXCEPT !.rts = EffRT(dev, SConfOf(sc))]

--------------------------------------------------------------------------
(* Queries: insert / try_remove / drain, positions are 1-based here, IDs   *)
(* are 0-based (ID = position - 1).                                        *)

Occupied(s, id) == id < Len(s.vec) /\ s.vec[id + 1].r # 0

FreeFrom(s) == {i \in (s.curr + 1)..Len(s.vec) : s.vec[i].r = 0}
SetMin(S) == CHOOSE x \in S : \A y \in S : x <= y

\* the index Queries::insert picks: a free slot at or after curr if at
\* least half of the vector is empty, otherwise a new slot at the end
InsertIdx(s) == IF Len(s.vec) >= 2 * s.count /\ FreeFrom(s) # {}
                THEN SetMin(FreeFrom(s)) - 1
                ELSE Len(s.vec)

QInsert(s, item) ==
  LET idx == InsertIdx(s)
      v2  == IF idx = Len(s.vec) THEN Append(s.vec, item)
             ELSE [s.vec EXCEPT ![idx + 1] = item]
  IN [s EXCEPT !.vec = v2, !.count = @ + 1,
               !.curr = IF idx = s.curr THEN @ + 1 ELSE @]

QRemove(s, id) ==
  [s EXCEPT !.vec[id + 1] = Free, !.count = @ - 1, !.curr = Min2(@, id)]

InVec(s) == {s.vec[i].r : i \in {j \in 1..Len(s.vec) : s.vec[j].r # 0}}

--------------------------------------------------------------------------
(* helpers of Transport::run *)

Up(s) == ~s.closed

TimerDue(s) == /\ Up(s)
               /\ \/ s.state.k = "Active" /\ s.state.e >= RtOf(s)
                  \/ s.state.k = "Idle" /\ s.state.e >= s.idle

Finished(dn) == dn # <<>> /\ dn[Len(dn)].fin
Pending(s) == {r \in Reqs : s.asked[r] # 0 /\ ~Finished(s.done[r])}

\* Transport::error: every outstanding request gets the error, table drained
ErrorAll(s, why) ==
  [s EXCEPT !.done = [r \in Reqs |-> IF r \in InVec(s) THEN Append(@[r], ErrOut(why))
                                     ELSE @[r]],
            !.vec = <<>>, !.count = 0, !.curr = 0]

\* run returns: the request channel is dropped (requests still in it lose
\* their reply sender), the stream is shut down
Finish(s, k) ==
  LET inchan == {s.chan[i].r : i \in 1..Len(s.chan)}
      s1 == ErrorAll(s, "dropped")
  IN [s1 EXCEPT !.done = [r \in Reqs |-> IF r \in inchan THEN Append(@[r], ErrOut("dropped"))
                                         ELSE @[r]],
                !.chan = <<>>, !.reqmsg = <<>>, !.state = St(k, -1),
                !.closed = TRUE]

\* insert_req (state is Active or Idle whenever the loop calls it)
InsertReq(s, req) ==
  LET st2 == IF s.state.k = "Active" /\ s.state.e >= 0 THEN s.state
             ELSE St("Active", 0)
      idx == InsertIdx(s)
      x0  == CASE QKind(req.q) = "axfr" -> XSt("AI", 0)
               [] QKind(req.q) = "ixfr" -> XSt("II", 0)
               [] OTHER -> XSt("na", 0)
      s2  == QInsert([s EXCEPT !.state = st2], [r |-> req.r, q |-> req.q, x |-> x0])
  IN [s2 EXCEPT !.reqmsg = <<[id |-> idx, q |-> req.q, ka |-> s.keepalive]>>,
                !.keepalive = FALSE,
                !.sent[req.r] = idx]

\* demux_reply for one message item = [f |-> message, n |-> serial]
DemuxOne(s, item) ==
  LET f  == item.f
      s1 == [s EXCEPT !.idle = IF f.ka >= 0 THEN f.ka ELSE @,
                      !.state = St("Active", 0)]      \* timer restarted by every message
  IN IF ~Occupied(s1, f.id) THEN s1                   \* no query with this ID: ignored
     ELSE LET slot == s1.vec[f.id + 1]
              s2   == QRemove(s1, f.id)
              multi == QKind(slot.q) # "single"
              cs   == CheckStream(f, slot.x, s.sent[slot.r], slot.q)
              res  == IF ~multi
                      THEN <<IF IsAnswer(f, s.sent[slot.r], slot.q) THEN OkOut(f, item.n)
                             ELSE ErrOut("wrongreply")>>
                      ELSE <<IF cs.ans THEN PartOut(f, item.n) ELSE WrongPart>>
                           \o (IF cs.eof THEN <<EofOut>> ELSE <<>>)
              \* a transfer that has not ended is put back under the same ID
              s2b  == IF multi /\ ~cs.eof
                      THEN [s2 EXCEPT !.vec[f.id + 1] = [slot EXCEPT !.x = cs.x],
                                      !.count = @ + 1,
                                      !.curr = IF f.id = @ THEN @ + 1 ELSE @]
                      ELSE s2
              s3   == [s2b EXCEPT !.done[slot.r] = @ \o res]
          IN IF s3.count = 0
             THEN [s3 EXCEPT !.state = IF s3.idle = 0 THEN St("IdleTimeout", -1)
                                       ELSE St("Idle", 0)]
             ELSE s3

RECURSIVE DemuxAll(_)
DemuxAll(s) == IF s.rq = <<>> THEN s
               ELSE DemuxAll(DemuxOne([s EXCEPT !.rq = Tail(@)], Head(s.rq)))

--------------------------------------------------------------------------
(* the arms of the loop, as functions *)

\* loop head: the timers
TimerArm(s) == IF s.state.k = "Active"
               THEN Finish(ErrorAll(s, "timeout"), "ReadTimeout")
               ELSE Finish(s, "IdleTimeout")

\* the reader future: one frame from the wire to the reply channel, or its end
ReaderCanMove(s) == s.rdead = "none" /\ s.wire # <<>> /\ Len(s.rq) < RqCap
ReaderArm(s) ==
  LET h == Head(s.wire)
  IN IF h.kind = "msg"
     THEN [s EXCEPT !.wire = Tail(@), !.rq = Append(@, [f |-> h.f, n |-> h.n])]
     ELSE [s EXCEPT !.wire = Tail(@), !.rdead = h.kind]

\* arm 1: the reader future ended: replies already read are still delivered
ReaderDoneArm(s) == Finish(ErrorAll(DemuxAll(s), s.rdead), "ReadErr")

\* arm 2: one reply
DemuxArm(s) ==
  LET s1 == DemuxOne([s EXCEPT !.rq = Tail(@)], Head(s.rq))
  IN IF s1.state.k = "IdleTimeout" THEN Finish(s1, "IdleTimeout") ELSE s1

\* arm 3: write the pending request (all of it: partial writes only move an
\* offset; the harness's stream accepts a few octets per call to exercise it)
WriteArm(s) == IF s.wfail THEN Finish(ErrorAll(s, "write"), "WriteErr")
               ELSE [s EXCEPT !.out = Append(@, Head(s.reqmsg)), !.reqmsg = <<>>]

\* arm 4: next request from the channel (only while nothing is being written)
\* (the response timeout of the kind of request taken is put in force first)
RecvArm(s) == InsertReq([s EXCEPT !.chan = Tail(@),
                                  !.tsel = IF QKind(Head(s.chan).q) # "single" THEN "multi"
                                           ELSE "single"], Head(s.chan))

\* arm 4, None: all Connection handles and request futures are gone
\* (a pending single-response request holds a Connection clone until it is
\* resolved; a zone-transfer request gives its clone up once the request is
\* in the channel, so an outstanding transfer does not keep run alive: it is
\* ended with an error when the last handle goes)
SendersGone(s) == ~s.handles /\ {r \in Pending(s) : QKind(s.asked[r]) = "single"} = {}
DroppedArm(s) == Finish(s, "Dropped")

--------------------------------------------------------------------------
(* environment steps, as functions *)

SubmitOp(s, r, q) ==
  LET s1 == [s EXCEPT !.asked[r] = q, !.nsub = @ + 1]
  IN IF s.closed THEN [s1 EXCEPT !.done[r] = Append(@, ErrOut("closed"))]
     ELSE [s1 EXCEPT !.chan = Append(@, [r |-> r, q |-> q])]

PeerSendOp(s, f) ==
  [s EXCEPT !.wire = Append(@, [kind |-> "msg", f |-> f, n |-> s.nframes + 1]),
            !.nframes = @ + 1]

\* how: "short" (a frame shorter than a header), "eof" (close between
\* frames), "trunc" (close inside a frame): the reader future ends with an error
PeerEndOp(s, how) ==
  [s EXCEPT !.wire = Append(@, [kind |-> how, f |-> Msg(0, FALSE, 0, 0, FALSE, FALSE, -1), n |-> 0]),
            !.peerOpen = FALSE]

PeerWriteFailOp(s) == [s EXCEPT !.wfail = TRUE]

PeerStallOp(s, v) == [s EXCEPT !.wstall = v]

DropOp(s) == [s EXCEPT !.handles = FALSE]

TickOp(s) == IF Up(s) /\ s.state.e >= 0 THEN [s EXCEPT !.state.e = @ + 1] ELSE s

--------------------------------------------------------------------------
(* Macro step: run the transport task until it has nothing to do, in the   *)
(* order of the biased select!.                                             *)

\* which arm runs next.  The select! is `biased`: the loop head checks the
\* timers, then the reader future is polled (it moves every available frame
\* to the reply channel), then the arms in textual order.
Pick(s) ==
  IF ~Up(s) THEN "none"
  ELSE IF TimerDue(s) THEN "timer"
  ELSE IF ReaderCanMove(s) THEN "reader"
  ELSE IF s.rdead # "none" THEN "readerdone"
  ELSE IF s.rq # <<>> THEN "demux"
  \* while a request is being written (do_write) no new request is taken
  \* from the channel; a peer that does not take octets leaves it half written
  ELSE IF s.reqmsg # <<>> THEN (IF s.wstall /\ ~s.wfail THEN "none" ELSE "write")
  ELSE IF s.chan # <<>> THEN "recv"
  ELSE IF SendersGone(s) THEN "dropped"
  ELSE "none"

Step(s) ==
  CASE Pick(s) = "timer"      -> TimerArm(s)
    [] Pick(s) = "reader"     -> ReaderArm(s)
    [] Pick(s) = "readerdone" -> ReaderDoneArm(s)
    [] Pick(s) = "demux"      -> DemuxArm(s)
    [] Pick(s) = "write"      -> WriteArm(s)
    [] Pick(s) = "recv"       -> RecvArm(s)
    [] Pick(s) = "dropped"    -> DroppedArm(s)
    [] OTHER                  -> s

RECURSIVE Quiesce(_)
Quiesce(s) == IF Pick(s) = "none" THEN s ELSE Quiesce(Step(s))

Quiescent(s) == Pick(s) = "none"

--------------------------------------------------------------------------
(* Environment steps as data, and the macro step.  An op is a record        *)
(* [op, r, q, f, how]; unused fields hold defaults.                         *)
NoMsg == Msg(0, FALSE, 0, 0, FALSE, FALSE, -1)
MkOp(op, r, q, f, how) == [op |-> op, r |-> r, q |-> q, f |-> f, how |-> how]

OpsOf(s, qs, frames) ==
       (IF s.handles /\ s.nsub < MaxReq
        THEN {MkOp("submit", s.nsub + 1, q, NoMsg, "") : q \in qs} ELSE {})
  \cup (IF s.peerOpen /\ s.nframes < MaxFrames
        THEN {MkOp("peer", 0, 0, f, "") : f \in frames} ELSE {})
  \cup (IF s.peerOpen THEN {MkOp("end", 0, 0, NoMsg, h) : h \in EndKinds \ {"wfail"}} ELSE {})
  \cup (IF ~s.wfail /\ "wfail" \in EndKinds THEN {MkOp("wfail", 0, 0, NoMsg, "")} ELSE {})
  \cup (IF "stall" \in EndKinds
        THEN {MkOp(IF s.wstall THEN "unstall" ELSE "stall", 0, 0, NoMsg, "")} ELSE {})
  \cup (IF s.handles THEN {MkOp("drop", 0, 0, NoMsg, "")} ELSE {})
  \cup {MkOp("tick", 0, 0, NoMsg, "")}

EnvOp(s, o) ==
  CASE o.op = "submit" -> SubmitOp(s, o.r, o.q)
    [] o.op = "peer"   -> PeerSendOp(s, o.f)
    [] o.op = "end"    -> PeerEndOp(s, o.how)
    [] o.op = "wfail"  -> PeerWriteFailOp(s)
    [] o.op = "stall"  -> PeerStallOp(s, TRUE)
    [] o.op = "unstall" -> PeerStallOp(s, FALSE)
    [] o.op = "drop"   -> DropOp(s)
    [] o.op = "tick"   -> TickOp(s)

\* environment step, then the transport runs until nothing is runnable
Apply(s, o) == Quiesce(EnvOp(s, o))

--------------------------------------------------------------------------
(* A message alphabet for the peer: for every ID and question               *)
(*   a normal answer; an error answer that copies the question; header-only *)
(*   messages with and without an error code; an error with an empty        *)
(*   question but other records; a query (QR clear); an answer carrying an  *)
(*   edns-tcp-keepalive option.                                             *)
AlphabetOf(ids, qs, kas, qvars) ==
       {Msg(id, TRUE, q, 0, TRUE, FALSE, -1)  : id \in ids, q \in qs}
  \cup {Msg(id, TRUE, q, 2, FALSE, FALSE, -1) : id \in ids, q \in qs}
  \cup {Msg(id, TRUE, NoQ, rc, FALSE, FALSE, -1) : id \in ids, rc \in {0, 2}}
  \cup {Msg(id, TRUE, NoQ, 2, TRUE, FALSE, -1) : id \in ids}
  \cup {Msg(id, FALSE, q, 0, FALSE, FALSE, -1) : id \in ids, q \in qs}
  \cup {Msg(id, TRUE, q, 0, TRUE, FALSE, k)  : id \in ids, q \in qs, k \in kas}
  \* question 1 with one component changed: type, class, letter case (equal), QDCOUNT 2
  \cup {Msg(id, TRUE, v, 0, TRUE, FALSE, -1) : id \in ids, v \in qvars}

\* zone-transfer responses: for every ID, the request's question / an empty
\* question section / another transfer question, and answer sections that
\* walk check_stream: SOA, SOA + data, data, data + closing SOA, a complete
\* small transfer, another serial, two serials, empty
XfrRecsAll == {<<1>>, <<0>>, <<1, 0>>, <<0, 1>>, <<1, 0, 1>>, <<2>>, <<1, 2>>, <<1, 1>>, <<>>}
XfrRecsFew == {<<1>>, <<0>>, <<0, 1>>, <<1, 0, 1>>, <<2>>}
XfrAlphabetOf(ids, qs, recset) ==
       {XfrMsg(id, q, 0, rs) : id \in ids, q \in qs \cup {NoQ}, rs \in recset}
  \cup {XfrMsg(id, q, 2, <<>>) : id \in ids, q \in qs \cup {NoQ}}

--------------------------------------------------------------------------
(* Fine-grained actions (all interleavings) *)

InitPred ==
  /\ sconf \in {SConfOf(sc) : sc \in StConfs} /\ tsel = "single"
  /\ vec = <<>> /\ count = 0 /\ curr = 0 /\ state = St("Active", -1)
  /\ keepalive = TRUE /\ idle = sconf.idle /\ reqmsg = <<>> /\ chan = <<>>
  /\ wire = <<>> /\ rq = <<>> /\ rdead = "none" /\ wfail = FALSE /\ wstall = FALSE
  /\ peerOpen = TRUE /\ handles = TRUE /\ out = <<>> /\ closed = FALSE
  /\ asked = [r \in Reqs |-> 0] /\ sent = [r \in Reqs |-> -1]
  /\ done = [r \in Reqs |-> <<>>] /\ nsub = 0 /\ nframes = 0

\* callers
Submit(r, q) == /\ handles /\ r = nsub + 1 /\ r \in Reqs
                /\ Len(chan) < ChanCap
                /\ Set(SubmitOp(Cur, r, q))
SubmitMulti(r, q) == QKind(q) # "single" /\ Submit(r, q)
DropHandles == handles /\ Set(DropOp(Cur))

\* Transport::run: the task's own steps follow the biased order (Pick); the
\* environment (callers, peer, clock) may act between any two of them
Is(a) == Pick(Cur) = a
RecvReq           == Is("recv") /\ Set(RecvArm(Cur))
WriteChunk        == Is("write") /\ ~wfail /\ Set(WriteArm(Cur))
WriteError        == Is("write") /\ wfail /\ Set(WriteArm(Cur))
ReaderFrame       == Is("reader") /\ Head(wire).kind = "msg" /\ Set(ReaderArm(Cur))
ReaderEnd         == Is("reader") /\ Head(wire).kind # "msg" /\ Set(ReaderArm(Cur))
ReaderDone        == Is("readerdone") /\ Set(ReaderDoneArm(Cur))
Demux             == Is("demux") /\ Set(DemuxArm(Cur))
ResponseTimeout   == Is("timer") /\ state.k = "Active" /\ Set(TimerArm(Cur))
IdleTimeout       == Is("timer") /\ state.k = "Idle" /\ Set(TimerArm(Cur))
AllSendersDropped == Is("dropped") /\ Set(DroppedArm(Cur))

\* time
Tick == ~TimerDue(Cur) /\ Set(TickOp(Cur))

\* the peer / network: it may put any message of the alphabet on the
\* stream at any time (this subsumes reordering, delay, duplication, loss,
\* wrong IDs and unrelated messages), end the stream in three ways, or stop
\* reading.  The named classes partition PeerSend by what the message is
\* relative to the table at the time it is sent (for the coverage report).
PeerSend(f) == peerOpen /\ nframes < MaxFrames /\ Set(PeerSendOp(Cur, f))

Matches(f)  == Occupied(Cur, f.id) /\ IsAnswer(f, f.id, vec[f.id + 1].q)
UsedBefore(id) == \E r \in Reqs : sent[r] = id /\ Finished(done[r])

PeerReply(f)     == f.qr /\ Matches(f) /\ PeerSend(f)
WrongQuestion(f) == f.qr /\ Occupied(Cur, f.id) /\ ~Matches(f) /\ PeerSend(f)
NotAResponse(f)  == ~f.qr /\ PeerSend(f)
Duplicate(f)     == f.qr /\ ~Occupied(Cur, f.id) /\ UsedBefore(f.id) /\ PeerSend(f)
WrongId(f)       == f.qr /\ ~Occupied(Cur, f.id) /\ ~UsedBefore(f.id) /\ PeerSend(f)
Garbage          == "short" \in EndKinds /\ peerOpen /\ Set(PeerEndOp(Cur, "short"))
Close            == "eof" \in EndKinds /\ peerOpen /\ Set(PeerEndOp(Cur, "eof"))
CloseInFrame     == "trunc" \in EndKinds /\ peerOpen /\ Set(PeerEndOp(Cur, "trunc"))
PeerStopsReading == "wfail" \in EndKinds /\ ~wfail /\ Set(PeerWriteFailOp(Cur))
PeerStalls       == "stall" \in EndKinds /\ ~wstall /\ Set(PeerStallOp(Cur, TRUE))
PeerResumes      == "stall" \in EndKinds /\ wstall /\ Set(PeerStallOp(Cur, FALSE))

Internal == \/ RecvReq \/ WriteChunk \/ WriteError \/ ReaderFrame \/ ReaderEnd
            \/ ReaderDone \/ Demux \/ ResponseTimeout \/ IdleTimeout
            \/ AllSendersDropped

Peer == \/ \E f \in Frames : \/ PeerReply(f) \/ WrongQuestion(f) \/ NotAResponse(f)
                             \/ Duplicate(f) \/ WrongId(f)
        \/ Garbage \/ Close \/ CloseInFrame \/ PeerStopsReading
        \/ PeerStalls \/ PeerResumes

--------------------------------------------------------------------------
(* The property *)

\* (a) what a caller is handed answers its own request
\* (for a zone transfer: the first message handed over answers the request
\* in full; later ones carry its ID - check_stream looks at nothing else,
\* neither the QR bit nor the question section: see the report)
OwnAnswerOf(s) ==
  \A r \in Reqs : \A k \in 1..Len(s.done[r]) :
     (s.done[r][k].ok /\ s.done[r][k].why = "response") =>
        IF QKind(s.asked[r]) = "single"
        THEN IsAnswer(s.done[r][k].f, s.sent[r], s.asked[r])
        ELSE /\ s.done[r][k].f.id = s.sent[r]
             /\ ((\A j \in 1..(k - 1) : ~(s.done[r][j].ok /\ s.done[r][j].why = "response"))
                   => IsAnswerMulti(s.done[r][k].f, s.sent[r], s.asked[r]))

\* (b) never more than one completion
\* a zone transfer is a sequence of parts closed by exactly one final item
AtMostOnceOf(s) == \A r \in Reqs :
  /\ QKind(s.asked[r]) = "single" => Len(s.done[r]) <= 1
  /\ \A k \in 1..Len(s.done[r]) : s.done[r][k].fin => k = Len(s.done[r])

\* (c) requests outstanding at the same time have different IDs on the wire,
\* and no peer message is handed to two requests
OkIdx(s) == UNION {{<<r, k>> : k \in {j \in 1..Len(s.done[r]) :
                                          s.done[r][j].ok /\ s.done[r][j].why = "response"}} : r \in Reqs}
NoCrossOf(s) ==
  /\ Cardinality({s.sent[r] : r \in InVec(s)}) = Cardinality(InVec(s))
  /\ Cardinality({s.done[rk[1]][rk[2]].n : rk \in OkIdx(s)}) = Cardinality(OkIdx(s))

\* the table: count = occupied slots; everything below curr is occupied;
\* IDs fit 16 bits; a slot holds a pending request under the ID it was sent with
SlotTableSoundOf(s) ==
  /\ s.count = Cardinality({i \in 1..Len(s.vec) : s.vec[i].r # 0})
  /\ s.curr <= Len(s.vec)
  /\ \A i \in 1..s.curr : s.vec[i].r # 0
  /\ Len(s.vec) <= 65536
  /\ \A i \in 1..Len(s.vec) : s.vec[i].r # 0 =>
        /\ s.sent[s.vec[i].r] = i - 1
        /\ s.asked[s.vec[i].r] = s.vec[i].q
        /\ ~Finished(s.done[s.vec[i].r])
        /\ \A j \in 1..Len(s.vec) : j # i => s.vec[j].r # s.vec[i].r

\* no pending request is forgotten: it is in the channel or in the table;
\* once run has returned nothing is pending
NothingLostOf(s) ==
  /\ \A r \in Pending(s) : \/ r \in InVec(s)
                           \/ \E i \in 1..Len(s.chan) : s.chan[i].r = r
  /\ s.closed => Pending(s) = {}

\* while requests are outstanding the response timer is armed and not
\* overdue: a request is completed no later than the configured response
\* timeout after the timer was last restarted (by the first request or by
\* the most recent message).  The timeout is the one configured for the kind
\* of request accepted last; when that has just made it shorter the timer
\* may be found overdue, and then fires before the clock moves.
MaxRt(s) == IF s.conf.rt >= s.conf.srt THEN s.conf.rt ELSE s.conf.srt
TimerArmedOf(s) ==
  (Up(s) /\ s.count > 0) =>
     /\ s.state.k = "Active" /\ s.state.e >= 0
     /\ \/ s.state.e <= WantOf(s)
        \/ TimerDue(s) /\ s.state.e <= MaxRt(s)
\* the timeouts in force are the configured ones
ConfiguredOf(s) ==
  /\ StHonoured(s.conf.sc.calls, s.conf.eff)
  /\ (s.conf.rt - 1) * TickMs <= s.conf.eff.rt /\ s.conf.rt * TickMs > s.conf.eff.rt
  /\ (s.conf.srt - 1) * TickMs <= s.conf.eff.srt /\ s.conf.srt * TickMs > s.conf.eff.srt
  /\ (s.conf.idle - 1) * TickMs < s.conf.eff.idle /\ s.conf.idle * TickMs >= s.conf.eff.idle

OwnAnswer      == OwnAnswerOf(Cur)
AtMostOnce     == AtMostOnceOf(Cur)
NoCross        == NoCrossOf(Cur)
SlotTableSound == SlotTableSoundOf(Cur)
NothingLost    == NothingLostOf(Cur)
TimerArmed     == TimerArmedOf(Cur)
Configured     == ConfiguredOf(Cur)

\* liveness: every submitted request is eventually completed, given that
\* the transport task and the clock keep running (the peer is bounded by
\* MaxFrames, so it cannot restart the timer forever: see the report on
\* demux_reply restarting the timer for unrelated messages)
Completion == \A r \in Reqs : (asked[r] # 0) ~> Finished(done[r])
=============================================================================
