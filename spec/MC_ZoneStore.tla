---------------------------- MODULE MC_ZoneStore ----------------------------
(* Model-checking wrapper and S->I generators for ZoneStore.tla.            *)
EXTENDS ZoneStore, Json

la == <<97>>
lb == <<98>>
lc == <<99>>      \* a label that is only ever queried, never stored
ls == <<42>>      \* "*"
lo == <<111>>     \* o.<apex>: never exists in the zone (stands for an out-of-zone server)

MCNsTarget(x) == IF x = 1 THEN <<la, la>> ELSE IF x = 2 THEN <<lo>> ELSE <<lb>>

Nodes_small == {<<la>>, <<ls>>, <<la, la>>, <<ls, la>>}
QNames_small == {<<>>, <<la>>, <<ls>>, <<lc>>, <<la, la>>, <<ls, la>>, <<lc, la>>, <<la, lc>>, <<lc, la, la>>}
Nodes_tiny == {<<la>>, <<ls>>, <<la, la>>}
QNames_tiny == {<<>>, <<la>>, <<lc>>, <<la, la>>, <<lc, la>>}
Nodes_big == Nodes_small \cup {<<lb>>, <<la, lb>>, <<ls, lb>>, <<lb, la>>}
QNames_big == QNames_small \cup {<<lb>>, <<la, lb>>, <<lc, lb>>, <<lb, la>>}

AllTypes == {"SOA", "NS", "A", "AAAA", "CNAME", "DS", "TXT"}
QTypesAll == {"NS", "A", "AAAA", "CNAME", "DS", "TXT", "ANY", "SOA"}
TwoTypes == {"SOA", "A", "TXT"}
QTypesTwo == {"A", "TXT", "ANY"}

FourTypes == {"SOA", "NS", "A", "CNAME"}
QTypesFour == {"NS", "A", "CNAME", "DS", "ANY"}
\* two values only where a second one adds behaviour (RRset merging, in-zone
\* vs out-of-zone name server)
MCValsOf(t) == IF t \in {"A", "NS"} THEN {1, 2} ELSE {1}
MCValsOf3(t) == IF t = "NS" THEN {1, 2, 3} ELSE IF t = "A" THEN {1, 2} ELSE {1}
MCValsOne(t) == IF t = "A" THEN {1, 2} ELSE {1}
Nodes_c09 == {<<la>>, <<ls>>, <<la, la>>}
QNames_c09 == {<<>>, <<la>>, <<lc>>, <<la, la>>}
TypesC09 == {"SOA", "A", "TXT"}
QTypesC09 == {"A", "TXT", "ANY", "SOA"}
C09ValsOf(t) == IF t = "A" THEN {1, 2} ELSE {1}
Nodes_q9 == {<<la>>, <<la, la>>}
QNames_q9 == {<<la>>, <<la, la>>, <<lc>>}
TypesQ9 == {"SOA", "A"}
QTypesQ9 == {"A", "ANY"}
QNames_glue == {<<>>, <<la>>, <<la, la>>, <<lc, la>>, <<lb>>, <<lc, lb>>}
QTypesGlue == {"A", "AAAA", "NS", "DS", "ANY"}
Nodes_live == {<<la>>}
QNames_live == {<<la>>}
OneVal(t) == {1}
AllDevs == DevNames
\* the recorder's universe: labels a, b, * ("*" only leftmost) to depth 3
AB == {la, lb}
Nodes_trace == {<<x>> : x \in AB \cup {ls}} \cup {<<x, y>> : x \in AB \cup {ls}, y \in AB}
               \cup {<<x, y, z>> : x \in AB \cup {ls}, y \in AB, z \in AB}
TraceValsOf(t) == {1, 2, 3}
\* ---- spellings.  The zone of the bindings is example. ; a name is handed to the
\* API as labels \o apex labels, each label in one of its spellings
ApexLabels == <<<<101, 120, 97, 109, 112, 108, 101>>>>                 \* example
UpOctet(o) == IF o \in 97..122 THEN o - 32 ELSE o
UpLabel(l) == [i \in 1..Len(l) |-> UpOctet(l[i])]
MixLabel(l) == [i \in 1..Len(l) |-> IF i % 2 = 0 THEN UpOctet(l[i]) ELSE l[i]]
ApexSpellings == <<ApexLabels, <<UpLabel(ApexLabels[1])>>, <<MixLabel(ApexLabels[1])>>>>   \* example EXAMPLE eXaMpLe
\* relative name n with the labels selected by the bit mask m in upper case
Bit(m, i) == (m \div (2 ^ (i - 1))) % 2 = 1
SpellRel(n, m) == [i \in 1..Len(n) |-> IF Bit(m, i) THEN UpLabel(n[i]) ELSE n[i]]
SpellAbs(n, m, a) == SpellRel(n, m) \o ApexSpellings[a]
\* names outside the zone: other right-hand ends, the apex label in the wrong
\* place, a proper prefix / extension of the apex label, the root
lex == <<101, 120>>
OutProbeSeq == <<<<>>, <<la>>, <<la, lb>>, <<ApexLabels[1], la>>, <<la, ApexLabels[1], lb>>,
                <<SubSeq(ApexLabels[1], 1, 6)>>, <<la, ApexLabels[1] \o <<101>>>>,
                <<la, <<120>> \o ApexLabels[1]>>, <<UpLabel(ApexLabels[1]), lex>>>>
OutProbes == {OutProbeSeq[i] : i \in DOMAIN OutProbeSeq}
\* prepare_name / the children maps against the declarative reading, for every
\* spelling of the apex the zone may have been created with and every spelling
\* of the name (a law of the operators: evaluated once, in the initial state)
SpellNames == NodeNames \cup QNames \cup {Apex}
SpellingLaw ==
  (phase = "zonefile" /\ Cardinality(zf) = 1) =>
    \A a \in 1..3 :
      /\ \A n \in SpellNames : \A m \in 0..(2 ^ Len(n) - 1) : \A b \in 1..3 :
            LET full == SpellAbs(n, m, b)
                p == PrepareName(ApexSpellings[a], full)
            IN /\ p.ok /\ InZoneAbs(ApexLabels, full)
               /\ NodeKey(p.rel) = n /\ RelOf(ApexLabels, full) = n
      /\ \A o \in OutProbes :
            ~PrepareName(ApexSpellings[a], o).ok /\ ~InZoneAbs(ApexLabels, o)
View == svars
\* with the snapshot ghost in the fingerprint (invariants that read it)
View9 == <<svars, snap>>
=============================================================================
