----------------------------- MODULE Gen_Cache -----------------------------
(* S->I generator: behaviours of Cache.tla (queries with upstream's answer *)
(* and clock steps) with the specification's outcome after every           *)
(* operation.  Run exhaustively over small constants (the history is part  *)
(* of the fingerprint, so every behaviour is emitted) and with -simulate   *)
(* for long random behaviours.  Evict is not generated: the real map       *)
(* cannot be told to drop an entry from outside.                           *)
EXTENDS MC_Cache

VARIABLE hist
gvars == <<cfg, now, entries, log, last, steps, ticked, hist>>

GInit == Init /\ hist = <<>>

GQueryWith(q, up) ==
  /\ Query(q, up)
  /\ hist' = Append(hist, [op |-> "query", q |-> last'.q, up |-> up, via |-> last'.via,
                           exp |-> [served |-> last'.served,
                                    upstream |-> ~last'.fromCache]])
GTickWith(d) ==
  /\ Tick(d)
  /\ hist' = Append(hist, [op |-> "tick", d |-> d, via |-> "tick", exp |-> [tick |-> d]])

(* exhaustive: every query; every upstream answer when upstream is consulted *)
GQuery == \E q \in Queries :
          \E up \in (IF Hits(entries, q) THEN {CHOOSE u \in Up(AskedQ(q)) : TRUE} ELSE Up(AskedQ(q))) :
             GQueryWith(q, up)
GTick == \E d \in Ticks : GTickWith(d)

GNext == /\ steps < MaxSteps
         /\ steps' = steps + 1
         /\ \/ GQuery /\ ticked' = FALSE
            \/ ~ticked /\ GTick /\ ticked' = TRUE

(* -simulate over large constants: one random successor per step (the set *)
(* of all successors is far too large to enumerate); every other query    *)
(* re-asks the previous question with other flags so that the lattice is  *)
(* exercised                                                              *)
(* the same construction route with CD as given, in the source message *)
RouteWithCd(r, b) == [src |-> [r.src EXCEPT !.cd = b],
                      ops |-> SelectSeq(r.ops, LAMBDA o : o[1] # "cd")]
Sticky(base) ==
  IF /\ base.nq = 1 /\ base.op = "QUERY" /\ base.qclass = "IN"
     /\ last.q.nq = 1 /\ last.q.op = "QUERY" /\ last.q.qclass = "IN"
  THEN NormQ([base EXCEPT !.name = last.q.name, !.qtype = last.q.qtype,
                          !.route = RouteWithCd(base.route, last.q.cd)])
  ELSE base
SimQuery ==
  \E base \in {RandomElement(Queries)} : \E st \in {RandomElement(1..3)} :
    \E q \in {IF st = 1 THEN base ELSE Sticky(base)} :
      \E cls \in {RandomElement(Classes)} : \E tv \in {RandomElement(TtlVecs)} :
        \E adb \in {RandomElement(IF q.ad \/ q.do THEN AdBits ELSE {FALSE})} :
          GQueryWith(q, Mk(AskedQ(q), cls, tv, adb))
SimTick == \E d \in {RandomElement(Ticks)} : GTickWith(d)
SimNext == /\ steps < MaxSteps
           /\ steps' = steps + 1
           /\ \E c \in {RandomElement(1..3)} :
                 IF c = 1 /\ ~ticked THEN SimTick /\ ticked' = TRUE
                 ELSE SimQuery /\ ticked' = FALSE
SimSpec == GInit /\ [][SimNext]_gvars

GSpec == GInit /\ [][GNext]_gvars

(* One case per maximal behaviour.  `in` is what the executor performs,    *)
(* `exp` what it must observe after each operation.                        *)
Emit ==
  steps = MaxSteps =>
    PrintT("CASE " \o ToJson(
      [in  |-> [cfg |-> cfg,
                ops |-> [i \in DOMAIN hist |->
                           IF hist[i].op = "tick" THEN [op |-> "tick", d |-> hist[i].d]
                           ELSE [op |-> "query", q |-> hist[i].q, up |-> hist[i].up,
                                 via |-> hist[i].via]]],
       exp |-> [i \in DOMAIN hist |-> hist[i].exp]]))

(* Config: the documented defaults, and every setter with values around    *)
(* its documented limits (one case each; emitted once, in the initial      *)
(* state)                                                                  *)
CfgFields == {"maxEntries", "maxValidity", "transportFailure", "miscError",
              "maxNxdomain", "maxNodata", "maxDelegation"}
Probe(f) == LET l == DocLimits[f] IN
            {0, l.min - 1, l.min, l.min + 1, DocDefaults[f], l.max - 1, l.max, l.max + 1,
             2000000000} \cap Nat
EmitCfg ==
  steps = 0 =>
    /\ PrintT("CASE " \o ToJson([in |-> [kind |-> "config", field |-> "none", value |-> 0],
                                 exp |-> DocDefaults]))
    /\ \A f \in CfgFields : \A v \in Probe(f) :
          PrintT("CASE " \o ToJson([in |-> [kind |-> "config", field |-> f, value |-> v],
                                   exp |-> ConfigAfterSet(f, v)]))
    /\ \A b \in BOOLEAN :
          PrintT("CASE " \o ToJson([in |-> [kind |-> "config", field |-> "cacheTruncated", value |-> b],
                                   exp |-> [DocDefaults EXCEPT !.cacheTruncated = b]]))

(* the property along generated behaviours too *)
GProp == /\ ServedWasSaid(last) /\ AgedExactly(last) /\ NeverStale(last)
         /\ BoundsRespected(last) /\ NoDnssecLeak(last) /\ NoPanic(last)
         /\ ViewIsWire(last)
=============================================================================
