CONSTANTS
  Dev = {}
  Big = TRUE
SPECIFICATION Spec
INVARIANT UsedBounded
INVARIANT WalkAgrees
INVARIANT NameLaws
INVARIANT WireLaws
PROPERTY MeasureDecreases
CHECK_DEADLOCK FALSE
