------------------------------- MODULE Rdata -------------------------------
(* Record data layouts, written down from the RFCs as ONE TABLE, and the    *)
(* generic wire operators over it.                                          *)
(*                                                                          *)
(* Layout[type] is the sequence of field descriptors of the RDATA of that   *)
(* type:  [kind, compress, lower]                                           *)
(*   kind     which encoding the field has (see "Field kinds" below)        *)
(*   compress a sender MAY compress this domain name (RFC 3597 section 4:   *)
(*            only the types defined in RFC 1035)                           *)
(*   lower    the DNSSEC canonical form lower-cases this domain name        *)
(*            (RFC 4034 section 6.2 as amended by RFC 6840 section 5.1:     *)
(*            NS MD MF CNAME SOA MB MG MR PTR MINFO MX RP AFSDB RT SIG PX   *)
(*            NXT NAPTR KX SRV DNAME A6 RRSIG -- and NOT NSEC)              *)
(*                                                                          *)
(* Values: a record data value is a tuple with one entry per field:         *)
(*   U8 U16 U32 U48 A4 A16   big-endian octet tuple of that width (TLC ints *)
(*                           are 32 bit, so integers stay octet tuples)     *)
(*   Name                    tuple of labels, leftmost first (Names.tla)    *)
(*   CharStr LP8 LP16 Rest CaaTag   octet tuple                             *)
(*   CharStrSeq              tuple of octet tuples                          *)
(*   TypeBitmap              set of type codes                              *)
(*   SvcParams OptSeq        tuple of [k |-> code, v |-> octet tuple]       *)
(*   IpsecGw                 [gt |-> 0..3, alg |-> octet, gw |-> ...]       *)
EXTENDS Names, FiniteSets

--------------------------------------------------------------------------
(* The table *)

F(k)   == [kind |-> k,      compress |-> FALSE, lower |-> FALSE, min |-> 0]
FMin(k, m) == [kind |-> k,  compress |-> FALSE, lower |-> FALSE, min |-> m]
NameC  == [kind |-> "Name", compress |-> TRUE,  lower |-> TRUE,  min |-> 0]  \* RFC 1035 type
NameL  == [kind |-> "Name", compress |-> FALSE, lower |-> TRUE,  min |-> 0]  \* RFC 4034 6.2 list
NameP  == [kind |-> "Name", compress |-> FALSE, lower |-> FALSE, min |-> 0]  \* neither

TypeCode == [
  A |-> 1, NS |-> 2, MD |-> 3, MF |-> 4, CNAME |-> 5, SOA |-> 6, MB |-> 7,
  MG |-> 8, MR |-> 9, NULL |-> 10, PTR |-> 12, HINFO |-> 13, MINFO |-> 14,
  MX |-> 15, TXT |-> 16, RP |-> 17, AAAA |-> 28, SRV |-> 33, NAPTR |-> 35,
  DNAME |-> 39, OPT |-> 41, DS |-> 43, SSHFP |-> 44, IPSECKEY |-> 45,
  RRSIG |-> 46, NSEC |-> 47, DNSKEY |-> 48, NSEC3 |-> 50, NSEC3PARAM |-> 51,
  TLSA |-> 52, CDS |-> 59, CDNSKEY |-> 60, OPENPGPKEY |-> 61, ZONEMD |-> 63,
  SVCB |-> 64, HTTPS |-> 65, TSIG |-> 250, CAA |-> 257 ]

Layout == [
  \* RFC 1035 3.3, 3.4.1
  A      |-> <<F("A4")>>,
  NS     |-> <<NameC>>,
  MD     |-> <<NameC>>,
  MF     |-> <<NameC>>,
  CNAME  |-> <<NameC>>,
  SOA    |-> <<NameC, NameC, F("U32"), F("U32"), F("U32"), F("U32"), F("U32")>>,
  MB     |-> <<NameC>>,
  MG     |-> <<NameC>>,
  MR     |-> <<NameC>>,
  NULL   |-> <<F("Rest")>>,
  PTR    |-> <<NameC>>,
  HINFO  |-> <<F("CharStr"), F("CharStr")>>,
  MINFO  |-> <<NameC, NameC>>,
  MX     |-> <<F("U16"), NameC>>,
  TXT    |-> <<FMin("CharStrSeq", 1)>>,             \* "one or more <character-string>s"
  \* RFC 1183 2.2
  RP     |-> <<NameL, NameL>>,
  \* RFC 3596 2.2
  AAAA   |-> <<F("A16")>>,
  \* RFC 2782 (target: no compression; RFC 4034 6.2: lower-cased)
  SRV    |-> <<F("U16"), F("U16"), F("U16"), NameL>>,
  \* RFC 3403 4.1
  NAPTR  |-> <<F("U16"), F("U16"), F("CharStr"), F("CharStr"), F("CharStr"), NameL>>,
  \* RFC 6672 2.1
  DNAME  |-> <<NameL>>,
  \* RFC 6891 6.1.2
  OPT    |-> <<F("OptSeq")>>,
  \* RFC 4034 5.1, RFC 7344 3.1
  DS     |-> <<F("U16"), F("U8"), F("U8"), F("Rest")>>,
  CDS    |-> <<F("U16"), F("U8"), F("U8"), F("Rest")>>,
  \* RFC 4255 3.1
  SSHFP  |-> <<F("U8"), F("U8"), F("Rest")>>,
  \* RFC 4025 2.1: precedence, then gateway type / algorithm / gateway, key
  IPSECKEY |-> <<F("U8"), F("IpsecGw"), F("Rest")>>,
  \* RFC 4034 3.1 (signer: no compression, lower-cased in canonical form)
  RRSIG  |-> <<F("U16"), F("U8"), F("U8"), F("U32"), F("U32"), F("U32"), F("U16"),
               NameL, F("Rest")>>,
  \* RFC 4034 4.1; RFC 6840 5.1: the next name is NOT lower-cased
  NSEC   |-> <<NameP, F("TypeBitmap")>>,
  \* RFC 4034 2.1, RFC 7344 3.2
  DNSKEY |-> <<F("U16"), F("U8"), F("U8"), F("Rest")>>,
  CDNSKEY |-> <<F("U16"), F("U8"), F("U8"), F("Rest")>>,
  \* RFC 5155 3.2, 4.2
  NSEC3  |-> <<F("U8"), F("U8"), F("U16"), F("LP8"), F("LP8"), F("TypeBitmap")>>,
  NSEC3PARAM |-> <<F("U8"), F("U8"), F("U16"), F("LP8")>>,
  \* RFC 6698 2.1
  TLSA   |-> <<F("U8"), F("U8"), F("U8"), F("Rest")>>,
  \* RFC 7929 2.2
  OPENPGPKEY |-> <<F("Rest")>>,
  \* RFC 8976 2.2 (digest at least 12 octets)
  ZONEMD |-> <<F("U32"), F("U8"), F("U8"), FMin("Rest", 12)>>,
  \* RFC 9460 2.2 (target: not compressed; not in the RFC 4034 list)
  SVCB   |-> <<F("U16"), NameP, F("SvcParams")>>,
  HTTPS  |-> <<F("U16"), NameP, F("SvcParams")>>,
  \* RFC 8945 4.2 (algorithm name: not compressed)
  TSIG   |-> <<NameP, F("U48"), F("U16"), F("LP16"), F("U16"), F("U16"), F("LP16")>>,
  \* RFC 8659 4.1
  CAA    |-> <<F("U8"), F("CaaTag"), F("Rest")>>
]

KnownTypes == DOMAIN Layout
\* RFC 3597: RDATA of a type the implementation does not know is opaque
UnknownLayout == <<F("Rest")>>
LayoutOf(t) == IF t \in KnownTypes THEN Layout[t] ELSE UnknownLayout

\* EDNS options (RFC 6891 6.1.2 framing; data layouts per option RFC)
OptCode == [NSID |-> 3, DAU |-> 5, DHU |-> 6, N3U |-> 7, ECS |-> 8, EXPIRE |-> 9,
            COOKIE |-> 10, KEEPALIVE |-> 11, PADDING |-> 12, CHAIN |-> 13, KEYTAG |-> 14,
            EDE |-> 15]
OptLayout == [
  NSID      |-> <<F("Rest")>>,                                   \* RFC 5001 2.3
  DAU       |-> <<F("Rest")>>,                                   \* RFC 6975 2: ALG-CODEs, one octet each
  DHU       |-> <<F("Rest")>>,
  N3U       |-> <<F("Rest")>>,
  ECS       |-> <<F("U16"), F("U8"), F("U8"), F("Rest")>>,       \* RFC 7871 6
  EXPIRE    |-> <<F("Rest")>>,                                   \* RFC 7314 2: empty or 4 octets
  COOKIE    |-> <<F("A8"), F("Rest")>>,                          \* RFC 7873 4: 8 + (0 | 8..32)
  KEEPALIVE |-> <<F("Rest")>>,                                   \* RFC 7828 3.1: empty or 2 octets
  PADDING   |-> <<F("Rest")>>,                                   \* RFC 7830 3
  CHAIN     |-> <<NameP>>,                                       \* RFC 7901 4: uncompressed name
  KEYTAG    |-> <<F("Rest")>>,                                   \* RFC 8145 4.1: 16-bit key tags
  EDE       |-> <<F("U16"), F("Rest")>>                          \* RFC 8914 2
]

--------------------------------------------------------------------------
(* Field kinds *)

Width == [U8 |-> 1, U16 |-> 2, U32 |-> 4, U48 |-> 6, A4 |-> 4, A8 |-> 8, A16 |-> 16]
IsFixed(k) == k \in DOMAIN Width

Pow2(n) == CASE n = 0 -> 1 [] n = 1 -> 2 [] n = 2 -> 4 [] n = 3 -> 8
             [] n = 4 -> 16 [] n = 5 -> 32 [] n = 6 -> 64 [] n = 7 -> 128

MinOf(S) == CHOOSE x \in S : \A y \in S : x <= y
MaxOf(S) == CHOOSE x \in S : \A y \in S : x >= y
RECURSIVE SortSet(_)
SortSet(S) == IF S = {} THEN <<>> ELSE LET m == MinOf(S) IN <<m>> \o SortSet(S \ {m})

IsOctets(v) == \A i \in 1..Len(v) : v[i] \in Octet

\* RFC 8659 4.1: tag is a non-empty sequence of ASCII letters and digits
IsAlnum(b) == (b >= 48 /\ b <= 57) \/ (b >= 65 /\ b <= 90) \/ (b >= 97 /\ b <= 122)

(* type bitmaps, RFC 4034 4.1.2: per non-empty window <<window, len, bits>>, *)
(* windows ascending, 1 <= len <= 32, no trailing zero octet               *)
BitmapOctet(T, w, j) ==   \* j = 0-based octet index inside window w
  SumSeq([b \in 1..8 |-> IF (w * 256 + j * 8 + (b - 1)) \in T THEN Pow2(8 - b) ELSE 0])
WindowOcts(S, w) ==
  LET T == {x \in S : x \div 256 = w}
      n == (MaxOf({x % 256 : x \in T}) \div 8) + 1
  IN <<w, n>> \o [j \in 1..n |-> BitmapOctet(T, w, j - 1)]
ComposeBitmap(S) ==
  LET ws == SortSet({x \div 256 : x \in S})
  IN Concat([i \in 1..Len(ws) |-> WindowOcts(S, ws[i])])
BitmapLen(S) ==
  LET W == {x \div 256 : x \in S}
      ws == SortSet(W)
  IN SumSeq([i \in 1..Len(ws) |->
        2 + (MaxOf({x % 256 : x \in {y \in S : y \div 256 = ws[i]}}) \div 8) + 1])

\* key / length / value sequences (SVCB parameters, EDNS options)
RECURSIVE ComposeTlvs(_)
ComposeTlvs(ps) ==
  IF ps = <<>> THEN <<>>
  ELSE EncU16(Head(ps).k) \o EncU16(Len(Head(ps).v)) \o Head(ps).v \o ComposeTlvs(Tail(ps))

\* IPSECKEY gateway, RFC 4025 2.1 / 2.5: 0 none, 1 IPv4, 2 IPv6, 3 uncompressed name
ComposeGw(g) == <<g.gt, g.alg>> \o (IF g.gt = 3 THEN ToWireAbs(g.gw) ELSE g.gw)
GwLen(g) == 2 + (CASE g.gt = 0 -> 0 [] g.gt = 1 -> 4 [] g.gt = 2 -> 16 [] g.gt = 3 -> WireLenAbs(g.gw))

ComposeField(f, v) ==
  CASE IsFixed(f.kind)        -> v
    [] f.kind = "Name"        -> ToWireAbs(v)
    [] f.kind \in {"CharStr", "LP8", "CaaTag"} -> <<Len(v)>> \o v
    [] f.kind = "LP16"        -> EncU16(Len(v)) \o v
    [] f.kind = "Rest"        -> v
    [] f.kind = "CharStrSeq"  -> Concat([i \in 1..Len(v) |-> <<Len(v[i])>> \o v[i]])
    [] f.kind = "TypeBitmap"  -> ComposeBitmap(v)
    [] f.kind \in {"SvcParams", "OptSeq"} -> ComposeTlvs(v)
    [] f.kind = "IpsecGw"     -> ComposeGw(v)

\* the length, from the widths alone (independent of ComposeField)
FieldLen(f, v) ==
  CASE IsFixed(f.kind)        -> Width[f.kind]
    [] f.kind = "Name"        -> WireLenAbs(v)
    [] f.kind \in {"CharStr", "LP8", "CaaTag"} -> 1 + Len(v)
    [] f.kind = "LP16"        -> 2 + Len(v)
    [] f.kind = "Rest"        -> Len(v)
    [] f.kind = "CharStrSeq"  -> SumSeq([i \in 1..Len(v) |-> 1 + Len(v[i])])
    [] f.kind = "TypeBitmap"  -> BitmapLen(v)
    [] f.kind \in {"SvcParams", "OptSeq"} -> SumSeq([i \in 1..Len(v) |-> 4 + Len(v[i].v)])
    [] f.kind = "IpsecGw"     -> GwLen(v)

ValidField(f, v) ==
  CASE IsFixed(f.kind)        -> Len(v) = Width[f.kind] /\ IsOctets(v)
    [] f.kind = "Name"        -> ValidAbs(v)
    [] f.kind \in {"CharStr", "LP8"} -> Len(v) <= 255 /\ IsOctets(v)
    [] f.kind = "CaaTag"      -> Len(v) >= 1 /\ Len(v) <= 255 /\ \A i \in 1..Len(v) : IsAlnum(v[i])
    [] f.kind = "LP16"        -> Len(v) <= 65535 /\ IsOctets(v)
    [] f.kind = "Rest"        -> Len(v) >= f.min /\ IsOctets(v)
    [] f.kind = "CharStrSeq"  -> Len(v) >= f.min /\ \A i \in 1..Len(v) : Len(v[i]) <= 255 /\ IsOctets(v[i])
    [] f.kind = "TypeBitmap"  -> \A x \in v : x \in 0..65535
    [] f.kind = "SvcParams"   -> /\ \A i \in 1..Len(v) : v[i].k \in 0..65535 /\ Len(v[i].v) <= 65535
                                 /\ \A i \in 1..(Len(v) - 1) : v[i].k < v[i + 1].k
    [] f.kind = "OptSeq"      -> \A i \in 1..Len(v) : v[i].k \in 0..65535 /\ Len(v[i].v) <= 65535
    [] f.kind = "IpsecGw"     -> /\ v.gt \in 0..3 /\ v.alg \in Octet
                                 /\ CASE v.gt = 0 -> v.gw = <<>>
                                      [] v.gt = 1 -> Len(v.gw) = 4
                                      [] v.gt = 2 -> Len(v.gw) = 16
                                      [] v.gt = 3 -> ValidAbs(v.gw)

--------------------------------------------------------------------------
(* Generic operators over a layout (a sequence of descriptors) *)

ComposeFields(lay, val) == Concat([i \in 1..Len(lay) |-> ComposeField(lay[i], val[i])])
FieldsLen(lay, val)     == SumSeq([i \in 1..Len(lay) |-> FieldLen(lay[i], val[i])])
CanonField(f, v) == IF f.kind = "Name" /\ f.lower THEN LowerName(v) ELSE v
CanonFields(lay, val) == Concat([i \in 1..Len(lay) |-> ComposeField(lay[i], CanonField(lay[i], val[i]))])

ComposeRd(t, val) == ComposeFields(LayoutOf(t), val)
RdLen(t, val)     == FieldsLen(LayoutOf(t), val)
CanonVal(t, val)  == [i \in 1..Len(val) |-> CanonField(LayoutOf(t)[i], val[i])]
CanonRd(t, val)   == CanonFields(LayoutOf(t), val)
CanonRdCmp(t, v1, v2) == LexCmp(CanonRd(t, v1), CanonRd(t, v2))
\* cross-field content rules.  RFC 4025 2.4: algorithm 0 <=> no public key
ContentRule(t, val) ==
  IF t = "IPSECKEY" THEN (val[2].alg = 0) <=> (val[3] = <<>>) ELSE TRUE
ValidRd(t, val) ==
  /\ Len(val) = Len(LayoutOf(t))
  /\ \A i \in 1..Len(val) : ValidField(LayoutOf(t)[i], val[i])
  /\ ContentRule(t, val)
  /\ RdLen(t, val) <= 65535
MayCompress(t) == \E i \in 1..Len(LayoutOf(t)) : LayoutOf(t)[i].compress

--------------------------------------------------------------------------
(* Parsing.  s is the whole octet string (a message when names may be      *)
(* compressed), fields live in s[p .. e-1].  A failure is "hard" when no   *)
(* reading of the octets as this layout exists (a field runs over the end, *)
(* octets are left over) and "soft" when only a MUST-level content rule of *)
(* the RFC is broken (a tolerant parser may still carry the data).         *)

Hard == [ok |-> FALSE, hard |-> TRUE]
Soft == [ok |-> FALSE, hard |-> FALSE]
Got(v, n) == [ok |-> TRUE, v |-> v, next |-> n]

\* a possibly compressed name; direct label octets must lie before lim
RECURSIVE ParseNameAt(_, _, _, _, _, _, _)
ParseNameAt(s, p, lim, acc, used, ret, ptrOk) ==
  IF p >= lim THEN Hard
  ELSE LET b == s[p] IN
    IF b = 0 THEN Got(acc, IF ret = 0 THEN p + 1 ELSE ret)
    ELSE IF b >= 192 THEN
      IF ~ptrOk \/ p + 1 >= lim THEN Hard
      ELSE LET tgt == (b - 192) * 256 + s[p + 1] + 1      \* 1-based position
           IN IF tgt >= p THEN Hard                        \* only prior occurrences
              ELSE ParseNameAt(s, tgt, Len(s) + 1, acc, used, IF ret = 0 THEN p + 2 ELSE ret, ptrOk)
    ELSE IF b > 63 THEN Hard
    ELSE IF p + b >= lim THEN Hard
    ELSE IF used + 1 + b + 1 > 255 THEN Hard
    ELSE ParseNameAt(s, p + 1 + b, lim, Append(acc, SubSeq(s, p + 1, p + b)), used + 1 + b, ret, ptrOk)

ParseFixed(s, p, e, w) == IF p + w > e THEN Hard ELSE Got(SubSeq(s, p, p + w - 1), p + w)
ParseLP(s, p, e, lw) ==
  IF p + lw > e THEN Hard
  ELSE LET n == IF lw = 1 THEN s[p] ELSE U16At(s, p)
       IN IF p + lw + n > e THEN Hard ELSE Got(SubSeq(s, p + lw, p + lw + n - 1), p + lw + n)

RECURSIVE ParseCharStrs(_, _, _, _)
ParseCharStrs(s, p, e, acc) ==
  IF p = e THEN Got(acc, e)
  ELSE LET r == ParseLP(s, p, e, 1)
       IN IF ~r.ok THEN Hard ELSE ParseCharStrs(s, r.next, e, Append(acc, r.v))

BitsOf(w, j, oct) == {w * 256 + j * 8 + b : b \in {c \in 0..7 : (oct \div Pow2(7 - c)) % 2 = 1}}
RECURSIVE ParseBitmap(_, _, _, _, _, _)
ParseBitmap(s, p, e, lastw, acc, soft) ==
  IF p = e THEN (IF soft THEN Soft ELSE Got(acc, e))
  ELSE IF p + 2 > e THEN Hard
  ELSE LET w == s[p]
           n == s[p + 1]
       IN IF p + 2 + n > e THEN Hard
          ELSE LET bad == w <= lastw \/ n < 1 \/ n > 32 \/ (n >= 1 /\ s[p + 1 + n] = 0)
               IN ParseBitmap(s, p + 2 + n, e, w,
                     acc \cup UNION {BitsOf(w, j, s[p + 2 + j]) : j \in 0..(n - 1)},
                     soft \/ bad)

RECURSIVE ParseTlvs(_, _, _, _, _, _, _)
ParseTlvs(s, p, e, lastk, acc, soft, ascending) ==
  IF p = e THEN (IF soft THEN Soft ELSE Got(acc, e))
  ELSE IF p + 4 > e THEN Hard
  ELSE LET k == U16At(s, p)
           n == U16At(s, p + 2)
       IN IF p + 4 + n > e THEN Hard
          ELSE ParseTlvs(s, p + 4 + n, e, k,
                  Append(acc, [k |-> k, v |-> SubSeq(s, p + 4, p + 3 + n)]),
                  soft \/ (ascending /\ k <= lastk), ascending)

ParseGw(s, p, e) ==
  IF p + 2 > e THEN Hard
  ELSE LET gt == s[p]
           alg == s[p + 1]
           mk(r) == IF r.ok THEN Got([gt |-> gt, alg |-> alg, gw |-> r.v], r.next) ELSE r
       IN CASE gt = 0 -> Got([gt |-> 0, alg |-> alg, gw |-> <<>>], p + 2)
            [] gt = 1 -> mk(ParseFixed(s, p + 2, e, 4))
            [] gt = 2 -> mk(ParseFixed(s, p + 2, e, 16))
            [] gt = 3 -> mk(ParseNameAt(s, p + 2, e, <<>>, 0, 0, FALSE))
            [] OTHER  -> Soft    \* undefined gateway type: layout unknown

ParseField(f, s, p, e, ptrOk) ==
  CASE IsFixed(f.kind)        -> ParseFixed(s, p, e, Width[f.kind])
    [] f.kind = "Name"        -> ParseNameAt(s, p, e, <<>>, 0, 0, ptrOk)
    [] f.kind \in {"CharStr", "LP8"} -> ParseLP(s, p, e, 1)
    [] f.kind = "CaaTag"      -> LET r == ParseLP(s, p, e, 1)
                                 IN IF r.ok /\ ~ValidField(f, r.v) THEN Soft ELSE r
    [] f.kind = "LP16"        -> ParseLP(s, p, e, 2)
    [] f.kind = "Rest"        -> IF e - p < f.min THEN Soft ELSE Got(SubSeq(s, p, e - 1), e)
    [] f.kind = "CharStrSeq"  -> LET r == ParseCharStrs(s, p, e, <<>>)
                                 IN IF r.ok /\ Len(r.v) < f.min THEN Soft ELSE r
    [] f.kind = "TypeBitmap"  -> ParseBitmap(s, p, e, -1, {}, FALSE)
    [] f.kind = "SvcParams"   -> ParseTlvs(s, p, e, -1, <<>>, FALSE, TRUE)
    [] f.kind = "OptSeq"      -> ParseTlvs(s, p, e, -1, <<>>, FALSE, FALSE)
    [] f.kind = "IpsecGw"     -> ParseGw(s, p, e)

\* a soft failure in one field does not hide a hard failure further on only
\* if the field's extent is known; we stop at the first failure and report
\* its class, except that Rest/sequence kinds (always last) cannot be followed
RECURSIVE ParseFieldsFrom(_, _, _, _, _, _, _)
ParseFieldsFrom(lay, i, s, p, e, acc, ptrOk) ==
  IF i > Len(lay) THEN (IF p = e THEN [ok |-> TRUE, val |-> acc] ELSE Hard)   \* trailing octets
  ELSE LET r == ParseField(lay[i], s, p, e, ptrOk)
       IN IF ~r.ok THEN r
          ELSE ParseFieldsFrom(lay, i + 1, s, r.next, e, Append(acc, r.v), ptrOk)
WithRule(t, r) == IF r.ok /\ ~ContentRule(t, r.val) THEN Soft ELSE r

\* uncompressed RDATA given on its own
ParseRd(t, rd) == WithRule(t, ParseFieldsFrom(LayoutOf(t), 1, rd, 1, Len(rd) + 1, <<>>, FALSE))
\* RDATA of length rdlen at 1-based position pos of message msg
ParseRdMsg(t, msg, pos, rdlen) ==
  WithRule(t, ParseFieldsFrom(LayoutOf(t), 1, msg, pos, pos + rdlen, <<>>, TRUE))

\* option data against the option's own layout
ParseOpt(o, data) == ParseFieldsFrom(OptLayout[o], 1, data, 1, Len(data) + 1, <<>>, FALSE)

--------------------------------------------------------------------------
(* Equality of record data: field-wise, domain names case-insensitively    *)
(* (RFC 1035 2.3.3), CAA tags case-insensitively (RFC 8659 4.1).            *)
FieldEq(f, a, b) ==
  CASE f.kind = "Name"   -> NameEq(a, b)
    [] f.kind = "CaaTag" -> LowerSeq(a) = LowerSeq(b)
    [] f.kind = "IpsecGw" -> a.gt = b.gt /\ a.alg = b.alg /\
                             (IF a.gt = 3 THEN NameEq(a.gw, b.gw) ELSE a.gw = b.gw)
    [] OTHER -> a = b
RdEq(t, v1, v2) == \A i \in 1..Len(LayoutOf(t)) : FieldEq(LayoutOf(t)[i], v1[i], v2[i])

--------------------------------------------------------------------------
(* EDNS option VALUES, as the option types' constructors and the OPT        *)
(* builders see them (the rows of OptLayout describe the option DATA).      *)
(*                                                                          *)
(* A value is a record with o = the option's mnemonic and                   *)
(*   NSID PADDING  data    octets                                           *)
(*   DAU DHU N3U   algs    algorithm numbers, ONE octet each (RFC 6975 2)   *)
(*   ECS           fam (1 IPv4, 2 IPv6), src, scope (prefix lengths),       *)
(*                 addr (4 / 16 octets)                          RFC 7871 6 *)
(*   EXPIRE        some, secs (4 octets, zero when absent)       RFC 7314 2 *)
(*   COOKIE        client (8 octets), some, server (<<>> if none) RFC 7873 4 *)
(*   KEEPALIVE     some, t (units of 100 ms, 0 when absent)    RFC 7828 3.1 *)
(*   CHAIN         name                                          RFC 7901 4 *)
(*   KEYTAG        data    octets, read as 16-bit key tags     RFC 8145 4.1 *)
(*   EDE           code, text (UTF-8; RFC 8914 2: EXTRA-TEXT may be empty,  *)
(*                 an absent and an empty text are the same value)          *)
(*                                                                          *)
(* Constructor ARGUMENTS have the same shape plus, for KEEPALIVE, `sub` (the *)
(* milliseconds beyond t * 100 ms when the timeout is given as a duration). *)
(* OptArgOk says which arguments the constructors accept, OptNorm is what   *)
(* they DOCUMENT to do with them.  ClientSubnet::new: "limit the prefix     *)
(* lengths given to a number meaningful for the address family ... set all  *)
(* bits not covered by the source prefix length in the address to zero";    *)
(* ServerCookie::from_octets: 8 to 32 octets; IdleTimeout from a duration:  *)
(* whole units of 100 ms that fit 16 bits; KeyTag: an even number of        *)
(* octets; every option's data at most 65535 octets.                        *)

OptKinds == <<"NSID", "DAU", "DHU", "N3U", "ECS", "EXPIRE", "COOKIE", "KEEPALIVE",
              "PADDING", "CHAIN", "KEYTAG", "EDE">>
OptMnemonicOf(code) == IF \E o \in DOMAIN OptCode : OptCode[o] = code
                       THEN CHOOSE o \in DOMAIN OptCode : OptCode[o] = code
                       ELSE "OTHER"

AddrBits(fam)   == IF fam = 1 THEN 32 ELSE 128
AddrOctets(fam) == IF fam = 1 THEN 4 ELSE 16
PrefixOctets(n) == (n + 7) \div 8
Zeros(n)        == [i \in 1..n |-> 0]
KeepBits(b, k)  == (b \div Pow2(8 - k)) * Pow2(8 - k)             \* leftmost k of 8 bits, k in 1..7
MaskBits(a, n)  == [i \in 1..Len(a) |->                            \* leftmost n bits of an octet tuple
                     IF 8 * i <= n THEN a[i]
                     ELSE IF 8 * (i - 1) >= n THEN 0
                     ELSE KeepBits(a[i], n - 8 * (i - 1))]
BitAt(a, j)     == (a[(j \div 8) + 1] \div Pow2(7 - (j % 8))) % 2   \* bit j, 0-based from the left

OptArgOk(a) ==
  CASE a.o \in {"NSID", "PADDING"}   -> Len(a.data) <= 65535
    [] a.o \in {"DAU", "DHU", "N3U"} -> Len(a.algs) <= 65535
    [] a.o = "ECS"       -> TRUE                                   \* "very forgiving"
    [] a.o = "EXPIRE"    -> TRUE
    [] a.o = "COOKIE"    -> Len(a.client) = 8 /\ (a.some => Len(a.server) >= 8 /\ Len(a.server) <= 32)
    [] a.o = "KEEPALIVE" -> a.some => a.t <= 65535
    [] a.o = "CHAIN"     -> ValidAbs(a.name)
    [] a.o = "KEYTAG"    -> Len(a.data) % 2 = 0 /\ Len(a.data) <= 65535
    [] a.o = "EDE"       -> Len(a.text) + 2 <= 65535

OptNorm(a) ==
  CASE a.o = "ECS" ->
         LET src == Min(a.src, AddrBits(a.fam))
         IN [o |-> "ECS", fam |-> a.fam, src |-> src, scope |-> Min(a.scope, AddrBits(a.fam)),
             addr |-> MaskBits(a.addr, src)]
    [] a.o = "EXPIRE"    -> [o |-> "EXPIRE", some |-> a.some, secs |-> IF a.some THEN a.secs ELSE Zeros(4)]
    [] a.o = "COOKIE"    -> [o |-> "COOKIE", client |-> a.client, some |-> a.some,
                             server |-> IF a.some THEN a.server ELSE <<>>]
    [] a.o = "KEEPALIVE" -> [o |-> "KEEPALIVE", some |-> a.some, t |-> IF a.some THEN a.t ELSE 0]
    [] OTHER -> a

\* a well-formed value, said without reference to OptNorm
OptValOk(v) ==
  CASE v.o = "ECS" -> /\ v.fam \in {1, 2} /\ Len(v.addr) = AddrOctets(v.fam)
                      /\ v.src <= AddrBits(v.fam) /\ v.scope <= AddrBits(v.fam)
                      /\ \A j \in v.src..(AddrBits(v.fam) - 1) : BitAt(v.addr, j) = 0
    [] v.o = "COOKIE"    -> /\ Len(v.client) = 8 /\ v.some = (v.server # <<>>)
                            /\ (v.some => Len(v.server) >= 8 /\ Len(v.server) <= 32)
    [] v.o = "KEEPALIVE" -> v.t \in 0..65535 /\ (~v.some => v.t = 0)
    [] v.o = "EXPIRE"    -> Len(v.secs) = 4 /\ (~v.some => v.secs = Zeros(4))
    [] OTHER -> OptArgOk(v)

\* the value as the fields of its OptLayout row
OptFields(v) ==
  CASE v.o \in {"NSID", "PADDING", "KEYTAG"} -> <<v.data>>
    [] v.o \in {"DAU", "DHU", "N3U"}  -> <<v.algs>>
    [] v.o = "ECS"       -> <<EncU16(v.fam), <<v.src>>, <<v.scope>>, SubSeq(v.addr, 1, PrefixOctets(v.src))>>
    [] v.o = "EXPIRE"    -> <<IF v.some THEN v.secs ELSE <<>> >>
    [] v.o = "COOKIE"    -> <<v.client, v.server>>
    [] v.o = "KEEPALIVE" -> <<IF v.some THEN EncU16(v.t) ELSE <<>> >>
    [] v.o = "CHAIN"     -> <<v.name>>
    [] v.o = "EDE"       -> <<EncU16(v.code), v.text>>
OptData(v) == ComposeFields(OptLayout[v.o], OptFields(v))
\* its length, from the option RFCs alone
OptDataLen(v) ==
  CASE v.o \in {"NSID", "PADDING", "KEYTAG"} -> Len(v.data)
    [] v.o \in {"DAU", "DHU", "N3U"}  -> Len(v.algs)
    [] v.o = "ECS"       -> 4 + PrefixOctets(v.src)
    [] v.o = "EXPIRE"    -> IF v.some THEN 4 ELSE 0
    [] v.o = "COOKIE"    -> 8 + Len(v.server)
    [] v.o = "KEEPALIVE" -> IF v.some THEN 2 ELSE 0
    [] v.o = "CHAIN"     -> WireLenAbs(v.name)
    [] v.o = "EDE"       -> 2 + Len(v.text)
OptTlv(v) == [k |-> OptCode[v.o], v |-> OptData(v)]

\* reading option data back into a value
NoOptVal == [ok |-> FALSE]
OptSome(v) == [ok |-> TRUE, v |-> v]
OptValueOf(o, data) ==
  LET r == ParseOpt(o, data) IN
  IF ~r.ok THEN NoOptVal ELSE
  LET f == r.val IN
  CASE o \in {"NSID", "PADDING"}    -> OptSome([o |-> o, data |-> f[1]])
    [] o \in {"DAU", "DHU", "N3U"}  -> OptSome([o |-> o, algs |-> f[1]])
    [] o = "KEYTAG"    -> IF Len(f[1]) % 2 = 0 THEN OptSome([o |-> o, data |-> f[1]]) ELSE NoOptVal
    [] o = "ECS"       ->
         LET fam == U16At(f[1], 1)  src == f[2][1]  scope == f[3][1] IN
         IF fam \notin {1, 2} THEN NoOptVal
         ELSE IF src > AddrBits(fam) \/ Len(f[4]) # PrefixOctets(src) THEN NoOptVal
         ELSE LET addr == f[4] \o Zeros(AddrOctets(fam) - Len(f[4])) IN
              IF MaskBits(addr, src) # addr THEN NoOptVal
              ELSE OptSome([o |-> o, fam |-> fam, src |-> src, scope |-> scope, addr |-> addr])
    [] o = "EXPIRE"    -> IF Len(f[1]) = 0 THEN OptSome([o |-> o, some |-> FALSE, secs |-> Zeros(4)])
                          ELSE IF Len(f[1]) = 4 THEN OptSome([o |-> o, some |-> TRUE, secs |-> f[1]])
                          ELSE NoOptVal
    [] o = "COOKIE"    -> IF f[2] = <<>> \/ (Len(f[2]) >= 8 /\ Len(f[2]) <= 32)
                          THEN OptSome([o |-> o, client |-> f[1], some |-> f[2] # <<>>, server |-> f[2]])
                          ELSE NoOptVal
    [] o = "KEEPALIVE" -> IF Len(f[1]) = 0 THEN OptSome([o |-> o, some |-> FALSE, t |-> 0])
                          ELSE IF Len(f[1]) = 2 THEN OptSome([o |-> o, some |-> TRUE, t |-> U16At(f[1], 1)])
                          ELSE NoOptVal
    [] o = "CHAIN"     -> OptSome([o |-> o, name |-> f[1]])
    [] o = "EDE"       -> OptSome([o |-> o, code |-> U16At(f[1], 1), text |-> f[2]])

\* what the accessors of a value show (names as wire octets, key tags as numbers)
OptView(v) ==
  CASE v.o = "CHAIN"  -> [o |-> "CHAIN", name |-> ToWireAbs(v.name)]
    [] v.o = "KEYTAG" -> [o |-> "KEYTAG", tags |-> [i \in 1..(Len(v.data) \div 2) |-> U16At(v.data, 2 * i - 1)]]
    [] OTHER -> v

(* An OPT record assembled from constructor arguments q (in push order): a  *)
(* refused argument adds nothing; the record holds the data of the          *)
(* normalised values; reading it back gives their views, and the typed      *)
(* getters the first option of each kind.                                   *)
OptAccepted(q) == SelectSeq(q, OptArgOk)
OptVals(q)     == [i \in 1..Len(OptAccepted(q)) |-> OptNorm(OptAccepted(q)[i])]
OptTlvs(q)     == [i \in 1..Len(OptVals(q)) |-> OptTlv(OptVals(q)[i])]
OptRead(tlvs)  == [i \in 1..Len(tlvs) |->
                    LET r == OptValueOf(OptMnemonicOf(tlvs[i].k), tlvs[i].v)
                    IN IF r.ok THEN OptView(r.v) ELSE [o |-> "unreadable"]]
OptFirsts(views) ==     \* in the order of OptKinds, kinds that are present only
  LET present == SelectSeq(OptKinds, LAMBDA o : \E i \in 1..Len(views) : views[i].o = o)
  IN [j \in 1..Len(present) |-> views[CHOOSE i \in 1..Len(views) :
         views[i].o = present[j] /\ \A h \in 1..(i - 1) : views[h].o # present[j]]]
RdExpOk(x, v) == [parse |-> "ok", wire |-> ComposeRd(x, v), canon |-> CanonRd(x, v),
                  len |-> RdLen(x, v), known |-> x \in KnownTypes, issues |-> <<>>]
OptBuildExp(q) ==
  [steps |-> [i \in 1..Len(q) |->
                IF OptArgOk(q[i])
                THEN LET v == OptNorm(q[i])
                     IN [built |-> OptView(v), data |-> OptData(v), len |-> OptDataLen(v)]
                ELSE [refused |-> TRUE]],
   rdata  |-> ComposeRd("OPT", <<OptTlvs(q)>>),
   iter   |-> OptRead(OptTlvs(q)),
   first  |-> OptFirsts(OptRead(OptTlvs(q))),
   issues |-> <<>>,
   rd     |-> RdExpOk("OPT", <<OptTlvs(q)>>)]

(* What the implementation does today where it deviates                     *)
(* (D_understood_odd_len): the constructors of one value disagree           *)
(* (from_sec_algs accepts, from_octets refuses), the option walk ends at    *)
(* the first option it cannot read; what the walk and the getters do after  *)
(* that is not judged (the executor stops reading back there).              *)
OddAlgs(a) == a.o \in {"DAU", "DHU", "N3U"} /\ Len(a.algs) % 2 = 1
OptBuildOdd(q) == {i \in 1..Len(OptVals(q)) : OddAlgs(OptVals(q)[i])}
OptBuildExpOddDev(q) ==
  LET vals == OptVals(q)
      k == MinOf(OptBuildOdd(q))
  IN [OptBuildExp(q) EXCEPT
        !.steps = [i \in 1..Len(q) |->
                     IF OptArgOk(q[i]) /\ OddAlgs(q[i])
                     THEN [built |-> OptView(q[i]), data |-> OptData(q[i]),
                           len |-> OptDataLen(q[i]), disagree |-> TRUE]
                     ELSE @[i]],
        !.iter = [i \in 1..k |-> IF i < k THEN OptView(vals[i]) ELSE [o |-> "unreadable"]],
        !.first = <<>>,
        !.issues = <<"unreadable">>,
        !.rd = [@ EXCEPT !.issues = <<"unreadable">>]]

\* reverse lookup for recorded traces (numeric type codes)
MnemonicOf(code) == IF \E t \in KnownTypes : TypeCode[t] = code
                    THEN CHOOSE t \in KnownTypes : TypeCode[t] = code
                    ELSE "UNKNOWN"
=============================================================================
