CONSTANTS
  Dev = {}
  Tier = 1
SPECIFICATION Spec
INVARIANT LawPairs
INVARIANT LawLabels
INVARIANT LawCharStrs
INVARIANT LawBytes
INVARIANT LawMsgs
INVARIANT LawTexts
INVARIANT LawShows
INVARIANT LawOnce
INVARIANT LawSerial
INVARIANT EmitPair
INVARIANT EmitLabel
INVARIANT EmitCharStr
INVARIANT EmitBytes
INVARIANT EmitMsg
INVARIANT EmitText
INVARIANT EmitShow
INVARIANT EmitBuild
INVARIANT EmitBigBuild
INVARIANT EmitSerial
CHECK_DEADLOCK FALSE
