CONSTANTS
  Dev = {"D_queue_full_drop"}
  QCapT = 10
  LimitT = 3
SPECIFICATION TSpec
INVARIANT ConnInvariants
INVARIANT LostCounter
POSTCONDITION Accepted
CHECK_DEADLOCK FALSE
