CONSTANTS
  Dev = {}
  MaxLen = 7
  MaxOct = 6
SPECIFICATION Spec
INVARIANT EmitDec
INVARIANT EmitEnc
CHECK_DEADLOCK FALSE
