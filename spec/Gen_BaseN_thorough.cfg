CONSTANTS
  Dev = {}
  MaxLen = 7
  Deep32 = FALSE
  MaxOct = 6
SPECIFICATION Spec
INVARIANT EmitDec
INVARIANT EmitEnc
INVARIANT EmitProbe
INVARIANT EmitEncProbe
CHECK_DEADLOCK FALSE
