CONSTANTS
  Dev = {}
  MaxLen = 7
  MaxOct = 6
SPECIFICATION Spec
INVARIANT EmitDec
INVARIANT EmitEnc
INVARIANT EmitProbe
CHECK_DEADLOCK FALSE
