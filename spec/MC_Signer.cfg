CONSTANTS
  Dev = {}
  MaxOps = 3
SPECIFICATION Spec
INVARIANT HandedIsSignedData
INVARIANT Emit
CHECK_DEADLOCK FALSE
