CONSTANTS
  Dev = {}
  MaxRecs = 3
SPECIFICATION Spec
INVARIANT Emit
CHECK_DEADLOCK FALSE
