CONSTANTS
  Fam = "sock"
  NSSet = {1, 2}
  SearchSet <- MCQ_SearchX
  NDotsSet = {1}
  DotsSet = {0}
  CallSet = {"query"}
  TooLongSet <- G_None
  ModeSet = {"sock"}
  UseVcSet = {FALSE, TRUE}
  TcpOnlySet <- G_TcpOnly
  TmoSet = {500}
  Est = 30
  Outs = {"Data", "NX", "SF", "REF", "FE", "TC"}
  TcpOuts = {"Data", "NX", "SF", "TC"}
  Lats = {1}
  FreshEvery = FALSE
  Dev = {}
SPECIFICATION GenSpec
INVARIANT Emit
CONSTRAINT GenPrune
CHECK_DEADLOCK FALSE
