-------------------------- MODULE MC_ResolvConfFile --------------------------
(* The resolv.conf line machine over a pool of lines; behaviours of up to    *)
(* MaxLines lines, each emitted as an S->I case with the projected state     *)
(* after every line.                                                         *)
EXTENDS ResolvConfFile, TLC, Json
CONSTANTS MaxLines, Pool        \* "full" | "core" | "opts"
VARIABLES conf, hist, lead, last
vars == <<conf, hist, lead, last>>

OptWords == {"ndots:0", "ndots:3", "ndots:15", "ndots:16", "ndots:100000", "ndots:+7", "timeout:0", "timeout:1",
             "timeout:31", "attempts:1", "attempts:6", "rotate", "no-check-names", "inet6", "ip6-bytestring",
             "ip6-dotint", "no-ip6-dotint", "edns0", "single-request", "single-request-reopen", "no-tld-query",
             "use-vc", "debug", "trust-ad", "ndots", "timeout", "rotate:1", "foo:1", ":5", "no-reload", "ROTATE",
             "ndots:x", "ndots:", "ndots:-1", "foo:bar", "timeout:1.5"}
CoreLines ==
  { <<>>, <<"#", "nameserver", "192.0.2.1">>, <<";x">>, <<"#nameserver", "192.0.2.2">>,
    <<"nameserver", "192.0.2.1">>, <<"nameserver", "2001:db8::1">>, <<"nameserver", "::1">>,
    <<"nameserver">>, <<"nameserver", "192.0.2.2", "192.0.2.1">>,
    <<"domain", "example.com">>, <<"domain", "Sub.Example.ORG.">>, <<"domain">>, <<"domain", "a..b">>,
    <<"domain", "local", "example.com">>, <<"domain", ".">>,
    <<"search", "example.com", "Sub.Example.ORG.">>, <<"search">>, <<"search", ".", "local">>,
    <<"search", "local", "a..b">>, <<"search", "local">>,
    <<"sortlist", "130.155.160.0/255.255.240.0">>,
    <<"options">>, <<"options", "rotate", "ndots:3">>, <<"options", "timeout:1", "ndots:x", "edns0">>,
    <<"options", "ip6-dotint">>, <<"options", "no-ip6-dotint">>, <<"options", "timeout:31", "attempts:6">>,
    <<"bogus", "1">>, <<"NAMESERVER", "192.0.2.1">>, <<"lookup", "file", "bind">> }
OptLines == {<<"options", w>> : w \in OptWords} \cup {<<"options", w, "use-vc">> : w \in OptWords}
Lines == CASE Pool = "core" -> CoreLines [] Pool = "opts" -> OptLines [] OTHER -> CoreLines \cup OptLines

Init == conf = ConfInit /\ hist = <<>> /\ lead \in BOOLEAN /\ last = [ok |-> TRUE, st |-> ConfInit, words |-> <<>>, from |-> ConfInit]

\* one call of ResolvConf::parse with one line
A_ParseLine ==
  /\ Len(hist) < MaxLines
  /\ \E words \in Lines :
       LET r == ParseLine(conf, words, lead)
       IN /\ conf' = r.st
          /\ hist' = Append(hist, [words |-> words, ok |-> r.ok, st |-> r.st])
          /\ last' = [ok |-> r.ok, st |-> r.st, words |-> words, from |-> conf]
  /\ UNCHANGED lead
Next == A_ParseLine
Spec == Init /\ [][Next]_vars

I_StepLaws == StepLaws(last.from, last.words, lead, [ok |-> last.ok, st |-> last.st])
I_FinalLaws == FinalLaws(conf)
\* parsing the file in one piece = the lines up to the first failure
I_WholeFile ==
  LET lines == [i \in 1..Len(hist) |-> hist[i].words]
      w == ParseFile(ConfInit, lines, lead, 1)
      firstBad == {i \in 1..Len(hist) : ~hist[i].ok}
  IN IF firstBad = {} THEN w = Ok(conf)
     ELSE LET i == CHOOSE j \in firstBad : \A k \in firstBad : j <= k
          IN ~w.ok /\ (\A k \in 1..i - 1 : hist[k].ok) /\
             w.st = ParseLine(IF i = 1 THEN ConfInit ELSE
                                 ParseFile(ConfInit, SubSeq(lines, 1, i - 1), lead, 1).st, lines[i], lead).st
\* domain / search: the last successful one decides, independent of the history before it
I_LastWins ==
  \A i \in 1..Len(hist) :
    (hist[i].ok /\ hist[i].words # <<>> /\ hist[i].words[1] \in {"domain", "search"}
       /\ (lead \/ hist[i].words[1] \notin CommentWords)
       /\ \A k \in (i + 1)..Len(hist) : hist[k].words = <<>> \/ hist[k].words[1] \notin {"domain", "search"})
    => conf.search = (IF hist[i].words[1] = "domain" THEN <<NameVal(hist[i].words[2])>> ELSE SearchList(hist[i].words))

\* S->I: one case per behaviour of exactly MaxLines lines
\* (shorter ones are prefixes of them)
Emit == Len(hist) = MaxLines =>
  LET lines == [i \in 1..Len(hist) |-> hist[i].words]
      w == ParseFile(ConfInit, lines, lead, 1)
      proj(c) == [servers |-> c.servers, stmo |-> c.stmo, search |-> c.search, ndots |-> c.ndots,
                  timeout |-> c.timeout, attempts |-> c.attempts, flags |-> c.flags]
  IN PrintT("CASE " \o ToJson(
       [in |-> [fam |-> "conf", lines |-> lines, lead |-> IF lead THEN " " ELSE ""],
        exp |-> [steps |-> [i \in 1..Len(hist) |-> [ok |-> hist[i].ok, st |-> proj(hist[i].st)]],
                 whole |-> [ok |-> w.ok, st |-> proj(w.st)],
                 fin |-> proj(Finalize(conf))]]))
=============================================================================
