---------------------------- MODULE SignerInput ----------------------------
(* C12 - where the signer's RRsets come from.                               *)
(*                                                                          *)
(* RFC 4034 3.1.8.1 / 6.3: the RRs of the signed data are in canonical      *)
(* RDATA order with duplicates removed.  Of the library's entry points only *)
(* sign_rrset establishes that order itself; sign_sorted_rrset_in,          *)
(* sign_sorted_zone_records and sign_zone *trust* the order in which the    *)
(* collection (SortedRecords) hands out the records.  So "the collection is *)
(* canonical after every operation" (X07, SortedRecords.tla - instantiated  *)
(* here, not restated) is the precondition under which the octets handed to *)
(* sign_raw are SignedData, whatever the route by which the records reached *)
(* the collection.                                                          *)
EXTENDS Rrsig, TLC

SR == INSTANCE SortedRecords        \* Dev <- Dev

\* a record of the collection, [n, t, ttl, rd] with opaque RDATA (class IN),
\* as an RR of Rrsig.tla ...
ToRr(r)  == [owner |-> r.n, type |-> r.t, class |-> 1, ttl |-> r.ttl, rd |-> <<Raw(r.rd)>>]
ToRrs(g) == [i \in 1..Len(g) |-> ToRr(g[i])]
\* ... and an RR of any type as a record of the collection: its place is
\* decided by its canonical RDATA
OfRr(rr)  == [n |-> rr.owner, t |-> rr.type, ttl |-> rr.ttl, rd |-> RdCanon(rr.type, rr.rd)]
OfRrs(s)  == [i \in 1..Len(s) |-> OfRr(s[i])]

\* the RRsets the collection's iterators (rrsets(), owner_rrs() + rrsets())
\* yield: maximal runs of the stored sequence
Groups(c) == SR!Rrsets(c)

\* the same runs of a sequence of RRs of Rrsig.tla
RrRuns(s) == SR!Runs(s, LAMBDA a, b : NameEq(a.owner, b.owner) /\ a.type = b.type)

\* a signing context: [key, keyOwner, inc, exp]
Fields(x, rrs) == SignerFields(x.key, x.keyOwner, rrs, x.inc, x.exp)
\* what each kind of entry point hands to sign_raw for one RRset as stored
Trusting(x, rrs) == TrustingOctets(Fields(x, rrs), rrs)       \* sign_sorted_rrset_in
Sorting(x, rrs)  == SignerOctets(Fields(x, SortRrs(rrs)), rrs) \* sign_rrset
Rfc(x, rrs)      == SignedData(Fields(x, rrs), rrs)

\* sign_sorted_zone_records / sign_zone(AlreadyPresent): one pass over the
\* collection as it stands (zones here have no cuts and nothing out of zone:
\* which RRsets are signed is X07's subject)
HandedPass(x, c) == [i \in 1..Len(Groups(c)) |-> Trusting(x, ToRrs(Groups(c)[i]))]
\* rrsets() + sign_rrset
HandedSorting(x, c) == [i \in 1..Len(Groups(c)) |-> Sorting(x, ToRrs(Groups(c)[i]))]
\* sign_zone generating NSEC / NSEC3 in place: sorted_extend() sorts the whole
\* collection again before the signing pass
HandedResorted(x, c) == HandedPass(x, SR!Extend(c, <<>>).coll)
\* what the RFC says, for the RRsets the content denotes
HandedRfc(x, c) ==
  LET d == SR!Rrsets(SR!Extend(c, <<>>).coll)
  IN [i \in 1..Len(d) |-> Rfc(x, ToRrs(d[i]))]

\* a caller's own slice (Rrset::new / new_from_owned): the records of one
\* RRset in the order they arrived, RFC 2181 duplicates not repeated
RECURSIVE Distinct(_)
Distinct(s) == IF s = <<>> THEN <<>>
               ELSE LET d == Distinct(SubSeq(s, 1, Len(s) - 1))
                    IN IF SR!Holds(d, s[Len(s)]) THEN d ELSE Append(d, s[Len(s)])
SliceOf(arrived, g) ==
  SelectSeq(Distinct(arrived), LAMBDA r : NameEq(r.n, g[1].n) /\ r.t = g[1].t)

Perms(S) == {p \in [1..Cardinality(S) -> S] : \A i, j \in 1..Cardinality(S) : i # j => p[i] # p[j]}
SeqPerms(s) == {[i \in 1..Len(s) |-> s[p[i]]] : p \in Perms(1..Len(s))}

--------------------------------------------------------------------------
(* The laws *)

\* the precondition, per RRset, in Rrsig.tla's terms
GroupsCanonical(c) == \A i \in 1..Len(Groups(c)) : CanonicalRrset(ToRrs(Groups(c)[i]))
\* ... follows from X07's invariant
CollectionLaw(c) == SR!IsCanonical(c) => GroupsCanonical(c)
\* under it every entry point hands over the RFC's octets
TrustedOrderIsRfc(x, c) ==
  /\ HandedPass(x, c) = HandedRfc(x, c)
  /\ HandedSorting(x, c) = HandedRfc(x, c)
  /\ HandedResorted(x, c) = HandedRfc(x, c)
\* and the signature verifies over the RRset presented in any order
AnyOrderVerifies(x, c) ==
  \A i \in 1..Len(Groups(c)) :
     LET rrs == ToRrs(Groups(c)[i])
         f == Fields(x, rrs)
         s == SignTerm(x.key, Trusting(x, rrs))
     IN \A p \in SeqPerms(rrs) : Verify(s, x.key, ValidatorOctets(f, p))
=============================================================================
