CONSTANTS
  Dev = {}
  Scenario = "optrc"
  MaxOps = 4
  CompSet = {"none", "tree"}
  TgtSet = {"array", "sarray"}
SPECIFICATION Spec
INVARIANT ParseBack
INVARIANT CountsMatch
INVARIANT PointersBackwardAndIntended
INVARIANT ShimMatches
INVARIANT TableWithinBuffer
INVARIANT TableSound
INVARIANT WithinCapacity
INVARIANT HeaderKept
PROPERTY NoopProp
INVARIANT Emit
CHECK_DEADLOCK FALSE
