CONSTANTS
  Dev = {}
  Grid = "size"
  Thorough = FALSE
SPECIFICATION Spec
INVARIANTS
  DecisionOK BadVersOK HeaderOK OptIffOK KeepaliveOK SizeSeenOK ReservedOK SizeOK TruncOK IdempotentOK MachineIsRun OnceOK
  Emit
CHECK_DEADLOCK FALSE
