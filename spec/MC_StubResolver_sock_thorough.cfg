CONSTANTS
  NSSet = {1, 2}
  SearchSet <- MCQ_Search
  NDotsSet = {1}
  DotsSet = {0}
  CallSet = {"query"}
  TooLongSet <- MCQ_TooLong
  ModeSet = {"sock"}
  UseVcSet = {FALSE, TRUE}
  TcpOnlySet <- MCT_TcpOnly
  TmoSet = {40}
  Est = 30
  Outs = {"Data", "NX", "SF", "REF", "FE", "TC", "Err"}
  TcpOuts = {"Data", "NX", "SF", "TC", "Err"}
  Lats = {1, 50}
  FreshEvery = FALSE
  Dev = {}
SPECIFICATION MCSpec
INVARIANT Honest
INVARIANT AtMostOncePerRound
INVARIANT InTime
INVARIANT NoPanic
INVARIANT NoDatagramWithVc
INVARIANT TruncationRetriedOverTcp
INVARIANT NeverTruncatedFromUdp
INVARIANT SearchOrder
INVARIANT SearchResult
INVARIANT FoundIsForCandidate
INVARIANT EveryServerAsked
CHECK_DEADLOCK TRUE
