-------------------------- MODULE Trace_NameBuilder --------------------------
(* I->S: a recorded run of real NameBuilder<Vec<u8>> programs (one event   *)
(* per public call: call, arguments, result, projected state) must be a    *)
(* behaviour of NameBuilder.tla.  Every event is matched against the step *)
(* under the smallest set of open deviations (of those the call can depend *)
(* on) that explains it -- the empty set, i.e. the ideal step, first; the  *)
(* deviations a run needed are reported.  While no deviation has been      *)
(* needed since the last `new`, the property invariants must hold.         *)
EXTENDS NameBuilder, Json, IOUtils, FiniteSets

Rec == ndJsonDeserialize(IOEnv.TRACE)

VARIABLES l,        \* next event
          usedT     \* deviations needed since the last "new"
tvars == <<l, usedT, st, last>>

ProjT(s) == IF s.ok THEN <<s.len, IF s.open THEN 1 ELSE 0, s.cur, Len(s.labs), 1>>
            ELSE <<s.len, IF s.open THEN 1 ELSE 0, -1, -1, 0>>
OutT(o) == <<o.kind, o.nlen, IF o.valid THEN 1 ELSE 0>>
Consuming == {"finish", "into_name", "append_origin"}

Matches(r, e) ==
  /\ r.res = e.res
  /\ IF e.ev \in Consuming THEN OutT(r.out) = e.out ELSE ProjT(r.st) = e.s

\* the outcomes the specification admits for event e under deviations D: the
\* transcribed step, and for the composite digit-label calls also "error,
\* nothing done" (the property only asks that the builder stays usable)
Outcomes(e, D) ==
  LET r == StepF(st, e.ev, e.a, D)
  IN IF r.res # "ok" /\ e.ev \notin AtomicOps /\ e.ev \notin Consuming
     THEN {r, [res |-> r.res, st |-> st, out |-> NoOut]}
     ELSE IF r.res # "ok" /\ e.ev = "append_name" /\ st.open
     THEN \* whether the open label's length octet was written before the
          \* error is not observable and differs between today's code and
          \* the repaired one: both are followed
          {[r EXCEPT !.st.fresh = st.fresh], [r EXCEPT !.st.fresh = TRUE]}
     ELSE {r}

Hit(e, T) == \E r \in Outcomes(e, T) : Matches(r, e)

TInit == l = 1 /\ usedT = {} /\ st = InitSt /\ last = NoCall

\* a new program: an empty builder, or one made from an existing valid
\* relative name (RelativeName::into_builder / NameBuilder::from_builder)
\* whose label lengths are recorded
T_New ==
  /\ l <= Len(Rec) /\ Rec[l].ev = "new"
  /\ LET ls == Rec[l].labs
         s0 == [len |-> WireOfLens(ls), open |-> FALSE, cur |-> 0, ok |-> TRUE, labs |-> ls,
                fresh |-> FALSE]
     IN /\ ValidRel(LabelsOf(ls))
        /\ ProjT(s0) = Rec[l].s
        /\ st' = s0
        /\ last' = [NoCall EXCEPT !.pre = s0]
  /\ l' = l + 1 /\ usedT' = {}

T_Call ==
  /\ l <= Len(Rec) /\ Rec[l].ev \in Ops
  /\ LET e == Rec[l]
         hits == {T \in SUBSET (RelDevs(e.ev) \cap Dev) : Hit(e, T)}
     IN /\ hits # {}
        /\ LET need == CHOOSE T \in hits : \A T2 \in hits : Cardinality(T) <= Cardinality(T2)
           IN /\ \E r \in {o \in Outcomes(e, need) : Matches(o, e)} :
                   /\ st' = r.st
                   /\ last' = [op |-> e.ev, arg |-> e.a, res |-> r.res, out |-> r.out, pre |-> st]
              /\ usedT' = usedT \cup need
              /\ IF need \subseteq usedT THEN TRUE
                 ELSE PrintT("DEV_USED " \o ToJson([devs |-> need, at |-> l, event |-> e]))
  /\ l' = l + 1

TNext == T_New \/ T_Call
TSpec == TInit /\ [][TNext]_tvars

\* the property, for as long as the run has not needed a deviation
T_Limits      == usedT = {} => Limits
T_Ghost       == usedT = {} => GhostConsistent
T_FinishValid == usedT = {} => FinishValid
T_LabelOctet  == usedT = {} => LabelOctetMatches
T_NoPanic     == usedT = {} => NoPanic

Accepted ==
  LET d == TLCGet("stats").diameter
  IN IF d = Len(Rec) + 1 THEN TRUE
     ELSE /\ PrintT("TRACE_REJECTED " \o ToJson([matched |-> d - 1, total |-> Len(Rec),
                      event |-> IF d <= Len(Rec) THEN Rec[d] ELSE [ev |-> "none"]]))
          /\ FALSE
=============================================================================
