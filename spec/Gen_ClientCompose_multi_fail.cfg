CONSTANTS
  Dev = {}
  TickMs = 10
  Confs = {}
  MaxDgrams = 0
  Faults = {}
  MReqs = {1}
  MaxConn = 3
  MsConfs <- GMsFail
  XConfs <- GXConfs
  OpNames <- AllOps
  TcOnly = FALSE
  Mode = "multi"
  MaxOps = 9
  PathMode = FALSE
SPECIFICATION CSpec
VIEW CView
CONSTRAINT FineDelay
ACTION_CONSTRAINT Emit
INVARIANT MAtMostOnce
INVARIANT MOnTime
INVARIANT MOwn
INVARIANT MNoDup
INVARIANT MConnsSound
INVARIANT XNoTruncated
INVARIANT XAtMostOnce
INVARIANT XTcpOnlyAfterTc
INVARIANT XOnTime
INVARIANT XLegsSound
CHECK_DEADLOCK FALSE
