CONSTANTS
  Sites <- SiteTable
  BITS = 6
  ERAS = 3
SPECIFICATION Spec
INVARIANT INear
INVARIANT IDoc
INVARIANT ITie
INVARIANT IVsRef
INVARIANT IOrder
INVARIANT IShift
INVARIANT IImpl
INVARIANT IVacuity
PROPERTY PLater
CHECK_DEADLOCK FALSE
