---------------------------- MODULE Trace_Serial ----------------------------
(* I->S: a recorded run of the real library on dense 32-bit operands       *)
(* (one event per public call; operands as two 16-bit limbs <<hi, lo>>)    *)
(* must be a behaviour of this machine, whose transitions are judged by    *)
(* the limb operators of SerialLimbs.tla at LW = 16 (TLC-proved equal to   *)
(* Serial!Cmp / Add / ImplAdd at small widths by MC_SerialLimbs).          *)
(*                                                                          *)
(* The machine holds one current serial `cur` (a zone serial / a time):    *)
(*   set   cur := v                                                         *)
(*   cmp   compare cur with b: every comparison site of the library and    *)
(*         the Rust reference ref_cmp must answer LCmp(cur, b); the        *)
(*         reversed call must answer LCmp(b, cur)                           *)
(*   add   cur := cur + n, or a panic (cur unchanged) for n > 2^31 - 1     *)
(*   zonebump  the zone store's SOA serial bump on commit: cur := cur + 1  *)
(*   place cur as a signature time placed next to a reference time         *)
(*   text  cur := the field value read from a date / integer text          *)
(*   instant  cur := the serial made from an instant (a clock value, also  *)
(*         before the epoch) by From<jiff::Timestamp> for Serial           *)
(*   fresh    cur as a cookie timestamp presented to the server cookies    *)
(*         middleware whose clock shows `now`                               *)
(*   window   cur as a timestamp presented to a verifier with the validity *)
(*         window [lo, hi): Range::contains, new::edns::Cookie::verify     *)
EXTENDS SerialLimbs, Sequences, TLC, Json, IOUtils

Rec == ndJsonDeserialize(IOEnv.TRACE)

VARIABLES l, cur
tvars == <<l, cur>>

IsEv(e) == l <= Len(Rec) /\ Rec[l].ev = e /\ l' = l + 1

TInit == l = 1 /\ cur = <<0, 0>>

T_Set == /\ IsEv("set")
         /\ IsLVal(Rec[l].v)
         /\ cur' = Rec[l].v

T_Cmp == /\ IsEv("cmp")
         /\ IsLVal(Rec[l].b)
         /\ LET r == LCmp(cur, Rec[l].b) IN
            /\ Rec[l].serial = r            \* Serial::partial_cmp
            /\ Rec[l].rev = LCmp(Rec[l].b, cur)   \* the reversed call
            /\ Rec[l].rev = LFlip(r)        \* antisymmetry (law 2), observed
            /\ Rec[l].timestamp = r         \* rdata::dnssec::Timestamp
            /\ Rec[l].newserial = r         \* new::base::Serial
            /\ Rec[l].newts = r             \* new::rdata::Rrsig::expiration() Timestamp
            /\ Rec[l].newtsrev = LFlip(r)   \* ... and its reversed call
            /\ Rec[l].ref = r               \* harness reference ref_cmp(32, ..)
            \* XFR middleware, RFC 1995 section 2: IXFR request of a client at
            \* serial cur, zone at serial b, diffs available
            /\ CASE r = "LT"    -> Rec[l].ixfr = "transfer"
                 [] r = "UNDEF" -> Rec[l].ixfr \in {"single", "transfer"}
                 [] OTHER       -> Rec[l].ixfr = "single"
            \* the same request when the provider has no diffs: a client with the
            \* same or a newer serial still gets the single SOA, an older one the
            \* whole zone (the middleware's ixfr_client_is_current)
            /\ CASE r = "LT"    -> Rec[l].ixfrnodiffs = "transfer"
                 [] r = "UNDEF" -> Rec[l].ixfrnodiffs \in {"single", "transfer"}
                 [] OTHER       -> Rec[l].ixfrnodiffs = "single"
         /\ UNCHANGED cur

T_Add == /\ IsEv("add")
         /\ IsLVal(Rec[l].n)
         /\ LET r == LImplAdd(cur, Rec[l].n) IN
            /\ Rec[l].serial = r            \* Serial::add
            /\ Rec[l].ref = r               \* harness reference ref_add(32, ..)
            /\ IF "ok" \in DOMAIN r
               THEN /\ cur' = r.ok
                    \* law 1, observed on the library: the sum compares greater
                    /\ Rec[l].grew = (LCmp(cur, r.ok) = "LT")
                    /\ Rec[l].grew = (Rec[l].n # <<0, 0>>)
               ELSE /\ cur' = cur
                    /\ Rec[l].grew = FALSE

\* zonetree: committing with bump_soa_serial on a zone whose SOA serial is
\* cur publishes cur + 1; the new serial compares greater (also across the
\* wrap at 2^32 - 1) and the commit's diff runs from cur to cur + 1
T_ZoneBump == /\ IsEv("zonebump")
              /\ Rec[l].serial = [ok |-> LAdd(cur, <<0, 1>>)]
              /\ Rec[l].diff_matches = TRUE
              /\ Rec[l].grew = (LCmp(cur, LAdd(cur, <<0, 1>>)) = "LT")
              /\ Rec[l].grew = TRUE
              /\ cur' = LAdd(cur, <<0, 1>>)

\* Timestamp::to_system_time: the serial cur placed next to the reference time
\* era * 2^32 + r.  Where the placement is constrained (not at distance 2^31,
\* not before the epoch) the result is Place; it always carries the serial.
T_Place == /\ IsEv("place")
           /\ IsLVal(Rec[l].r) /\ Rec[l].era \in 0 .. 3
           /\ Rec[l].t.v = cur
           /\ LPlaceConstrained(Rec[l].era, Rec[l].r, cur)
                 => Rec[l].t.era = LPlaceEra(Rec[l].era, Rec[l].r, cur)
           \* the copy of to_system_time on the new API's signature time
           /\ Rec[l].nt.v = cur
           /\ LPlaceConstrained(Rec[l].era, Rec[l].r, cur)
                 => Rec[l].nt.era = LPlaceEra(Rec[l].era, Rec[l].r, cur)
           /\ UNCHANGED cur

\* text entry points (FromStr, Timestamp::scan, zone-file reader; date form
\* and integer form): the time era * 2^32 + v denotes the field value v
\* (Serial!Denote), whatever the era; cur becomes the value read
T_Text == /\ IsEv("text")
          /\ IsLVal(Rec[l].v) /\ Rec[l].era \in 0 .. 3
          /\ Rec[l].got = [ok |-> Rec[l].v]
          /\ cur' = Rec[l].v

\* an instant era * 2^32 + v (era may be negative: before the epoch) converted
\* into a serial: the serial is v (Serial!Denote); cur becomes it
T_Instant == /\ IsEv("instant")
             /\ IsLVal(Rec[l].v) /\ Rec[l].era \in -3 .. 3
             /\ Rec[l].got = [ok |-> Rec[l].v]
             /\ cur' = Rec[l].v

\* a verifier with the validity window [lo, hi) is shown the timestamp cur:
\* every site (Range<Serial>::contains for both Serial types and Timestamp,
\* Cookie::verify of a correctly hashed cookie) answers Serial!WindowDecision
T_Window == /\ IsEv("window")
            /\ IsLVal(Rec[l].lo) /\ IsLVal(Rec[l].hi)
            /\ LET d == LWindowDecision(Rec[l].lo, Rec[l].hi, cur) IN
               \A site \in {"cookie", "newrange", "range", "tsrange", "newtsrange"} :
                  /\ Rec[l][site] \in {"accept", "reject"}
                  /\ d # "any" => Rec[l][site] = d
            /\ UNCHANGED cur

\* the server cookies middleware, its clock at `now`, is shown a correctly
\* hashed cookie made at cur (CookiesMiddlewareSvc::timestamp_ok through a
\* prefetch request and through a query from a deny-listed address; the old
\* API's opt::Cookie::check_server_hash): Serial!FreshDecision with the
\* one hour / five minutes of RFC 9018 section 4.3
T_Fresh == /\ IsEv("fresh")
           /\ IsLVal(Rec[l].now)
           /\ LET d == LFreshDecision(Rec[l].now, cur, <<0, 3600>>, <<0, 300>>) IN
              \A site \in {"mwprefetch", "mwdenied", "optcookie"} :
                 /\ Rec[l][site] \in {"accept", "reject"}
                 /\ d # "any" => Rec[l][site] = d
           /\ UNCHANGED cur

TNext == T_Fresh \/ T_Text \/ T_Set \/ T_Cmp \/ T_Add \/ T_ZoneBump \/ T_Place \/ T_Instant
         \/ T_Window
TSpec == TInit /\ [][TNext]_tvars

TTypeOK == IsLVal(cur)

Accepted ==
  LET d == TLCGet("stats").diameter
  IN IF d = Len(Rec) + 1 THEN TRUE
     ELSE /\ PrintT("TRACE_REJECTED " \o ToJson([matched |-> d - 1, total |-> Len(Rec),
                      
                      event |-> IF d <= Len(Rec) THEN Rec[d] ELSE [ev |-> "none"]]))
          /\ FALSE
=============================================================================
