CONSTANTS
  Dev <- EnvDev
  RecU = {1, 2}
  TtlU = {0, 1}
  Styles = {"rfc", "stamped"}
  MaxC = 2
  Kinds = {"ixfr2"}
  MaxMsgs = 2
  FaultKinds = {"none"}
  LaterQ = {FALSE}
SPECIFICATION GenSpec
INVARIANT EmitCase
CHECK_DEADLOCK FALSE
