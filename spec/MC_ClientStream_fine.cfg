CONSTANTS
  Dev = {}
  MaxReq = 2
  TickMs = 10000
  StConfs <- St_1_1
  RqCap = 8
  ChanCap = 8
  MaxFrames = 2
  MaxQ = 1
  MaxId = 0
  KaVals = {}
  XQs = {}
  XfrIds = {}
  XfrAll = FALSE
  QVars = {}
  EndKinds = {"eof"}
  Frames <- MCFrames
SPECIFICATION Spec
VIEW View
INVARIANT OwnAnswer
INVARIANT AtMostOnce
INVARIANT NoCross
INVARIANT SlotTableSound
INVARIANT NothingLost
INVARIANT TimerArmed
INVARIANT Configured
CHECK_DEADLOCK FALSE
