--------------------------- MODULE MC_ZoneLayout ---------------------------
(* Token level / metamorphic: a *logical file* is a sequence of resolved    *)
(* records and directives.  Layouts(file) are its renderings as text by     *)
(* independent choices per entry: owner written absolute / relative to      *)
(* $ORIGIN / as @ / inherited by indentation; TTL and class written or      *)
(* inherited ($TTL or last stated TTL; last class); TTL-class order;        *)
(* spacing (SP, TAB, runs, CRLF), parenthesised continuation lines,         *)
(* comments, blank lines; tokens plain / decimal-escaped / quoted; "tight"  *)
(* styles in which every token is followed directly by a parenthesis and no *)
(* blank; string tokens quoted *and* escaped (first octet, an inner octet);  *)
(* Base 64 / hex data cut into tokens at different places.  Every case also  *)
(* names a construction route of the reader (Routes) and, for files that     *)
(* start with the SOA, carries what zonetree::parsed makes of the entries.   *)
(* The oracle Logical(file) is the record list itself; the reader machine   *)
(* of ZoneFile.tla must produce it from every layout.                       *)
EXTENDS ZoneFile, TLC, Json

CONSTANT MaxEntries,
         MapDevs      \* the deviations for which generated cases carry the code's outcome (the open ones)

VARIABLES rv,      \* the reader checks the class (TRUE) or was built with allow_invalid()
          file,    \* logical entries so far
          wc,      \* writer-side context (which omissions are valid)
          m,       \* reader machine (deviations Dev) after the text
          text,    \* one text that leads here (history, not in the VIEW)
          act      \* name of the last action (carried by the generated cases)
vars == <<rv, file, wc, m, text, act>>
View == <<rv, file, wc, m.en>>

S(str) == str   \* octet strings are written as tuples below
\* labels
La == <<97>>  Lb == <<98>>  Lo == <<111>>  Lx == <<120>>  Lsp == <<120, 32, 121>>   \* "x y"
NA == <<La, Lo>>  NB == <<Lb, Lo>>  NO == <<Lo>>  NX == <<Lx>>  NAX == <<La, Lx>>  NSP == <<Lsp, Lo>>
WireOf(n) == Concat([i \in 1..Len(n) |-> <<Len(n[i])>> \o n[i]]) \o <<0>>

Origin0 == NO

\* record data: abstract value and its wire form
TxtQR == [t |-> 16, strs |-> << <<113, 32, 114>> >>]              \* "q r"
TxtT  == [t |-> 16, strs |-> << <<116>> >>]                       \* "t"
TxtTE == [t |-> 16, strs |-> << <<116>>, <<>> >>]                 \* "t" ""
NsNB  == [t |-> 2, name |-> NB]
NsNX  == [t |-> 2, name |-> NX]
MxNA  == [t |-> 15, pref |-> 10, name |-> NA]
\* SOA at the apex; data through the symbol converters: the text (cut into
\* tokens by the layout) and the octets it denotes
SoaO  == [t |-> 6, mname |-> NA, rname |-> NB, nums |-> <<1, 7200, 0, 65536, 5>>]
\* "AQIDBA==" = 01 02 03 04;  "q80B" = ab cd 01;  hex "ABcd01f" is odd (only as literal)
KeyD  == [t |-> 48, fields |-> <<<<50, 53, 55>>, <<51>>, <<49, 51>>>>, fwire |-> <<1, 1, 3, 13>>,
          data |-> <<65, 81, 73, 68, 66, 65, 61, 61>>, dwire |-> <<1, 2, 3, 4>>]
PgpD  == [t |-> 61, fields |-> <<>>, fwire |-> <<>>, data |-> <<113, 56, 48, 66>>, dwire |-> <<171, 205, 1>>]
DsD   == [t |-> 43, fields |-> <<<<49>>, <<56>>, <<50>>>>, fwire |-> <<0, 1, 8, 2>>,
          data |-> <<65, 66, 99, 100, 48, 49>>, dwire |-> <<171, 205, 1>>]
\* NSEC3 1 0 5 ab 04 A TXT: salt ab, hash "04" = one octet 00 (base32hex), types A TXT
N3D   == [t |-> 50, fields |-> <<<<49>>, <<48>>, <<53>>, <<97, 98>>, <<48, 52>>, <<65>>, <<116, 120, 116>>>>, fwire |-> <<>>,
          data |-> <<>>, dwire |-> <<1, 0, 0, 5, 1, 171, 1, 1, 0, 3, 64, 0, 128>>]
CnNB  == [t |-> 5, name |-> NB]
\* SVCB / HTTPS: priority, target, an *ordered* list of parameters as written
\* (key text, value text) and the wire form (ascending keys) it denotes
P(k, v) == [k |-> k, v |-> v]
SvcbA == [t |-> 64, pref |-> 1, name |-> NB,
          params |-> << P(<<97, 108, 112, 110>>, <<104, 50, 44, 104, 51>>),          \* alpn=h2,h3
                        P(<<112, 111, 114, 116>>, <<52, 52, 51>>),                      \* port=443
                        P(<<107, 101, 121, 54, 53, 50, 56, 48>>, <<97, 98, 99>>) >>,   \* key65280=abc
          pwire |-> <<0, 1, 0, 6, 2, 104, 50, 2, 104, 51,  0, 3, 0, 2, 1, 187,  255, 0, 0, 3, 97, 98, 99>>]
HttpsB == [t |-> 65, pref |-> 16, name |-> NO,
           params |-> << P(<<112, 111, 114, 116>>, <<56, 52, 52, 51>>),                \* port=8443
                         P(<<97, 108, 112, 110>>, <<104, 51>>) >>,                      \* alpn=h3
           pwire |-> <<0, 1, 0, 3, 2, 104, 51,  0, 3, 0, 2, 32, 251>>]
RdWire(rd) ==
  IF rd.t \in {64, 65} THEN EncU16(rd.pref) \o WireOf(rd.name) \o rd.pwire
  ELSE IF rd.t = 6 THEN WireOf(rd.mname) \o WireOf(rd.rname) \o Concat([i \in 1..5 |-> EncU32(rd.nums[i])])
  ELSE IF rd.t \in {48, 61, 43, 50} THEN rd.fwire \o rd.dwire
  ELSE IF rd.t = 5 THEN WireOf(rd.name)
  ELSE IF rd.t = 16 THEN Concat([i \in 1..Len(rd.strs) |-> <<Len(rd.strs[i])>> \o rd.strs[i]])
  ELSE IF rd.t = 2 THEN WireOf(rd.name)
  ELSE EncU16(rd.pref) \o WireOf(rd.name)

Rec(o, ttl, rd) == [k |-> "rec", owner |-> o, class |-> 1, ttl |-> ttl, rd |-> rd]
\* a record of another class than the file's: an error unless allow_invalid()
RecCH == [Rec(NB, 7, [t |-> 16, strs |-> << <<116>> >>]) EXCEPT !.class = 3]
\* literal entries: text the ideal reader must reject (the witnesses of the
\* deviations), no layout variation
Lit(t) == [k |-> "lit", text |-> t]
LitEmptyLabel == <<97, 46, 46, 98, 32, 73, 78, 32, 84, 88, 84, 32, 116, 10>>          \* a..b IN TXT t
LitBigTtl     == <<36, 84, 84, 76, 32, 52, 50, 57, 52, 57, 54, 55, 50, 57, 54, 10>>   \* $TTL 4294967296
LitNoData     == <<98, 32, 73, 78, 32, 84, 88, 84, 10>>                               \* b IN TXT

Entries == {
  [k |-> "origin", name |-> NX], [k |-> "ttl", v |-> 7],
  [k |-> "include", path |-> <<102, 32, 103>>],                  \* f g
  Rec(NA, 3600, TxtQR), Rec(NA, 5, NsNB), Rec(NO, 3600, MxNA),
  Rec(NSP, 5, TxtTE), Rec(NAX, 7, NsNX), Rec(NB, 7, TxtT),
  Rec(NA, 3600, SvcbA), Rec(NB, 5, HttpsB),
  Rec(NO, 3600, SoaO), Rec(NO, 7, KeyD), Rec(NA, 5, PgpD), Rec(NB, 3600, DsD), Rec(NA, 7, N3D), Rec(NA, 5, CnNB), RecCH,
  Lit(LitEmptyLabel), Lit(LitBigTtl), Lit(LitNoData) }

ASSUME /\ B64Decode(KeyD.data) = DataOk(KeyD.dwire) /\ B64Decode(PgpD.data) = DataOk(PgpD.dwire)
       /\ HexDecode(DsD.data) = DataOk(DsD.dwire)

--------------------------------------------------------------------------
(* Oracle *)
LogicalEntry(e) ==
  IF e.k = "rec" THEN <<[owner |-> WireOf(e.owner), class |-> e.class, ttl |-> e.ttl,
                         rtype |-> e.rd.t, rdata |-> RdWire(e.rd)]>>
  ELSE IF e.k = "include" THEN <<[include |-> e.path, origin |-> <<>>]>>
  ELSE <<>>
\* the entry at which reading stops with an error, 0 if none: a literal, or
\* (with class checking) a record of another class than the first record's
Stops(f, v, i) == f[i].k = "lit" \/ (v /\ f[i].k = "rec" /\ \E j \in 1..(i - 1) : f[j].k = "rec" /\ f[j].class # f[i].class)
StopAt(f, v) == IF \E i \in 1..Len(f) : Stops(f, v, i) THEN CHOOSE i \in 1..Len(f) : Stops(f, v, i) /\ \A j \in 1..(i - 1) : ~Stops(f, v, j) ELSE 0
LogicalV(f, v) == LET st == StopAt(f, v)
                      n == IF st = 0 THEN Len(f) ELSE st - 1
                  IN [entries |-> Concat([i \in 1..n |-> LogicalEntry(f[i])]), err |-> st # 0]
Logical(f) == LogicalV(f, rv)

\* writer-side context: what may be omitted in the next entry
WcInit == [origin |-> Origin0, lastOwner |-> <<>>, dflTtl |-> 3600, dollar |-> FALSE, cls |-> -1]
WcNext(w, e) ==
  IF e.k = "origin" THEN [w EXCEPT !.origin = e.name]
  ELSE IF e.k = "ttl" THEN [w EXCEPT !.dflTtl = e.v, !.dollar = TRUE]
  ELSE IF e.k = "rec" THEN [w EXCEPT !.lastOwner = e.owner, !.cls = IF @ = -1 THEN e.class ELSE @,
                                     !.dflTtl = IF w.dollar THEN @ ELSE e.ttl]
  ELSE w

--------------------------------------------------------------------------
(* Rendering *)
RECURSIVE DecDigits(_)
DecDigits(n) == IF n < 10 THEN <<48 + n>> ELSE DecDigits(n \div 10) \o <<48 + (n % 10)>>
Dec3(b) == <<BSL, 48 + (b \div 100), 48 + ((b \div 10) % 10), 48 + (b % 10)>>

\* token styles: 0 plain (escape what must be), 1 first octet as \ddd, 2 quoted
NeedsEsc(b, inName) == b \in {SP, QUOTE, BSL, SEMI, LPAR, RPAR} \/ (inName /\ b = DOT) \/ b < 33 \/ b > 126
EscOct(b, inName) == IF b < 32 \/ b > 126 THEN Dec3(b)
                     ELSE IF NeedsEsc(b, inName) THEN <<BSL, b>> ELSE <<b>>
QuoOct(b, inName) == IF b < 32 \/ b > 126 THEN Dec3(b)
                     ELSE IF b \in {QUOTE, BSL} \/ (inName /\ b = DOT) THEN <<BSL, b>> ELSE <<b>>
Body(o, ts, inName) ==
  Concat([i \in 1..Len(o) |->
     IF ts = 2 THEN QuoOct(o[i], inName)
     ELSE IF ts = 1 /\ i = 1 THEN Dec3(o[i])
     ELSE EscOct(o[i], inName)])
RECURSIVE JoinDots(_)
JoinDots(ps) == IF Len(ps) = 0 THEN <<>> ELSE IF Len(ps) = 1 THEN ps[1]
                ELSE ps[1] \o <<DOT>> \o JoinDots(Tail(ps))
\* a name token: labels joined by dots, absolute gets the final dot
NameTok(labels, abs, ts) ==
  LET b == JoinDots([i \in 1..Len(labels) |-> Body(labels[i], ts, TRUE)]) \o (IF abs THEN <<DOT>> ELSE <<>>)
  IN IF ts = 2 THEN <<QUOTE>> \o b \o <<QUOTE>> ELSE b
StrTok(o, ts) == IF ts = 2 \/ o = <<>> THEN <<QUOTE>> \o Body(o, 2, FALSE) \o <<QUOTE>> ELSE Body(o, ts, FALSE)
\* a string token that is quoted *and* has a simple escape: at = 1 the first
\* octet, otherwise the first octet that needs one outside quotes (or the last)
QuoEscTok(o, at) ==
  LET need == {i \in 1..Len(o) : NeedsEsc(o[i], FALSE)}
      k == IF at = 1 \/ Len(o) = 1 THEN 1 ELSE IF need # {} THEN CHOOSE i \in need : \A j \in need : i <= j ELSE Len(o)
  IN <<QUOTE>> \o Concat([i \in 1..Len(o) |-> IF i = k THEN <<BSL, o[i]>> ELSE QuoOct(o[i], FALSE)]) \o <<QUOTE>>

IsUnder(n, z) == Len(n) > Len(z) /\ SubSeq(n, Len(n) - Len(z) + 1, Len(n)) = z
\* forms in which a name may be written given the origin
NameForms(n, origin) == {"abs"} \cup (IF IsUnder(n, origin) THEN {"rel"} ELSE {}) \cup (IF n = origin THEN {"at"} ELSE {})
NameText(n, form, origin, ts) ==
  IF form = "abs" THEN NameTok(n, TRUE, ts)
  ELSE IF form = "rel" THEN NameTok(SubSeq(n, 1, Len(n) - Len(origin)), FALSE, ts)
  ELSE IF ts = 2 THEN <<QUOTE, AT, QUOTE>> ELSE <<AT>>

\* spacing styles
\* 4 and 5 are the tight styles: no blank anywhere, every token is followed
\* directly by a parenthesis -- 4: tok()tok()tok LF, 5: (tok)(tok)(tok) LF
Styles == 0..5
Gap(s)  == CASE s = 0 -> <<SP>> [] s = 1 -> <<TAB>> [] s = 2 -> <<SP, SP>> [] s = 3 -> <<SP, TAB, CR>>
             [] s = 4 -> <<LPAR, RPAR>> [] s = 5 -> <<RPAR, LPAR>>
Eol(s)  == CASE s = 0 -> <<LF>> [] s = 1 -> <<CR, LF>> [] s = 2 -> <<SP, SEMI, 99, 34, 40, LF>>   \* ' ;c"(' LF
             [] s = 3 -> <<SEMI, LF>> [] s = 4 -> <<LF>> [] s = 5 -> <<RPAR, LF>>
Lead(s) == CASE s = 0 -> <<>> [] s = 1 -> <<LF>> [] s = 2 -> <<SEMI, 32, 41, LF>>                 \* '; )' LF
             [] s = 3 -> <<SP, LF, CR, LF>> [] s = 4 -> <<>> [] s = 5 -> <<>>
\* what a line starts with: style 5 opens its first group
Open(s) == IF s = 5 THEN <<LPAR>> ELSE <<>>
\* the record data part, possibly wrapped in parentheses over several lines
Wrap(s, toks) ==
  LET j(g) == Concat([i \in 1..Len(toks) |-> (IF i = 1 THEN <<>> ELSE g) \o toks[i]])
  IN CASE s = 0 -> j(<<SP>>)
       [] s = 1 -> j(<<TAB>>)
       [] s = 2 -> <<LPAR, LF, SP>> \o j(<<LF, TAB>>) \o <<SP, SEMI, 120, LF, RPAR>>
       [] s = 3 -> <<LPAR>> \o j(<<SP, LPAR, LF, RPAR>>) \o <<RPAR>>
       [] s = 4 -> j(<<LPAR, LF, RPAR>>)
       [] s = 5 -> j(<<RPAR, LPAR>>)
TokStyle(s) == CASE s = 0 -> 0 [] s = 1 -> 1 [] s = 2 -> 2 [] s = 3 -> 0 [] s = 4 -> 0 [] s = 5 -> 2

\* a parameter in three spellings: key=value, key="value", "key=value";
\* which one depends on the style and the position, so every separator of a
\* style meets every spelling
ParamTok(p, sp) ==
  CASE sp = 0 -> p.k \o <<61>> \o p.v
    [] sp = 1 -> p.k \o <<61, QUOTE>> \o p.v \o <<QUOTE>>
    [] sp = 2 -> <<QUOTE>> \o p.k \o <<61>> \o p.v \o <<QUOTE>>
\* spelling of the i-th parameter in style s: every separator kind meets an
\* unquoted parameter followed by a wholly quoted one (0 -> 2), and the other
\* successions occur in some style
\* (a wholly quoted parameter directly behind a parenthesis would be glued
\* to the one before it: the tight styles write the parameters unquoted)
ParamSpelling(s) == CASE s = 0 -> <<0, 2, 1>> [] s = 1 -> <<1, 0, 2>> [] s = 2 -> <<0, 2, 0>> [] s = 3 -> <<0, 1, 2>>
                      [] s = 4 -> <<0, 0, 0>> [] s = 5 -> <<0, 0, 0>>
\* converter data cut into tokens: whole, two halves, groups of four, single
\* characters, groups of three, all but the last character
RECURSIVE Pieces(_, _)
Pieces(d, n) == IF Len(d) <= n THEN <<d>> ELSE <<SubSeq(d, 1, n)>> \o Pieces(SubSeq(d, n + 1, Len(d)), n)
DataToks(d, s) ==
  IF d = <<>> THEN <<>>
  ELSE CASE s = 0 -> <<d>>
         [] s = 1 -> Pieces(d, (Len(d) + 1) \div 2)
         [] s = 2 -> Pieces(d, 4)
         [] s = 3 -> Pieces(d, 1)
         [] s = 4 -> Pieces(d, 3)
         [] s = 5 -> IF Len(d) = 1 THEN <<d>> ELSE <<SubSeq(d, 1, Len(d) - 1), SubSeq(d, Len(d), Len(d))>>
RdToks(rd, origin, nform, s) ==
  IF rd.t \in {64, 65}
  THEN <<DecDigits(rd.pref), NameText(rd.name, nform, origin, TokStyle(s))>>
       \o [i \in 1..Len(rd.params) |-> ParamTok(rd.params[i], ParamSpelling(s)[i])]
  ELSE IF rd.t = 16 THEN [i \in 1..Len(rd.strs) |-> StrTok(rd.strs[i], TokStyle(s))]
  ELSE IF rd.t = 6 THEN <<NameText(rd.mname, nform, origin, TokStyle(s)), NameText(rd.rname, "abs", origin, TokStyle(s))>>
                        \o [i \in 1..5 |-> DecDigits(rd.nums[i])]
  ELSE IF rd.t \in {48, 61, 43, 50} THEN rd.fields \o DataToks(rd.data, s)
  ELSE IF rd.t \in {2, 5} THEN <<NameText(rd.name, nform, origin, TokStyle(s))>>
  ELSE <<DecDigits(rd.pref), NameText(rd.name, nform, origin, TokStyle(s))>>
\* '@' is special only in the owner position
RdNameForms(rd, origin) == IF rd.t \in {16, 48, 61, 43, 50} THEN {"abs"}
                           ELSE IF rd.t = 6 THEN (NameForms(rd.mname, origin) \ {"at"})
                           ELSE (NameForms(rd.name, origin) \ {"at"})
TypeTok(t, s) == LET n == CASE t = 16 -> <<84, 88, 84>> [] t = 2 -> <<78, 83>> [] t = 15 -> <<77, 88>>
                              [] t = 64 -> <<83, 86, 67, 66>> [] t = 65 -> <<72, 84, 84, 80, 83>>
                              [] t = 6 -> <<83, 79, 65>> [] t = 5 -> <<67, 78, 65, 77, 69>>
                              [] t = 48 -> <<68, 78, 83, 75, 69, 89>> [] t = 43 -> <<68, 83>>
                              [] t = 61 -> <<79, 80, 69, 78, 80, 71, 80, 75, 69, 89>> [] t = 50 -> <<78, 83, 69, 67, 51>>
                 IN IF s = 1 THEN LowerSeq(n)                               \* lower case
                    ELSE IF s \in {3, 4} THEN <<84, 89, 80, 69>> \o DecDigits(t)    \* TYPEnn
                    ELSE n

\* all layouts of one record: [of owner form, tf TTL written, cf class written, nf rdata name form, s style]
RecLayouts(w, e) ==
  { [of |-> of, tf |-> tf, cf |-> cf, nf |-> nf, s |-> s] :
      of \in NameForms(e.owner, w.origin) \cup (IF e.owner = w.lastOwner THEN {"inherit"} ELSE {}),
      tf \in {TRUE} \cup (IF e.ttl = w.dflTtl THEN {FALSE} ELSE {}),
      cf \in {TRUE} \cup (IF w.cls = e.class THEN {FALSE} ELSE {}),
      nf \in RdNameForms(e.rd, w.origin),
      s \in Styles }

RenderRec(w, e, ly) ==
  LET g == Gap(ly.s)
      \* an inherited owner is a line that starts with a blank
      own == IF ly.of = "inherit" THEN (IF ly.s >= 4 THEN <<SP>> ELSE <<>>) ELSE NameText(e.owner, ly.of, w.origin, TokStyle(ly.s))
      ttl == IF ly.tf THEN <<DecDigits(e.ttl)>> ELSE <<>>
      cname == IF e.class = 3 THEN <<67, 72>> ELSE <<73, 78>>
      cls == IF ly.cf THEN <<IF ly.s = 1 THEN [i \in 1..2 |-> cname[i] + 32]
                             ELSE IF ly.s \in {3, 4} THEN <<67, 76, 65, 83, 83>> \o DecDigits(e.class) ELSE cname>> ELSE <<>>
      ct == IF ly.s % 2 = 0 THEN ttl \o cls ELSE cls \o ttl
      mid == Concat([i \in 1..Len(ct) |-> ct[i] \o g])
      rdt == RdToks(e.rd, w.origin, ly.nf, ly.s)
  IN Lead(ly.s) \o (IF ly.of = "inherit" THEN own \o Open(ly.s) ELSE Open(ly.s) \o own) \o g \o mid \o TypeTok(e.rd.t, ly.s)
     \o (IF rdt = <<>> THEN <<>> ELSE g \o Wrap(ly.s, rdt)) \o Eol(ly.s)

DirLayouts == {[s |-> s] : s \in Styles}
RenderDir(w, e, ly) ==
  LET g == Gap(ly.s) ts == TokStyle(ly.s) IN
  IF e.k = "origin"
  THEN Lead(ly.s) \o Open(ly.s) \o (IF ly.s = 1 THEN <<36, 111, 114, 105, 103, 105, 110>> ELSE W_ORIGIN) \o g
       \o NameText(e.name, "abs", w.origin, IF ts = 2 THEN 0 ELSE ts) \o Eol(ly.s)
  ELSE IF e.k = "ttl"
  THEN Lead(ly.s) \o Open(ly.s) \o (IF ly.s = 1 THEN <<36, 116, 116, 108>> ELSE W_TTL) \o g \o DecDigits(e.v) \o Eol(ly.s)
  \* no \\ddd in a path or a control word (scan_string).  The path: escaped,
  \* quoted with its first octet escaped, quoted, quoted with an inner escape;
  \* the control word: plain, quoted with an escape inside, quoted
  ELSE Lead(ly.s) \o Open(ly.s)
       \o (CASE ly.s = 3 -> <<QUOTE, 36, 73, 78, 67, 76, 85, BSL, 68, 69, QUOTE>>          \* "$INCLU\DE"
              [] ly.s = 5 -> <<QUOTE>> \o W_INCLUDE \o <<QUOTE>>
              [] OTHER -> W_INCLUDE)
       \o g
       \o (CASE ly.s = 1 -> QuoEscTok(e.path, 1)
              [] ly.s \in {3, 5} -> QuoEscTok(e.path, 2)
              [] OTHER -> StrTok(e.path, ts))
       \o Eol(ly.s)

LayoutsOf(w, e) == IF e.k = "rec" THEN RecLayouts(w, e)
                   ELSE IF e.k = "lit" THEN {[s |-> 0]} ELSE DirLayouts
Render(w, e, ly) == IF e.k = "rec" THEN RenderRec(w, e, ly)
                    ELSE IF e.k = "lit" THEN e.text ELSE RenderDir(w, e, ly)

--------------------------------------------------------------------------
ReaderInit(v) == RdInitV(WireOf(Origin0), -1, v)

Init == /\ rv \in BOOLEAN /\ file = <<>> /\ wc = WcInit /\ m = ReaderInit(rv) /\ text = <<>> /\ act = "Init"

Ended(f) == StopAt(f, rv) # 0
\* without class checking only files with the record of the other class are of interest
HasOther(f) == \E i \in 1..Len(f) : f[i] = RecCH
Wanted(f) == rv \/ HasOther(f) \/ Len(f) < MaxEntries

\* the metamorphic law, checked on every transition (every layout)
Conforms(f, mm) == Outcome(mm, Dev) = Logical(f)

CodeOutcome(t, d) == ReadAllV(t, WireOf(Origin0), -1, rv, {d})
DevMap(t, o) ==
  LET diff == {d \in MapDevs : CodeOutcome(t, d) # o} IN
  IF diff = {} THEN [none |-> TRUE]
  ELSE IF Cardinality(diff) > 1 \/ (\E d \in diff : CodeOutcome(t, d) = Unmodelled) THEN [skip |-> TRUE]
  ELSE LET d == CHOOSE x \in diff : TRUE IN [x \in {d} |-> CodeOutcome(t, x)]

EmitCase(t, o, a) ==
  LET dm == DevMap(t, o)
      \* every route occurs with every kind of entry: it follows the length
      route == Routes[(Len(t) % Len(Routes)) + 1]
      inp == [text |-> t, origin |-> WireOf(Origin0), class |-> -1, act |-> a,
              route |-> route, allow_invalid |-> ~rv, parsed |-> BuilderOf(ParsedOf(o))]
      WithParsedD(x, dv) == IF DOMAIN x = {"entries", "err"} THEN [entries |-> x.entries, err |-> x.err, parsed |-> ParsedOfD(x, dv)] ELSE x
      WithParsed(x) == WithParsedD(x, {})
      PD == "D_parsed_no_apex_unwrap"
  IN IF "skip" \in DOMAIN dm THEN TRUE
     ELSE IF "none" \in DOMAIN dm
     THEN IF WithParsedD(o, {PD}) = WithParsed(o) THEN PrintT("CASE " \o ToJson([in |-> inp, exp |-> WithParsed(o)]))
          ELSE PrintT("CASE " \o ToJson([in |-> inp, exp |-> WithParsed(o), dev |-> [d \in {PD} |-> WithParsedD(o, {PD})]]))
     ELSE PrintT("CASE " \o ToJson([in |-> inp, exp |-> WithParsed(o), dev |-> [d \in DOMAIN dm |-> WithParsed(dm[d])]]))

Step(e, ly, emit, a) ==
  LET t == Render(wc, e, ly)
      m2 == FeedAll(m, t, 1, Dev)
      f2 == Append(file, e)
  IN /\ Wanted(f2)
     /\ Dev # {} \/ Assert(Conforms(f2, m2), <<"layout changes the logical content", text \o t, f2>>)
     /\ (emit => EmitCase(text \o t, Logical(f2), a))
     /\ file' = f2 /\ wc' = WcNext(wc, e) /\ m' = m2 /\ text' = text \o t /\ act' = a /\ UNCHANGED rv

\* one action per entry shape of the reader ---------------------------------
StepOf(kinds, forms, emit, a) ==
  /\ Len(file) < MaxEntries /\ ~Ended(file)
  /\ \E e \in Entries : e.k \in kinds /\
       \E ly \in LayoutsOf(wc, e) : (e.k = "rec" => ly.of \in forms) /\ Step(e, ly, emit, a)

OriginDirective(emit)  == StepOf({"origin"}, {}, emit, "OriginDirective")
TtlDirective(emit)     == StepOf({"ttl"}, {}, emit, "TtlDirective")
IncludeDirective(emit) == StepOf({"include"}, {}, emit, "IncludeDirective")
RecordExplicit(emit)   == StepOf({"rec"}, {"abs", "rel"}, emit, "RecordExplicit")
RecordAtSign(emit)     == StepOf({"rec"}, {"at"}, emit, "RecordAtSign")
RecordInherited(emit)  == StepOf({"rec"}, {"inherit"}, emit, "RecordInherited")
Rejected(emit)         == StepOf({"lit"}, {}, emit, "Rejected")

NextE(emit) == OriginDirective(emit) \/ TtlDirective(emit) \/ IncludeDirective(emit)
               \/ RecordExplicit(emit) \/ RecordAtSign(emit) \/ RecordInherited(emit) \/ Rejected(emit)
Next == NextE(FALSE)
NextGen == NextE(TRUE)
Spec == Init /\ [][Next]_vars
GenSpec == Init /\ [][NextGen]_vars

\* state invariants
Metamorphic == Conforms(file, m)
ReaderContextAgrees ==     \* the reader's inherited context is the writer's
  ~Ended(file) => /\ m.en.origin = WireOf(wc.origin)
                  /\ (wc.lastOwner # <<>> => m.en.lastOwner = WireOf(wc.lastOwner))
                  /\ m.en.lastClass = wc.cls
                  /\ m.en.toks = <<>> /\ m.tk.par = 0 /\ m.tk.m = "gap"
=============================================================================
