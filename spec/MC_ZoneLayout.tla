--------------------------- MODULE MC_ZoneLayout ---------------------------
(* Token level / metamorphic: a *logical file* is a sequence of resolved    *)
(* records and directives.  Layouts(file) are its renderings as text by     *)
(* independent choices per entry: owner written absolute / relative to      *)
(* $ORIGIN / as @ / inherited by indentation; TTL and class written or      *)
(* inherited ($TTL or last stated TTL; last class); TTL-class order;        *)
(* spacing (SP, TAB, runs, CRLF), parenthesised continuation lines,         *)
(* comments, blank lines; tokens plain / decimal-escaped / quoted.          *)
(* The oracle Logical(file) is the record list itself; the reader machine   *)
(* of ZoneFile.tla must produce it from every layout.                       *)
EXTENDS ZoneFile, TLC, Json

CONSTANT MaxEntries

VARIABLES file,    \* logical entries so far
          wc,      \* writer-side context (which omissions are valid)
          m,       \* reader machine (deviations Dev) after the text
          text,    \* one text that leads here (history, not in the VIEW)
          act      \* name of the last action (carried by the generated cases)
vars == <<file, wc, m, text, act>>
View == <<file, wc, m.en>>

S(str) == str   \* octet strings are written as tuples below
\* labels
La == <<97>>  Lb == <<98>>  Lo == <<111>>  Lx == <<120>>  Lsp == <<120, 32, 121>>   \* "x y"
NA == <<La, Lo>>  NB == <<Lb, Lo>>  NO == <<Lo>>  NX == <<Lx>>  NAX == <<La, Lx>>  NSP == <<Lsp, Lo>>
WireOf(n) == Concat([i \in 1..Len(n) |-> <<Len(n[i])>> \o n[i]]) \o <<0>>

Origin0 == NO

\* record data: abstract value and its wire form
TxtQR == [t |-> 16, strs |-> << <<113, 32, 114>> >>]              \* "q r"
TxtT  == [t |-> 16, strs |-> << <<116>> >>]                       \* "t"
TxtTE == [t |-> 16, strs |-> << <<116>>, <<>> >>]                 \* "t" ""
NsNB  == [t |-> 2, name |-> NB]
NsNX  == [t |-> 2, name |-> NX]
MxNA  == [t |-> 15, pref |-> 10, name |-> NA]
\* SVCB / HTTPS: priority, target, an *ordered* list of parameters as written
\* (key text, value text) and the wire form (ascending keys) it denotes
P(k, v) == [k |-> k, v |-> v]
SvcbA == [t |-> 64, pref |-> 1, name |-> NB,
          params |-> << P(<<97, 108, 112, 110>>, <<104, 50, 44, 104, 51>>),          \* alpn=h2,h3
                        P(<<112, 111, 114, 116>>, <<52, 52, 51>>),                      \* port=443
                        P(<<107, 101, 121, 54, 53, 50, 56, 48>>, <<97, 98, 99>>) >>,   \* key65280=abc
          pwire |-> <<0, 1, 0, 6, 2, 104, 50, 2, 104, 51,  0, 3, 0, 2, 1, 187,  255, 0, 0, 3, 97, 98, 99>>]
HttpsB == [t |-> 65, pref |-> 16, name |-> NO,
           params |-> << P(<<112, 111, 114, 116>>, <<56, 52, 52, 51>>),                \* port=8443
                         P(<<97, 108, 112, 110>>, <<104, 51>>) >>,                      \* alpn=h3
           pwire |-> <<0, 1, 0, 3, 2, 104, 51,  0, 3, 0, 2, 32, 251>>]
RdWire(rd) ==
  IF rd.t \in {64, 65} THEN EncU16(rd.pref) \o WireOf(rd.name) \o rd.pwire
  ELSE IF rd.t = 16 THEN Concat([i \in 1..Len(rd.strs) |-> <<Len(rd.strs[i])>> \o rd.strs[i]])
  ELSE IF rd.t = 2 THEN WireOf(rd.name)
  ELSE EncU16(rd.pref) \o WireOf(rd.name)

Rec(o, ttl, rd) == [k |-> "rec", owner |-> o, class |-> 1, ttl |-> ttl, rd |-> rd]
\* literal entries: text the ideal reader must reject (the witnesses of the
\* deviations), no layout variation
Lit(t) == [k |-> "lit", text |-> t]
LitEmptyLabel == <<97, 46, 46, 98, 32, 73, 78, 32, 84, 88, 84, 32, 116, 10>>          \* a..b IN TXT t
LitBigTtl     == <<36, 84, 84, 76, 32, 52, 50, 57, 52, 57, 54, 55, 50, 57, 54, 10>>   \* $TTL 4294967296
LitNoData     == <<98, 32, 73, 78, 32, 84, 88, 84, 10>>                               \* b IN TXT

Entries == {
  [k |-> "origin", name |-> NX], [k |-> "ttl", v |-> 7],
  [k |-> "include", path |-> <<102, 32, 103>>],                  \* f g
  Rec(NA, 3600, TxtQR), Rec(NA, 5, NsNB), Rec(NO, 3600, MxNA),
  Rec(NSP, 5, TxtTE), Rec(NAX, 7, NsNX), Rec(NB, 7, TxtT),
  Rec(NA, 3600, SvcbA), Rec(NB, 5, HttpsB),
  Lit(LitEmptyLabel), Lit(LitBigTtl), Lit(LitNoData) }

--------------------------------------------------------------------------
(* Oracle *)
LogicalEntry(e) ==
  IF e.k = "rec" THEN <<[owner |-> WireOf(e.owner), class |-> e.class, ttl |-> e.ttl,
                         rtype |-> e.rd.t, rdata |-> RdWire(e.rd)]>>
  ELSE IF e.k = "include" THEN <<[include |-> e.path, origin |-> <<>>]>>
  ELSE <<>>
Logical(f) == [entries |-> Concat([i \in 1..Len(f) |-> LogicalEntry(f[i])]),
               err |-> \E i \in 1..Len(f) : f[i].k = "lit"]

\* writer-side context: what may be omitted in the next entry
WcInit == [origin |-> Origin0, lastOwner |-> <<>>, dflTtl |-> 3600, dollar |-> FALSE, classSet |-> FALSE]
WcNext(w, e) ==
  IF e.k = "origin" THEN [w EXCEPT !.origin = e.name]
  ELSE IF e.k = "ttl" THEN [w EXCEPT !.dflTtl = e.v, !.dollar = TRUE]
  ELSE IF e.k = "rec" THEN [w EXCEPT !.lastOwner = e.owner, !.classSet = TRUE,
                                     !.dflTtl = IF w.dollar THEN @ ELSE e.ttl]
  ELSE w

--------------------------------------------------------------------------
(* Rendering *)
RECURSIVE DecDigits(_)
DecDigits(n) == IF n < 10 THEN <<48 + n>> ELSE DecDigits(n \div 10) \o <<48 + (n % 10)>>
Dec3(b) == <<BSL, 48 + (b \div 100), 48 + ((b \div 10) % 10), 48 + (b % 10)>>

\* token styles: 0 plain (escape what must be), 1 first octet as \ddd, 2 quoted
NeedsEsc(b, inName) == b \in {SP, QUOTE, BSL, SEMI, LPAR, RPAR} \/ (inName /\ b = DOT) \/ b < 33 \/ b > 126
EscOct(b, inName) == IF b < 32 \/ b > 126 THEN Dec3(b)
                     ELSE IF NeedsEsc(b, inName) THEN <<BSL, b>> ELSE <<b>>
QuoOct(b, inName) == IF b < 32 \/ b > 126 THEN Dec3(b)
                     ELSE IF b \in {QUOTE, BSL} \/ (inName /\ b = DOT) THEN <<BSL, b>> ELSE <<b>>
Body(o, ts, inName) ==
  Concat([i \in 1..Len(o) |->
     IF ts = 2 THEN QuoOct(o[i], inName)
     ELSE IF ts = 1 /\ i = 1 THEN Dec3(o[i])
     ELSE EscOct(o[i], inName)])
RECURSIVE JoinDots(_)
JoinDots(ps) == IF Len(ps) = 0 THEN <<>> ELSE IF Len(ps) = 1 THEN ps[1]
                ELSE ps[1] \o <<DOT>> \o JoinDots(Tail(ps))
\* a name token: labels joined by dots, absolute gets the final dot
NameTok(labels, abs, ts) ==
  LET b == JoinDots([i \in 1..Len(labels) |-> Body(labels[i], ts, TRUE)]) \o (IF abs THEN <<DOT>> ELSE <<>>)
  IN IF ts = 2 THEN <<QUOTE>> \o b \o <<QUOTE>> ELSE b
StrTok(o, ts) == IF ts = 2 \/ o = <<>> THEN <<QUOTE>> \o Body(o, 2, FALSE) \o <<QUOTE>> ELSE Body(o, ts, FALSE)

IsUnder(n, z) == Len(n) > Len(z) /\ SubSeq(n, Len(n) - Len(z) + 1, Len(n)) = z
\* forms in which a name may be written given the origin
NameForms(n, origin) == {"abs"} \cup (IF IsUnder(n, origin) THEN {"rel"} ELSE {}) \cup (IF n = origin THEN {"at"} ELSE {})
NameText(n, form, origin, ts) ==
  IF form = "abs" THEN NameTok(n, TRUE, ts)
  ELSE IF form = "rel" THEN NameTok(SubSeq(n, 1, Len(n) - Len(origin)), FALSE, ts)
  ELSE IF ts = 2 THEN <<QUOTE, AT, QUOTE>> ELSE <<AT>>

\* spacing styles
Styles == 0..3
Gap(s)  == CASE s = 0 -> <<SP>> [] s = 1 -> <<TAB>> [] s = 2 -> <<SP, SP>> [] s = 3 -> <<SP, TAB, CR>>
Eol(s)  == CASE s = 0 -> <<LF>> [] s = 1 -> <<CR, LF>> [] s = 2 -> <<SP, SEMI, 99, 34, 40, LF>>   \* ' ;c"(' LF
             [] s = 3 -> <<SEMI, LF>>
Lead(s) == CASE s = 0 -> <<>> [] s = 1 -> <<LF>> [] s = 2 -> <<SEMI, 32, 41, LF>>                 \* '; )' LF
             [] s = 3 -> <<SP, LF, CR, LF>>
\* the record data part, possibly wrapped in parentheses over several lines
Wrap(s, toks) ==
  LET j(g) == Concat([i \in 1..Len(toks) |-> (IF i = 1 THEN <<>> ELSE g) \o toks[i]])
  IN CASE s = 0 -> j(<<SP>>)
       [] s = 1 -> j(<<TAB>>)
       [] s = 2 -> <<LPAR, LF, SP>> \o j(<<LF, TAB>>) \o <<SP, SEMI, 120, LF, RPAR>>
       [] s = 3 -> <<LPAR>> \o j(<<SP, LPAR, LF, RPAR>>) \o <<RPAR>>
TokStyle(s) == CASE s = 0 -> 0 [] s = 1 -> 1 [] s = 2 -> 2 [] s = 3 -> 0

\* a parameter in three spellings: key=value, key="value", "key=value";
\* which one depends on the style and the position, so every separator of a
\* style meets every spelling
ParamTok(p, sp) ==
  CASE sp = 0 -> p.k \o <<61>> \o p.v
    [] sp = 1 -> p.k \o <<61, QUOTE>> \o p.v \o <<QUOTE>>
    [] sp = 2 -> <<QUOTE>> \o p.k \o <<61>> \o p.v \o <<QUOTE>>
\* spelling of the i-th parameter in style s: every separator kind meets an
\* unquoted parameter followed by a wholly quoted one (0 -> 2), and the other
\* successions occur in some style
ParamSpelling(s) == CASE s = 0 -> <<0, 2, 1>> [] s = 1 -> <<1, 0, 2>> [] s = 2 -> <<0, 2, 0>> [] s = 3 -> <<0, 1, 2>>
RdToks(rd, origin, nform, s) ==
  IF rd.t \in {64, 65}
  THEN <<DecDigits(rd.pref), NameText(rd.name, nform, origin, TokStyle(s))>>
       \o [i \in 1..Len(rd.params) |-> ParamTok(rd.params[i], ParamSpelling(s)[i])]
  ELSE IF rd.t = 16 THEN [i \in 1..Len(rd.strs) |-> StrTok(rd.strs[i], TokStyle(s))]
  ELSE IF rd.t = 2 THEN <<NameText(rd.name, nform, origin, TokStyle(s))>>
  ELSE <<DecDigits(rd.pref), NameText(rd.name, nform, origin, TokStyle(s))>>
\* '@' is special only in the owner position
RdNameForms(rd, origin) == IF rd.t = 16 THEN {"abs"} ELSE (NameForms(rd.name, origin) \ {"at"})
TypeTok(t, s) == LET n == CASE t = 16 -> <<84, 88, 84>> [] t = 2 -> <<78, 83>> [] t = 15 -> <<77, 88>>
                              [] t = 64 -> <<83, 86, 67, 66>> [] t = 65 -> <<72, 84, 84, 80, 83>>
                 IN IF s = 1 THEN [i \in 1..Len(n) |-> n[i] + 32]           \* lower case
                    ELSE IF s = 3 THEN <<84, 89, 80, 69>> \o DecDigits(t)    \* TYPEnn
                    ELSE n

\* all layouts of one record: [of owner form, tf TTL written, cf class written, nf rdata name form, s style]
RecLayouts(w, e) ==
  { [of |-> of, tf |-> tf, cf |-> cf, nf |-> nf, s |-> s] :
      of \in NameForms(e.owner, w.origin) \cup (IF e.owner = w.lastOwner THEN {"inherit"} ELSE {}),
      tf \in {TRUE} \cup (IF e.ttl = w.dflTtl THEN {FALSE} ELSE {}),
      cf \in {TRUE} \cup (IF w.classSet THEN {FALSE} ELSE {}),
      nf \in RdNameForms(e.rd, w.origin),
      s \in Styles }

RenderRec(w, e, ly) ==
  LET g == Gap(ly.s)
      own == IF ly.of = "inherit" THEN <<>> ELSE NameText(e.owner, ly.of, w.origin, TokStyle(ly.s))
      ttl == IF ly.tf THEN <<DecDigits(e.ttl)>> ELSE <<>>
      cls == IF ly.cf THEN <<IF ly.s = 1 THEN <<105, 110>> ELSE IF ly.s = 3 THEN <<67, 76, 65, 83, 83, 49>> ELSE <<73, 78>>>> ELSE <<>>
      ct == IF ly.s % 2 = 0 THEN ttl \o cls ELSE cls \o ttl
      mid == Concat([i \in 1..Len(ct) |-> ct[i] \o g])
  IN Lead(ly.s) \o own \o g \o mid \o TypeTok(e.rd.t, ly.s) \o g
     \o Wrap(ly.s, RdToks(e.rd, w.origin, ly.nf, ly.s)) \o Eol(ly.s)

DirLayouts == {[s |-> s] : s \in Styles}
RenderDir(w, e, ly) ==
  LET g == Gap(ly.s) ts == TokStyle(ly.s) IN
  IF e.k = "origin"
  THEN Lead(ly.s) \o (IF ly.s = 1 THEN <<36, 111, 114, 105, 103, 105, 110>> ELSE W_ORIGIN) \o g
       \o NameText(e.name, "abs", w.origin, IF ts = 2 THEN 0 ELSE ts) \o Eol(ly.s)
  ELSE IF e.k = "ttl"
  THEN Lead(ly.s) \o (IF ly.s = 1 THEN <<36, 116, 116, 108>> ELSE W_TTL) \o g \o DecDigits(e.v) \o Eol(ly.s)
  ELSE Lead(ly.s) \o W_INCLUDE \o g \o StrTok(e.path, IF ts = 1 THEN 0 ELSE ts) \o Eol(ly.s)   \* no \\ddd in a path (scan_string)

LayoutsOf(w, e) == IF e.k = "rec" THEN RecLayouts(w, e)
                   ELSE IF e.k = "lit" THEN {[s |-> 0]} ELSE DirLayouts
Render(w, e, ly) == IF e.k = "rec" THEN RenderRec(w, e, ly)
                    ELSE IF e.k = "lit" THEN e.text ELSE RenderDir(w, e, ly)

--------------------------------------------------------------------------
ReaderInit(dv) == RdInit(WireOf(Origin0), -1)

Init == /\ file = <<>> /\ wc = WcInit /\ m = ReaderInit(Dev) /\ text = <<>> /\ act = "Init"

Ended(f) == \E i \in 1..Len(f) : f[i].k = "lit"

\* the metamorphic law, checked on every transition (every layout)
Conforms(f, mm) == Outcome(mm, Dev) = Logical(f)

CodeOutcome(t, d) == ReadAll(t, WireOf(Origin0), -1, {d})
DevMap(t, o) ==
  LET diff == {d \in AllDevs : CodeOutcome(t, d) # o} IN
  IF diff = {} THEN [none |-> TRUE]
  ELSE IF Cardinality(diff) > 1 \/ (\E d \in diff : CodeOutcome(t, d) = Unmodelled) THEN [skip |-> TRUE]
  ELSE LET d == CHOOSE x \in diff : TRUE IN [x \in {d} |-> CodeOutcome(t, x)]

EmitCase(t, o, a) ==
  LET dm == DevMap(t, o)
      inp == [text |-> t, origin |-> WireOf(Origin0), class |-> -1, act |-> a]
  IN IF "skip" \in DOMAIN dm THEN TRUE
     ELSE IF "none" \in DOMAIN dm THEN PrintT("CASE " \o ToJson([in |-> inp, exp |-> o]))
     ELSE PrintT("CASE " \o ToJson([in |-> inp, exp |-> o, dev |-> dm]))

Step(e, ly, emit, a) ==
  LET t == Render(wc, e, ly)
      m2 == FeedAll(m, t, 1, Dev)
      f2 == Append(file, e)
  IN /\ Dev # {} \/ Assert(Conforms(f2, m2), <<"layout changes the logical content", text \o t, f2>>)
     /\ (emit => EmitCase(text \o t, Logical(f2), a))
     /\ file' = f2 /\ wc' = WcNext(wc, e) /\ m' = m2 /\ text' = text \o t /\ act' = a

\* one action per entry shape of the reader ---------------------------------
StepOf(kinds, forms, emit, a) ==
  /\ Len(file) < MaxEntries /\ ~Ended(file)
  /\ \E e \in Entries : e.k \in kinds /\
       \E ly \in LayoutsOf(wc, e) : (e.k = "rec" => ly.of \in forms) /\ Step(e, ly, emit, a)

OriginDirective(emit)  == StepOf({"origin"}, {}, emit, "OriginDirective")
TtlDirective(emit)     == StepOf({"ttl"}, {}, emit, "TtlDirective")
IncludeDirective(emit) == StepOf({"include"}, {}, emit, "IncludeDirective")
RecordExplicit(emit)   == StepOf({"rec"}, {"abs", "rel"}, emit, "RecordExplicit")
RecordAtSign(emit)     == StepOf({"rec"}, {"at"}, emit, "RecordAtSign")
RecordInherited(emit)  == StepOf({"rec"}, {"inherit"}, emit, "RecordInherited")
Rejected(emit)         == StepOf({"lit"}, {}, emit, "Rejected")

NextE(emit) == OriginDirective(emit) \/ TtlDirective(emit) \/ IncludeDirective(emit)
               \/ RecordExplicit(emit) \/ RecordAtSign(emit) \/ RecordInherited(emit) \/ Rejected(emit)
Next == NextE(FALSE)
NextGen == NextE(TRUE)
Spec == Init /\ [][Next]_vars
GenSpec == Init /\ [][NextGen]_vars

\* state invariants
Metamorphic == Conforms(file, m)
ReaderContextAgrees ==     \* the reader's inherited context is the writer's
  ~Ended(file) => /\ m.en.origin = WireOf(wc.origin)
                  /\ (wc.lastOwner # <<>> => m.en.lastOwner = WireOf(wc.lastOwner))
                  /\ (wc.classSet <=> m.en.lastClass = 1)
                  /\ m.en.toks = <<>> /\ m.tk.par = 0 /\ m.tk.m = "gap"
=============================================================================
