CONSTANTS
  Dev = {}
  RecU = {5, 13}
  TtlU = {0}
  Styles = {"rfc"}
  MaxC = 2
  Kinds = {"axfr", "ixfr1", "ixfr2", "fallback", "uptodate"}
  MaxMsgs = 4
  FaultKinds = {"none", "drop", "dup", "swap", "trunc", "csoa"}
  LaterQ = {FALSE, TRUE}
SPECIFICATION CSpec
INVARIANT ClientStepwiseIsFold
INVARIANT ClientEndAgrees
INVARIANT ClientEndIsInterpreterEnd
INVARIANT ClientOrdered
CHECK_DEADLOCK FALSE
