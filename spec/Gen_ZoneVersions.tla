--------------------------- MODULE Gen_ZoneVersions ---------------------------
(* S->I behaviour generator for ZoneVersions.tla: reader acquire/release,   *)
(* write sessions (update / remove the apex SOA and TXT RRsets, commit with *)
(* or without bump_soa_serial, abandon).  After every step the case carries *)
(* what each held reader and a fresh reader must see (SOA serial, TXT       *)
(* value; -1 = no such RRset).  Clean and the second commit step have no    *)
(* public counterpart and are performed on the model only.                  *)
EXTENDS MC_ZoneVersions, Json

CONSTANTS MaxHist, Mode
VARIABLE hist

Val(g) == IF IsData(g) THEN ValOf(g) ELSE -1
See(v) == [soa |-> Val(VGet(rr["SOA"], v)), txt |-> Val(VGet(rr["TXT"], v))]
Proj == [fresh |-> See(current),
         held |-> [r \in {x \in Readers : held[x] # -1} |-> See(held[r])]]

GenInit == Init /\ hist = <<>>
GenNext == /\ Len(hist) < MaxHist
           /\ Next
           /\ hist' = Append(hist, [op |-> last', p |-> Proj'])
GenSpec == GenInit /\ [][GenNext]_<<vars, hist>>
GenView == IF Mode = "states" THEN View ELSE <<vars, hist>>

\* the zone the behaviour started with
Init0 == IF hist = <<>> THEN -1 ELSE 0
Case == [in |-> [soa0 |-> Val(VGet(rr["SOA"], 0)), bits |-> SerialBits,
                 ops |-> [i \in DOMAIN hist |-> hist[i].op]],
         exp |-> [i \in DOMAIN hist |-> hist[i].p]]
Emit == (hist # <<>> /\ (Mode = "states" \/ Len(hist) = MaxHist)) => PrintT("CASE " \o ToJson(Case))
=============================================================================
