CONSTANTS
  Mod = 64
  Past = 12
  Future = 4
  Dev = {}
  NowAll = FALSE
  NowQuick = TRUE
  BehLen = 8
SPECIFICATION GridSpec
INVARIANT EmitGrid
CHECK_DEADLOCK FALSE
INVARIANT GridIsModelGrid
