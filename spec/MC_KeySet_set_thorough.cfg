CONSTANTS
  Keys <- MCKeys
  KType <- MCKType
  KAlg <- MCKAlg
  MaxTTL = 1
  Dev = {}
  KeySeq <- KS_c
  MaxList = 2
  Ops = {"add_unavailable", "set_present", "set_signer", "set_at_parent", "set_stale", "set_decoupled", "set_visible", "set_ds_visible", "set_rrsig_visible"}
  SetKeys = {"c1"}
  Rts = {"AlgorithmRoll"}
  AltTag = {}
  OddLists = FALSE
  WellTyped = TRUE
  NoopRolls = FALSE
SPECIFICATION Spec
VIEW MCView
ACTION_CONSTRAINT CoverT
INVARIANT Exclusive
INVARIANT NoPanic
INVARIANT TtlOnlyWhenWaiting
INVARIANT Shape
PROPERTY Ordered
PROPERTY RefusedUnchanged
CHECK_DEADLOCK FALSE
