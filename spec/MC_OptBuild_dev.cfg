CONSTANTS
  Dev = {"D_understood_odd_len"}
  MaxPush = 1
  Wide = FALSE
  Big = 300
SPECIFICATION Spec
INVARIANT LawImplReadsBack
CHECK_DEADLOCK FALSE
