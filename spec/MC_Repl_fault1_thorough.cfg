CONSTANTS
  Dev <- EnvDev
  XDev <- XEnvDev
  Hists <- HistsC
  Bases = {14}
  Reqs <- ReqsAll
  Keys = {"good"}
  OldC <- OldC9
  MaxMsgs = 3
  LaterQ = {TRUE, FALSE}
  FaultKinds = {"drop", "dup", "swap", "truncrec", "fliprec", "flipmac", "strip", "rekey", "splice", "replay", "forge", "burst", "cut"}
  MaxFaults = 1
  Bursts = {99, 100}
  Prim = "scripted"
SPECIFICATION Spec
INVARIANT Replicated
INVARIANT NoPartialInOrder
INVARIANT PublishedLegit
INVARIANT AcceptedIsPrefix
INVARIANT AppliedIsCurrent
INVARIANT KeyMismatchNothing
INVARIANT AlteredRequestNothing
INVARIANT FailureExplained
INVARIANT TamperNoticed
INVARIANT Emit
PROPERTY Terminates
CHECK_DEADLOCK FALSE
