CONSTANTS
  Dev = {}
  Words <- AllWords
  PairWords <- SomeWords
SPECIFICATION LSpec
INVARIANTS WordLaws PairLaws Partition RcodeLaws RcodePartsInverse OptLaws
CHECK_DEADLOCK FALSE
